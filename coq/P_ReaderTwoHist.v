(* P_ReaderTwoHist.v -- property C15, C lifted to two histories.

   Two callers walk the same archive.  Both issue the same OpNext calls and the
   same extract calls on directories / symbolic links / re-presented entries
   (the "skeleton"); between them each does what it likes with the members:
   reads of any sizes, checks, in any number (the property's "at most one decode
   operation per member" is not needed).  Then the OpNext calls return the same
   headers in both histories, and the readers stay related ([sim]); one more
   lha_reader_next_file returns the same header and [reader_equiv] readers.

   Extraction of regular files is NOT a decode operation in this sense: it
   writes to the filesystem, and the outcome of a later mkdir -- hence whether
   the directory is re-presented -- depends on the filesystem.  See
   [file_extract_changes_headers] for a history where extracting a file instead
   of skipping it changes the sequence of headers.  File extraction is covered
   when no directory / symlink is extracted afterwards
   ([two_histories_file_extracts]): then the filesystems may be unrelated.

   Lemmas and theorems only. *)
From Lhasa Require Import Base DecBase ListN Loop Generated InputStream Header BasicReader AnyDecoder Decoder
  MacBinary Fs FsRun Reader P_HeaderSafe P_Intact P_StreamEquiv P_BasicReaderIndep P_ReaderIndep P_ReaderIndepFull.
From Coq Require Import ZifyBool ZifyN ZifyNat.
Local Open Scope N_scope.

(* ------------------------------------------------------------------ *)
(* Outcome relations: symmetry, transitivity                           *)

Lemma orel_sym {A B} (R : A -> B -> Prop) (R' : B -> A -> Prop) x y :
  (forall a b, R a b -> R' b a) -> orel R x y -> orel R' y x.
Proof. intros H. destruct x, y; cbn; auto. Qed.

Lemma orel_trans {A B C} (R : A -> B -> Prop) (Q : B -> C -> Prop) (T : A -> C -> Prop) x y z :
  (forall a b c, R a b -> Q b c -> T a c) -> orel R x y -> orel Q y z -> orel T x z.
Proof. intros H. destruct x, y, z; cbn; try contradiction; eauto; try congruence; intros; contradiction. Qed.

Lemma orel_bind_eq {A B A' B'} (R : A -> B -> Prop) (Q : A' -> B' -> Prop) m1 m2 k1 k2 :
  orel R m1 m2 -> (forall a b, m1 = Ok a -> m2 = Ok b -> R a b -> orel Q (k1 a) (k2 b)) ->
  orel Q (bind m1 k1) (bind m2 k2).
Proof. destruct m1, m2; cbn; intros H K; try contradiction; auto. Qed.

Lemma nf_rel_sym x y : nf_rel x y -> nf_rel y x.
Proof. intros [E B]. split; [auto|apply breader_equiv_sym; exact B]. Qed.

Lemma nf_rel_trans x y z : nf_rel x y -> nf_rel y z -> nf_rel x z.
Proof. intros [E B] [E' B']. split; [congruence|eapply breader_equiv_trans; eauto]. Qed.

Lemma read_many_curr sizes : forall b, br_curr (read_many b sizes) = br_curr b.
Proof.
  induction sizes as [|n l IH]; intros b; cbn [read_many fold_left]; [reflexivity|].
  change (fold_left (fun r n => snd (lha_basic_reader_read_compressed r n)) l
            (snd (lha_basic_reader_read_compressed b n)))
    with (read_many (snd (lha_basic_reader_read_compressed b n)) l).
  rewrite IH. unfold lha_basic_reader_read_compressed.
  destruct (br_eof b || (br_remaining b =? 0)); [reflexivity|].
  destruct (is_state (br_stream b)); [reflexivity| |];
    destruct (read_ready _ _) as [[bs|] st']; reflexivity.
Qed.

Section TwoHistories.
  Variable mktime : N -> N -> N -> N -> Z -> N -> N.
  Variable junk : N.

  (* ---------------------------------------------------------------- *)
  (* Callers                                                           *)

  Inductive dop : Type :=
  | DRead (n : N)
  | DCheck (mon : bool)
  | DExtractFile (fn : option (list N)) (mon : bool).   (* extract the entry if it is a regular file *)

  Inductive hop : Type :=
  | HNext
  | HExtractEntry (fn : option (list N)) (mon : bool)   (* extract the entry unless it is a regular file *)
  | HDecode (d : dop).

  (* the current entry is a member of the archive that is a regular file *)
  Definition is_member_file (r : reader) : bool :=
    match rd_type r, rd_curr r with
    | CT_NORMAL, Some h => negb (is_dir_method h)
    | _, _ => false
    end.

  Definition run_hop (s : reader * fs) (o : hop) : outcome (obs * (reader * fs)) :=
    match o with
    | HNext => run_op mktime junk s OpNext
    | HExtractEntry fn mon =>
      if is_member_file (fst s) then Ok (ObsBool false, s) else run_op mktime junk s (OpExtract fn mon)
    | HDecode (DRead n) => run_op mktime junk s (OpRead n)
    | HDecode (DCheck mon) => run_op mktime junk s (OpCheck mon)
    | HDecode (DExtractFile fn mon) =>
      if is_member_file (fst s) then run_op mktime junk s (OpExtract fn mon) else Ok (ObsBool false, s)
    end.

  Fixpoint run_hops (s : reader * fs) (l : list hop) : outcome (list obs * (reader * fs)) :=
    match l with
    | [] => Ok ([], s)
    | o :: rest =>
      '(x, s1) <- run_hop s o ;;
      '(xs, s2) <- run_hops s1 rest ;;
      Ok (x :: xs, s2)
    end.

  Definition is_decode (o : hop) : bool := match o with HDecode _ => true | _ => false end.
  Definition skel (l : list hop) : list hop := filter (fun o => negb (is_decode o)) l.
  Definition writes_fs (o : hop) : bool := match o with HDecode (DExtractFile _ _) => true | _ => false end.
  Definition is_entry_extract (o : hop) : bool := match o with HExtractEntry _ _ => true | _ => false end.

  (* what the OpNext calls returned *)
  Fixpoint headers (xs : list obs) : list (option header * bool) :=
    match xs with
    | [] => []
    | ObsEntry h fake :: r => (h, fake) :: headers r
    | _ :: r => headers r
    end.

  (* ---------------------------------------------------------------- *)
  (* The relation between the two readers                              *)

  Definition sim (r1 r2 : reader) : Prop :=
    dframe r1 r2 /\
    (rd_type r1 <> CT_NORMAL -> rd_decoder r1 = None) /\ (rd_type r2 <> CT_NORMAL -> rd_decoder r2 = None) /\
    (rd_type r1 <> CT_NORMAL -> breader_equiv (rd_br r1) (rd_br r2)) /\
    exists b1 b2, br_wf b1 /\ br_wf b2 /\ breader_equiv b1 b2 /\ reach b1 (rd_br r1) /\ reach b2 (rd_br r2).

  Lemma sim_sym r1 r2 : sim r1 r2 -> sim r2 r1.
  Proof.
    intros (F & N1 & N2 & E & b1 & b2 & W1 & W2 & B & R1 & R2).
    pose proof F as (_ & T & _).
    split; [apply dframe_sym; exact F|]. split; [exact N2|]. split; [exact N1|].
    split; [intros H; apply breader_equiv_sym; apply E; congruence|].
    exists b2, b1. split; [exact W2|]. split; [exact W1|]. split; [apply breader_equiv_sym; exact B|]. split; assumption.
  Qed.

  Lemma sim_refl_new r : br_wf (rd_br r) -> (rd_type r <> CT_NORMAL -> rd_decoder r = None) -> sim r r.
  Proof.
    intros W N. split; [apply dframe_refl|]. split; [exact N|]. split; [exact N|].
    split; [intros; apply breader_equiv_refl|].
    exists (rd_br r), (rd_br r). split; [exact W|]. split; [exact W|]. split; [apply breader_equiv_refl|]. split; apply reach_refl.
  Qed.

  Lemma sim_wf r1 r2 : sim r1 r2 -> br_wf (rd_br r1) /\ br_wf (rd_br r2).
  Proof.
    intros (_ & _ & _ & _ & b1 & b2 & W1 & W2 & _ & [s1 ->] & [s2 ->]). split; apply read_many_wf; assumption.
  Qed.

  Lemma sim_curr r1 r2 : sim r1 r2 -> br_curr (rd_br r1) = br_curr (rd_br r2).
  Proof.
    intros (_ & _ & _ & _ & b1 & b2 & _ & _ & (C & _) & [s1 ->] & [s2 ->]). rewrite !read_many_curr. exact C.
  Qed.

  (* ---------------------------------------------------------------- *)
  (* Decode operations on one side                                     *)

  Lemma decode_outside_member r : rd_type r <> CT_NORMAL -> rd_decoder r = None ->
    (forall n, lha_reader_read junk r n = Ok ([], [], r)) /\
    (forall mon, lha_reader_check junk r mon = Ok (false, [], r)).
  Proof.
    intros H D. split; intros; unfold lha_reader_read, lha_reader_check, open_decoder; rewrite ?D;
      destruct (rd_type r); try reflexivity; contradiction H; reflexivity.
  Qed.

  Lemma extract_file_reach r f fn mon ok ev r' f' :
    extract_file junk r f fn mon = Ok (ok, ev, r', f') -> reach (rd_br r) (rd_br r').
  Proof.
    unfold extract_file. intros H. destruct (rd_curr r) as [h|]; [|discriminate]. cbv zeta in H.
    bind_inv H as [[ok1 ev1] r1] E1. apply (open_decoder_reach junk (decoders_use_callback_only_holds junk)) in E1.
    destruct (negb ok1); [inversion H; subst; exact E1|].
    destruct (arch_fopen f _ _) as [[hd|] f1]; [|inversion H; subst; exact E1].
    bind_inv H as [[[res ev2] r2] f2] E2. apply (do_decode_reach junk (decoders_use_callback_only_holds junk)) in E2.
    inversion H; subst. eapply reach_trans; eauto.
  Qed.

  (* a decode operation changes the basic reader by reads of the current member,
     the decoder pointers, and nothing else; outside a member it changes nothing *)
  Lemma decode_step r f d x r' f' : (rd_type r <> CT_NORMAL -> rd_decoder r = None) ->
    run_hop (r, f) (HDecode d) = Ok (x, (r', f')) ->
    dframe r r' /\ reach (rd_br r) (rd_br r') /\ (rd_type r <> CT_NORMAL -> r' = r) /\
    (writes_fs (HDecode d) = false -> f' = f) /\ headers [x] = [].
  Proof.
    intros Nn H. unfold run_hop, run_op in H. destruct d as [n|mon|fn mon]; cbn [fst] in H.
    - bind_inv H as [[bs ev] r1] E. inversion H; subst.
      split; [eapply lha_reader_read_frame; eauto|].
      split; [eapply (lha_reader_read_reach junk (decoders_use_callback_only_holds junk)); eauto|].
      split; [|split; reflexivity].
      intros T. destruct (decode_outside_member r T (Nn T)) as [R _]. rewrite R in E. inversion E. reflexivity.
    - bind_inv H as [[b ev] r1] E. inversion H; subst.
      split; [eapply lha_reader_check_frame; eauto|].
      split; [eapply (lha_reader_check_reach junk (decoders_use_callback_only_holds junk)); eauto|].
      split; [|split; reflexivity].
      intros T. destruct (decode_outside_member r T (Nn T)) as [_ R]. rewrite R in E. inversion E. reflexivity.
    - unfold is_member_file in H.
      destruct (rd_type r) eqn:T;
        try (inversion H; subst; split; [apply dframe_refl|]; split; [apply reach_refl|];
             split; [reflexivity|]; split; [reflexivity|reflexivity]).
      destruct (rd_curr r) as [h|] eqn:C.
      2:{ inversion H; subst. split; [apply dframe_refl|]. split; [apply reach_refl|]. repeat split; reflexivity. }
      destruct (is_dir_method h) eqn:Hd; cbn [negb] in H.
      { inversion H; subst. split; [apply dframe_refl|]. split; [apply reach_refl|]. repeat split; reflexivity. }
      bind_inv H as [[[b ev] r1] f1] E. inversion H; subst.
      unfold lha_reader_extract in E. rewrite T, C, Hd in E. cbn [negb] in E.
      split; [eapply extract_file_frame; eauto|]. split; [eapply extract_file_reach; eauto|].
      split; [intros Bad; contradiction Bad; reflexivity|]. split; [discriminate|reflexivity].
  Qed.

  Lemma sim_decode_left r1 r2 r1' : sim r1 r2 ->
    dframe r1 r1' -> reach (rd_br r1) (rd_br r1') -> (rd_type r1 <> CT_NORMAL -> r1' = r1) -> sim r1' r2.
  Proof.
    intros (F & N1 & N2 & E & b1 & b2 & W1 & W2 & B & R1 & R2) Fd Rd Same.
    pose proof Fd as (_ & T & _).
    destruct (curr_type_eq_dec (rd_type r1) CT_NORMAL) as [Tn|Tn].
    - split; [eapply dframe_trans; [apply dframe_sym; exact Fd|exact F]|].
      split; [intros Bad; congruence|]. split; [exact N2|]. split; [intros Bad; congruence|].
      exists b1, b2. split; [exact W1|]. split; [exact W2|]. split; [exact B|]. split; [eapply reach_trans; eauto|exact R2].
    - rewrite (Same Tn). split; [exact F|]. split; [exact N1|]. split; [exact N2|]. split; [exact E|].
      exists b1, b2. split; [exact W1|]. split; [exact W2|]. split; [exact B|]. split; assumption.
  Qed.

  (* ---------------------------------------------------------------- *)
  (* Skeleton operations on both sides                                 *)

  (* the choice of the entry: only the books and the basic readers' current headers matter *)
  Definition choose_rel (b1 b2 : breader) (x y : option header * reader) : Prop :=
    fst x = fst y /\ dframe (snd x) (snd y) /\ rd_br (snd x) = b1 /\ rd_br (snd y) = b2 /\
    rd_decoder (snd x) = None /\ rd_decoder (snd y) = None /\ rd_inner (snd x) = IR_null /\ rd_inner (snd y) = IR_null.

  Ltac cleaf := cbn [orel]; unfold choose_rel, dframe; cbn [fst snd]; rdsimp; repeat split; reflexivity.

  Lemma nf_choose_book r1 r2 b1 b2 lk : dframe r1 r2 -> br_curr b1 = br_curr b2 ->
    orel (choose_rel b1 b2) (nf_choose r1 b1 lk) (nf_choose r2 b2 lk).
  Proof.
    destruct r1 as [br1 c1 t1 d1 i1 p1 s1 df1 l1], r2 as [br2 c2 t2 d2 i2 p2 s2 df2 l2].
    unfold dframe. rdsimp. intros (-> & -> & -> & -> & -> & ->) C.
    unfold nf_choose, end_of_top_dir. cbv zeta. rdsimp. rewrite C.
    apply orel_bind_same. intros pop. destruct pop.
    - destruct s1 as [|top rest]; rdsimp.
      + destruct c1; [cleaf|]. destruct df1; cleaf.
      + cleaf.
    - rdsimp. rewrite ?C. destruct (br_curr b2); [cleaf|]. destruct df1; cleaf.
  Qed.

  Lemma basic_next_sim b1 b2 s1 s2 : br_wf b1 -> br_wf b2 -> breader_equiv b1 b2 ->
    orel nf_rel (lha_basic_reader_next_file mktime (read_many b1 s1))
                (lha_basic_reader_next_file mktime (read_many b2 s2)).
  Proof.
    intros W1 W2 B.
    eapply orel_trans; [exact nf_rel_trans|apply next_file_after_reads; exact W1|].
    eapply orel_trans; [exact nf_rel_trans|apply next_file_equiv; eauto|].
    eapply orel_sym; [exact nf_rel_sym|]. apply next_file_after_reads. exact W2.
  Qed.

  Definition next_rel (x y : option header * reader) : Prop :=
    fst x = fst y /\ lha_reader_current_is_fake (snd x) = lha_reader_current_is_fake (snd y) /\
    sim (snd x) (snd y) /\ reader_equiv (snd x) (snd y).

  (* lha_reader_next_file on related readers: the same outcome, the same
     header, and readers that are related again and even [reader_equiv] *)
  Lemma sim_next_orel r1 r2 : sim r1 r2 ->
    orel next_rel (lha_reader_next_file mktime r1) (lha_reader_next_file mktime r2).
  Proof.
    intros S. pose proof (sim_wf _ _ S) as [Wa Wb]. pose proof (sim_curr _ _ S) as Cc.
    destruct S as (F & N1 & N2 & E & b1 & b2 & W1 & W2 & B & [s1 R1] & [s2 R2]).
    pose proof F as (Fc & Ft & Fp & Fs & Fd & Fl).
    assert (Fcl : dframe (close_decoder r1) (close_decoder r2)) by exact F.
    assert (Fin : forall x y bb1 bb2, choose_rel bb1 bb2 x y -> breader_equiv bb1 bb2 -> br_wf bb1 -> br_wf bb2 ->
              next_rel x y).
    { intros x y bb1 bb2 (Eh & Fr & Ba & Bb & Da & Db & Ia & Ib) Be Wx Wy.
      pose proof Fr as (Gc & Gt & Gp & Gs & Gd & Gl).
      split; [exact Eh|]. split; [unfold lha_reader_current_is_fake; rewrite Gt; reflexivity|].
      split.
      - split; [exact Fr|]. split; [intros; exact Da|]. split; [intros; exact Db|].
        split; [intros; rewrite Ba, Bb; exact Be|].
        exists bb1, bb2. rewrite Ba, Bb. split; [exact Wx|]. split; [exact Wy|]. split; [exact Be|]. split; apply reach_refl.
      - unfold reader_equiv. rewrite Ba, Bb, Da, Db, Ia, Ib. split; [exact Be|]. repeat split; congruence. }
    rewrite !next_file_unfold. rewrite Ft.
    destruct (rd_type r1) eqn:T.
    - (* START *)
      eapply orel_bind_eq; [rewrite R1, R2; apply basic_next_sim; assumption|].
      intros [hh1 bb1] [hh2 bb2] Eb1 Eb2 [Eh Be]. cbn [fst snd] in Eh, Be. cbv beta iota.
      eapply orel_weaken; [apply nf_choose_book; [exact Fcl|exact (proj1 Be)]|].
      intros x y Hc. apply (Fin _ _ _ _ Hc Be); [exact (next_file_wf _ _ _ _ Wa Eb1)|exact (next_file_wf _ _ _ _ Wb Eb2)].
    - (* NORMAL *)
      eapply orel_bind_eq; [rewrite R1, R2; apply basic_next_sim; assumption|].
      intros [hh1 bb1] [hh2 bb2] Eb1 Eb2 [Eh Be]. cbn [fst snd] in Eh, Be. cbv beta iota.
      eapply orel_weaken; [apply nf_choose_book; [exact Fcl|exact (proj1 Be)]|].
      intros x y Hc. apply (Fin _ _ _ _ Hc Be); [exact (next_file_wf _ _ _ _ Wa Eb1)|exact (next_file_wf _ _ _ _ Wb Eb2)].
    - (* FAKE_DIR: the basic readers stay *)
      assert (Be : breader_equiv (rd_br r1) (rd_br r2)) by (apply E; discriminate).
      rewrite <- Fl.
      eapply orel_weaken; [apply nf_choose_book; [exact Fcl|exact Cc]|].
      intros x y Hc. apply (Fin _ _ _ _ Hc Be); assumption.
    - (* DEFERRED_SYMLINK *)
      assert (Be : breader_equiv (rd_br r1) (rd_br r2)) by (apply E; discriminate).
      rewrite <- Fl.
      eapply orel_weaken; [apply nf_choose_book; [exact Fcl|exact Cc]|].
      intros x y Hc. apply (Fin _ _ _ _ Hc Be); assumption.
    - (* EOF *)
      assert (Be : breader_equiv (rd_br r1) (rd_br r2)) by (apply E; discriminate).
      cbn [orel]. unfold next_rel. cbn [fst snd].
      split; [reflexivity|]. split; [unfold lha_reader_current_is_fake; rdsimp; rewrite Ft, T; reflexivity|].
      split.
      + split; [exact Fcl|]. split; [intros; reflexivity|]. split; [intros; reflexivity|]. split; [intros; exact Be|].
        exists b1, b2. rdsimp. split; [exact W1|]. split; [exact W2|]. split; [exact B|]. split; [exists s1|exists s2]; assumption.
      + unfold reader_equiv. rdsimp. split; [exact Be|]. repeat split; congruence.
  Qed.

  Lemma sim_next r1 r2 h1 r1' h2 r2' : sim r1 r2 ->
    lha_reader_next_file mktime r1 = Ok (h1, r1') -> lha_reader_next_file mktime r2 = Ok (h2, r2') ->
    h1 = h2 /\ lha_reader_current_is_fake r1' = lha_reader_current_is_fake r2' /\ sim r1' r2' /\
    reader_equiv r1' r2'.
  Proof. intros S H1 H2. pose proof (sim_next_orel _ _ S) as O. rewrite H1, H2 in O. exact O. Qed.

  (* extraction of a directory / symlink / re-presented entry: a function of the book and the filesystem *)
  Definition book_rel (r1 r2 : reader) (x y : bool * list (N * N) * reader * fs) : Prop :=
    fst (fst (fst x)) = fst (fst (fst y)) /\ snd x = snd y /\
    dframe (snd (fst x)) (snd (fst y)) /\
    rd_br (snd (fst x)) = rd_br r1 /\ rd_br (snd (fst y)) = rd_br r2 /\
    rd_decoder (snd (fst x)) = rd_decoder r1 /\ rd_decoder (snd (fst y)) = rd_decoder r2.

  (* extraction of such an entry commutes with replacing the basic reader and the decoder pointers *)
  Definition rebase_res (b : breader) (d : option dec_obj) (i : inner_ref)
    (x : outcome (bool * list (N * N) * reader * fs)) : outcome (bool * list (N * N) * reader * fs) :=
    match x with
    | Ok (ok, ev, r', f') => Ok (ok, ev, set_decoders r' b d i, f')
    | Fault s => Fault s
    | OutOfFuel => OutOfFuel
    end.

  Ltac crush :=
    repeat (match goal with |- context [match ?x with _ => _ end] =>
              lazymatch x with context [match _ with _ => _ end] => fail | _ => destruct x end end; rdsimp);
    try reflexivity.

  Lemma extract_entry_rebase r b d i f fn mon : is_member_file r = false ->
    lha_reader_extract junk (set_decoders r b d i) f fn mon = rebase_res b d i (lha_reader_extract junk r f fn mon).
  Proof.
    destruct r as [br1 c1 t1 d1 i1 p1 s1 df1 l1]. unfold is_member_file. rdsimp. intros Nf.
    unfold lha_reader_extract, rebase_res. rdsimp.
    destruct t1; try reflexivity.
    - destruct c1 as [h|]; [|reflexivity].
      destruct (is_dir_method h) eqn:Hd; cbn [negb] in *; [|discriminate].
      unfold extract_symlink, extract_placeholder_symlink, extract_directory, link_curr, bind. rdsimp. crush.
    - destruct c1 as [h|]; [|reflexivity]. unfold bind. crush.
    - destruct c1 as [h|]; [|reflexivity].
      unfold extract_symlink, extract_placeholder_symlink, link_curr, bind. rdsimp. crush.
  Qed.

  Lemma extract_entry_keeps r f fn mon ok ev r' f' : is_member_file r = false ->
    lha_reader_extract junk r f fn mon = Ok (ok, ev, r', f') ->
    rd_br r' = rd_br r /\ rd_decoder r' = rd_decoder r /\ rd_inner r' = rd_inner r.
  Proof.
    intros Nf H. pose proof (extract_entry_rebase r (rd_br r) (rd_decoder r) (rd_inner r) f fn mon Nf) as R.
    assert (Er : set_decoders r (rd_br r) (rd_decoder r) (rd_inner r) = r) by (destruct r; reflexivity).
    rewrite Er, H in R. cbn [rebase_res] in R. injection R as Eq.
    split; [|split]; rewrite Eq; reflexivity.
  Qed.

  Lemma extract_entry_book r1 r2 f fn mon : dframe r1 r2 -> is_member_file r1 = false ->
    orel (book_rel r1 r2) (lha_reader_extract junk r1 f fn mon) (lha_reader_extract junk r2 f fn mon).
  Proof.
    intros F Nf.
    assert (E2 : r2 = set_decoders r1 (rd_br r2) (rd_decoder r2) (rd_inner r2)).
    { destruct r1, r2. unfold dframe in F. rdsimp. destruct F as (-> & -> & -> & -> & -> & ->). reflexivity. }
    rewrite E2 at 2. rewrite (extract_entry_rebase r1 _ _ _ f fn mon Nf).
    destruct (lha_reader_extract junk r1 f fn mon) as [[[[ok ev] r'] f']| |] eqn:E; cbn [rebase_res orel]; auto.
    unfold book_rel. cbn [fst snd]. rdsimp.
    destruct (extract_entry_keeps _ _ _ _ _ _ _ _ Nf E) as (K1 & K2 & _).
    repeat split; auto.
  Qed.

  Lemma sim_extract_entry r1 r2 f fn mon x1 r1' f1' x2 r2' f2' : sim r1 r2 ->
    run_hop (r1, f) (HExtractEntry fn mon) = Ok (x1, (r1', f1')) ->
    run_hop (r2, f) (HExtractEntry fn mon) = Ok (x2, (r2', f2')) ->
    x1 = x2 /\ f1' = f2' /\ sim r1' r2'.
  Proof.
    intros S H1 H2. pose proof S as (F & N1 & N2 & E & b1 & b2 & W1 & W2 & B & R1 & R2).
    pose proof F as (Fc & Ft & Fp & Fs & Fd & Fl).
    assert (M : is_member_file r2 = is_member_file r1) by (unfold is_member_file; rewrite Fc, Ft; reflexivity).
    unfold run_hop in H1, H2. cbn [fst] in H1, H2. rewrite M in H2.
    destruct (is_member_file r1) eqn:Mf.
    - inversion H1; subst. inversion H2; subst. auto.
    - unfold run_op in H1, H2.
      bind_inv H1 as [[[ok1 ev1] ra] fa] E1. bind_inv H2 as [[[ok2 ev2] rb] fb] E2.
      inversion H1; subst. inversion H2; subst.
      pose proof (extract_entry_book r1 r2 f fn mon F Mf) as O. rewrite E1, E2 in O. cbn [orel] in O.
      destruct O as (Eo & Ef & Fr & Ba & Bb & Da & Db). cbn [fst snd] in *. subst.
      split; [reflexivity|]. split; [reflexivity|].
      pose proof Fr as (_ & Gt & _).
      apply lha_reader_extract_frame in E1. destruct E1 as (_ & T1 & _).
      apply lha_reader_extract_frame in E2. destruct E2 as (_ & T2 & _).
      split; [exact Fr|]. rewrite T1, T2, Da, Db, Ba, Bb.
      split; [exact N1|]. split; [exact N2|]. split; [exact E|].
      exists b1, b2. split; [exact W1|]. split; [exact W2|]. split; [exact B|]. split; assumption.
  Qed.

  (* ---------------------------------------------------------------- *)
  (* The two-history theorem                                           *)

  Definition no_fs_writes (l : list hop) : Prop := forallb (fun o => negb (writes_fs o)) l = true.
  Definition no_entry_extracts (l : list hop) : Prop := forallb (fun o => negb (is_entry_extract o)) l = true.

  (* [same_fs]: the two filesystems are the same (and stay so: no file is extracted);
     otherwise nothing is assumed of them (and no directory / symlink is extracted) *)
  Definition fs_ok (same_fs : bool) (l : list hop) : Prop := if same_fs then no_fs_writes l else no_entry_extracts l.
  Definition fs_rel (same_fs : bool) (f1 f2 : fs) : Prop := if same_fs then f1 = f2 else True.

  Lemma fs_ok_cons b o l : fs_ok b (o :: l) -> fs_ok b l /\
    (if b then writes_fs o = false else is_entry_extract o = false).
  Proof.
    unfold fs_ok, no_fs_writes, no_entry_extracts. destruct b; cbn [forallb]; intros H;
      apply andb_true_iff in H; destruct H as [A B]; split; auto; apply negb_true_iff in A; exact A.
  Qed.

  Lemma two_histories_gen same_fs : forall l1 l2 r1 r2 f1 f2 xs1 r1' f1' xs2 r2' f2',
    skel l1 = skel l2 -> fs_ok same_fs l1 -> fs_ok same_fs l2 ->
    sim r1 r2 -> fs_rel same_fs f1 f2 ->
    run_hops (r1, f1) l1 = Ok (xs1, (r1', f1')) ->
    run_hops (r2, f2) l2 = Ok (xs2, (r2', f2')) ->
    headers xs1 = headers xs2 /\ sim r1' r2' /\ fs_rel same_fs f1' f2'.
  Proof.
    induction l1 as [|o1 l1 IH1].
    - (* the first history is over: the second has decode operations left *)
      induction l2 as [|o2 l2 IH2]; intros r1 r2 f1 f2 xs1 r1' f1' xs2 r2' f2' Sk K1 K2 S Fr H1 H2.
      + cbn [run_hops] in H1, H2. inversion H1; subst. inversion H2; subst. auto.
      + cbn [skel filter] in Sk. destruct o2 as [| |d]; cbn [is_decode negb] in Sk; try discriminate.
        cbn [run_hops] in H2. bind_inv H2 as [x [rb fb]] E. bind_inv H2 as [xs [rc fc]] E'. inversion H2; subst.
        destruct (fs_ok_cons _ _ _ K2) as [K2' Ko].
        destruct S as (F & N1 & N2 & Rest).
        destruct (decode_step r2 f2 d x rb fb N2 E) as (Fd & Rd & Same & Fs & Hx).
        assert (S' : sim r1 rb).
        { apply sim_sym. eapply sim_decode_left; [apply sim_sym; exact (conj F (conj N1 (conj N2 Rest)))|exact Fd|exact Rd|].
          destruct F as (_ & T & _). exact Same. }
        assert (Fr' : fs_rel same_fs f1 fb).
        { destruct same_fs; [|exact I]. cbn [fs_rel] in *. rewrite (Fs Ko). exact Fr. }
        destruct (IH2 r1 rb f1 fb _ _ _ _ _ _ Sk K1 K2' S' Fr' H1 E') as (A & B & C).
        split; [|auto]. change (x :: xs) with ([x] ++ xs).
        assert (Hh : headers ([x] ++ xs) = headers [x] ++ headers xs) by (destruct x; reflexivity).
        rewrite Hh, Hx. exact A.
    - intros l2 r1 r2 f1 f2 xs1 r1' f1' xs2 r2' f2' Sk K1 K2 S Fr H1 H2.
      destruct (fs_ok_cons _ _ _ K1) as [K1' Ko1].
      cbn [run_hops] in H1. bind_inv H1 as [x1 [ra fa]] Ea. bind_inv H1 as [ys1 [rc fc]] Ea'. inversion H1; subst.
      destruct (is_decode o1) eqn:D1.
      + (* a decode operation of the first history *)
        destruct o1 as [| |d]; try discriminate.
        cbn [skel filter is_decode negb] in Sk.
        pose proof S as (F & N1 & N2 & Rest).
        destruct (decode_step r1 f1 d x1 ra fa N1 Ea) as (Fd & Rd & Same & Fs & Hx).
        assert (S' : sim ra r2) by (eapply sim_decode_left; eauto).
        assert (Fr' : fs_rel same_fs fa f2).
        { destruct same_fs; [|exact I]. cbn [fs_rel] in *. rewrite (Fs Ko1). exact Fr. }
        destruct (IH1 l2 ra r2 fa f2 _ _ _ _ _ _ Sk K1' K2 S' Fr' Ea' H2) as (A & B & C).
        split; [|auto].
        assert (Hh : headers (x1 :: ys1) = headers [x1] ++ headers ys1) by (destruct x1; reflexivity).
        rewrite Hh, Hx. exact A.
      + (* a skeleton operation: the second history reaches the same one *)
        cbn [skel filter] in Sk. rewrite D1 in Sk. cbn [negb] in Sk.
        revert r2 f2 xs2 r2' f2' Sk K2 S Fr H2.
        induction l2 as [|o2 l2 IH2]; intros r2 f2 xs2 r2' f2' Sk K2 S Fr H2; [discriminate|].
        destruct (fs_ok_cons _ _ _ K2) as [K2' Ko2].
        cbn [run_hops] in H2. bind_inv H2 as [x2 [rb fb]] Eb. bind_inv H2 as [ys2 [rd fd]] Eb'. inversion H2; subst.
        destruct (is_decode o2) eqn:D2.
        * destruct o2 as [| |d]; try discriminate.
          cbn [skel filter is_decode negb] in Sk.
          pose proof S as (F & N1 & N2 & Rest).
          destruct (decode_step r2 f2 d x2 rb fb N2 Eb) as (Fd & Rd & Same & Fs & Hx).
          assert (S' : sim r1 rb).
          { apply sim_sym. eapply sim_decode_left; [apply sim_sym; exact S|exact Fd|exact Rd|exact Same]. }
          assert (Fr' : fs_rel same_fs f1 fb).
          { destruct same_fs; [|exact I]. cbn [fs_rel] in *. rewrite (Fs Ko2). exact Fr. }
          destruct (IH2 rb fb _ _ _ Sk K2' S' Fr' Eb') as (A & B & C).
          split; [|auto].
          assert (Hh : headers (x2 :: ys2) = headers [x2] ++ headers ys2) by (destruct x2; reflexivity).
          rewrite Hh, Hx. exact A.
        * cbn [skel filter] in Sk. rewrite D2 in Sk. cbn [negb] in Sk. inversion Sk as [[Eo Sk']]. subst o2.
          destruct o1 as [|fn mon|d]; [| |discriminate].
          -- (* OpNext on both sides *)
             unfold run_hop, run_op in Ea, Eb.
             bind_inv Ea as [h1 ra'] E1. inversion Ea; subst. bind_inv Eb as [h2 rb'] E2. inversion Eb; subst.
             destruct (sim_next _ _ _ _ _ _ S E1 E2) as (Eh & Ek & S' & _).
             destruct (IH1 l2 ra rb fa fb _ _ _ _ _ _ Sk' K1' K2' S' Fr Ea' Eb') as (A & B & C).
             split; [|auto]. cbn [headers]. rewrite Eh, Ek, A. reflexivity.
          -- (* the same entry extraction on both sides *)
             destruct same_fs; [|discriminate]. cbn [fs_rel] in Fr. subst f2.
             destruct (sim_extract_entry _ _ _ _ _ _ _ _ _ _ _ S Ea Eb) as (Ex & Ef & S'). subst.
             destruct (IH1 l2 ra rb fb fb _ _ _ _ _ _ Sk' K1' K2' S' eq_refl Ea' Eb') as (A & B & C).
             split; [|auto]. destruct x2; cbn [headers]; rewrite ?A; reflexivity.
  Qed.

  (* C, two histories.  Same skeleton; reads and checks in between as each caller
     likes; then the headers returned are the same, and so is what comes next. *)
  Theorem two_histories l1 l2 r f xs1 r1' f1' xs2 r2' f2' :
    br_wf (rd_br r) -> (rd_type r <> CT_NORMAL -> rd_decoder r = None) ->
    skel l1 = skel l2 -> no_fs_writes l1 -> no_fs_writes l2 ->
    run_hops (r, f) l1 = Ok (xs1, (r1', f1')) ->
    run_hops (r, f) l2 = Ok (xs2, (r2', f2')) ->
    headers xs1 = headers xs2 /\ f1' = f2' /\ sim r1' r2' /\
    orel next_rel (lha_reader_next_file mktime r1') (lha_reader_next_file mktime r2').
  Proof.
    intros W N Sk K1 K2 H1 H2.
    destruct (two_histories_gen true l1 l2 r r f f _ _ _ _ _ _ Sk K1 K2 (sim_refl_new r W N) eq_refl H1 H2)
      as (A & S & Ff).
    split; [exact A|]. split; [exact Ff|]. split; [exact S|].
    apply sim_next_orel. exact S.
  Qed.

  (* The same with file extractions among the decode operations, when no
     directory / symlink / re-presented entry is extracted: the two filesystems
     are then unrelated (they may even differ at the start). *)
  Theorem two_histories_file_extracts l1 l2 r f1 f2 xs1 r1' f1' xs2 r2' f2' :
    br_wf (rd_br r) -> (rd_type r <> CT_NORMAL -> rd_decoder r = None) ->
    skel l1 = skel l2 -> no_entry_extracts l1 -> no_entry_extracts l2 ->
    run_hops (r, f1) l1 = Ok (xs1, (r1', f1')) ->
    run_hops (r, f2) l2 = Ok (xs2, (r2', f2')) ->
    headers xs1 = headers xs2 /\ sim r1' r2' /\
    orel next_rel (lha_reader_next_file mktime r1') (lha_reader_next_file mktime r2').
  Proof.
    intros W N Sk K1 K2 H1 H2.
    destruct (two_histories_gen false l1 l2 r r f1 f2 _ _ _ _ _ _ Sk K1 K2 (sim_refl_new r W N) I H1 H2)
      as (A & S & _).
    split; [exact A|]. split; [exact S|]. apply sim_next_orel. exact S.
  Qed.
End TwoHistories.

(* a new reader meets the hypotheses of the two theorems *)
Lemma new_reader_ok k data pol : nlen data < 1099511627776 ->
  let r := lha_reader_set_dir_policy (lha_reader_new (lha_input_stream_new (mk_source k data))) pol in
  br_wf (rd_br r) /\ (rd_type r <> CT_NORMAL -> rd_decoder r = None).
Proof. intros H. cbv zeta. split; [apply br_wf_new; exact H|reflexivity]. Qed.

(* run_hop is lha_reader_extract under its two guards *)
Lemma run_hop_extract mktime junk s fn mon :
  run_op mktime junk s (OpExtract fn mon) =
  if is_member_file (fst s) then run_hop mktime junk s (HDecode (DExtractFile fn mon))
  else run_hop mktime junk s (HExtractEntry fn mon).
Proof. unfold run_hop. destruct (is_member_file (fst s)); reflexivity. Qed.

(* ------------------------------------------------------------------ *)
(* Non-vacuity, and the history where extracting a file matters        *)

Definition hentries (xs : list obs) : list (option (list N) * bool) :=
  map (fun p => (option_map full_path (fst p), snd p)) (headers xs).

(* two members with data; one caller reads the first in pieces and checks the second, the other skips both *)
Definition ex_arch2 : list N := ex_archive ++ ex_member1 ++ [20; 21; 22; 23; 24].
Definition ex_l1 : list hop := [HNext; HDecode (DRead 2); HDecode (DRead 1); HNext; HDecode (DCheck false); HNext; HNext].
Definition ex_l2 : list hop := [HNext; HNext; HNext; HDecode (DRead 7); HNext].

Example ex_two_histories_run :
  forall k,
  match run_hops mktime_utc 0 (ex_reader k ex_arch2, ex_fs) ex_l1, run_hops mktime_utc 0 (ex_reader k ex_arch2, ex_fs) ex_l2 with
  | Ok (xs1, _), Ok (xs2, _) =>
    hentries xs1 = [(Some [97], false); (Some [97], false); (Some [97], false); (None, false)] /\
    hentries xs2 = [(Some [97], false); (Some [97], false); (Some [97], false); (None, false)]
  | _, _ => False
  end.
Proof. intros k. destruct k; vm_compute; split; reflexivity. Qed.

Example ex_two_histories :
  forall k xs1 s1 xs2 s2,
  run_hops mktime_utc 0 (ex_reader k ex_arch2, ex_fs) ex_l1 = Ok (xs1, s1) ->
  run_hops mktime_utc 0 (ex_reader k ex_arch2, ex_fs) ex_l2 = Ok (xs2, s2) ->
  skel ex_l1 = skel ex_l2 /\ headers xs1 = headers xs2.
Proof.
  intros k xs1 [r1 f1] xs2 [r2 f2] E1 E2. split; [reflexivity|].
  destruct (new_reader_ok k ex_arch2 DIR_END_OF_DIR) as [W Nn]; [vm_compute; reflexivity|].
  destruct (two_histories mktime_utc 0 ex_l1 ex_l2 _ _ _ _ _ _ _ _ W Nn eq_refl eq_refl eq_refl E1 E2) as (A & _).
  exact A.
Qed.

(* A file named d, then a directory d/.  The caller that extracts the file finds
   mkdir failing later, so the directory is not put on the stack and is not
   presented again; the caller that skips the file gets it presented again.
   Extracting a regular file is therefore not among the operations the sequence
   of headers is independent of -- through the filesystem, not through the reader. *)
Definition ex_file_d : list N :=
  [23; 227; 45; 108; 104; 48; 45; 0; 0; 0; 0; 0; 0; 0; 0; 0; 0; 0; 0; 32; 0; 1; 100; 0; 0].

Example file_extract_changes_headers :
  let r := ex_reader KFile (ex_file_d ++ ex_dir_header) in
  let l1 := [HNext; HDecode (DExtractFile None false); HNext; HExtractEntry None false; HNext; HNext] in
  let l2 := [HNext; HNext; HExtractEntry None false; HNext; HNext] in
  skel l1 = skel l2 /\
  match run_hops mktime_utc 0 (r, ex_fs) l1, run_hops mktime_utc 0 (r, ex_fs) l2 with
  | Ok (xs1, _), Ok (xs2, _) =>
    hentries xs1 = [(Some [100], false); (Some [100; 47], false); (None, false); (None, false)] /\
    hentries xs2 = [(Some [100], false); (Some [100; 47], false); (Some [100; 47], true); (None, false)]
  | _, _ => False
  end.
Proof. cbv zeta. split; [reflexivity|]. vm_compute. split; reflexivity. Qed.

(* without entry extractions the filesystems do not matter *)
Definition ex_arch3 : list N := ex_file_d ++ ex_dir_header ++ ex_bytes.
Definition ex_l3 : list hop :=
  [HNext; HDecode (DExtractFile None false); HNext; HNext; HDecode (DExtractFile (Some [120]) false); HNext].
Definition ex_l4 : list hop := [HNext; HNext; HDecode (DRead 3); HNext; HNext].

Example ex_two_histories_file_extracts_run :
  match run_hops mktime_utc 0 (ex_reader KPipe ex_arch3, ex_fs) ex_l3, run_hops mktime_utc 0 (ex_reader KPipe ex_arch3, ex_fs) ex_l4 with
  | Ok (xs1, (_, f1)), Ok (xs2, (_, f2)) =>
    hentries xs1 = [(Some [100], false); (Some [100; 47], false); (Some [97], false); (None, false)] /\
    hentries xs2 = hentries xs1 /\ f1 <> f2
  | _, _ => False
  end.
Proof. vm_compute. repeat split; try reflexivity. discriminate. Qed.

Example ex_two_histories_file_extracts :
  forall xs1 s1 xs2 s2,
  run_hops mktime_utc 0 (ex_reader KPipe ex_arch3, ex_fs) ex_l3 = Ok (xs1, s1) ->
  run_hops mktime_utc 0 (ex_reader KPipe ex_arch3, ex_fs) ex_l4 = Ok (xs2, s2) ->
  headers xs1 = headers xs2.
Proof.
  intros xs1 [r1 f1] xs2 [r2 f2] E1 E2.
  destruct (new_reader_ok KPipe ex_arch3 DIR_END_OF_DIR) as [W Nn]; [vm_compute; reflexivity|].
  destruct (two_histories_file_extracts mktime_utc 0 ex_l3 ex_l4 _ _ _ _ _ _ _ _ _ W Nn eq_refl eq_refl eq_refl E1 E2) as (A & _).
  exact A.
Qed.

Print Assumptions sim_next_orel.
Print Assumptions extract_entry_rebase.
Print Assumptions two_histories.
Print Assumptions two_histories_file_extracts.
Print Assumptions ex_two_histories_run.
Print Assumptions ex_two_histories.
Print Assumptions file_extract_changes_headers.
Print Assumptions ex_two_histories_file_extracts_run.
Print Assumptions ex_two_histories_file_extracts.

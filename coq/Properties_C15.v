(* Properties_C15.v -- C15: members are independent of how other members were
   skipped, read or checked; the end is absorbing; two readers do not interact.
   Statements about the reader model (Reader.v); proofs in P_StreamEquiv.v,
   P_BasicReaderIndep.v, P_ReaderIndep.v, P_ReaderIndepFull.v.
     stream_equiv / breader_equiv / reader_equiv forget what legitimately differs
     between histories (callback counters, how much of the remaining data sits in
     the lead-in buffer) and keep the kind and the remaining bytes;
     orel R x y: x and y are the same outcome (both Ok with R-related values, the
     same Fault site, or both out of fuel).
   The second part re-exports (same names) the theorems of P_ReaderDirCount.v,
   P_ReaderTwoHist.v, P_ReaderBytes.v, P_ReaderMembers.v: the global count of
   re-presented directories, the two-history form, and "the bytes obtainable from a
   member and its check verdict do not depend on the history" (arity-2 parametricity
   of the decoders, P_AnyParam2.v).  Scope note proved as file_extract_changes_headers:
   EXTRACTING a file named like a later directory entry changes what is re-presented
   (through the filesystem: the mkdir fails); the property's list -- skipped, read,
   checked -- does not include extraction. *)
From Lhasa Require Import Base DecBase Loop Generated InputStream Header BasicReader AnyDecoder Decoder
  MacBinary Fs FsRun Reader P_StreamEquiv P_BasicReaderIndep P_ReaderIndep P_ReaderIndepFull.
From Lhasa Require P_ReaderDirCount P_ReaderTwoHist P_ReaderBytes P_ReaderMembers.
Local Open Scope N_scope.

Section C15.
  Variable mktime : N -> N -> N -> N -> Z -> N -> N.
  Variable junk : N.

  (* once the end has been reported, next_file keeps reporting it and leaves
     everything but the (closed) decoder pointers as it is *)
  Theorem end_is_absorbing_next : forall r, rd_type r = CT_EOF ->
    lha_reader_next_file mktime r = Ok (None, close_decoder r) /\ rd_type (close_decoder r) = CT_EOF.
  Proof.
    intros r H. unfold lha_reader_next_file. cbn [rd_type close_decoder]. rewrite H. split; reflexivity.
  Qed.

  (* ... and read, check and extract report failure without touching the reader or the filesystem *)
  Theorem end_is_absorbing_ops : forall r f name mon n, rd_type r = CT_EOF -> rd_decoder r = None ->
    lha_reader_read junk r n = Ok ([], [], r) /\
    lha_reader_check junk r mon = Ok (false, [], r) /\
    lha_reader_extract junk r f name mon = Ok (false, [], r, f).
  Proof.
    intros r f name mon n H D. unfold lha_reader_read, lha_reader_check, lha_reader_extract, open_decoder.
    rewrite D, H. repeat split; reflexivity.
  Qed.

  (* the same for every entry that is not an archive member proper: reads and checks on a
     re-presented directory or deferred symbolic link, or before the first next_file, fail
     and change nothing *)
  Theorem no_decode_outside_members : forall r mon n, rd_type r <> CT_NORMAL -> rd_decoder r = None ->
    lha_reader_read junk r n = Ok ([], [], r) /\ lha_reader_check junk r mon = Ok (false, [], r).
  Proof.
    intros r mon n H D. unfold lha_reader_read, lha_reader_check, open_decoder. rewrite D.
    destruct (rd_type r); try (split; reflexivity). contradiction H; reflexivity.
  Qed.

  (* Two readers: in a functional model an operation on one reader is a function
     of that reader alone, so there is nothing to prove; what the clause rests on
     in the C -- no mutable file-scope state -- is decided by the two-reader runs of
     the check (interleaved, and on two threads under ThreadSanitizer). *)
End C15.

(* ---- independence of what comes next from what was done with the current member ---- *)

(* stream: reading k bytes and then skipping n leaves an equivalent stream to skipping
   k+n at once, for all four stream kinds (data present; the truncated case --
   read_then_skip_truncated -- ends the archive in both histories) *)
Theorem read_then_skip_is_skip : forall (st : istream) (k n : N),
  is_state st = IS_READING -> is_leadin st = [] ->
  k + n <= nlen (so_data (is_src st)) -> nlen (so_data (is_src st)) < 1099511627776 ->
  exists st1 sa sb,
    lha_input_stream_read st k = Ok (Some (firstn_N k (so_data (is_src st))), st1) /\
    lha_input_stream_skip st1 n = Ok (true, sa) /\
    lha_input_stream_skip st (k + n) = Ok (true, sb) /\
    stream_equiv sa sb /\ remaining sa = skipn_N (k + n) (so_data (is_src st)).
Proof. exact read_then_skip_equiv_present. Qed.

(* the header parser depends only on the remaining bytes *)
Theorem header_read_respects_equiv : forall mktime (a b : istream),
  stream_equiv a b -> orel rel_st (lha_file_header_read mktime a) (lha_file_header_read mktime b).
Proof. exact lha_file_header_read_equiv. Qed.

(* basic reader: after ANY sequence of reads of the current member's compressed data
   (none, partial, all, more than all; truncated members included) the next header and
   the reader are the same as if nothing had been read *)
Theorem next_header_independent_of_reads : forall mktime (r : breader) (sizes : list N),
  br_wf r ->
  orel nf_rel (lha_basic_reader_next_file mktime (read_many r sizes)) (lha_basic_reader_next_file mktime r).
Proof. exact next_file_after_reads. Qed.

(* reader: after any number of reads (any sizes) and/or checks of the current member,
   through any of the fourteen decoders and the MacBinary pass-through, next_file returns
   the same header and an equivalent reader as if the caller had done nothing, and the
   filesystem is untouched.  (Unconditional: the decoders reach the basic reader only
   through the callback -- parametricity, P_AnyParam.v.) *)
Theorem next_entry_independent_of_decoding : forall mktime junk r f l xs r' f',
  rd_type r = CT_NORMAL -> br_wf (rd_br r) ->
  forallb is_decode_op l = true ->
  P_ReaderIndep.run_ops mktime junk (r, f) l = Ok (xs, (r', f')) ->
  f' = f /\ orel rnf_rel (lha_reader_next_file mktime r') (lha_reader_next_file mktime r).
Proof. exact next_file_after_decode_ops. Qed.

(* ---- the end ---- *)
Theorem end_is_absorbing : forall mktime junk (r0 r : reader),
  lha_reader_next_file mktime r0 = Ok (None, r) ->
  lha_reader_next_file mktime r = Ok (None, r) /\
  (forall n, lha_reader_read junk r n = Ok ([], [], r)) /\
  (forall mon, lha_reader_check junk r mon = Ok (false, [], r)) /\
  (forall f fn mon, lha_reader_extract junk r f fn mon = Ok (false, [], r, f)) /\
  lha_reader_current_is_fake r = false.
Proof. exact P_ReaderIndep.end_is_absorbing. Qed.

(* ---- re-presented entries ---- *)

(* never under the plain policy *)
Theorem plain_policy_never_represents : forall mktime junk (st : istream) (f : fs) l xs r' f',
  P_ReaderIndep.run_ops mktime junk (lha_reader_set_dir_policy (lha_reader_new st) DIR_PLAIN, f) l = Ok (xs, (r', f')) ->
  rd_dir_stack r' = [] /\ rd_type r' <> CT_FAKE_DIR /\ rd_policy r' = DIR_PLAIN.
Proof. exact plain_policy_no_fake_dirs. Qed.

(* the deferred links stay sorted longest path first after every history *)
Theorem deferred_links_longest_first : forall mktime junk (st : istream) (f : fs) l xs r' f',
  P_ReaderIndep.run_ops mktime junk (lha_reader_new st, f) l = Ok (xs, (r', f')) -> desc_len (rd_deferred r').
Proof. exact deferred_list_sorted. Qed.

(* at the end of the archive: the directories still on the stack, then the deferred
   links in list order, then None -- each exactly once *)
Theorem end_of_archive_drain : forall mktime (stk : list header) (r : reader),
  br_at_end (rd_br r) -> rd_type r <> CT_EOF -> rd_dir_stack r = stk ->
  exists r', nexts mktime (length stk + (length (rd_deferred r) + 1)) r =
    Ok (map (fun h => (Some h, CT_FAKE_DIR)) stk ++ map (fun h => (Some h, CT_DEFERRED_SYMLINK)) (rd_deferred r)
        ++ [(None, CT_EOF)], r').
Proof. exact drain. Qed.

(* ---- two readers: any interleaving = the two separate runs ---- *)
Theorem two_readers_do_not_interact : forall mktime junk (l : list (who * op)) sa sb xs sa' sb',
  run_two mktime junk sa sb l = Ok (xs, (sa', sb')) ->
  P_ReaderIndep.run_ops mktime junk sa (proj true l) = Ok (proj true xs, sa') /\
  P_ReaderIndep.run_ops mktime junk sb (proj false l) = Ok (proj false xs, sb').
Proof. exact two_readers_independent. Qed.

(* ====== counts, two histories, member bytes (statements: see the P_ files) ======

   pushed_popped_stack / dirs_presented_exactly_once: over ANY op sequence and policy the
   directories pushed by successful extracts are a permutation of those re-presented plus
   those still on the stack; once the end has been reported every extracted directory has
   been re-presented exactly once.  end_of_dir_position: under END_OF_DIR the top directory
   is re-presented exactly when the archive is exhausted or the pending member is outside
   it -- i.e. at the first later entry outside it. *)
Theorem pushed_popped_stack : ltac:(let t := type of P_ReaderDirCount.pushed_popped_stack in exact t).
Proof. exact P_ReaderDirCount.pushed_popped_stack. Qed.
Theorem dirs_presented_exactly_once : ltac:(let t := type of P_ReaderDirCount.dirs_presented_exactly_once in exact t).
Proof. exact P_ReaderDirCount.dirs_presented_exactly_once. Qed.
Theorem end_of_dir_position : ltac:(let t := type of P_ReaderDirCount.end_of_dir_position in exact t).
Proof. exact P_ReaderDirCount.end_of_dir_position. Qed.

(* two histories with the same skeleton of next / extract-of-directory-or-link calls that
   differ only in reads and checks (any number, any sizes) return the same headers and end
   in equivalent readers; with file extracts as decode operations the same holds when no
   directory or link entry is extracted (the filesystems may then differ) *)
Theorem two_histories : ltac:(let t := type of P_ReaderTwoHist.two_histories in exact t).
Proof. exact P_ReaderTwoHist.two_histories. Qed.
Theorem two_histories_file_extracts : ltac:(let t := type of P_ReaderTwoHist.two_histories_file_extracts in exact t).
Proof. exact P_ReaderTwoHist.two_histories_file_extracts. Qed.
Theorem file_extract_changes_headers : ltac:(let t := type of P_ReaderTwoHist.file_extract_changes_headers in exact t).
Proof. exact P_ReaderTwoHist.file_extract_changes_headers. Qed.

(* equivalent readers deliver the same bytes for every read schedule and the same check
   verdict (and progress events): what a member yields does not depend on the history *)
Theorem member_bytes_independent : ltac:(let t := type of P_ReaderBytes.member_bytes_independent in exact t).
Proof. exact P_ReaderBytes.member_bytes_independent. Qed.
Theorem member_check_independent : ltac:(let t := type of P_ReaderBytes.member_check_independent in exact t).
Proof. exact P_ReaderBytes.member_check_independent. Qed.
Theorem two_histories_next_member : ltac:(let t := type of P_ReaderMembers.two_histories_next_member in exact t).
Proof. exact P_ReaderMembers.two_histories_next_member. Qed.

Print Assumptions end_is_absorbing_next.
Print Assumptions end_is_absorbing_ops.
Print Assumptions no_decode_outside_members.
Print Assumptions read_then_skip_is_skip.
Print Assumptions header_read_respects_equiv.
Print Assumptions next_header_independent_of_reads.
Print Assumptions next_entry_independent_of_decoding.
Print Assumptions end_is_absorbing.
Print Assumptions plain_policy_never_represents.
Print Assumptions deferred_links_longest_first.
Print Assumptions end_of_archive_drain.
Print Assumptions two_readers_do_not_interact.
Print Assumptions pushed_popped_stack.
Print Assumptions dirs_presented_exactly_once.
Print Assumptions end_of_dir_position.
Print Assumptions two_histories.
Print Assumptions two_histories_file_extracts.
Print Assumptions file_extract_changes_headers.
Print Assumptions member_bytes_independent.
Print Assumptions member_check_independent.
Print Assumptions two_histories_next_member.

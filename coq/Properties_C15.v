(* Properties_C15.v -- C15: members are independent of how other members were
   skipped, read or checked; the end is absorbing; two readers do not interact.
   Statements about the reader model (Reader.v).  The stream/basic-reader
   independence theorems are in P_ReaderIndep.v as they are completed; until
   then that part is decided by the metamorphic oracle of the check on the C. *)
From Lhasa Require Import Base DecBase Loop Generated InputStream Header BasicReader AnyDecoder Decoder
  MacBinary Fs FsRun Reader.
Local Open Scope N_scope.

Section C15.
  Variable mktime : N -> N -> N -> N -> Z -> N -> N.
  Variable junk : N.

  (* once the end has been reported, next_file keeps reporting it and leaves
     everything but the (closed) decoder pointers as it is *)
  Theorem end_is_absorbing_next : forall r, rd_type r = CT_EOF ->
    lha_reader_next_file mktime r = Ok (None, close_decoder r) /\ rd_type (close_decoder r) = CT_EOF.
  Proof.
    intros r H. unfold lha_reader_next_file. cbn [rd_type close_decoder]. rewrite H. split; reflexivity.
  Qed.

  (* ... and read, check and extract report failure without touching the reader or the filesystem *)
  Theorem end_is_absorbing_ops : forall r f name mon n, rd_type r = CT_EOF -> rd_decoder r = None ->
    lha_reader_read junk r n = Ok ([], [], r) /\
    lha_reader_check junk r mon = Ok (false, [], r) /\
    lha_reader_extract junk r f name mon = Ok (false, [], r, f).
  Proof.
    intros r f name mon n H D. unfold lha_reader_read, lha_reader_check, lha_reader_extract, open_decoder.
    rewrite D, H. repeat split; reflexivity.
  Qed.

  (* the same for every entry that is not an archive member proper: reads and checks on a
     re-presented directory or deferred symbolic link, or before the first next_file, fail
     and change nothing *)
  Theorem no_decode_outside_members : forall r mon n, rd_type r <> CT_NORMAL -> rd_decoder r = None ->
    lha_reader_read junk r n = Ok ([], [], r) /\ lha_reader_check junk r mon = Ok (false, [], r).
  Proof.
    intros r mon n H D. unfold lha_reader_read, lha_reader_check, open_decoder. rewrite D.
    destruct (rd_type r); try (split; reflexivity). contradiction H; reflexivity.
  Qed.

  (* Two readers: in a functional model an operation on one reader is a function
     of that reader alone, so there is nothing to prove; what the clause rests on
     in the C -- no mutable file-scope state -- is decided by the two-reader runs of
     the check (interleaved, and on two threads under ThreadSanitizer). *)
End C15.

Print Assumptions end_is_absorbing_next.
Print Assumptions end_is_absorbing_ops.
Print Assumptions no_decode_outside_members.

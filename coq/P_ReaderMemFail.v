(* P_ReaderMemFail.v -- the second half of property C20 over the ledger with
   failing allocations (ReaderMemFail.v), for all decision sequences, all
   protocol-respecting histories and every index k of the failing request:
   (a) no ledger fault, (b) everything released after lha_reader_free and the
   release of the stream, (c) the call in which request k falls reports failure. *)
From Coq Require Import List Arith Lia Bool PeanoNat.
From Lhasa Require Import Base Reader ReaderMem P_ReaderMem ReaderMemFail.
Import ListNotations.

(* ------------------------------------------------------------------ *)
(* A header under construction                                         *)

Definition notdang (s : slot) : Prop := s <> SDangling.

Record pgood (p : pstate) : Prop := {
  pg_fn : notdang (p_fn p); pg_path : notdang (p_path p); pg_tgt : notdang (p_tgt p);
  pg_un : notdang (p_un p); pg_ug : notdang (p_ug p);
  pg_tmp : p_tmp p = false; pg_lost : p_lost p = 0
}.
Definition ptail (p : pstate) : Prop := pgood p /\ p_tgt p = SNull.

(* request k falls among the requests rq+1 .. rq' *)
Definition hit (k rq rq' : nat) : Prop := rq < k /\ k <= rq'.

Lemma req_fails_true rq k : req_fails rq k = true -> S rq = k.
Proof. unfold req_fails. apply Nat.eqb_eq. Qed.
Lemma req_fails_false rq k : req_fails rq k = false -> S rq <> k.
Proof. unfold req_fails. apply Nat.eqb_neq. Qed.

Lemma pgood0 : ptail pstate0.
Proof. split; [constructor; simpl; try reflexivity; unfold notdang; discriminate|reflexivity]. Qed.

Lemma sfree_notdang site s : notdang s -> exists s', sfree site s = Ok s'.
Proof. intros H. destruct s; simpl; eauto. exfalso. apply H. reflexivity. Qed.

Ltac nd := unfold notdang; discriminate.

(* one step from a state without dangling pointers: no fault, none afterwards, a
   failing request makes the step fail *)
Lemma hstep_tail_ok k st p rq :
  ptail p -> (match st with HS_l0_path _ => False | _ => True end) ->
  exists ok p' rq', hstep_run k st p rq = Ok (ok, p', rq') /\ rq < rq' /\
    (hit k rq rq' -> ok = false) /\
    (match st with HS_symlink _ _ => pgood p' | _ => ptail p' end).
Proof.
  intros [[Hfn Hpa Htg Hun Hug Htmp Hlost] Htn] Hst. destruct p as [fn pa tg un ug tmp lost]. simpl in *. subst tg tmp lost.
  destruct st as [|sp|f|bar sp]; [| contradiction | |]; simpl.
  - (* realloc *)
    eexists _, _, _. split; [reflexivity|]. split; [lia|]. split.
    + intros [H1 H2]. destruct (req_fails rq k) eqn:E; [reflexivity|]. apply req_fails_false in E. lia.
    + split; [constructor; simpl; auto; nd|reflexivity].
  - (* a string-valued extended header *)
    destruct (req_fails rq k) eqn:E.
    + eexists _, _, _. split; [reflexivity|]. split; [lia|]. split; [reflexivity|].
      split; [constructor; simpl; auto; nd|reflexivity].
    + apply req_fails_false in E.
      destruct f; simpl;
        [destruct fn|destruct pa|destruct un|destruct ug]; simpl;
        try (exfalso; solve [apply Hfn; reflexivity|apply Hpa; reflexivity|apply Hun; reflexivity|apply Hug; reflexivity]);
        (eexists _, _, _; split; [reflexivity|]; split; [lia|]; split; [intros [H1 H2]; lia|];
         split; [constructor; simpl; auto; nd|reflexivity]).
  - (* parse_symlink *)
    destruct (req_fails rq k) eqn:E1.
    + eexists _, _, _. split; [reflexivity|]. split; [lia|]. split; [reflexivity|]. constructor; simpl; auto; nd.
    + apply req_fails_false in E1. destruct bar; simpl.
      * destruct (req_fails (S rq) k) eqn:E2.
        -- eexists _, _, _. split; [reflexivity|]. split; [lia|]. split; [reflexivity|]. constructor; simpl; auto; nd.
        -- apply req_fails_false in E2.
           destruct (sfree_notdang 1602%N pa Hpa) as [pa' Epa]. destruct (sfree_notdang 1603%N fn Hfn) as [fn' Efn].
           rewrite Epa. simpl. rewrite Efn. simpl.
           destruct sp; simpl.
           ++ destruct (req_fails (S (S rq)) k) eqn:E3.
              ** eexists _, _, _. split; [reflexivity|]. split; [lia|]. split; [reflexivity|]. constructor; simpl; auto; nd.
              ** apply req_fails_false in E3.
                 eexists _, _, _. split; [reflexivity|]. split; [lia|]. split; [intros [H1 H2]; lia|].
                 constructor; simpl; auto; nd.
           ++ eexists _, _, _. split; [reflexivity|]. split; [lia|]. split; [intros [H1 H2]; lia|].
              constructor; simpl; auto; nd.
      * eexists _, _, _. split; [reflexivity|]. split; [lia|]. split; [reflexivity|]. constructor; simpl; auto; nd.
Qed.

Lemma hstep_l0_ok k sp rq :
  exists ok p' rq', hstep_run k (HS_l0_path sp) pstate0 rq = Ok (ok, p', rq') /\ rq < rq' /\
    (hit k rq rq' -> ok = false) /\ ptail p'.
Proof.
  simpl. destruct (req_fails rq k) eqn:E1.
  - eexists _, _, _. split; [reflexivity|]. split; [lia|]. split; [reflexivity|]. apply pgood0.
  - apply req_fails_false in E1. destruct sp; simpl.
    + destruct (req_fails (S rq) k) eqn:E2.
      * eexists _, _, _. split; [reflexivity|]. split; [lia|]. split; [reflexivity|].
        split; [constructor; simpl; auto; nd|reflexivity].
      * apply req_fails_false in E2.
        eexists _, _, _. split; [reflexivity|]. split; [lia|]. split; [intros [H1 H2]; lia|].
        split; [constructor; simpl; auto; nd|reflexivity].
    + eexists _, _, _. split; [reflexivity|]. split; [lia|]. split; [intros [H1 H2]; lia|].
      split; [constructor; simpl; auto; nd|reflexivity].
Qed.

Lemma hit_split k a b c : a <= b -> hit k a c -> hit k a b \/ hit k b c.
Proof. unfold hit. intros. lia. Qed.

Lemma hsteps_tail_ok k : forall l p rq,
  wf_steps_tail l = true -> ptail p ->
  exists ok p' rq', hsteps_run k l p rq = Ok (ok, p', rq') /\ rq <= rq' /\
    (hit k rq rq' -> ok = false) /\ pgood p'.
Proof.
  induction l as [|st r IH]; intros p rq Hwf Hp.
  - exists true, p, rq. split; [reflexivity|]. split; [lia|]. split; [unfold hit; lia|apply Hp].
  - assert (Hst : match st with HS_l0_path _ => False | _ => True end).
    { destruct st; simpl in Hwf; auto. destruct r; discriminate. }
    destruct (hstep_tail_ok k st p rq Hp Hst) as [ok [p1 [rq1 [E1 [Hlt [Hh1 Hp1]]]]]].
    simpl hsteps_run. rewrite E1. simpl. destruct ok.
    + assert (Hr : wf_steps_tail r = true /\ ptail p1 \/ r = [] /\ pgood p1).
      { destruct st; simpl in Hwf.
        - left. split; [exact Hwf|exact Hp1].
        - contradiction.
        - left. split; [exact Hwf|exact Hp1].
        - destruct r; [right; split; [reflexivity|exact Hp1]|discriminate]. }
      destruct Hr as [[Hwr Hpt]|[Hnil Hpg]].
      * destruct (IH p1 rq1 Hwr Hpt) as [ok2 [p2 [rq2 [E2 [Hle [Hh2 Hp2]]]]]].
        exists ok2, p2, rq2. split; [exact E2|]. split; [lia|]. split; [|exact Hp2].
        intros Hh. destruct (hit_split k rq rq1 rq2 (Nat.lt_le_incl _ _ Hlt) Hh) as [Ha|Hb].
        -- specialize (Hh1 Ha). discriminate.
        -- apply (Hh2 Hb).
      * subst r. simpl. exists true, p1, rq1. split; [reflexivity|]. split; [lia|]. split; [|exact Hpg].
        intros Hh. specialize (Hh1 Hh). discriminate.
    + exists false, p1, rq1. split; [reflexivity|]. split; [lia|]. split; [reflexivity|].
      destruct st; try apply Hp1; contradiction.
Qed.

Lemma hsteps_ok k : forall l rq,
  wf_steps l = true ->
  exists ok p' rq', hsteps_run k l pstate0 rq = Ok (ok, p', rq') /\ rq <= rq' /\
    (hit k rq rq' -> ok = false) /\ pgood p'.
Proof.
  induction l as [|st r IH]; intros rq Hwf.
  - exists true, pstate0, rq. split; [reflexivity|]. split; [lia|]. split; [unfold hit; lia|apply pgood0].
  - destruct st as [|sp|f|bar sp].
    + (* realloc: the state is still the initial one *)
      simpl in Hwf. simpl hsteps_run. destruct (req_fails rq k) eqn:E; simpl.
      * exists false, pstate0, (S rq). split; [reflexivity|]. split; [lia|]. split; [reflexivity|apply pgood0].
      * apply req_fails_false in E. destruct (IH (S rq) Hwf) as [ok [p1 [rq1 [E1 [Hle [Hh Hp]]]]]].
        exists ok, p1, rq1. split; [exact E1|]. split; [lia|]. split; [|exact Hp].
        intros [H1 H2]. apply Hh. unfold hit. lia.
    + simpl in Hwf. destruct (hstep_l0_ok k sp rq) as [ok [p1 [rq1 [E1 [Hlt [Hh1 Hp1]]]]]].
      simpl hsteps_run. simpl hstep_run in E1. rewrite E1. simpl. destruct ok.
      * destruct (hsteps_tail_ok k r p1 rq1 Hwf Hp1) as [ok2 [p2 [rq2 [E2 [Hle [Hh2 Hp2]]]]]].
        exists ok2, p2, rq2. split; [exact E2|]. split; [lia|]. split; [|exact Hp2].
        intros Hh. destruct (hit_split k rq rq1 rq2 (Nat.lt_le_incl _ _ Hlt) Hh) as [Ha|Hb].
        -- specialize (Hh1 Ha). discriminate.
        -- apply (Hh2 Hb).
      * exists false, p1, rq1. split; [reflexivity|]. split; [lia|]. split; [reflexivity|apply Hp1].
    + apply (hsteps_tail_ok k (HS_ext f :: r) pstate0 rq Hwf pgood0).
    + apply (hsteps_tail_ok k (HS_symlink bar sp :: r) pstate0 rq Hwf pgood0).
Qed.

Lemma pfree_good p : pgood p -> pfree p = Ok 0.
Proof.
  intros [Hfn Hpa Htg Hun Hug Htmp Hlost]. unfold pfree.
  destruct (sfree_notdang 1604%N _ Hfn) as [a Ea]. destruct (sfree_notdang 1605%N _ Hpa) as [b Eb].
  destruct (sfree_notdang 1606%N _ Htg) as [c Ec]. destruct (sfree_notdang 1607%N _ Hun) as [d Ed].
  destruct (sfree_notdang 1608%N _ Hug) as [e Ee].
  rewrite Ea. simpl. rewrite Eb. simpl. rewrite Ec. simpl. rewrite Ed. simpl. rewrite Ee. simpl.
  rewrite Htmp, Hlost. reflexivity.
Qed.

(* lha_file_header_read: never a fault, nothing lost, and no header when the failing
   request is one of its own *)
Lemma parse_run_ok k steps nat_ok rq :
  wf_steps steps = true ->
  exists hdr rq', parse_run k steps nat_ok rq = Ok (hdr, 0, rq') /\ rq < rq' /\
    (hit k rq rq' -> hdr = None) /\ (nat_ok = false -> hdr = None).
Proof.
  intros Hwf. unfold parse_run. destruct (req_fails rq k) eqn:E.
  - exists None, (S rq). split; [reflexivity|]. split; [lia|]. split; reflexivity.
  - apply req_fails_false in E.
    destruct (hsteps_ok k steps (S rq) Hwf) as [ok [p [rq1 [E1 [Hle [Hh Hp]]]]]]. rewrite E1. simpl.
    destruct (ok && nat_ok) eqn:Eb.
    + apply andb_true_iff in Eb. destruct Eb as [Eo En]. subst ok.
      destruct Hp as [_ _ _ _ _ Htmp Hlost]. rewrite Htmp, Hlost.
      eexists _, _. split; [reflexivity|]. split; [lia|]. split.
      * intros [H1 H2]. assert (Hx : true = false) by (apply Hh; unfold hit; lia). discriminate.
      * intros Hn. rewrite Hn in En. discriminate.
    + rewrite (pfree_good p Hp). simpl. exists None, rq1. split; [reflexivity|]. split; [lia|]. split; reflexivity.
Qed.

(* ------------------------------------------------------------------ *)
(* The reader ledger                                                   *)

Record FInv (fresh : bool) (s : fmem) : Prop := { fi_m : Inv fresh (f_m s); fi_lost : f_lost s = 0 }.

(* the failing request falls in the call that took s to s' *)
Definition fhit (s s' : fmem) : Prop := hit (f_k s) (f_rq s) (f_rq s').

(* what a step must satisfy *)
Definition step_ok (f' : bool) (s : fmem) (r : outcome (result * fmem)) : Prop :=
  exists res s', r = Ok (res, s') /\ FInv f' s' /\ f_rq s <= f_rq s' /\ f_k s' = f_k s /\
                 (fhit s s' -> failure_value res = true).

Lemma nohit_same s : ~ hit (f_k s) (f_rq s) (f_rq s).
Proof. unfold hit. lia. Qed.

(* without a new header lha_reader_next_file cannot present a normal entry *)
Lemma hnext_none_not_normal h dc h' :
  (h_type h = CT_START \/ h_type h = CT_NORMAL) -> dc_header dc = None -> hnext h dc = Ok h' ->
  h_type h' <> CT_NORMAL.
Proof.
  intros Ht Hd He.
  assert (Hb : exists h1, basic_next_file h dc = Ok h1 /\ h_br h1 = None /\ hnext_select h1 dc = Ok h').
  { unfold hnext in He. destruct Ht as [Ht|Ht]; rewrite Ht in He;
      (destruct (basic_next_file h dc) as [h1| |] eqn:Eb; simpl in He; try discriminate;
       exists h1; split; [reflexivity|]; split; [|exact He];
       unfold basic_next_file in Eb; rewrite Hd in Eb;
       destruct (h_br h) as [b|]; [unfold hfree in Eb; destruct (nth_error (h_heap h) b) as [[[|c] inf]|]; simpl in Eb; try discriminate|];
       inversion Eb; reflexivity). }
  destruct Hb as [h1 [_ [Hbr Hs]]]. unfold hnext_select in Hs. rewrite Hbr in Hs.
  destruct (h_stack h1) as [|top rest]; simpl in Hs.
  - destruct (h_deferred h1); inversion Hs; simpl; discriminate.
  - inversion Hs. simpl. discriminate.
Qed.

Lemma next_result_failure m : h_type (m_h m) <> CT_NORMAL -> failure_value (next_result m) = true.
Proof. unfold next_result. destruct (h_type (m_h m)); intros H; try reflexivity. exfalso. apply H. reflexivity. Qed.

Lemma m_next_type m dc m1 : m_next m dc = Ok m1 -> exists d1, hnext (m_h m) dc = Ok (m_h m1) /\ close_decoder_m (m_d m) = Ok d1.
Proof.
  unfold m_next. intros He. destruct (close_decoder_m (m_d m)) as [d1| |]; simpl in He; try discriminate.
  destruct (hnext (m_h m) dc) as [h1| |]; simpl in He; try discriminate. inversion He. simpl. eauto.
Qed.

Lemma f_next_ok f s fd :
  FInv f s -> wf_steps (fd_steps fd) = true -> step_ok true s (f_next s fd).
Proof.
  intros [Hi Hl] Hwf. unfold f_next, step_ok.
  destruct ((match h_type (m_h (f_m s)) with CT_START | CT_NORMAL => true | _ => false end) && fd_parses fd) eqn:Ead.
  - apply andb_true_iff in Ead. destruct Ead as [Eadv _].
    destruct (parse_run_ok (f_k s) (fd_steps fd) (match dc_header (fd_dc fd) with Some _ => true | None => false end)
                (f_rq s) Hwf) as [hdr [rq1 [Ep [Hlt [Hh Hn]]]]].
    rewrite Ep. simpl.
    destruct (m_next_inv f (f_m s) (set_header (fd_dc fd)
                (match hdr, dc_header (fd_dc fd) with Some b, Some inf => Some (set_blocks inf b) | _, _ => None end)) Hi)
      as [m1 [En Hi1]].
    rewrite En. simpl. eexists _, _. split; [reflexivity|]. split; [constructor; simpl; [exact Hi1|lia]|].
    simpl. split; [lia|]. split; [reflexivity|].
    intros Hhit. unfold fhit in Hhit. simpl in Hhit. rewrite (Hh Hhit) in En.
    destruct (m_next_type _ _ _ En) as [d1 [Ehn _]].
    apply next_result_failure. apply (hnext_none_not_normal _ _ _) with (3 := Ehn); [|reflexivity].
    destruct (h_type (m_h (f_m s))); try discriminate; auto.
  - destruct (m_next_inv f (f_m s) (set_header (fd_dc fd) None) Hi) as [m1 [En Hi1]].
    rewrite En. simpl. eexists _, _. split; [reflexivity|]. split; [constructor; simpl; [exact Hi1|exact Hl]|].
    simpl. split; [lia|]. split; [reflexivity|]. intros Hh. exfalso. apply (nohit_same s Hh).
Qed.

(* open_decoder_m's result when nothing can be opened *)
Lemma open_decoder_false d inf dc ok d' :
  dclear d -> open_decoder_m d inf dc = Ok (ok, d') ->
  (hi_known inf = false \/ (hi_mac inf = true /\ dc_pt_ok dc = false)) -> ok = false.
Proof.
  intros [Hd [Hi Hl]] He Hc. destruct d as [dec inn live nx ow]. simpl in *. subst.
  unfold open_decoder_m in He. destruct (hi_known inf) eqn:Ek; simpl in He.
  - destruct Hc as [Hc|[Hm Hp]]; [discriminate|]. rewrite Hm, Hp in He. simpl in He.
    unfold dfree in He. simpl in He. rewrite Nat.eqb_refl in He. simpl in He. inversion He. reflexivity.
  - inversion He. reflexivity.
Qed.

(* open_decoder with both decoder pointers NULL *)
Lemma f_open_ok f s dc :
  HInv f (m_h (f_m s)) -> d_overwrote (m_d (f_m s)) = false -> dclear (m_d (f_m s)) ->
  exists ok s', f_open s dc = Ok (ok, s') /\ m_h (f_m s') = m_h (f_m s) /\ DInv false (m_d (f_m s')) /\
    m_tmp (f_m s') = m_tmp (f_m s) /\ m_files (f_m s') = m_files (f_m s) /\ m_structs (f_m s') = m_structs (f_m s) /\
    m_plain (f_m s') = m_plain (f_m s) /\ f_lost s' = f_lost s /\ f_k s' = f_k s /\ f_rq s <= f_rq s' /\
    (fhit s s' -> ok = false).
Proof.
  intros Hh Ho Hc. unfold f_open. destruct (h_type (m_h (f_m s))) eqn:Ety;
    try (exists false, s; split; [reflexivity|]; split; [reflexivity|];
         split; [split; [exact Ho|left; exact Hc]|]; repeat split; auto; fail).
  destruct (curr_info_ok 1630%N f (f_m s) Hh (or_introl Ety)) as [c [inf [k0 [Ei _]]]]. rewrite Ei. simpl.
  assert (Hclr : DInv false (set_ptrs (m_d (f_m s)) (d_decoder (m_d (f_m s))) None)).
  { destruct Hc as [C1 [C2 C3]]. unfold DInv, dclear, set_ptrs. simpl. rewrite C1, C2, C3, Ho. simpl.
    split; [reflexivity|]. left. repeat split. }
  destruct (hi_known inf) eqn:Ek; cbv zeta; simpl negb; cbv iota.
  - destruct (req_fails (f_rq s) (f_k s)) eqn:Efi.
    + exists false. eexists. split; [reflexivity|]. simpl. repeat (split; [reflexivity|]).
      split; [apply Hclr|]. repeat (split; [reflexivity|]). split; [lia|]. reflexivity.
    + apply req_fails_false in Efi. destruct (hi_mac inf) eqn:Em.
      * match goal with |- context [open_decoder_m ?d ?i ?c] =>
          destruct (open_decoder_inv d i c Ho Hc) as [ok [d1 [Eo Hd1]]]; rewrite Eo end.
        simpl. exists ok. eexists. split; [reflexivity|]. simpl.
        repeat (split; [reflexivity|]). split; [exact Hd1|]. repeat (split; [reflexivity|]). split; [lia|].
        intros [H1 H2]. simpl in H2. apply (open_decoder_false _ _ _ _ _ Hc Eo). right. split; [exact Em|].
        simpl. assert (Hf : req_fails (S (f_rq s)) (f_k s) = true) by (unfold req_fails; apply Nat.eqb_eq; lia).
        rewrite Hf. apply andb_false_r.
      * match goal with |- context [open_decoder_m ?d ?i ?c] =>
          destruct (open_decoder_inv d i c Ho Hc) as [ok [d1 [Eo Hd1]]]; rewrite Eo end.
        simpl. exists ok. eexists. split; [reflexivity|]. simpl.
        repeat (split; [reflexivity|]). split; [exact Hd1|]. repeat (split; [reflexivity|]). split; [lia|].
        intros [H1 H2]. simpl in H2. lia.
  - unfold open_decoder_m. rewrite Ek. simpl.
    exists false. eexists. split; [reflexivity|]. simpl. repeat (split; [reflexivity|]).
    split; [apply Hclr|]. repeat (split; [reflexivity|]). try (split; [lia|]). intros; reflexivity.
Qed.

Lemma FInv_weaken f s : FInv f s -> FInv false s.
Proof. intros [Hi Hl]. constructor; [apply (Inv_weaken f _ Hi)|exact Hl]. Qed.

Lemma step_same f' s res : FInv f' s -> step_ok f' s (Ok (res, s)).
Proof.
  intros Hi. exists res, s. split; [reflexivity|]. split; [exact Hi|]. split; [lia|]. split; [reflexivity|].
  intros Hx. exfalso. apply (nohit_same s Hx).
Qed.

(* the state after f_open, from the facts f_open_ok gives *)
Lemma after_open f s s' :
  FInv f s -> m_h (f_m s') = m_h (f_m s) -> DInv false (m_d (f_m s')) ->
  m_tmp (f_m s') = m_tmp (f_m s) -> m_files (f_m s') = m_files (f_m s) -> m_structs (f_m s') = m_structs (f_m s) ->
  f_lost s' = f_lost s -> FInv false s'.
Proof.
  intros [[Hh Hd Ht Hf Hs] Hl] A B C D E F. constructor; [|congruence].
  constructor; try congruence. rewrite A. apply (HInv_weaken f _ Hh).
Qed.

Lemma f_read_ok f s fd : FInv f s -> step_ok false s (f_read s fd).
Proof.
  intros Hi. pose proof (FInv_weaken f s Hi) as Hw. pose proof Hi as [[Hh Hd Ht Hf Hs] Hl].
  unfold f_read. destruct Hd as [Ho [Hc|[_ [[a [Ea [Eb El]]]|[o [i [Hne [Ea [Eb El]]]]]]]]].
  - pose proof Hc as [Ec1 _]. rewrite Ec1.
    destruct (f_open_ok f s (fd_dc fd) Hh Ho Hc) as [ok [s' [E [A [B [C [D [E1 [F [G [H [I J]]]]]]]]]]]].
    rewrite E. simpl. eexists _, s'. split; [reflexivity|]. split; [apply (after_open f s s' Hi A B C D E1 G)|].
    split; [exact I|]. split; [exact H|]. intros Hx. rewrite (J Hx). reflexivity.
  - rewrite Ea, El. simpl. rewrite Nat.eqb_refl. simpl. apply (step_same false s _ Hw).
  - rewrite Ea, El. simpl. rewrite Nat.eqb_refl. simpl. apply (step_same false s _ Hw).
Qed.

Lemma f_check_ok s fd : FInv true s -> step_ok false s (f_check s fd).
Proof.
  intros Hi. pose proof (FInv_weaken true s Hi) as Hw. pose proof Hi as [[Hh Hd Ht Hf Hs] Hl].
  pose proof (DInv_fresh_clear _ Hd) as Hc. destruct Hd as [Ho _].
  unfold f_check. destruct (h_type (m_h (f_m s))) eqn:Ety; try apply (step_same false s _ Hw).
  destruct (curr_info_ok 1632%N true (f_m s) Hh (or_introl Ety)) as [c [inf [k0 [Ei _]]]]. rewrite Ei. simpl.
  destruct (hi_kind inf); try apply (step_same false s _ Hw).
  destruct (f_open_ok true s (fd_dc fd) Hh Ho Hc) as [ok [s' [E [A [B [C [D [E1 [F [G [H [I J]]]]]]]]]]]].
  rewrite E. simpl. eexists _, s'. split; [reflexivity|]. split; [apply (after_open true s s' Hi A B C D E1 G)|].
  split; [exact I|]. split; [exact H|]. intros Hx. rewrite (J Hx). reflexivity.
Qed.

Lemma FInv_of f s h d tmp fl :
  FInv f s -> HInv false h -> DInv false d -> tmp = 0 -> fl = 0 ->
  forall rq, FInv false {| f_m := mk (f_m s) h d tmp fl; f_rq := rq; f_k := f_k s; f_lost := f_lost s |}.
Proof.
  intros [[Hh Hd Ht Hf Hs] Hl] H1 H2 H3 H4 rq. constructor; [|exact Hl]. constructor; simpl; auto.
Qed.

Lemma FInv_rq f s rq : FInv f s -> FInv f {| f_m := f_m s; f_rq := rq; f_k := f_k s; f_lost := f_lost s |}.
Proof. intros [Hi Hl]. constructor; simpl; assumption. Qed.

Ltac fin_state Hi Hw Hh1 Hhw Hdw Ht Hf :=
  first [ apply FInv_rq; exact Hw
        | apply (FInv_of true _ _ _ _ _ Hi Hh1 Hdw Ht Hf)
        | apply (FInv_of true _ _ _ _ _ Hi Hhw Hdw Ht Hf)
        | apply (FInv_of true _ _ _ _ _ Hi Hh1 Hdw); simpl; congruence
        | apply (FInv_of true _ _ _ _ _ Hi Hhw Hdw); simpl; congruence ].

Lemma f_extract_ok s fd : FInv true s -> step_ok false s (f_extract s fd).
Proof.
  intros Hi. pose proof (FInv_weaken true s Hi) as Hw. pose proof Hi as [[Hh Hd Ht Hf Hs] Hl].
  pose proof (DInv_fresh_clear _ Hd) as Hc. pose proof Hd as [Ho _].
  unfold f_extract. set (dc := fd_dc fd).
  destruct (h_type (m_h (f_m s))) eqn:Ety; try apply (step_same false s _ Hw).
  - (* NORMAL *)
    destruct (curr_info_ok 1633%N true (f_m s) Hh (or_introl Ety)) as [c [inf [k0 [Ei [Ecur Hk]]]]]. rewrite Ei. simpl.
    destruct (hi_kind inf) as [| |dangerous].
    + (* a file *)
      unfold tmp_request. destruct (dc_explicit dc) eqn:Eex.
      * (* a name was passed *)
        unfold tmp_alloc, tmp_free. rewrite Eex.
        destruct (f_open_ok true (with_m s (f_m s)) dc Hh Ho Hc) as [ok [s2 [E [A [B [C [D [E1 [F [G [H [I J]]]]]]]]]]]].
        rewrite E. simpl in *. cbv zeta.
        destruct (ok && dc_fopen_ok dc) eqn:Eop; simpl.
        -- destruct (req_fails (f_rq s2) (f_k s2)) eqn:Eff; simpl.
           ++ eexists _, _. split; [reflexivity|]. simpl.
              split; [apply (after_open true s _ Hi); simpl; auto|]. simpl. split; [lia|]. split; [exact H|]. reflexivity.
           ++ apply req_fails_false in Eff. eexists _, _. split; [reflexivity|]. simpl.
              split; [apply (after_open true s _ Hi); simpl; auto; congruence|]. simpl. split; [lia|]. split; [exact H|].
              intros [H1 H2]. simpl in *. apply andb_true_iff in Eop. destruct Eop as [Eok _]. subst ok.
              assert (Hx : true = false); [apply J; unfold fhit, hit; simpl; rewrite <- H; lia|discriminate].
        -- eexists _, _. split; [reflexivity|]. simpl.
           split; [apply (after_open true s _ Hi); simpl; auto|]. simpl. split; [lia|]. split; [exact H|]. reflexivity.
      * (* tmp_filename is allocated *)
        destruct (req_fails (f_rq s) (f_k s)) eqn:Etf.
        -- eexists _, _. split; [reflexivity|]. split; [|split; [simpl; lia|split; [reflexivity|reflexivity]]].
           apply FInv_rq. exact Hw.
        -- apply req_fails_false in Etf. unfold tmp_alloc, tmp_free. rewrite Eex. simpl.
           destruct (f_open_ok true (with_m (with_rq s (S (f_rq s))) (mk (f_m s) (m_h (f_m s)) (m_d (f_m s)) (S (m_tmp (f_m s))) (m_files (f_m s)))) dc Hh Ho Hc)
             as [ok [s2 [E [A [B [C [D [E1 [F [G [H [I J]]]]]]]]]]]].
           rewrite E. simpl in *. cbv zeta.
           destruct (ok && dc_fopen_ok dc) eqn:Eop; simpl.
           ++ destruct (req_fails (f_rq s2) (f_k s2)) eqn:Eff; simpl.
              ** eexists _, _. split; [reflexivity|]. simpl.
                 split; [apply (after_open true s _ Hi); simpl; auto; rewrite C, Ht; reflexivity|].
                 simpl. split; [lia|]. split; [exact H|]. reflexivity.
              ** apply req_fails_false in Eff. eexists _, _. split; [reflexivity|]. simpl.
                 split; [apply (after_open true s _ Hi); simpl; auto; try congruence; rewrite C, Ht; reflexivity|].
                 simpl. split; [lia|]. split; [exact H|].
                 intros [H1 H2]. simpl in *. apply andb_true_iff in Eop. destruct Eop as [Eok _]. subst ok.
                 assert (Hx : true = false); [apply J; unfold fhit, hit; simpl; rewrite <- H; lia|discriminate].
           ++ eexists _, _. split; [reflexivity|]. simpl.
              split; [apply (after_open true s _ Hi); simpl; auto; rewrite C, Ht; reflexivity|].
              simpl. split; [lia|]. split; [exact H|]. reflexivity.
    + (* a directory *)
      destruct (dc_mkdir_ok dc && negb (m_plain (f_m s))); [|apply (step_same false s _ Hw)].
      destruct (hlink_inv 1613%N (m_h (f_m s)) c k0 (c :: h_stack (m_h (f_m s))) (h_deferred (m_h (f_m s))) Hh Ety Ecur Hk)
        as [h1 [El Hh1]].
      { intros i. rewrite occ_cons. lia. }
      rewrite El. simpl. eexists _, _. split; [reflexivity|]. unfold with_m. simpl.
      split; [apply (FInv_of true s h1 _ _ _ Hi Hh1 (DInv_weaken true _ Hd) Ht Hf)|].
      simpl. split; [lia|]. split; [reflexivity|]. intros Hx. exfalso. apply (nohit_same s Hx).
    + (* a symbolic link *)
      assert (Hlk : exists h1, hlink 1611%N (m_h (f_m s)) c (h_stack (m_h (f_m s))) (insert_at (h_deferred (m_h (f_m s))) (dc_pos dc) c) = Ok h1
                               /\ HInv false h1).
      { apply (hlink_inv 1611%N (m_h (f_m s)) c k0); auto. intros i. rewrite occ_insert_at. lia. }
      destruct Hlk as [h1 [El Hh1]].
      pose proof (HInv_weaken true _ Hh) as Hhw. pose proof (DInv_weaken true _ Hd) as Hdw.
      unfold tmp_request, tmp_alloc, tmp_free. destruct (dc_explicit dc) eqn:Eex; simpl.
      * destruct dangerous; [destruct (dc_fopen_ok dc); [destruct (req_fails (f_rq s) (f_k s)) eqn:Eff|]|]; simpl;
          try rewrite El; simpl;
          (eexists _, _; split; [reflexivity|]; unfold with_m, with_rq; simpl;
           split; [fin_state Hi Hw Hh1 Hhw Hdw Ht Hf|];
           simpl; split; [lia|]; split; [reflexivity|];
           first [reflexivity | intros [H1 H2]; simpl in *; try apply req_fails_false in Eff; lia]).
      * destruct (req_fails (f_rq s) (f_k s)) eqn:Etf; simpl.
        -- eexists _, _. split; [reflexivity|]. split; [|split; [simpl; lia|split; [reflexivity|reflexivity]]].
           apply FInv_rq. exact Hw.
        -- apply req_fails_false in Etf.
           destruct dangerous; [destruct (dc_fopen_ok dc); [destruct (req_fails (S (f_rq s)) (f_k s)) eqn:Eff|]|]; simpl;
             try rewrite El; simpl;
             (eexists _, _; split; [reflexivity|]; unfold with_m, with_rq; simpl;
              split; [fin_state Hi Hw Hh1 Hhw Hdw Ht Hf|];
              simpl; split; [lia|]; split; [reflexivity|];
              first [reflexivity | intros [H1 H2]; simpl in *; try apply req_fails_false in Eff; lia]).
  - (* a re-presented directory *)
    destruct (curr_info_ok 1634%N true (f_m s) Hh (or_intror (f_equal is_fake Ety))) as [c [inf [k0 [Ei _]]]].
    rewrite Ei. simpl. apply (step_same false s _ Hw).
  - (* a deferred symbolic link *)
    destruct (curr_info_ok 1635%N true (f_m s) Hh (or_intror (f_equal is_fake Ety))) as [c [inf [k0 [Ei _]]]].
    rewrite Ei. simpl. unfold tmp_request, tmp_alloc, tmp_free. destruct (dc_explicit dc) eqn:Eex; simpl.
    + eexists _, _. split; [reflexivity|]. split; [|split; [simpl; lia|split; [reflexivity|]]].
      * apply FInv_rq. exact Hw.
      * intros Hx. exfalso. apply (nohit_same s Hx).
    + destruct (req_fails (f_rq s) (f_k s)) eqn:Etf; simpl.
      * eexists _, _. split; [reflexivity|]. split; [|split; [simpl; lia|split; [reflexivity|reflexivity]]].
        apply FInv_rq. exact Hw.
      * apply req_fails_false in Etf. eexists _, _. split; [reflexivity|]. unfold with_m, with_rq. simpl.
        split; [apply (FInv_of true s _ _ _ _ Hi (HInv_weaken true _ Hh) (DInv_weaken true _ Hd) Ht Hf)|].
        simpl. split; [lia|]. split; [reflexivity|]. intros [H1 H2]. simpl in *. lia.
Qed.

(* ------------------------------------------------------------------ *)
(* Property C20, second half                                           *)

Definition wf_decisions (l : list (op * fdecision)) : Prop :=
  Forall (fun x => wf_steps (fd_steps (snd x)) = true) l.

Lemma f_step_ok f s o fd :
  FInv f s -> proto f [o] = true -> wf_steps (fd_steps fd) = true ->
  exists f', step_ok f' s (f_step s o fd).
Proof.
  intros Hi Hp Hwf. destruct o; simpl in *.
  - exists true. apply (f_next_ok f s fd Hi Hwf).
  - exists false. apply (f_read_ok f s fd Hi).
  - apply andb_true_iff in Hp. destruct Hp as [Hf _]. subst f. exists false. apply (f_check_ok s fd Hi).
  - apply andb_true_iff in Hp. destruct Hp as [Hf _]. subst f. exists false. apply (f_extract_ok s fd Hi).
Qed.

Lemma frun_inv : forall (l r : list (op * fdecision)) f s,
  FInv f s -> proto f (map fst (l ++ r)) = true -> wf_decisions l ->
  exists f' s', f_run s l = Ok s' /\ FInv f' s' /\ f_k s' = f_k s /\ proto f' (map fst r) = true.
Proof.
  induction l as [|[o fd] l IH]; intros r f s Hi Hp Hwf.
  - exists f, s. auto.
  - inversion Hwf as [|x y Hw1 Hw2]; subst. simpl in Hw1.
    assert (Hp1 : proto f [o] = true /\ exists f1, (forall fx, step_ok fx s (f_step s o fd) -> fx = f1 \/ True) /\
                    proto f1 (map fst (l ++ r)) = true /\
                    (match o with ONext => f1 = true | _ => f1 = false end)).
    { simpl in Hp. destruct o; simpl.
      - split; [reflexivity|]. exists true. auto.
      - split; [reflexivity|]. exists false. auto.
      - apply andb_true_iff in Hp. destruct Hp as [Hf Hp]. rewrite Hf. split; [reflexivity|]. exists false. auto.
      - apply andb_true_iff in Hp. destruct Hp as [Hf Hp]. rewrite Hf. split; [reflexivity|]. exists false. auto. }
    destruct Hp1 as [Hpo [f1 [_ [Hp1 Hf1]]]].
    assert (Hst : step_ok f1 s (f_step s o fd)).
    { destruct o; subst f1; simpl in *.
      - apply (f_next_ok f s fd Hi Hw1).
      - apply (f_read_ok f s fd Hi).
      - apply andb_true_iff in Hpo. destruct Hpo as [Hf _]. subst f. apply (f_check_ok s fd Hi).
      - apply andb_true_iff in Hpo. destruct Hpo as [Hf _]. subst f. apply (f_extract_ok s fd Hi). }
    destruct Hst as [res [s1 [E1 [Hi1 [_ [Hk1 _]]]]]].
    simpl f_run. rewrite E1. simpl.
    destruct (IH r f1 s1 Hi1 Hp1 Hw2) as [f2 [s2 [E2 [Hi2 [Hk2 Hp2]]]]].
    exists f2, s2. split; [exact E2|]. split; [exact Hi2|]. split; [congruence|exact Hp2].
Qed.

Lemma FInv_new plain k s0 : fmem_new plain k = Some s0 -> FInv true s0.
Proof.
  unfold fmem_new. destruct (Nat.leb 1 k && Nat.leb k 3); [discriminate|]. intros H. inversion H.
  constructor; simpl; [apply Inv_new|reflexivity].
Qed.

(* (a) + (b): whatever request fails, a protocol-respecting history never faults in
   the ledger and lha_reader_free + the release of the stream leave it empty.
   (When one of the first three requests fails -- fmem_new = None -- the driver
   gets NULL from lha_input_stream_new / lha_reader_new and there is no history.) *)
Theorem C20_fail_released :
  forall (plain : bool) (k : nat) (l : list (op * fdecision)) s0,
    fmem_new plain k = Some s0 -> protocol (map fst l) = true -> wf_decisions l ->
    exists s s', f_run s0 l = Ok s /\ d_overwrote (m_d (f_m s)) = false /\
                 f_free_reader s = Ok s' /\ fledger_empty (f_free_stream s').
Proof.
  intros plain k l s0 Hn Hp Hwf.
  destruct (frun_inv l [] true s0 (FInv_new _ _ _ Hn)) as [f [s [E [[Hi Hl] _]]]];
    [rewrite app_nil_r; exact Hp|exact Hwf|].
  destruct (m_free_inv f (f_m s) Hi) as [m' [Ef He]].
  exists s. eexists. split; [exact E|]. split; [destruct Hi as [_ [Ho _] _ _ _]; exact Ho|].
  unfold f_free_reader. rewrite Ef. simpl. split; [reflexivity|]. split; [exact He|exact Hl].
Qed.

(* (c): the call in which the failing request falls reports failure: next_file
   returns NULL or a re-presented entry, read returns 0, check / extract return 0 *)
Theorem C20_fail_reported :
  forall (plain : bool) (k : nat) (l : list (op * fdecision)) (o : op) (fd : fdecision) s0,
    fmem_new plain k = Some s0 -> protocol (map fst (l ++ [(o, fd)])) = true ->
    wf_decisions (l ++ [(o, fd)]) ->
    exists s res s', f_run s0 l = Ok s /\ f_step s o fd = Ok (res, s') /\
                     (fhit s s' -> failure_value res = true).
Proof.
  intros plain k l o fd s0 Hn Hp Hwf.
  apply Forall_app in Hwf. destruct Hwf as [Hw1 Hw2]. inversion Hw2 as [|x y Hwo _]; subst. simpl in Hwo.
  destruct (frun_inv l [(o, fd)] true s0 (FInv_new _ _ _ Hn) Hp Hw1) as [f [s [E [Hi [_ Hpo]]]]].
  destruct (f_step_ok f s o fd Hi Hpo Hwo) as [f' [res [s' [Es [_ [_ [_ Hc]]]]]]].
  exists s, res, s'. auto.
Qed.

(* ------------------------------------------------------------------ *)
(* Non-vacuity: a directory-less archive with a level-1 member whose name is given
   twice, a symbolic link and a MacOS member; every request of the run fails in turn *)

Definition fx_dc : decision :=
  {| dc_header := None; dc_pop := false; dc_pt_ok := true; dc_explicit := false; dc_mkdir_ok := true;
     dc_fopen_ok := true; dc_pos := 0 |}.
Definition fx_n (inf : hinfo) (steps : list hstep) : fdecision :=
  {| fd_dc := set_header fx_dc (Some inf); fd_parses := true; fd_steps := steps |}.
Definition fx_o : fdecision := {| fd_dc := fx_dc; fd_parses := false; fd_steps := [] |}.
Definition fx_end : fdecision := {| fd_dc := fx_dc; fd_parses := true; fd_steps := [] |}.

Definition fx_seq : list (op * fdecision) :=
  [ (ONext, fx_n ex_file [HS_realloc; HS_l0_path true; HS_realloc; HS_ext F_fn; HS_ext F_path]);
    (OExtract, fx_o);
    (ONext, fx_n ex_link [HS_realloc; HS_ext F_fn; HS_symlink true true]);
    (OExtract, fx_o);
    (ONext, fx_n ex_mac [HS_realloc; HS_realloc; HS_ext F_fn]);
    (ORead, fx_o); (ORead, fx_o);
    (ONext, fx_end) ].

Definition fx_final (k : nat) : option (nat * nat * nat) :=
  match fmem_new false k with
  | None => None
  | Some s0 =>
    match f_run s0 fx_seq with
    | Ok s => match f_free_reader s with
              | Ok s' => Some (f_rq s, f_live_blocks s, f_live_blocks (f_free_stream s'))
              | _ => None
              end
    | _ => None
    end
  end.

Example C20_fail_nonvacuous :
  protocol (map fst fx_seq) = true /\ wf_decisions fx_seq /\
  (* nothing fails: 28 requests; at the end the deferred link (4 blocks) is current *)
  fx_final 0 = Some (28, 7, 0) /\
  (* every single request failing in turn: no fault, nothing left *)
  forallb (fun k => match fx_final k with Some (_, _, 0) => true | _ => false end) (seq 4 30) = true /\
  (* request 8 = the first member's file-name extended header (3 structs, calloc, realloc, the in-header
     name and its split, realloc, then this one): the header read fails, the archive ends there *)
  fx_final 8 = Some (8, 3, 0).
Proof.
  split; [reflexivity|]. split; [repeat constructor|]. split; [vm_compute; reflexivity|].
  split; vm_compute; reflexivity.
Qed.

(* the mutation the construction ledger is there for: freeing the old value before the
   replacement is allocated leaves a dangling pointer that lha_file_header_free frees again *)
Definition mutated_ext_filename (k : nat) (p : pstate) (rq : nat) : outcome (bool * pstate * nat) :=
  old <- sfree 1601%N (p_fn p) ;;
  if req_fails rq k then Ok (false, set_field p F_fn old, S rq)
  else Ok (true, set_field p F_fn SLive, S rq).

Example C20_fail_mutation_would_fault :
  exists p, hsteps_run 0 [HS_l0_path false] pstate0 0 = Ok (true, p, 1) /\
  (forall rq, exists p' rq', mutated_ext_filename (S rq) p rq = Ok (false, p', rq') /\ pfree p' = Fault 1604) /\
  (forall rq, exists p' rq', hstep_run (S rq) (HS_ext F_fn) p rq = Ok (false, p', rq') /\ pfree p' = Ok 0).
Proof.
  eexists. split; [vm_compute; reflexivity|]. split; intros rq.
  - eexists _, _. unfold mutated_ext_filename, req_fails. simpl. rewrite Nat.eqb_refl. split; reflexivity.
  - eexists _, _. simpl. unfold req_fails. rewrite Nat.eqb_refl. split; reflexivity.
Qed.

Print Assumptions C20_fail_released.
Print Assumptions C20_fail_reported.
Print Assumptions C20_fail_nonvacuous.
Print Assumptions C20_fail_mutation_would_fault.

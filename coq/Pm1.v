(* Pm1.v -- model of lib/pm1_decoder.c (PMarc -pm1-).
   Checked-access sites 1000-1099. *)
From Lhasa Require Import Base DecBase BitReader Loop PmaCommon Generated.
Local Open Scope N_scope.

(* typedef struct {
       BitStreamReader bit_stream_reader;
       unsigned int output_stream_pos;
       const uint8_t *byte_decode_tree;
       uint8_t ringbuf[RING_BUFFER_SIZE];
       unsigned int ringbuf_pos;
       HistoryLinkedList history_list;
       LHADecoderCallback callback;
       void *callback_data;
   } LHAPM1Decoder;
   byte_decode_tree is NULL (None) or byte_decode_trees[row] (Some row). *)
Record pm1_state := {
  pm1_bsr : bsr;
  pm1_output_stream_pos : N;
  pm1_byte_decode_tree : option N;
  pm1_ringbuf : arr;
  pm1_ringbuf_pos : N;
  pm1_history_list : hlist
}.

Definition pm1_set_bsr (s : pm1_state) (r : bsr) : pm1_state :=
  {| pm1_bsr := r; pm1_output_stream_pos := pm1_output_stream_pos s;
     pm1_byte_decode_tree := pm1_byte_decode_tree s; pm1_ringbuf := pm1_ringbuf s;
     pm1_ringbuf_pos := pm1_ringbuf_pos s; pm1_history_list := pm1_history_list s |}.

(* static const VariableLengthTable copy_ranges[] = {...};
   static const VariableLengthTable byte_ranges[] = {...};
   static const uint8_t byte_decode_trees[][5] = {...};   (flattened, row after row) *)
Definition pm1_copy_ranges : vltable := mk_vltable pm1_copy_ranges_offset pm1_copy_ranges_bits.
Definition pm1_byte_ranges : vltable := mk_vltable pm1_byte_ranges_offset pm1_byte_ranges_bits.
Definition pm1_byte_decode_trees_arr : arr := arr_of_list 0 pm1_byte_decode_trees.
Definition pm1_byte_decode_trees_rows : N := pm1_byte_decode_trees_len / pm1_byte_decode_tree_row.

(* x % RING_BUFFER_SIZE; the comparison avoids a division in the common case
   (the result is x mod RING_BUFFER_SIZE either way). *)
Definition pm1_ring_mod (x : N) : N :=
  if x <? pm1_RING_BUFFER_SIZE then x else x mod pm1_RING_BUFFER_SIZE.

(* static int lha_pm1_init(void *data, LHADecoderCallback callback, void *callback_data)
   {
       memset(decoder, 0, sizeof(LHAPM1Decoder));
       decoder->callback = callback;
       decoder->callback_data = callback_data;
       bit_stream_reader_init(&decoder->bit_stream_reader, read_callback_wrapper, decoder);
       decoder->output_stream_pos = 0;
       decoder->byte_decode_tree = NULL;
       decoder->ringbuf_pos = 0;
       init_history_list(&decoder->history_list);
       return 1;
   } *)
Definition pm1_init : outcome pm1_state :=
  h <- init_history_list ;;
  Ok {| pm1_bsr := bsr_init;
        pm1_output_stream_pos := 0;
        pm1_byte_decode_tree := None;
        pm1_ringbuf := mk_arr pm1_ringbuf_extent 0;
        pm1_ringbuf_pos := 0;
        pm1_history_list := h |}.

Section Pm1.
  Context {cbs : Type}.
  Variable cb : callback cbs.

  (* static size_t read_callback_wrapper(void *buf, size_t buf_len, void *user_data)
     {
         result = decoder->callback(buf, buf_len, decoder->callback_data);
         if (result == 0) { memset(buf, 0, buf_len); result = buf_len; }
         return result;
     }
     buf_len is at most 4 (the bit reader's buffer). *)
  Definition read_callback_wrapper : callback cbs := fun c buf_len =>
    let '(bs, c') := cb c buf_len in
    match bs with
    | [] => (repeat 0 (N.to_nat buf_len), c')
    | _ => (bs, c')
    end.

  (* the decoder's bit stream reader reads through the wrapper *)
  Definition pm1_read_bits (s : pm1_state) (c : cbs) (n : N) : outcome (option N * pm1_state * cbs) :=
    '(v, r, c') <- read_bits read_callback_wrapper (pm1_bsr s) c n ;;
    Ok (v, pm1_set_bsr s r, c').
  Definition pm1_read_bit (s : pm1_state) (c : cbs) := pm1_read_bits s c 1.

  (* static int read_start_header(LHAPM1Decoder *decoder)
     {
         index = read_bits(&decoder->bit_stream_reader, 5);
         if (index < 0) return 0;
         decoder->byte_decode_tree = byte_decode_trees[index];
         return 1;
     } *)
  Definition read_start_header (s : pm1_state) (c : cbs) : outcome (bool * pm1_state * cbs) :=
    '(index, s1, c1) <- pm1_read_bits s c 5 ;;
    match index with
    | None => Ok (false, s1, c1)
    | Some i =>
      if i <? pm1_byte_decode_trees_rows then
        Ok (true,
            {| pm1_bsr := pm1_bsr s1; pm1_output_stream_pos := pm1_output_stream_pos s1;
               pm1_byte_decode_tree := Some i; pm1_ringbuf := pm1_ringbuf s1;
               pm1_ringbuf_pos := pm1_ringbuf_pos s1; pm1_history_list := pm1_history_list s1 |},
            c1)
      else Fault 1001
    end.

  (* static void outputted_byte(LHAPM1Decoder *decoder, uint8_t b)
     {
         decoder->ringbuf[decoder->ringbuf_pos] = b;
         decoder->ringbuf_pos = (decoder->ringbuf_pos + 1) % RING_BUFFER_SIZE;
         update_history_list(&decoder->history_list, b);
         ++decoder->output_stream_pos;
     } *)
  Definition outputted_byte (s : pm1_state) (b : N) : outcome pm1_state :=
    let b := u8 b in
    ring' <- wr 1002 (pm1_ringbuf s) (pm1_ringbuf_pos s) b ;;
    h' <- update_history_list (pm1_history_list s) b ;;
    Ok {| pm1_bsr := pm1_bsr s;
          pm1_output_stream_pos := u32 (pm1_output_stream_pos s + 1);
          pm1_byte_decode_tree := pm1_byte_decode_tree s;
          pm1_ringbuf := ring';
          pm1_ringbuf_pos := pm1_ring_mod (u32 (pm1_ringbuf_pos s + 1));
          pm1_history_list := h' |}.

  (* x = read_bits(...); if (x < 0) return -1; else return x + k; *)
  Definition pm1_read_plus (s : pm1_state) (c : cbs) (n k : N) : outcome (option N * pm1_state * cbs) :=
    '(x, s1, c1) <- pm1_read_bits s c n ;;
    match x with
    | None => Ok (None, s1, c1)
    | Some v => Ok (Some (v + k), s1, c1)
    end.

  (* static int read_copy_byte_count(LHAPM1Decoder *decoder)
     {
         x = read_bits(&decoder->bit_stream_reader, 2);
         if (x < 0) return -1; else if (x < 3) return x + 3;
         x = read_bits(&decoder->bit_stream_reader, 3);
         if (x < 0) return -1; else if (x < 5) return x + 6;
         else if (x == 5) { x = read_bits(.., 2); if (x < 0) return -1; else return x + 11; }
         else if (x == 6) { x = read_bits(.., 3); if (x < 0) return -1; else return x + 15; }
         x = read_bits(&decoder->bit_stream_reader, 6);
         if (x < 0) return -1; else if (x < 62) return x + 23;
         else if (x == 62) { x = read_bits(.., 5); if (x < 0) return -1; else return x + 85; }
         else { x = read_bits(.., 7); if (x < 0) return -1; else return x + 117; }
     } *)
  Definition read_copy_byte_count (s : pm1_state) (c : cbs) : outcome (option N * pm1_state * cbs) :=
    '(x, s1, c1) <- pm1_read_bits s c 2 ;;
    match x with
    | None => Ok (None, s1, c1)
    | Some x1 =>
      if x1 <? 3 then Ok (Some (x1 + 3), s1, c1)
      else
        '(x, s2, c2) <- pm1_read_bits s1 c1 3 ;;
        match x with
        | None => Ok (None, s2, c2)
        | Some x2 =>
          if x2 <? 5 then Ok (Some (x2 + 6), s2, c2)
          else if x2 =? 5 then pm1_read_plus s2 c2 2 11
          else if x2 =? 6 then pm1_read_plus s2 c2 3 15
          else
            '(x, s3, c3) <- pm1_read_bits s2 c2 6 ;;
            match x with
            | None => Ok (None, s3, c3)
            | Some x3 =>
              if x3 <? 62 then Ok (Some (x3 + 23), s3, c3)
              else if x3 =? 62 then pm1_read_plus s3 c3 5 85
              else pm1_read_plus s3 c3 7 117
            end
        end
    end.

  (* static int read_bit_after_threshold(LHAPM1Decoder *decoder, unsigned int threshold, int def)
     {
         if (decoder->output_stream_pos >= threshold) return read_bit(&decoder->bit_stream_reader);
         else return def;
     } *)
  Definition read_bit_after_threshold (s : pm1_state) (c : cbs) (threshold def : N)
    : outcome (option N * pm1_state * cbs) :=
    if threshold <=? pm1_output_stream_pos s then pm1_read_bit s c
    else Ok (Some def, s, c).

  (* static int read_copy_type_range(LHAPM1Decoder *decoder)
     {
         x = read_bit(&decoder->bit_stream_reader);
         if (x < 0) return -1;
         else if (x == 0) {
             x = read_bit_after_threshold(decoder, 576, 0);
             if (x < 0) return -1;
             else if (x != 0) return 4;
             else return read_bit_after_threshold(decoder, 64, 0);
         } else {
             x = read_bit_after_threshold(decoder, 64, 1);
             if (x < 0) return -1;
             else if (x == 0) return 3;
             x = read_bit_after_threshold(decoder, 2624, 1);
             if (x < 0) return -1;
             else if (x != 0) return 2;
             else return 5;
         }
     } *)
  Definition read_copy_type_range (s : pm1_state) (c : cbs) : outcome (option N * pm1_state * cbs) :=
    '(x, s1, c1) <- pm1_read_bit s c ;;
    match x with
    | None => Ok (None, s1, c1)
    | Some x1 =>
      if x1 =? 0 then
        '(x, s2, c2) <- read_bit_after_threshold s1 c1 576 0 ;;
        match x with
        | None => Ok (None, s2, c2)
        | Some x2 =>
          if negb (x2 =? 0) then Ok (Some 4, s2, c2)
          else read_bit_after_threshold s2 c2 64 0
        end
      else
        '(x, s2, c2) <- read_bit_after_threshold s1 c1 64 1 ;;
        match x with
        | None => Ok (None, s2, c2)
        | Some x2 =>
          if x2 =? 0 then Ok (Some 3, s2, c2)
          else
            '(x, s3, c3) <- read_bit_after_threshold s2 c2 2624 1 ;;
            match x with
            | None => Ok (None, s3, c3)
            | Some x3 => if negb (x3 =? 0) then Ok (Some 2, s3, c3) else Ok (Some 5, s3, c3)
            end
        end
    end.

  (* if (range_index == 3) { if (pos < 320) range_index = 6; }
     else if (range_index == 4) { if (pos < 832) range_index = 7; else if (pos < 1088) range_index = 8;
                                  else if (pos < 1600) range_index = 9; }
     else if (range_index == 5) { if (pos < 2880) range_index = 10; else if (pos < 3136) range_index = 11;
                                  else if (pos < 3648) range_index = 12; else if (pos < 4672) range_index = 13;
                                  else if (pos < 6720) range_index = 14; }
     with pos = decoder->output_stream_pos *)
  Definition redirect_range_index (range_index pos : N) : N :=
    if range_index =? 3 then
      (if pos <? 320 then 6 else range_index)
    else if range_index =? 4 then
      (if pos <? 832 then 7 else if pos <? 1088 then 8 else if pos <? 1600 then 9 else range_index)
    else if range_index =? 5 then
      (if pos <? 2880 then 10 else if pos <? 3136 then 11 else if pos <? 3648 then 12
       else if pos <? 4672 then 13 else if pos <? 6720 then 14 else range_index)
    else range_index.

  (* for (i = 0; i < count; ++i) {
         buf[i] = decoder->ringbuf[copy_index];
         outputted_byte(decoder, decoder->ringbuf[copy_index]);
         copy_index = (copy_index + 1) % RING_BUFFER_SIZE;
     }
     buf points into the output buffer at the bytes already stored (ob_len),
     so buf[i] is the next byte of the output buffer.  [n] iterations left
     (count <= 244). *)
  Fixpoint pm1_copy_loop (n : nat) (copy_index : N) (s : pm1_state) (o : obuf)
    : outcome (pm1_state * obuf) :=
    match n with
    | O => Ok (s, o)
    | S k =>
      b <- rd 1003 (pm1_ringbuf s) copy_index ;;
      o' <- ob_push 1004 pm1_max_read o b ;;
      b2 <- rd 1005 (pm1_ringbuf s) copy_index ;;
      s' <- outputted_byte s b2 ;;
      pm1_copy_loop k (pm1_ring_mod (copy_index + 1)) s' o'
    end.

  (* static size_t read_copy_command(LHAPM1Decoder *decoder, uint8_t *buf)
     {
         range_index = read_copy_type_range(decoder);
         if (range_index < 0) return 0;
         if (range_index < 2) count = 2;
         else { count = read_copy_byte_count(decoder); if (count < 0) return 0; }
         ... redirect range_index ...
         history_distance = decode_variable_length(&decoder->bit_stream_reader, copy_ranges, range_index);
         if (history_distance < 0 || (unsigned) history_distance >= decoder->output_stream_pos) return 0;
         copy_index = (decoder->ringbuf_pos + RING_BUFFER_SIZE - history_distance - 1) % RING_BUFFER_SIZE;
         for (...) {...}
         return count;
     }
     The result is the returned count (0 = failure); the bytes are appended
     to [o].  copy_index is computed in unsigned int arithmetic. *)
  Definition read_copy_command (s : pm1_state) (c : cbs) (o : obuf)
    : outcome (N * pm1_state * cbs * obuf) :=
    '(range_index, s1, c1) <- read_copy_type_range s c ;;
    match range_index with
    | None => Ok (0, s1, c1, o)
    | Some ri =>
      '(count, s2, c2) <- (if ri <? 2 then Ok (Some 2, s1, c1) else read_copy_byte_count s1 c1) ;;
      match count with
      | None => Ok (0, s2, c2, o)
      | Some cnt =>
        let ri' := redirect_range_index ri (pm1_output_stream_pos s2) in
        '(history_distance, r3, c3) <-
            decode_variable_length read_callback_wrapper pm1_copy_ranges (pm1_bsr s2) c2 ri' ;;
        let s3 := pm1_set_bsr s2 r3 in
        match history_distance with
        | None => Ok (0, s3, c3, o)
        | Some hd =>
          if pm1_output_stream_pos s3 <=? hd then Ok (0, s3, c3, o)
          else
            let copy_index :=
              pm1_ring_mod (u32 (pm1_ringbuf_pos s3 + pm1_RING_BUFFER_SIZE + 4294967296 - hd - 1)) in
            '(s4, o') <- pm1_copy_loop (N.to_nat cnt) copy_index s3 o ;;
            Ok (cnt, s4, c3, o')
        end
      end
    end.

  (* ptr[k] for ptr = byte_decode_trees[row] + off: an element of row [row]
     (extent pm1_byte_decode_tree_row) of the table. *)
  Definition byte_decode_tree_at (row off : N) : outcome N :=
    if off <? pm1_byte_decode_tree_row then
      rd 1007 pm1_byte_decode_trees_arr (row * pm1_byte_decode_tree_row + off)
    else Fault 1006.

  (* for (;;) {
         bit = read_bit(&decoder->bit_stream_reader);
         if (bit < 0) return -1;
         else if (bit == 0) child = ( *ptr >> 4) & 0x0f;
         else child = *ptr & 0x0f;
         if (child >= 10) return child - 10;
         ptr += child;
     }
     state: ptr - decoder->byte_decode_tree, the decoder, the callback state *)
  Definition byte_decode_step (row : N) (st : N * pm1_state * cbs)
    : outcome ((N * pm1_state * cbs) + (option N * pm1_state * cbs)) :=
    let '(off, s, c) := st in
    '(bit, s1, c1) <- pm1_read_bit s c ;;
    match bit with
    | None => Ok (inr (None, s1, c1))
    | Some bv =>
      v <- byte_decode_tree_at row off ;;
      let child := if bv =? 0 then N.land (N.shiftr v 4) 15 else N.land v 15 in
      if 10 <=? child then Ok (inr (Some (child - 10), s1, c1))
      else Ok (inl (off + child, s1, c1))
    end.

  (* static int read_byte_decode_index(LHAPM1Decoder *decoder)
     {
         ptr = decoder->byte_decode_tree;
         if (ptr[0] == 0) return 0;
         for (;;) {...}
     }
     A walk visits at most pm1_byte_decode_tree_row nodes of a well-formed
     row; the fuel allows 2^8 iterations.  A NULL byte_decode_tree is a
     fault (site 1008). *)
  Definition read_byte_decode_index (s : pm1_state) (c : cbs) : outcome (option N * pm1_state * cbs) :=
    match pm1_byte_decode_tree s with
    | None => Fault 1008
    | Some row =>
      v0 <- byte_decode_tree_at row 0 ;;
      if v0 =? 0 then Ok (Some 0, s, c)
      else loop (byte_decode_step row) 8 (0, s, c)
    end.

  (* static int read_byte(LHAPM1Decoder *decoder)
     {
         index = read_byte_decode_index(decoder);
         if (index < 0) return -1;
         count = decode_variable_length(&decoder->bit_stream_reader, byte_ranges, index);
         if (count < 0) return -1;
         return find_in_history_list(&decoder->history_list, count);
     } *)
  Definition read_byte (s : pm1_state) (c : cbs) : outcome (option N * pm1_state * cbs) :=
    '(index, s1, c1) <- read_byte_decode_index s c ;;
    match index with
    | None => Ok (None, s1, c1)
    | Some idx =>
      '(count, r2, c2) <- decode_variable_length read_callback_wrapper pm1_byte_ranges (pm1_bsr s1) c1 idx ;;
      let s2 := pm1_set_bsr s1 r2 in
      match count with
      | None => Ok (None, s2, c2)
      | Some cnt =>
        b <- find_in_history_list (pm1_history_list s2) cnt ;;
        Ok (Some b, s2, c2)
      end
    end.

  (* x = read_bits(reader, n); if (x < 0) return 0; else return x + k; *)
  Definition pm1_read_plus0 (s : pm1_state) (c : cbs) (n k : N) : outcome (N * pm1_state * cbs) :=
    '(x, s1, c1) <- pm1_read_bits s c n ;;
    match x with
    | None => Ok (0, s1, c1)
    | Some v => Ok (v + k, s1, c1)
    end.

  (* static int read_byte_block_count(BitStreamReader *reader)
     {
         x = read_bits(reader, 2);
         if (x < 0) return 0; else if (x < 3) return x + 1;
         x = read_bits(reader, 3);
         if (x < 0) return 0; else if (x < 7) return x + 4;
         x = read_bits(reader, 4);
         if (x < 0) return 0; else if (x < 14) return x + 11;
         else if (x == 14) { x = read_bits(reader, 6); if (x < 0) return 0; else return x + 25; }
         else { x = read_bits(reader, 7); if (x < 0) return 0; else return x + 89; }
     }
     reader is &decoder->bit_stream_reader. *)
  Definition read_byte_block_count (s : pm1_state) (c : cbs) : outcome (N * pm1_state * cbs) :=
    '(x, s1, c1) <- pm1_read_bits s c 2 ;;
    match x with
    | None => Ok (0, s1, c1)
    | Some x1 =>
      if x1 <? 3 then Ok (x1 + 1, s1, c1)
      else
        '(x, s2, c2) <- pm1_read_bits s1 c1 3 ;;
        match x with
        | None => Ok (0, s2, c2)
        | Some x2 =>
          if x2 <? 7 then Ok (x2 + 4, s2, c2)
          else
            '(x, s3, c3) <- pm1_read_bits s2 c2 4 ;;
            match x with
            | None => Ok (0, s3, c3)
            | Some x3 =>
              if x3 <? 14 then Ok (x3 + 11, s3, c3)
              else if x3 =? 14 then pm1_read_plus0 s3 c3 6 25
              else pm1_read_plus0 s3 c3 7 89
            end
        end
    end.

  (* for (i = 0; i < block_len; ++i) {
         byteval = read_byte(decoder);
         if (byteval < 0) return 0;
         buf[i] = byteval;
         outputted_byte(decoder, byteval);
     }
     buf is the start of the output buffer and [o] is empty at the first
     iteration, so buf[i] is the next byte of the output buffer.
     [n] iterations left (block_len <= 216); false = the "return 0". *)
  Fixpoint byte_block_loop (n : nat) (s : pm1_state) (c : cbs) (o : obuf)
    : outcome (bool * pm1_state * cbs * obuf) :=
    match n with
    | O => Ok (true, s, c, o)
    | S k =>
      '(byteval, s1, c1) <- read_byte s c ;;
      match byteval with
      | None => Ok (false, s1, c1, o)
      | Some b =>
        o' <- ob_push 1009 pm1_max_read o (u8 b) ;;
        s2 <- outputted_byte s1 b ;;
        byte_block_loop k s2 c1 o'
      end
    end.

  (* static size_t read_byte_block(LHAPM1Decoder *decoder, uint8_t *buf)
     {
         block_len = read_byte_block_count(&decoder->bit_stream_reader);
         if (block_len == 0) return 0;
         for (...) {...}
         result = (size_t) block_len;
         if (result == MAX_BYTE_BLOCK_LEN) return result;
         result2 = read_copy_command(decoder, buf + result);
         if (result2 == 0) return 0;
         return result + result2;
     }
     Returns the first [result] bytes of buf. *)
  Definition read_byte_block (s : pm1_state) (c : cbs) : outcome (list N * pm1_state * cbs) :=
    '(block_len, s1, c1) <- read_byte_block_count s c ;;
    if block_len =? 0 then Ok ([], s1, c1)
    else
      '(ok, s2, c2, o) <- byte_block_loop (N.to_nat block_len) s1 c1 ob_empty ;;
      if negb ok then Ok ([], s2, c2)
      else if block_len =? pm1_MAX_BYTE_BLOCK_LEN then Ok (ob_bytes o, s2, c2)
      else
        '(result2, s3, c3, o') <- read_copy_command s2 c2 o ;;
        if result2 =? 0 then Ok ([], s3, c3)
        else Ok (ob_bytes o', s3, c3).

  (* static size_t lha_pm1_read(void *data, uint8_t *buf)
     {
         if (decoder->byte_decode_tree == NULL && !read_start_header(decoder)) return 0;
         command_type = read_bit(&decoder->bit_stream_reader);
         if (command_type == 0) return read_copy_command(decoder, buf);
         else return read_byte_block(decoder, buf);
     } *)
  Definition pm1_read_command (s : pm1_state) (c : cbs) : outcome (list N * pm1_state * cbs) :=
    '(command_type, s1, c1) <- pm1_read_bit s c ;;
    match command_type with
    | Some 0 =>
      '(count, s2, c2, o) <- read_copy_command s1 c1 ob_empty ;;
      if count =? 0 then Ok ([], s2, c2) else Ok (ob_bytes o, s2, c2)
    | _ => read_byte_block s1 c1
    end.

  Definition pm1_read (s : pm1_state) (c : cbs) : outcome (list N * pm1_state * cbs) :=
    match pm1_byte_decode_tree s with
    | None =>
      '(ok, s1, c1) <- read_start_header s c ;;
      if ok then pm1_read_command s1 c1 else Ok ([], s1, c1)
    | Some _ => pm1_read_command s c
    end.
End Pm1.

(* P_Bounds.v -- property C13: work and memory bounds, about the model.

   1. work of listing  (a "step" is one request to the raw source: a read or a skip)
   2. skipping a member whose data is truncated ends the archive
   3. decoding stops within the declared length; the inner decoder is invoked
      at most (bytes delivered + 1) times per read
   4. heap accounting (the model has no heap: the accounting functions below are
      what the check compares with the numbers of the malloc wrapper)

   Lemmas and theorems only; the models are InputStream.v, Header.v,
   BasicReader.v, Decoder.v. *)
From Lhasa Require Import Base ListN Loop Generated Crc16 InputStream Header BasicReader
                          Decoder P_HeaderSafe P_Intact P_Decoder P_DecoderInv.
From Coq Require Import ZifyBool ZifyN ZifyNat.
Local Open Scope N_scope.

(* ================================================================== *)
(* Definitions (all accounting functions in one place)                 *)

(* --- work --- *)
Definition src_requests (s : source) : N := so_reads s + so_skips s.
Definition requests (st : istream) : N := src_requests (is_src st).
Definition rrequests (r : breader) : N := requests (br_stream r).
(* the input stream has left its INIT state (the self-extractor scan is done) *)
Definition ready (st : istream) : Prop := is_state st <> IS_INIT.

(* --- heap --- *)
Definition MiB : N := 1048576.

Definition str_bytes (o : option (list N)) : N :=
  match o with Some s => nlen s + 2 | None => 0 end.

(* one LHAFileHeader: the struct, the raw data appended to it, the five strings *)
Definition header_bytes (h : header) : N :=
  sizeof_LHAFileHeader + nlen (h_raw h)
  + str_bytes (h_filename h) + str_bytes (h_path h) + str_bytes (h_symlink_target h)
  + str_bytes (h_unix_username h) + str_bytes (h_unix_group h).

(* extend_raw_data: realloc to old + nbytes (which may copy: old and new block
   both live), then read *)
Definition extend_peak (old nbytes : N) : N := 2 * (old + nbytes) + sizeof_LHAFileHeader.

(* one LHADecoder for entry i of decoders[]: struct + extra_size + max_read *)
Definition decoder_table : list (N * N) :=   (* (extra_size, max_read) *)
  [ (decoder_extra_size_0, decoder_max_read_0); (decoder_extra_size_1, decoder_max_read_1);
    (decoder_extra_size_2, decoder_max_read_2); (decoder_extra_size_3, decoder_max_read_3);
    (decoder_extra_size_4, decoder_max_read_4); (decoder_extra_size_5, decoder_max_read_5);
    (decoder_extra_size_6, decoder_max_read_6); (decoder_extra_size_7, decoder_max_read_7);
    (decoder_extra_size_8, decoder_max_read_8); (decoder_extra_size_9, decoder_max_read_9);
    (decoder_extra_size_10, decoder_max_read_10); (decoder_extra_size_11, decoder_max_read_11);
    (decoder_extra_size_12, decoder_max_read_12); (decoder_extra_size_13, decoder_max_read_13) ].
Definition decoder_bytes_of (e : N * N) : N := sizeof_LHADecoder + fst e + snd e.
Definition decoder_bytes (i : nat) : N := decoder_bytes_of (nth i decoder_table (0, 0)).
Definition max_decoder_bytes : N := fold_right N.max 0 (map decoder_bytes_of decoder_table).
(* the MacBinary wrapper is a second LHADecoder *)
Definition macbinary_bytes : N := sizeof_LHADecoder + sizeof_MacBinaryDecoder + macbinary_max_read.
(* the objects that live as long as the reader *)
Definition fixed_bytes : N :=
  sizeof_LHAInputStream + sizeof_LHABasicReader + sizeof_LHAReader + max_decoder_bytes + macbinary_bytes.

(* ================================================================== *)
(* 1. Work                                                              *)

Lemma nlen_firstn_skipn {A} n (l : list A) : nlen (firstn_N n l) + nlen (skipn_N n l) = nlen l.
Proof. rewrite nlen_firstn_N, nlen_skipn_N. lia. Qed.

(* ---- 1a. the self-extractor scan ---- *)

Definition sx_requests (s : sfx_st) : N := src_requests (sx_src s).
Definition sx_avail (s : sfx_st) : N := nlen (sx_leadin s) + nlen (so_data (sx_src s)).
Definition sx_pen (s : sfx_st) : N := if nlen (so_data (sx_src s)) =? 0 then 0 else 12.

Definition sfx_cost_inv (C A : N) (s : sfx_st) : Prop :=
  12 * sx_requests s + sx_avail s + sx_pen s <= C /\ sx_avail s <= A.
Definition sfx_cost_post (C A : N) (r : bool * source * list N) : Prop :=
  let '(_, src, l) := r in
  12 * src_requests src + (nlen l + nlen (so_data src)) <= C + 12 /\ nlen l + nlen (so_data src) <= A.

Lemma sfx_step_cost C A s x : sfx_cost_inv C A s -> sfx_step s = Ok x ->
  match x with inl s' => sfx_cost_inv C A s' | inr r => sfx_cost_post C A r end.
Proof.
  intros [HC HA]. unfold sfx_step.
  destruct (sx_filepos s <? MAX_SFX_HEADER_LEN).
  2:{ intros E. inversion E; subst. unfold sfx_cost_post. unfold sx_requests, sx_avail, sx_pen in *. lia. }
  unfold raw_read. cbv beta iota. change LEADIN_BUFFER_LEN with 24.
  set (n := 24 - nlen (sx_leadin s)).
  pose proof (nlen_firstn_N n (so_data (sx_src s))) as Hgot.
  pose proof (nlen_skipn_N n (so_data (sx_src s))) as Hrest.
  unfold sx_requests, sx_avail, sx_pen, src_requests in *.
  destruct (firstn_N n (so_data (sx_src s))) as [|g gs] eqn:Eg.
  - intros E. inversion E; subst. unfold sfx_cost_post, src_requests. cbn [so_data so_reads so_skips].
    rewrite nlen_nil in Hgot.
    destruct (N.eqb_spec (nlen (so_data (sx_src s))) 0); lia.
  - set (got := g :: gs) in *.
    assert (Hg1 : 1 <= nlen got) by (unfold got; rewrite nlen_cons; lia).
    set (l := sx_leadin s ++ got).
    assert (Hl : nlen l = nlen (sx_leadin s) + nlen got) by (unfold l; apply nlen_app).
    change leadin_extent with 24.
    destruct (N.ltb_spec 24 (nlen l)) as [Hbad|Hok]; [discriminate|].
    destruct (scan_leadin_spec l Hok 30 0 (sx_skip s)) as (found & i & skip' & E & Hle & Hor & Hf).
    rewrite E. cbn [bind]. cbv beta iota.
    assert (Hd : (nlen (so_data (sx_src s)) =? 0) = false) by (apply N.eqb_neq; lia).
    rewrite Hd in HC.
    destruct found as [i0|]; intros Ex; inversion Ex; subst; clear Ex.
    + unfold sfx_cost_post, src_requests. cbn [so_data so_reads so_skips]. rewrite nlen_skipn_N. lia.
    + unfold sfx_cost_inv, sx_requests, sx_avail, sx_pen, src_requests.
      cbn [sx_src sx_leadin so_data so_reads so_skips]. rewrite nlen_skipn_N.
      assert (Hfin : nlen l <= i + 12) by (apply Hf; lia).
      rewrite Hrest. destruct (N.eqb_spec (nlen (so_data (sx_src s)) - n) 0) as [Hz|Hnz]; lia.
Qed.

(* The scan makes at most (bytes dropped)/12 + 2 reads (and no skips). *)
Theorem skip_sfx_work st ok st' : skip_sfx st = Ok (ok, st') ->
  12 * requests st' + avail st' <= 12 * requests st + avail st + 24 /\
  avail st' <= avail st /\ is_state st' = is_state st.
Proof.
  unfold skip_sfx. intros H.
  apply bind_ok in H. destruct H as [[[ok1 src'] l] [El H]]. cbv beta iota in H.
  inversion H; subst; clear H.
  set (s0 := {| sx_src := is_src st; sx_leadin := is_leadin st; sx_filepos := 0; sx_skip := 0 |}) in *.
  apply (P_Intact.loop_inv sfx_step (sfx_cost_inv (12 * requests st + avail st + 12) (avail st))
           (sfx_cost_post (12 * requests st + avail st + 12) (avail st))) in El.
  - unfold sfx_cost_post in El. unfold requests, avail. cbn [is_src is_leadin is_state].
    unfold requests, avail in El. split; [lia|]. split; [lia|reflexivity].
  - intros s s' Hi E. exact (sfx_step_cost _ _ s (inl s') Hi E).
  - intros s r Hi E. exact (sfx_step_cost _ _ s (inr r) Hi E).
  - unfold sfx_cost_inv, sx_requests, sx_avail, sx_pen, s0, requests, avail. cbn [sx_src sx_leadin].
    destruct (nlen (so_data (is_src st)) =? 0); lia.
Qed.

Corollary skip_sfx_reads_div st ok st' : skip_sfx st = Ok (ok, st') ->
  requests st' <= requests st + (avail st - avail st') / 12 + 2.
Proof.
  intros H. destruct (skip_sfx_work _ _ _ H) as (A & B & _).
  assert (E : 12 * (requests st' - requests st - 2) <= avail st - avail st') by lia.
  assert (D : requests st' - requests st - 2 <= (avail st - avail st') / 12).
  { apply N.div_le_lower_bound; [lia|exact E]. }
  lia.
Qed.

(* ---- 1b. lha_input_stream_read ---- *)

(* after the scan: at most one request per read; what is returned was paid for *)
Lemma read_ready_work st n r st' : read_ready st n = (r, st') ->
  requests st' <= requests st + 1 /\ avail st' <= avail st /\ is_state st' = is_state st /\
  nlen (is_leadin st') <= nlen (is_leadin st) /\
  match r with
  | Some bytes => nlen bytes = n /\ avail st' + n <= avail st /\ nlen (is_leadin st') = nlen (is_leadin st) - n
  | None => True end.
Proof.
  unfold read_ready.
  assert (Hgen :
    (let from_leadin := firstn_N n (is_leadin st) in
     let l' := skipn_N n (is_leadin st) in
     let total := nlen from_leadin in
     if total <? n
     then
      let '(got, src') := raw_read (is_src st) (n - total) in
      let st2 := {| is_src := src'; is_state := is_state st; is_leadin := l' |} in
      if total + nlen got =? n then (Some (from_leadin ++ got), st2) else (None, st2)
     else
      (Some from_leadin,
       {| is_src := is_src st; is_state := is_state st; is_leadin := l' |})) = (r, st') ->
    requests st' <= requests st + 1 /\ avail st' <= avail st /\ is_state st' = is_state st /\
    nlen (is_leadin st') <= nlen (is_leadin st) /\
    match r with
    | Some bytes => nlen bytes = n /\ avail st' + n <= avail st /\ nlen (is_leadin st') = nlen (is_leadin st) - n
    | None => True end).
  { cbv zeta. unfold raw_read. cbv beta iota.
    pose proof (nlen_firstn_N n (is_leadin st)) as H1.
    pose proof (nlen_skipn_N n (is_leadin st)) as H2.
    destruct (N.ltb_spec (nlen (firstn_N n (is_leadin st))) n) as [Hlt|Hge].
    - pose proof (nlen_firstn_N (n - nlen (firstn_N n (is_leadin st))) (so_data (is_src st))) as H3.
      pose proof (nlen_skipn_N (n - nlen (firstn_N n (is_leadin st))) (so_data (is_src st))) as H4.
      destruct (N.eqb_spec (nlen (firstn_N n (is_leadin st)) +
                            nlen (firstn_N (n - nlen (firstn_N n (is_leadin st))) (so_data (is_src st)))) n) as [He|Hne];
        intros E; inversion E; subst; clear E;
        unfold requests, src_requests, avail; cbn [is_leadin is_src is_state so_data so_reads so_skips];
        rewrite ?nlen_app; (split; [lia|]); (split; [lia|]); (split; [reflexivity|]); (split; [lia|]); try exact I.
      split; [lia|]. split; lia.
    - intros E; inversion E; subst; clear E.
      unfold requests, src_requests, avail; cbn [is_leadin is_src is_state so_data so_reads so_skips].
      split; [lia|]. split; [lia|]. split; [reflexivity|]. split; [lia|]. split; [lia|]. split; lia. }
  destruct (is_state st) eqn:Es; try exact Hgen.
  intros E; inversion E; subst. split; [lia|]. split; [lia|]. split; [congruence|]. split; [lia|exact I].
Qed.

Definition read_post (n : N) (st : istream) (r : option (list N)) (st' : istream) : Prop :=
  ready st' /\ avail st' <= avail st /\
  match r with Some bytes => nlen bytes = n /\ avail st' + n <= avail st | None => True end.

(* the lead-in buffer is drained before the source is asked *)
Definition lead_post (n : N) (st : istream) (r : option (list N)) (st' : istream) : Prop :=
  nlen (is_leadin st') <= nlen (is_leadin st) /\
  match r with Some _ => nlen (is_leadin st') = nlen (is_leadin st) - n | None => True end.

(* once the scan is done, a read is at most one request *)
Theorem lha_input_stream_read_work_ready st n r st' : ready st ->
  lha_input_stream_read st n = Ok (r, st') ->
  requests st' <= requests st + 1 /\ read_post n st r st' /\ lead_post n st r st'.
Proof.
  intros Hr. unfold lha_input_stream_read, ready in *.
  destruct (is_state st) eqn:Es; [congruence| |]; cbn [bind]; intros E; inversion E as [E'];
    apply read_ready_work in E'; destruct E' as (A & B & C & L & D); unfold read_post, lead_post, ready;
    (split; [exact A|]); (split; [split; [congruence|]; split; [exact B|]; destruct r; [split; apply D|exact I]|]);
    (split; [exact L|]); (destruct r; [apply D|exact I]).
Qed.

(* in any state: the scan (at most dropped/12 + 2 reads) and one more read *)
Theorem lha_input_stream_read_work st n r st' :
  lha_input_stream_read st n = Ok (r, st') ->
  12 * requests st' + avail st' <= 12 * requests st + avail st + 36 /\ read_post n st r st'.
Proof.
  unfold lha_input_stream_read. intros H.
  apply bind_ok in H. destruct H as [st1 [E1 H]]. inversion H as [E']; clear H.
  apply read_ready_work in E'. destruct E' as (A & B & C & _ & D).
  assert (F : 12 * requests st1 + avail st1 <= 12 * requests st + avail st + 24 /\
              avail st1 <= avail st /\ is_state st1 <> IS_INIT).
  { destruct (is_state st) eqn:Es.
    - apply bind_ok in E1. destruct E1 as [[ok st0] [E0 E1]]. cbv beta iota in E1.
      apply skip_sfx_work in E0. destruct E0 as (F1 & F2 & _).
      inversion E1; subst; clear E1. unfold requests, avail in *. cbn [is_src is_leadin is_state].
      split; [lia|]. split; [lia|]. destruct ok; discriminate.
    - inversion E1; subst. split; [lia|]. split; [lia|]. congruence.
    - inversion E1; subst. split; [lia|]. split; [lia|]. congruence. }
  destruct F as (F1 & F2 & F3). unfold read_post, ready.
  split; [lia|]. split; [congruence|]. split; [lia|].
  destruct r; [|exact I]. lia.
Qed.

(* ---- 1c. lha_input_stream_skip ---- *)

Definition sk_pen (b : N) : N := if b =? 0 then 0 else 32.
Definition sk_dpen (s : source) : N := if nlen (so_data s) =? 0 then 0 else 32.

(* KPipe: read 32 bytes at a time; a short read ends the skip *)
Definition fb_inv (C M D : N) (x : source * N) : Prop :=
  let '(s, b) := x in
  32 * so_reads s + nlen (so_data s) + sk_pen b <= C /\
  32 * so_reads s + N.min b (nlen (so_data s)) + sk_pen b <= M /\
  nlen (so_data s) <= D.
Definition fb_post (C M D skips : N) (k : skind) (r : bool * source) : Prop :=
  let '(ok, s) := r in
  32 * so_reads s + nlen (so_data s) <= C /\ 32 * so_reads s <= M /\ nlen (so_data s) <= D /\
  so_skips s = skips /\ so_kind s = k.

Lemma fallback_step_cost C M D sk k x y :
  so_skips (fst x) = sk -> so_kind (fst x) = k -> fb_inv C M D x -> fallback_step x = Ok y ->
  match y with
  | inl x' => so_skips (fst x') = sk /\ so_kind (fst x') = k /\ fb_inv C M D x'
  | inr r => fb_post C M D sk k r
  end.
Proof.
  destruct x as [s b]. cbn [fst]. intros Hs Hk (H1 & H2 & H3). unfold fallback_step.
  unfold sk_pen in *.
  destruct (N.ltb_spec 0 b) as [Hpos|Hz].
  2:{ intros E; inversion E; subst. unfold fb_post. destruct (N.eqb_spec b 0); repeat split; try lia; auto. }
  unfold raw_read. cbv beta iota.
  set (len := if 32 <? b then 32 else b).
  assert (Hlen : 1 <= len /\ len <= b /\ len <= 32 /\ (b <= 32 -> len = b) /\ (32 < b -> len = 32))
    by (unfold len; destruct (N.ltb_spec 32 b); lia).
  pose proof (nlen_firstn_N len (so_data s)) as G1.
  pose proof (nlen_skipn_N len (so_data s)) as G2.
  destruct (N.eqb_spec b 0) as [|_]; [lia|].
  destruct (N.eqb_spec (nlen (firstn_N len (so_data s))) len) as [He|Hne];
    intros E; inversion E; subst; clear E.
  - cbn [fst so_skips so_kind]. split; [reflexivity|]. split; [reflexivity|].
    unfold fb_inv, sk_pen. cbn [so_data so_reads]. rewrite G2.
    destruct (N.eqb_spec (b - len) 0); lia.
  - unfold fb_post. cbn [so_data so_reads so_skips so_kind]. rewrite G2. repeat split; try lia; auto.
Qed.

(* KCbNoSkip: the loop inside lha_input_stream_skip; an empty read ends it *)
Definition ns_inv (C M D : N) (x : source * N) : Prop :=
  let '(s, b) := x in
  32 * so_reads s + nlen (so_data s) + sk_pen b + sk_dpen s <= C /\
  32 * so_reads s + N.min b (nlen (so_data s)) + sk_pen b + sk_dpen s <= M /\
  nlen (so_data s) <= D.

Lemma noskip_step_cost C M D sk k x y :
  so_skips (fst x) = sk -> so_kind (fst x) = k -> ns_inv C M D x -> noskip_step x = Ok y ->
  match y with
  | inl x' => so_skips (fst x') = sk /\ so_kind (fst x') = k /\ ns_inv C M D x'
  | inr r => fb_post C M D sk k r
  end.
Proof.
  destruct x as [s b]. cbn [fst]. intros Hs Hk (H1 & H2 & H3). unfold noskip_step.
  unfold sk_pen, sk_dpen in *.
  destruct (N.ltb_spec 0 b) as [Hpos|Hz].
  2:{ intros E; inversion E; subst. unfold fb_post.
      destruct (N.eqb_spec b 0); destruct (N.eqb_spec (nlen (so_data s)) 0); repeat split; try lia; auto. }
  unfold raw_read. cbv beta iota.
  set (len := if 32 <? b then 32 else b).
  assert (Hlen : 1 <= len /\ len <= b /\ len <= 32 /\ (b <= 32 -> len = b) /\ (32 < b -> len = 32))
    by (unfold len; destruct (N.ltb_spec 32 b); lia).
  pose proof (nlen_firstn_N len (so_data s)) as G1.
  pose proof (nlen_skipn_N len (so_data s)) as G2.
  destruct (N.eqb_spec b 0) as [|_]; [lia|].
  destruct (firstn_N len (so_data s)) as [|g gs] eqn:Eg; intros E; inversion E; subst; clear E.
  - unfold fb_post. cbn [so_data so_reads so_skips so_kind]. rewrite G2. rewrite nlen_nil in G1.
    destruct (N.eqb_spec (nlen (so_data s)) 0); repeat split; try lia; auto.
  - cbn [fst so_skips so_kind]. split; [reflexivity|]. split; [reflexivity|].
    unfold ns_inv, sk_pen, sk_dpen. cbn [so_data so_reads]. rewrite G2.
    rewrite nlen_cons in *.
    destruct (N.eqb_spec (nlen (so_data s)) 0); [lia|].
    destruct (N.eqb_spec (b - (nlen gs + 1)) 0); destruct (N.eqb_spec (nlen (so_data s) - len) 0); lia.
Qed.

Definition has_skip (k : skind) : bool :=
  match k with KFile | KCbSkip => true | KPipe | KCbNoSkip => false end.

Definition data_left (st : istream) : N := nlen (so_data (is_src st)).

(* One request for the kinds with a skip function of their own; for a pipe and for
   callbacks without skip, reads of 32 bytes: at most min(bytes, data left)/32 + 2
   requests, and 32 * (requests made) <= (bytes actually consumed) + 64. *)
Theorem lha_input_stream_skip_work st bytes ok st' :
  lha_input_stream_skip st bytes = Ok (ok, st') ->
  so_kind (is_src st') = so_kind (is_src st) /\ is_state st' = is_state st /\
  is_leadin st' = is_leadin st /\ avail st' <= avail st /\
  (has_skip (so_kind (is_src st)) = true -> requests st' = requests st + 1) /\
  32 * requests st' <= 32 * requests st + N.min bytes (data_left st) + 64 /\
  32 * requests st' + avail st' <= 32 * requests st + avail st + 64.
Proof.
  unfold lha_input_stream_skip. intros H.
  apply bind_ok in H. destruct H as [[ok1 src'] [E H]]. cbv beta iota in H.
  inversion H; subst; clear H. cbn [is_src is_state is_leadin].
  unfold requests, avail, data_left, src_requests. cbn [is_src is_state is_leadin].
  set (s := is_src st) in *.
  destruct (so_kind s) eqn:Ek.
  - unfold raw_skip in E. rewrite Ek in E. inversion E; subst; clear E.
    cbn [so_kind so_data so_reads so_skips has_skip]. rewrite nlen_skipn_N.
    repeat split; lia.
  - unfold raw_skip in E. rewrite Ek in E.
    apply (P_Intact.loop_inv fallback_step
             (fun x => so_skips (fst x) = so_skips s + 1 /\ so_kind (fst x) = KPipe /\
                       fb_inv (32 * so_reads s + nlen (so_data s) + 32)
                              (32 * so_reads s + N.min bytes (nlen (so_data s)) + 32)
                              (nlen (so_data s)) x)
             (fb_post (32 * so_reads s + nlen (so_data s) + 32)
                      (32 * so_reads s + N.min bytes (nlen (so_data s)) + 32)
                      (nlen (so_data s)) (so_skips s + 1) KPipe)) in E.
    + unfold fb_post in E. cbn [has_skip]. repeat split; try lia; try tauto; discriminate.
    + intros x x' (I1 & I2 & I3) Ex. exact (fallback_step_cost _ _ _ _ _ x (inl x') I1 I2 I3 Ex).
    + intros x r (I1 & I2 & I3) Ex. exact (fallback_step_cost _ _ _ _ _ x (inr r) I1 I2 I3 Ex).
    + cbn [fst so_skips so_kind]. split; [reflexivity|]. split; [reflexivity|].
      unfold fb_inv, sk_pen. cbn [so_data so_reads]. destruct (bytes =? 0); lia.
  - unfold raw_skip in E. rewrite Ek in E. cbn [so_data so_kind so_reads so_skips] in E.
    destruct (N.leb_spec bytes (nlen (so_data s))); inversion E; subst; clear E;
      cbn [so_kind so_data so_reads so_skips has_skip]; rewrite ?nlen_skipn_N, ?nlen_nil;
      repeat split; lia.
  - apply (P_Intact.loop_inv noskip_step
             (fun x => so_skips (fst x) = so_skips s /\ so_kind (fst x) = KCbNoSkip /\
                       ns_inv (32 * so_reads s + nlen (so_data s) + 64)
                              (32 * so_reads s + N.min bytes (nlen (so_data s)) + 64)
                              (nlen (so_data s)) x)
             (fb_post (32 * so_reads s + nlen (so_data s) + 64)
                      (32 * so_reads s + N.min bytes (nlen (so_data s)) + 64)
                      (nlen (so_data s)) (so_skips s) KCbNoSkip)) in E.
    + unfold fb_post in E. cbn [has_skip]. repeat split; try lia; try tauto; discriminate.
    + intros x x' (I1 & I2 & I3) Ex. exact (noskip_step_cost _ _ _ _ _ x (inl x') I1 I2 I3 Ex).
    + intros x r (I1 & I2 & I3) Ex. exact (noskip_step_cost _ _ _ _ _ x (inr r) I1 I2 I3 Ex).
    + cbn [fst so_skips so_kind]. split; [reflexivity|]. split; [exact Ek|].
      unfold ns_inv, sk_pen, sk_dpen. cbn [so_data so_reads].
      destruct (bytes =? 0); destruct (nlen (so_data s) =? 0); lia.
Qed.

Corollary lha_input_stream_skip_requests_div st bytes ok st' :
  lha_input_stream_skip st bytes = Ok (ok, st') ->
  requests st' <= requests st + N.min bytes (data_left st) / 32 + 2.
Proof.
  intros H. destruct (lha_input_stream_skip_work _ _ _ _ H) as (_ & _ & _ & _ & _ & A & _).
  assert (D : requests st' - requests st - 2 <= N.min bytes (data_left st) / 32).
  { apply N.div_le_lower_bound; lia. }
  lia.
Qed.

(* ---- 1d. lha_file_header_read ---- *)

(* the raw data of h' beyond that of h was read from the stream between st and st',
   lead-in buffer first *)
Definition paid (h : header) (st : istream) (h' : header) (st' : istream) : Prop :=
  avail st' + nlen (h_raw h') <= avail st + nlen (h_raw h) /\ nlen (h_raw h) <= nlen (h_raw h') /\
  nlen (is_leadin st') <= nlen (is_leadin st) - (nlen (h_raw h') - nlen (h_raw h)).

Lemma paid_refl h st : paid h st h st.
Proof. unfold paid. lia. Qed.

Lemma paid_trans h0 s0 h1 s1 h2 s2 : paid h0 s0 h1 s1 -> paid h1 s1 h2 s2 -> paid h0 s0 h2 s2.
Proof. unfold paid. lia. Qed.

Lemma paid_same_raw h0 s0 h1 s1 h2 : nlen (h_raw h2) = nlen (h_raw h1) -> paid h0 s0 h1 s1 -> paid h0 s0 h2 s1.
Proof. unfold paid. lia. Qed.

(* extend_raw_data after the scan: at most one request; at most 1 MiB at a time *)
Lemma extend_raw_data_work h st n r st' : ready st -> extend_raw_data h st n = Ok (r, st') ->
  ready st' /\ requests st' <= requests st + 1 /\ avail st' <= avail st /\
  nlen (is_leadin st') <= nlen (is_leadin st) /\
  match r with
  | Some h' => exists bytes, h' = set_raw h (h_raw h ++ bytes) /\ nlen bytes = n /\
                             avail st' + n <= avail st /\ n <= MiB /\
                             nlen (is_leadin st') = nlen (is_leadin st) - n
  | None => True
  end.
Proof.
  intros Hr. unfold extend_raw_data.
  destruct (N.ltb_spec hdr_LEVEL_3_MAX_HEADER_LEN n) as [L|L].
  - intros E; inversion E; subst. repeat split; try lia; auto.
  - intros H. bind_inv H as [r1 st1] E.
    apply lha_input_stream_read_work_ready in E; [|exact Hr].
    destruct E as (A & (B & C & D) & (L1 & L2)).
    destruct r1 as [bytes|]; inversion H; subst; clear H.
    + split; [exact B|]. split; [exact A|]. split; [exact C|]. split; [exact L1|]. exists bytes.
      split; [reflexivity|]. destruct D as [D1 D2]. split; [exact D1|]. split; [exact D2|].
      split; [exact L|exact L2].
    + split; [exact B|]. split; [exact A|]. split; [exact C|]. split; [exact L1|exact I].
Qed.

Lemma decode_level0_header_work mktime h st ok h' st' : ready st ->
  decode_level0_header mktime h st = Ok (ok, h', st') ->
  ready st' /\ requests st' <= requests st + 1 /\ paid h st h' st'.
Proof.
  intros Hr H. unfold decode_level0_header in H.
  bind_inv H as hl E0. bind_inv H as csum E1.
  set (min_len := if h_level h =? 0 then hdr_LEVEL_0_MIN_HEADER_LEN else hdr_LEVEL_1_MIN_HEADER_LEN) in *.
  assert (Triv : ready st /\ requests st <= requests st + 1 /\ paid h st h st)
    by (split; [exact Hr|]; split; [lia|apply paid_refl]).
  destruct (negb ((h_level h =? 0) || (h_level h =? 1))); [inversion H; subst; exact Triv|].
  destruct (hl <? min_len); [inversion H; subst; exact Triv|].
  bind_inv H as [r st1] Ex. apply extend_raw_data_work in Ex; [|exact Hr].
  destruct Ex as (R1 & Q1 & A1 & Ll1 & X).
  destruct r as [h1|]; [|inversion H; subst; unfold paid; repeat split; try lia; auto].
  destruct X as (bytes & -> & Lb & Av & _ & Ld).
  assert (Good : forall hh, h_raw hh = h_raw h ++ bytes ->
                 ready st1 /\ requests st1 <= requests st + 1 /\ paid h st hh st1).
  { intros hh Ehh. unfold paid. rewrite Ehh, nlen_app. repeat split; try lia; auto. }
  clear Triv. hs.
  bind_inv H as body Eb.
  destruct (negb (check_l0_checksum body csum)); [inversion H; subst; apply Good; reflexivity|].
  bind_inv H as m Em. bind_inv H as clen Ecl. bind_inv H as len El. bind_inv H as ft Eft.
  cbv zeta in H. bind_inv H as nl Enl.
  destruct (hl <? min_len + nl); [inversion H; subst; apply Good; reflexivity|].
  bind_inv H as os Eos. cbv zeta in H. bind_inv H as pdata Ep. bind_inv H as crc Ecrc.
  match type of H with context [process_level0_path ?a ?b] =>
    pose proof (process_level0_path_same a b) as [P1 P2]; hs;
    set (h4 := process_level0_path a b) in * end.
  match type of H with (if ?c then _ else _) = _ => destruct c end.
  - bind_inv H as h6 E6. apply process_level0_extended_area_same in E6. destruct E6 as [Q6 _]. hs.
    inversion H; subst. apply Good. rewrite Q6, P1. reflexivity.
  - inversion H; subst. apply Good. hs. exact P1.
Qed.

(* one step of read_l1_extended_headers: one request; a step that continues has
   consumed at least 3 bytes *)
Lemma l1_step_work h st x : ready st -> l1_step (h, st) = Ok x ->
  match x with
  | inl (h', st') => ready st' /\ requests st' <= requests st + 1 /\
                     avail st' + 3 <= avail st /\ paid h st h' st'
  | inr (_, h', st') => ready st' /\ requests st' <= requests st + 1 /\ paid h st h' st'
  end.
Proof.
  intros Hr. unfold l1_step. intros H. bind_inv H as len E.
  destruct (len =? 0).
  { inversion H; subst. split; [exact Hr|]. split; [lia|apply paid_refl]. }
  bind_inv H as [r st1] Ex. apply extend_raw_data_work in Ex; [|exact Hr].
  destruct Ex as (R1 & Q1 & A1 & Ll1 & X).
  destruct r as [h1|].
  2:{ inversion H; subst. split; [exact R1|]. split; [exact Q1|]. unfold paid. lia. }
  destruct X as (bytes & -> & Lb & Av & _ & Ld).
  assert (P : forall hh, h_raw hh = h_raw h ++ bytes -> paid h st hh st1).
  { intros hh Ehh. unfold paid. rewrite Ehh, nlen_app. lia. }
  destruct (h_compressed_length (set_raw h (h_raw h ++ bytes)) <? len).
  { inversion H; subst. split; [exact R1|]. split; [exact Q1|]. apply P. reflexivity. }
  destruct (N.ltb_spec len 3) as [L3|L3]; inversion H; subst; clear H.
  - split; [exact R1|]. split; [exact Q1|]. apply P. reflexivity.
  - split; [exact R1|]. split; [exact Q1|]. split; [lia|]. apply P. reflexivity.
Qed.

(* n + 1 evaluations of l1_step: n extended headers were read and accepted *)
Lemma l1_loops_work n : forall h st ok h' st',
  loops l1_step n (h, st) (ok, h', st') -> ready st ->
  ready st' /\ requests st' <= requests st + N.of_nat n + 1 /\
  avail st' + 3 * N.of_nat n <= avail st /\ paid h st h' st'.
Proof.
  induction n as [|n IH]; intros h st ok h' st' Hl Hr; inversion Hl; subst.
  - match goal with E : l1_step _ = Ok (inr _) |- _ => apply l1_step_work in E; [|exact Hr];
      destruct E as (A & B & C) end.
    split; [exact A|]. split; [lia|]. split; [unfold paid in C; lia|exact C].
  - match goal with E : l1_step _ = Ok (inl ?s) |- _ => destruct s as [h1 st1];
      apply l1_step_work in E; [|exact Hr]; destruct E as (A & B & C & D) end.
    match goal with L : loops l1_step n _ _ |- _ => apply IH in L; [|exact A];
      destruct L as (A' & B' & C' & D') end.
    split; [exact A'|]. split; [lia|]. split; [lia|]. eapply paid_trans; eauto.
Qed.

Lemma loop_loops {S R} (step : S -> outcome (S + R)) k s r :
  loop step k s = Ok r -> exists n, loops step n s r.
Proof. intros H. apply loop_sound in H. destruct H as (n & Hl & _). eauto. Qed.

Theorem read_l1_extended_headers_work h st ok h' st' : ready st ->
  read_l1_extended_headers h st = Ok (ok, h', st') ->
  exists n, (* the number of extended headers read and accepted *)
    ready st' /\ requests st' <= requests st + n + 1 /\ avail st' + 3 * n <= avail st /\
    paid h st h' st'.
Proof.
  intros Hr. unfold read_l1_extended_headers. intros H.
  apply loop_loops in H. destruct H as (n & Hl).
  exists (N.of_nat n). exact (l1_loops_work n _ _ _ _ _ Hl Hr).
Qed.

Lemma ext_headers_same_len h off ok h' :
  decode_extended_headers h off = Ok (ok, h') -> nlen (h_raw h') = nlen (h_raw h).
Proof. intros H. apply decode_extended_headers_frame3 in H. destruct H as (_ & L & _). exact L. Qed.

(* what the level decoders cost, as a potential: 3 * requests + bytes left *)
Definition level_post (c : N) (h : header) (st : istream) (r : bool * header * istream) : Prop :=
  let '(_, h', st') := r in
  ready st' /\ paid h st h' st' /\ 3 * requests st' + avail st' <= 3 * requests st + avail st + 3 * c.

Lemma level_post_of_requests c h st ok h' st' :
  ready st' -> paid h st h' st' -> requests st' <= requests st + c -> level_post c h st (ok, h', st').
Proof. unfold level_post, paid. intros A B C. split; [exact A|]. split; [exact B|]. lia. Qed.

Lemma decode_level1_header_work mktime h st r : ready st ->
  decode_level1_header mktime h st = Ok r -> level_post 2 h st r.
Proof.
  intros Hr H. destruct r as [[ok h'] st']. unfold decode_level1_header in H.
  bind_inv H as [[ok1 h1] st1] E0. apply decode_level0_header_work in E0; [|exact Hr].
  destruct E0 as (R1 & Q1 & P1).
  destruct (negb ok1).
  { inversion H; subst. apply level_post_of_requests; auto. lia. }
  bind_inv H as [[ok2 h2] st2] E1. apply read_l1_extended_headers_work in E1; [|exact R1].
  destruct E1 as (n & R2 & Q2 & A2 & P2).
  assert (P02 : paid h st h2 st2) by (eapply paid_trans; eauto).
  assert (C : 3 * requests st2 + avail st2 <= 3 * requests st + avail st + 3 * 2)
    by (unfold paid in *; lia).
  destruct (negb ok2).
  { inversion H; subst. unfold level_post. auto. }
  bind_inv H as [ok3 h3] E2. apply ext_headers_same_len in E2. inversion H; subst.
  unfold level_post. split; [exact R2|]. split; [eapply paid_same_raw; eauto|exact C].
Qed.

Lemma decode_l23_fields_raw h h' : decode_l23_fields h = Ok h' -> h_raw h' = h_raw h.
Proof. intros H. apply decode_l23_fields_same in H. exact (proj1 H). Qed.

Lemma decode_level2_header_work h st r : ready st ->
  decode_level2_header h st = Ok r -> level_post 2 h st r.
Proof.
  intros Hr H. destruct r as [[ok h'] st']. unfold decode_level2_header in H.
  bind_inv H as hl E0.
  destruct (hl <? hdr_LEVEL_2_HEADER_LEN).
  { inversion H; subst. apply level_post_of_requests; [exact Hr|apply paid_refl|lia]. }
  bind_inv H as [r st1] Ex. apply extend_raw_data_work in Ex; [|exact Hr].
  destruct Ex as (R1 & Q1 & A1 & Ll1 & X).
  destruct r as [h1|].
  2:{ inversion H; subst. apply level_post_of_requests; [exact R1|unfold paid; lia|lia]. }
  destruct X as (bytes & -> & Lb & Av & _ & Ld).
  bind_inv H as h2 E2. apply decode_l23_fields_raw in E2. hs.
  assert (P2 : paid h st h2 st1) by (unfold paid; rewrite E2, nlen_app; lia).
  bind_inv H as [r3 st3] E3.
  assert (X3 : ready st3 /\ requests st3 <= requests st1 + 1 /\ avail st3 <= avail st1 /\
               nlen (is_leadin st3) <= nlen (is_leadin st1) /\
               match r3 with Some h3 => paid h2 st1 h3 st3 | None => True end).
  { destruct (h_os_type h2 =? OS_TYPE_OS9_68K).
    - apply extend_raw_data_work in E3; [|exact R1]. destruct E3 as (R3 & Q3 & A3 & Ll3 & X).
      split; [exact R3|]. split; [exact Q3|]. split; [exact A3|]. split; [exact Ll3|].
      destruct r3 as [h3|]; [|exact I]. destruct X as (b3 & -> & Lb3 & Av3 & _ & Ld3).
      unfold paid; hs. rewrite nlen_app. lia.
    - inversion E3; subst. split; [exact R1|]. split; [lia|]. split; [lia|]. split; [lia|apply paid_refl]. }
  destruct X3 as (R3 & Q3 & A3 & Ll3 & P3).
  destruct r3 as [h3|].
  2:{ inversion H; subst. apply level_post_of_requests; [exact R3|unfold paid in *; lia|lia]. }
  bind_inv H as [ok4 h4] E4. apply ext_headers_same_len in E4. inversion H; subst.
  apply level_post_of_requests; [exact R3| |lia].
  eapply paid_same_raw; [exact E4|]. eapply paid_trans; eauto.
Qed.

Lemma decode_level3_header_work h st r : ready st ->
  decode_level3_header h st = Ok r -> level_post 2 h st r.
Proof.
  intros Hr H. destruct r as [[ok h'] st']. unfold decode_level3_header in H.
  bind_inv H as ws E0.
  destruct (negb (ws =? 4)).
  { inversion H; subst. apply level_post_of_requests; [exact Hr|apply paid_refl|lia]. }
  bind_inv H as [r st1] Ex. apply extend_raw_data_work in Ex; [|exact Hr].
  destruct Ex as (R1 & Q1 & A1 & Ll1 & X).
  destruct r as [h1|].
  2:{ inversion H; subst. apply level_post_of_requests; [exact R1|unfold paid; lia|lia]. }
  destruct X as (bytes & -> & Lb & Av & _ & Ld). hs.
  assert (P1 : paid h st (set_raw h (h_raw h ++ bytes)) st1) by (unfold paid; hs; rewrite nlen_app; lia).
  bind_inv H as hlen E1.
  match type of H with (if ?c then _ else _) = _ => destruct c end.
  { inversion H; subst. apply level_post_of_requests; [exact R1|exact P1|lia]. }
  bind_inv H as [r2 st2] Ex2. apply extend_raw_data_work in Ex2; [|exact R1].
  destruct Ex2 as (R2 & Q2 & A2 & Ll2 & X).
  destruct r2 as [h2|].
  2:{ inversion H; subst. apply level_post_of_requests; [exact R2|unfold paid in *; lia|lia]. }
  destruct X as (bytes2 & -> & Lb2 & Av2 & _ & Ld2). hs.
  bind_inv H as h3 E3. apply decode_l23_fields_raw in E3. hs.
  bind_inv H as [ok4 h4] E4. apply ext_headers_same_len in E4. inversion H; subst.
  apply level_post_of_requests; [exact R2| |lia].
  unfold paid in *. hs. rewrite E4, E3, !nlen_app in *. lia.
Qed.

(* lha_file_header_read = read 22 bytes; dispatch on the level; pure fix-ups *)
Definition level_dispatch (mktime : N -> N -> N -> N -> Z -> N -> N) (raw : list N) (lvl : N)
  (st1 : istream) : outcome (bool * header * istream) :=
  let h := set_level (header0 raw) lvl in
  if lvl =? 0 then decode_level0_header mktime h st1
  else if lvl =? 1 then decode_level1_header mktime h st1
  else if lvl =? 2 then decode_level2_header h st1
  else if lvl =? 3 then decode_level3_header h st1
  else Ok (false, h, st1).

Definition post_process (h1 : header) : option header :=
  let h2 := if (h_os_type h1 =? OS_TYPE_AMIGA) && method_is h1 [45; 108; 104; 48; 45]
               && (h_length h1 =? 0) && (match h_filename h1 with None => true | _ => false end)
            then set_method h1 COMPRESS_TYPE_DIR else h1 in
  let is_dir := method_is h2 COMPRESS_TYPE_DIR in
  let r3 :=
    if negb is_dir then
      match h_filename h2 with None => None | Some _ => Some h2 end
    else if have_extra h2 FILE_UNIX_PERMS
            && (match h_path h2, h_filename h2 with None, None => false | _, _ => true end)
            && (N.land (h_unix_perms h2) 61440 =? 40960) then parse_symlink h2
    else match h_path h2 with None => None | Some _ => Some h2 end in
  match r3 with
  | None => None
  | Some h3 =>
    let os := h_os_type h3 in
    let h4 := if (os =? OS_TYPE_UNKNOWN) || (os =? OS_TYPE_MSDOS) || (os =? OS_TYPE_ATARI)
                 || (os =? OS_TYPE_LHARK) || (os =? OS_TYPE_OS2) then fix_msdos_allcaps h3 else h3 in
    let h5 := set_path h4 (option_map collapse_path (h_path h4)) in
    let h6 := if (h_os_type h5 =? OS_TYPE_OS9_68K) && have_extra h5 FILE_UNIX_PERMS
              then add_flag (set_os9_perms h5 (h_unix_perms h5)) FILE_OS9_PERMS else h5 in
    let h7 := if have_extra h6 FILE_OS9_PERMS then os9_to_unix_permissions h6 else h6 in
    if have_extra h7 FILE_COMMON_CRC && negb (lha_crc16_buf 0 (h_raw h7) =? h_common_crc h7) then None else
    let h8 := if (h_level h7 =? 1) && (h_os_type h7 =? OS_TYPE_LHARK)
                 && bytes_eqb (firstn 5 (cstr (h_method h7))) [45; 108; 104; 55; 45]
              then set_method h7 (list_set (h_method h7) 2 107) else h7 in
    Some h8
  end.

Lemma lha_file_header_read_unfold mktime st :
  lha_file_header_read mktime st =
  ('(r, st1) <- lha_input_stream_read st hdr_COMMON_HEADER_LEN ;;
   match r with
   | None => Ok (None, st1)
   | Some raw =>
     lvl <- raw_at 1260 raw 20 ;;
     '(ok, h1, st2) <- level_dispatch mktime raw lvl st1 ;;
     if negb ok then Ok (None, st2) else Ok (post_process h1, st2)
   end).
Proof.
  unfold lha_file_header_read, level_dispatch.
  destruct (lha_input_stream_read st hdr_COMMON_HEADER_LEN) as [[r st1]| |]; cbn [bind]; try reflexivity.
  destruct r as [raw|]; [|reflexivity].
  destruct (raw_at 1260 raw 20) as [lvl| |]; cbn [bind]; try reflexivity.
  match goal with |- bind ?m _ = bind ?m' _ => change m' with m; destruct m as [[[ok h1] st2]| |] end;
    cbn [bind]; try reflexivity.
  destruct (negb ok); [reflexivity|].
  unfold post_process. cbv zeta.
  match goal with |- match ?r3 with Some _ => _ | None => _ end = _ => destruct r3 as [h3|] end;
    [|reflexivity].
  match goal with |- (if ?c then _ else _) = _ => destruct c end; reflexivity.
Qed.

(* the fix-ups keep the raw data *)
Lemma post_process_raw h1 h : post_process h1 = Some h -> h_raw h = h_raw h1.
Proof.
  cbv delta [post_process]. cbv beta. intros H.
  name_let H h2 Eh2. name_let H isd Eisd. name_let H r3 Er3.
  destruct r3 as [h3|]; [|discriminate].
  name_let H os Eos. name_let H h4 Eh4. name_let H h5 Eh5. name_let H h6 Eh6. name_let H h7 Eh7.
  match type of H with (if ?c then _ else _) = _ => destruct c end; [discriminate|].
  name_let H h8 Eh8. inversion H; subst h. clear H.
  assert (K12 : h_raw h2 = h_raw h1).
  { rewrite Eh2. match goal with |- context [if ?c then _ else _] => destruct c end; reflexivity. }
  assert (K23 : h_raw h3 = h_raw h2).
  { symmetry in Er3. destruct (negb isd).
    - destruct (h_filename h2); [|discriminate]. inversion Er3; reflexivity.
    - match type of Er3 with (if ?c then _ else _) = _ => destruct c end.
      + apply parse_symlink_frame in Er3. exact (proj1 Er3).
      + destruct (h_path h2); [|discriminate]. inversion Er3; reflexivity. }
  assert (K34 : h_raw h4 = h_raw h3).
  { rewrite Eh4. match goal with |- context [if ?c then _ else _] => destruct c end;
      [exact (proj1 (fix_msdos_allcaps_keep h3))|reflexivity]. }
  assert (K45 : h_raw h5 = h_raw h4) by (rewrite Eh5; reflexivity).
  assert (K56 : h_raw h6 = h_raw h5).
  { rewrite Eh6. match goal with |- context [if ?c then _ else _] => destruct c end; reflexivity. }
  assert (K67 : h_raw h7 = h_raw h6).
  { rewrite Eh7. match goal with |- context [if ?c then _ else _] => destruct c end; reflexivity. }
  assert (K78 : h_raw h8 = h_raw h7).
  { rewrite Eh8. match goal with |- context [if ?c then _ else _] => destruct c end; reflexivity. }
  congruence.
Qed.

Lemma level_dispatch_work mktime raw lvl st1 r : ready st1 ->
  level_dispatch mktime raw lvl st1 = Ok r -> level_post 2 (set_level (header0 raw) lvl) st1 r.
Proof.
  intros Hr. unfold level_dispatch. cbv zeta. set (h := set_level (header0 raw) lvl).
  destruct (lvl =? 0).
  { intros H. destruct r as [[ok h'] st']. apply decode_level0_header_work in H; [|exact Hr].
    destruct H as (A & B & C). apply level_post_of_requests; auto. lia. }
  destruct (lvl =? 1); [apply decode_level1_header_work; exact Hr|].
  destruct (lvl =? 2); [apply decode_level2_header_work; exact Hr|].
  destruct (lvl =? 3); [apply decode_level3_header_work; exact Hr|].
  intros H. inversion H; subst. apply level_post_of_requests; [exact Hr|apply paid_refl|lia].
Qed.

(* The header reader, in potential form: 3 * requests + (bytes left) grows by
   at most 9 per header once the scan is done, by at most 15 in any state.
   In particular: requests made <= 3 + (bytes consumed)/3, resp. 5 + ... *)
Definition hdr_read_post (c : N) (st : istream) (r : option header) (st' : istream) : Prop :=
  ready st' /\ avail st' <= avail st /\
  3 * requests st' + avail st' <= 3 * requests st + avail st + c /\
  match r with Some h => nlen (h_raw h) + avail st' <= avail st | None => True end.

Lemma header_read_tail mktime c st r1 st1 r st' :
  read_post 22 st r1 st1 ->
  3 * requests st1 + avail st1 <= 3 * requests st + avail st + c ->
  match r1 with
  | None => Ok (None, st1)
  | Some raw =>
    lvl <- raw_at 1260 raw 20 ;;
    '(ok, h1, st2) <- level_dispatch mktime raw lvl st1 ;;
    if negb ok then Ok (None, st2) else Ok (post_process h1, st2)
  end = Ok (r, st') ->
  hdr_read_post (c + 6) st r st' /\
  match r with
  | Some h => nlen (is_leadin st') <= nlen (is_leadin st1) - (nlen (h_raw h) - 22)
  | None => True
  end.
Proof.
  intros (R1 & A1 & D1) C1 H. unfold hdr_read_post.
  destruct r1 as [raw|].
  2:{ inversion H; subst. repeat split; try lia; auto. }
  destruct D1 as [L22 Av1].
  bind_inv H as lvl El. bind_inv H as [[ok h1] st2] Ed.
  apply level_dispatch_work in Ed; [|exact R1]. destruct Ed as (R2 & (P2 & M2 & L2) & C2).
  change (nlen (h_raw (set_level (header0 raw) lvl))) with (nlen raw) in *.
  destruct (negb ok); inversion H; subst; clear H.
  - repeat split; try lia; auto.
  - split.
    + split; [exact R2|]. split; [lia|]. split; [lia|].
      destruct (post_process h1) as [h|] eqn:Ep; [|exact I].
      apply post_process_raw in Ep. rewrite Ep. lia.
    + destruct (post_process h1) as [h|] eqn:Ep; [|exact I].
      apply post_process_raw in Ep. rewrite Ep. lia.
Qed.

Theorem lha_file_header_read_work_ready mktime st r st' : ready st ->
  lha_file_header_read mktime st = Ok (r, st') -> hdr_read_post 9 st r st'.
Proof.
  intros Hr. rewrite lha_file_header_read_unfold. change hdr_COMMON_HEADER_LEN with 22. intros H.
  bind_inv H as [r1 st1] E1. apply lha_input_stream_read_work_ready in E1; [|exact Hr].
  destruct E1 as (Q1 & P1 & _).
  apply (header_read_tail mktime 3 st r1 st1 r st' P1); [|exact H].
  destruct P1 as (_ & A1 & _). lia.
Qed.

Theorem lha_file_header_read_work mktime st r st' :
  lha_file_header_read mktime st = Ok (r, st') -> hdr_read_post 15 st r st'.
Proof.
  rewrite lha_file_header_read_unfold. change hdr_COMMON_HEADER_LEN with 22. intros H.
  bind_inv H as [r1 st1] E1. apply lha_input_stream_read_work in E1.
  destruct E1 as [Q1 P1].
  apply (header_read_tail mktime 9 st r1 st1 r st' P1); [|exact H].
  destruct P1 as (_ & A1 & _). lia.
Qed.

(* after a header has been returned the lead-in buffer is empty: every header is
   at least 24 bytes long and the buffer holds at most 24 *)
Lemma stream_read_leadin st n r st' : wf st ->
  lha_input_stream_read st n = Ok (r, st') ->
  match r with Some _ => nlen (is_leadin st') <= 24 - n | None => True end.
Proof.
  intros Hwf. unfold lha_input_stream_read. intros H.
  bind_inv H as st1 E1. inversion H as [E']; clear H.
  apply read_ready_work in E'. destruct E' as (_ & _ & _ & _ & D).
  assert (W1 : wf st1).
  { destruct (is_state st).
    - destruct (skip_sfx_total st Hwf) as (ok & st0 & E0 & W0 & _). rewrite E0 in E1. cbn [bind] in E1.
      cbv beta iota in E1. inversion E1; subst. exact W0.
    - inversion E1; subst. exact Hwf.
    - inversion E1; subst. exact Hwf. }
  destruct r; [|exact I]. destruct D as (_ & _ & D). unfold wf in W1. lia.
Qed.

Theorem leadin_drained mktime st h st' : wf st ->
  lha_file_header_read mktime st = Ok (Some h, st') -> is_leadin st' = [].
Proof.
  intros Hwf H0. pose proof H0 as H.
  rewrite lha_file_header_read_unfold in H. change hdr_COMMON_HEADER_LEN with 22 in H.
  bind_inv H as [r1 st1] E1. pose proof (stream_read_leadin _ _ _ _ Hwf E1) as L1.
  apply lha_input_stream_read_work in E1. destruct E1 as [Q1 P1].
  assert (C : 3 * requests st1 + avail st1 <= 3 * requests st + avail st + 9)
    by (destruct P1 as (_ & A1 & _); lia).
  destruct (header_read_tail mktime 9 st r1 st1 (Some h) st' P1 C H) as [_ L2].
  destruct r1 as [raw|]; [|discriminate].
  assert (R24 : 24 <= nlen (h_raw h)).
  { apply returned_header_is_intact in H0. destruct H0 as (I1 & I2 & I3 & I4 & _).
    destruct (N.le_gt_cases (h_level h) 1) as [L01|L23].
    - destruct (I2 L01) as (hl & csum & _ & _ & B1 & B2 & B3).
      destruct (N.eq_dec (h_level h) 0) as [Z|NZ].
      + destruct B3 as (nl & _ & B4 & _); [intros; lia|]. rewrite Z in B4. change (0 =? 0) with true in B4. cbv iota in B4. lia.
      + assert (h_level h = 1) by lia.
        destruct (N.le_gt_cases (nlen (h_raw h)) 4294967295) as [Sm|Bg]; [|lia].
        destruct B3 as (nl & _ & B4 & _); [intros; exact Sm|].
        destruct (h_level h =? 0); lia.
    - destruct (N.eq_dec (h_level h) 2) as [Z|NZ]; [specialize (I3 Z); lia|].
      assert (Z3 : h_level h = 3) by lia. destruct (I4 Z3) as (B & _). lia. }
  apply nlen_zero_nil. lia.
Qed.

Corollary lha_file_header_read_requests_div mktime st r st' :
  lha_file_header_read mktime st = Ok (r, st') ->
  requests st' <= requests st + (avail st - avail st') / 3 + 5 /\
  (ready st -> requests st' <= requests st + (avail st - avail st') / 3 + 3).
Proof.
  intros H. split.
  - apply lha_file_header_read_work in H. destruct H as (_ & A & C & _).
    assert (D : requests st' - requests st - 5 <= (avail st - avail st') / 3)
      by (apply N.div_le_lower_bound; lia).
    lia.
  - intros Hr. apply lha_file_header_read_work_ready in H; [|exact Hr]. destruct H as (_ & A & C & _).
    assert (D : requests st' - requests st - 3 <= (avail st - avail st') / 3)
      by (apply N.div_le_lower_bound; lia).
    lia.
Qed.

(* every raw byte of a returned header was read from the stream *)
Theorem raw_paid_by_input mktime st h st' :
  lha_file_header_read mktime st = Ok (Some h, st') ->
  nlen (h_raw h) <= avail st - avail st' /\ avail st' <= avail st /\
  (h_level h = 3 -> nlen (h_raw h) <= MiB).
Proof.
  intros H. pose proof (lha_file_header_read_work _ _ _ _ H) as (_ & A & _ & P).
  split; [lia|]. split; [exact A|].
  apply returned_header_is_intact in H. destruct H as (_ & _ & _ & H3 & _).
  intros L3. destruct (H3 L3) as (_ & B & _). exact B.
Qed.

(* ---- 1e. lha_basic_reader_next_file and listing ---- *)

(* the reader either has no current member or its stream has done the scan *)
Definition reader_inv (r : breader) : Prop := br_curr r = None \/ ready (br_stream r).

Theorem next_file_work mktime r h r' : reader_inv r ->
  lha_basic_reader_next_file mktime r = Ok (h, r') ->
  reader_inv r' /\ ravail r' <= ravail r /\
  3 * rrequests r' + ravail r' <= 3 * rrequests r + ravail r + 15.
Proof.
  intros Hi. unfold reader_inv in Hi. unfold lha_basic_reader_next_file. intros H.
  bind_inv H as r1 E1.
  assert (S1 : ravail r1 <= ravail r /\
               ((br_curr r = None /\ r1 = r) \/
                (ready (br_stream r1) /\ br_curr r1 = None /\
                 3 * rrequests r1 + ravail r1 <= 3 * rrequests r + ravail r + 6))).
  { destruct (br_curr r) as [hd|] eqn:Ec.
    - destruct Hi as [Hi|Hi]; [discriminate|].
      bind_inv E1 as [ok st1] Es. apply lha_input_stream_skip_work in Es.
      destruct Es as (_ & S2 & _ & S4 & _ & _ & S7).
      inversion E1; subst; clear E1. unfold ravail, rrequests, ready in *. cbn [br_stream br_curr].
      split; [exact S4|]. right. split; [congruence|]. split; [reflexivity|]. lia.
    - inversion E1; subst. split; [lia|]. left. auto. }
  destruct S1 as [A1 S1].
  destruct (br_eof r1) eqn:Eeof.
  { inversion H; subst; clear H. destruct S1 as [[C ->]|(R1 & C1 & P1)].
    - split; [left; exact C|]. split; lia.
    - split; [left; exact C1|]. split; lia. }
  bind_inv H as [hh st2] Eh.
  assert (F : ready st2 /\ avail st2 <= ravail r /\
              3 * requests st2 + avail st2 <= 3 * rrequests r + ravail r + 15).
  { destruct S1 as [[C ->]|(R1 & C1 & P1)].
    - apply lha_file_header_read_work in Eh. destruct Eh as (B1 & B2 & B3 & _).
      unfold ravail, rrequests. auto.
    - apply lha_file_header_read_work_ready in Eh; [|exact R1]. destruct Eh as (B1 & B2 & B3 & _).
      unfold ravail, rrequests in *. split; [exact B1|]. split; lia. }
  destruct F as (F1 & F2 & F3).
  destruct hh as [hd|]; inversion H; subst; clear H; unfold reader_inv, ravail, rrequests; cbn [br_stream br_curr].
  - split; [right; exact F1|]. split; assumption.
  - split; [left; reflexivity|]. split; assumption.
Qed.

Lemma iterate_next_file_work mktime n : forall r r', reader_inv r ->
  iterate_next_file mktime n r = Ok r' ->
  reader_inv r' /\ ravail r' <= ravail r /\
  3 * rrequests r' + ravail r' <= 3 * rrequests r + ravail r + 15 * N.of_nat n.
Proof.
  induction n as [|n IH]; intros r r' Hi H; cbn [iterate_next_file] in H.
  - inversion H; subst. split; [exact Hi|]. split; lia.
  - bind_inv H as [hh r1] E1. apply next_file_work in E1; [|exact Hi]. destruct E1 as (I1 & A1 & C1).
    apply IH in H; [|exact I1]. destruct H as (I2 & A2 & C2).
    split; [exact I2|]. split; lia.
Qed.

(* Listing: n calls of lha_basic_reader_next_file on an archive of any content, from
   any kind of source, make at most  len(data)/3 + 5 * n  requests to the source
   (a = 1/3, b = 5, c = 0). *)
Theorem listing_work_linear mktime k data n r' :
  iterate_next_file mktime n (lha_basic_reader_new (lha_input_stream_new (mk_source k data))) = Ok r' ->
  3 * rrequests r' + ravail r' <= nlen data + 15 * N.of_nat n /\
  rrequests r' <= nlen data / 3 + 5 * N.of_nat n.
Proof.
  intros H. apply iterate_next_file_work in H; [|left; reflexivity].
  destruct H as (_ & _ & C).
  destruct (new_reader_wf k data) as [_ Ea]. rewrite Ea in C.
  change (rrequests (lha_basic_reader_new (lha_input_stream_new (mk_source k data)))) with 0 in C.
  split; [lia|].
  assert (D : rrequests r' - 5 * N.of_nat n <= nlen data / 3) by (apply N.div_le_lower_bound; lia).
  lia.
Qed.

(* ... and for archives below the model's fuel limit (12 MiB) the calls do return *)
Corollary listing_returns_within_budget mktime k data n : nlen data < EXT_LIMIT ->
  exists r', iterate_next_file mktime n (lha_basic_reader_new (lha_input_stream_new (mk_source k data))) = Ok r'
             /\ rrequests r' <= nlen data / 3 + 5 * N.of_nat n.
Proof.
  intros Hs. destruct (archive_iteration_never_faults mktime k data n Hs) as (r' & E & _).
  exists r'. split; [exact E|]. exact (proj2 (listing_work_linear _ _ _ _ _ E)).
Qed.

(* ================================================================== *)
(* 2. Skipping a member whose data is truncated ends the archive        *)

Lemma fallback_beyond_end x y : nlen (so_data (fst x)) < snd x -> fallback_step x = Ok y ->
  match y with inl x' => nlen (so_data (fst x')) < snd x' | inr (ok, _) => ok = false end.
Proof.
  destruct x as [s b]. cbn [fst snd]. intros Hb. unfold fallback_step.
  destruct (N.ltb_spec 0 b) as [Hpos|Hz]; [|lia].
  unfold raw_read. cbv beta iota.
  set (len := if 32 <? b then 32 else b).
  assert (Hlen : 1 <= len /\ len <= b) by (unfold len; destruct (N.ltb_spec 32 b); lia).
  pose proof (nlen_firstn_N len (so_data s)) as G1.
  pose proof (nlen_skipn_N len (so_data s)) as G2.
  destruct (N.eqb_spec (nlen (firstn_N len (so_data s))) len) as [He|Hne];
    intros E; inversion E; subst; clear E; [|reflexivity].
  cbn [fst snd so_data]. lia.
Qed.

Lemma noskip_beyond_end x y : nlen (so_data (fst x)) < snd x -> noskip_step x = Ok y ->
  match y with inl x' => nlen (so_data (fst x')) < snd x' | inr (ok, _) => ok = false end.
Proof.
  destruct x as [s b]. cbn [fst snd]. intros Hb. unfold noskip_step.
  destruct (N.ltb_spec 0 b) as [Hpos|Hz]; [|lia].
  unfold raw_read. cbv beta iota.
  set (len := if 32 <? b then 32 else b).
  assert (Hlen : 1 <= len /\ len <= b) by (unfold len; destruct (N.ltb_spec 32 b); lia).
  pose proof (nlen_firstn_N len (so_data s)) as G1.
  pose proof (nlen_skipn_N len (so_data s)) as G2.
  destruct (firstn_N len (so_data s)) as [|g gs] eqn:Eg; intros E; inversion E; subst; clear E; [reflexivity|].
  cbn [fst snd so_data]. lia.
Qed.

(* skipping more than the source holds: a seekable file "succeeds" and is then at
   its end; every other kind reports failure *)
Lemma skip_beyond_end st bytes ok st' :
  lha_input_stream_skip st bytes = Ok (ok, st') -> data_left st < bytes ->
  is_state st' = is_state st /\ is_leadin st' = is_leadin st /\
  (if ok then so_data (is_src st') = [] else True) /\
  (so_kind (is_src st) <> KFile -> ok = false).
Proof.
  unfold lha_input_stream_skip, data_left. intros H Hb.
  apply bind_ok in H. destruct H as [[ok1 src'] [E H]]. cbv beta iota in H.
  inversion H; subst; clear H. cbn [is_src is_state is_leadin].
  split; [reflexivity|]. split; [reflexivity|].
  set (s := is_src st) in *.
  destruct (so_kind s) eqn:Ek.
  - unfold raw_skip in E. rewrite Ek in E. inversion E; subst; clear E. cbn [so_data].
    split; [apply skipn_N_nil_iff; lia|congruence].
  - unfold raw_skip in E. rewrite Ek in E.
    apply (P_Intact.loop_inv fallback_step (fun x => nlen (so_data (fst x)) < snd x)
             (fun r => fst r = false)) in E.
    + cbn [fst] in E. subst ok. split; [exact I|reflexivity].
    + intros x x' Hi Ex. exact (fallback_beyond_end x (inl x') Hi Ex).
    + intros x [o sr] Hi Ex. exact (fallback_beyond_end x (inr (o, sr)) Hi Ex).
    + cbn [fst snd so_data]. exact Hb.
  - unfold raw_skip in E. rewrite Ek in E. cbn [so_data so_kind so_reads so_skips] in E.
    destruct (N.leb_spec bytes (nlen (so_data s))); [lia|]. inversion E; subst.
    split; [exact I|reflexivity].
  - apply (P_Intact.loop_inv noskip_step (fun x => nlen (so_data (fst x)) < snd x)
             (fun r => fst r = false)) in E.
    + cbn [fst] in E. subst ok. split; [exact I|reflexivity].
    + intros x x' Hi Ex. exact (noskip_beyond_end x (inl x') Hi Ex).
    + intros x [o sr] Hi Ex. exact (noskip_beyond_end x (inr (o, sr)) Hi Ex).
    + cbn [fst snd]. exact Hb.
Qed.

(* at the end of the source, with fewer than 22 bytes buffered, no header is read *)
Lemma header_read_at_end mktime st r st' : ready st ->
  so_data (is_src st) = [] -> nlen (is_leadin st) < 22 ->
  lha_file_header_read mktime st = Ok (r, st') -> r = None.
Proof.
  intros Hr Hd Hl. rewrite lha_file_header_read_unfold. change hdr_COMMON_HEADER_LEN with 22.
  intros H. bind_inv H as [r1 st1] E1.
  assert (N1 : r1 = None).
  { unfold lha_input_stream_read, ready in *.
    destruct (is_state st) eqn:Es; [congruence| |]; cbn [bind] in E1; inversion E1 as [E']; clear E1;
      unfold read_ready in E'; rewrite Es in E'; [|inversion E'; reflexivity].
    pose proof (nlen_firstn_N 22 (is_leadin st)) as G.
    destruct (N.ltb_spec (nlen (firstn_N 22 (is_leadin st))) 22) as [Lt|Ge]; [|lia].
    unfold raw_read in E'. rewrite Hd in E'. cbv beta iota in E'.
    rewrite firstn_N_nil, nlen_nil in E'.
    destruct (N.eqb_spec (nlen (firstn_N 22 (is_leadin st)) + 0) 22); [lia|].
    inversion E'; reflexivity. }
  subst r1. inversion H; reflexivity.
Qed.

(* If the current member's remaining compressed length exceeds what the source
   still holds, the next call of lha_basic_reader_next_file reports the end of the
   archive, for every kind of source, and every later call does too.
   [reader_inv] and an empty lead-in buffer hold whenever a member is current
   (next_file_work, leadin_drained). *)
Theorem skip_truncated_ends_archive mktime r x r' :
  reader_inv r -> br_curr r <> None -> nlen (is_leadin (br_stream r)) < 22 ->
  data_left (br_stream r) < br_remaining r ->
  lha_basic_reader_next_file mktime r = Ok (x, r') ->
  x = None /\ forall n, next_file_n mktime n r' = Ok (None, r').
Proof.
  intros Hi Hc Hl Hb H.
  assert (X : x = None).
  { revert H. unfold lha_basic_reader_next_file. intros H.
    destruct Hi as [Hi|Hi]; [congruence|].
    destruct (br_curr r) as [hd|]; [|congruence].
    bind_inv H as r1 E1. bind_inv E1 as [ok st1] Es.
    pose proof (skip_beyond_end _ _ _ _ Es Hb) as (S1 & S2 & S3 & S4).
    inversion E1; subst r1; clear E1. cbn [br_eof br_stream br_remaining] in H.
    destruct ok.
    - destruct (br_eof r); [inversion H; reflexivity|].
      bind_inv H as [hh st2] Eh.
      apply header_read_at_end in Eh; [|unfold ready in *; congruence|exact S3|congruence].
      subst hh. inversion H; reflexivity.
    - inversion H; reflexivity. }
  split; [exact X|]. subst x. eapply iteration_stops; exact H.
Qed.

(* the same for a reader that has just returned a member: no side conditions *)
Corollary skip_truncated_after_header mktime r0 hd r x r' :
  wf_reader r0 -> reader_inv r0 ->
  lha_basic_reader_next_file mktime r0 = Ok (Some hd, r) ->
  data_left (br_stream r) < h_compressed_length hd ->
  lha_basic_reader_next_file mktime r = Ok (x, r') ->
  x = None /\ forall n, next_file_n mktime n r' = Ok (None, r').
Proof.
  intros Hwf Hi H0 Hb H.
  pose proof (next_file_work _ _ _ _ Hi H0) as (Hi' & _).
  assert (F : br_curr r = Some hd /\ br_remaining r = h_compressed_length hd /\ is_leadin (br_stream r) = []).
  { revert H0. unfold lha_basic_reader_next_file. intros H0.
    bind_inv H0 as r1 E1.
    assert (W1 : wf (br_stream r1)).
    { destruct (br_curr r0).
      - bind_inv E1 as [ok st1] Es.
        pose proof (lha_input_stream_skip_okp (br_stream r0) (br_remaining r0) Hwf) as K.
        rewrite Es in K. cbn [okp] in K. inversion E1; subst. exact (proj1 K).
      - inversion E1; subst. exact Hwf. }
    destruct (br_eof r1); [discriminate|].
    bind_inv H0 as [hh st2] Eh. destruct hh as [hd'|]; [|discriminate].
    inversion H0; subst. cbn [br_curr br_remaining br_stream].
    split; [reflexivity|]. split; [reflexivity|]. eapply leadin_drained; eauto. }
  destruct F as (F1 & F2 & F3).
  eapply skip_truncated_ends_archive; eauto.
  - congruence.
  - rewrite F3, nlen_nil. lia.
  - rewrite F2. exact Hb.
Qed.

(* ... also when part of the member's data has been read in between (extraction):
   reads keep the situation, or set the end-of-file flag, which ends the archive too *)
Definition truncated_member (r : breader) : Prop :=
  reader_inv r /\ br_curr r <> None /\ is_leadin (br_stream r) = [] /\
  (data_left (br_stream r) < br_remaining r \/ br_eof r = true).

Lemma next_file_with_eof_flag mktime r x r' : br_curr r <> None -> br_eof r = true ->
  lha_basic_reader_next_file mktime r = Ok (x, r') -> x = None.
Proof.
  intros Hc He. unfold lha_basic_reader_next_file. intros H.
  destruct (br_curr r) as [hd|]; [|congruence].
  bind_inv H as r1 E1. bind_inv E1 as [ok st1] Es. inversion E1; subst r1; clear E1.
  cbn [br_eof] in H. rewrite He in H. destruct ok; inversion H; reflexivity.
Qed.

Lemma read_compressed_keeps_truncated r n :
  truncated_member r -> truncated_member (snd (lha_basic_reader_read_compressed r n)).
Proof.
  intros (Hi & Hc & Hl & Hb). unfold lha_basic_reader_read_compressed.
  assert (Same : truncated_member r) by (unfold truncated_member; auto).
  destruct (br_eof r || (br_remaining r =? 0)) eqn:E0; [exact Same|].
  apply orb_false_iff in E0. destruct E0 as [Ee Ez]. apply N.eqb_neq in Ez.
  destruct Hb as [Hb|Hb]; [|congruence].
  set (bytes := if br_remaining r <? n then br_remaining r else n).
  assert (Lb : bytes <= br_remaining r) by (unfold bytes; destruct (N.ltb_spec (br_remaining r) n); lia).
  destruct (is_state (br_stream r)) eqn:Es; [exact Same| |].
  - unfold read_ready. rewrite Es, Hl. rewrite firstn_N_nil, skipn_N_nil, nlen_nil.
    destruct (N.ltb_spec 0 bytes) as [Lp|Lz].
    + unfold raw_read. cbv beta iota. rewrite N.sub_0_r, N.add_0_l.
      pose proof (nlen_firstn_N bytes (so_data (is_src (br_stream r)))) as G1.
      pose proof (nlen_skipn_N bytes (so_data (is_src (br_stream r)))) as G2.
      destruct (N.eqb_spec (nlen (firstn_N bytes (so_data (is_src (br_stream r))))) bytes) as [Ef|Ef]; cbn [snd].
      * unfold truncated_member, reader_inv, ready, data_left in *. cbn [br_stream br_curr br_remaining br_eof is_state is_leadin is_src so_data].
        split; [right; congruence|]. split; [exact Hc|]. split; [reflexivity|]. left. lia.
      * unfold truncated_member, reader_inv, ready in *. cbn [br_stream br_curr br_remaining br_eof is_state is_leadin].
        split; [right; congruence|]. split; [exact Hc|]. split; [reflexivity|]. right. reflexivity.
    + cbn [snd]. unfold truncated_member, reader_inv, ready, data_left in *. cbn [br_stream br_curr br_remaining br_eof is_state is_leadin is_src].
      split; [right; congruence|]. split; [exact Hc|]. split; [reflexivity|]. left. lia.
  - unfold read_ready. rewrite Es. cbn [snd].
    unfold truncated_member, reader_inv, ready in *. cbn [br_stream br_curr br_remaining br_eof].
    split; [right; congruence|]. split; [exact Hc|]. split; [exact Hl|]. right. reflexivity.
Qed.

Theorem truncated_member_ends_archive mktime r x r' : truncated_member r ->
  lha_basic_reader_next_file mktime r = Ok (x, r') ->
  x = None /\ forall n, next_file_n mktime n r' = Ok (None, r').
Proof.
  intros (Hi & Hc & Hl & [Hb|He]) H.
  - eapply skip_truncated_ends_archive; eauto. rewrite Hl, nlen_nil. lia.
  - assert (x = None) by (eapply next_file_with_eof_flag; eauto). subst x.
    split; [reflexivity|]. eapply iteration_stops; exact H.
Qed.

(* the situation arises whenever a returned header declares more data than is left *)
Lemma after_header_truncated_member mktime r0 hd r :
  wf_reader r0 -> reader_inv r0 ->
  lha_basic_reader_next_file mktime r0 = Ok (Some hd, r) ->
  data_left (br_stream r) < h_compressed_length hd -> truncated_member r.
Proof.
  intros Hwf Hi H0 Hb.
  pose proof (next_file_work _ _ _ _ Hi H0) as (Hi' & _).
  revert H0. unfold lha_basic_reader_next_file. intros H0.
  bind_inv H0 as r1 E1.
  assert (W1 : wf (br_stream r1)).
  { destruct (br_curr r0).
    - bind_inv E1 as [ok st1] Es.
      pose proof (lha_input_stream_skip_okp (br_stream r0) (br_remaining r0) Hwf) as K.
      rewrite Es in K. cbn [okp] in K. inversion E1; subst. exact (proj1 K).
    - inversion E1; subst. exact Hwf. }
  destruct (br_eof r1); [discriminate|].
  bind_inv H0 as [hh st2] Eh. destruct hh as [hd'|]; [|discriminate].
  inversion H0; subst. unfold truncated_member. cbn [br_curr br_remaining br_stream br_eof] in *.
  split; [exact Hi'|]. split; [discriminate|]. split; [eapply leadin_drained; eauto|]. left. exact Hb.
Qed.

(* ================================================================== *)
(* 3. Decoding stops                                                    *)

Section DecodeStops.
  Context {cbs st : Type}.
  Variable dread : st -> cbs -> outcome (list N * st * cbs).
  Variable max_read block_size : N.

  Notation dec := (@decoder cbs st).
  Notation dec_read := (lha_decoder_read dread max_read block_size).

  (* [pull] with a count of the invocations of the inner decoder's read function *)
  Fixpoint pull_n (k : nat) (w : N) (d : dec) : option (list N * dec * N) :=
    if w =? 0 then Some ([], d, 0) else
    match k with
    | O => None
    | S k' =>
      let take := firstn_N w (d_outbuf d) in
      let rest := skipn_N w (d_outbuf d) in
      if d_failed d then Some (take, set_buf d (d_inner d) (d_cb d) rest true, 0)
      else
        match rest with
        | [] =>
          match dread (d_inner d) (d_cb d) with
          | Ok (chunk, inner', c') =>
            if max_read <? nlen chunk then None else
            match chunk with
            | [] => Some (take, set_buf d inner' c' [] true, 1)
            | _ =>
              match pull_n k' (w - nlen take) (set_buf d inner' c' chunk false) with
              | Some (o, d', c) => Some (take ++ o, d', c + 1)
              | None => None
              end
            end
          | _ => None
          end
        | _ =>
          match pull_n k' (w - nlen take) (set_buf d (d_inner d) (d_cb d) rest false) with
          | Some (o, d', c) => Some (take ++ o, d', c)
          | None => None
          end
        end
    end.

  (* erasing the count gives [pull] *)
  Lemma pull_n_erase k : forall w d,
    pull dread max_read k w d =
    match pull_n k w d with Some (o, d', _) => Some (o, d') | None => None end.
  Proof.
    induction k as [|k IH]; intros w d.
    - simpl. destruct (w =? 0); reflexivity.
    - cbn [pull pull_n]. destruct (w =? 0); [reflexivity|].
      destruct (d_failed d); [reflexivity|].
      destruct (skipn_N w (d_outbuf d)) as [|y ys].
      + destruct (dread (d_inner d) (d_cb d)) as [[[chunk inner'] c']| |]; try reflexivity.
        destruct (max_read <? nlen chunk); [reflexivity|].
        destruct chunk as [|z zs]; [reflexivity|].
        rewrite IH. destruct (pull_n k _ _) as [[[o d'] c]|]; reflexivity.
      + rewrite IH. destruct (pull_n k _ _) as [[[o d'] c]|]; reflexivity.
  Qed.

  (* Every invocation but the first is preceded by the delivery of at least one
     byte: the inner decoder is invoked at most (bytes delivered) + 1 times, and
     at most (bytes delivered) times when the output buffer was not empty. *)
  Lemma pull_n_count k : forall w d o d' c, pull_n k w d = Some (o, d', c) ->
    c <= nlen o + (match d_outbuf d with [] => 1 | _ => 0 end).
  Proof.
    induction k as [|k IH]; intros w d o d' c H.
    - simpl in H. destruct (w =? 0); inversion H; subst. lia.
    - cbn [pull_n] in H. destruct (N.eqb_spec w 0) as [|Hw]; [inversion H; subst; lia|].
      pose proof (nlen_firstn_N w (d_outbuf d)) as Lt.
      pose proof (nlen_skipn_N w (d_outbuf d)) as Ls.
      destruct (d_failed d); [inversion H; subst; lia|].
      destruct (skipn_N w (d_outbuf d)) as [|y ys] eqn:Er.
      + assert (Hfirst : 1 <= nlen (firstn_N w (d_outbuf d)) + (match d_outbuf d with [] => 1 | _ => 0 end)).
        { destruct (d_outbuf d) as [|q qs]; [lia|]. rewrite nlen_cons in Lt. lia. }
        destruct (dread (d_inner d) (d_cb d)) as [[[chunk inner'] c']| |]; try discriminate.
        destruct (max_read <? nlen chunk); [discriminate|].
        destruct chunk as [|z zs]; [inversion H; subst; lia|].
        destruct (pull_n k _ _) as [[[o1 d1] c1]|] eqn:Ep; [|discriminate]. inversion H; subst.
        apply IH in Ep. cbn [set_buf d_outbuf] in Ep. rewrite nlen_app. lia.
      + destruct (pull_n k _ _) as [[[o1 d1] c1]|] eqn:Ep; [|discriminate]. inversion H; subst.
        apply IH in Ep. cbn [set_buf d_outbuf] in Ep. rewrite nlen_app. lia.
  Qed.

  Lemma pull_n_of_pull k w d o d' : pull dread max_read k w d = Some (o, d') ->
    exists c, pull_n k w d = Some (o, d', c) /\ c <= nlen o + 1 /\ nlen o <= w.
  Proof.
    intros H. pose proof (pull_length dread max_read block_size _ _ _ _ _ H) as [Hl _].
    rewrite pull_n_erase in H.
    destruct (pull_n k w d) as [[[o1 d1] c]|] eqn:E; [|discriminate]. inversion H; subst.
    exists c. split; [reflexivity|]. split; [|exact Hl].
    apply pull_n_count in E. destruct (d_outbuf d); lia.
  Qed.

  (* One call of lha_decoder_read (any inner decoder that returns): it returns; the
     bytes delivered are at most min(n, declared length - position); the inner
     decoder is invoked at most (bytes delivered) + 1 times -- also when the
     compressed data is endless (-pm1- reading zeros) or refers to itself. *)
  Theorem decoder_read_invocations_bounded (Hd : dread_total dread max_read) (d : dec) n :
    n < 2 ^ 62 -> d_stream_pos d <= d_stream_length d ->
    exists k o d1 ev d2 c,
      dec_read d n = Ok (o, ev, d2) /\
      pull_n k (clamp d n) d = Some (o, d1, c) /\
      c <= nlen o + 1 /\ nlen o <= n /\ d_stream_pos d + nlen o <= d_stream_length d /\
      c <= d_stream_length d - d_stream_pos d + 1.
  Proof.
    intros Hn Hp.
    destruct (read_spec dread max_read block_size Hd d n Hn) as (k & o & d1 & ev & d2 & P & R & _).
    destruct (pull_n_of_pull _ _ _ _ _ P) as (c & E & C1 & C2).
    destruct (clamp_le d n Hp) as [K1 K2].
    exists k, o, d1, ev, d2, c. repeat split; try assumption; lia.
  Qed.

  (* at the declared length nothing more is decoded: no invocation at all *)
  Theorem decoder_read_at_end_no_invocation (d : dec) n k :
    d_stream_pos d = d_stream_length d -> pull_n k (clamp d n) d = Some ([], d, 0).
  Proof.
    intros He. assert (clamp d n = 0) as ->.
    { unfold clamp. destruct (N.ltb_spec (d_stream_length d) (d_stream_pos d + n)); lia. }
    destruct k; reflexivity.
  Qed.

  (* any sequence of reads returns at most the declared length in total *)
  Theorem reads_bounded_by_declared (Hd : dread_total dread max_read) ks (d : dec) os d' :
    d_stream_pos d <= d_stream_length d -> d_monitor d = false -> sum_N ks < 2 ^ 62 ->
    run_reads dread max_read block_size d ks = Ok (os, d') ->
    nlen (concat os) <= d_stream_length d - d_stream_pos d /\
    d_stream_pos d' = d_stream_pos d + nlen (concat os).
  Proof.
    intros Hp Hm Hs Hr.
    destruct (reads_length_crc_proof dread max_read block_size Hd ks d os d' Hp Hm Hs Hr) as (A & _ & _ & B).
    split; [lia|exact A].
  Qed.
End DecodeStops.

(* The same for the real inner decoders, which return in every state satisfying
   their invariant I (P_Lz5, P_Lzs, ... prove the premise Htot): the call is the
   call over the totalised decoder [dread_tot], which invokes [dread] once per
   invocation. *)
Section DecodeStopsInv.
  Context {cbs st : Type}.
  Variable dread : st -> cbs -> outcome (list N * st * cbs).
  Variable max_read block_size : N.
  Variable I : st -> Prop.
  Hypothesis Htot : forall s c, I s ->
    exists ch s' c', dread s c = Ok (ch, s', c') /\ nlen ch <= max_read /\ I s'.

  Theorem decoder_read_invocations_bounded_inv (d : @decoder cbs st) n :
    I (d_inner d) -> n < 2 ^ 62 -> d_stream_pos d <= d_stream_length d ->
    exists k o d1 ev d2 c,
      lha_decoder_read dread max_read block_size d n = Ok (o, ev, d2) /\ I (d_inner d2) /\
      pull_n (dread_tot dread max_read) max_read k (clamp d n) d = Some (o, d1, c) /\
      c <= nlen o + 1 /\ nlen o <= n /\ d_stream_pos d + nlen o <= d_stream_length d /\
      c <= d_stream_length d - d_stream_pos d + 1.
  Proof.
    intros Hi Hn Hp.
    destruct (read_ext dread max_read block_size I Htot d n Hi) as [E K].
    destruct (decoder_read_invocations_bounded (dread_tot dread max_read) max_read block_size
                (dread_tot_total dread max_read I Htot) d n Hn Hp) as (k & o & d1 & ev & d2 & c & R & P & C).
    rewrite <- E in R.
    exists k, o, d1, ev, d2, c. split; [exact R|]. split; [exact (K _ _ _ R)|]. split; [exact P|exact C].
  Qed.

  Theorem reads_bounded_by_declared_inv ks s c L os d' : I s -> sum_N ks < 2 ^ 62 ->
    run_reads dread max_read block_size (lha_decoder_new s c L) ks = Ok (os, d') ->
    nlen (concat os) <= L.
  Proof.
    intros Hi Hs Hr.
    exact (proj1 (length_and_crc_faithful_inv dread max_read block_size I Htot ks s c L os d' Hi Hs Hr)).
  Qed.
End DecodeStopsInv.

(* ================================================================== *)
(* 4. Heap accounting                                                   *)

(* ---- 4a. the decoders ---- *)

Lemma decoder_table_length : nlen decoder_table = decoders_count.
Proof. reflexivity. Qed.

Lemma max_decoder_bytes_value : max_decoder_bytes = 2099544.
Proof. vm_compute. reflexivity. Qed.

(* the maximum is the entry with the 1 MiB window (index 9, -lhx-), about 2 MiB *)
Lemma max_decoder_is_entry_9 : decoder_bytes 9 = max_decoder_bytes.
Proof. vm_compute. reflexivity. Qed.

Theorem decoder_bytes_bounded i : decoder_bytes i <= max_decoder_bytes /\ max_decoder_bytes < 3 * MiB.
Proof.
  split; [|vm_compute; reflexivity].
  assert (F : Forall (fun e => decoder_bytes_of e <= max_decoder_bytes) decoder_table).
  { unfold decoder_table. repeat constructor; vm_compute; discriminate. }
  unfold decoder_bytes.
  destruct (Nat.lt_ge_cases i (length decoder_table)) as [L|L].
  - rewrite Forall_forall in F. apply F. apply nth_In. exact L.
  - rewrite nth_overflow by exact L. vm_compute. discriminate.
Qed.

Lemma macbinary_bytes_value : macbinary_bytes = 4320.
Proof. reflexivity. Qed.

Lemma fixed_bytes_value : fixed_bytes = 2104016.
Proof. vm_compute. reflexivity. Qed.

(* ---- 4b. the transient peak in extend_raw_data ---- *)

(* a request for more than 1 MiB is refused before anything is allocated or read *)
Lemma extend_raw_data_refuses h st n : MiB < n -> extend_raw_data h st n = Ok (None, st).
Proof.
  intros L. unfold extend_raw_data. change hdr_LEVEL_3_MAX_HEADER_LEN with MiB.
  destruct (N.ltb_spec MiB n); [reflexivity|lia].
Qed.

(* the raw data held when extend_raw_data is called was read from the stream:
   the invariant of the only unbounded loop (level-1 extended headers) *)
Lemma l1_iters_paid n : forall h st h' st', iters l1_step n (h, st) (h', st') -> ready st ->
  ready st' /\ paid h st h' st'.
Proof.
  induction n as [|n IH]; intros h st h' st' Hi Hr; inversion Hi; subst.
  - split; [exact Hr|apply paid_refl].
  - match goal with E : l1_step _ = Ok (inl ?s) |- _ => destruct s as [h1 st1];
      apply l1_step_work in E; [|exact Hr]; destruct E as (A & B & C & D) end.
    match goal with L : iters l1_step n _ _ |- _ => apply IH in L; [|exact A]; destruct L as (A' & D') end.
    split; [exact A'|eapply paid_trans; eauto].
Qed.

(* with [old] bytes of raw data already paid for by [consumed] input bytes *)
Theorem extend_peak_bound old nbytes consumed : old <= consumed -> nbytes <= MiB ->
  extend_peak old nbytes <= 2 * consumed + 2 * MiB + sizeof_LHAFileHeader.
Proof. unfold extend_peak. lia. Qed.

(* ---- 4c. the strings of a header are copies of parts of its raw data ---- *)

Definition slen (o : option (list N)) : N := match o with Some s => nlen s | None => 0 end.

Lemma str_bytes_le o : str_bytes o <= slen o + 2.
Proof. destruct o; cbn; lia. Qed.

(* during the level decoders: no symlink target yet, each string at most X long *)
Definition strs_le (X : N) (h : header) : Prop :=
  slen (h_filename h) <= X /\ slen (h_path h) <= X /\ slen (h_unix_username h) <= X /\
  slen (h_unix_group h) <= X /\ h_symlink_target h = None.

Definition same_strs (h h' : header) : Prop :=
  h_filename h' = h_filename h /\ h_path h' = h_path h /\ h_symlink_target h' = h_symlink_target h /\
  h_unix_username h' = h_unix_username h /\ h_unix_group h' = h_unix_group h.

(* the bound used throughout: min(raw length, 1 MiB) + 1 *)
Definition hX (h : header) : N := N.min (nlen (h_raw h)) MiB + 1.

Lemma strs_le_mono X Y h : X <= Y -> strs_le X h -> strs_le Y h.
Proof. unfold strs_le. intros L (A & B & C & D & E). repeat split; try lia; exact E. Qed.

Lemma strs_le_same X h h' : same_strs h h' -> strs_le X h -> strs_le X h'.
Proof. unfold strs_le, same_strs. intros (A & B & C & D & E). rewrite A, B, C, D, E. auto. Qed.

Lemma same_strs_refl h : same_strs h h.
Proof. unfold same_strs. auto. Qed.

Lemma same_strs_trans a b c : same_strs a b -> same_strs b c -> same_strs a c.
Proof. unfold same_strs. intuition congruence. Qed.

Lemma nlen_map {A B} (f : A -> B) l : nlen (map f l) = nlen l.
Proof. unfold nlen. now rewrite map_length. Qed.

Lemma cstr_len l : nlen (cstr l) <= nlen l.
Proof.
  induction l as [|b r IH]; cbn [cstr]; [lia|].
  destruct (b =? 0); rewrite ?nlen_cons, ?nlen_nil; lia.
Qed.

Lemma raw_slice_inv site raw i len d : raw_slice site raw i len = Ok d ->
  i + len <= nlen raw /\ nlen d = len.
Proof.
  unfold raw_slice. destruct (N.leb_spec (i + len) (nlen raw)) as [L|L]; [|discriminate].
  intros E; inversion E; subst. split; [exact L|]. rewrite nlen_firstn_N, nlen_skipn_N. lia.
Qed.

Lemma split_header_filename_strs X h : strs_le X h -> strs_le X (split_header_filename h).
Proof.
  intros (A & B & C & D & E). unfold split_header_filename.
  destruct (h_filename h) as [f|] eqn:F; [|repeat split; try rewrite F; assumption].
  destruct (last_index f 47 0 None) as [i|]; [|repeat split; try rewrite F; assumption].
  unfold strs_le; hs. cbn [slen] in *.
  pose proof (nlen_firstn_N (i + 1) f). pose proof (nlen_skipn_N (i + 1) f).
  repeat split; try lia; assumption.
Qed.

Lemma process_level0_path_strs X h d : strs_le X h -> nlen d <= X ->
  strs_le X (process_level0_path h d).
Proof.
  intros S L. unfold process_level0_path. destruct d as [|x r]; [exact S|].
  apply split_header_filename_strs. destruct S as (A & B & C & D & E).
  unfold strs_le; hs. cbn [slen].
  pose proof (cstr_len (map (fun b => if b =? 92 then 47 else b) (x :: r))) as Q.
  rewrite nlen_map in Q. repeat split; try lia; assumption.
Qed.

Lemma process_level0_extended_area_strs h s l h' :
  process_level0_extended_area h s l = Ok h' -> same_strs h h'.
Proof.
  unfold process_level0_extended_area.
  destruct (bytes_eqb _ _); [intros H; inversion H; apply same_strs_refl|].
  intros H. bind_inv H as d0 E0.
  destruct ((d0 =? OS_TYPE_UNIX) || (d0 =? OS_TYPE_OS9_68K)).
  - unfold process_level0_unix_area in H.
    destruct (l <? hdr_LEVEL_0_UNIX_EXTENDED_LEN); [inversion H; apply same_strs_refl|].
    bind_inv H as d1 E1. destruct (negb (d1 =? 0)); [inversion H; apply same_strs_refl|].
    repeat (apply bind_ok in H; destruct H as (? & _ & H); cbv beta in H).
    inversion H. repeat split.
  - destruct (d0 =? OS_TYPE_OS9); [|inversion H; apply same_strs_refl].
    unfold process_level0_os9_area in H.
    destruct (l <? hdr_LEVEL_0_OS9_EXTENDED_LEN); [inversion H; apply same_strs_refl|].
    do 5 (apply bind_ok in H; destruct H as (? & _ & H); cbv beta in H).
    match type of H with (if ?c then _ else _) = _ => destruct c end; [inversion H; apply same_strs_refl|].
    apply bind_ok in H; destruct H as (? & _ & H). inversion H. repeat split.
Qed.

Lemma hX_mono h h' : nlen (h_raw h) <= nlen (h_raw h') -> hX h <= hX h'.
Proof. unfold hX. lia. Qed.

(* decode_level0_header: the path field gives filename and path *)
Lemma decode_level0_header_strs mktime h st ok h' st' :
  nlen (h_raw h) = 22 -> strs_le 0 h ->
  decode_level0_header mktime h st = Ok (ok, h', st') -> strs_le (hX h') h'.
Proof.
  intros L22 S0 H. unfold decode_level0_header in H.
  assert (S0' : forall hh, same_strs h hh -> strs_le (hX hh) hh).
  { intros hh Sm. eapply strs_le_same; [exact Sm|]. eapply strs_le_mono; [|exact S0]. lia. }
  bind_inv H as hl E0. bind_inv H as csum E1.
  set (min_len := if h_level h =? 0 then hdr_LEVEL_0_MIN_HEADER_LEN else hdr_LEVEL_1_MIN_HEADER_LEN) in *.
  destruct (negb ((h_level h =? 0) || (h_level h =? 1))); [inversion H; subst; apply S0', same_strs_refl|].
  destruct (hl <? min_len); [inversion H; subst; apply S0', same_strs_refl|].
  bind_inv H as [r st1] Ex. destruct r as [h1|]; [|inversion H; subst; apply S0', same_strs_refl].
  apply extend_raw_data_inv in Ex. destruct Ex as (bytes & -> & Lb & Lmax).
  change hdr_LEVEL_3_MAX_HEADER_LEN with MiB in Lmax. hs.
  set (raw := h_raw h ++ bytes) in *.
  assert (Lraw : nlen raw = 22 + nlen bytes) by (unfold raw; rewrite nlen_app; lia).
  bind_inv H as body Eb.
  destruct (negb (check_l0_checksum body csum)); [inversion H; subst; apply S0'; repeat split|].
  bind_inv H as m Em. bind_inv H as clen Ecl. bind_inv H as len El. bind_inv H as ft Eft.
  cbv zeta in H. bind_inv H as nl Enl.
  destruct (hl <? min_len + nl); [inversion H; subst; apply S0'; repeat split|].
  bind_inv H as os Eos. cbv zeta in H. bind_inv H as pdata Ep. bind_inv H as crc Ecrc.
  apply raw_slice_inv in Ep. destruct Ep as [Ep1 Ep2].
  match type of H with context [process_level0_path ?a ?b] =>
    pose proof (process_level0_path_same a b) as [P1 P2];
    assert (P3 : strs_le (N.min (nlen raw) MiB + 1) (process_level0_path a b));
    [apply process_level0_path_strs;
     [eapply strs_le_same; [|eapply strs_le_mono; [|exact S0]; lia]; repeat split|lia]|];
    hs; set (h4 := process_level0_path a b) in * end.
  match type of H with (if ?c then _ else _) = _ => destruct c end.
  - bind_inv H as h6 E6.
    pose proof (process_level0_extended_area_strs _ _ _ _ E6) as Sm.
    apply process_level0_extended_area_same in E6. destruct E6 as [Q6 _]. hs.
    inversion H; subst. eapply strs_le_same; [exact Sm|].
    eapply strs_le_same; [|unfold hX; rewrite Q6, P1; exact P3]. repeat split.
  - inversion H; subst. eapply strs_le_same; [|unfold hX; hs; rewrite P1; exact P3]. repeat split.
Qed.

(* ext_header.c: each decoder sets at most one string, a copy of at most
   data_len (+1 for the path separator) bytes of raw data *)
Lemma ext_decode_strs h id start dl h' :
  In id ext_header_decoder_ids -> dl <= MiB \/ nlen (h_raw h) <= MiB ->
  ext_decode h id start dl = Ok h' -> strs_le (hX h) h -> strs_le (hX h) h'.
Proof.
  unfold ext_header_decoder_ids. cbn [In]. intros Hin Hdl H (A & B & C & D & E).
  assert (Same : forall hh, same_strs h hh -> strs_le (hX h) hh).
  { intros hh Sm. eapply strs_le_same; [exact Sm|]. repeat split; assumption. }
  destruct Hin as [<-|[<-|[<-|[<-|[<-|[<-|[<-|[<-|[<-|[<-|[]]]]]]]]]]];
    unfold ext_decode in H; cbv beta iota zeta in H.
  - (* common CRC *)
    bind_inv H as v Ev. destruct (start + 1 <? nlen (h_raw h)); [|discriminate].
    inversion H; subst. apply Same. repeat split.
  - (* filename *)
    bind_inv H as d Ed. apply raw_slice_inv in Ed. destruct Ed as [Ed1 Ed2].
    inversion H; subst. unfold strs_le; hs. cbn [slen].
    pose proof (cstr_len d) as Q. rewrite nlen_map. unfold hX in *.
    repeat split; try assumption. lia.
  - (* path *)
    bind_inv H as d Ed. apply raw_slice_inv in Ed. destruct Ed as [Ed1 Ed2].
    bind_inv H as last El.
    inversion H; subst. unfold strs_le; hs. cbn [slen]. unfold hX in *.
    repeat split; try assumption.
    match goal with |- nlen (cstr ?x) <= _ => pose proof (cstr_len x) as Q end.
    rewrite nlen_map in Q. destruct (last =? 255); rewrite ?nlen_app, ?nlen_cons, ?nlen_nil in Q; lia.
  - bind_inv H as v Ev. inversion H; subst. apply Same. repeat split.
  - bind_inv H as g Eg. bind_inv H as u Eu. inversion H; subst. apply Same. repeat split.
  - (* user name *)
    bind_inv H as d Ed. apply raw_slice_inv in Ed. destruct Ed as [Ed1 Ed2].
    inversion H; subst. unfold strs_le; hs. cbn [slen].
    pose proof (cstr_len d) as Q. unfold hX in *. repeat split; try assumption. lia.
  - (* group name *)
    bind_inv H as d Ed. apply raw_slice_inv in Ed. destruct Ed as [Ed1 Ed2].
    inversion H; subst. unfold strs_le; hs. cbn [slen].
    pose proof (cstr_len d) as Q. unfold hX in *. repeat split; try assumption. lia.
  - bind_inv H as v Ev. inversion H; subst. apply Same. repeat split.
  - bind_inv H as a Ea. bind_inv H as b Eb. bind_inv H as c Ec. inversion H; subst. apply Same. repeat split.
  - bind_inv H as v Ev. inversion H; subst. apply Same. repeat split.
Qed.

Lemma lha_ext_header_decode_strs h num start dl h' :
  dl <= MiB \/ nlen (h_raw h) <= MiB ->
  lha_ext_header_decode h num start dl = Ok h' -> strs_le (hX h) h -> strs_le (hX h) h'.
Proof.
  intros Hdl. unfold lha_ext_header_decode.
  destruct (find_ext ext_header_nums ext_header_min_lens ext_header_decoder_ids num) as [[m i]|] eqn:F.
  - apply P_Intact.find_ext_in in F. destruct (dl <? m).
    + intros H; inversion H; subst. auto.
    + intros H. eapply ext_decode_strs; eauto.
  - intros H; inversion H; subst. auto.
Qed.

Lemma dec_u16_lt site raw i v : dec_u16 site raw i = Ok v -> v < 65536.
Proof.
  unfold dec_u16. intros H. bind_inv H as b0 E0. bind_inv H as b1 E1. inversion H. apply u16_lt.
Qed.

Lemma ext_step_strs fs h off av h' off' av' :
  fs = 2 \/ nlen (h_raw h) <= MiB ->
  ext_step fs (h, off, av) = Ok (inl (h', off', av')) ->
  strs_le (hX h) h -> strs_le (hX h') h' /\ nlen (h_raw h') = nlen (h_raw h).
Proof.
  intros Hfs H S.
  pose proof (ext_step_continue _ _ _ _ _ _ _ H) as [(_ & Ln & _) _].
  split; [|exact Ln].
  unfold ext_step in H. destruct (off <=? usub64 (nlen (h_raw h)) fs); [|discriminate].
  bind_inv H as len E.
  destruct (len =? 0); [discriminate|].
  destruct (N.ltb_spec len (fs + 1)) as [L1|L1]; cbn [orb] in H; [discriminate|].
  destruct (N.ltb_spec av len) as [L2|L2]; [discriminate|].
  bind_inv H as num En. bind_inv H as h1 Eh. inversion H; subst. clear H.
  assert (Hdl : len - fs - 1 <= MiB \/ nlen (h_raw h) <= MiB).
  { destruct Hfs as [->|R]; [|right; exact R]. left.
    change (2 =? 4) with false in E. cbv iota in E. apply dec_u16_lt in E. unfold MiB. lia. }
  unfold hX. rewrite Ln. eapply lha_ext_header_decode_strs; eauto.
Qed.

Lemma decode_extended_headers_strs h off ok h' :
  h_level h <> 3 \/ nlen (h_raw h) <= MiB ->
  decode_extended_headers h off = Ok (ok, h') ->
  strs_le (hX h) h -> strs_le (hX h') h'.
Proof.
  intros Hl. unfold decode_extended_headers.
  set (fs := if h_level h =? 3 then 4 else 2).
  assert (Hfs : fs = 2 \/ nlen (h_raw h) <= MiB).
  { unfold fs. destruct (N.eqb_spec (h_level h) 3); [destruct Hl; [congruence|auto]|auto]. }
  intros H S.
  apply (P_Intact.loop_inv (ext_step fs)
           (fun s => strs_le (hX (fst (fst s))) (fst (fst s)) /\ nlen (h_raw (fst (fst s))) = nlen (h_raw h))
           (fun r => strs_le (hX (snd r)) (snd r))) in H; auto.
  - intros [[h1 o1] a1] [[h2 o2] a2] [I1 I2] E. cbn [fst] in *.
    apply ext_step_strs in E; [|rewrite I2; exact Hfs|exact I1]. destruct E as [E1 E2].
    split; [exact E1|congruence].
  - intros [[h1 o1] a1] [ok1 h2] [I1 I2] E. cbn [fst snd] in *.
    apply ext_step_exit in E. now subst.
Qed.

(* read_l1_extended_headers appends raw data and changes compressed_length only *)
Lemma l1_step_strs h st x : l1_step (h, st) = Ok x ->
  same_strs h (match x with inl (h', _) => h' | inr (_, h', _) => h' end).
Proof.
  unfold l1_step. intros H. bind_inv H as len E.
  destruct (len =? 0); [inversion H; apply same_strs_refl|].
  bind_inv H as [r st'] Ex. destruct r as [h1|]; [|inversion H; apply same_strs_refl].
  apply extend_raw_data_inv in Ex. destruct Ex as (b & -> & _).
  destruct (h_compressed_length _ <? len); [inversion H; repeat split|].
  destruct (len <? 3); inversion H; repeat split.
Qed.

Lemma read_l1_extended_headers_strs h st ok h' st' :
  read_l1_extended_headers h st = Ok (ok, h', st') -> same_strs h h'.
Proof.
  unfold read_l1_extended_headers. intros H.
  apply (P_Intact.loop_inv l1_step (fun s => same_strs h (fst s)) (fun r => same_strs h (snd (fst r)))) in H; auto.
  - intros [h1 s1] [h2 s2] I E. apply l1_step_strs in E. cbn [fst] in *. eapply same_strs_trans; eauto.
  - intros [h1 s1] [[ok1 h2] s2] I E. apply l1_step_strs in E. cbn [fst snd] in *. eapply same_strs_trans; eauto.
  - apply same_strs_refl.
Qed.

Lemma decode_l23_fields_strs h h' : decode_l23_fields h = Ok h' -> same_strs h h'.
Proof.
  unfold decode_l23_fields. intros H. cbv zeta in H.
  repeat (apply bind_ok in H; destruct H as (? & _ & H); cbv beta in H).
  inversion H. repeat split.
Qed.

(* the level decoders *)
Definition fresh_hdr (h : header) : Prop := nlen (h_raw h) = 22 /\ strs_le 0 h.

Lemma fresh_same h hh : fresh_hdr h -> same_strs h hh -> strs_le (hX hh) hh.
Proof.
  intros [_ S0] Sm. eapply strs_le_same; [exact Sm|]. eapply strs_le_mono; [|exact S0]. lia.
Qed.

Lemma decode_level1_header_strs mktime h st ok h' st' : fresh_hdr h ->
  decode_level1_header mktime h st = Ok (ok, h', st') -> strs_le (hX h') h'.
Proof.
  intros F. pose proof F as [R0 S0]. unfold decode_level1_header. intros H.
  bind_inv H as [[ok1 h1'] st1'] E0.
  pose proof (decode_level0_header_strs _ _ _ _ _ _ R0 S0 E0) as S1.
  destruct (negb ok1) eqn:N1; [inversion H; subst; exact S1|].
  apply negb_false_iff in N1. subst ok1.
  apply decode_level0_ok in E0; [|exact R0]. destruct E0 as (Lv1 & Lv01 & _).
  bind_inv H as [[ok2 h2] st2'] E1.
  pose proof (read_l1_extended_headers_strs _ _ _ _ _ E1) as Sm2.
  apply read_l1_extended_headers_frame in E1. destruct E1 as [Lv2 (b & Raw2)].
  assert (S2 : strs_le (hX h2) h2).
  { eapply strs_le_same; [exact Sm2|]. eapply strs_le_mono; [|exact S1].
    apply hX_mono. rewrite Raw2, nlen_app. lia. }
  destruct (negb ok2); [inversion H; subst; exact S2|].
  bind_inv H as [ok3 h3] E2. inversion H; subst.
  eapply decode_extended_headers_strs; [|exact E2|exact S2]. left. lia.
Qed.

Lemma decode_level2_header_strs h st ok h' st' : fresh_hdr h -> h_level h = 2 ->
  decode_level2_header h st = Ok (ok, h', st') -> strs_le (hX h') h'.
Proof.
  intros F V0. unfold decode_level2_header. intros H.
  bind_inv H as hl E0.
  destruct (hl <? hdr_LEVEL_2_HEADER_LEN); [inversion H; subst; eapply fresh_same; [exact F|apply same_strs_refl]|].
  bind_inv H as [r st1'] Ex.
  destruct r as [h1'|]; [|inversion H; subst; eapply fresh_same; [exact F|apply same_strs_refl]].
  apply extend_raw_data_inv in Ex. destruct Ex as (bytes & -> & _).
  bind_inv H as h2 E2. pose proof (decode_l23_fields_strs _ _ E2) as Sm2.
  apply decode_l23_fields_same in E2. destruct E2 as [R2 V2].
  assert (Sm02 : same_strs h h2) by (eapply same_strs_trans; [|exact Sm2]; repeat split).
  bind_inv H as [r3 st3'] E3.
  destruct r3 as [h3|]; [|inversion H; subst; eapply fresh_same; [exact F|exact Sm02]].
  assert (A : same_strs h2 h3 /\ h_level h3 = h_level h2).
  { destruct (h_os_type h2 =? OS_TYPE_OS9_68K).
    - apply extend_raw_data_inv in E3. destruct E3 as (b & -> & _). split; repeat split.
    - inversion E3. split; [apply same_strs_refl|reflexivity]. }
  destruct A as [Sm3 V3].
  assert (S3 : strs_le (hX h3) h3) by (eapply fresh_same; [exact F|eapply same_strs_trans; eauto]).
  bind_inv H as [ok4 h4] E4. inversion H; subst.
  eapply decode_extended_headers_strs; [|exact E4|exact S3]. left.
  rewrite V3, V2. cbn [h_level set_raw]. rewrite V0. discriminate.
Qed.

Lemma decode_level3_header_strs h st ok h' st' : fresh_hdr h ->
  decode_level3_header h st = Ok (ok, h', st') -> strs_le (hX h') h'.
Proof.
  intros F. pose proof F as [R0 _]. unfold decode_level3_header. intros H.
  bind_inv H as ws E0.
  destruct (negb (ws =? 4)); [inversion H; subst; eapply fresh_same; [exact F|apply same_strs_refl]|].
  bind_inv H as [r st1'] Ex.
  destruct r as [h1'|]; [|inversion H; subst; eapply fresh_same; [exact F|apply same_strs_refl]].
  apply extend_raw_data_inv in Ex. destruct Ex as (bytes & -> & Lb & _).
  bind_inv H as hlen E1.
  match type of H with (if ?c then _ else _) = _ => destruct c eqn:M end;
    [inversion H; subst; eapply fresh_same; [exact F|repeat split]|].
  apply orb_false_iff in M. destruct M as [M1 M2]. apply N.ltb_ge in M1, M2.
  change hdr_LEVEL_3_MAX_HEADER_LEN with MiB in M1.
  bind_inv H as [r2 st2'] Ex2.
  destruct r2 as [h2|]; [|inversion H; subst; eapply fresh_same; [exact F|repeat split]].
  apply extend_raw_data_inv in Ex2. destruct Ex2 as (bytes2 & -> & Lb2 & _).
  bind_inv H as h3 E3. pose proof (decode_l23_fields_strs _ _ E3) as Sm3.
  apply decode_l23_fields_same in E3. destruct E3 as [R3 V3].
  assert (S3 : strs_le (hX h3) h3)
    by (eapply fresh_same; [exact F|eapply same_strs_trans; [|exact Sm3]; repeat split]).
  bind_inv H as [ok4 h4] E4. inversion H; subst.
  eapply decode_extended_headers_strs; [|exact E4|exact S3]. right.
  rewrite R3. cbn [h_raw set_raw] in *. rewrite !nlen_app in *. lia.
Qed.

Lemma level_dispatch_strs mktime raw lvl st1 ok h1 st2 : nlen raw = 22 ->
  level_dispatch mktime raw lvl st1 = Ok (ok, h1, st2) -> strs_le (hX h1) h1.
Proof.
  intros L22. unfold level_dispatch. cbv zeta.
  assert (F : fresh_hdr (set_level (header0 raw) lvl)).
  { split; [exact L22|]. unfold strs_le; cbn; repeat split; lia. }
  destruct (N.eqb_spec lvl 0) as [Z0|Z0].
  { intros H. destruct F as [R0 S0]. exact (decode_level0_header_strs _ _ _ _ _ _ R0 S0 H). }
  destruct (N.eqb_spec lvl 1) as [Z1|Z1]; [apply decode_level1_header_strs; exact F|].
  destruct (N.eqb_spec lvl 2) as [Z2|Z2]; [apply decode_level2_header_strs; [exact F|exact Z2]|].
  destruct (N.eqb_spec lvl 3) as [Z3|Z3]; [apply decode_level3_header_strs; exact F|].
  intros H. inversion H; subst. eapply fresh_same; [exact F|apply same_strs_refl].
Qed.

(* ---- the fix-ups only shorten or move the strings ---- *)

Definition strs3 (h : header) : N :=
  slen (h_filename h) + slen (h_path h) + slen (h_symlink_target h).

Definition shrink (h h' : header) : Prop :=
  strs3 h' <= strs3 h /\ h_unix_username h' = h_unix_username h /\ h_unix_group h' = h_unix_group h.

Lemma shrink_refl h : shrink h h.
Proof. unfold shrink. repeat split; lia. Qed.

Lemma shrink_trans a b c : shrink a b -> shrink b c -> shrink a c.
Proof. unfold shrink. intros (A1 & A2 & A3) (B1 & B2 & B3). repeat split; try congruence; lia. Qed.

Lemma same_strs_shrink h h' : same_strs h h' -> shrink h h'.
Proof. unfold same_strs, shrink, strs3. intros (A & B & C & D & E). rewrite A, B, C, D, E. repeat split; lia. Qed.

Lemma split_header_filename_shrink h : shrink h (split_header_filename h).
Proof.
  unfold split_header_filename. destruct (h_filename h) as [f|] eqn:F; [|apply shrink_refl].
  destruct (last_index f 47 0 None) as [i|]; [|apply shrink_refl].
  unfold shrink, strs3; hs. rewrite F. cbn [slen].
  pose proof (nlen_firstn_N (i + 1) f). pose proof (nlen_skipn_N (i + 1) f).
  repeat split; lia.
Qed.

Lemma nlen_full_path h : nlen (full_path h) = slen (h_path h) + slen (h_filename h).
Proof. unfold full_path. rewrite nlen_app. destruct (h_path h), (h_filename h); reflexivity. Qed.

Lemma parse_symlink_shrink h h' : parse_symlink h = Some h' -> shrink h h'.
Proof.
  unfold parse_symlink. cbv zeta. destruct (first_index (full_path h) 124 0) as [p|]; [|discriminate].
  intros H. inversion H as [H']. clear H H'.
  eapply shrink_trans; [|apply split_header_filename_shrink].
  unfold shrink, strs3; hs. cbn [slen].
  pose proof (nlen_full_path h) as Lf.
  pose proof (nlen_firstn_N p (full_path h)). pose proof (nlen_skipn_N (p + 1) (full_path h)).
  repeat split; lia.
Qed.

Lemma collapse_loop_len src : forall written cp base,
  nlen (collapse_loop src written cp base) <= nlen written + nlen src.
Proof.
  induction src as [|c rest IH]; intros written cp base; cbn [collapse_loop]; [rewrite nlen_nil; lia|].
  rewrite nlen_cons.
  assert (L1 : nlen (written ++ [c]) = nlen written + 1) by (rewrite nlen_app, nlen_cons, nlen_nil; lia).
  assert (F : forall k, nlen (firstn_N k (written ++ [c])) <= nlen written + 1)
    by (intros k; rewrite nlen_firstn_N; lia).
  destruct (c =? 47).
  - match goal with |- context [if ?a then _ else _] => destruct a end.
    + eapply N.le_trans; [apply IH|]. specialize (F cp). lia.
    + match goal with |- context [if ?a then _ else _] => destruct a end.
      * destruct (cp =? base).
        -- eapply N.le_trans; [apply IH|]. specialize (F base). lia.
        -- eapply N.le_trans; [apply IH|].
           match goal with |- nlen (firstn_N ?k _) + _ <= _ => specialize (F k) end. lia.
      * eapply N.le_trans; [apply IH|]. lia.
  - eapply N.le_trans; [apply IH|]. lia.
Qed.

Lemma collapse_path_len p : nlen (collapse_path p) <= nlen p.
Proof.
  unfold collapse_path.
  assert (G : forall q, nlen (collapse_loop q [] 0 0) <= nlen q).
  { intros q. pose proof (collapse_loop_len q [] 0 0) as Q. change (nlen (@nil N)) with 0 in Q. lia. }
  destruct p as [|b r]; [apply G|].
  destruct (N.eq_dec b 47) as [->|Nb].
  - rewrite !nlen_cons. specialize (G r). lia.
  - assert (E : match b with 47 => 47 :: collapse_loop r [] 0 0 | _ => collapse_loop (b :: r) [] 0 0 end
                = collapse_loop (b :: r) [] 0 0).
    { destruct b as [|q]; [reflexivity|].
      do 6 (destruct q as [q|q|]; try reflexivity). congruence. }
    rewrite E. apply G.
Qed.

Lemma fix_msdos_allcaps_shrink h : shrink h (fix_msdos_allcaps h).
Proof.
  unfold fix_msdos_allcaps. cbv zeta.
  match goal with |- shrink _ (if ?c then _ else _) => destruct c end; [|apply shrink_refl].
  unfold shrink, strs3; hs.
  destruct (h_path h), (h_filename h); cbn [option_map slen]; rewrite ?nlen_map; repeat split; lia.
Qed.

Lemma post_process_shrink h1 h : post_process h1 = Some h -> shrink h1 h.
Proof.
  cbv delta [post_process]. cbv beta. intros H.
  name_let H h2 Eh2. name_let H isd Eisd. name_let H r3 Er3.
  destruct r3 as [h3|]; [|discriminate].
  name_let H os Eos. name_let H h4 Eh4. name_let H h5 Eh5. name_let H h6 Eh6. name_let H h7 Eh7.
  match type of H with (if ?c then _ else _) = _ => destruct c end; [discriminate|].
  name_let H h8 Eh8. inversion H; subst h. clear H.
  assert (K12 : shrink h1 h2).
  { rewrite Eh2. match goal with |- context [if ?c then _ else _] => destruct c end;
      [apply same_strs_shrink; repeat split|apply shrink_refl]. }
  assert (K23 : shrink h2 h3).
  { symmetry in Er3. destruct (negb isd).
    - destruct (h_filename h2); [|discriminate]. inversion Er3; apply shrink_refl.
    - match type of Er3 with (if ?c then _ else _) = _ => destruct c end.
      + apply parse_symlink_shrink; exact Er3.
      + destruct (h_path h2); [|discriminate]. inversion Er3; apply shrink_refl. }
  assert (K34 : shrink h3 h4).
  { rewrite Eh4. match goal with |- context [if ?c then _ else _] => destruct c end;
      [apply fix_msdos_allcaps_shrink|apply shrink_refl]. }
  assert (K45 : shrink h4 h5).
  { rewrite Eh5. unfold shrink, strs3; hs.
    destruct (h_path h4) as [p|]; cbn [option_map slen]; [|repeat split; lia].
    pose proof (collapse_path_len p). repeat split; lia. }
  assert (K56 : shrink h5 h6).
  { rewrite Eh6. match goal with |- context [if ?c then _ else _] => destruct c end;
      [apply same_strs_shrink; repeat split|apply shrink_refl]. }
  assert (K67 : shrink h6 h7).
  { rewrite Eh7. match goal with |- context [if ?c then _ else _] => destruct c end;
      [apply same_strs_shrink; repeat split|apply shrink_refl]. }
  assert (K78 : shrink h7 h8).
  { rewrite Eh8. match goal with |- context [if ?c then _ else _] => destruct c end;
      [apply same_strs_shrink; repeat split|apply shrink_refl]. }
  repeat (eapply shrink_trans; [eassumption|]). apply shrink_refl.
Qed.

(* What the C allocates for one returned header is bounded by its raw data:
   each string is a copy of at most min(raw length, 1 MiB) + 1 bytes of it. *)
Theorem header_bytes_bound mktime st h st' :
  lha_file_header_read mktime st = Ok (Some h, st') ->
  header_bytes h <= sizeof_LHAFileHeader + nlen (h_raw h) + 4 * (N.min (nlen (h_raw h)) MiB + 1) + 10.
Proof.
  intros H. rewrite lha_file_header_read_unfold in H. change hdr_COMMON_HEADER_LEN with 22 in H.
  bind_inv H as [r1 st1] E1. destruct r1 as [raw|]; [|discriminate].
  apply stream_read_len in E1.
  bind_inv H as lvl El. bind_inv H as [[ok h1] st2] Ed.
  apply level_dispatch_strs in Ed; [|exact E1].
  destruct (negb ok); [discriminate|].
  destruct (post_process h1) as [h'|] eqn:Ep; inversion H; subst h' st2; clear H.
  pose proof (post_process_raw _ _ Ep) as Er.
  apply post_process_shrink in Ep. destruct Ep as (S3 & Su & Sg).
  destruct Ed as (A & B & C & D & E).
  unfold header_bytes. unfold strs3 in S3. rewrite E in S3. cbn [slen] in S3.
  pose proof (str_bytes_le (h_filename h)). pose proof (str_bytes_le (h_path h)).
  pose proof (str_bytes_le (h_symlink_target h)). pose proof (str_bytes_le (h_unix_username h)).
  pose proof (str_bytes_le (h_unix_group h)).
  rewrite Su, Sg in *. unfold hX in *. rewrite Er. lia.
Qed.

(* ---- 4d. the heap bound ---- *)

Definition str_total (h : header) : N :=
  str_bytes (h_filename h) + str_bytes (h_path h) + str_bytes (h_symlink_target h)
  + str_bytes (h_unix_username h) + str_bytes (h_unix_group h).

Lemma header_bytes_split h : header_bytes h = sizeof_LHAFileHeader + nlen (h_raw h) + str_total h.
Proof. unfold header_bytes, str_total. lia. Qed.

(* Objects counted: the LHAInputStream, the LHABasicReader, the LHAReader, one
   LHADecoder of the largest kind, the MacBinary pass-through decoder, and the
   header being read or current.  Not counted: the FILE / callback object of the
   caller, libc's own buffers, and the headers the LHAReader retains for
   directories and deferred symlinks (for those see retained_headers_bound).

   (1) While a header is being read: extend_raw_data holds old + nbytes bytes and
       realloc may hold the old block as well; [strs] is what the strings of the
       header occupy at that moment (nothing for levels 0, 2, 3; the path field
       for level 1: heap_bound_level1_reading). *)
Theorem heap_bound_reading old nbytes strs consumed :
  old <= consumed -> nbytes <= MiB -> strs <= 2 * (MiB + 1) + 4 ->
  fixed_bytes + extend_peak old nbytes + strs <= 8 * MiB + 2 * consumed.
Proof.
  intros A B C. rewrite fixed_bytes_value. unfold extend_peak.
  change sizeof_LHAFileHeader with 160. unfold MiB in *. lia.
Qed.

(* (2) Once the header has been returned, and for as long as it is current. *)
Theorem heap_bound_header mktime st h st' consumed :
  lha_file_header_read mktime st = Ok (Some h, st') -> avail st - avail st' <= consumed ->
  fixed_bytes + header_bytes h <= 8 * MiB + 2 * consumed.
Proof.
  intros H C. pose proof (header_bytes_bound _ _ _ _ H) as B.
  apply raw_paid_by_input in H. destruct H as (P & _ & _).
  rewrite fixed_bytes_value. change sizeof_LHAFileHeader with 160 in B. unfold MiB in *.
  destruct (N.le_gt_cases (nlen (h_raw h)) 1048576); lia.
Qed.

(* a header costs at most 5 bytes of heap per byte of input that encoded it, + 174 *)
Corollary header_bytes_linear mktime st h st' :
  lha_file_header_read mktime st = Ok (Some h, st') ->
  header_bytes h <= 5 * nlen (h_raw h) + (sizeof_LHAFileHeader + 14).
Proof. intros H. apply header_bytes_bound in H. lia. Qed.

(* level 1: what is live while the extended headers are being read *)
Lemma decode_level0_header_ug mktime h st ok h' st' :
  decode_level0_header mktime h st = Ok (ok, h', st') ->
  h_unix_username h' = h_unix_username h /\ h_unix_group h' = h_unix_group h /\
  h_symlink_target h' = h_symlink_target h.
Proof.
  intros H. unfold decode_level0_header in H.
  bind_inv H as hl E0. bind_inv H as csum E1.
  set (min_len := if h_level h =? 0 then hdr_LEVEL_0_MIN_HEADER_LEN else hdr_LEVEL_1_MIN_HEADER_LEN) in *.
  destruct (negb ((h_level h =? 0) || (h_level h =? 1))); [inversion H; subst; auto|].
  destruct (hl <? min_len); [inversion H; subst; auto|].
  bind_inv H as [r st1] Ex. destruct r as [h1|]; [|inversion H; subst; auto].
  apply extend_raw_data_inv in Ex. destruct Ex as (bytes & -> & _). hs.
  bind_inv H as body Eb.
  destruct (negb (check_l0_checksum body csum)); [inversion H; subst; auto|].
  bind_inv H as m Em. bind_inv H as clen Ecl. bind_inv H as len El. bind_inv H as ft Eft.
  cbv zeta in H. bind_inv H as nl Enl.
  destruct (hl <? min_len + nl); [inversion H; subst; auto|].
  bind_inv H as os Eos. cbv zeta in H. bind_inv H as pdata Ep. bind_inv H as crc Ecrc.
  assert (P : forall a d, h_unix_username (process_level0_path a d) = h_unix_username a /\
                          h_unix_group (process_level0_path a d) = h_unix_group a /\
                          h_symlink_target (process_level0_path a d) = h_symlink_target a).
  { intros a d. unfold process_level0_path. destruct d as [|x r]; [auto|].
    unfold split_header_filename; hs. destruct (last_index _ 47 0 None); auto. }
  match type of H with context [process_level0_path ?a ?b] =>
    destruct (P a b) as (P1 & P2 & P3); hs; set (h4 := process_level0_path a b) in * end.
  match type of H with (if ?c then _ else _) = _ => destruct c end.
  - bind_inv H as h6 E6. apply process_level0_extended_area_strs in E6.
    destruct E6 as (_ & _ & Q3 & Q4 & Q5). hs.
    inversion H; subst. rewrite Q3, Q4, Q5. auto.
  - inversion H; subst. hs. auto.
Qed.

Lemma l1_iters_strs n : forall h st h' st', iters l1_step n (h, st) (h', st') -> same_strs h h'.
Proof.
  induction n as [|n IH]; intros h st h' st' Hi; inversion Hi; subst; [apply same_strs_refl|].
  match goal with E : l1_step _ = Ok (inl ?s) |- _ => destruct s as [h1 st1]; apply l1_step_strs in E end.
  match goal with L : iters l1_step n _ _ |- _ => apply IH in L end.
  eapply same_strs_trans; eauto.
Qed.

(* After decode_level0_header on the first 22 bytes, at any of the following
   extend_raw_data calls (n extended headers read so far, nbytes requested) *)
Theorem heap_bound_level1_reading mktime raw st h1 st1 n h2 st2 nbytes consumed :
  nlen raw = 22 -> ready st ->
  decode_level0_header mktime (set_level (header0 raw) 1) st = Ok (true, h1, st1) ->
  iters l1_step n (h1, st1) (h2, st2) ->
  nbytes <= MiB -> 22 + (avail st - avail st2) <= consumed ->
  fixed_bytes + extend_peak (nlen (h_raw h2)) nbytes + str_total h2 <= 8 * MiB + 2 * consumed.
Proof.
  intros L22 Hr E0 Hi Hn Hc.
  pose proof (decode_level0_header_ug _ _ _ _ _ _ E0) as (U1 & U2 & U3). hs.
  assert (S0 : strs_le 0 (set_level (header0 raw) 1)) by (unfold strs_le; cbn; repeat split; lia).
  assert (L22' : nlen (h_raw (set_level (header0 raw) 1)) = 22) by exact L22.
  pose proof (decode_level0_header_strs _ _ _ _ _ _ L22' S0 E0) as (A & B & _).
  apply decode_level0_header_work in E0; [|exact Hr]. destruct E0 as (R1 & _ & P1).
  pose proof (l1_iters_strs _ _ _ _ _ Hi) as (T1 & T2 & T3 & T4 & T5).
  apply l1_iters_paid in Hi; [|exact R1]. destruct Hi as [_ P2].
  pose proof (paid_trans _ _ _ _ _ _ P1 P2) as (Q1 & _ & _).
  change (nlen (h_raw (set_level (header0 raw) 1))) with (nlen raw) in Q1.
  apply heap_bound_reading; [lia|exact Hn|].
  unfold str_total. rewrite T1, T2, T3, T4, T5, U1, U2, U3. cbn [str_bytes].
  pose proof (str_bytes_le (h_filename h1)). pose proof (str_bytes_le (h_path h1)).
  unfold hX in *. lia.
Qed.

(* ---- 4e. the headers the reader retains ---- *)

(* n calls of next_file, collecting the headers returned *)
Fixpoint collect_headers (mktime : N -> N -> N -> N -> Z -> N -> N) (n : nat) (r : breader)
  : outcome (list header * breader) :=
  match n with
  | O => Ok ([], r)
  | S k =>
    '(h, r1) <- lha_basic_reader_next_file mktime r ;;
    '(hs, r2) <- collect_headers mktime k r1 ;;
    Ok (match h with Some hd => hd :: hs | None => hs end, r2)
  end.

Lemma next_file_header_paid mktime r hd r' :
  lha_basic_reader_next_file mktime r = Ok (Some hd, r') ->
  nlen (h_raw hd) + ravail r' <= ravail r /\
  header_bytes hd <= 5 * nlen (h_raw hd) + (sizeof_LHAFileHeader + 14).
Proof.
  unfold lha_basic_reader_next_file. intros H. bind_inv H as r1 E1.
  assert (A1 : ravail r1 <= ravail r).
  { destruct (br_curr r).
    - bind_inv E1 as [ok st1] Es. apply lha_input_stream_skip_work in Es.
      destruct Es as (_ & _ & _ & S4 & _). inversion E1; subst. exact S4.
    - inversion E1; subst. lia. }
  destruct (br_eof r1); [discriminate|].
  bind_inv H as [hh st2] Eh. destruct hh as [hd'|]; [|discriminate]. inversion H; subst; clear H.
  pose proof (header_bytes_linear _ _ _ _ Eh) as B.
  apply raw_paid_by_input in Eh. destruct Eh as (P & Q & _).
  unfold ravail in *. cbn [br_stream]. split; [lia|exact B].
Qed.

Lemma next_file_avail mktime r x r' :
  lha_basic_reader_next_file mktime r = Ok (x, r') -> ravail r' <= ravail r.
Proof.
  unfold lha_basic_reader_next_file. intros H. bind_inv H as r1 E1.
  assert (A1 : ravail r1 <= ravail r).
  { destruct (br_curr r).
    - bind_inv E1 as [ok st1] Es. apply lha_input_stream_skip_work in Es.
      destruct Es as (_ & _ & _ & S4 & _). inversion E1; subst. exact S4.
    - inversion E1; subst. lia. }
  destruct (br_eof r1); [inversion H; subst; exact A1|].
  bind_inv H as [hh st2] Eh. apply lha_file_header_read_work in Eh. destruct Eh as (_ & B & _).
  destruct hh; inversion H; subst; unfold ravail in *; cbn [br_stream]; lia.
Qed.

(* All headers returned so far -- a fortiori the ones the reader retains -- take
   at most 5 bytes of heap per input byte consumed, plus 174 bytes each. *)
Theorem retained_headers_bound mktime n : forall r hs r',
  collect_headers mktime n r = Ok (hs, r') ->
  sum_N (map header_bytes hs) + 5 * ravail r' <=
    5 * ravail r + nlen hs * (sizeof_LHAFileHeader + 14) /\ ravail r' <= ravail r.
Proof.
  induction n as [|n IH]; intros r hs r' H; cbn [collect_headers] in H.
  - inversion H; subst. cbn. lia.
  - bind_inv H as [h r1] E1. bind_inv H as [hs1 r2] E2. inversion H; subst; clear H.
    apply IH in E2. destruct E2 as [E2 A2].
    destruct h as [hd|].
    + apply next_file_header_paid in E1. destruct E1 as [P B].
      cbn [map]. rewrite sum_N_cons, nlen_cons. lia.
    + apply next_file_avail in E1. lia.
Qed.

(* the two cases in one statement *)
Theorem heap_bound mktime st h st' consumed :
  (* while reading: any extend_raw_data call with old <= consumed bytes of raw data *)
  (forall old nbytes strs, old <= consumed -> nbytes <= MiB -> strs <= 2 * (MiB + 1) + 4 ->
     sizeof_LHAInputStream + sizeof_LHABasicReader + sizeof_LHAReader + max_decoder_bytes + macbinary_bytes
     + (extend_peak old nbytes + strs) <= 8 * MiB + 2 * consumed) /\
  (* afterwards *)
  (lha_file_header_read mktime st = Ok (Some h, st') -> avail st - avail st' <= consumed ->
     sizeof_LHAInputStream + sizeof_LHABasicReader + sizeof_LHAReader + max_decoder_bytes + macbinary_bytes
     + header_bytes h <= 8 * MiB + 2 * consumed).
Proof.
  split.
  - intros old nbytes strs A B C. pose proof (heap_bound_reading old nbytes strs consumed A B C) as H.
    unfold fixed_bytes in H. lia.
  - intros H C. pose proof (heap_bound_header _ _ _ _ consumed H C) as B. unfold fixed_bytes in B. lia.
Qed.

(* ---- the level-1 count spelled out: 2 + (extended headers accepted) + 1 requests ---- *)
Theorem decode_level1_header_requests mktime h st ok h' st' : ready st ->
  decode_level1_header mktime h st = Ok (ok, h', st') ->
  exists n, requests st' <= requests st + 2 + n /\ avail st' + 3 * n <= avail st.
Proof.
  intros Hr H. unfold decode_level1_header in H.
  bind_inv H as [[ok1 h1] st1] E0. apply decode_level0_header_work in E0; [|exact Hr].
  destruct E0 as (R1 & Q1 & (P1 & M1 & _)).
  destruct (negb ok1).
  { inversion H; subst. exists 0. lia. }
  bind_inv H as [[ok2 h2] st2] E1. apply read_l1_extended_headers_work in E1; [|exact R1].
  destruct E1 as (n & R2 & Q2 & A2 & P2).
  assert (A1 : avail st1 <= avail st) by lia.
  destruct (negb ok2).
  { inversion H; subst. exists n. lia. }
  bind_inv H as [ok3 h3] E2. inversion H; subst. exists n. lia.
Qed.

(* ================================================================== *)
Print Assumptions skip_sfx_work.
Print Assumptions skip_sfx_reads_div.
Print Assumptions lha_input_stream_read_work_ready.
Print Assumptions lha_input_stream_read_work.
Print Assumptions lha_input_stream_skip_work.
Print Assumptions lha_input_stream_skip_requests_div.
Print Assumptions read_l1_extended_headers_work.
Print Assumptions decode_level1_header_requests.
Print Assumptions lha_file_header_read_work_ready.
Print Assumptions lha_file_header_read_work.
Print Assumptions lha_file_header_read_requests_div.
Print Assumptions raw_paid_by_input.
Print Assumptions leadin_drained.
Print Assumptions next_file_work.
Print Assumptions listing_work_linear.
Print Assumptions listing_returns_within_budget.
Print Assumptions skip_truncated_ends_archive.
Print Assumptions skip_truncated_after_header.
Print Assumptions read_compressed_keeps_truncated.
Print Assumptions truncated_member_ends_archive.
Print Assumptions after_header_truncated_member.
Print Assumptions decoder_read_invocations_bounded.
Print Assumptions decoder_read_at_end_no_invocation.
Print Assumptions reads_bounded_by_declared.
Print Assumptions decoder_read_invocations_bounded_inv.
Print Assumptions reads_bounded_by_declared_inv.
Print Assumptions decoder_bytes_bounded.
Print Assumptions fixed_bytes_value.
Print Assumptions extend_raw_data_refuses.
Print Assumptions l1_iters_paid.
Print Assumptions extend_peak_bound.
Print Assumptions header_bytes_bound.
Print Assumptions heap_bound_reading.
Print Assumptions heap_bound_header.
Print Assumptions heap_bound_level1_reading.
Print Assumptions heap_bound.
Print Assumptions retained_headers_bound.

(* P_S_LhNew.v -- the fast forms used in S_LhNew.v equal their plain forms:
     serialise_stream  = flat_map block_bits
     lz77_expand       = lz77_expand_ref   (list-only reference semantics)
     ptab_code (tab_prepare t) = tab_code t   (cached codewords = closed form) *)
From Lhasa Require Import Base S_Larc S_LhNew.
From Coq Require Import ZifyBool ZifyN ZifyNat.
Local Open Scope N_scope.

(* ---- serialise_stream ---- *)

Lemma fold_rev_append_flat_map {A B} (f : A -> list B) (s : list A) (acc : list B) :
  fold_left (fun acc b => rev_append (f b) acc) s acc = rev (flat_map f s) ++ acc.
Proof.
  revert acc. induction s as [|b s IH]; intros acc; simpl; [reflexivity|].
  rewrite IH, rev_append_rev, rev_app_distr, app_assoc. reflexivity.
Qed.

Theorem serialise_stream_flat_map v s :
  serialise_stream v s = flat_map (block_bits v) s.
Proof.
  unfold serialise_stream. rewrite fold_rev_append_flat_map, rev_append_rev, !app_nil_r.
  apply rev_involutive.
Qed.

(* ---- lz77_expand ---- *)

(* the trie holds exactly the bytes of the reversed output list *)
Definition lz_rep (s : lzst) (l : list N) : Prop :=
  z_rev s = l /\ z_n s = nlen l /\
  forall i, i < z_n s -> aget (z_win s) i = nth (N.to_nat (z_n s - 1 - i)) l 32.

Lemma lz_rep_init : lz_rep lz_init [].
Proof. repeat split. simpl. intros i H. lia. Qed.

Lemma lz_back_rep s l d : lz_rep s l -> lz_back s d = nth (N.to_nat d) l 32.
Proof.
  intros (_ & Hn & Hw). unfold lz_back.
  destruct (N.ltb_spec d (z_n s)) as [H|H].
  - rewrite Hw by lia. f_equal. lia.
  - rewrite nth_overflow; [reflexivity|]. unfold nlen in Hn. lia.
Qed.

Lemma lz_put_rep s l b : lz_rep s l -> lz_rep (lz_put s b) (b :: l).
Proof.
  intros (Hr & Hn & Hw). unfold lz_put. repeat split; simpl.
  - now rewrite Hr.
  - rewrite Hn. unfold nlen. simpl. lia.
  - intros i Hi. destruct (N.eq_dec i (z_n s)) as [->|Hne].
    + rewrite aget_aset_eq. replace (N.to_nat (z_n s + 1 - 1 - z_n s)) with O by lia. reflexivity.
    + rewrite aget_aset_ne by congruence. rewrite Hw by lia.
      replace (N.to_nat (z_n s + 1 - 1 - i)) with (S (N.to_nat (z_n s - 1 - i))) by lia.
      reflexivity.
Qed.

Lemma lz_copy_rep k : forall s l d, lz_rep s l -> lz_rep (lz_copy k s d) (lz_copy_ref k l d).
Proof.
  induction k as [|k IH]; intros s l d H; simpl; [exact H|].
  apply IH. rewrite (lz_back_rep s l d H). now apply lz_put_rep.
Qed.

Lemma lz_step_rep s l c : lz_rep s l -> lz_rep (lz_step s c) (lz_step_ref l c).
Proof.
  intros H. destruct c as [b|d n]; simpl; [now apply lz_put_rep|now apply lz_copy_rep].
Qed.

Lemma lz_fold_rep cmds : forall s l, lz_rep s l ->
  lz_rep (fold_left lz_step cmds s) (fold_left lz_step_ref cmds l).
Proof.
  induction cmds as [|c r IH]; intros s l H; simpl; [exact H|].
  apply IH. now apply lz_step_rep.
Qed.

Theorem lz77_expand_eq_ref cmds : lz77_expand cmds = lz77_expand_ref cmds.
Proof.
  unfold lz77_expand, lz77_expand_ref.
  destruct (lz_fold_rep cmds lz_init [] lz_rep_init) as (Hr & _).
  rewrite Hr, rev_append_rev, app_nil_r. reflexivity.
Qed.

(* ---- cached codewords ---- *)

Lemma aget_aset_list l : forall a i j,
  aget (aset_list a i l) j =
  if i <=? j then nth (N.to_nat (j - i)) l (aget a j) else aget a j.
Proof.
  induction l as [|x r IH]; intros a i j; simpl.
  - destruct (i <=? j); [destruct (N.to_nat (j - i))|]; reflexivity.
  - rewrite IH.
    destruct (N.leb_spec (i + 1) j) as [H1|H1]; destruct (N.leb_spec i j) as [H2|H2]; try lia.
    + rewrite aget_aset_ne by lia.
      replace (N.to_nat (j - i)) with (S (N.to_nat (j - (i + 1)))) by lia. reflexivity.
    + assert (j = i) by lia. subst j. rewrite aget_aset_eq.
      replace (N.to_nat (i - i)) with O by lia. reflexivity.
    + rewrite aget_aset_ne by lia. reflexivity.
Qed.

Lemma aget_arr_of_list d l j : aget (arr_of_list d l) j = nth (N.to_nat j) l d.
Proof.
  unfold arr_of_list. rewrite aget_aset_list. simpl. rewrite aget_mk.
  replace (j - 0) with j by lia.
  destruct (N.leb_spec 0 j); [reflexivity|lia].
Qed.

Lemma nth_code_values_from all ls : forall s0 j,
  nth j (code_values_from all ls s0) 0 =
  (if 0 <? nth j ls 0 then code_value_from all 0 (nth j ls 0) (s0 + N.of_nat j) else 0).
Proof.
  induction ls as [|l r IH]; intros s0 j; simpl.
  - destruct j; reflexivity.
  - destruct j as [|j]; simpl.
    + replace (s0 + 0) with s0 by lia. reflexivity.
    + rewrite IH. replace (s0 + 1 + N.of_nat j) with (s0 + N.pos (Pos.of_succ_nat j)) by lia.
      reflexivity.
Qed.

Theorem ptab_code_prepare t s : ptab_code (tab_prepare t) s = tab_code t s.
Proof.
  destruct t as [x|lens]; simpl; [reflexivity|].
  rewrite !aget_arr_of_list, nth_code_values_from.
  unfold canonical_code, code_value, len_of.
  replace (0 + N.of_nat (N.to_nat s)) with s by lia.
  destruct (N.ltb_spec 0 (nth (N.to_nat s) lens 0)) as [H|H]; [reflexivity|].
  replace (nth (N.to_nat s) lens 0) with 0 by lia. reflexivity.
Qed.

(* P_CliConfineLate.v -- C10, confinement of a WHOLE extraction, the final phase
   (creation of the deferred, dangerous links) included.

   P_CliConfineAll stops at the first dangerous link: after it the tree is no longer
   "safe" and Properties_C10.confinement_refuted shows that later operations can
   leave the extraction directory R.  This file proves when they cannot.

   HYPOTHESES of extract_confined_whole (the extraction loop of `lha x`):
     - the current directory is R and no symbolic link stands below R (no_links_below);
       extract_confined_whole_init: or the links below R are safe and no link member
       is extracted through one of them (initial_links_ok);
     - w=DIR, if given, is relative, non-empty, without ".." (good_w);
     - every header the run presents (presents: what lha_filter_next_file returns to the
       loop; computable for a concrete run, run_headers) belongs to a set Mem, the members, and
       NO SYMBOLIC-LINK MEMBER IS EXTRACTED THROUGH A SAFE SYMBOLIC-LINK MEMBER:
       for a member L that is a link with a safe target (relative, no "..": such a
       link is created at once) and a member M that is a link of either kind, the
       path components of L are not a proper prefix of those of M (no_link_through_safe;
       as a boolean on a list of (path, target): no_link_through_safe_b, members_confined).
   CONCLUSION: every operation logged by the run, final phase included, resolved to
   a physical location below R (the mkdir of a parent directory, the unlink of the
   placeholder and the symlink itself take place in a directory physically below R;
   where the new link points is of course free); and every symbolic link below R at
   the end is the link of a member, standing at that member's own path.

   Why: under the hypothesis a link member's path never meets a safe link on its way,
   so it is resolved physically (P_FsLinks.walk_phys); the only other links below R
   are deferred links created earlier, whose key is >= the current one's (longest
   first, P_CliOrder), while a link standing at a proper prefix of the current path
   has a strictly smaller key (P_CliPathLen.prefix_is_shorter).  Two deferred links
   with the same path: the second replaces the first at its final component, which
   is never followed.

   Special case no_safe_links_confined: the archive presents no safe link at all.
   From argv: lha_main_confined_whole, lha_main_no_safe_links_confined, cli_run_confined_whole.

   Both suggested weaker hypotheses are FALSE of the model (findings, evaluated below):
     - "every link below R in the initial tree is safe" (fs_ok) instead of "no link
       below R": safe_initial_links_refuted -- with /root/s -> t and /root/v -> . in
       the initial tree, an archive of two dangerous links and nothing else creates a
       link in /outside (both links are on a link member's way: initial_links_ok fails);
     - "no safe link's target, resolved from its own directory, passes through or ends
       at the path of a deferred link" (no_link_through_deferred) instead of
       no_link_through_safe: target_test_refuted -- s -> vvvv, vvvv/u -> /outside,
       s/u/p -> /x passes that test and creates /outside/p.  The witness of
       Properties_C10.confinement_refuted fails both tests (escape_fails_both_tests). *)
From Lhasa Require Import Base Loop Generated InputStream Header BasicReader AnyDecoder Decoder MacBinary
  Fs FsRun Reader Glob ListOut CliFilter CliExtract CliMain P_Path P_CliSafe P_CliOrder P_FsConfine P_CliPath
  P_CliConfine P_CliConfineAll P_FsLinks P_CliPathLen.
From Coq Require Import Lia.
Local Open Scope N_scope.

(* ------------------------------------------------------------------ *)
(* 1. the library and the tool make no link except in lha_arch_symlink  *)

Section Keeps.
  Variable junk : N.

  Lemma do_decode_keeps r f out res evs r1 f1 :
    do_decode junk r f out = Ok (res, evs, r1, f1) -> keeps f f1.
  Proof.
    unfold do_decode. intros H. apply bind_ok in H. destruct H as ([[r2 f2] evs2] & Hl & H). cbv beta iota in H.
    assert (G : keeps f f2).
    { apply (loop_inv (dd_step junk out) (fun s => keeps f (snd (fst s))) (fun s => keeps f (snd (fst s)))) in Hl.
      - exact Hl.
      - clear. intros [[ra fa] ea] x Hk. cbn [fst snd] in Hk. unfold dd_step. intros H.
        apply bind_ok in H. destruct H as ([[o ev] rb] & _ & H). cbv beta iota in H.
        destruct o as [|b o']; injection H as <-; cbn [fst snd].
        + destruct out; exact Hk.
        + destruct out; [|exact Hk]. eapply keeps_trans; [exact Hk|apply fs_write_keeps].
      - cbn [fst snd]. apply keeps_refl. }
    destruct (inner_len_crc r2) as [[len crc]|]; [|discriminate].
    destruct (rd_curr r2); [|discriminate]. injection H as _ _ _ <-. exact G.
  Qed.

  Lemma set_timestamps_keeps f path h : keeps f (snd (set_timestamps_from_header f path h)).
  Proof.
    unfold set_timestamps_from_header. destruct (negb (h_timestamp h =? 0)); [apply fs_utime_keeps|apply keeps_refl].
  Qed.

  Lemma set_directory_metadata_keeps f h path : keeps f (snd (set_directory_metadata f h path)).
  Proof.
    unfold set_directory_metadata.
    pose proof (set_timestamps_keeps f path h) as K1. destruct (set_timestamps_from_header f path h) as [b f1].
    cbn [snd] in K1.
    assert (K2 : keeps f (if have_extra h FILE_UNIX_UID_GID then snd (fs_chown f1 path) else f1)).
    { destruct (have_extra h FILE_UNIX_UID_GID); [|exact K1]. eapply keeps_trans; [exact K1|apply fs_chown_keeps]. }
    destruct (have_extra h FILE_UNIX_PERMS); [|exact K2].
    eapply keeps_trans; [exact K2|apply fs_chmod_keeps].
  Qed.

  Lemma extract_file_keeps r f filename monitor ok ev r' f' :
    extract_file junk r f filename monitor = Ok (ok, ev, r', f') -> keeps f f'.
  Proof.
    unfold extract_file. intros H. destruct (rd_curr r) as [h|]; [|discriminate].
    apply bind_ok in H. destruct H as ([[ok1 ev1] r1] & _ & H). cbv beta iota in H.
    destruct ok1; cbn [negb] in H; [|injection H as _ _ _ <-; apply keeps_refl].
    match type of H with context [arch_fopen f ?n ?p] =>
      pose proof (arch_fopen_keeps f n p) as K1; destruct (arch_fopen f n p) as [[hd|] f1] end; cbn [snd] in K1.
    - apply bind_ok in H. destruct H as ([[[res ev2] r2] f2] & Hd & H). cbv beta iota in H.
      apply do_decode_keeps in Hd. injection H as _ _ _ <-.
      eapply keeps_trans; [exact K1|]. destruct res; [|exact Hd].
      eapply keeps_trans; [exact Hd|apply set_timestamps_keeps].
    - injection H as _ _ _ <-. exact K1.
  Qed.

  Lemma extract_directory_keeps r f path ok r' f' :
    extract_directory r f path = Ok (ok, r', f') -> keeps f f'.
  Proof.
    unfold extract_directory. intros H. destruct (rd_curr r) as [h|]; [|discriminate].
    destruct (match path with Some p => Some p | None => h_path h end) as [p|]; [|discriminate].
    match type of H with context [arch_mkdir f p ?m] =>
      pose proof (arch_mkdir_keeps f p m) as K1; destruct (arch_mkdir f p m) as [okm f1] end. cbn [snd] in K1.
    destruct okm; cbn [negb] in H.
    - destruct (rd_policy r).
      + pose proof (set_directory_metadata_keeps f1 h p) as K2. destruct (set_directory_metadata f1 h p) as [b f2].
        cbn [snd] in K2. injection H as _ _ <-. eapply keeps_trans; eassumption.
      + apply bind_ok in H. destruct H as (r1 & _ & H). injection H as _ _ <-. exact K1.
      + apply bind_ok in H. destruct H as (r1 & _ & H). injection H as _ _ <-. exact K1.
    - injection H as _ _ <-. exact K1.
  Qed.

  Lemma extract_placeholder_keeps r f filename ok r' f' :
    extract_placeholder_symlink r f filename = Ok (ok, r', f') -> keeps f f'.
  Proof.
    unfold extract_placeholder_symlink. intros H.
    pose proof (arch_fopen_keeps f filename (Some 384)) as K1.
    destruct (arch_fopen f filename (Some 384)) as [[hd|] f1]; cbn [snd] in K1.
    - destruct (rd_curr r) as [h|]; [|discriminate].
      apply bind_ok in H. destruct H as (r1 & _ & H). injection H as _ _ <-. exact K1.
    - injection H as _ _ <-. exact K1.
  Qed.

  (* make_parent_directories *)
  Definition mpd_keeps (st st' : cli_state) : Prop :=
    keeps (cs_fs st) (cs_fs st') /\ cs_reader st' = cs_reader st /\ cs_opts st' = cs_opts st.

  Lemma check_parent_directory_keeps path st : mpd_keeps st (snd (check_parent_directory path st)).
  Proof.
    unfold check_parent_directory. destruct (arch_exists (cs_fs st) path); cbn [snd];
      try (split; [apply keeps_refl|split; reflexivity]).
    pose proof (arch_mkdir_keeps (cs_fs st) path 493) as K. destruct (arch_mkdir (cs_fs st) path 493) as [ok f1].
    cbn [snd] in K. destruct (negb ok); cbn [snd]; (split; [exact K|split; reflexivity]).
  Qed.

  Lemma mpd_loop_keeps rest : forall pre st, mpd_keeps st (snd (mpd_loop pre rest st)).
  Proof.
    induction rest as [|c r IH]; intros pre st; cbn [mpd_loop].
    - cbn [snd]. split; [apply keeps_refl|split; reflexivity].
    - destruct (c =? 47); [|apply IH].
      pose proof (check_parent_directory_keeps (rev pre) st) as K.
      destruct (check_parent_directory (rev pre) st) as [ok st1]. cbn [snd] in K.
      destruct (negb ok); cbn [snd]; [exact K|].
      destruct K as (K1 & K2 & K3). destruct (IH (c :: pre) st1) as (J1 & J2 & J3).
      split; [eapply keeps_trans; eassumption|]. split; congruence.
  Qed.

  Lemma make_parent_directories_keeps path st : mpd_keeps st (snd (make_parent_directories path st)).
  Proof.
    unfold make_parent_directories. destruct (leading_slashes (strip_trailing_slashes path)) as [lead rest].
    apply mpd_loop_keeps.
  Qed.
End Keeps.

(* ------------------------------------------------------------------ *)
(* 2. the deferred list                                                 *)

Lemma insert_deferred_in l h x : In x (insert_deferred l h) -> x = h \/ In x l.
Proof.
  induction l as [|y r IH]; cbn [insert_deferred].
  - intros [<-|[]]. left. reflexivity.
  - destruct (file_header_path_len h <? file_header_path_len y).
    + intros [<-|X]; [right; left; reflexivity|]. destruct (IH X) as [->|Y]; [left; reflexivity|right; right; exact Y].
    + intros [<-|X]; [left; reflexivity|right; exact X].
Qed.

(* in a list that is longest first the head bounds every element *)
Lemma longest_first_head x r : longest_first (x :: r) ->
  forall b, In b (x :: r) -> file_header_path_len b <= file_header_path_len x.
Proof.
  revert x. induction r as [|y r IH]; intros x H b [<-|Hb]; try lia; [destruct Hb|].
  destruct H as [A B]. specialize (IH y B b Hb). lia.
Qed.

Lemma pending_req r r' : req r r' -> pending r' = pending r.
Proof. intros (A & B & _ & D & _). unfold pending. rewrite A, B, D. reflexivity. Qed.

Section Deferred.
  Variable mktime : N -> N -> N -> N -> Z -> N -> N.
  Variable junk : N.

  (* lha_reader_next_file only takes links off the pending list *)
  Lemma next_file_pending r0 h r' :
    lha_reader_next_file mktime r0 = Ok (h, r') -> incl (pending r') (pending r0).
  Proof.
    intros H. apply next_file_cases in H.
    assert (Hd : incl (rd_deferred r0) (pending r0)).
    { unfold pending. destruct (rd_type r0); try apply incl_refl. destruct (rd_curr r0); [apply incl_tl|]; apply incl_refl. }
    destruct H as [(Et & -> & ->)|(Et & br1 & linked & Hbr & H)].
    - unfold pending. cbn [close_decoder rd_type rd_curr rd_deferred]. apply incl_refl.
    - destruct H as [(top & rest & Es & -> & ->)|[(hc & Ec & -> & ->)|[(Ec & Es & l & lrest & Ed & -> & ->)|(Ec & Es & Ed & -> & ->)]]];
        unfold pending at 1, mk_reader; cbn [rd_type rd_curr rd_deferred]; try exact Hd.
      + rewrite <- Ed. exact Hd.
      + intros x [].
  Qed.

  Lemma filter_next_file_pending flt r h r' :
    filter_next_file mktime flt r = Ok (h, r') ->
    incl (pending r') (pending r) /\ (forall hd, h = Some hd -> rd_type r' <> CT_EOF).
  Proof.
    unfold filter_next_file. intros H.
    apply (loop_inv (filter_step mktime flt) (fun s => incl (pending s) (pending r))
             (fun x => incl (pending (snd x)) (pending r) /\ (forall hd, fst x = Some hd -> rd_type (snd x) <> CT_EOF))) in H.
    - exact H.
    - clear. intros s x Hi. unfold filter_step. intros H.
      apply bind_ok in H. destruct H as ([h r1] & Hn & H). cbv beta iota in H.
      pose proof (next_file_pending _ _ _ Hn) as Hp.
      assert (Hi' : incl (pending r1) (pending r)) by (eapply incl_tran; eassumption).
      assert (Ht : forall hd, h = Some hd -> rd_type r1 <> CT_EOF).
      { intros hd ->. apply next_file_cases in Hn.
        destruct Hn as [(_ & X & _)|(_ & br1 & linked & _ & Hn)]; [discriminate|].
        destruct Hn as [(top & rest & _ & _ & ->)|[(hc & _ & _ & ->)|[(_ & _ & l & lrest & _ & _ & ->)|(_ & _ & _ & X & _)]]];
          try discriminate. }
      destruct h as [hd|]; [destruct (matches_filter flt hd)|]; injection H as <-; cbn [fst snd].
      + split; [exact Hi'|exact Ht].
      + exact Hi'.
      + split; [exact Hi'|discriminate].
    - apply incl_refl.
  Qed.

  (* lha_reader_extract puts nothing but the current dangerous link on the deferred list *)
  Lemma reader_extract_deferred r f filename monitor ok ev r' f' :
    lha_reader_extract junk r f filename monitor = Ok (ok, ev, r', f') ->
    rd_type r' = rd_type r /\ rd_curr r' = rd_curr r /\
    (rd_deferred r' = rd_deferred r \/
     exists h, rd_curr r = Some h /\ is_dangerous_symlink h = true /\
               rd_deferred r' = insert_deferred (rd_deferred r) h).
  Proof.
    unfold lha_reader_extract. intros H.
    assert (Triv : r' = r -> rd_type r' = rd_type r /\ rd_curr r' = rd_curr r /\
                   (rd_deferred r' = rd_deferred r \/
                    exists h, rd_curr r = Some h /\ is_dangerous_symlink h = true /\
                              rd_deferred r' = insert_deferred (rd_deferred r) h))
      by (intros ->; split; [reflexivity|split; [reflexivity|left; reflexivity]]).
    destruct (rd_type r) eqn:Et; try (injection H as _ _ <- _; apply Triv; reflexivity).
    - destruct (rd_curr r) as [h|] eqn:Ec; [|discriminate].
      destruct (negb (is_dir_method h)).
      + apply extract_file_order in H. destruct H as [(A & B & C & D & E) _].
        split; [congruence|]. split; [congruence|left; exact D].
      + destruct (h_symlink_target h) eqn:Etg.
        * apply bind_ok in H. destruct H as ([[ok1 r1] f1] & Hx & H). cbv beta iota in H. injection H as _ _ <- _.
          unfold extract_symlink in Hx. rewrite Ec, Et in Hx. cbn [andb] in Hx.
          destruct (is_dangerous_symlink h) eqn:Ed.
          -- unfold extract_placeholder_symlink in Hx.
             destruct (arch_fopen f _ (Some 384)) as [[hd|] f2].
             ++ rewrite Ec in Hx. apply bind_ok in Hx. destruct Hx as (r2 & Hl & Hx). injection Hx as _ <- _.
                apply link_curr_pos in Hl. destruct Hl as (A & B & C & D & E & F).
                split; [congruence|]. split; [congruence|]. right. exists h. split; [reflexivity|]. split; [exact Ed|exact D].
             ++ injection Hx as _ <- _. split; [exact Et|]. split; [exact Ec|left; reflexivity].
          -- rewrite Etg in Hx. destruct (arch_symlink f _ l) as [oks f2]. injection Hx as _ <- _.
             split; [exact Et|]. split; [exact Ec|left; reflexivity].
        * apply bind_ok in H. destruct H as ([[ok1 r1] f1] & Hx & H). cbv beta iota in H. injection H as _ _ <- _.
          apply extract_directory_order in Hx. destruct Hx as (A & B & C & _).
          split; [congruence|]. split; [congruence|left; exact C].
    - destruct (rd_curr r) as [h|]; [|injection H as _ _ <- _; apply Triv; reflexivity].
      destruct (match filename with Some n => Some n | None => h_path h end) as [p|]; [|discriminate].
      destruct (set_directory_metadata f h p) as [b f1]. injection H as _ _ <- _. apply Triv. reflexivity.
    - destruct (rd_curr r) as [h|] eqn:Ec; [|injection H as _ _ <- _; apply Triv; reflexivity].
      apply bind_ok in H. destruct H as ([[ok1 r1] f1] & Hx & H). cbv beta iota in H. injection H as _ _ <- _.
      apply extract_symlink_order in Hx. destruct Hx as (A & B & _ & C).
      destruct C as [-> _]; [congruence|]. apply Triv. reflexivity.
  Qed.
End Deferred.

(* ------------------------------------------------------------------ *)
(* 3. the invariant of the whole run                                    *)

Section Late.
  Variable mktime : N -> N -> N -> N -> Z -> N -> N.
  Variable junk : N.
  Variable R : phys.
  Variable o0 : lha_options.
  Hypothesis Hw : good_w o0.
  Variable Mem : header -> Prop.                (* the members of the archive *)
  Variable Init : phys -> list N -> Prop.       (* what is known of the links that were there before *)

  Notation names := (names o0).
  Notation rinv := (rinv names).
  Notation opts_same := (opts_same o0).
  Notation pcomps := (pcomps o0).
  Notation creatable := (creatable o0).

  Definition is_link (h : header) : Prop := exists t, h_symlink_target h = Some t.
  Definition safe_link (h : header) : Prop := exists t, h_symlink_target h = Some t /\ dangerous_target t = false.

  (* no link member is extracted through a safe link member *)
  Definition no_link_through_safe : Prop :=
    forall L M, Mem L -> Mem M -> safe_link L -> is_link M -> ~ proper_prefix (pcomps L) (pcomps M).
  Hypothesis NP : no_link_through_safe.

  (* a place that no link member is extracted through *)
  Definition off_the_way (suf : phys) : Prop :=
    forall M, Mem M -> is_link M -> ~ proper_prefix suf (pcomps M).

  (* a safe link below R: it stands at a place no link member is extracted through, and it was
     there before or is the link of a member at that member's own path *)
  Definition safe_here (suf : phys) (t : list N) : Prop :=
    dangerous_target t = false /\ off_the_way suf /\
    (Init suf t \/ exists L, Mem L /\ h_symlink_target L = Some t /\ pcomps L = suf).

  (* the links below R, main phase *)
  Definition Qsafe (loc : phys) (t : list N) : Prop := forall suf, loc = R ++ suf -> safe_here suf t.
  (* final phase: also deferred links already made; none of the pending ones has a longer key *)
  Definition Qall (pend : list header) (loc : phys) (t : list N) : Prop :=
    forall suf, loc = R ++ suf ->
      safe_here suf t \/
      (exists A, Mem A /\ hdr_c11 A /\ creatable A /\ h_symlink_target A = Some t /\ pcomps A = suf /\
                 forall B, In B pend -> plen B <= plen A).

  Lemma Qsafe_all pend loc t : Qsafe loc t -> Qall pend loc t.
  Proof. intros H suf E. left. apply H. exact E. Qed.

  Lemma Qall_incl pend pend' loc t : incl pend' pend -> Qall pend loc t -> Qall pend' loc t.
  Proof.
    intros Hi H suf E. destruct (H suf E) as [X|(A & A1 & A2 & A3 & A4 & A5 & A6)]; [left; exact X|].
    right. exists A. repeat (split; [assumption|]). intros B HB. apply A6. apply Hi. exact HB.
  Qed.

  (* ---- no link stands on the way of a link member ---- *)
  Definition clear_way (root : node) (M : header) : Prop :=
    forall suf t, proper_prefix suf (pcomps M) -> node_at root (R ++ suf) <> Some (Link t).

  Lemma clear_way_safe root M : gtree Qsafe root -> Mem M -> is_link M -> clear_way root M.
  Proof.
    intros Hg Hm Hl suf t Hp E. apply (gtree_node_at _ _ _ _ Hg) in E.
    destruct (E suf eq_refl) as (_ & Hoff & _). exact (Hoff M Hm Hl Hp).
  Qed.

  Lemma clear_way_all pend root M : gtree (Qall pend) root -> Mem M -> is_link M -> hdr_c11 M -> In M pend ->
    clear_way root M.
  Proof.
    intros Hg Hm Hl Hc Hin suf t Hp E. apply (gtree_node_at _ _ _ _ Hg) in E.
    destruct (E suf eq_refl) as [(_ & Hoff & _)|(A & A1 & A2 & A3 & A4 & A5 & A6)].
    - exact (Hoff M Hm Hl Hp).
    - specialize (A6 M Hin). rewrite <- A5 in Hp.
      pose proof (prefix_is_shorter o0 A M A2 Hc A3 Hp). lia.
  Qed.

  Lemma way_self root M : clear_way root M -> nolink_before root R (split_path (names M)).
  Proof. intros H suf t Hp. apply H. exact Hp. Qed.

  Lemma way_prefix root M a b : clear_way root M -> names M = a ++ 47 :: b -> nolink_before root R (split_path a).
  Proof.
    intros H E suf t Hp. apply H. unfold P_CliPathLen.pcomps, pnames. change (file_full_path M o0) with (names M).
    rewrite E, split_path_app_slash, ploc_app. apply proper_prefix_more. exact Hp.
  Qed.

  (* ---- make_parent_directories for a link member ---- *)
  Lemma check_parent_directory_late path st :
    fs_cwd (cs_fs st) = R -> is_absolute path = false -> Forall nodd (removelast (split_path path)) ->
    nolink_before (fs_root (cs_fs st)) R (split_path path) ->
    kinds (below_op R) (cs_fs st) (cs_fs (snd (check_parent_directory path st))).
  Proof.
    intros Hc Ha Hn Hl. unfold check_parent_directory.
    destruct (arch_exists (cs_fs st) path); cbn [snd]; try apply kinds_refl.
    pose proof (fs_mkdir_phys (cs_fs st) path 493 Ha Hn) as K. rewrite Hc in K. specialize (K Hl).
    unfold arch_mkdir. destruct (fs_mkdir (cs_fs st) path 493) as [ok f1]. cbn [snd] in K.
    destruct (negb ok); exact K.
  Qed.

  Lemma mpd_loop_late (Q : phys -> list N -> Prop) full :
    (forall a b, full = a ++ 47 :: b ->
       is_absolute a = false /\ Forall nodd (removelast (split_path a)) /\
       forall root, gtree Q root -> nolink_before root R (split_path a)) ->
    forall rest pre st, rev pre ++ rest = full -> fs_cwd (cs_fs st) = R -> gtree Q (fs_root (cs_fs st)) ->
    kinds (below_op R) (cs_fs st) (cs_fs (snd (mpd_loop pre rest st))).
  Proof.
    intros Hfull. induction rest as [|c r IH]; intros pre st E Hc Hg; cbn [mpd_loop].
    - cbn [snd]. apply kinds_refl.
    - destruct (N.eqb_spec c 47) as [->|Hne].
      + destruct (Hfull _ _ (eq_sym E)) as (Ha & Hn & Hl).
        pose proof (check_parent_directory_late (rev pre) st Hc Ha Hn (Hl _ Hg)) as K1.
        pose proof (check_parent_directory_keeps (rev pre) st) as ([C1 G1] & _).
        destruct (check_parent_directory (rev pre) st) as [ok st1]. cbn [snd] in K1, C1, G1.
        destruct (negb ok); cbn [snd]; [exact K1|].
        eapply kinds_trans; [exact K1|]. apply IH.
        * cbn [rev]. rewrite <- app_assoc. exact E.
        * congruence.
        * apply G1. exact Hg.
      + apply IH; [|exact Hc|exact Hg]. cbn [rev]. rewrite <- app_assoc. exact E.
  Qed.

  Lemma make_parent_directories_late (Q : phys -> list N -> Prop) M st :
    hdr_c11 M -> fs_cwd (cs_fs st) = R -> gtree Q (fs_root (cs_fs st)) ->
    (forall root, gtree Q root -> clear_way root M) ->
    kinds (below_op R) (cs_fs st) (cs_fs (snd (make_parent_directories (names M) st))).
  Proof.
    intros Hc11 Hc Hg Hway.
    assert (Hs : good_str (names M)) by (apply file_full_path_good; assumption).
    unfold make_parent_directories. rewrite (leading_slashes_rel _ (good_str_strip_rel _ Hs)).
    apply (mpd_loop_late Q (strip_trailing_slashes (names M))); [|reflexivity|exact Hc|exact Hg].
    intros a b E. destruct a as [|a0 a'].
    - split; [reflexivity|]. split; [constructor|]. intros root _ suf t (x & y & X). destruct suf; discriminate.
    - destruct (strict_rel _ (parent_prefix_strict _ _ _ Hs E ltac:(discriminate))) as [A B].
      split; [exact A|]. split; [exact B|]. intros root Hr.
      destruct (strip_trailing_decomp (names M)) as [y Hy]. rewrite E in Hy.
      apply (way_prefix root M (a0 :: a') (b ++ y)); [apply Hway; exact Hr|].
      rewrite Hy at 1. rewrite <- app_assoc. reflexivity.
  Qed.

  (* ---- lha_reader_extract ---- *)
  Lemma symlink_at_member (Q : phys -> list N -> Prop) M f t :
    hdr_c11 M -> fs_cwd f = R -> gtree Q (fs_root f) -> (forall root, gtree Q root -> clear_way root M) ->
    (creatable M -> Q (R ++ pcomps M) t) ->
    kinds (below_op R) f (snd (arch_symlink f (names M) t)) /\
    gtree Q (fs_root (snd (arch_symlink f (names M) t))) /\ fs_cwd (snd (arch_symlink f (names M) t)) = R.
  Proof.
    intros Hc11 Hc Hg Hway Hq. destruct (names_rel o0 Hw M Hc11) as [Ha Hn].
    apply (arch_symlink_links Q R f (names M) t Hc Ha Hn Hg).
    - intros root Hr. apply way_self. apply Hway. exact Hr.
    - intros X Y Z. apply Hq. split; [exact X|split; [exact Y|exact Z]].
  Qed.

  (* the final phase: the current deferred link M, longest of those pending *)
  Lemma deferred_extract_late pend r f M monitor ok ev r' f' :
    lha_reader_extract junk r f (Some (names M)) monitor = Ok (ok, ev, r', f') ->
    rd_type r = CT_DEFERRED_SYMLINK -> rd_curr r = Some M -> Mem M -> hdr_c11 M ->
    fs_cwd f = R -> gtree (Qall pend) (fs_root f) -> In M pend -> (forall B, In B pend -> plen B <= plen M) ->
    r' = r /\ kinds (below_op R) f f' /\ gtree (Qall pend) (fs_root f') /\ fs_cwd f' = R.
  Proof.
    unfold lha_reader_extract. intros H Et Ec Hm Hc11 Hc Hg Hin Hmax. rewrite Et, Ec in H.
    apply bind_ok in H. destruct H as ([[ok1 r1] f1] & Hx & H). cbv beta iota in H. injection H as _ _ <- <-.
    unfold extract_symlink in Hx. rewrite Ec, Et in Hx. cbn [andb] in Hx.
    destruct (h_symlink_target M) as [t|] eqn:Etg; [|discriminate].
    destruct (symlink_at_member (Qall pend) M f t Hc11 Hc Hg) as (K & G & C).
    - intros root Hr. apply (clear_way_all pend); try assumption. exists t. exact Etg.
    - intros Hcr suf E. apply app_inv_head in E. subst suf. right. exists M.
      repeat (split; [assumption|]). split; [reflexivity|exact Hmax].
    - destruct (arch_symlink f (names M) t) as [oks f2]. cbn [snd] in K, G, C. injection Hx as _ <- <-.
      split; [reflexivity|]. split; [exact K|]. split; assumption.
  Qed.

  (* the main phase: no new link, except the safe link of the current member at its own path *)
  Lemma reader_extract_main r f M monitor ok ev r' f' :
    lha_reader_extract junk r f (Some (names M)) monitor = Ok (ok, ev, r', f') ->
    phase1 r -> rd_curr r = Some M -> Mem M -> hdr_c11 M ->
    fs_cwd f = R -> gtree Qsafe (fs_root f) -> gtree Qsafe (fs_root f') /\ fs_cwd f' = R.
  Proof.
    unfold lha_reader_extract. intros H Hp Ec Hm Hc11 Hc Hg. rewrite Ec in H.
    assert (Keep : keeps f f' -> gtree Qsafe (fs_root f') /\ fs_cwd f' = R).
    { intros [A B]. split; [apply B; exact Hg|congruence]. }
    destruct (rd_type r) eqn:Et.
    - injection H as _ _ _ <-. apply Keep, keeps_refl.
    - destruct (negb (is_dir_method M)).
      + apply extract_file_keeps in H. apply Keep. exact H.
      + destruct (h_symlink_target M) as [t|] eqn:Etg.
        * apply bind_ok in H. destruct H as ([[ok1 r1] f1] & Hx & H). cbv beta iota in H. injection H as _ _ _ <-.
          unfold extract_symlink in Hx. rewrite Ec, Et in Hx. cbn [andb] in Hx.
          destruct (is_dangerous_symlink M) eqn:Ed.
          -- apply extract_placeholder_keeps in Hx. apply Keep. exact Hx.
          -- rewrite Etg in Hx. rewrite (is_dangerous_target M t Etg) in Ed.
             destruct (symlink_at_member Qsafe M f t Hc11 Hc Hg) as (K & G & C).
             ++ intros root Hr. apply clear_way_safe; try assumption. exists t. exact Etg.
             ++ intros _ suf E. apply app_inv_head in E. subst suf. split; [exact Ed|]. split.
                ** intros M' HM' HL' Hp'. apply (NP M M' Hm HM'); [exists t; split; assumption|exact HL'|exact Hp'].
                ** right. exists M. split; [exact Hm|]. split; [exact Etg|reflexivity].
             ++ destruct (arch_symlink f (names M) t) as [oks f2]. cbn [snd] in G, C. injection Hx as _ _ <-.
                split; assumption.
        * apply bind_ok in H. destruct H as ([[ok1 r1] f1] & Hx & H). cbv beta iota in H. injection H as _ _ _ <-.
          apply extract_directory_keeps in Hx. apply Keep. exact Hx.
    - pose proof (set_directory_metadata_keeps f M (names M)) as K.
      destruct (set_directory_metadata f M (names M)) as [b f1]. cbn [snd] in K.
      injection H as _ _ _ <-. apply Keep. exact K.
    - destruct Hp as [X|[X|X]]; congruence.
    - destruct Hp as [X|[X|X]]; congruence.
  Qed.

  (* ---- the pending links are link members ---- *)
  Definition pinv (r : reader) : Prop := Forall (fun h => Mem h /\ is_link h) (pending r).

  Lemma pending_phase1 r : phase1 r -> pending r = rd_deferred r.
  Proof. intros [X|[X|X]]; unfold pending; rewrite X; reflexivity. Qed.

  Lemma reader_extract_pinv r f M fn monitor ok ev r' f' :
    lha_reader_extract junk r f fn monitor = Ok (ok, ev, r', f') ->
    phase1 r -> rd_curr r = Some M -> Mem M -> pinv r -> pinv r'.
  Proof.
    intros H Hp Ec Hm Hi. apply reader_extract_deferred in H. destruct H as (Et & _ & Hd).
    assert (Hp' : phase1 r') by (unfold phase1 in *; rewrite Et; exact Hp).
    unfold pinv in *. rewrite (pending_phase1 r' Hp'). rewrite (pending_phase1 r Hp) in Hi.
    destruct Hd as [->|(h & Eh & Ed & ->)]; [exact Hi|].
    apply insert_deferred_forall; [exact Hi|]. rewrite Ec in Eh. injection Eh as <-.
    split; [exact Hm|]. unfold is_dangerous_symlink in Ed. destruct (h_symlink_target M) as [t|] eqn:Etg; [|discriminate].
    exists t. exact Etg.
  Qed.

  (* ---- extract_archived_file, main phase ---- *)
  Lemma eaf_main f0 h st v st' :
    extract_archived_file junk h st = Ok (v, st') -> rd_curr (cs_reader st) = Some h ->
    Dinv R o0 f0 st -> Mem h -> pinv (cs_reader st) -> gtree Qsafe (fs_root (cs_fs st)) ->
    pinv (cs_reader st') /\ gtree Qsafe (fs_root (cs_fs st')).
  Proof.
    rewrite extract_archived_file_unfold. cbv zeta. intros H Ec Hi Hm Hp Hg.
    assert (En : file_full_path h (cs_opts st) = names h) by (apply ffp_same; apply Hi).
    rewrite En in H.
    assert (Same : forall s s', cli_same s s' -> pinv (cs_reader s) /\ gtree Qsafe (fs_root (cs_fs s)) ->
                   pinv (cs_reader s') /\ gtree Qsafe (fs_root (cs_fs s'))).
    { intros s s' (A & B & _) [X Y]. split; [unfold pinv; rewrite (pending_req _ _ B); exact X|rewrite A; exact Y]. }
    apply cbind_ok in H. destruct H as [(c & H & _)|(skip & st1 & Hs & H)].
    { apply skip_block_same in H. eapply Same; eauto. }
    apply skip_block_same in Hs.
    assert (Ec1 : rd_curr (cs_reader st1) = Some h) by (destruct Hs as (_ & (_ & B & _) & _); congruence).
    pose proof (Dinv_same R o0 f0 _ _ Hs Hi) as Hi1.
    destruct (Same _ _ Hs (conj Hp Hg)) as [Hp1 Hg1]. clear Hs.
    destruct skip.
    { injection H as _ <-. destruct (is_skip _); split; assumption. }
    destruct (negb (o_use_path (cs_opts st1)) && _); [injection H as _ <-; split; assumption|].
    destruct Hi1 as (I1 & I2 & I3 & I4 & I5 & I6).
    assert (Hc11 : hdr_c11 h) by (apply (ri_curr _ _ I3); exact Ec1).
    assert (Hg' : good_str (names h)) by (apply file_full_path_good; assumption).
    pose proof (make_parent_directories_conf R (names h) st1 Hg' I4) as Km.
    pose proof (make_parent_directories_keeps (names h) st1) as Kk.
    destruct (make_parent_directories (names h) st1) as [okp st2]. cbn [snd] in Km, Kk.
    destruct Km as (O2 & _ & Er & Eo). destruct Kk as ([C2 G2] & _ & _).
    assert (Hg2 : gtree Qsafe (fs_root (cs_fs st2))) by (apply G2; exact Hg1).
    assert (Hp2 : pinv (cs_reader st2)) by (rewrite Er; exact Hp1).
    destruct (negb okp); [injection H as _ <-; split; assumption|].
    apply bind_ok in H. destruct H as ([[[success evs] r'] f'] & Hx & H). cbv beta iota in H.
    rewrite <- Er in I2, Ec1.
    pose proof (reader_extract_pinv _ _ _ _ _ _ _ _ _ Hx I2 Ec1 Hm Hp2) as Hp3.
    apply reader_extract_main in Hx; try assumption; [|apply O2].
    destruct Hx as [Hg3 _].
    injection H as _ <-.
    match goal with |- pinv (cs_reader (if ?c then _ else _)) /\ _ => destruct c end; [|split; assumption].
    destruct (invoked evs); [split; assumption|]. destruct (h_symlink_target h); split; assumption.
  Qed.

  (* ---- extract_archived_file, final phase: the deferred link h, longest of those pending ---- *)
  Lemma eaf_late pend h st v st' :
    extract_archived_file junk h st = Ok (v, st') ->
    rd_curr (cs_reader st) = Some h -> rd_type (cs_reader st) = CT_DEFERRED_SYMLINK ->
    opts_same (cs_opts st) -> Mem h -> hdr_c11 h -> is_link h ->
    fs_cwd (cs_fs st) = R -> gtree (Qall pend) (fs_root (cs_fs st)) -> In h pend ->
    (forall B, In B pend -> plen B <= plen h) ->
    kinds (below_op R) (cs_fs st) (cs_fs st') /\ gtree (Qall pend) (fs_root (cs_fs st')) /\
    fs_cwd (cs_fs st') = R /\ req (cs_reader st) (cs_reader st').
  Proof.
    rewrite extract_archived_file_unfold. cbv zeta. intros H Ec Et Ho Hm Hc11 Hl Hc Hg Hin Hmax.
    rewrite (ffp_same o0 h _ Ho) in H.
    assert (Same : forall s', cli_same st s' ->
                   kinds (below_op R) (cs_fs st) (cs_fs s') /\ gtree (Qall pend) (fs_root (cs_fs s')) /\
                   fs_cwd (cs_fs s') = R /\ req (cs_reader st) (cs_reader s')).
    { intros s' (A & B & _). rewrite A. split; [apply kinds_refl|]. split; [exact Hg|]. split; [exact Hc|exact B]. }
    apply cbind_ok in H. destruct H as [(c & H & _)|(skip & st1 & Hs & H)].
    { apply skip_block_same in H. apply Same. exact H. }
    apply skip_block_same in Hs.
    destruct skip.
    { injection H as _ <-. destruct (is_skip _); [|apply Same; exact Hs].
      apply Same. eapply cli_same_trans; [exact Hs|apply cli_same_put_out]. }
    destruct (negb (o_use_path (cs_opts st1)) && _); [injection H as _ <-; apply Same; exact Hs|].
    destruct (Same _ Hs) as (K1 & G1 & C1 & Q1). clear Hs.
    assert (Way : forall root, gtree (Qall pend) root -> clear_way root h)
      by (intros root Hr; apply (clear_way_all pend); assumption).
    pose proof (make_parent_directories_late (Qall pend) h st1 Hc11 C1 G1 Way) as Km.
    pose proof (make_parent_directories_keeps (names h) st1) as Kk.
    destruct (make_parent_directories (names h) st1) as [okp st2]. cbn [snd] in Km, Kk.
    destruct Kk as ([C2 G2] & Er & Eo).
    assert (K2 : kinds (below_op R) (cs_fs st) (cs_fs st2)) by (eapply kinds_trans; eassumption).
    pose proof (G2 _ G1) as G2'. assert (C2' : fs_cwd (cs_fs st2) = R) by congruence.
    assert (Q2 : req (cs_reader st) (cs_reader st2)) by (rewrite Er; exact Q1).
    destruct (negb okp); [injection H as _ <-; split; [exact K2|split; [exact G2'|split; [exact C2'|exact Q2]]]|].
    apply bind_ok in H. destruct H as ([[[success evs] r'] f'] & Hx & H). cbv beta iota in H.
    assert (Et2 : rd_type (cs_reader st2) = CT_DEFERRED_SYMLINK) by (destruct Q2 as (A & _); congruence).
    assert (Ec2 : rd_curr (cs_reader st2) = Some h) by (destruct Q2 as (_ & A & _); congruence).
    destruct (deferred_extract_late pend _ _ _ _ _ _ _ _ Hx Et2 Ec2 Hm Hc11 C2' G2' Hin Hmax) as (-> & K3 & G3 & C3).
    assert (K4 : kinds (below_op R) (cs_fs st) f') by (eapply kinds_trans; eassumption).
    injection H as _ <-.
    match goal with |- kinds _ _ (cs_fs (if ?c then _ else _)) /\ _ => destruct c end;
      [|split; [exact K4|split; [exact G3|split; [exact C3|exact Q2]]]].
    destruct (invoked evs); [split; [exact K4|split; [exact G3|split; [exact C3|exact Q2]]]|].
    destruct (h_symlink_target h); split; [exact K4|split; [exact G3|split; [exact C3|exact Q2]]|exact K4|split; [exact G3|split; [exact C3|exact Q2]]].
  Qed.

  (* ---- the invariant ---- *)
  Definition Winv (f0 : fs) (st : cli_state) : Prop :=
    reader_ok (cs_reader st) /\ opts_same (cs_opts st) /\ rinv (cs_reader st) /\ pinv (cs_reader st) /\
    fs_cwd (cs_fs st) = R /\ kinds (below_op R) f0 (cs_fs st) /\
    ((phase1 (cs_reader st) /\ fs_ok R (cs_fs st) /\ gtree Qsafe (fs_root (cs_fs st))) \/
     (phase2 (cs_reader st) /\ gtree (Qall (pending (cs_reader st))) (fs_root (cs_fs st)))).

  Lemma extract_archive_step_whole f0 flt result st x :
    extract_archive_step mktime junk flt (result, st) = Ok x -> Winv f0 st ->
    (forall hd st1, next_header mktime flt st = Ok (Some hd, st1) -> Mem hd) ->
    match x with inl s' => Winv f0 (snd s') | inr r => Winv f0 (snd r) end.
  Proof.
    unfold extract_archive_step. intros H (Hr & Ho & Hri & Hpi & Hc & Hk & Hph) Hcov.
    apply bind_ok in H. destruct H as ([h st1] & Hn & H). cbv beta iota in H.
    pose proof Hn as Hn0.
    apply (next_header_inv mktime) in Hn. destruct Hn as (r1 & Hf & ->).
    destruct (filter_next_file_all mktime o0 flt _ _ _ Hf Hr Hri) as (Hr1 & Hri1 & Hcur).
    destruct (filter_next_file_pending mktime flt _ _ _ Hf) as [Hincl Hne].
    destruct (filter_next_file_ok mktime flt _ _ _ Hf Hr) as [_ Hp2].
    assert (Hpi1 : pinv r1) by (unfold pinv in *; eapply incl_Forall; eassumption).
    assert (Hph1 : (phase1 r1 /\ fs_ok R (cs_fs st) /\ gtree Qsafe (fs_root (cs_fs st))) \/
                   (phase2 r1 /\ gtree (Qall (pending r1)) (fs_root (cs_fs st)))).
    { destruct Hph as [(P1 & O & G)|(P2 & G)].
      - destruct Hr1 as [[Q|Q] _]; [left; split; [exact Q|split; assumption]|].
        right. split; [exact Q|]. eapply gtree_weaken; [|exact G]. intros loc t. apply Qsafe_all.
      - right. split; [apply Hp2; exact P2|]. eapply gtree_weaken; [|exact G].
        intros loc t. apply Qall_incl. exact Hincl. }
    assert (W1 : Winv f0 (set_reader st r1)).
    { unfold Winv. cbn [cs_reader cs_fs cs_opts set_reader]. repeat (split; [assumption|]). exact Hph1. }
    destruct h as [hd|]; [|injection H as <-; exact W1].
    specialize (Hcov hd _ Hn0). specialize (Hcur hd eq_refl). specialize (Hne hd eq_refl).
    apply bind_ok in H. destruct H as ([r st2] & Hx & H).
    assert (G : Winv f0 st2).
    { destruct Hph1 as [(P1 & O & G)|(P2 & G)].
      - (* main phase *)
        assert (HD : Dinv R o0 f0 (set_reader st r1)).
        { unfold Dinv. cbn [cs_reader cs_fs cs_opts set_reader]. repeat (split; [assumption|]). exact Ho. }
        pose proof (extract_archived_file_conf junk R o0 Hw f0 _ _ _ _ Hx Hcur HD) as (D1 & D2 & D3 & D4 & D5 & D6).
        destruct (eaf_main f0 _ _ _ _ Hx Hcur HD Hcov Hpi1 G) as [Hpi2 G2].
        unfold Winv. repeat (split; [assumption|]). split; [apply D4|]. split; [exact D5|].
        left. split; [exact D2|]. split; assumption.
      - (* final phase *)
        assert (Et : rd_type r1 = CT_DEFERRED_SYMLINK) by (destruct P2 as ([X|X] & _); congruence).
        assert (Epend : pending r1 = hd :: rd_deferred r1) by (unfold pending; rewrite Et, Hcur; reflexivity).
        assert (Hlk : is_link hd).
        { unfold pinv in Hpi1. rewrite Epend in Hpi1. apply Forall_inv in Hpi1. apply Hpi1. }
        assert (Hc11 : hdr_c11 hd) by (apply (ri_curr _ _ Hri1); exact Hcur).
        assert (Hmax : forall B, In B (pending r1) -> plen B <= plen hd).
        { destruct Hr1 as [_ Hs]. rewrite Epend in *. apply longest_first_head. exact Hs. }
        assert (Hin : In hd (pending r1)) by (rewrite Epend; left; reflexivity).
        destruct (eaf_late (pending r1) hd (set_reader st r1) r st2 Hx Hcur Et Ho Hcov Hc11 Hlk Hc G Hin Hmax)
          as (K & G2 & C2 & Q2).
        cbn [cs_reader cs_fs set_reader] in K, Q2.
        unfold Winv. split; [eapply req_reader_ok; eauto|].
        split; [eapply extract_archived_file_opts; eauto|].
        split; [eapply rinv_req; eauto|].
        split; [unfold pinv; rewrite (pending_req _ _ Q2); exact Hpi1|].
        split; [exact C2|]. split; [eapply kinds_trans; eassumption|].
        right. split; [eapply req_phase2; eauto|]. rewrite (pending_req _ _ Q2). exact G2. }
    destruct r; injection H as <-; exact G.
  Qed.
End Late.

(* ------------------------------------------------------------------ *)
(* 4. the theorems                                                      *)

(* no symbolic link below R (entries shadowed by an entry of the same name included) *)
Definition no_links_below (R : phys) (root : node) : Prop := gtree (fun loc _ => ~ below R loc) root.

Section Whole.
  Variable mktime : N -> N -> N -> N -> Z -> N -> N.
  Variable junk : N.
  Variable R : phys.
  Variable o0 : lha_options.
  Hypothesis Hw : good_w o0.

  (* the headers the extraction loop gets from lha_filter_next_file, i.e. the members it extracts *)
  Definition presents (flt : lha_filter) (st0 : cli_state) (hd : header) : Prop :=
    exists n b st st1, iters (extract_archive_step mktime junk flt) n (true, st0) (b, st) /\
                       next_header mktime flt st = Ok (Some hd, st1).

  (* every link below R is the link of a member, at that member's own path *)
  Definition links_are_members (Mem : header -> Prop) (root : node) : Prop :=
    forall suf t, node_at root (R ++ suf) = Some (Link t) ->
      exists L, Mem L /\ h_symlink_target L = Some t /\ pcomps o0 L = suf.

  (* every link below R was there before (Init) or is the link of a member at that member's own path *)
  Definition links_accounted (Mem : header -> Prop) (Init : phys -> list N -> Prop) (root : node) : Prop :=
    forall suf t, node_at root (R ++ suf) = Some (Link t) ->
      Init suf t \/ exists L, Mem L /\ h_symlink_target L = Some t /\ pcomps o0 L = suf.

  (* the links below R to begin with: safe, and no link member is extracted through one of them *)
  Definition initial_links_ok (Mem : header -> Prop) (root : node) : Prop :=
    gtree (fun loc t => forall suf, loc = R ++ suf ->
             dangerous_target t = false /\
             forall M, Mem M -> is_link M -> ~ proper_prefix suf (pcomps o0 M)) root.

  Lemma Qsafe_fs_ok (Mem : header -> Prop) Init s : fs_cwd s = R -> gtree (Qsafe R o0 Mem Init) (fs_root s) -> fs_ok R s.
  Proof.
    intros Hc Hg. split; [exact Hc|]. eapply gtree_safe_at; [|exact Hg].
    intros loc t [suf ->] X. destruct (X suf eq_refl) as (D & _). apply safe_target_not_dangerous. exact D.
  Qed.

  Lemma no_links_Qsafe (Mem : header -> Prop) Init root : no_links_below R root -> gtree (Qsafe R o0 Mem Init) root.
  Proof.
    apply gtree_weaken. intros loc t Hn suf ->. exfalso. apply Hn. exists suf. reflexivity.
  Qed.

  (* WHOLE-RUN CONFINEMENT, general form.  [Init]: anything known of the links below R that were
     there before the run. *)
  Theorem extract_confined_whole_gen (Mem : header -> Prop) (Init : phys -> list N -> Prop) flt st0 strm v st :
    fs_cwd (cs_fs st0) = R -> gtree (Qsafe R o0 Mem Init) (fs_root (cs_fs st0)) ->
    cs_opts st0 = o0 -> cs_reader st0 = lha_reader_new strm ->
    (forall hd, presents flt st0 hd -> Mem hd) -> no_link_through_safe o0 Mem ->
    extract_archive mktime junk flt st0 = Ok (v, st) ->
    kinds (below_op R) (cs_fs st0) (cs_fs st) /\ fs_cwd (cs_fs st) = R /\
    gtree (Qall R o0 Mem Init (pending (cs_reader st))) (fs_root (cs_fs st)).
  Proof.
    intros Hc0 Hg Ho Er Hcov NP. pose proof (Qsafe_fs_ok Mem Init _ Hc0 Hg) as Hok.
    unfold extract_archive. destruct (o_dry_run (cs_opts st0)).
    - intros H. apply extract_archive_dry_run_fs in H. rewrite H. split; [apply kinds_refl|]. split; [exact Hc0|].
      eapply gtree_weaken; [|exact Hg]. intros loc t. apply Qsafe_all.
    - intros H.
      apply (loop_inv (extract_archive_step mktime junk flt)
               (fun s => (exists n, iters (extract_archive_step mktime junk flt) n (true, st0) s) /\
                         Winv R o0 Mem Init (cs_fs st0) (snd s))
               (fun r => Winv R o0 Mem Init (cs_fs st0) (snd r))) in H.
      + cbn [snd] in H. destruct H as (_ & _ & _ & _ & C & K & Hph). split; [exact K|]. split; [exact C|].
        destruct Hph as [(P1 & _ & G)|(_ & G)]; [|exact G].
        eapply gtree_weaken; [|exact G]. intros loc t. apply Qsafe_all.
      + intros [result sa] x [(n & Hit) Hi] Hx. cbn [snd] in Hi.
        pose proof (extract_archive_step_whole mktime junk R o0 Hw Mem Init NP (cs_fs st0) flt result sa x Hx Hi) as G.
        assert (Hc : forall hd st1, next_header mktime flt sa = Ok (Some hd, st1) -> Mem hd).
        { intros hd st1 Hn. apply Hcov. exists n, result, sa, st1. split; assumption. }
        specialize (G Hc). destruct x as [s'|r]; [|exact G]. split; [|exact G].
        exists (n + 1)%nat. eapply iters_app; [exact Hit|]. econstructor; [exact Hx|constructor].
      + cbn [snd]. split; [exists O; constructor|].
        destruct (reader_new_ok strm) as [A B]. unfold Winv. rewrite Er, Ho.
        split; [exact A|]. split; [split; reflexivity|]. split; [apply rinv_new|].
        split; [constructor|]. split; [exact Hc0|]. split; [apply kinds_refl|].
        left. split; [exact B|]. split; assumption.
  Qed.

  Lemma Qall_accounted (Mem : header -> Prop) Init pend root :
    gtree (Qall R o0 Mem Init pend) root -> links_accounted Mem Init root.
  Proof.
    intros G suf t En. apply (gtree_node_at _ _ _ _ G) in En.
    destruct (En suf eq_refl) as [(_ & _ & [X|(L & L1 & L2 & L3)])|(A & A1 & _ & _ & A4 & A5 & _)].
    - left. exact X.
    - right. exists L. split; [exact L1|split; assumption].
    - right. exists A. split; [exact A1|split; assumption].
  Qed.

  (* WHOLE-RUN CONFINEMENT, safe links allowed in the initial tree and in the archive: no link
     member is extracted through a safe link, be it a member or there before *)
  Theorem extract_confined_whole_init (Mem : header -> Prop) flt st0 strm v st :
    fs_cwd (cs_fs st0) = R -> initial_links_ok Mem (fs_root (cs_fs st0)) ->
    cs_opts st0 = o0 -> cs_reader st0 = lha_reader_new strm ->
    (forall hd, presents flt st0 hd -> Mem hd) -> no_link_through_safe o0 Mem ->
    extract_archive mktime junk flt st0 = Ok (v, st) ->
    exists new, fs_trace (cs_fs st) = new ++ fs_trace (cs_fs st0) /\ forall o, In o new -> below_op R o.
  Proof.
    intros Hc Hn Ho Er Hcov NP H.
    assert (Hg : gtree (Qsafe R o0 Mem (fun _ _ => True)) (fs_root (cs_fs st0))).
    { eapply gtree_weaken; [|exact Hn]. intros loc t X suf E. destruct (X suf E) as [A B].
      split; [exact A|]. split; [exact B|left; exact I]. }
    destruct (extract_confined_whole_gen Mem (fun _ _ => True) flt st0 strm v st Hc Hg Ho Er Hcov NP H)
      as ((new & E & F) & _ & _).
    exists new. split; [exact E|]. rewrite Forall_forall in F. exact F.
  Qed.

  (* WHOLE-RUN CONFINEMENT, no link below R to begin with *)
  Theorem extract_confined_whole (Mem : header -> Prop) flt st0 strm v st :
    fs_cwd (cs_fs st0) = R -> no_links_below R (fs_root (cs_fs st0)) ->
    cs_opts st0 = o0 -> cs_reader st0 = lha_reader_new strm ->
    (forall hd, presents flt st0 hd -> Mem hd) -> no_link_through_safe o0 Mem ->
    extract_archive mktime junk flt st0 = Ok (v, st) ->
    (exists new, fs_trace (cs_fs st) = new ++ fs_trace (cs_fs st0) /\ forall o, In o new -> below_op R o) /\
    links_are_members Mem (fs_root (cs_fs st)).
  Proof.
    intros Hc Hn Ho Er Hcov NP H.
    destruct (extract_confined_whole_gen Mem (fun _ _ => False) flt st0 strm v st Hc (no_links_Qsafe Mem _ _ Hn)
                Ho Er Hcov NP H) as ((new & E & F) & _ & G).
    split.
    - exists new. split; [exact E|]. rewrite Forall_forall in F. exact F.
    - intros suf t En. destruct (Qall_accounted _ _ _ _ G suf t En) as [[]|X]. exact X.
  Qed.

  (* RUNG 1: the archive presents no safe symbolic link (every link member is dangerous, hence
     deferred): every operation of the run, final phase included, is below R *)
  Theorem no_safe_links_confined flt st0 strm v st :
    fs_cwd (cs_fs st0) = R -> no_links_below R (fs_root (cs_fs st0)) ->
    cs_opts st0 = o0 -> cs_reader st0 = lha_reader_new strm ->
    (forall hd, presents flt st0 hd -> forall t, h_symlink_target hd = Some t -> dangerous_target t = true) ->
    extract_archive mktime junk flt st0 = Ok (v, st) ->
    (exists new, fs_trace (cs_fs st) = new ++ fs_trace (cs_fs st0) /\ forall o, In o new -> below_op R o) /\
    (forall suf t, node_at (fs_root (cs_fs st)) (R ++ suf) = Some (Link t) -> dangerous_target t = true).
  Proof.
    intros Hc Hn Ho Er Hcov H.
    destruct (extract_confined_whole (fun hd => forall t, h_symlink_target hd = Some t -> dangerous_target t = true)
                flt st0 strm v st Hc Hn Ho Er Hcov) as [A B]; [|exact H|].
    - intros L M HL _ (t & Et & Ed) _ _. rewrite (HL t Et) in Ed. discriminate.
    - split; [exact A|]. intros suf t En. destruct (B suf t En) as (L & L1 & L2 & _). apply L1. exact L2.
  Qed.

  (* ---- the hypothesis as a boolean on a list of members ---- *)
  (* a member: the path it is extracted under, its link target *)
  Definition minfo : Type := (list N * option (list N))%type.
  Definition msum (h : header) : minfo := (file_full_path h o0, h_symlink_target h).
  Definition m_is_link (m : minfo) : bool := match snd m with Some _ => true | None => false end.
  Definition m_is_safe (m : minfo) : bool := match snd m with Some t => negb (dangerous_target t) | None => false end.
  Definition m_is_deferred (m : minfo) : bool := match snd m with Some t => dangerous_target t | None => false end.
  Definition m_comps (m : minfo) : list name := ploc (split_path (fst m)).

  Fixpoint proper_prefixb (a b : list name) : bool :=
    match a, b with
    | [], _ :: _ => true
    | x :: a', y :: b' => name_eqb x y && proper_prefixb a' b'
    | _, _ => false
    end.
  Fixpoint prefixb (a b : list name) : bool :=
    match a, b with
    | [], _ => true
    | x :: a', y :: b' => name_eqb x y && prefixb a' b'
    | _ :: _, [] => false
    end.

  Lemma proper_prefixb_complete a : forall b, proper_prefix a b -> proper_prefixb a b = true.
  Proof.
    induction a as [|c a' IH]; intros b (x & y & ->); [reflexivity|].
    cbn [app proper_prefixb]. rewrite name_eqb_refl. apply IH. exists x, y. reflexivity.
  Qed.

  (* no link member's path has the path of a SAFE link member as a proper prefix *)
  Definition no_link_through_safe_b (ms : list minfo) : bool :=
    forallb (fun L => negb (m_is_safe L) ||
                      forallb (fun M => negb (m_is_link M) || negb (proper_prefixb (m_comps L) (m_comps M))) ms) ms.

  Lemma no_link_through_safe_of_b ms : no_link_through_safe_b ms = true ->
    no_link_through_safe o0 (fun h => In (msum h) ms).
  Proof.
    intros Hb L M HL HM (t & Et & Ed) (t' & Et') Hpp. unfold no_link_through_safe_b in Hb.
    rewrite forallb_forall in Hb. specialize (Hb _ HL).
    unfold m_is_safe, msum at 1 in Hb. cbn [snd] in Hb. rewrite Et, Ed in Hb. cbn [negb orb] in Hb.
    rewrite forallb_forall in Hb. specialize (Hb _ HM).
    unfold m_is_link, msum at 1 in Hb. cbn [snd] in Hb. rewrite Et' in Hb. cbn [negb orb] in Hb.
    apply Bool.negb_true_iff in Hb.
    rewrite (proper_prefixb_complete (m_comps (msum L)) (m_comps (msum M)) Hpp) in Hb. discriminate.
  Qed.

  (* RUNG 2: safe links may be present *)
  Theorem members_confined (ms : list minfo) flt st0 strm v st :
    fs_cwd (cs_fs st0) = R -> no_links_below R (fs_root (cs_fs st0)) ->
    cs_opts st0 = o0 -> cs_reader st0 = lha_reader_new strm ->
    (forall hd, presents flt st0 hd -> In (msum hd) ms) -> no_link_through_safe_b ms = true ->
    extract_archive mktime junk flt st0 = Ok (v, st) ->
    (exists new, fs_trace (cs_fs st) = new ++ fs_trace (cs_fs st0) /\ forall o, In o new -> below_op R o) /\
    links_are_members (fun h => In (msum h) ms) (fs_root (cs_fs st)).
  Proof.
    intros Hc Hn Ho Er Hcov Hb H.
    apply (extract_confined_whole (fun h => In (msum h) ms) flt st0 strm v st Hc Hn Ho Er Hcov); [|exact H].
    apply no_link_through_safe_of_b. exact Hb.
  Qed.

  (* the test suggested first -- "no safe link's target, resolved from the link's own directory,
     passes through or ends at the path of a deferred link" -- for comparison: it is NOT sufficient
     (target_test_refuted below) *)
  Definition no_link_through_deferred (ms : list minfo) : bool :=
    forallb (fun L => match snd L with
                      | Some t =>
                        if dangerous_target t then true
                        else forallb (fun D => negb (m_is_deferred D) ||
                                               negb (prefixb (m_comps D)
                                                       (ploc (removelast (split_path (fst L))) ++ ploc (split_path t)))) ms
                      | None => true
                      end) ms.

  (* ---- computing the presented headers of a concrete run ---- *)
  Fixpoint run_headers (flt : lha_filter) (fuel : nat) (s : bool * cli_state) : list header :=
    match fuel with
    | O => []
    | S k =>
      match next_header mktime flt (snd s) with
      | Ok (Some h, _) =>
        h :: match extract_archive_step mktime junk flt s with Ok (inl s') => run_headers flt k s' | _ => [] end
      | _ => []
      end
    end.
  Fixpoint run_ends (flt : lha_filter) (fuel : nat) (s : bool * cli_state) : bool :=
    match fuel with
    | O => false
    | S k => match extract_archive_step mktime junk flt s with Ok (inl s') => run_ends flt k s' | _ => true end
    end.

  Lemma run_headers_complete flt hd : forall fuel s, run_ends flt fuel s = true ->
    (exists n s' st1, iters (extract_archive_step mktime junk flt) n s s' /\
                      next_header mktime flt (snd s') = Ok (Some hd, st1)) ->
    In hd (run_headers flt fuel s).
  Proof.
    induction fuel as [|k IH]; intros s He (n & s' & st1 & Hit & Hn); [discriminate|].
    cbn [run_headers run_ends] in *. inversion Hit as [s0|m s0 s1 s2 E Hit']; subst.
    - rewrite Hn. left. reflexivity.
    - rewrite E in He. rewrite E.
      assert (Hh : exists h0 stx, next_header mktime flt (snd s) = Ok (Some h0, stx)).
      { revert E. destruct s as [result sa]. unfold extract_archive_step. cbn [snd]. intros E.
        apply bind_ok in E. destruct E as ([h0 stx] & En & E). cbv beta iota in E.
        destruct h0 as [h0|]; [exists h0, stx; exact En|discriminate]. }
      destruct Hh as (h0 & stx & Eh). rewrite Eh. right. apply IH; [exact He|].
      exists m, s', st1. split; assumption.
  Qed.

  Corollary presents_in_run_headers flt st0 fuel hd :
    run_ends flt fuel (true, st0) = true -> presents flt st0 hd -> In hd (run_headers flt fuel (true, st0)).
  Proof.
    intros He (n & b & st & st1 & Hit & Hn). apply run_headers_complete; [exact He|].
    exists n, (b, st), st1. split; assumption.
  Qed.
End Whole.

(* ------------------------------------------------------------------ *)
(* 5. the whole tool, from argv                                         *)

Section Main.
  Variable mktime : N -> N -> N -> N -> Z -> N -> N.
  Variable junk : N.
  Variable localtime : N -> tm.
  Variable now : N.
  Variable stdin_kind : skind.
  Variable strerror : bool -> list N.
  Variable R : phys.

  (* RUNG 3.  [Mem] must contain the members the run extracts, whatever stream the archive
     argument was opened as. *)
  Theorem lha_main_confined_whole (Mem : header -> Prop) argv stdin s r mode o file filters :
    lha_main mktime junk localtime now stdin_kind strerror argv stdin s = Ok r ->
    parse_main (tl argv) = Some (mode, o, file, filters) -> good_w o ->
    fs_cwd s = R -> no_links_below R (fs_root s) ->
    (forall st1 strm hd, cs_fs st1 = s -> cs_opts st1 = o -> cs_reader st1 = lha_reader_new strm ->
                         presents mktime junk (lha_filter_init filters) st1 hd -> Mem hd) ->
    no_link_through_safe o Mem ->
    (exists new, fs_trace (cr_fs r) = new ++ fs_trace s /\ forall op, In op new -> below_op R op) /\
    links_are_members R o Mem (fs_root (cr_fs r)).
  Proof.
    unfold lha_main. intros H Hp Hw Hc Hn Hcov NP. rewrite Hp in H.
    apply bind_ok in H. destruct H as ([v st] & Hd & H). cbv beta iota in H. injection H as <-. cbn [cr_fs].
    assert (Same : cs_fs st = s ->
                   (exists new, fs_trace (cs_fs st) = new ++ fs_trace s /\ forall op, In op new -> below_op R op) /\
                   links_are_members R o Mem (fs_root (cs_fs st))).
    { intros ->. split; [exists []; split; [reflexivity|intros op []]|].
      intros suf t En. exfalso. apply (gtree_node_at _ _ _ _ Hn) in En. apply En. exists suf. reflexivity. }
    destruct (read_only_command mode (cs_opts (start_state s stdin o))) eqn:Ero.
    { apply do_command_read_only in Hd; [|exact Ero]. apply Same. exact Hd. }
    destruct mode; try discriminate. cbn [read_only_command start_state cs_opts] in Ero.
    apply do_command_extract_start in Hd; [|exact Ero].
    destruct Hd as [[_ E]|(st1 & strm & E1 & E2 & E3 & Hl)]; [apply Same; exact E|].
    cbn [start_state cs_fs cs_opts] in E1, E2.
    assert (Hx : extract_archive mktime junk (lha_filter_init filters) st1 = Ok (v, st)).
    { unfold extract_archive. rewrite E2, Ero. exact Hl. }
    rewrite <- E1 in Hc, Hn.
    destruct (extract_confined_whole mktime junk R o Hw Mem (lha_filter_init filters) st1 strm v st Hc Hn E2 E3)
      as [A B]; [|exact NP|exact Hx|].
    - intros hd Hpr. eapply Hcov; eauto.
    - rewrite E1 in A. split; assumption.
  Qed.

  (* RUNG 3 for RUNG 1: no safe link is presented *)
  Corollary lha_main_no_safe_links_confined argv stdin s r mode o file filters :
    lha_main mktime junk localtime now stdin_kind strerror argv stdin s = Ok r ->
    parse_main (tl argv) = Some (mode, o, file, filters) -> good_w o ->
    fs_cwd s = R -> no_links_below R (fs_root s) ->
    (forall st1 strm hd, cs_fs st1 = s -> cs_opts st1 = o -> cs_reader st1 = lha_reader_new strm ->
                         presents mktime junk (lha_filter_init filters) st1 hd ->
                         forall t, h_symlink_target hd = Some t -> dangerous_target t = true) ->
    exists new, fs_trace (cr_fs r) = new ++ fs_trace s /\ forall op, In op new -> below_op R op.
  Proof.
    intros H Hp Hw Hc Hn Hcov.
    destruct (lha_main_confined_whole (fun hd => forall t, h_symlink_target hd = Some t -> dangerous_target t = true)
                argv stdin s r mode o file filters H Hp Hw Hc Hn Hcov) as [A _]; [|exact A].
    intros L M HL _ (t & Et & Ed) _ _. rewrite (HL t Et) in Ed. discriminate.
  Qed.
End Main.

(* the differential-test form *)
Corollary cli_run_confined_whole mktime localtime strerror uid0 now mtime argv archive stdin setup R (Mem : header -> Prop) r mode o file filters :
  cli_run mktime localtime strerror uid0 now mtime argv archive stdin setup = Ok r ->
  parse_main (tl argv) = Some (mode, o, file, filters) -> good_w o ->
  fs_cwd (cli_fs_init uid0 archive mtime setup) = R ->
  no_links_below R (fs_root (cli_fs_init uid0 archive mtime setup)) ->
  (forall st1 strm hd, cs_fs st1 = cli_fs_init uid0 archive mtime setup -> cs_opts st1 = o ->
                       cs_reader st1 = lha_reader_new strm ->
                       presents mktime 0 (lha_filter_init filters) st1 hd -> Mem hd) ->
  no_link_through_safe o Mem ->
  forall op, In op (fs_trace (cr_fs r)) -> below_op R op.
Proof.
  unfold cli_run. intros H Hp Hw Hc Hn Hcov NP.
  destruct (lha_main_confined_whole mktime 0 localtime now KPipe strerror R Mem argv stdin _ r mode o file filters
              H Hp Hw Hc Hn Hcov NP) as [(new & E & F) _].
  rewrite cli_fs_init_trace, app_nil_r in E. rewrite E. exact F.
Qed.

Print Assumptions extract_confined_whole_gen.
Print Assumptions extract_confined_whole.
Print Assumptions extract_confined_whole_init.
Print Assumptions no_safe_links_confined.
Print Assumptions members_confined.
Print Assumptions lha_main_confined_whole.
Print Assumptions lha_main_no_safe_links_confined.
Print Assumptions cli_run_confined_whole.

(* ------------------------------------------------------------------ *)
(* 6. examples and counterexamples (the model evaluated)                *)

(* `lha xf /arc/a.lzh` in the clean test tree (cwd = /root): the process as do_command starts
   the extraction loop *)
Definition ex_opts : lha_options :=
  match parse_main (tl mkdir_argv) with Some (_, o, _, _) => o | None => init_options end.
Definition ex_flt : lha_filter := lha_filter_init [].
Definition ex_state (archive : list N) (setup : list op) : cli_state :=
  {| cs_fs := cli_fs_init false archive 1200000000 setup;
     cs_reader := lha_reader_new (lha_input_stream_new (mk_source KFile archive));
     cs_opts := ex_opts; cs_stdin := []; cs_stdin_shared := false; cs_out := []; cs_err := [] |}.
Definition ex_members (archive : list N) (setup : list op) : list minfo :=
  map (msum ex_opts) (run_headers mktime_utc 0 ex_flt 40 (true, ex_state archive setup)).
Definition leaves_root (o : fsop) : bool := negb (inside_root o).

Lemma ex_good_w : good_w ex_opts.
Proof. exact I. Qed.

(* NON-VACUITY: directory d/, file d/f ("hi"), dangerous links d/x -> ../y, zz -> /outside and
   d/x -> /outside (the same path again).  The hypotheses of no_safe_links_confined hold; the
   run: exit 0, twenty operations, all below /root; in the final phase d/x -> /outside is made,
   then replaced -- at its final component, not followed -- by d/x -> ../y, then zz. *)
Definition late_archive : list N :=
  [36;0;45;108;104;100;45;0;0;0;0;0;0;0;0;0;133;226;1;32;2;0;0;85;5;0;2;100;255;5;0;80;237;65;0;0;
   40;0;45;108;104;48;45;2;0;0;0;2;0;0;0;133;226;1;32;32;2;239;238;85;4;0;1;102;5;0;2;100;255;5;0;80;164;129;0;0;104;105;
   45;0;45;108;104;100;45;0;0;0;0;0;0;0;0;0;133;226;1;32;2;0;0;85;4;0;1;121;10;0;2;100;255;120;124;46;46;255;5;0;80;255;161;0;0;
   48;0;45;108;104;100;45;0;0;0;0;0;0;0;0;0;133;226;1;32;2;0;0;85;10;0;1;111;117;116;115;105;100;101;7;0;2;122;122;124;255;5;0;80;255;161;0;0;
   49;0;45;108;104;100;45;0;0;0;0;0;0;0;0;0;133;226;1;32;2;0;0;85;10;0;1;111;117;116;115;105;100;101;8;0;2;100;255;120;124;255;5;0;80;255;161;0;0;
   0].

Example late_phase_example :
  let st0 := ex_state late_archive [] in
  (fs_cwd (cs_fs st0) = [bytes_root] /\ no_links_below [bytes_root] (fs_root (cs_fs st0)) /\
   cs_opts st0 = ex_opts /\ cs_reader st0 = lha_reader_new (lha_input_stream_new (mk_source KFile late_archive)) /\
   (forall hd, presents mktime_utc 0 ex_flt st0 hd ->
               forall t, h_symlink_target hd = Some t -> dangerous_target t = true)) /\
  exists st rest,
    extract_archive mktime_utc 0 ex_flt st0 = Ok (RVal true, st) /\
    fs_trace (cs_fs st) =
      OpSymlink [bytes_root; [122; 122]] [47; 111; 117; 116; 115; 105; 100; 101]
      :: OpUnlink [bytes_root; [122; 122]]
      :: OpSymlink [bytes_root; [100]; [120]] [46; 46; 47; 121]
      :: OpUnlink [bytes_root; [100]; [120]]
      :: OpSymlink [bytes_root; [100]; [120]] [47; 111; 117; 116; 115; 105; 100; 101]
      :: OpUnlink [bytes_root; [100]; [120]] :: rest /\
    length rest = 14%nat /\ existsb is_dangerous_op rest = false /\
    forallb inside_root (fs_trace (cs_fs st)) = true /\
    length (ex_members late_archive []) = 9%nat.
Proof.
  cbv zeta. split.
  - split; [reflexivity|]. split; [unfold no_links_below, gtree; vm_compute; repeat split|].
    split; [reflexivity|]. split; [reflexivity|].
    intros hd Hp. apply (presents_in_run_headers mktime_utc 0 ex_flt _ 40) in Hp; [|vm_compute; reflexivity].
    assert (F : forallb (fun h => match h_symlink_target h with Some t => dangerous_target t | None => true end)
                        (run_headers mktime_utc 0 ex_flt 40 (true, ex_state late_archive [])) = true)
      by (vm_compute; reflexivity).
    rewrite forallb_forall in F. specialize (F hd Hp). intros t Et. rewrite Et in F. exact F.
  - eexists. eexists. split; [vm_compute; reflexivity|]. split; [vm_compute; reflexivity|].
    repeat split; vm_compute; reflexivity.
Qed.

(* the theorem applied to it *)
Example late_phase_example_confined : forall v st,
  extract_archive mktime_utc 0 ex_flt (ex_state late_archive []) = Ok (v, st) ->
  forall o, In o (fs_trace (cs_fs st)) -> below_op [bytes_root] o.
Proof.
  intros v st H. destruct late_phase_example as [(A & B & C & D & E) _]. cbv zeta in *.
  destruct (no_safe_links_confined mktime_utc 0 [bytes_root] ex_opts ex_good_w ex_flt _ _ v st A B C D E H)
    as [(new & En & F) _].
  rewrite En. change (fs_trace (cs_fs (ex_state late_archive []))) with (@nil fsop). rewrite app_nil_r. exact F.
Qed.

(* WITH A SAFE LINK: P_CliConfine.example_archive (d/, d/f, d/s -> f, d/x -> ../y) passes the test *)
Example safe_link_example :
  let st0 := ex_state example_archive [] in
  no_link_through_safe_b (ex_members example_archive []) = true /\
  no_links_below [bytes_root] (fs_root (cs_fs st0)) /\
  (forall hd, presents mktime_utc 0 ex_flt st0 hd -> In (msum ex_opts hd) (ex_members example_archive [])) /\
  forall v st, extract_archive mktime_utc 0 ex_flt st0 = Ok (v, st) ->
               forall o, In o (fs_trace (cs_fs st)) -> below_op [bytes_root] o.
Proof.
  cbv zeta.
  assert (A : no_link_through_safe_b (ex_members example_archive []) = true) by (vm_compute; reflexivity).
  assert (B : no_links_below [bytes_root] (fs_root (cs_fs (ex_state example_archive []))))
    by (unfold no_links_below, gtree; vm_compute; repeat split).
  assert (C : forall hd, presents mktime_utc 0 ex_flt (ex_state example_archive []) hd ->
                         In (msum ex_opts hd) (ex_members example_archive [])).
  { intros hd Hp. apply (presents_in_run_headers mktime_utc 0 ex_flt _ 40) in Hp; [|vm_compute; reflexivity].
    unfold ex_members. apply in_map. exact Hp. }
  split; [exact A|]. split; [exact B|]. split; [exact C|].
  intros v st H.
  assert (E1 : fs_cwd (cs_fs (ex_state example_archive [])) = [bytes_root]) by reflexivity.
  assert (E2 : cs_opts (ex_state example_archive []) = ex_opts) by reflexivity.
  assert (E3 : cs_reader (ex_state example_archive []) = lha_reader_new (lha_input_stream_new (mk_source KFile example_archive)))
    by reflexivity.
  destruct (members_confined mktime_utc 0 [bytes_root] ex_opts ex_good_w (ex_members example_archive []) ex_flt
              (ex_state example_archive []) _ v st E1 B E2 E3 C A H) as [(new & En & F) _].
  rewrite En. change (fs_trace (cs_fs (ex_state example_archive []))) with (@nil fsop). rewrite app_nil_r. exact F.
Qed.

(* SAFE LINKS THAT WERE THERE BEFORE: /root/t/ and /root/k -> t in the initial tree; k is on no
   link member's way: extract_confined_whole_init applies to the archive of late_phase_example *)
Definition bystander_setup : list op := [OMkdir [116] 493; OSymlink [107] [116]].

Example initial_link_example :
  let st0 := ex_state late_archive bystander_setup in
  let Mem := fun h => In (msum ex_opts h) (ex_members late_archive bystander_setup) in
  links_of [] (fs_root (cs_fs st0)) = [([bytes_root; [107]], [116])] /\
  initial_links_ok [bytes_root] ex_opts Mem (fs_root (cs_fs st0)) /\
  (forall hd, presents mktime_utc 0 ex_flt st0 hd -> Mem hd) /\
  no_link_through_safe ex_opts Mem /\
  forall v st, extract_archive mktime_utc 0 ex_flt st0 = Ok (v, st) ->
               forall o, In o (fs_trace (cs_fs st)) -> below_op [bytes_root] o.
Proof.
  cbv zeta.
  assert (L : links_of [] (fs_root (cs_fs (ex_state late_archive bystander_setup))) = [([bytes_root; [107]], [116])])
    by (vm_compute; reflexivity).
  assert (A : no_link_through_safe_b (ex_members late_archive bystander_setup) = true) by (vm_compute; reflexivity).
  assert (W : forallb (fun m => negb (proper_prefixb [[107]] (m_comps m))) (ex_members late_archive bystander_setup) = true)
    by (vm_compute; reflexivity).
  assert (B : initial_links_ok [bytes_root] ex_opts (fun h => In (msum ex_opts h) (ex_members late_archive bystander_setup))
                (fs_root (cs_fs (ex_state late_archive bystander_setup)))).
  { apply gtree_of_links. rewrite L. intros l t [E|[]]. injection E as <- <-. intros suf E.
    change [bytes_root; [107]] with ([bytes_root] ++ [[107]]) in E. apply app_inv_head in E. subst suf.
    split; [reflexivity|]. intros M HM _ Hp. rewrite forallb_forall in W. specialize (W _ HM).
    apply Bool.negb_true_iff in W.
    rewrite (proper_prefixb_complete [[107]] (m_comps (msum ex_opts M)) Hp) in W. exact (Bool.diff_true_false W). }
  assert (C : forall hd, presents mktime_utc 0 ex_flt (ex_state late_archive bystander_setup) hd ->
                         In (msum ex_opts hd) (ex_members late_archive bystander_setup)).
  { intros hd Hp. apply (presents_in_run_headers mktime_utc 0 ex_flt _ 40) in Hp; [|vm_compute; reflexivity].
    unfold ex_members. apply in_map. exact Hp. }
  pose proof (no_link_through_safe_of_b ex_opts _ A) as D.
  split; [exact L|]. split; [exact B|]. split; [exact C|]. split; [exact D|].
  intros v st H.
  assert (E1 : fs_cwd (cs_fs (ex_state late_archive bystander_setup)) = [bytes_root]) by reflexivity.
  assert (E2 : cs_opts (ex_state late_archive bystander_setup) = ex_opts) by reflexivity.
  assert (E3 : cs_reader (ex_state late_archive bystander_setup) = lha_reader_new (lha_input_stream_new (mk_source KFile late_archive)))
    by reflexivity.
  destruct (extract_confined_whole_init mktime_utc 0 [bytes_root] ex_opts ex_good_w _ ex_flt
              (ex_state late_archive bystander_setup) _ v st E1 B E2 E3 C D H) as (new & En & F).
  rewrite En. change (fs_trace (cs_fs (ex_state late_archive bystander_setup))) with (@nil fsop). rewrite app_nil_r. exact F.
Qed.

(* FINDING 1: "every link below R is safe" (fs_ok, the hypothesis of the theorems up to the first
   dangerous link) is not enough for the whole run, even without any safe link in the archive.
   Initial tree: /root/t/, /root/s -> t, /root/v -> .  (both links safe).  Archive: s/p -> /x and
   v/v/v/s -> /outside, nothing else.  The placeholder of v/v/v/s replaces the link /root/s (key 7);
   the final phase makes /root/s -> /outside first, then s/p (key 3) -- in /outside. *)
Definition initial_links_archive : list N :=
  [43;0;45;108;104;100;45;0;0;0;0;0;0;0;0;0;133;226;1;32;2;0;0;85;4;0;1;120;8;0;2;115;255;112;124;255;5;0;80;255;161;0;0;
   53;0;45;108;104;100;45;0;0;0;0;0;0;0;0;0;133;226;1;32;2;0;0;85;10;0;1;111;117;116;115;105;100;101;12;0;2;118;255;118;255;118;255;115;124;255;5;0;80;255;161;0;0;
   0].
Definition initial_links_setup : list op := [OMkdir [116] 493; OSymlink [115] [116]; OSymlink [118] [46]].

Theorem safe_initial_links_refuted :
  let st0 := ex_state initial_links_archive initial_links_setup in
  fs_ok [bytes_root] (cs_fs st0) /\
  (forall hd, presents mktime_utc 0 ex_flt st0 hd ->
              forall t, h_symlink_target hd = Some t -> dangerous_target t = true) /\
  exists st, extract_archive mktime_utc 0 ex_flt st0 = Ok (RVal true, st) /\
    hd_error (fs_trace (cs_fs st)) = Some (OpSymlink [bytes_outside; [112]] [47; 120]) /\
    existsb leaves_root (fs_trace (cs_fs st)) = true.
Proof.
  cbv zeta. split; [split; [reflexivity|vm_compute; repeat split]|]. split.
  - intros hd Hp. apply (presents_in_run_headers mktime_utc 0 ex_flt _ 40) in Hp; [|vm_compute; reflexivity].
    assert (F : forallb (fun h => match h_symlink_target h with Some t => dangerous_target t | None => true end)
                        (run_headers mktime_utc 0 ex_flt 40 (true, ex_state initial_links_archive initial_links_setup)) = true)
      by (vm_compute; reflexivity).
    rewrite forallb_forall in F. specialize (F hd Hp). intros t Et. rewrite Et in F. exact F.
  - eexists. split; [vm_compute; reflexivity|]. split; vm_compute; reflexivity.
Qed.

(* FINDING 2: the test "no safe link's target, resolved from the link's own directory, passes
   through or ends at the path of a deferred link" is not enough.  t/, t/u/, s -> t,
   s/u/p -> /x (placeholder t/u/p), vvvv/, vvvv/u -> /outside, s -> vvvv.  The target of s names
   a directory, not a deferred link; the final phase makes vvvv/u (key 6) and then s/u/p (key 5),
   which goes through s and vvvv/u: the link is made in /outside.  What is wrong is that the
   deferred link s/u/p is extracted THROUGH the safe link s: no_link_through_safe_b says so. *)
Definition alias_archive : list N :=
  [36;0;45;108;104;100;45;0;0;0;0;0;0;0;0;0;133;226;1;32;2;0;0;85;5;0;2;116;255;5;0;80;237;65;0;0;
   38;0;45;108;104;100;45;0;0;0;0;0;0;0;0;0;133;226;1;32;2;0;0;85;7;0;2;116;255;117;255;5;0;80;237;65;0;0;
   37;0;45;108;104;100;45;0;0;0;0;0;0;0;0;0;133;226;1;32;2;0;0;85;6;0;1;115;124;116;5;0;80;255;161;0;0;
   45;0;45;108;104;100;45;0;0;0;0;0;0;0;0;0;133;226;1;32;2;0;0;85;4;0;1;120;10;0;2;115;255;117;255;112;124;255;5;0;80;255;161;0;0;
   39;0;45;108;104;100;45;0;0;0;0;0;0;0;0;0;133;226;1;32;2;0;0;85;8;0;2;118;118;118;118;255;5;0;80;237;65;0;0;
   52;0;45;108;104;100;45;0;0;0;0;0;0;0;0;0;133;226;1;32;2;0;0;85;10;0;1;111;117;116;115;105;100;101;11;0;2;118;118;118;118;255;117;124;255;5;0;80;255;161;0;0;
   40;0;45;108;104;100;45;0;0;0;0;0;0;0;0;0;133;226;1;32;2;0;0;85;9;0;1;115;124;118;118;118;118;5;0;80;255;161;0;0;
   0].

Theorem target_test_refuted :
  let st0 := ex_state alias_archive [] in
  no_links_below [bytes_root] (fs_root (cs_fs st0)) /\
  (forall hd, presents mktime_utc 0 ex_flt st0 hd -> In (msum ex_opts hd) (ex_members alias_archive [])) /\
  no_link_through_deferred (ex_members alias_archive []) = true /\
  no_link_through_safe_b (ex_members alias_archive []) = false /\
  exists st, extract_archive mktime_utc 0 ex_flt st0 = Ok (RVal true, st) /\
    hd_error (fs_trace (cs_fs st)) = Some (OpSymlink [bytes_outside; [112]] [47; 120]) /\
    existsb leaves_root (fs_trace (cs_fs st)) = true.
Proof.
  cbv zeta. split; [unfold no_links_below, gtree; vm_compute; repeat split|]. split.
  - intros hd Hp. apply (presents_in_run_headers mktime_utc 0 ex_flt _ 40) in Hp; [|vm_compute; reflexivity].
    unfold ex_members. apply in_map. exact Hp.
  - split; [vm_compute; reflexivity|]. split; [vm_compute; reflexivity|].
    eexists. split; [vm_compute; reflexivity|]. split; vm_compute; reflexivity.
Qed.

(* the witness of the known finding F5 (Properties_C10.escape_archive: t/, s -> t, s/p -> /x,
   uuuuuuuu -> /outside, s -> uuuuuuuu) fails both tests *)
Definition f5_archive : list N :=
  [36;0;45;108;104;100;45;0;0;0;0;0;0;0;0;0;59;61;75;32;2;0;0;85;5;0;2;116;255;5;0;80;237;65;0;0;
   37;0;45;108;104;100;45;0;0;0;0;0;0;0;0;0;133;226;1;32;2;0;0;85;6;0;1;115;124;116;5;0;80;255;161;0;0;
   43;0;45;108;104;100;45;0;0;0;0;0;0;0;0;0;133;226;1;32;2;0;0;85;4;0;1;120;8;0;2;115;255;112;124;255;5;0;80;255;161;0;0;
   54;0;45;108;104;100;45;0;0;0;0;0;0;0;0;0;133;226;1;32;2;0;0;85;10;0;1;111;117;116;115;105;100;101;13;0;2;117;117;117;117;117;117;117;117;124;255;5;0;80;255;161;0;0;
   44;0;45;108;104;100;45;0;0;0;0;0;0;0;0;0;133;226;1;32;2;0;0;85;13;0;1;115;124;117;117;117;117;117;117;117;117;5;0;80;255;161;0;0;0].

Example escape_fails_both_tests :
  (forall hd, presents mktime_utc 0 ex_flt (ex_state f5_archive []) hd -> In (msum ex_opts hd) (ex_members f5_archive [])) /\
  no_link_through_deferred (ex_members f5_archive []) = false /\
  no_link_through_safe_b (ex_members f5_archive []) = false /\
  exists v st, extract_archive mktime_utc 0 ex_flt (ex_state f5_archive []) = Ok (v, st) /\
               existsb leaves_root (fs_trace (cs_fs st)) = true.
Proof.
  split.
  - intros hd Hp. apply (presents_in_run_headers mktime_utc 0 ex_flt _ 40) in Hp; [|vm_compute; reflexivity].
    unfold ex_members. apply in_map. exact Hp.
  - split; [vm_compute; reflexivity|]. split; [vm_compute; reflexivity|].
    eexists. eexists. split; vm_compute; reflexivity.
Qed.

(* the process of these examples is the one `lha xf /arc/a.lzh` runs the loop on: same trace *)
Example ex_state_is_cli_run :
  exists r st, cli_run mktime_utc gmtime_utc (fun _ => []) false 1300000000 1200000000 mkdir_argv late_archive [] [] = Ok r /\
    extract_archive mktime_utc 0 ex_flt (ex_state late_archive []) = Ok (RVal true, st) /\
    cr_exit r = 0 /\ cr_fs r = cs_fs st.
Proof. eexists. eexists. split; [vm_compute; reflexivity|]. split; [vm_compute; reflexivity|]. split; reflexivity. Qed.

Print Assumptions late_phase_example.
Print Assumptions late_phase_example_confined.
Print Assumptions safe_link_example.
Print Assumptions initial_link_example.
Print Assumptions safe_initial_links_refuted.
Print Assumptions target_test_refuted.
Print Assumptions escape_fails_both_tests.
Print Assumptions ex_state_is_cli_run.

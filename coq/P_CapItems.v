(* P_CapItems.v -- the items described by a well-formed description are
   well-formed items (P_CliTree.wf_item), and the nodes they build are the
   described tree. *)
From Lhasa Require Import Base ListN Generated Crc16 P_Crc16 InputStream Header S_Header P_Intact P_Header Fs Reader
  P_ReaderCheck P_FsExtract P_CliExtract P_CliTree S_Capstone P_CapHeader.
From Coq Require Import ZifyBool ZifyN ZifyNat.
Local Open Scope N_scope.

Set Default Timeout 120.

(* induction over descriptions, with the entries of a directory *)
Section DescInd.
  Variable P : desc -> Prop.
  Hypothesis Hfile : forall c m t bs, P (DFile c m t bs).
  Hypothesis Hlink : forall c t tgt, P (DLink c t tgt).
  Hypothesis Hdir : forall c m t sub, Forall P sub -> P (DDir c m t sub).

  Fixpoint desc_ind' (d : desc) : P d :=
    match d with
    | DFile c m t bs => Hfile c m t bs
    | DLink c t tgt => Hlink c t tgt
    | DDir c m t sub =>
      Hdir c m t sub ((fix go (l : list desc) : Forall P l :=
                         match l with [] => Forall_nil P | x :: r => Forall_cons x (desc_ind' x) (go r) end) sub)
    end.
End DescInd.

Lemma wf_desc_all uid0 dl : forall l,
  (fix all (l : list desc) : Prop := match l with [] => True | x :: r => wf_desc uid0 dl x /\ all r end) l <->
  Forall (wf_desc uid0 dl) l.
Proof.
  induction l as [|x r IH].
  - split; intros H; [constructor|exact I].
  - split; intros H.
    + destruct H as [H1 H2]. constructor; [exact H1|apply IH; exact H2].
    + inversion H; subst. split; [assumption|]. apply IH. assumption.
Qed.

Lemma iname_item_of dl d : iname (item_of dl d) = dname d.
Proof. destruct d; reflexivity. Qed.

Lemma map_iname_items dl l : map iname (map (item_of dl) l) = map dname l.
Proof. rewrite map_map. apply map_ext. intros d. apply iname_item_of. Qed.

(* ---- the headers say where the items are ---- *)
Lemma file_hdr_ok dl c m t bs : file_hdr dl c (file_header dl c m t bs).
Proof.
  unfold file_hdr, file_header. cbn [h_path h_filename h_symlink_target h_os_type mk_header].
  rewrite opt_str_opt_of. split; [reflexivity|]. split; [reflexivity|]. split; [reflexivity|]. split; reflexivity.
Qed.

Lemma dir_hdr_ok dl c m t : dir_hdr dl c (dir_header dl c m t).
Proof.
  unfold dir_hdr, dir_header. cbn [h_path h_filename h_symlink_target mk_header].
  split; [reflexivity|]. split; [reflexivity|]. split; reflexivity.
Qed.

Lemma match_47 {A} (t : list N) (a b : A) :
  match t with 47 :: _ => a | _ => b end = if (match t with x :: _ => x =? 47 | [] => false end) then a else b.
Proof.
  destruct t as [|x r]; [reflexivity|]. destruct (N.eqb_spec x 47) as [->|E]; [reflexivity|].
  destruct x as [|p]; [reflexivity|].
  repeat (destruct p as [p|p|]; try reflexivity). contradiction E; reflexivity.
Qed.

Lemma dangerous_safe h tgt : h_symlink_target h = Some tgt -> is_dangerous_symlink h = negb (safe_target tgt).
Proof.
  intros E. unfold is_dangerous_symlink, safe_target. rewrite E, !match_47.
  destruct (match tgt with x :: _ => x =? 47 | [] => false end); [reflexivity|]. rewrite Bool.negb_involutive. reflexivity.
Qed.

Lemma link_hdr_ok dl c t tgt : safe_target tgt = true -> tgt <> [] -> nlen tgt <= 4095 ->
  link_hdr dl c (link_header dl c t tgt) tgt.
Proof.
  intros Hs Hne Hl. unfold link_hdr.
  rewrite (dangerous_safe (link_header dl c t tgt) tgt eq_refl), Hs.
  unfold link_header. cbn [h_path h_filename h_symlink_target mk_header].
  rewrite opt_str_opt_of. split; [reflexivity|]. split; [reflexivity|]. split; [reflexivity|]. split; [reflexivity|].
  split; [reflexivity|split; assumption].
Qed.

(* ---- wf_desc implies wf_item ---- *)
Lemma fmode_file u dl c m t bs : m < 4096 -> fmode u (file_header dl c m t bs) = m.
Proof. intros H. unfold fmode, ex_perms, file_header. cbn [have_extra h_extra_flags h_unix_perms mk_header]. apply mode_reg_low. exact H. Qed.

Lemma final_mode_dir u dl c m t : m < 4096 -> dir_final_mode u (dir_header dl c m t) = m.
Proof. intros H. unfold dir_final_mode, dir_header. cbn [have_extra h_extra_flags h_unix_perms mk_header]. apply mode_dir_low. exact H. Qed.

Theorem wf_item_of u uid0 : forall d dl, wf_desc uid0 dl d -> wf_item u uid0 dl (item_of dl d).
Proof.
  induction d as [c m t bs|c t tgt|c m t sub IH] using desc_ind'; intros dl H; cbn [wf_desc item_of wf_item] in *.
  - destruct H as (Hc & Hlen & Hm & Ht & Hbl & Hb & Hsid).
    split; [apply Hc|]. split; [exact Hlen|]. split; [apply file_hdr_ok|].
    rewrite (fmode_file u dl c m t bs Hm). exact Hsid.
  - destruct H as (Hc & Hlen & Ht & Hne & Htl & Htb & Hs).
    split; [apply Hc|]. split; [exact Hlen|]. apply link_hdr_ok; assumption.
  - destruct H as (Hc & Hlen & Hm & Ht & Hnd & Hall). apply wf_desc_all in Hall.
    split; [apply Hc|]. split; [exact Hlen|]. split; [apply dir_hdr_ok|].
    split; [rewrite map_iname_items; exact Hnd|].
    apply wf_all. rewrite Forall_forall in *. intros it Hin. apply in_map_iff in Hin. destruct Hin as (d & <- & Hin).
    apply IH; [exact Hin|]. apply Hall. exact Hin.
Qed.

Theorem build_item_of u uid0 : forall d dl, wf_desc uid0 dl d -> build u (item_of dl d) = tree_of d.
Proof.
  induction d as [c m t bs|c t tgt|c m t sub IH] using desc_ind'; intros dl H; cbn [wf_desc item_of build tree_of] in *.
  - destruct H as (_ & _ & Hm & _). rewrite (fmode_file u dl c m t bs Hm). reflexivity.
  - reflexivity.
  - destruct H as (_ & _ & Hm & _ & _ & Hall). apply wf_desc_all in Hall.
    rewrite (final_mode_dir u dl c m t Hm). cbn [h_timestamp dir_header mk_header dir_fields mk_fields f_time]. f_equal.
    rewrite map_map. apply map_ext_in. intros d Hin. rewrite iname_item_of. f_equal.
    rewrite Forall_forall in *. apply IH; [exact Hin|]. apply Hall. exact Hin.
Qed.

Corollary builds_items_of u uid0 ds : Forall (wf_desc uid0 []) ds -> builds u (items_of ds) = trees_of ds.
Proof.
  intros H. unfold builds, items_of, trees_of. rewrite map_map. apply map_ext_in. intros d Hin.
  rewrite iname_item_of. f_equal. rewrite Forall_forall in H. apply (build_item_of u uid0). apply H. exact Hin.
Qed.

Corollary wf_items_of u uid0 ds : wf_descs uid0 ds ->
  Forall (wf_item u uid0 []) (items_of ds) /\ NoDup (map iname (items_of ds)).
Proof.
  intros [H Hnd]. split.
  - unfold items_of. rewrite Forall_forall in *. intros it Hin. apply in_map_iff in Hin. destruct Hin as (d & <- & Hin).
    apply wf_item_of. apply H. exact Hin.
  - unfold items_of. rewrite map_iname_items. exact Hnd.
Qed.

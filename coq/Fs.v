(* Fs.v -- a POSIX-like filesystem model: what C06/C10 trust about the kernel.
   A tree of directories, files and symbolic links; paths are byte strings
   resolved component by component from a current directory, following
   symbolic links ('..' and absolute targets included) with the kernel's
   limit of 40 links per resolution; permission checks for a process that
   owns everything it creates.  Every successful operation also appends to a
   trace (operation, resolved physical location) used by the confinement
   theorems.

   The model has been compared with Linux (tmpfs) by differential testing:
   harness/c/drv_fs.c executes operation sequences with the real system calls,
   FsRun.v interprets the same sequences over this model, and
   harness/py/test_fs.py compares the results of every operation and the final
   trees.  The comments "Linux:" below record behaviour that was learnt from
   those tests.

   Conventions.
   - Permission bits are the usual 12 bits (octal 7777 = 4095).  A node is
     either owned by the process ([own = true]: the owner bits apply) or by
     somebody else ([own = false]: the "other" bits apply; group bits are
     never consulted, i.e. the process is assumed not to be in the group of
     any node it does not own).
   - mtime 0 means "the time of the last modification by the kernel", which
     the model cannot know; any other value was set explicitly by utime().
     Creating or removing an entry resets the mtime of the directory to 0,
     writing resets the mtime of the file to 0.
   - Not modelled: hard links, rename, rmdir, special files, the group class
     of the permission bits (in particular chmod silently dropping the
     set-group-ID bit of a file whose group the process is not in), ownership
     of symbolic links (they count as owned, which matters only for deleting
     them from a sticky directory), read-only / full filesystems, mount
     points, immutable/append attributes, ACLs, the protected_symlinks
     sysctl, signals and short writes, other processes. *)
From Lhasa Require Import Base.
Local Open Scope N_scope.

Definition name := list N.            (* one path component, no '/' *)
Definition phys := list name.         (* physical location: names from the root *)

Inductive node : Type :=
| Dir (own : bool) (perm : N) (mtime : N) (ents : list (name * node))
| File (own : bool) (perm : N) (mtime : N) (data : list N)
| Link (target : list N).

Inductive fsop : Type :=
| OpMkdir (loc : phys) (mode : N)
| OpCreate (loc : phys)
| OpUnlink (loc : phys)
| OpSymlink (loc : phys) (target : list N)
| OpChmod (loc : phys) (mode : N)
| OpChown (loc : phys)
| OpUtime (loc : phys) (t : N)
| OpWrite (loc : phys) (n : N).

Record fs := {
  fs_root : node;          (* the directory "/" *)
  fs_cwd : phys;           (* current directory (a physical location) *)
  fs_uid0 : bool;          (* is the process root? *)
  fs_umask : N;
  fs_trace : list fsop     (* newest first *)
}.

Inductive ftype : Type := FT_NONE | FT_FILE | FT_DIRECTORY | FT_ERROR.

(* ---- small helpers ---- *)
Fixpoint name_eqb (a b : name) : bool :=
  match a, b with
  | [], [] => true
  | x :: r, y :: s => (x =? y) && name_eqb r s
  | _, _ => false
  end.

Fixpoint lookup (ents : list (name * node)) (n : name) : option node :=
  match ents with
  | [] => None
  | (k, v) :: r => if name_eqb k n then Some v else lookup r n
  end.

Fixpoint remove_ent (ents : list (name * node)) (n : name) : list (name * node) :=
  match ents with
  | [] => []
  | (k, v) :: r => if name_eqb k n then r else (k, v) :: remove_ent r n
  end.

Definition set_ent (ents : list (name * node)) (n : name) (v : node) : list (name * node) :=
  match lookup ents n with
  | Some _ => map (fun kv => if name_eqb (fst kv) n then (n, v) else kv) ents
  | None => ents ++ [(n, v)]
  end.

(* split a path string on '/' ; empty components are dropped *)
Fixpoint split_path_aux (l : list N) (cur : list N) : list name :=
  match l with
  | [] => match cur with [] => [] | _ => [rev cur] end
  | c :: r => if c =? 47 then (match cur with [] => split_path_aux r [] | _ => rev cur :: split_path_aux r [] end)
              else split_path_aux r (c :: cur)
  end.
Definition split_path (p : list N) : list name := split_path_aux p [].
Definition is_absolute (p : list N) : bool := match p with 47 :: _ => true | _ => false end.
(* "a/", "a//", "/": the path must denote a directory *)
Definition trailing_slash (p : list N) : bool := match rev p with 47 :: _ => true | _ => false end.

Definition name_max : N := 255.       (* NAME_MAX: longest component *)
Definition path_max : N := 4095.      (* PATH_MAX - 1: longest path or link target *)
Definition max_links : nat := 40.     (* MAXSYMLINKS: links followed in one resolution *)

(* node at a physical location *)
Fixpoint node_at (n : node) (loc : phys) : option node :=
  match loc with
  | [] => Some n
  | c :: r => match n with
              | Dir _ _ _ ents => match lookup ents c with Some m => node_at m r | None => None end
              | _ => None
              end
  end.

(* replace / insert / delete the node at a location (parent must be a Dir) *)
Fixpoint update_at (n : node) (loc : phys) (f : option node -> option node) : node :=
  match loc with
  | [] => match f (Some n) with Some m => m | None => n end
  | [c] => match n with
           | Dir o p t ents =>
             match f (lookup ents c) with
             | Some m => Dir o p t (set_ent ents c m)
             | None => Dir o p t (remove_ent ents c)
             end
           | _ => n
           end
  | c :: r => match n with
              | Dir o p t ents =>
                match lookup ents c with
                | Some m => Dir o p t (set_ent ents c (update_at m r f))
                | None => n
                end
              | _ => n
              end
  end.

(* ---- permissions ---- *)
Definition has_bit (perm bit : N) : bool := negb (N.land perm bit =? 0).

Definition owned_node (n : node) : bool :=
  match n with Dir o _ _ _ => o | File o _ _ _ => o | Link _ => true end.

(* x on a directory: needed to look up any name in it, "." and ".." included *)
Definition can_search (uid0 : bool) (n : node) : bool :=
  match n with Dir own perm _ _ => uid0 || has_bit perm (if own then 64 else 1) | _ => false end.
(* w and x on a directory: needed to add or remove an entry *)
Definition can_write_dir (uid0 : bool) (n : node) : bool :=
  match n with Dir own perm _ _ => uid0 || (has_bit perm (if own then 128 else 2)
                                            && has_bit perm (if own then 64 else 1)) | _ => false end.
(* removing an entry: in a sticky directory (octal 1000 = 512, e.g. /tmp) one
   must own the directory or the entry *)
Definition can_delete (uid0 : bool) (dir victim : node) : bool :=
  can_write_dir uid0 dir &&
  (uid0 || owned_node dir || owned_node victim
   || match dir with Dir _ perm _ _ => negb (has_bit perm 512) | _ => false end).

(* ---- path resolution ----
   walk: resolve all components.  A symbolic link in the middle is always
   followed; one at the end is followed if follow_last, or if must_dir (the
   path had a trailing slash: it must then denote a directory; Linux: so must
   a link target that ends in a slash when that link is followed at the end).
   Looking up any name, "." and ".." included, needs search permission on the
   directory it is looked up in -- checked before anything else, so a missing
   name in an unsearchable directory is EACCES, not ENOENT.
   Result: the physical location of the parent directory, the last name, and
   the node found there (None if nothing) -- or, when the path ends in "."
   or ".." or is just "/", the location of that directory.  Failure = an
   intermediate component is missing (ENOENT), or something else (ENOTDIR,
   EACCES, ELOOP, ENAMETOOLONG).
   The recursion is structural: on the components, and on the budget of
   symbolic links whenever a link target is spliced in. *)
Inductive walk_res : Type :=
| WOk (parent : phys) (last : name) (found : option node)
| WRoot                                   (* unused (kept for compatibility) *)
| WDir (loc : phys)                       (* a directory reached without a last name ("a/..", ".", "/") *)
| WFail (enoent : bool).

Definition dotdot : name := [46; 46].
Definition dot : name := [46].

Fixpoint walk (links : nat) (root : node) (uid0 : bool) (cur : phys) (comps : list name)
              (follow_last must_dir : bool) {struct links} : walk_res :=
  (fix go (cur : phys) (comps : list name) {struct comps} : walk_res :=
     match comps with
     | [] => WDir cur
     | c :: rest =>
       let is_last := match rest with [] => true | _ => false end in
       match node_at root cur with
       | None => WFail true
       | Some (Dir _ _ _ ents as d) =>
         if negb (can_search uid0 d) then WFail false                 (* EACCES *)
         else if name_max <? nlen c then WFail false                  (* ENAMETOOLONG *)
         else if name_eqb c dot then go cur rest
         else if name_eqb c dotdot then go (removelast cur) rest     (* ".." of "/" is "/" *)
         else
           match lookup ents c with
           | None => if is_last then WOk cur c None else WFail true   (* ENOENT *)
           | Some (Dir _ _ _ _ as m) =>
             if is_last then WOk cur c (Some m) else go (cur ++ [c]) rest
           | Some (File _ _ _ _ as m) =>
             if is_last && negb must_dir then WOk cur c (Some m) else WFail false   (* ENOTDIR *)
           | Some (Link tgt as m) =>
             if is_last && negb (follow_last || must_dir) then WOk cur c (Some m)
             else
               match links with
               | O => WFail false                                     (* ELOOP *)
               | S links' =>
                 walk links' root uid0 (if is_absolute tgt then [] else cur)
                      (split_path tgt ++ rest)
                      follow_last
                      (must_dir || (is_last && trailing_slash tgt))
               end
           end
       | Some _ => WFail false                                        (* ENOTDIR *)
       end
     end) cur comps.

(* [must_dir] given explicitly (mkdir ignores trailing slashes) *)
Definition resolve_gen (s : fs) (p : list N) (follow_last must_dir : bool) : walk_res :=
  match p with
  | [] => WFail true                                                  (* Linux: "" is ENOENT *)
  | _ => if path_max <? nlen p then WFail false                       (* ENAMETOOLONG *)
         else walk max_links (fs_root s) (fs_uid0 s) (if is_absolute p then [] else fs_cwd s)
                   (split_path p) follow_last must_dir
  end.

Definition resolve (s : fs) (p : list N) (follow_last : bool) : walk_res :=
  resolve_gen s p follow_last (trailing_slash p).

Definition log (s : fs) (o : fsop) (root' : node) : fs :=
  {| fs_root := root'; fs_cwd := fs_cwd s; fs_uid0 := fs_uid0 s; fs_umask := fs_umask s;
     fs_trace := o :: fs_trace s |}.

Definition parent_writable (s : fs) (parent : phys) : bool :=
  match node_at (fs_root s) parent with Some d => can_write_dir (fs_uid0 s) d | None => false end.

Definition now : N := 0.

(* the directory at [loc] has been modified *)
Definition touch_dir (root : node) (loc : phys) : node :=
  update_at root loc (fun o => match o with
                               | Some (Dir own p _ e) => Some (Dir own p now e)
                               | x => x end).

(* add / replace / remove the entry [last] of the directory [parent] *)
Definition set_entry (s : fs) (parent : phys) (last : name) (n : option node) : node :=
  touch_dir (update_at (fs_root s) (parent ++ [last]) (fun _ => n)) parent.

Definition apply_umask (s : fs) (mode : N) : N := N.land mode (N.lxor 4095 (fs_umask s)).

(* ---- operations (the distinctions lha_arch_unix.c depends on) ---- *)

(* stat(): follows links.  ENOENT -> NONE, other failures -> ERROR *)
Definition fs_exists (s : fs) (p : list N) : ftype :=
  match resolve s p true with
  | WOk _ _ None => FT_NONE
  | WOk _ _ (Some (Dir _ _ _ _)) => FT_DIRECTORY
  | WOk _ _ (Some (File _ _ _ _)) => FT_FILE
  | WOk _ _ (Some (Link _)) => FT_ERROR         (* cannot happen: the last link is followed *)
  | WRoot => FT_DIRECTORY
  | WDir _ => FT_DIRECTORY
  | WFail true => FT_NONE
  | WFail false => FT_ERROR
  end.

(* mkdir(): never follows the last component (Linux: not even for "link/":
   trailing slashes are simply ignored).  Of the mode only rwxrwxrwx and the
   sticky bit are used (octal 1777 = 1023); Linux: a directory made inside a
   set-group-ID directory (octal 2000 = 1024) is set-group-ID too. *)
Definition fs_mkdir (s : fs) (p : list N) (mode : N) : bool * fs :=
  match resolve_gen s p false false with
  | WOk parent last None =>
    match node_at (fs_root s) parent with
    | Some (Dir _ pperm _ _ as d) =>
      if can_write_dir (fs_uid0 s) d then
        let m := N.lor (apply_umask s (N.land mode 1023)) (N.land pperm 1024) in
        (true, log s (OpMkdir (parent ++ [last]) m)
                   (set_entry s parent last (Some (Dir true m now []))))
      else (false, s)
    | _ => (false, s)
    end
  | _ => (false, s)
  end.

(* unlink(): never follows the last component; directories are not removed;
   fails on a trailing slash whatever is there *)
Definition fs_unlink (s : fs) (p : list N) : bool * fs :=
  if trailing_slash p then (false, s) else
  match resolve s p false with
  | WOk parent last (Some (Dir _ _ _ _)) => (false, s)
  | WOk parent last (Some victim) =>
    match node_at (fs_root s) parent with
    | Some d =>
      if can_delete (fs_uid0 s) d victim then
        (true, log s (OpUnlink (parent ++ [last])) (set_entry s parent last None))
      else (false, s)
    | None => (false, s)
    end
  | _ => (false, s)
  end.

(* open(O_CREAT|O_EXCL|O_WRONLY, mode): fails if anything (even a dangling
   link) is there, and on a trailing slash.
   Returns the physical location of the new file: the open handle. *)
Definition fs_create_excl (s : fs) (p : list N) (mode : N) : option phys * fs :=
  if trailing_slash p then (None, s) else
  match resolve s p false with
  | WOk parent last None =>
    if parent_writable s parent then
      let m := apply_umask s (N.land mode 4095) in
      (Some (parent ++ [last]),
       log s (OpCreate (parent ++ [last]))
           (set_entry s parent last (Some (File true m now []))))
    else (None, s)
  | _ => (None, s)
  end.

(* operations on an open handle (the file created by this process) *)
Definition fs_fchmod (s : fs) (h : phys) (mode : N) : bool * fs :=
  (true, log s (OpChmod h (N.land mode 4095))
             (update_at (fs_root s) h (fun o => match o with
                                             | Some (File own _ t d) => Some (File own (N.land mode 4095) t d)
                                             | x => x end))).
(* fchown to another user: root only (see fs_chown) *)
Definition fs_fchown (s : fs) (h : phys) : bool * fs :=
  (fs_uid0 s, if fs_uid0 s then log s (OpChown h) (fs_root s) else s).
(* Linux: writing at least one byte as non-root clears the set-user-ID bit
   (octal 4000 = 2048), and the set-group-ID bit (2000 = 1024) if the file is
   group-executable (010 = 8): an extracted file does not keep them. *)
Definition drop_setid (perm : N) : N :=
  N.land perm (N.lxor 4095 (2048 + (if has_bit perm 8 then 1024 else 0))).
Definition fs_write (s : fs) (h : phys) (bytes : list N) : fs :=
  let keep := fs_uid0 s || match bytes with [] => true | _ => false end in
  log s (OpWrite h (nlen bytes))
      (update_at (fs_root s) h (fun o => match o with
                                      | Some (File own p _ d) =>
                                        Some (File own (if keep then p else drop_setid p) now (d ++ bytes))
                                      | x => x end)).

(* remove(): unlink for everything but directories.  (The real remove() would
   rmdir an empty directory; rmdir is not modelled, so this fails on every
   directory.  lha_arch_fopen only removes the file it has just created.) *)
Definition fs_remove (s : fs) (p : list N) : bool * fs := fs_unlink s p.

(* symlink(target, p): the target is stored as it is, never looked at; it must
   not be empty.  Nothing may exist at p (not even a dangling link). *)
Definition fs_symlink (s : fs) (target p : list N) : bool * fs :=
  if trailing_slash p then (false, s) else
  match target with [] => (false, s) | _ =>
  if path_max <? nlen target then (false, s) else
  match resolve s p false with
  | WOk parent last None =>
    if parent_writable s parent then
      (true, log s (OpSymlink (parent ++ [last]) target)
                 (set_entry s parent last (Some (Link target))))
    else (false, s)
  | _ => (false, s)
  end end.

(* chmod / chown / utime follow links and need ownership (or root) *)
Definition with_target (s : fs) (p : list N) (k : phys -> node -> bool * fs) : bool * fs :=
  match resolve s p true with
  | WOk parent last (Some n) => k (parent ++ [last]) n
  | WDir loc => match node_at (fs_root s) loc with Some n => k loc n | None => (false, s) end
  | _ => (false, s)
  end.

Definition owned (s : fs) (n : node) : bool := fs_uid0 s || owned_node n.

Definition fs_chmod (s : fs) (p : list N) (mode : N) : bool * fs :=
  with_target s p (fun loc n =>
    if owned s n then
      (true, log s (OpChmod loc (N.land mode 4095))
                 (update_at (fs_root s) loc (fun o => match o with
                   | Some (Dir own _ t e) => Some (Dir own (N.land mode 4095) t e)
                   | Some (File own _ t d) => Some (File own (N.land mode 4095) t d)
                   | x => x end)))
    else (false, s)).

(* chown to another user: root only.  (The new owner is not recorded: root
   passes every check anyway.)  Linux: it clears the set-ID bits of a file.
   Not modelled: a non-root chown that names the process's own uid and one of
   its own groups succeeds (changing nothing but those set-ID bits); here it
   fails.  lhasa ignores the result of chown. *)
Definition fs_chown (s : fs) (p : list N) : bool * fs :=
  with_target s p (fun loc n =>
    if fs_uid0 s then
      (true, log s (OpChown loc)
                 (update_at (fs_root s) loc (fun o => match o with
                   | Some (File own pm t d) => Some (File own (drop_setid pm) t d)
                   | x => x end)))
    else (false, s)).

Definition fs_utime (s : fs) (p : list N) (t : N) : bool * fs :=
  with_target s p (fun loc n =>
    if owned s n then
      (true, log s (OpUtime loc t)
                 (update_at (fs_root s) loc (fun o => match o with
                   | Some (Dir own pm _ e) => Some (Dir own pm t e)
                   | Some (File own pm _ d) => Some (File own pm t d)
                   | x => x end)))
    else (false, s)).

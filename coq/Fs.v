(* Fs.v -- a POSIX-like filesystem model: what C06/C10 trust about the kernel.
   A tree of directories, files and symbolic links; paths are byte strings
   resolved component by component from a current directory, following
   symbolic links ('..' and absolute targets included) with a depth limit;
   permission checks for a non-root process that owns everything it creates.
   Every operation also appends to a trace of (operation, resolved physical
   location) used by the confinement theorems. *)
From Lhasa Require Import Base.
Local Open Scope N_scope.

Definition name := list N.            (* one path component, no '/' *)
Definition phys := list name.         (* physical location: names from the root *)

Inductive node : Type :=
| Dir (own : bool) (perm : N) (mtime : N) (ents : list (name * node))
| File (own : bool) (perm : N) (mtime : N) (data : list N)
| Link (target : list N).

Inductive fsop : Type :=
| OpMkdir (loc : phys) (mode : N)
| OpCreate (loc : phys)
| OpUnlink (loc : phys)
| OpSymlink (loc : phys) (target : list N)
| OpChmod (loc : phys) (mode : N)
| OpChown (loc : phys)
| OpUtime (loc : phys) (t : N)
| OpWrite (loc : phys) (n : N).

Record fs := {
  fs_root : node;          (* the directory "/" *)
  fs_cwd : phys;           (* current directory (a physical location) *)
  fs_uid0 : bool;          (* is the process root? *)
  fs_umask : N;
  fs_trace : list fsop     (* newest first *)
}.

Inductive ftype : Type := FT_NONE | FT_FILE | FT_DIRECTORY | FT_ERROR.

(* ---- small helpers ---- *)
Fixpoint name_eqb (a b : name) : bool :=
  match a, b with
  | [], [] => true
  | x :: r, y :: s => (x =? y) && name_eqb r s
  | _, _ => false
  end.

Fixpoint lookup (ents : list (name * node)) (n : name) : option node :=
  match ents with
  | [] => None
  | (k, v) :: r => if name_eqb k n then Some v else lookup r n
  end.

Fixpoint remove_ent (ents : list (name * node)) (n : name) : list (name * node) :=
  match ents with
  | [] => []
  | (k, v) :: r => if name_eqb k n then r else (k, v) :: remove_ent r n
  end.

Definition set_ent (ents : list (name * node)) (n : name) (v : node) : list (name * node) :=
  match lookup ents n with
  | Some _ => map (fun kv => if name_eqb (fst kv) n then (n, v) else kv) ents
  | None => ents ++ [(n, v)]
  end.

(* split a path string on '/' ; empty components are dropped *)
Fixpoint split_path_aux (l : list N) (cur : list N) : list name :=
  match l with
  | [] => match cur with [] => [] | _ => [rev cur] end
  | c :: r => if c =? 47 then (match cur with [] => split_path_aux r [] | _ => rev cur :: split_path_aux r [] end)
              else split_path_aux r (c :: cur)
  end.
Definition split_path (p : list N) : list name := split_path_aux p [].
Definition is_absolute (p : list N) : bool := match p with 47 :: _ => true | _ => false end.

(* node at a physical location *)
Fixpoint node_at (n : node) (loc : phys) : option node :=
  match loc with
  | [] => Some n
  | c :: r => match n with
              | Dir _ _ _ ents => match lookup ents c with Some m => node_at m r | None => None end
              | _ => None
              end
  end.

(* replace / insert / delete the node at a location (parent must be a Dir) *)
Fixpoint update_at (n : node) (loc : phys) (f : option node -> option node) : node :=
  match loc with
  | [] => match f (Some n) with Some m => m | None => n end
  | [c] => match n with
           | Dir o p t ents =>
             match f (lookup ents c) with
             | Some m => Dir o p t (set_ent ents c m)
             | None => Dir o p t (remove_ent ents c)
             end
           | _ => n
           end
  | c :: r => match n with
              | Dir o p t ents =>
                match lookup ents c with
                | Some m => Dir o p t (set_ent ents c (update_at m r f))
                | None => n
                end
              | _ => n
              end
  end.

Definition can_search (uid0 : bool) (n : node) : bool :=
  match n with Dir own perm _ _ => uid0 || negb (N.land perm (if own then 64 else 1) =? 0) | _ => false end.
Definition can_write_dir (uid0 : bool) (n : node) : bool :=
  match n with Dir own perm _ _ => uid0 || (negb (N.land perm (if own then 128 else 2) =? 0)
                                            && negb (N.land perm (if own then 64 else 1) =? 0)) | _ => false end.

(* ---- path resolution ----
   walk: resolve all components; the last one is followed only if
   follow_last.  Result: the physical location of the parent directory, the
   last name, and the node found there (None if nothing).  Failure = an
   intermediate component is missing / not a directory / not searchable, or
   too many links (ELOOP). *)
Inductive walk_res : Type :=
| WOk (parent : phys) (last : name) (found : option node)
| WRoot                                   (* the path denotes "/" or "." itself: location in parent *)
| WDir (loc : phys)                       (* resolved to a directory location with no last name (e.g. "a/..") *)
| WFail (enoent : bool).

Definition dotdot : name := [46; 46].
Definition dot : name := [46].

Fixpoint walk (fuel : nat) (root : node) (uid0 : bool) (cur : phys) (comps : list name) (follow_last : bool) (links : N)
  : walk_res :=
  match fuel with
  | O => WFail false
  | S f =>
    match comps with
    | [] => WDir cur
    | c :: rest =>
      match node_at root cur with
      | None => WFail true
      | Some d =>
        if negb (can_search uid0 d) then WFail (match d with Dir _ _ _ _ => false | _ => false end) else
        if name_eqb c dot then walk f root uid0 cur rest follow_last links
        else if name_eqb c dotdot then walk f root uid0 (removelast cur) rest follow_last links
        else
          match d with
          | Dir _ _ _ ents =>
            match lookup ents c, rest with
            | None, [] => WOk cur c None
            | None, _ :: _ => WFail true
            | Some (Link tgt), [] =>
              if follow_last then
                if 40 <? links then WFail false
                else walk f root uid0 (if is_absolute tgt then [] else cur) (split_path tgt) true (links + 1)
              else WOk cur c (Some (Link tgt))
            | Some (Link tgt), _ :: _ =>
              if 40 <? links then WFail false
              else walk f root uid0 (if is_absolute tgt then [] else cur) (split_path tgt ++ rest) follow_last (links + 1)
            | Some m, [] => WOk cur c (Some m)
            | Some (Dir _ _ _ _), _ :: _ => walk f root uid0 (cur ++ [c]) rest follow_last links
            | Some (File _ _ _ _), _ :: _ => WFail false        (* ENOTDIR *)
            end
          | _ => WFail false
          end
      end
    end
  end.

Definition resolve (s : fs) (p : list N) (follow_last : bool) : walk_res :=
  walk 4000 (fs_root s) (fs_uid0 s) (if is_absolute p then [] else fs_cwd s) (split_path p) follow_last 0.

Definition log (s : fs) (o : fsop) (root' : node) : fs :=
  {| fs_root := root'; fs_cwd := fs_cwd s; fs_uid0 := fs_uid0 s; fs_umask := fs_umask s;
     fs_trace := o :: fs_trace s |}.

Definition parent_writable (s : fs) (parent : phys) : bool :=
  match node_at (fs_root s) parent with Some d => can_write_dir (fs_uid0 s) d | None => false end.

(* ---- operations (the distinctions lha_arch_unix.c depends on) ---- *)

(* stat(): follows links.  ENOENT -> NONE, other failures -> ERROR *)
Definition fs_exists (s : fs) (p : list N) : ftype :=
  match resolve s p true with
  | WOk _ _ None => FT_NONE
  | WOk _ _ (Some (Dir _ _ _ _)) => FT_DIRECTORY
  | WOk _ _ (Some (File _ _ _ _)) => FT_FILE
  | WOk _ _ (Some (Link _)) => FT_ERROR
  | WRoot => FT_DIRECTORY
  | WDir _ => FT_DIRECTORY
  | WFail true => FT_NONE
  | WFail false => FT_ERROR
  end.

Definition fs_mkdir (s : fs) (p : list N) (mode : N) : bool * fs :=
  match resolve s p false with
  | WOk parent last None =>
    if parent_writable s parent then
      let m := N.land (N.land mode 4095) (N.lxor 4095 (fs_umask s)) in
      (true, log s (OpMkdir (parent ++ [last]) m)
                 (update_at (fs_root s) (parent ++ [last]) (fun _ => Some (Dir true m 0 []))))
    else (false, s)
  | _ => (false, s)
  end.

(* unlink(): never follows the last component; directories are not removed *)
Definition fs_unlink (s : fs) (p : list N) : bool * fs :=
  match resolve s p false with
  | WOk parent last (Some (Dir _ _ _ _)) => (false, s)
  | WOk parent last (Some _) =>
    if parent_writable s parent then
      (true, log s (OpUnlink (parent ++ [last])) (update_at (fs_root s) (parent ++ [last]) (fun _ => None)))
    else (false, s)
  | _ => (false, s)
  end.

(* open(O_CREAT|O_EXCL|O_WRONLY, mode): fails if anything (even a dangling link) is there.
   Returns the physical location of the new file: the open handle. *)
Definition fs_create_excl (s : fs) (p : list N) (mode : N) : option phys * fs :=
  match resolve s p false with
  | WOk parent last None =>
    if parent_writable s parent then
      let m := N.land (N.land mode 4095) (N.lxor 4095 (fs_umask s)) in
      (Some (parent ++ [last]),
       log s (OpCreate (parent ++ [last]))
           (update_at (fs_root s) (parent ++ [last]) (fun _ => Some (File true m 0 []))))
    else (None, s)
  | _ => (None, s)
  end.

(* operations on an open handle (the file created by this process) *)
Definition fs_fchmod (s : fs) (h : phys) (mode : N) : bool * fs :=
  (true, log s (OpChmod h (N.land mode 4095))
             (update_at (fs_root s) h (fun o => match o with
                                             | Some (File own _ t d) => Some (File own (N.land mode 4095) t d)
                                             | x => x end))).
Definition fs_fchown (s : fs) (h : phys) : bool * fs :=
  (fs_uid0 s, if fs_uid0 s then log s (OpChown h) (fs_root s) else s).
Definition fs_write (s : fs) (h : phys) (bytes : list N) : fs :=
  log s (OpWrite h (nlen bytes))
      (update_at (fs_root s) h (fun o => match o with
                                      | Some (File own p t d) => Some (File own p t (d ++ bytes))
                                      | x => x end)).

(* remove(): like unlink for files *)
Definition fs_remove (s : fs) (p : list N) : bool * fs := fs_unlink s p.

Definition fs_symlink (s : fs) (target p : list N) : bool * fs :=
  match resolve s p false with
  | WOk parent last None =>
    if parent_writable s parent then
      (true, log s (OpSymlink (parent ++ [last]) target)
                 (update_at (fs_root s) (parent ++ [last]) (fun _ => Some (Link target))))
    else (false, s)
  | _ => (false, s)
  end.

(* chmod / chown / utime follow links and need ownership (or root) *)
Definition with_target (s : fs) (p : list N) (k : phys -> node -> bool * fs) : bool * fs :=
  match resolve s p true with
  | WOk parent last (Some n) => k (parent ++ [last]) n
  | WDir loc => match node_at (fs_root s) loc with Some n => k loc n | None => (false, s) end
  | _ => (false, s)
  end.

Definition owned (s : fs) (n : node) : bool :=
  fs_uid0 s || match n with Dir o _ _ _ => o | File o _ _ _ => o | Link _ => true end.

Definition fs_chmod (s : fs) (p : list N) (mode : N) : bool * fs :=
  with_target s p (fun loc n =>
    if owned s n then
      (true, log s (OpChmod loc (N.land mode 4095))
                 (update_at (fs_root s) loc (fun o => match o with
                   | Some (Dir own _ t e) => Some (Dir own (N.land mode 4095) t e)
                   | Some (File own _ t d) => Some (File own (N.land mode 4095) t d)
                   | x => x end)))
    else (false, s)).

Definition fs_chown (s : fs) (p : list N) : bool * fs :=
  with_target s p (fun loc n => if fs_uid0 s then (true, log s (OpChown loc) (fs_root s)) else (false, s)).

Definition fs_utime (s : fs) (p : list N) (t : N) : bool * fs :=
  with_target s p (fun loc n =>
    if owned s n then
      (true, log s (OpUtime loc t)
                 (update_at (fs_root s) loc (fun o => match o with
                   | Some (Dir own pm _ e) => Some (Dir own pm t e)
                   | Some (File own pm _ d) => Some (File own pm t d)
                   | x => x end)))
    else (false, s)).

(* P_CliSelectFlat.v -- C06, wildcard arguments together with extraction, for an
   archive of top-level files and safe links (no directory entries):
   "lha x archive PATTERN..." extracts exactly the members whose stored name
   matches a pattern -- the others are passed over by lha_filter_next_file (the
   basic reader skips their data) -- each with its contents, mode and time.

   The archive abstraction [positionedS] gives every regular member two
   continuations: decoded (as in P_CliTree.positioned) or skipped.
   [extract_archive_selected_tree_partial] (trees with directory entries:
   fake entries passing the filter, parents made by make_parent_directories for
   a selected file whose directory entry is not selected) is NOT proved. *)
From Lhasa Require Import Base ListN DecBase Loop Generated Crc16 InputStream Header BasicReader
  AnyDecoder Decoder MacBinary Fs FsRun Reader Glob ListOut P_ListOut CliFilter CliExtract
  P_ReaderCheck P_FsExtract P_ReaderExtract P_CliExtract P_CliTree P_FsReplace P_CliOverwrite P_CliExtractGen
  P_CliTreeGen P_CliFlat P_CliFilterSkip.
From Coq Require Import ZifyBool ZifyN ZifyNat.
Local Open Scope N_scope.

Set Default Timeout 120.

Definition leaf (it : item) : Prop := match it with IDir _ _ _ => False | _ => True end.

Section SelectFlat.
  Variable mktime : N -> N -> N -> N -> Z -> N -> N.
  Variable junk : N.
  Variable f : lha_filter.
  Variables (u : N) (uid0 : bool).
  Variable bl : list name.

  Notation sel := (matches_filter f).
  Notation step := (extract_archive_step mktime junk f).
  Notation skips := (skips mktime f).

  Inductive positionedS : breader -> list member -> Prop :=
  | pS_end br : br_curr br = None -> positionedS br []
  | pS_file br h bs ms : br_curr br = Some h ->
      (forall r, rd_br r = br -> rd_type r = CT_NORMAL -> rd_curr r = Some h ->
         exists r2, member_ok junk r h bs r2 /\
           exists x br', lha_basic_reader_next_file mktime (rd_br r2) = Ok (x, br') /\ positionedS br' ms) ->
      (exists x br', lha_basic_reader_next_file mktime br = Ok (x, br') /\ positionedS br' ms) ->
      positionedS br (MFile h bs :: ms)
  | pS_other br h ms x br' : br_curr br = Some h ->
      lha_basic_reader_next_file mktime br = Ok (x, br') -> positionedS br' ms ->
      positionedS br (MOther h :: ms).

  Definition upcomingS (r : reader) (ms : list member) : Prop :=
    exists br1, fetch mktime r = Ok (br1, false) /\ positionedS br1 ms.

  (* one member is presented; if it is then left alone, the next one is upcoming *)
  Lemma present_S r m ms : rinv r [] -> upcomingS r (m :: ms) ->
    exists br1, positionedS br1 (m :: ms) /\
      lha_reader_next_file mktime r = Ok (Some (hdr m), mk_reader br1 (Some (hdr m)) CT_NORMAL [] false) /\
      upcomingS (mk_reader br1 (Some (hdr m)) CT_NORMAL [] false) ms.
  Proof.
    intros (Hpol & Hdef & Hstk & Hty) (br1 & Hf & Hpos). exists br1. split; [exact Hpos|].
    assert (Hcur : br_curr br1 = Some (hdr m)) by (inversion Hpos; subst; assumption).
    split.
    - rewrite (next_file_eq mktime r Hty), Hf. cbn [bind].
      rewrite (present_real r br1 false (hdr m) [] Hpol Hstk Hcur (or_introl eq_refl)), Hdef. reflexivity.
    - inversion Hpos as [|br0 h bs ms0 Hc Hdec (x & br' & Hbn & Hp')|br0 h ms0 x br' Hc Hbn Hp']; subst;
        (exists br'; split; [unfold fetch; cbn [mk_reader rd_type rd_br]; rewrite Hbn; reflexivity|exact Hp']).
  Qed.

  Lemma rinv_mk br1 c : rinv (mk_reader br1 c CT_NORMAL [] false) [].
  Proof. repeat split. discriminate. Qed.

  (* members that match no pattern are passed over *)
  Lemma skip_noise : forall nz r ms, rinv r [] -> upcomingS r (nz ++ ms) ->
    Forall (fun m => sel (hdr m) = false) nz ->
    exists r', rinv r' [] /\ upcomingS r' ms /\ forall x, skips r' [] x -> skips r (map hdr nz) x.
  Proof.
    induction nz as [|m nz IH]; intros r ms Hrinv Hup Hall.
    - exists r. auto.
    - inversion Hall as [|m0 l0 Hm Hrest]; subst. cbn [app] in Hup.
      destruct (present_S r m (nz ++ ms) Hrinv Hup) as (br1 & _ & Hnext & Hup1).
      destruct (IH _ ms (rinv_mk br1 _) Hup1 Hrest) as (r' & Hr' & Hup' & Hsk).
      exists r'. split; [exact Hr'|]. split; [exact Hup'|]. intros x Hx. cbn [map].
      eapply sk_skip; [exact Hnext|exact Hm|]. apply Hsk. exact Hx.
  Qed.

  Lemma step_entry_sel b st hs h r' st2 : skips (cs_reader st) hs (Some h, r') -> N.of_nat (length hs) < 2 ^ 40 ->
    extract_archived_file junk h (set_reader st r') = Ok (RVal true, st2) ->
    step (b, st) = Ok (inl (b, st2)).
  Proof.
    intros Hs Hk He. destruct (filter_next_file_skips mktime f _ _ _ Hs Hk) as [Hf _].
    unfold extract_archive_step, next_header. rewrite Hf. cbn [bind]. rewrite He. reflexivity.
  Qed.

  Lemma step_end_sel b st hs r' : skips (cs_reader st) hs (None, r') -> N.of_nat (length hs) < 2 ^ 40 ->
    step (b, st) = Ok (inr (RVal b, set_reader st r')).
  Proof.
    intros Hs Hk. destruct (filter_next_file_skips mktime f _ _ _ Hs Hk) as [Hf _].
    unfold extract_archive_step, next_header. rewrite Hf. reflexivity.
  Qed.

  (* the selected items, in order *)
  Fixpoint chosen (its : list item) : list item :=
    match its with
    | [] => []
    | it :: r => if sel (ihdr it) then it :: chosen r else chosen r
    end.

  Lemma chosen_in it its : In it (chosen its) -> In it its.
  Proof.
    induction its as [|x r IH]; [intros []|]. cbn [chosen]. destruct (sel (ihdr x)).
    - intros [->|H]; [left; reflexivity|right; apply IH; exact H].
    - intros H. right. apply IH. exact H.
  Qed.

  Lemma flat_sel_run : forall its nz st b o pm t ents,
    Forall (wf_item u uid0 []) its -> Forall leaf its -> Forall (fits bl []) its -> NoDup (map iname its) ->
    (forall c, In c (map iname its) -> lookup ents c = None) ->
    pfx_opts bl (cs_opts st) -> fs_umask (cs_fs st) = u -> fs_uid0 (cs_fs st) = uid0 ->
    dir_ready (cs_fs st) bl o pm t ents ->
    rinv (cs_reader st) [] -> upcomingS (cs_reader st) (nz ++ flat_map ser its) ->
    Forall (fun m => sel (hdr m) = false) nz ->
    N.of_nat (length nz + length its) < 2 ^ 40 ->
    exists st' nz', iters step (length (chosen its)) (b, st) (b, st') /\
      cs_opts st' = cs_opts st /\ same_env (cs_fs st) (cs_fs st') /\
      rinv (cs_reader st') [] /\ upcomingS (cs_reader st') nz' /\
      Forall (fun m => sel (hdr m) = false) nz' /\ (length nz' <= length nz + length its)%nat /\
      added (cs_fs st) (cs_fs st') (fs_cwd (cs_fs st) ++ bl) o pm ents (builds u (chosen its)).
  Proof.
    induction its as [|it more IH]; intros nz st b o pm t ents Hwf Hleaf Hfit Hnd Hfresh Hopts Hum Huid Hready Hrinv Hup Hnz Hk.
    - exists st, nz. cbn [chosen length flat_map] in *. rewrite app_nil_r in Hup.
      split; [constructor|]. split; [reflexivity|]. split; [apply same_env_refl|]. split; [exact Hrinv|].
      split; [exact Hup|]. split; [exact Hnz|]. split; [lia|]. cbn [builds map added]. reflexivity.
    - inversion Hwf as [|x1 l1 Hit Hmore]; subst x1 l1. inversion Hleaf as [|x2 l2 Hlf Hlmore]; subst x2 l2.
      inversion Hfit as [|x3 l3 Hfi Hfm]; subst x3 l3. cbn [map] in Hnd. inversion Hnd as [|x4 l4 Hnin Hnd']; subst x4 l4.
      pose proof Hopts as (Hu & Hdry & Hfull).
      assert (Hgbl : Forall good_name bl) by (destruct Hready as (Hg0 & _); exact Hg0).
      cbn [chosen]. destruct (sel (ihdr it)) eqn:Es.
      + (* selected: the pending ones are passed over, then it is extracted *)
        cbn [flat_map] in Hup.
        assert (Hser : exists m, ser it = [m] /\ hdr m = ihdr it).
        { destruct it as [c h bs|c h tgt|c h sub]; [eexists; split; reflexivity|eexists; split; reflexivity|destruct Hlf]. }
        destruct Hser as (m & Hser & Hm). rewrite Hser in Hup. cbn [app] in Hup.
        destruct (skip_noise nz _ _ Hrinv Hup Hnz) as (r' & Hr' & Hup' & Hsk).
        destruct (present_S r' m _ Hr' Hup') as (br1 & Hpos & Hnext & Hup1). rewrite Hm in Hnext.
        set (r1 := mk_reader br1 (Some (ihdr it)) CT_NORMAL [] false) in *.
        assert (Hskips : skips (cs_reader st) (map hdr nz) (Some (ihdr it), r1)).
        { apply Hsk. apply sk_hit; [exact Hnext|exact Es]. }
        assert (Hklen : N.of_nat (length (map hdr nz)) < 2 ^ 40) by (rewrite map_length; cbn [length] in Hk; lia).
        assert (Hhead : exists st2, extract_archived_file junk (ihdr it) (set_reader st r1) = Ok (RVal true, st2) /\
                  cs_opts st2 = cs_opts st /\ same_env (cs_fs st) (cs_fs st2) /\ rinv (cs_reader st2) [] /\
                  upcomingS (cs_reader st2) (flat_map ser more) /\
                  fs_root (cs_fs st2) = update_at (fs_root (cs_fs st)) (fs_cwd (cs_fs st) ++ bl)
                                          (const_some (Dir o pm now (ents ++ [(iname it, build u it)])))).
        { destruct it as [c h bs|c h tgt|c h sub]; [| |destruct Hlf]; cbn [wf_item] in Hit; cbn [fits] in Hfi;
            cbn [ihdr iname build] in *; rewrite app_nil_r in Hfi.
          - destruct Hit as (Hc & _ & (Hp & Hf & Hdm & Hsl & Hos) & Hmode).
            inversion Hser; subst m.
            inversion Hpos as [|br0 h0 bs0 ms0 Hcur Hdec _|]; subst br0 h0 bs0 ms0.
            destruct (Hdec r1 eq_refl eq_refl eq_refl) as (r2 & Hmem & x & br' & Hbn & Hpos').
            assert (Hl0 : lookup ents c = None) by (apply Hfresh; left; reflexivity).
            assert (Hmode' : fs_uid0 (cs_fs st) = true \/ drop_setid (file_mode (cs_fs st) h) = file_mode (cs_fs st) h).
            { change (file_mode (cs_fs st) h) with (fmode (fs_umask (cs_fs st)) h). rewrite Hum.
              destruct Hmode as [Hmo|Hmo]; [left; congruence|right; exact Hmo]. }
            assert (Hfn : file_full_path h (cs_opts st) = dirstr bl ++ c).
            { rewrite (Hfull h [] (Forall_nil _) Hp), Hf, (skip_slashes_name c Hc), app_nil_r. reflexivity. }
            destruct (gen_file junk h (set_reader st r1) bl c o pm t ents bs r2) as (st2 & Hex & Hrd2 & Hopts2 & Henv2 & Hroot2); auto.
            cbn [cs_fs set_reader cs_opts] in *.
            pose proof (member_ok_book junk r1 h bs r2 Hmem) as Hbook. unfold book in Hbook.
            cbn [r1 mk_reader rd_curr rd_type rd_policy rd_dir_stack rd_deferred rd_linked] in Hbook.
            injection Hbook as B1 B2 B3 B4 B5 B6.
            exists st2. split; [exact Hex|]. split; [exact Hopts2|]. split; [exact Henv2|].
            split; [rewrite Hrd2; split; [exact B3|]; split; [exact B5|]; split; [exact B4|]; rewrite B2; discriminate|].
            split; [rewrite Hrd2; exists br'; split; [unfold fetch; rewrite B2, Hbn; reflexivity|exact Hpos']|].
            rewrite Hroot2. change (file_mode (cs_fs st) h) with (fmode (fs_umask (cs_fs st)) h). rewrite Hum. reflexivity.
          - destruct Hit as (Hc & _ & (Hp & Hf & Hdm & Hsl & Hsafe & Htne & Htlen)).
            inversion Hser; subst m.
            assert (Hl0 : lookup ents c = None) by (apply Hfresh; left; reflexivity).
            assert (Hfn : file_full_path h (cs_opts st) = dirstr bl ++ c).
            { rewrite (Hfull h [] (Forall_nil _) Hp), Hf, (skip_slashes_name c Hc), app_nil_r. reflexivity. }
            destruct (gen_link junk h (set_reader st r1) bl c o pm t ents tgt) as (st2 & Hex & Hopts2 & Hrd2 & Henv2 & Hroot2); auto.
            cbn [cs_fs set_reader cs_opts cs_reader] in *.
            exists st2. split; [exact Hex|]. split; [exact Hopts2|]. split; [exact Henv2|].
            split; [rewrite Hrd2; apply rinv_mk|]. split; [rewrite Hrd2; exact Hup1|exact Hroot2]. }
        destruct Hhead as (st2 & Hex & Hopts2 & Henv2 & Hrinv2 & Hup2 & Hroot2).
        assert (Hready2 : dir_ready (cs_fs st2) bl o pm now (ents ++ [(iname it, build u it)])) by (eapply dir_ready_update; eauto).
        destruct (IH [] st2 b o pm now (ents ++ [(iname it, build u it)])) as
            (st' & nz' & Hit' & Hopts' & Henv' & Hrinv' & Hup3 & Hnz' & Hlen' & Hadd'); auto.
        { intros c Hin. rewrite lookup_app_none by (apply Hfresh; right; exact Hin). cbn [lookup].
          rewrite name_eqb_neq; [reflexivity|]. intros E. subst c. contradiction. }
        { rewrite Hopts2. exact Hopts. }
        { destruct Henv2 as (_ & _ & E). congruence. }
        { destruct Henv2 as (_ & E & _). congruence. }
        { cbn [length] in *. lia. }
        exists st', nz'. cbn [length].
        split; [econstructor; [eapply step_entry_sel; eauto|exact Hit']|].
        split; [congruence|]. split; [exact (same_env_trans _ _ _ Henv2 Henv')|]. split; [exact Hrinv'|].
        split; [exact Hup3|]. split; [exact Hnz'|]. split; [cbn [length] in Hlen'; lia|].
        assert (Hcwd2 : fs_cwd (cs_fs st2) = fs_cwd (cs_fs st)) by apply Henv2.
        change (builds u (it :: chosen more)) with ([(iname it, build u it)] ++ builds u (chosen more)).
        eapply added_trans; [exact Hcwd2|exact Hroot2|]. rewrite <- Hcwd2. exact Hadd'.
      + (* not selected: it joins the pending ones *)
        assert (Hser : exists m, ser it = [m] /\ hdr m = ihdr it).
        { destruct it as [c h bs|c h tgt|c h sub]; [eexists; split; reflexivity|eexists; split; reflexivity|destruct Hlf]. }
        destruct Hser as (m & Hser & Hm). cbn [flat_map] in Hup. rewrite Hser in Hup. cbn [app] in Hup.
        destruct (IH (nz ++ [m]) st b o pm t ents) as (st' & nz' & Hit' & Hopts' & Henv' & Hrinv' & Hup' & Hnz' & Hlen' & Hadd'); auto.
        { intros c Hin. apply Hfresh. right. exact Hin. }
        { rewrite <- app_assoc. exact Hup. }
        { apply Forall_app. split; [exact Hnz|]. constructor; [rewrite Hm; exact Es|constructor]. }
        { rewrite app_length. cbn [length] in *. lia. }
        exists st', nz'. split; [exact Hit'|]. split; [exact Hopts'|]. split; [exact Henv'|]. split; [exact Hrinv'|].
        split; [exact Hup'|]. split; [exact Hnz'|]. split; [rewrite app_length in Hlen'; cbn [length] in *; lia|exact Hadd'].
  Qed.

  (* "lha x archive PATTERN...": exactly the matching members are extracted *)
  Theorem extract_archive_selected_flat its st o pm t ents :
    let s := cs_fs st in
    Forall (wf_item u uid0 []) its -> Forall leaf its -> Forall (fits bl []) its -> NoDup (map iname its) ->
    (forall c, In c (map iname its) -> lookup ents c = None) ->
    pfx_opts bl (cs_opts st) -> fs_umask s = u -> fs_uid0 s = uid0 ->
    dir_ready s bl o pm t ents ->
    rinv (cs_reader st) [] -> upcomingS (cs_reader st) (flat_map ser its) ->
    N.of_nat (length its) < 2 ^ 40 ->
    exists st', extract_archive mktime junk f st = Ok (RVal true, st') /\
      same_env s (cs_fs st') /\
      added s (cs_fs st') (fs_cwd s ++ bl) o pm ents (builds u (chosen its)) /\
      (* chosen = the items some pattern matches (or all, without patterns) *)
      (forall it, In it (chosen its) <->
         In it its /\ (f_filters f = [] \/ exists g, In g (f_filters f) /\
                        matches g (opt_str (h_path (ihdr it)) ++ opt_str (h_filename (ihdr it))))).
  Proof.
    intros s Hwf Hleaf Hfit Hnd Hfresh Hopts Hum Huid Hready Hrinv Hup Hk.
    destruct (flat_sel_run its [] st true o pm t ents Hwf Hleaf Hfit Hnd Hfresh Hopts Hum Huid Hready Hrinv Hup
                (Forall_nil _) ltac:(cbn [length]; lia))
      as (st1 & nz' & Hit & Hopts1 & Henv1 & Hrinv1 & Hup1 & Hnz1 & Hlen1 & Hadd1).
    rewrite <- (app_nil_r nz') in Hup1.
    destruct (skip_noise nz' _ [] Hrinv1 Hup1 Hnz1) as (r' & (Hpol' & Hdef' & Hstk' & Hty') & (br1 & Hf1 & Hpos1) & Hsk).
    assert (Hcur1 : br_curr br1 = None) by (inversion Hpos1; assumption).
    assert (Hnext : exists r'', lha_reader_next_file mktime r' = Ok (None, r'')).
    { rewrite (next_file_eq mktime _ Hty'), Hf1. cbn [bind]. rewrite (present_end _ br1 false Hstk' Hdef' Hcur1). eauto. }
    destruct Hnext as [r'' Hnext].
    assert (Hend : step (true, st1) = Ok (inr (RVal true, set_reader st1 r''))).
    { eapply step_end_sel; [apply Hsk; apply sk_end; exact Hnext|]. rewrite map_length. cbn [length] in Hlen1. lia. }
    exists (set_reader st1 r''). split.
    - unfold extract_archive. destruct Hopts as (_ & Hd & _). rewrite Hd.
      eapply loop_complete_N; [eapply loops_after_iters; [exact Hit|constructor; exact Hend]|].
      rewrite Nat.add_0_r.
      assert (Hle : (length (chosen its) <= length its)%nat).
      { clear. induction its as [|x r IH]; [reflexivity|]. cbn [chosen length]. destruct (sel (ihdr x)); cbn [length]; lia. }
      lia.
    - cbn [cs_fs set_reader]. split; [exact Henv1|]. split; [exact Hadd1|].
      intros it. rewrite <- selected_iff. clear. induction its as [|x r IH]; [cbn [chosen]; split; [intros []|intros [[] _]]|].
      cbn [chosen]. destruct (sel (ihdr x)) eqn:E; cbn [In]; rewrite IH; split.
      + intros [->|[A B]]; [split; [left; reflexivity|exact E]|split; [right; exact A|exact B]].
      + intros [[->|A] B]; [left; reflexivity|right; split; assumption].
      + intros [A B]. split; [right; exact A|exact B].
      + intros [[->|A] B]; [congruence|split; assumption].
  Qed.
End SelectFlat.

Print Assumptions flat_sel_run.
Print Assumptions extract_archive_selected_flat.

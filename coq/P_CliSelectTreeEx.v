(* P_CliSelectTreeEx.v -- non-vacuity of extract_archive_selected_tree: the archive
     d/ (0555, 2010-01-01)   d/a.txt "hello world\n" (0644)   d/b.bin 5 bytes (0600)   e.txt "top\n" (0640)
   satisfies every hypothesis of the theorem;
     "lha x archive *.txt"  extracts d/a.txt and e.txt: d is made by make_parent_directories
                            (0755 & ~022, time of creation), not with its recorded 0555 and date;
     "lha x archive d/*"    extracts d/ (the pattern matches "d/"), d/a.txt, d/b.bin: d gets 0555 and its date;
     "lha x archive d/"     extracts the directory alone;
     "lha x archive d/b*"   extracts d/b.bin inside a d made by make_parent_directories.
   The same trees come out of the whole command (cli_run) by computation. *)
From Lhasa Require Import Base ListN DecBase Loop Generated Crc16 InputStream Header BasicReader
  AnyDecoder Decoder MacBinary Fs FsRun Reader Glob ListOut CliFilter CliExtract CliMain
  P_ReaderCheck P_FsExtract P_ReaderExtract P_CliExtract P_CliTree P_FsReplace P_CliOverwrite P_CliExtractGen
  P_CliTreeGen P_CliFlat P_CliFilterSkip P_CliSelectFlat P_CliSelectTree.
From Coq Require Import ZifyBool ZifyN ZifyNat.
Local Open Scope N_scope.

Definition t_arc : list N :=
  [41;0;45;108;104;100;45;0;0;0;0;0;0;0;0;0;59;61;75;32;2;0;0;85;5;0;0;137;16;5;0;2;100;255;5;0;80;109;65;0;0;49;0;45;108;104;48;45;12;0;0;0;12;0;0;0;0;202;154;59;32;2;120;151;85;5;0;0;203;171;8;0;1;97;46;116;120;116;5;0;2;100;255;5;0;80;164;129;0;0;104;101;108;108;111;32;119;111;114;108;100;10;49;0;45;108;104;48;45;5;0;0;0;5;0;0;0;1;202;154;59;32;2;224;140;85;5;0;0;210;45;8;0;1;98;46;98;105;110;5;0;2;100;255;5;0;80;128;129;0;0;0;1;2;3;255;44;0;45;108;104;48;45;4;0;0;0;4;0;0;0;2;202;154;59;32;2;142;42;85;5;0;0;16;126;8;0;1;101;46;116;120;116;5;0;80;160;129;0;0;116;111;112;10;0].

Definition t_br0 : breader := lha_basic_reader_new (lha_input_stream_new (mk_source KFile t_arc)).
Definition t_next (br : breader) : option header * breader :=
  match lha_basic_reader_next_file mktime_utc br with Ok x => x | _ => (None, br) end.
Definition t_hdr (br : breader) : header := match fst (t_next br) with Some h => h | None => header0 [] end.
Definition t_br1 := snd (t_next t_br0).
Definition t_hd : header := t_hdr t_br0.
Definition t_br2 := snd (t_next t_br1).
Definition t_ha : header := t_hdr t_br1.
Definition t_br3 := snd (t_next t_br2).
Definition t_hb : header := t_hdr t_br2.
Definition t_he : header := t_hdr t_br3.

Definition n_d : name := [100].
Definition n_a : name := [97; 46; 116; 120; 116].
Definition n_b : name := [98; 46; 98; 105; 110].
Definition n_e : name := [101; 46; 116; 120; 116].
Definition d_a : list N := [104; 101; 108; 108; 111; 32; 119; 111; 114; 108; 100; 10].
Definition d_b : list N := [0; 1; 2; 3; 255].
Definition d_e : list N := [116; 111; 112; 10].

Definition t_items : list item :=
  [IDir n_d t_hd [IFile n_a t_ha d_a; IFile n_b t_hb d_b]; IFile n_e t_he d_e].

Example t_headers :
  h_path t_hd = Some (dirstr [n_d]) /\ h_filename t_hd = None /\ is_dir_method t_hd = true /\
  h_unix_perms t_hd = 16749 /\ h_timestamp t_hd = 1262304000 /\
  h_path t_ha = Some (dirstr [n_d]) /\ h_filename t_ha = Some n_a /\ h_path t_hb = Some (dirstr [n_d]) /\
  h_filename t_hb = Some n_b /\ h_path t_he = None /\ h_filename t_he = Some n_e.
Proof. repeat split; vm_compute; reflexivity. Qed.

Ltac dd_tac :=
  first [eapply dd_last; vm_compute; reflexivity
        |eapply dd_more; [ |vm_compute; reflexivity| ]; [discriminate|dd_tac]].

Ltac decode_clause :=
  let r := fresh "r" in let Hbr := fresh "Hbr" in let Hty := fresh "Hty" in let Hcur := fresh "Hcur" in
  intros r Hbr Hty Hcur; destruct r; cbn in Hbr, Hty, Hcur; subst;
  eexists; split;
  [unfold member_ok; eexists _, _, _; split; [vm_compute; reflexivity|];
   split; [dd_tac|]; split; [reflexivity|]; split; [vm_compute; reflexivity|cbn; lia]
  |].

Ltac pos_tac :=
  first [apply pS_end; vm_compute; reflexivity
        |eapply pS_other; [vm_compute; reflexivity|vm_compute; reflexivity|pos_tac]
        |apply pS_file; [vm_compute; reflexivity
                        |decode_clause; eexists _, _; split; [vm_compute; reflexivity|pos_tac]
                        |eexists _, _; split; [vm_compute; reflexivity|pos_tac]]].

Example t_positioned :
  positionedS mktime_utc 0 t_br1 [MOther t_hd; MFile t_ha d_a; MFile t_hb d_b; MFile t_he d_e].
Proof. pos_tac. Qed.

Ltac good_name_tac := split; [discriminate|split; [repeat constructor; discriminate|repeat split; vm_compute; reflexivity]].

Ltac file_tac :=
  cbn [wf_item]; split; [good_name_tac|]; split; [vm_compute; discriminate|];
  split; [repeat split; vm_compute; reflexivity|]; right; vm_compute; reflexivity.

Example t_wf : Forall (wf_item 18 false []) t_items.
Proof.
  constructor; [|constructor; [|constructor]].
  - cbn [wf_item]. split; [good_name_tac|]. split; [vm_compute; discriminate|].
    split; [repeat split; vm_compute; reflexivity|].
    split; [repeat constructor; cbn; intuition discriminate|].
    split; [|split; [|exact I]]; file_tac.
  - file_tac.
Qed.

Example t_fits : Forall (fits [] []) t_items.
Proof.
  constructor; [|constructor; [|constructor]]; cbn [fits].
  - split; [vm_compute; discriminate|]. split; [vm_compute; discriminate|]. split; [vm_compute; discriminate|exact I].
  - vm_compute. discriminate.
Qed.

Definition t_fs : fs := cli_fs_init false t_arc 1200000000 [].
Definition t_st : cli_state :=
  {| cs_fs := t_fs; cs_reader := lha_reader_new (lha_input_stream_new (mk_source KFile t_arc));
     cs_opts := init_options; cs_stdin := []; cs_stdin_shared := false; cs_out := []; cs_err := [] |}.

(* the theorem applies, whatever the patterns *)
Lemma t_instance (pats : list (list N)) :
  let f := lha_filter_init pats in
  exists st', extract_archive mktime_utc 0 f t_st = Ok (RVal true, st') /\
    match sbuilds f 18 t_items with
    | [] => cs_fs st' = t_fs
    | X => fs_root (cs_fs st') = update_at (fs_root t_fs) (fs_cwd t_fs ++ []) (const_some (Dir true 493 now ([] ++ X)))
    end.
Proof.
  intros f.
  destruct (extract_archive_selected_tree mktime_utc 0 f 18 false (conj eq_refl eq_refl) [] t_items t_st true 493 0 [])
    as (st' & Hex & _ & _ & Hres).
  - exact t_wf.
  - exact t_fits.
  - constructor; [intros [H|[]]; discriminate|]. constructor; [intros []|constructor].
  - intros c _. reflexivity.
  - apply pfx_plain. repeat split.
  - reflexivity.
  - reflexivity.
  - split; [constructor|]. split.
    + apply chain_nil. exists true, 493, 0, []. split; vm_compute; reflexivity.
    + split; vm_compute; reflexivity.
  - reflexivity.
  - repeat split. discriminate.
  - exists t_br1. split; [vm_compute; reflexivity|exact t_positioned].
  - vm_compute. reflexivity.
  - exists st'. split; [exact Hex|exact Hres].
Qed.

Definition pat_txt : list (list N) := [[42; 46; 116; 120; 116]].     (* *.txt *)
Definition pat_dstar : list (list N) := [[100; 47; 42]].            (* d/* *)
Definition pat_d : list (list N) := [[100; 47]].                    (* d/ *)
Definition pat_db : list (list N) := [[100; 47; 98; 42]].           (* d/b* *)
Definition pat_none : list (list N) := [[120; 42]].                 (* x* *)

Definition f_a : node := File true 420 1000000000 d_a.
Definition f_b : node := File true 384 1000000001 d_b.
Definition f_e : node := File true 416 1000000002 d_e.

(* *.txt: d is an implicit parent (0755, no time stamp applied), b.bin is not there *)
Example t_sbuilds_txt : sbuilds (lha_filter_init pat_txt) 18 t_items = [(n_d, Dir true 493 now [(n_a, f_a)]); (n_e, f_e)].
Proof. vm_compute. reflexivity. Qed.
(* d/*: the directory entry is selected too: recorded mode 0555 and time, both files; e.txt is not there *)
Example t_sbuilds_dstar : sbuilds (lha_filter_init pat_dstar) 18 t_items = [(n_d, Dir true 365 1262304000 [(n_a, f_a); (n_b, f_b)])].
Proof. vm_compute. reflexivity. Qed.
Example t_sbuilds_d : sbuilds (lha_filter_init pat_d) 18 t_items = [(n_d, Dir true 365 1262304000 [])].
Proof. vm_compute. reflexivity. Qed.
Example t_sbuilds_db : sbuilds (lha_filter_init pat_db) 18 t_items = [(n_d, Dir true 493 now [(n_b, f_b)])].
Proof. vm_compute. reflexivity. Qed.
Example t_sbuilds_none : sbuilds (lha_filter_init pat_none) 18 t_items = [].
Proof. vm_compute. reflexivity. Qed.
Example t_sbuilds_all : sbuilds (lha_filter_init []) 18 t_items = builds 18 t_items.
Proof. vm_compute. reflexivity. Qed.

Example t_selected_txt :
  exists st', extract_archive mktime_utc 0 (lha_filter_init pat_txt) t_st = Ok (RVal true, st') /\
    fs_root (cs_fs st') = update_at (fs_root t_fs) (fs_cwd t_fs ++ [])
      (const_some (Dir true 493 now ([] ++ [(n_d, Dir true 493 now [(n_a, f_a)]); (n_e, f_e)]))).
Proof. pose proof (t_instance pat_txt) as H. cbv zeta in H. rewrite t_sbuilds_txt in H. exact H. Qed.

Example t_selected_dstar :
  exists st', extract_archive mktime_utc 0 (lha_filter_init pat_dstar) t_st = Ok (RVal true, st') /\
    fs_root (cs_fs st') = update_at (fs_root t_fs) (fs_cwd t_fs ++ [])
      (const_some (Dir true 493 now ([] ++ [(n_d, Dir true 365 1262304000 [(n_a, f_a); (n_b, f_b)])]))).
Proof. pose proof (t_instance pat_dstar) as H. cbv zeta in H. rewrite t_sbuilds_dstar in H. exact H. Qed.

Example t_selected_none :
  exists st', extract_archive mktime_utc 0 (lha_filter_init pat_none) t_st = Ok (RVal true, st') /\ cs_fs st' = t_fs.
Proof. pose proof (t_instance pat_none) as H. cbv zeta in H. rewrite t_sbuilds_none in H. exact H. Qed.

(* the whole command, by computation: lha x /arc/a.lzh PATTERN *)
Definition t_run (pats : list (list N)) : option (N * option node) :=
  match cli_run mktime_utc gmtime_utc (fun _ => []) false 1300000000 1200000000
          ([[108; 104; 97]; [120]; [47; 97; 114; 99; 47; 97; 46; 108; 122; 104]] ++ pats) t_arc [] [] with
  | Ok r => Some (cr_exit r, Fs.node_at (fs_root (cr_fs r)) (fs_cwd (cr_fs r)))
  | _ => None
  end.

Example t_run_txt : t_run pat_txt = Some (0, Some (Dir true 493 now [(n_d, Dir true 493 now [(n_a, f_a)]); (n_e, f_e)])).
Proof. vm_compute. reflexivity. Qed.
Example t_run_dstar : t_run pat_dstar = Some (0, Some (Dir true 493 now [(n_d, Dir true 365 1262304000 [(n_a, f_a); (n_b, f_b)])])).
Proof. vm_compute. reflexivity. Qed.
Example t_run_d : t_run pat_d = Some (0, Some (Dir true 493 now [(n_d, Dir true 365 1262304000 [])])).
Proof. vm_compute. reflexivity. Qed.
Example t_run_db : t_run pat_db = Some (0, Some (Dir true 493 now [(n_d, Dir true 493 now [(n_b, f_b)])])).
Proof. vm_compute. reflexivity. Qed.

Print Assumptions t_instance.
Print Assumptions t_selected_txt.
Print Assumptions t_selected_dstar.

(* P_Pm2.v -- the model of lib/pm2_decoder.c (Pm2.v) never faults: for ANY
   input and callback chunking one pm2_read returns Ok (no Fault at sites
   930-936, 901-928 of PmaCommon, 601-607 of Tree, 101 of the bit reader; no
   OutOfFuel) with at most pm2_max_read bytes and keeps the invariant.

   Invariant pm2_inv P: ring of its C extent, write position inside it, bit
   reader satisfying P, history list well formed (P_PmaCommon), both trees closed
   (P_Tree), every leaf of the offset tree holds a symbol below 8 (so
   1 << (val + 5) shifts by at most 12: site 935), and the segment counter is in
   1..4096 once the first tables have been read (so the size_t decrement never
   wraps).

     pm2_read_total                     : for any reader predicate P kept by read_bits
     pm2_init_wf, pm2_never_faults      : P = bsr_wf, callbacks returning bytes
     pm2_init_ok_ok, pm2_never_faults_len : P = bsr_ok, callbacks only known to
                                          return at most as many values as asked *)
From Lhasa Require Import Base ListN DecBase BitReader Loop Sweep Tree PmaCommon Generated Pm2
  P_BitReader P_Tree P_PmaCommon.
From Coq Require Import ZifyBool ZifyN ZifyNat.
Local Open Scope N_scope.

(* ------------------------------------------------------------------ *)
(* Output buffer                                                       *)

Definition obw (o : obuf) : Prop := ob_len o = nlen (ob_rev o).

Lemma obw_empty : obw ob_empty.
Proof. reflexivity. Qed.

Lemma ob_push_ok site max o b : obw o -> ob_len o < max ->
  exists o', ob_push site max o b = Ok o' /\ obw o' /\ ob_len o' = ob_len o + 1.
Proof.
  intros Hw Hl. unfold ob_push. destruct (N.ltb_spec (ob_len o) max) as [_|H]; [|lia].
  eexists. split; [reflexivity|]. unfold obw in *. cbn [ob_len ob_rev]. rewrite nlen_cons. lia.
Qed.

Lemma nlen_ob_bytes o : obw o -> nlen (ob_bytes o) = ob_len o.
Proof.
  intros Hw. unfold ob_bytes. rewrite rev_append_rev, app_nil_r, nlen_rev. symmetry. exact Hw.
Qed.

(* ------------------------------------------------------------------ *)
(* A per-entry property of trees kept by build_tree                    *)

Definition allP (P : N -> Prop) (t : arr) : Prop := forall i, P (aget t i).

Lemma allP_aset P t i v : allP P t -> P v -> allP P (aset t i v).
Proof. intros Ht Hv j. rewrite aget_aset. destruct (i =? j); [exact Hv|apply Ht]. Qed.

Section BuildAllP.
  Variable P : N -> Prop.
  Hypothesis Psmall : forall v, v < 128 -> P v.

  Lemma expand_loop_allP n : forall b e b',
    b_len b <= 128 -> b_allocated b + 2 * (e - b_next b) <= b_len b -> allP P (b_tree b) ->
    expand_loop 128 n b e = Ok b' -> allP P (b_tree b') /\ b_len b' = b_len b.
  Proof.
    induction n as [|n IH]; intros b e b' Hlen Hroom Ht H.
    - cbn [expand_loop] in H. injection H as <-. split; [exact Ht|reflexivity].
    - rewrite expand_loop_S in H. destruct (N.ltb_spec (b_next b) e) as [Hlt|Hge].
      + apply bind_ok in H. destruct H as (t' & Hw & H). apply wr_inv in Hw. destruct Hw as [_ ->].
        apply IH in H; cbn [b_tree b_len b_allocated b_next]; try lia.
        * cbn [b_len] in H. exact H.
        * apply allP_aset; [exact Ht|]. apply Psmall.
          rewrite (elem_small 128 7 eq_refl) by lia. lia.
      + injection H as <-. split; [exact Ht|reflexivity].
  Qed.

  Lemma expand_queue_allP b b' : b_len b <= 128 -> allP P (b_tree b) ->
    expand_queue 128 b = Ok b' -> allP P (b_tree b') /\ b_len b' = b_len b.
  Proof.
    intros Hlen Ht H. unfold expand_queue in H.
    destruct (N.ltb_spec (b_len b) (b_allocated b + (b_allocated b - b_next b) * 2)) as [Hlt|Hge].
    - injection H as <-. split; [exact Ht|reflexivity].
    - apply expand_loop_allP in H; try assumption. lia.
  Qed.

  Variable num : N.
  Hypothesis Pleaf : forall j, j < num -> P (N.lor (elem 128 j) 128).

  Lemma add_codes_loop_allP n : forall b cl i code_len rem b' r,
    i + N.of_nat n <= num -> allP P (b_tree b) ->
    add_codes_loop 128 n b cl i code_len rem = Ok (b', r) ->
    allP P (b_tree b') /\ b_len b' = b_len b.
  Proof.
    induction n as [|n IH]; intros b cl i code_len rem b' r Hn Ht H.
    - cbn [add_codes_loop] in H. injection H as <- _. split; [exact Ht|reflexivity].
    - rewrite add_codes_loop_S in H. apply bind_ok in H. destruct H as (l & _ & H).
      destruct (l =? code_len).
      + unfold read_next_entry in H.
        destruct (b_allocated b <=? b_next b); cbv beta iota zeta in H;
          cbn [b_tree b_len b_allocated b_next] in H;
          apply bind_ok in H; destruct H as (t' & Hw & H); apply wr_inv in Hw; destruct Hw as [_ ->];
          apply IH in H; cbn [b_tree b_len] in *; try lia; try exact H;
          (apply allP_aset; [exact Ht|apply Pleaf; lia]).
      + apply IH in H; try lia; assumption.
  Qed.

  Lemma build_loop_allP fuel : forall b cl code_len b',
    b_len b <= 128 -> allP P (b_tree b) ->
    build_loop 128 fuel b cl num code_len = Ok b' -> allP P (b_tree b').
  Proof.
    induction fuel as [|f IH]; intros b cl code_len b' Hlen Ht H; [discriminate|].
    rewrite build_loop_S in H. apply bind_ok in H. destruct H as (b1 & E1 & H).
    destruct (expand_queue_allP b b1 Hlen Ht E1) as [Ht1 Hl1].
    apply bind_ok in H. destruct H as ([b2 more] & E2 & H).
    unfold add_codes_with_length in E2.
    apply add_codes_loop_allP in E2; [|lia|exact Ht1]. destruct E2 as [Ht2 Hl2].
    destruct more.
    - apply IH in H; [exact H|lia|exact Ht2].
    - injection H as <-. exact Ht2.
  Qed.

  Lemma build_tree_allP t tree_len cl t' : tree_len <= 128 -> allP P t ->
    build_tree 128 t tree_len cl num = Ok t' -> allP P t'.
  Proof.
    intros Hlen Ht H. unfold build_tree in H. apply bind_ok in H. destruct H as (b & E & H).
    injection H as <-. apply build_loop_allP in E; [exact E|exact Hlen|exact Ht].
  Qed.
End BuildAllP.

(* "every leaf holds a symbol below m" *)
Definition leaf_lt (m v : N) : Prop := is_leaf 128 v = true -> N.land v 127 < m.
Definition leaves_lt (t : arr) (m : N) : Prop := allP (leaf_lt m) t.

Lemma small_not_leaf_sweep : sweep 7 (fun v => negb (is_leaf 128 v)) 0 = true.
Proof. vm_compute. reflexivity. Qed.

Lemma leaf_lt_small m v : v < 128 -> leaf_lt m v.
Proof.
  intros Hv Hl. pose proof (sweep_below 7 _ small_not_leaf_sweep v Hv) as E. cbv beta in E.
  rewrite Hl in E. discriminate.
Qed.

Lemma leaf8_sweep : sweep 3 (fun j => N.land (N.lor (elem 128 j) 128) 127 <? 8) 0 = true.
Proof. vm_compute. reflexivity. Qed.

Lemma leaf_lt_leaf8 j : j < 8 -> leaf_lt 8 (N.lor (elem 128 j) 128).
Proof.
  intros Hj _. pose proof (sweep_below 3 _ leaf8_sweep j Hj) as E. cbv beta in E. lia.
Qed.

(* ------------------------------------------------------------------ *)
(* Invariant                                                           *)

Lemma pm2_ring_mod_lt x : pm2_ring_mod x < pm2_RING_BUFFER_SIZE.
Proof.
  unfold pm2_ring_mod. destruct (N.ltb_spec x pm2_RING_BUFFER_SIZE) as [H|H]; [exact H|].
  apply N.mod_lt. unfold pm2_RING_BUFFER_SIZE. lia.
Qed.

Section Gen.
(* the reader's part of the invariant is left open: bsr_wf for byte-valued
   input, bsr_ok for callbacks only known to return at most what was asked *)
Variable P : bsr -> Prop.

Definition pm2_safe (s : pm2_state) : Prop :=
  alen (pm2_ringbuf s) = pm2_ringbuf_extent /\
  pm2_ringbuf_pos s < pm2_RING_BUFFER_SIZE /\
  P (pm2_bsr s) /\
  hl_wf (pm2_history_list s) /\
  closed 128 (pm2_code_tree s) pm2_code_tree_extent /\
  closed 128 (pm2_offset_tree s) pm2_offset_tree_extent /\
  leaves_lt (pm2_offset_tree s) 8.

Definition pm2_counter_ok (s : pm2_state) : Prop :=
  pm2_tree_state s = PM2_REBUILD_UNBUILT \/
  (1 <= pm2_tree_rebuild_remaining s /\ pm2_tree_rebuild_remaining s <= 4096).

Definition pm2_inv (s : pm2_state) : Prop := pm2_safe s /\ pm2_counter_ok s.

Lemma safe_set_bsr s r : pm2_safe s -> P r -> pm2_safe (pm2_set_bsr s r).
Proof.
  intros (A & B & C & D & E & F & G) Hr.
  exact (conj A (conj B (conj Hr (conj D (conj E (conj F G)))))).
Qed.

Lemma inv_set_bsr s r : pm2_inv s -> P r -> pm2_inv (pm2_set_bsr s r).
Proof. intros [Hs Hc] Hr. split; [apply safe_set_bsr; assumption|exact Hc]. Qed.

Lemma safe_set_need s b : pm2_safe s -> pm2_safe (pm2_set_need_offset_tree s b).
Proof. intros H. exact H. Qed.

Lemma safe_set_code_tree s t : pm2_safe s -> closed 128 t pm2_code_tree_extent ->
  pm2_safe (pm2_set_code_tree s t).
Proof.
  intros (A & B & C & D & E & F & G) Ht.
  exact (conj A (conj B (conj C (conj D (conj Ht (conj F G)))))).
Qed.

Lemma safe_set_offset_tree s t : pm2_safe s -> closed 128 t pm2_offset_tree_extent ->
  leaves_lt t 8 -> pm2_safe (pm2_set_offset_tree s t).
Proof.
  intros (A & B & C & D & E & F & G) Ht Hl.
  exact (conj A (conj B (conj C (conj D (conj E (conj Ht Hl)))))).
Qed.

Lemma inv_set_tree_state s ts n : pm2_safe s -> 1 <= n -> n <= 4096 ->
  pm2_inv (pm2_set_tree_state s ts n).
Proof. intros H H1 H2. split; [exact H|]. right. cbn [pm2_set_tree_state pm2_tree_rebuild_remaining]. lia. Qed.

(* ------------------------------------------------------------------ *)
(* Initial state                                                       *)

Theorem pm2_init_ok : P bsr_init -> exists s, pm2_init = Ok s /\ pm2_inv s.
Proof.
  intros HP0.
  unfold pm2_init, pm2_TREE_NODE_LEAF.
  destruct (N.leb_spec pm2_RING_BUFFER_SIZE pm2_ringbuf_extent) as [_|H];
    [|unfold pm2_RING_BUFFER_SIZE, pm2_ringbuf_extent in H; lia].
  destruct init_history_list_wf as (h & Eh & Wh & _). rewrite Eh. cbn [bind].
  destruct (init_tree_closed 128 7 eq_refl (mk_arr pm2_code_tree_extent 0) pm2_CODE_TREE_ELEMENTS)
    as (ct & Ect & Cct & _); [cbn [mk_arr alen]; unfold pm2_code_tree_extent, pm2_CODE_TREE_ELEMENTS; lia|].
  rewrite Ect. cbn [bind].
  destruct (init_tree_closed 128 7 eq_refl (mk_arr pm2_offset_tree_extent 0) pm2_OFFSET_TREE_ELEMENTS)
    as (ot & Eot & Cot & _ & G1 & G2);
    [cbn [mk_arr alen]; unfold pm2_offset_tree_extent, pm2_OFFSET_TREE_ELEMENTS; lia|].
  rewrite Eot. cbn [bind].
  eexists. split; [reflexivity|]. split; [|left; reflexivity].
  unfold pm2_safe. cbn [pm2_ringbuf pm2_ringbuf_pos pm2_bsr pm2_history_list pm2_code_tree pm2_offset_tree].
  split; [reflexivity|]. split; [unfold pm2_RING_BUFFER_SIZE; lia|].
  split; [exact HP0|]. split; [exact Wh|]. split; [exact Cct|]. split; [exact Cot|].
  intros i. destruct (N.lt_ge_cases i pm2_OFFSET_TREE_ELEMENTS) as [Hi|Hi].
  - rewrite (G1 i Hi). intros _. vm_compute. reflexivity.
  - rewrite (G2 i Hi), aget_mk. apply leaf_lt_small. lia.
Qed.

(* ------------------------------------------------------------------ *)
(* unfolding lemmas                                                    *)

Section Pm2Safe.
  Context {cbs : Type}.
  Variable cb : callback cbs.
  Hypothesis Hrb : forall r c n, P r -> n <= 32 ->
    exists res r' c', read_bits cb r c n = Ok (res, r', c') /\ P r' /\ (forall v, res = Some v -> v < 2 ^ n).

  Lemma Hrbit r c : P r ->
    exists res r' c', read_bit cb r c = Ok (res, r', c') /\ P r' /\ (forall v, res = Some v -> v < 2).
  Proof. intros Hr. apply (Hrb r c 1 Hr). lia. Qed.

  Lemma read_code_lengths_S k i cl mcl lb r c :
    read_code_lengths cb (S k) i cl mcl lb r c =
    ('(val, r', c') <- read_bits cb r c lb ;;
     match val with
     | None => Ok (None, r', c')
     | Some v =>
       cl' <- wr 931 cl i (if v =? 0 then 0 else u8 (mcl + v - 1)) ;;
       read_code_lengths cb k (i + 1) cl' mcl lb r' c'
     end).
  Proof. reflexivity. Qed.

  Lemma read_offset_lengths_S k off ol so nc r c :
    read_offset_lengths cb (S k) off ol so nc r c =
    ('(len, r', c') <- read_bits cb r c 3 ;;
     match len with
     | None => Ok (None, r', c')
     | Some l =>
       ol' <- wr 932 ol off (u8 l) ;;
       if l =? 0 then read_offset_lengths cb k (off + 1) ol' so nc r' c'
       else read_offset_lengths cb k (off + 1) ol' off (u32 (nc + 1)) r' c'
     end).
  Proof. reflexivity. Qed.

  Lemma copy_loop_S k i start s c o :
    copy_loop cb (S k) i start s c o =
    (b <- rd 936 (pm2_ringbuf s) (pm2_ring_mod (u32 (start + i))) ;;
     '(s', c', o') <- output_byte cb s c o b ;;
     copy_loop cb k (i + 1) start s' c' o').
  Proof. reflexivity. Qed.

  (* ---------------------------------------------------------------- *)
  (* read_from_tree: total, and a symbol returned is the low bits of a
     leaf entry of the tree                                            *)

  (* as P_Tree.read_from_tree_safe, for the reader predicate P *)
  Let walk_inv (len : N) (s : N * bsr * cbs) : Prop :=
    let '(code, r, _) := s in
    P r /\ (is_leaf 128 code = true \/ code + 1 < len).
  Let walk_post (x : option N * bsr * cbs) : Prop :=
    let '(res, r, _) := x in
    P r /\ forall v, res = Some v -> v < 128.
  Let walk_measure (len : N) (s : N * bsr * cbs) : N :=
    let '(code, _, _) := s in
    if is_leaf 128 code then 0 else len - code.

  Lemma tree_step_ok t len : closed 128 t len ->
    forall s, walk_inv len s -> exists x, tree_step 128 cb t s = Ok x /\
      match x with
      | inl s' => walk_inv len s' /\ walk_measure len s' < walk_measure len s
      | inr res => walk_post res
      end.
  Proof.
    intros [Hal Hc] [[code r] c] [Hr Hcode]. unfold tree_step.
    destruct (is_leaf 128 code) eqn:El.
    - eexists. split; [reflexivity|]. cbn beta iota. split; [exact Hr|].
      intros v Hv. injection Hv as <-. apply (land_low_lt 128 7 eq_refl).
    - destruct Hcode as [Hcode|Hcode]; [discriminate|].
      destruct (Hrbit r c Hr) as (res & r' & c' & E & Hr' & Hbit).
      rewrite E. cbn [bind]. cbv beta iota.
      destruct res as [bv|].
      + specialize (Hbit bv eq_refl).
        rewrite rd_ok by lia. cbn [bind].
        eexists. split; [reflexivity|]. cbv beta iota.
        destruct (Hc (code + bv)) as [_ Hd]; [lia|].
        unfold walk_inv, walk_measure. rewrite El.
        destruct (is_leaf 128 (aget t (code + bv))) eqn:El'.
        * split; [split; [exact Hr'|left; reflexivity]|lia].
        * destruct Hd as [Hd|Hd]; [discriminate|].
          split; [split; [exact Hr'|right; lia]|lia].
      + eexists. split; [reflexivity|]. cbv beta iota. split; [exact Hr'|]. intros v Hv. discriminate.
  Qed.

  Lemma rft_safe t len r c : P r -> closed 128 t len -> 1 <= len -> len < 2 ^ 20 ->
    exists res r' c', read_from_tree 128 cb t r c = Ok (res, r', c') /\ P r' /\
      (forall v, res = Some v -> v < 128).
  Proof.
    intros Hr Hc H1 H2. unfold read_from_tree.
    pose proof (closed_alen _ _ _ Hc) as Hal.
    rewrite rd_ok by lia. cbn [bind].
    destruct (loop_total_ok (tree_step 128 cb t) (walk_inv len) walk_post (walk_measure len) 20
                (tree_step_ok t len Hc) (aget t 0, r, c)) as ([[res r'] c'] & E & Q).
    - split; [exact Hr|]. destruct Hc as [_ Hc]. destruct (Hc 0) as [_ Hd]; [lia|].
      destruct Hd as [Hd|Hd]; [left; exact Hd|right; lia].
    - unfold walk_measure. change (2 ^ N.of_nat 20) with (2 ^ 20).
      destruct (is_leaf 128 (aget t 0)); lia.
    - exists res, r', c'. split; [exact E|]. exact Q.
  Qed.

  Lemma rft_loops_leaf t n : forall s res,
    loops (tree_step 128 cb t) n s res ->
    (exists i, fst (fst s) = aget t i) ->
    forall v, fst (fst res) = Some v ->
    exists i, is_leaf 128 (aget t i) = true /\ v = N.land (aget t i) 127.
  Proof.
    induction n as [|n IH]; intros s res Hl (i & Ei) v Hv.
    - inversion Hl as [s0 r0 Hstep|]; subst. destruct s as [[code r0] c0]. cbn [fst] in Ei.
      unfold tree_step in Hstep. destruct (is_leaf 128 code) eqn:El.
      + injection Hstep as <-. cbn [fst] in Hv. injection Hv as <-.
        exists i. rewrite <- Ei. split; [exact El|reflexivity].
      + destruct (read_bit cb r0 c0) as [[[bit r'] c']| |]; cbn [bind] in Hstep; try discriminate.
        cbv beta iota in Hstep. destruct bit as [bv|].
        * destruct (rd 607 t (code + bv)); cbn [bind] in Hstep; discriminate.
        * injection Hstep as <-. cbn [fst] in Hv. discriminate.
    - inversion Hl as [|n0 s0 s' r0 Hstep Hrest]; subst. destruct s as [[code r0] c0].
      unfold tree_step in Hstep. destruct (is_leaf 128 code) eqn:El; [discriminate|].
      destruct (read_bit cb r0 c0) as [[[bit r'] c']| |]; cbn [bind] in Hstep; try discriminate.
      cbv beta iota in Hstep. destruct bit as [bv|]; [|discriminate].
      destruct (rd 607 t (code + bv)) as [code'| |] eqn:Erd; cbn [bind] in Hstep; try discriminate.
      injection Hstep as <-. apply rd_inv in Erd. destruct Erd as [_ ->].
      apply (IH _ _ Hrest); [|exact Hv]. exists (code + bv). reflexivity.
  Qed.

  Lemma rft_leaf t r c v r' c' : read_from_tree 128 cb t r c = Ok (Some v, r', c') ->
    exists i, is_leaf 128 (aget t i) = true /\ v = N.land (aget t i) 127.
  Proof.
    intros H. unfold read_from_tree in H. apply bind_ok in H. destruct H as (code & Erd & H).
    apply rd_inv in Erd. destruct Erd as [_ ->].
    apply loop_sound in H. destruct H as (n & Hl & _).
    apply (rft_loops_leaf t n _ _ Hl); [exists 0; reflexivity|reflexivity].
  Qed.

  (* ---------------------------------------------------------------- *)
  (* read_code_tree                                                    *)

  Lemma read_code_lengths_ok n : forall i cl mcl lb r c,
    P r -> lb <= 32 -> i + N.of_nat n <= alen cl -> (forall j, aget cl j < 256) ->
    exists res r' c', read_code_lengths cb n i cl mcl lb r c = Ok (res, r', c') /\ P r' /\
      (forall cl', res = Some cl' -> alen cl' = alen cl /\ forall j, aget cl' j < 256).
  Proof.
    induction n as [|n IH]; intros i cl mcl lb r c Hr Hlb Hi Hcl.
    - eexists _, r, c. split; [reflexivity|]. split; [exact Hr|].
      intros cl' E. injection E as <-. split; [reflexivity|exact Hcl].
    - rewrite read_code_lengths_S.
      destruct (Hrb r c lb Hr Hlb) as (val & r1 & c1 & E & W & _).
      rewrite E. cbn [bind]. cbv beta iota. destruct val as [v|].
      + rewrite wr_ok by lia. cbn [bind].
        set (x := if v =? 0 then 0 else u8 (mcl + v - 1)).
        assert (Hx : x < 256) by (unfold x; destruct (v =? 0); [lia|apply u8_lt]).
        destruct (IH (i + 1) (aset cl i x) mcl lb r1 c1 W Hlb) as (res & r' & c' & E' & W' & V').
        * rewrite alen_aset. lia.
        * intros j. rewrite aget_aset. destruct (i =? j); [exact Hx|apply Hcl].
        * exists res, r', c'. split; [exact E'|]. split; [exact W'|].
          intros cl' Ec. destruct (V' cl' Ec) as [A B]. rewrite alen_aset in A. split; assumption.
      + eexists _, r1, c1. split; [reflexivity|]. split; [exact W|]. intros cl' Ec. discriminate.
  Qed.

  Lemma read_code_tree_ok s c : pm2_safe s ->
    exists b s' c', read_code_tree cb s c = Ok (b, s', c') /\ pm2_safe s' /\
      pm2_tree_state s' = pm2_tree_state s /\
      pm2_tree_rebuild_remaining s' = pm2_tree_rebuild_remaining s.
  Proof.
    intros Hs. pose proof Hs as (_ & _ & Hr & _ & Hct & _).
    unfold read_code_tree.
    destruct (Hrb (pm2_bsr s) c 5 Hr) as (nc & r1 & c1 & E1 & W1 & V1); [lia|].
    rewrite E1. cbn [bind]. cbv beta iota.
    destruct (Hrb r1 c1 3 W1) as (mcl & r2 & c2 & E2 & W2 & V2); [lia|].
    rewrite E2. cbn [bind]. cbv beta iota zeta.
    pose proof (safe_set_bsr s r2 Hs W2) as Hs2.
    destruct mcl as [m|]; [destruct nc as [n|]|].
    - specialize (V1 n eq_refl). specialize (V2 m eq_refl).
      set (s3 := pm2_set_need_offset_tree (pm2_set_bsr s r2) ((10 <=? n) && negb ((n =? 29) && (m =? 0)))).
      assert (Hs3 : pm2_safe s3) by exact Hs2.
      destruct (N.eqb_spec m 0) as [Em|Em].
      + destruct (set_tree_single_closed 128 7 eq_refl (pm2_code_tree s3) pm2_code_tree_extent (u8 (n + 255)))
          as (t & Et & Ct & _); [exact Hct|unfold pm2_code_tree_extent; lia|].
        unfold pm2_TREE_NODE_LEAF. rewrite Et. cbn [bind].
        eexists _, _, c2. split; [reflexivity|]. split; [apply safe_set_code_tree; assumption|].
        split; reflexivity.
      + destruct (Hrb r2 c2 3 W2) as (lbo & r3 & c3 & E3 & W3 & V3); [lia|].
        rewrite E3. cbn [bind]. cbv beta iota zeta.
        pose proof (safe_set_bsr s3 r3 Hs3 W3) as Hs4.
        destruct lbo as [lb|].
        * specialize (V3 lb eq_refl).
          destruct (read_code_lengths_ok (N.to_nat n) 0 (mk_arr pm2_code_lengths_extent 0) m lb r3 c3 W3)
            as (cl & r4 & c4 & E4 & W4 & V4).
          { change (2 ^ 3) with 8 in V3. lia. }
          { cbn [mk_arr alen]. unfold pm2_code_lengths_extent. change (2 ^ 5) with 32 in V1. lia. }
          { intros j. rewrite aget_mk. lia. }
          rewrite E4. cbn [bind]. cbv beta iota zeta.
          pose proof (safe_set_bsr _ r4 Hs4 W4) as Hs5.
          destruct cl as [code_lengths|].
          -- destruct (V4 code_lengths eq_refl) as [A B].
             destruct (build_tree_closed_u8 (pm2_code_tree s) pm2_code_tree_extent code_lengths n)
               as (t & Et & Ct & _); try exact Hct; try (unfold pm2_code_tree_extent; lia).
             { rewrite A. cbn [mk_arr alen]. unfold pm2_code_lengths_extent. change (2 ^ 5) with 32 in V1. lia. }
             { intros j _. apply B. }
             unfold pm2_TREE_NODE_LEAF.
             change (pm2_code_tree (pm2_set_bsr (pm2_set_bsr s3 r3) r4)) with (pm2_code_tree s).
             rewrite Et. cbn [bind].
             eexists _, _, c4. split; [reflexivity|]. split; [apply safe_set_code_tree; assumption|].
             split; reflexivity.
          -- eexists _, _, c4. split; [reflexivity|]. split; [exact Hs5|]. split; reflexivity.
        * eexists _, _, c3. split; [reflexivity|]. split; [exact Hs4|]. split; reflexivity.
    - eexists _, _, c2. split; [reflexivity|]. split; [exact Hs2|]. split; reflexivity.
    - eexists _, _, c2. split; [reflexivity|]. split; [exact Hs2|]. split; reflexivity.
  Qed.

  (* ---------------------------------------------------------------- *)
  (* read_offset_tree                                                  *)

  Lemma read_offset_lengths_ok n : forall off ol so nc r c,
    P r -> off + N.of_nat n <= alen ol -> alen ol <= 8 -> so < 8 -> (forall j, aget ol j < 256) ->
    exists res r' c', read_offset_lengths cb n off ol so nc r c = Ok (res, r', c') /\ P r' /\
      (forall ol' so' nc', res = Some (ol', so', nc') ->
         alen ol' = alen ol /\ so' < 8 /\ forall j, aget ol' j < 256).
  Proof.
    induction n as [|n IH]; intros off ol so nc r c Hr Hoff Hal Hso Hol.
    - eexists _, r, c. split; [reflexivity|]. split; [exact Hr|].
      intros ol' so' nc' E. injection E as <- <- <-. split; [reflexivity|]. split; [exact Hso|exact Hol].
    - rewrite read_offset_lengths_S.
      destruct (Hrb r c 3 Hr) as (len & r1 & c1 & E & W & _); [lia|].
      rewrite E. cbn [bind]. cbv beta iota. destruct len as [l|].
      + rewrite wr_ok by lia. cbn [bind].
        assert (Hol' : forall j, aget (aset ol off (u8 l)) j < 256).
        { intros j. rewrite aget_aset. destruct (off =? j); [apply u8_lt|apply Hol]. }
        destruct (l =? 0).
        * destruct (IH (off + 1) (aset ol off (u8 l)) so nc r1 c1 W) as (res & r' & c' & E' & W' & V');
            try assumption; try (rewrite alen_aset; lia).
          exists res, r', c'. split; [exact E'|]. split; [exact W'|].
          intros ol' so' nc' Ec. destruct (V' _ _ _ Ec) as (A & B & C). rewrite alen_aset in A. auto.
        * destruct (IH (off + 1) (aset ol off (u8 l)) off (u32 (nc + 1)) r1 c1 W) as (res & r' & c' & E' & W' & V');
            try assumption; try (rewrite alen_aset; lia); try lia.
          exists res, r', c'. split; [exact E'|]. split; [exact W'|].
          intros ol' so' nc' Ec. destruct (V' _ _ _ Ec) as (A & B & C). rewrite alen_aset in A. auto.
      + eexists _, r1, c1. split; [reflexivity|]. split; [exact W|]. intros ol' so' nc' Ec. discriminate.
  Qed.

  Lemma read_offset_tree_ok s c num_offsets : pm2_safe s -> num_offsets <= 8 ->
    exists b s' c', read_offset_tree cb s c num_offsets = Ok (b, s', c') /\ pm2_safe s' /\
      pm2_tree_state s' = pm2_tree_state s /\
      pm2_tree_rebuild_remaining s' = pm2_tree_rebuild_remaining s.
  Proof.
    intros Hs Hn. pose proof Hs as (_ & _ & Hr & _ & _ & Hot & Hlv).
    unfold read_offset_tree. destruct (pm2_need_offset_tree s); cbn [negb].
    2: { exists true, s, c. split; [reflexivity|]. split; [exact Hs|]. split; reflexivity. }
    destruct (read_offset_lengths_ok (N.to_nat num_offsets) 0 (mk_arr pm2_offset_lengths_extent 0) 0 0
                (pm2_bsr s) c Hr) as (res & r1 & c1 & E1 & W1 & V1).
    { cbn [mk_arr alen]. unfold pm2_offset_lengths_extent. lia. }
    { cbn [mk_arr alen]. unfold pm2_offset_lengths_extent. lia. }
    { lia. }
    { intros j. rewrite aget_mk. lia. }
    rewrite E1. cbn [bind]. cbv beta iota zeta.
    pose proof (safe_set_bsr s r1 Hs W1) as Hs1.
    destruct res as [[[offset_lengths single_offset] num_codes]|].
    - destruct (V1 _ _ _ eq_refl) as (A & B & C). cbn [mk_arr alen] in A.
      destruct (num_codes =? 1).
      + destruct (set_tree_single_closed 128 7 eq_refl (pm2_offset_tree s) pm2_offset_tree_extent (u8 single_offset))
          as (t & Et & Ct & _); [exact Hot|unfold pm2_offset_tree_extent; lia|].
        unfold pm2_TREE_NODE_LEAF.
        change (pm2_offset_tree (pm2_set_bsr s r1)) with (pm2_offset_tree s).
        rewrite Et. cbn [bind].
        eexists _, _, c1. split; [reflexivity|]. split; [|split; reflexivity].
        apply safe_set_offset_tree; [exact Hs1|exact Ct|].
        unfold set_tree_single in Et. apply wr_inv in Et. destruct Et as [_ ->].
        apply allP_aset; [exact Hlv|]. rewrite (u8_small single_offset) by (clear - B; lia). apply leaf_lt_leaf8. exact B.
      + destruct (build_tree_closed_u8 (pm2_offset_tree s) pm2_offset_tree_extent offset_lengths num_offsets)
          as (t & Et & Ct & _); try exact Hot; try (unfold pm2_offset_tree_extent; lia).
        { rewrite A. unfold pm2_offset_lengths_extent. exact Hn. }
        { intros j _. apply C. }
        unfold pm2_TREE_NODE_LEAF.
        change (pm2_offset_tree (pm2_set_bsr s r1)) with (pm2_offset_tree s).
        rewrite Et. cbn [bind].
        eexists _, _, c1. split; [reflexivity|]. split; [|split; reflexivity].
        apply safe_set_offset_tree; [exact Hs1|exact Ct|].
        apply (build_tree_allP (leaf_lt 8) (leaf_lt_small 8) num_offsets) in Et.
        * exact Et.
        * intros j Hj. apply leaf_lt_leaf8. lia.
        * unfold pm2_offset_tree_extent. lia.
        * exact Hlv.
    - eexists _, _, c1. split; [reflexivity|]. split; [exact Hs1|]. split; reflexivity.
  Qed.

  (* ---------------------------------------------------------------- *)
  (* rebuild_tree                                                      *)

  Lemma pm2_read_bit_is_1_ok s c : pm2_safe s ->
    exists b s' c', pm2_read_bit_is_1 cb s c = Ok (b, s', c') /\ pm2_safe s'.
  Proof.
    intros Hs. pose proof Hs as (_ & _ & Hr & _). unfold pm2_read_bit_is_1.
    destruct (Hrbit (pm2_bsr s) c Hr) as (bit & r & c' & E & W & _).
    rewrite E. cbn [bind]. cbv beta iota.
    eexists _, _, c'. split; [reflexivity|]. apply safe_set_bsr; assumption.
  Qed.

  Lemma rebuild_tree_ok s c : pm2_safe s ->
    exists s' c', rebuild_tree cb s c = Ok (s', c') /\ pm2_inv s' /\
      pm2_tree_state s' <> PM2_REBUILD_UNBUILT.
  Proof.
    intros Hs. unfold rebuild_tree. destruct (pm2_tree_state s).
    - destruct (read_code_tree_ok s c Hs) as (b1 & s1 & c1 & E1 & H1 & _). rewrite E1. cbn [bind]. cbv beta iota.
      destruct (read_offset_tree_ok s1 c1 5 H1) as (b2 & s2 & c2 & E2 & H2 & _); [lia|].
      rewrite E2. cbn [bind]. cbv beta iota.
      eexists _, c2. split; [reflexivity|]. split; [apply inv_set_tree_state; [exact H2|lia|lia]|discriminate].
    - destruct (read_offset_tree_ok s c 6 Hs) as (b2 & s2 & c2 & E2 & H2 & _); [lia|].
      rewrite E2. cbn [bind]. cbv beta iota.
      eexists _, c2. split; [reflexivity|]. split; [apply inv_set_tree_state; [exact H2|lia|lia]|discriminate].
    - destruct (read_offset_tree_ok s c 7 Hs) as (b2 & s2 & c2 & E2 & H2 & _); [lia|].
      rewrite E2. cbn [bind]. cbv beta iota.
      eexists _, c2. split; [reflexivity|]. split; [apply inv_set_tree_state; [exact H2|lia|lia]|discriminate].
    - destruct (pm2_read_bit_is_1_ok s c Hs) as (one & s1 & c1 & E1 & H1). rewrite E1. cbn [bind]. cbv beta iota.
      assert (X : exists s2 c2,
                 (if one then '(_, s', c') <- read_code_tree cb s1 c1 ;; Ok (s', c') else Ok (s1, c1))
                 = Ok (s2, c2) /\ pm2_safe s2).
      { destruct one.
        - destruct (read_code_tree_ok s1 c1 H1) as (b & s2 & c2 & E2 & H2 & _). rewrite E2. cbn [bind]. cbv beta iota.
          exists s2, c2. split; [reflexivity|exact H2].
        - exists s1, c1. split; [reflexivity|exact H1]. }
      destruct X as (s2 & c2 & E2 & H2). rewrite E2. cbn [bind]. cbv beta iota.
      destruct (read_offset_tree_ok s2 c2 8 H2) as (b3 & s3 & c3 & E3 & H3 & _); [lia|].
      rewrite E3. cbn [bind]. cbv beta iota.
      eexists _, c3. split; [reflexivity|]. split; [apply inv_set_tree_state; [exact H3|lia|lia]|discriminate].
    - destruct (pm2_read_bit_is_1_ok s c Hs) as (one & s1 & c1 & E1 & H1). rewrite E1. cbn [bind]. cbv beta iota.
      assert (X : exists s3 c3,
                 (if one then
                    '(_, s2, c2) <- read_code_tree cb s1 c1 ;;
                    '(_, s3, c3) <- read_offset_tree cb s2 c2 8 ;;
                    Ok (s3, c3)
                  else Ok (s1, c1)) = Ok (s3, c3) /\ pm2_safe s3).
      { destruct one.
        - destruct (read_code_tree_ok s1 c1 H1) as (b & s2 & c2 & E2 & H2 & _). rewrite E2. cbn [bind]. cbv beta iota.
          destruct (read_offset_tree_ok s2 c2 8 H2) as (b3 & s3 & c3 & E3 & H3 & _); [lia|].
          rewrite E3. cbn [bind]. cbv beta iota.
          exists s3, c3. split; [reflexivity|exact H3].
        - exists s1, c1. split; [reflexivity|exact H1]. }
      destruct X as (s3 & c3 & E3 & H3). rewrite E3. cbn [bind]. cbv beta iota.
      eexists _, c3. split; [reflexivity|]. split; [apply inv_set_tree_state; [exact H3|lia|lia]|discriminate].
  Qed.

  (* ---------------------------------------------------------------- *)
  (* output_byte                                                       *)


  Lemma output_byte_ok s c o b : pm2_inv s -> obw o -> ob_len o < pm2_max_read ->
    exists s' c' o', output_byte cb s c o b = Ok (s', c', o') /\ pm2_inv s' /\ obw o' /\
      ob_len o' = ob_len o + 1.
  Proof.
    intros [Hs Hc] Ho Hl. pose proof Hs as (A & B & C & D & E & F & G).
    unfold output_byte. cbv zeta.
    rewrite wr_ok by (rewrite A; unfold pm2_ringbuf_extent, pm2_RING_BUFFER_SIZE in *; lia). cbn [bind].
    destruct (ob_push_ok 934 pm2_max_read o (u8 b) Ho Hl) as (o' & Eo & Wo & Lo). rewrite Eo. cbn [bind].
    destruct (update_history_list_mtf (pm2_history_list s) (u8 b) D) as (h' & Eh & Wh & _).
    rewrite Eh. cbn [bind].
    set (remaining := if pm2_tree_rebuild_remaining s =? 0 then pm2_SIZE_MAX
                      else pm2_tree_rebuild_remaining s - 1).
    set (s' := {| pm2_bsr := pm2_bsr s; pm2_tree_state := pm2_tree_state s;
                  pm2_tree_rebuild_remaining := remaining;
                  pm2_ringbuf := aset (pm2_ringbuf s) (pm2_ringbuf_pos s) (u8 b);
                  pm2_ringbuf_pos := pm2_ring_mod (u32 (pm2_ringbuf_pos s + 1));
                  pm2_history_list := h'; pm2_code_tree := pm2_code_tree s;
                  pm2_need_offset_tree := pm2_need_offset_tree s;
                  pm2_offset_tree := pm2_offset_tree s |}).
    assert (Hs' : pm2_safe s').
    { unfold pm2_safe, s'. cbn [pm2_ringbuf pm2_ringbuf_pos pm2_bsr pm2_history_list pm2_code_tree pm2_offset_tree].
      split; [rewrite alen_aset; exact A|]. split; [apply pm2_ring_mod_lt|].
      split; [exact C|]. split; [exact Wh|]. split; [exact E|]. split; [exact F|exact G]. }
    destruct (N.eqb_spec remaining 0) as [Er|Er].
    - destruct (rebuild_tree_ok s' c Hs') as (s'' & c' & Er' & Hi & _). rewrite Er'. cbn [bind]. cbv beta iota.
      exists s'', c', o'. split; [reflexivity|]. split; [exact Hi|]. split; [exact Wo|exact Lo].
    - exists s', c, o'. split; [reflexivity|]. split; [|split; [exact Wo|exact Lo]].
      split; [exact Hs'|]. destruct Hc as [Hc|Hc]; [left; exact Hc|right].
      unfold s'. cbn [pm2_tree_rebuild_remaining]. unfold remaining in *.
      destruct (N.eqb_spec (pm2_tree_rebuild_remaining s) 0); lia.
  Qed.

  (* ---------------------------------------------------------------- *)
  (* the two variable-length tables                                    *)

  Lemma history_decode_bits_sweep :
    sweep 3 (fun i => aget (vl_bits pm2_history_decode) i <=? 6) 0 = true.
  Proof. vm_compute. reflexivity. Qed.

  Lemma copy_decode_bits_sweep :
    sweep 3 (fun i => aget (vl_bits pm2_copy_decode) i <=? 7) 0 = true.
  Proof. vm_compute. reflexivity. Qed.

  Lemma read_single_byte_ok s c o code : pm2_inv s -> obw o -> ob_len o < pm2_max_read -> code < 8 ->
    exists s' c' o', read_single_byte cb s c o code = Ok (s', c', o') /\ pm2_inv s' /\ obw o' /\
      ob_len o' <= ob_len o + 1.
  Proof.
    intros Hi Ho Hl Hcode. pose proof Hi as [(_ & _ & Hr & Hh & _) _]. unfold read_single_byte.
    destruct (decode_variable_length_gen cb P Hrb pm2_history_decode (pm2_bsr s) c code Hr)
      as (off & r & c1 & E & W & _).
    { vm_compute. vm_compute in Hcode. exact Hcode. }
    { vm_compute. reflexivity. }
    { pose proof (sweep_below 3 _ history_decode_bits_sweep code Hcode) as X. cbv beta in X. lia. }
    rewrite E. cbn [bind]. cbv beta iota zeta.
    pose proof (inv_set_bsr s r Hi W) as Hi1.
    destruct off as [off|].
    - destruct (find_in_history_list_nth (pm2_history_list (pm2_set_bsr s r)) (u8 off)) as [Ef _]; [exact Hh|].
      rewrite Ef. cbn [bind].
      match goal with |- context [output_byte cb ?s0 ?c0 ?o0 ?b0] =>
        destruct (output_byte_ok s0 c0 o0 b0 Hi1 Ho Hl) as (s' & c' & o' & E' & Hi' & Wo & Lo) end.
      rewrite E'. exists s', c', o'. split; [reflexivity|]. split; [exact Hi'|]. split; [exact Wo|lia].
    - exists (pm2_set_bsr s r), c1, o. split; [reflexivity|]. split; [exact Hi1|]. split; [exact Ho|lia].
  Qed.

  Lemma history_get_count_ok s c code : pm2_inv s ->
    exists res s' c', history_get_count cb s c code = Ok (res, s', c') /\ pm2_inv s'.
  Proof.
    intros Hi. pose proof Hi as [(_ & _ & Hr & _) _]. unfold history_get_count.
    destruct (code <? 15); [exists (Some (code + 2)), s, c; split; [reflexivity|exact Hi]|].
    destruct (N.leb_spec pm2_copy_decode_offset_len (code - 15)) as [H|H];
      [exists None, s, c; split; [reflexivity|exact Hi]|].
    unfold pm2_copy_decode_offset_len in H.
    destruct (decode_variable_length_gen cb P Hrb pm2_copy_decode (pm2_bsr s) c (code - 15) Hr)
      as (v & r & c1 & E & W & _).
    { change (alen (vl_bits pm2_copy_decode)) with 6. exact H. }
    { vm_compute. reflexivity. }
    { assert (H8 : code - 15 < 2 ^ N.of_nat 3) by (change (2 ^ N.of_nat 3) with 8; lia).
      pose proof (sweep_below 3 _ copy_decode_bits_sweep (code - 15) H8) as X. cbv beta in X. lia. }
    rewrite E. cbn [bind]. cbv beta iota.
    exists v, (pm2_set_bsr s r), c1. split; [reflexivity|]. apply inv_set_bsr; assumption.
  Qed.

  Lemma history_get_offset_value_ok s c bits result : pm2_inv s -> bits <= 32 ->
    exists res s' c', history_get_offset_value cb s c bits result = Ok (res, s', c') /\ pm2_inv s'.
  Proof.
    intros Hi Hb. pose proof Hi as [(_ & _ & Hr & _) _]. unfold history_get_offset_value.
    destruct (Hrb (pm2_bsr s) c bits Hr Hb) as (val & r & c1 & E & W & _).
    rewrite E. cbn [bind]. cbv beta iota zeta.
    destruct val as [v|]; eexists _, _, c1; (split; [reflexivity|apply inv_set_bsr; assumption]).
  Qed.

  Lemma history_get_offset_ok s c code : pm2_inv s ->
    exists res s' c', history_get_offset cb s c code = Ok (res, s', c') /\ pm2_inv s'.
  Proof.
    intros Hi. pose proof Hi as [(_ & _ & Hr & _ & _ & Hot & Hlv) _]. unfold history_get_offset.
    destruct (code =? 0); [apply history_get_offset_value_ok; [exact Hi|lia]|].
    destruct (code <? 20); [|exists (Some 0), s, c; split; [reflexivity|exact Hi]].
    destruct (rft_safe (pm2_offset_tree s) pm2_offset_tree_extent (pm2_bsr s) c Hr Hot)
      as (val & r & c1 & E & W & _); [unfold pm2_offset_tree_extent; lia|unfold pm2_offset_tree_extent; lia|].
    unfold pm2_TREE_NODE_LEAF. rewrite E. cbn [bind]. cbv beta iota zeta.
    pose proof (inv_set_bsr s r Hi W) as Hi1.
    destruct val as [v|]; [|exists None, (pm2_set_bsr s r), c1; split; [reflexivity|exact Hi1]].
    destruct (rft_leaf _ _ _ _ _ _ E) as (i & Hleaf & Ev).
    assert (Hv : v < 8) by (rewrite Ev; apply (Hlv i Hleaf)).
    destruct (v =? 0); [apply history_get_offset_value_ok; [exact Hi1|lia]|].
    destruct (N.leb_spec 31 (v + 5)) as [H|H]; [lia|].
    apply history_get_offset_value_ok; [exact Hi1|lia].
  Qed.

  (* ---------------------------------------------------------------- *)
  (* copy_from_history                                                 *)

  Lemma copy_loop_ok n : forall i start s c o,
    pm2_inv s -> obw o -> ob_len o + N.of_nat n <= pm2_max_read ->
    exists s' c' o', copy_loop cb n i start s c o = Ok (s', c', o') /\ pm2_inv s' /\ obw o' /\
      ob_len o' = ob_len o + N.of_nat n.
  Proof.
    induction n as [|n IH]; intros i start s c o Hi Ho Hl.
    - exists s, c, o. split; [reflexivity|]. split; [exact Hi|]. split; [exact Ho|lia].
    - rewrite copy_loop_S. pose proof Hi as [(A & _) _].
      rewrite rd_ok
        by (rewrite A; pose proof (pm2_ring_mod_lt (u32 (start + i)));
            unfold pm2_ringbuf_extent, pm2_RING_BUFFER_SIZE in *; lia).
      cbn [bind].
      destruct (output_byte_ok s c o (aget (pm2_ringbuf s) (pm2_ring_mod (u32 (start + i)))) Hi Ho)
        as (s1 & c1 & o1 & E1 & Hi1 & Wo1 & Lo1); [lia|].
      rewrite E1. cbn [bind]. cbv beta iota.
      destruct (IH (i + 1) start s1 c1 o1 Hi1 Wo1) as (s' & c' & o' & E' & Hi' & Wo' & Lo'); [lia|].
      exists s', c', o'. split; [exact E'|]. split; [exact Hi'|]. split; [exact Wo'|lia].
  Qed.

  Lemma copy_from_history_ok s c code : pm2_inv s ->
    exists s' c' o', copy_from_history cb s c ob_empty code = Ok (s', c', o') /\ pm2_inv s' /\ obw o' /\
      ob_len o' <= pm2_max_read.
  Proof.
    intros Hi. unfold copy_from_history.
    destruct (history_get_count_ok s c code Hi) as (to_copy & s1 & c1 & E1 & Hi1).
    rewrite E1. cbn [bind]. cbv beta iota.
    destruct (history_get_offset_ok s1 c1 code Hi1) as (offset & s2 & c2 & E2 & Hi2).
    rewrite E2. cbn [bind]. cbv beta iota.
    assert (Hdef : exists s' c' o', Ok (s2, c2, ob_empty) = Ok (s', c', o') /\ pm2_inv s' /\ obw o' /\
                     ob_len o' <= pm2_max_read).
    { exists s2, c2, ob_empty. split; [reflexivity|]. split; [exact Hi2|]. split; [exact obw_empty|].
      cbn [ob_empty ob_len]. unfold pm2_max_read. lia. }
    destruct to_copy as [n|]; [|exact Hdef]. destruct offset as [off|]; [|exact Hdef].
    destruct (N.ltb_spec pm2_OUTPUT_BUFFER_SIZE n) as [H|H]; [exact Hdef|]. cbv zeta.
    destruct (copy_loop_ok (N.to_nat n) 0
                (u32 (pm2_ringbuf_pos s2 + pm2_RING_BUFFER_SIZE + 4294967296 - 1 - off)) s2 c2 ob_empty
                Hi2 obw_empty) as (s' & c' & o' & E' & Hi' & Wo' & Lo').
    { cbn [ob_empty ob_len]. unfold pm2_max_read, pm2_OUTPUT_BUFFER_SIZE in *. lia. }
    exists s', c', o'. split; [exact E'|]. split; [exact Hi'|]. split; [exact Wo'|].
    rewrite Lo'. cbn [ob_empty ob_len]. unfold pm2_max_read, pm2_OUTPUT_BUFFER_SIZE in *. lia.
  Qed.

  (* ---------------------------------------------------------------- *)
  (* pm2_read                                                          *)

  Theorem pm2_read_total s c : pm2_inv s ->
    exists ch s' c', pm2_read cb s c = Ok (ch, s', c') /\ nlen ch <= pm2_max_read /\ pm2_inv s'.
  Proof.
    intros Hi. unfold pm2_read.
    assert (X : exists s1 c1,
               (match pm2_tree_state s with
                | PM2_REBUILD_UNBUILT =>
                  '(_, r, c') <- read_bit cb (pm2_bsr s) c ;; rebuild_tree cb (pm2_set_bsr s r) c'
                | _ => Ok (s, c)
                end) = Ok (s1, c1) /\ pm2_inv s1).
    { destruct (pm2_tree_state s); try (exists s, c; split; [reflexivity|exact Hi]).
      pose proof Hi as [Hs _]. pose proof Hs as (_ & _ & Hr & _).
      destruct (Hrbit (pm2_bsr s) c Hr) as (bit & r & c' & E & W & _).
      rewrite E. cbn [bind]. cbv beta iota.
      destruct (rebuild_tree_ok (pm2_set_bsr s r) c' (safe_set_bsr s r Hs W)) as (s1 & c1 & E1 & Hi1 & _).
      exists s1, c1. split; [exact E1|exact Hi1]. }
    destruct X as (s1 & c1 & E1 & Hi1). rewrite E1. cbn [bind]. cbv beta iota.
    pose proof Hi1 as [(_ & _ & Hr1 & _ & Hct & _) _].
    destruct (rft_safe (pm2_code_tree s1) pm2_code_tree_extent (pm2_bsr s1) c1 Hr1 Hct)
      as (code & r2 & c2 & E2 & W2 & _); [unfold pm2_code_tree_extent; lia|unfold pm2_code_tree_extent; lia|].
    unfold pm2_TREE_NODE_LEAF. rewrite E2. cbn [bind]. cbv beta iota zeta.
    pose proof (inv_set_bsr s1 r2 Hi1 W2) as Hi2.
    destruct code as [cv|].
    - assert (X : exists s3 c3 o,
                 (if cv <? 8 then read_single_byte cb (pm2_set_bsr s1 r2) c2 ob_empty cv
                  else copy_from_history cb (pm2_set_bsr s1 r2) c2 ob_empty (cv - 8)) = Ok (s3, c3, o) /\
                 pm2_inv s3 /\ obw o /\ ob_len o <= pm2_max_read).
      { destruct (N.ltb_spec cv 8) as [H|H].
        - destruct (read_single_byte_ok (pm2_set_bsr s1 r2) c2 ob_empty cv Hi2 obw_empty) as (s3 & c3 & o & E3 & Hi3 & Wo & Lo).
          { cbn [ob_empty ob_len]. unfold pm2_max_read. lia. }
          { exact H. }
          exists s3, c3, o. split; [exact E3|]. split; [exact Hi3|]. split; [exact Wo|].
          cbn [ob_empty ob_len] in Lo. unfold pm2_max_read. lia.
        - apply copy_from_history_ok. exact Hi2. }
      destruct X as (s3 & c3 & o & E3 & Hi3 & Wo & Lo). rewrite E3. cbn [bind]. cbv beta iota.
      exists (ob_bytes o), s3, c3. split; [reflexivity|]. split; [rewrite nlen_ob_bytes by exact Wo; exact Lo|exact Hi3].
    - exists [], (pm2_set_bsr s1 r2), c2. split; [reflexivity|]. split; [|exact Hi2].
      rewrite nlen_nil. unfold pm2_max_read. lia.
  Qed.
End Pm2Safe.
End Gen.

(* ------------------------------------------------------------------ *)
(* The two instances                                                   *)

(* byte-valued callbacks: the reader stays well formed *)
Definition pm2_inv_wf : pm2_state -> Prop := pm2_inv bsr_wf.

Theorem pm2_init_wf : exists s, pm2_init = Ok s /\ pm2_inv_wf s.
Proof. apply pm2_init_ok. exact bsr_init_wf. Qed.

Theorem pm2_never_faults : forall cbs (cb : callback cbs), cb_bounded cb -> forall s c, pm2_inv_wf s ->
  exists ch s' c', pm2_read cb s c = Ok (ch, s', c') /\ nlen ch <= pm2_max_read /\ pm2_inv_wf s'.
Proof.
  intros cbs cb Hcb s c Hi. apply (pm2_read_total bsr_wf cb); [|exact Hi].
  intros r0 c0 n. apply (read_bits_safe cb Hcb).
Qed.

(* callbacks only known to return at most as many values as asked for (whatever
   the values): the weaker reader invariant bsr_ok is enough for memory safety *)
Definition pm2_inv_ok : pm2_state -> Prop := pm2_inv bsr_ok.

Lemma pm2_inv_wf_ok s : pm2_inv_wf s -> pm2_inv_ok s.
Proof.
  intros [(A & B & C & D) E]. split; [|exact E].
  split; [exact A|]. split; [exact B|]. split; [apply bsr_wf_ok; exact C|exact D].
Qed.

Theorem pm2_init_ok_ok : exists s, pm2_init = Ok s /\ pm2_inv_ok s.
Proof. apply pm2_init_ok. apply bsr_wf_ok. exact bsr_init_wf. Qed.

Theorem pm2_never_faults_len : forall cbs (cb : callback cbs), cb_len_bounded cb -> forall s c, pm2_inv_ok s ->
  exists ch s' c', pm2_read cb s c = Ok (ch, s', c') /\ nlen ch <= pm2_max_read /\ pm2_inv_ok s'.
Proof.
  intros cbs cb Hcb s c Hi. apply (pm2_read_total bsr_ok cb); [|exact Hi].
  intros r0 c0 n. apply (read_bits_ok cb Hcb).
Qed.

Print Assumptions pm2_init_wf.
Print Assumptions pm2_never_faults.
Print Assumptions pm2_init_ok_ok.
Print Assumptions pm2_never_faults_len.
Print Assumptions pm2_read_total.

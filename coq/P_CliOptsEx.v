(* P_CliOptsEx.v -- non-vacuity of the option theorems on the archive of
   P_CliTreeEx.v (d/ 0555, d/a.txt "hello world\n" 0644, d/l -> a.txt):
   w=out with "out" missing, option i, the p command, and the overwrite
   prompt over an existing d/a.txt. *)
From Lhasa Require Import Base ListN DecBase Loop Generated Crc16 InputStream Header BasicReader
  AnyDecoder Decoder MacBinary Fs FsRun Reader Glob ListOut CliFilter CliExtract CliMain
  P_ReaderCheck P_FsExtract P_ReaderExtract P_CliExtract P_CliTree P_CliTreeEx
  P_FsReplace P_CliOverwrite P_CliExtractGen P_CliTreeGen P_CliFlat P_CliWdir P_CliPrint P_CliFilterSkip.
Local Open Scope N_scope.

Definition n_out : name := [111;117;116].
Definition with_opts (st : cli_state) (o : lha_options) : cli_state := set_opts st o.

Lemma ex_ready : dir_ready ex_fs [] true 493 0 [].
Proof.
  split; [constructor|]. split.
  - apply chain_nil. exists true, 493, 0, []. split; vm_compute; reflexivity.
  - split; vm_compute; reflexivity.
Qed.

Lemma ex_rinv : rinv (cs_reader ex_st) [].
Proof. repeat split. discriminate. Qed.

Lemma ex_upcoming : upcoming mktime_utc 0 (cs_reader ex_st) (flat_map ser ex_items).
Proof. exists ex_br1. split; [vm_compute; reflexivity|exact ex_positioned]. Qed.

(* ---- w=out, "out" does not exist ---- *)
Definition o_w : lha_options := set_extract_path init_options (Some n_out).

Example ex_wdir :
  exists st', extract_archive mktime_utc 0 (lha_filter_init []) (with_opts ex_st o_w) = Ok (RVal true, st') /\
    fs_root (cs_fs st') = update_at (fs_root ex_fs) (fs_cwd ex_fs)
      (const_some (Dir true 493 now ([] ++ [(n_out, Dir true 493 now (builds 18 ex_items))]))).
Proof.
  assert (Hgood : good_name n_out).
  { split; [discriminate|split; [repeat constructor; discriminate|repeat split; vm_compute; reflexivity]]. }
  destruct ex_items as [|it more] eqn:E; [discriminate|].
  destruct (extract_archive_wdir_created mktime_utc 0 (lha_filter_init []) eq_refl 18 false (conj eq_refl eq_refl)
              n_out Hgood ltac:(vm_compute; discriminate) it more (with_opts ex_st o_w) true 493 0 []) as (st' & Hex & _ & Hroot).
  - rewrite <- E. exact ex_wf.
  - rewrite <- E. constructor; [|constructor]. cbn [fits].
    split; [vm_compute; discriminate|]. split; [vm_compute; discriminate|]. split; [vm_compute; discriminate|exact I].
  - rewrite <- E. repeat constructor. intros [].
  - eapply (pfx_wdir o_w n_out [n_out]); reflexivity.
  - reflexivity.
  - reflexivity.
  - exact ex_ready.
  - reflexivity.
  - reflexivity.
  - exact ex_rinv.
  - rewrite <- E. exact ex_upcoming.
  - rewrite <- E. vm_compute. reflexivity.
  - exists st'. split; [exact Hex|]. rewrite Hroot. reflexivity.
Qed.

(* ---- option i ---- *)
Definition o_i : lha_options := set_use_path init_options false.

Example ex_flat :
  exists st', extract_archive mktime_utc 0 (lha_filter_init []) (with_opts ex_st o_i) = Ok (RVal true, st') /\
    fs_root (cs_fs st') = update_at (fs_root ex_fs) (fs_cwd ex_fs ++ [])
      (const_some (Dir true 493 now ([] ++ [(n_a, File true 420 1000000000 ex_bytes); (n_l, Link ex_tgt)]))).
Proof.
  destruct (extract_archive_flat mktime_utc 0 (lha_filter_init []) eq_refl 18 false [] ex_items (with_opts ex_st o_i) true 493 0 [])
    as (st' & Hex & _ & Hadd).
  - exact ex_wf.
  - change (map fst (flats 18 ex_items)) with [n_a; n_l].
    constructor; [intros [H|[]]; discriminate|]. constructor; [intros []|constructor].
  - change (map fst (flats 18 ex_items)) with [n_a; n_l].
    intros c [<-|[<-|[]]]; (split; [reflexivity|vm_compute; discriminate]).
  - apply flat_opts_i; reflexivity.
  - reflexivity.
  - reflexivity.
  - exact ex_ready.
  - exact ex_rinv.
  - exact ex_upcoming.
  - vm_compute. reflexivity.
  - exists st'. split; [exact Hex|]. exact Hadd.
Qed.

(* ---- the p command ---- *)
Example ex_positionedP :
  positionedP mktime_utc 0 ex_br1 [MOther ex_hd; MFile ex_ha ex_bytes; MOther ex_hl].
Proof.
  eapply ppos_other; [vm_compute; reflexivity|vm_compute; reflexivity|vm_compute; reflexivity|].
  eapply ppos_file; [vm_compute; reflexivity|vm_compute; reflexivity|vm_compute; reflexivity|].
  intros r Hbr Hty Hcur Hdec. destruct r as [br cur ty dec inn pol stk dfr lk]. cbn in Hbr, Hty, Hcur, Hdec. subst br ty cur dec.
  exists [ex_bytes]. eexists. split.
  - eapply rl_more; [discriminate|vm_compute; reflexivity|]. eapply rl_last. vm_compute. reflexivity.
  - split; [reflexivity|]. split; [vm_compute; reflexivity|].
    eexists _, _. split; [vm_compute; reflexivity|].
    eapply ppos_other; [vm_compute; reflexivity|vm_compute; reflexivity|vm_compute; reflexivity|].
    apply ppos_end. vm_compute. reflexivity.
Qed.

Example ex_print :
  exists st', print_archive mktime_utc 0 (lha_filter_init []) ex_st = Ok (RVal true, st') /\
    cs_fs st' = ex_fs /\
    stdout_bytes st' =
      (* "::::::::\nd/a.txt\n::::::::\n" "hello world\n" "Symbolic Link d/l -> a.txt\n" *)
      s_banner_top ++ [100;47;97;46;116;120;116] ++ s_banner_bottom ++ ex_bytes ++
      s_symbolic_link ++ [100;47;108] ++ s_arrow ++ ex_tgt ++ [10].
Proof.
  destruct (print_archive_output mktime_utc 0 (lha_filter_init []) eq_refl
              [MOther ex_hd; MFile ex_ha ex_bytes; MOther ex_hl] ex_st) as (st' & Hex & Hfs & Hout).
  - reflexivity.
  - exact ex_rinv.
  - exists ex_br1. split; [vm_compute; reflexivity|exact ex_positionedP].
  - vm_compute. reflexivity.
  - exists st'. split; [exact Hex|]. split; [exact Hfs|]. rewrite Hout. vm_compute. reflexivity.
Qed.

Print Assumptions ex_wdir.
Print Assumptions ex_flat.
Print Assumptions ex_print.

(* ---- the overwrite prompt: d/a.txt exists with contents "old" ---- *)
Definition ow_fs : fs :=
  cli_fs_init false exa 1200000000 [OMkdir [100] 493; OFopen [100;47;97;46;116;120;116] (Some 420) [111;108;100]].
Definition ow_reader : reader :=
  match lha_reader_next_file mktime_utc (cs_reader ex_st) with
  | Ok (_, r1) => match lha_reader_next_file mktime_utc r1 with Ok (_, r2) => r2 | _ => r1 end
  | _ => cs_reader ex_st
  end.
Definition ow_st (answer : list N) : cli_state :=
  {| cs_fs := ow_fs; cs_reader := ow_reader; cs_opts := init_options; cs_stdin := answer; cs_stdin_shared := false;
     cs_out := []; cs_err := [] |}.
Definition ow_old : node := File true 420 0 [111;108;100].

Lemma ow_ready : dir_ready ow_fs [n_d] true 493 0 [(n_a, ow_old)].
Proof.
  assert (Hgd : good_name n_d) by (split; [discriminate|split; [repeat constructor; discriminate|repeat split; vm_compute; reflexivity]]).
  split; [constructor; [exact Hgd|constructor]|]. split.
  - change [n_d] with ([] ++ [n_d]). apply chain_snoc.
    + apply chain_nil. eexists _, _, _, _. split; vm_compute; reflexivity.
    + eexists _, _, _, _. split; vm_compute; reflexivity.
  - split; vm_compute; reflexivity.
Qed.

Lemma ow_good_a : good_name n_a.
Proof. split; [discriminate|split; [repeat constructor; discriminate|repeat split; vm_compute; reflexivity]]. Qed.

Lemma ow_file_hdr : file_hdr [n_d] n_a ex_ha.
Proof. repeat split; vm_compute; reflexivity. Qed.

(* answer "y": replaced by the archived contents, mode and time *)
Example ex_overwrite_yes :
  exists st', extract_archived_file 0 ex_ha (ow_st [121; 10]) = Ok (RVal true, st') /\
    fs_root (cs_fs st') = update_at (fs_root ow_fs) (fs_cwd ow_fs ++ [n_d])
      (const_some (Dir true 493 now ([] ++ [(n_a, File true 420 1000000000 ex_bytes)]))).
Proof.
  destruct (ex_member_ok ow_reader) as [r2 Hmem]; [vm_compute; reflexivity|vm_compute; reflexivity|vm_compute; reflexivity|].
  destruct (overwrite_answer_yes 0 ex_ha (ow_st [121; 10]) [n_d] n_a true 493 0 [(n_a, ow_old)] ow_old
              (conj eq_refl (conj eq_refl eq_refl)) ow_ready ow_good_a ltac:(vm_compute; discriminate) ow_file_hdr eq_refl
              ltac:(repeat eexists) 0%nat (ow_st [121; 10]) eq_refl eq_refl (asked_0 _ _) ltac:(vm_compute; reflexivity)
              121 [] ex_bytes r2 eq_refl eq_refl) as (st' & Hex & (_ & _ & Hroot) & _).
  - split; [vm_compute; reflexivity|]. split; [repeat constructor; intros []|].
    split; [vm_compute; reflexivity|]. split; [vm_compute; reflexivity|]. split; [exact Hmem|]. right. vm_compute. reflexivity.
  - exists st'. split; [exact Hex|]. rewrite Hroot. reflexivity.
Qed.

(* answer "n": the file stays as it was, nothing is printed on standard output *)
Example ex_overwrite_no :
  exists st', extract_archived_file 0 ex_ha (ow_st [110; 10]) = Ok (RVal true, st') /\
    cs_fs st' = ow_fs /\ cs_out st' = [].
Proof.
  destruct (overwrite_answer_no 0 ex_ha (ow_st [110; 10]) [n_d] n_a true 493 0 [(n_a, ow_old)] ow_old
              (conj eq_refl (conj eq_refl eq_refl)) ow_ready ow_good_a ltac:(vm_compute; discriminate) ow_file_hdr eq_refl
              ltac:(repeat eexists) 0%nat (ow_st [110; 10]) eq_refl eq_refl (asked_0 _ _) ltac:(vm_compute; reflexivity)
              110 [] eq_refl eq_refl) as (Hex & Hfs & Hout).
  eexists. split; [exact Hex|]. split; [exact Hfs|exact Hout].
Qed.

Print Assumptions ex_overwrite_yes.
Print Assumptions ex_overwrite_no.

(* ---- wildcard "d/a*": the entry d/ is passed over, d/a.txt is returned ---- *)
Example ex_filter_skip :
  exists r', filter_next_file mktime_utc (lha_filter_init [[100;47;97;42]]) (cs_reader ex_st) = Ok (Some ex_ha, r').
Proof.
  eexists. eapply (filter_next_file_skips mktime_utc (lha_filter_init [[100;47;97;42]]) (cs_reader ex_st) [ex_hd]).
  - eapply sk_skip; [vm_compute; reflexivity|vm_compute; reflexivity|].
    eapply sk_hit; [vm_compute; reflexivity|vm_compute; reflexivity].
  - vm_compute. reflexivity.
Qed.
Print Assumptions ex_filter_skip.

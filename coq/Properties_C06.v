(* Properties_C06.v -- C06: extraction reproduces the archived tree.  Statements
   over the model of the tool (CliMain.v / CliExtract.v / CliFilter.v on
   Reader.v and the filesystem model Fs.v).  Proved here: the wildcard semantics
   of the member selection, and a computed instance of the whole property (a
   read-only directory written after it was created, a file with contents, time
   and mode, a safe link).  The general theorem (every well-formed archive) is in
   progress (P_CliExtract.v); until then the property is decided on every run by
   the reference oracle of the check on the real tool and the correspondence. *)
From Lhasa Require Import Base Generated Header Fs FsRun Glob Reader CliFilter CliExtract CliMain InputStream ListOut P_ListOut.
Local Open Scope N_scope.

(* '*' matches any run of bytes, '?' exactly one, any other byte itself (case-sensitive) *)
Theorem glob_correct : forall p s, match_glob p s = true <-> matches p s.
Proof. exact P_ListOut.glob_correct. Qed.

(* a member is selected iff no pattern was given or one of them matches path ++ name *)
Theorem wildcards_select_exactly : forall f h,
  matches_filter f h = true <->
  (f_filters f = [] \/ exists g, In g (f_filters f) /\ matches g (opt_str (h_path h) ++ opt_str (h_filename h))).
Proof.
  intros f h. unfold matches_filter. destruct (f_filters f) as [|g0 gs] eqn:E.
  - split; [intros _; left; reflexivity|reflexivity].
  - rewrite existsb_exists. split.
    + intros (g & Hin & Hm). right. exists g. split; [exact Hin|]. apply P_ListOut.glob_correct. exact Hm.
    + intros [H|(g & Hin & Hm)]; [discriminate|]. exists g. split; [exact Hin|]. apply P_ListOut.glob_correct. exact Hm.
Qed.

(* ---- a computed instance: directory d/ (0555, time 1262304000) listed first, then
   d/a.txt (stored, "hello world\n", 0644, time 1000000000) and the link d/l -> a.txt ---- *)
Definition ex_archive : list N :=
  [36;0;45;108;104;100;45;0;0;0;0;0;0;0;0;0;59;61;75;32;2;0;0;85;5;0;2;100;255;5;0;80;109;65;0;0;
   44;0;45;108;104;48;45;12;0;0;0;12;0;0;0;0;202;154;59;32;2;120;151;85;8;0;1;97;46;116;120;116;5;0;2;100;255;5;0;80;164;129;0;0;
   104;101;108;108;111;32;119;111;114;108;100;10;
   46;0;45;108;104;100;45;0;0;0;0;0;0;0;0;0;133;226;1;32;2;0;0;85;10;0;1;108;124;97;46;116;120;116;5;0;2;100;255;5;0;80;255;161;0;0;0].
Definition ex_argv : list (list N) := [[108;104;97]; [120]; [47;97;114;99;47;97;46;108;122;104]].      (* lha x /arc/a.lzh *)
Definition ex_run : outcome cli_result :=
  cli_run mktime_utc gmtime_utc (fun _ => []) false 1300000000 1200000000 ex_argv ex_archive [] [].

(* kind (1 directory, 2 file, 3 link), permission bits, modification time, contents / target *)
Definition node_at (s : fs) (p : list N) : option (N * N * N * list N) :=
  match resolve s p false with
  | WOk _ _ (Some (Dir _ perms t _)) => Some (1, perms, t, [])
  | WOk _ _ (Some (File _ perms t d)) => Some (2, perms, t, d)
  | WOk _ _ (Some (Link t)) => Some (3, 0, 0, t)
  | _ => None
  end.

Example extraction_instance :
  exists r, ex_run = Ok r /\ cr_exit r = 0 /\
    node_at (cr_fs r) [100] = Some (1, 365, 1262304000, []) /\                                     (* d : 0555 *)
    node_at (cr_fs r) [100;47;97;46;116;120;116] =
      Some (2, 420, 1000000000, [104;101;108;108;111;32;119;111;114;108;100;10]) /\            (* d/a.txt : 0644 *)
    node_at (cr_fs r) [100;47;108] = Some (3, 0, 0, [97;46;116;120;116]).                         (* d/l -> a.txt *)
Proof. eexists. split; [vm_compute; reflexivity|]. repeat split; vm_compute; reflexivity. Qed.

Print Assumptions glob_correct.
Print Assumptions wildcards_select_exactly.
Print Assumptions extraction_instance.

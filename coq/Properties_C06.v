(* Properties_C06.v -- C06: extraction reproduces the archived tree.  Statements
   over the model of the tool (CliMain.v / CliExtract.v / CliFilter.v on
   Reader.v and the filesystem model Fs.v).  Proved: the wildcard semantics of the
   member selection; the general tree theorem for plain `lha x` into a directory
   that holds none of the archive's top-level names (extract_archive_reproduces_tree:
   EVERY well-formed description -- nested directories listed before their contents,
   files, safe links --, whatever the recorded permissions of the directories, yields
   exactly the described tree: contents, modes, times, targets; proof in P_FsExtract,
   P_ReaderExtract, P_CliExtract, P_CliTree); and a computed instance on real archive
   bytes.  Also proved (second part of this file; the
   statements are those of P_CliOverwrite.v, P_CliTreeGen.v, P_CliFlat.v, P_CliWdir.v,
   P_CliPrint.v, P_CliFilterSkip.v, re-exported under the same names): the overwrite
   policy, options i and w=DIR, the p command, the filter loop.  MacOS members are covered by
   mac_run_content / mac_extract_content and the forest theorem extract_archive_below_any.
   Wildcard-selected extraction of archives with directory entries: extract_archive_selected_tree;
   p for MacOS members and under patterns: print_archive_output_mac (both at the end of the file).
   Not proved (decided on every run by the reference oracle on the real tool and by the
   correspondence): creation of a missing DIR spelled with a trailing '/'. *)
From Lhasa Require Import Base Generated Header Fs FsRun Glob Reader CliFilter CliExtract CliMain InputStream ListOut P_ListOut P_FsExtract P_CliExtract P_CliTree.
From Lhasa Require Properties_E2E.
From Lhasa Require P_CliOverwrite P_CliTreeGen P_CliFlat P_CliWdir P_CliPrint P_CliFilterSkip P_MacContent P_MacExtract P_CliTreeAny P_CliWdirN P_CliTreeSlash P_CliSelectFlat P_CliSelectTree P_CliPrintMac.
Local Open Scope N_scope.

(* '*' matches any run of bytes, '?' exactly one, any other byte itself (case-sensitive) *)
Theorem glob_correct : forall p s, match_glob p s = true <-> matches p s.
Proof. exact P_ListOut.glob_correct. Qed.

(* a member is selected iff no pattern was given or one of them matches path ++ name *)
Theorem wildcards_select_exactly : forall f h,
  matches_filter f h = true <->
  (f_filters f = [] \/ exists g, In g (f_filters f) /\ matches g (opt_str (h_path h) ++ opt_str (h_filename h))).
Proof.
  intros f h. unfold matches_filter. destruct (f_filters f) as [|g0 gs] eqn:E.
  - split; [intros _; left; reflexivity|reflexivity].
  - rewrite existsb_exists. split.
    + intros (g & Hin & Hm). right. exists g. split; [exact Hin|]. apply P_ListOut.glob_correct. exact Hm.
    + intros [H|(g & Hin & Hm)]; [discriminate|]. exists g. split; [exact Hin|]. apply P_ListOut.glob_correct. exact Hm.
Qed.

(* ---- the tree theorem ----
   item      = IFile / ILink / IDir with sub-items: the description of a tree;
   ser       = its directory-first serialisation into headers;
   wf_item   = names are real names (non-empty, no '/', not "." or "..", <= 255 bytes,
               distinct per directory), paths <= 4095 bytes, links safe, modes without
               set-id bits unless root;
   upcoming  = the reader delivers exactly these headers, in this order, and every
               regular member decodes to the described bytes with matching length and
               CRC (what C01-C04 prove for well-formed streams);
   build(s)  = the nodes described: File own mode time bytes / Link target /
               Dir own mode time entries, modes = recorded bits (or the creation mode),
               times = recorded stamps;
   dir_ready = the extraction directory is owned, writable and searchable.
   Conclusion: extract_archive returns success and the extraction directory holds its
   old entries followed by exactly the described nodes. *)
Theorem extract_archive_reproduces_tree :
  forall mktime junk (f : lha_filter), f_filters f = [] ->
  forall (u : N) (uid0 : bool), umask_ok u ->
  forall (its : list item) (st : cli_state) (o : bool) (pm t : N) (ents : list (name * node)),
  let s := cs_fs st in
  Forall (wf_item u uid0 []) its -> NoDup (map iname its) ->
  (forall c, In c (map iname its) -> lookup ents c = None) ->
  plain_opts (cs_opts st) -> fs_umask s = u -> fs_uid0 s = uid0 ->
  dir_ready s [] o pm t ents -> N.land pm 1024 = 0 ->
  rinv (cs_reader st) [] -> upcoming mktime junk (cs_reader st) (flat_map ser its) ->
  N.of_nat (sizes its) < 2 ^ 40 ->
  exists st', extract_archive mktime junk f st = Ok (RVal true, st') /\
    same_env s (cs_fs st') /\
    match its with
    | [] => cs_fs st' = s
    | _ :: _ => fs_root (cs_fs st') = update_at (fs_root s) (fs_cwd s) (const_some (Dir o pm now (ents ++ builds u its)))
    end.
Proof. exact P_CliTree.extract_archive_reproduces_tree. Qed.

(* reading the result: every described top-level item is found at its name with exactly
   its described node (and recursively inside directories: extracted_sub in P_CliTree.v) *)
Theorem extracted_items_are_there :
  forall (u : N) (its : list item) (root : node) (cwd : phys) (o : bool) (pm : N) (ents : list (name * node)) (m0 : node),
  node_at root cwd = Some m0 -> NoDup (map iname its) ->
  (forall c, In c (map iname its) -> lookup ents c = None) ->
  forall it, In it its ->
  Fs.node_at (update_at root cwd (const_some (Dir o pm now (ents ++ builds u its)))) (cwd ++ [iname it]) = Some (build u it).
Proof. exact P_CliTree.extracted_top. Qed.

(* ---- a computed instance: directory d/ (0555, time 1262304000) listed first, then
   d/a.txt (stored, "hello world\n", 0644, time 1000000000) and the link d/l -> a.txt ---- *)
Definition ex_archive : list N :=
  [36;0;45;108;104;100;45;0;0;0;0;0;0;0;0;0;59;61;75;32;2;0;0;85;5;0;2;100;255;5;0;80;109;65;0;0;
   44;0;45;108;104;48;45;12;0;0;0;12;0;0;0;0;202;154;59;32;2;120;151;85;8;0;1;97;46;116;120;116;5;0;2;100;255;5;0;80;164;129;0;0;
   104;101;108;108;111;32;119;111;114;108;100;10;
   46;0;45;108;104;100;45;0;0;0;0;0;0;0;0;0;133;226;1;32;2;0;0;85;10;0;1;108;124;97;46;116;120;116;5;0;2;100;255;5;0;80;255;161;0;0;0].
Definition ex_argv : list (list N) := [[108;104;97]; [120]; [47;97;114;99;47;97;46;108;122;104]].      (* lha x /arc/a.lzh *)
Definition ex_run : outcome cli_result :=
  cli_run mktime_utc gmtime_utc (fun _ => []) false 1300000000 1200000000 ex_argv ex_archive [] [].

(* kind (1 directory, 2 file, 3 link), permission bits, modification time, contents / target *)
Definition node_at (s : fs) (p : list N) : option (N * N * N * list N) :=
  match resolve s p false with
  | WOk _ _ (Some (Dir _ perms t _)) => Some (1, perms, t, [])
  | WOk _ _ (Some (File _ perms t d)) => Some (2, perms, t, d)
  | WOk _ _ (Some (Link t)) => Some (3, 0, 0, t)
  | _ => None
  end.

Example extraction_instance :
  exists r, ex_run = Ok r /\ cr_exit r = 0 /\
    node_at (cr_fs r) [100] = Some (1, 365, 1262304000, []) /\                                     (* d : 0555 *)
    node_at (cr_fs r) [100;47;97;46;116;120;116] =
      Some (2, 420, 1000000000, [104;101;108;108;111;32;119;111;114;108;100;10]) /\            (* d/a.txt : 0644 *)
    node_at (cr_fs r) [100;47;108] = Some (3, 0, 0, [97;46;116;120;116]).                         (* d/l -> a.txt *)
Proof. eexists. split; [vm_compute; reflexivity|]. repeat split; vm_compute; reflexivity. Qed.

(* ====== overwrite policy, options, print, filter (statements: see the P_ files) ======

   An archived file replaces an existing regular file iff the policy in force says so
   (P_CliOverwrite.v; `replaced` = the directory entry becomes File own mode time bytes of
   the archive, `asked` = the prompt was shown k times for undecisive lines):
     overwrite_all          policy ALL (options f, q, q0, q1, q2: options_force)  -> replaced
     overwrite_skip         policy SKIP            -> filesystem untouched, "Skipped" line
     overwrite_answer_yes   prompt, answer y / Y   -> replaced, options unchanged
     overwrite_answer_all   prompt, answer a / A   -> replaced, policy becomes ALL
     overwrite_answer_no    prompt, n / N / empty  -> filesystem and stdout identical
     overwrite_answer_skip  prompt, s / S          -> filesystem identical, policy SKIP
     overwrite_answer_eof   prompt, end of input   -> exit 255, filesystem identical *)
Theorem overwrite_all : ltac:(let t := type of P_CliOverwrite.overwrite_all in exact t).
Proof. exact P_CliOverwrite.overwrite_all. Qed.
Theorem overwrite_skip : ltac:(let t := type of P_CliOverwrite.overwrite_skip in exact t).
Proof. exact P_CliOverwrite.overwrite_skip. Qed.
Theorem overwrite_answer_yes : ltac:(let t := type of P_CliOverwrite.overwrite_answer_yes in exact t).
Proof. exact P_CliOverwrite.overwrite_answer_yes. Qed.
Theorem overwrite_answer_all : ltac:(let t := type of P_CliOverwrite.overwrite_answer_all in exact t).
Proof. exact P_CliOverwrite.overwrite_answer_all. Qed.
Theorem overwrite_answer_no : ltac:(let t := type of P_CliOverwrite.overwrite_answer_no in exact t).
Proof. exact P_CliOverwrite.overwrite_answer_no. Qed.
Theorem overwrite_answer_skip : ltac:(let t := type of P_CliOverwrite.overwrite_answer_skip in exact t).
Proof. exact P_CliOverwrite.overwrite_answer_skip. Qed.
Theorem overwrite_answer_eof : ltac:(let t := type of P_CliOverwrite.overwrite_answer_eof in exact t).
Proof. exact P_CliOverwrite.overwrite_answer_eof. Qed.
Theorem options_force : ltac:(let t := type of P_CliOverwrite.options_force in exact t).
Proof. exact P_CliOverwrite.options_force. Qed.
Theorem options_default : ltac:(let t := type of P_CliOverwrite.options_default in exact t).
Proof. exact P_CliOverwrite.options_default. Qed.

(* w=DIR: the forest theorem under a base location (extract_archive_below), and with DIR
   missing: DIR is created 0755 & ~umask by the first make_parent_directories call and
   holds exactly the described nodes (one missing component) *)
Theorem extract_archive_below : ltac:(let t := type of P_CliTreeGen.extract_archive_below in exact t).
Proof. exact P_CliTreeGen.extract_archive_below. Qed.
Theorem extract_archive_wdir_created : ltac:(let t := type of P_CliWdir.extract_archive_wdir_created in exact t).
Proof. exact P_CliWdir.extract_archive_wdir_created. Qed.

(* option i: every file and safe link lands directly in the target directory under its
   last name component; directory entries are passed over *)
Theorem extract_archive_flat : ltac:(let t := type of P_CliFlat.extract_archive_flat in exact t).
Proof. exact P_CliFlat.extract_archive_flat. Qed.

(* p: nothing touches the filesystem; stdout gains, member by member in archive order,
   the banner "::::::::\n<sanitised path>\n::::::::\n" (omitted at quiet level 2) followed
   by exactly the member's bytes; links give their "Symbolic Link a -> b" line *)
Theorem print_archive_output : ltac:(let t := type of P_CliPrint.print_archive_output in exact t).
Proof. exact P_CliPrint.print_archive_output. Qed.

(* the filter loop passes over exactly the members no pattern matches *)
Theorem filter_next_file_skips : ltac:(let t := type of P_CliFilterSkip.filter_next_file_skips in exact t).
Proof. exact P_CliFilterSkip.filter_next_file_skips. Qed.

(* MacOS members: whenever extract_file succeeds on one, the file holds
   firstn (h_length h) (mac_out h ibs) where ibs is the inner stream (it has the header's
   length and CRC) and mac_out h ibs = ibs when the stored length is < 128 or the first
   128 bytes are not a MacBinary envelope for this header, and otherwise the data fork --
   or the resource fork when the data fork is empty -- taken after the 128-byte envelope
   (both forks empty, stored length exactly 128: the empty file).  extract_archive_below_any:
   the forest theorem for archives whose regular members may be of either kind. *)
Theorem mac_run_content : ltac:(let t := type of P_MacContent.mac_run_content in exact t).
Proof. exact P_MacContent.mac_run_content. Qed.
Theorem mac_extract_content : ltac:(let t := type of P_MacContent.mac_extract_content in exact t).
Proof. exact P_MacContent.mac_extract_content. Qed.
Theorem extract_archive_below_any : ltac:(let t := type of P_CliTreeAny.extract_archive_below_any in exact t).
Proof. exact P_CliTreeAny.extract_archive_below_any. Qed.

(* ====== END TO END (statements with their vocabulary: Properties_E2E.v) ======
   From archive BYTES to the extracted tree, composed by the kernel out of C05 (header round
   trip), C15/C12/C16 (the reader over any stream kind, first read through the scan), C03
   (stored members), C17 (CRC), C07 (verdict good) and the tree theorem above:
     e2e_cli_run: for every well-formed tree description ds (names, modes, times, bytes,
       safe link targets as in S_Capstone.wf_desc), `lha x /arc/a.lzh` on the bytes
       archive_of ds returns exit status 0 and leaves in the extraction directory exactly
       trees_of ds; e2e_cli_run_found: every described file / link / directory is found at
       its path with its contents, mode, time, target; e2e_cli_run_stdin: the same with the
       archive on standard input (a pipe); e2e_upcoming: the reader delivers exactly the
       described headers for every stream kind. *)
Theorem e2e_upcoming : ltac:(let t := type of Properties_E2E.e2e_upcoming in exact t).
Proof. exact Properties_E2E.e2e_upcoming. Qed.
Theorem e2e_cli_run : ltac:(let t := type of Properties_E2E.e2e_cli_run in exact t).
Proof. exact Properties_E2E.e2e_cli_run. Qed.
Theorem e2e_cli_run_stdin : ltac:(let t := type of Properties_E2E.e2e_cli_run_stdin in exact t).
Proof. exact Properties_E2E.e2e_cli_run_stdin. Qed.
Theorem e2e_cli_run_found : ltac:(let t := type of Properties_E2E.e2e_cli_run_found in exact t).
Proof. exact Properties_E2E.e2e_cli_run_found. Qed.

(* w=DIR with several missing components: each is created in turn 0755 & ~umask and the
   innermost holds exactly the described nodes; w=DIR/ (trailing slash, DIR present): the
   forest theorem over the doubled-slash path strings; wildcard selection together with
   extraction for archives of top-level files and safe links: exactly the members some
   pattern matches are extracted, in order, the others are passed over undecoded, nothing
   else is created. *)
Theorem extract_archive_wdir_created_n : ltac:(let t := type of P_CliWdirN.extract_archive_wdir_created_n in exact t).
Proof. exact P_CliWdirN.extract_archive_wdir_created_n. Qed.
Theorem extract_archive_below_slash : ltac:(let t := type of P_CliTreeSlash.extract_archive_below_slash in exact t).
Proof. exact P_CliTreeSlash.extract_archive_below_slash. Qed.
Theorem extract_archive_selected_flat : ltac:(let t := type of P_CliSelectFlat.extract_archive_selected_flat in exact t).
Proof. exact P_CliSelectFlat.extract_archive_selected_flat. Qed.

(* wildcard selection together with extraction for archives WITH directory entries
   (extract_archive_selected_tree): the target directory holds its old entries followed by
   exactly [sbuilds f u its]: every selected file and safe link with its contents, mode and time;
   a selected directory entry with its recorded mode and time (sbuilds_exactly, first case);
   a directory entry that is not selected but has a selected member below it: made by
   make_parent_directories with mode 0755 & ~umask and the time of its creation, the recorded
   mode and time are not applied (second case); nothing for a directory without selected
   members (sbuilds_nil); without patterns it is the tree of the forest theorems (sbuilds_nofilter).
   The members no pattern matches are passed over undecoded. *)
Theorem extract_archive_selected_tree : ltac:(let t := type of P_CliSelectTree.extract_archive_selected_tree in exact t).
Proof. exact P_CliSelectTree.extract_archive_selected_tree. Qed.
Theorem sbuilds_exactly : ltac:(let t := type of P_CliSelectTree.sbuilds_exactly in exact t).
Proof. exact P_CliSelectTree.sbuilds_exactly. Qed.
Theorem sbuilds_nil : ltac:(let t := type of P_CliSelectTree.sbuilds_nil in exact t).
Proof. exact P_CliSelectTree.sbuilds_nil. Qed.
Theorem sbuilds_nofilter : ltac:(let t := type of P_CliSelectTree.sbuilds_nofilter in exact t).
Proof. exact P_CliSelectTree.sbuilds_nofilter. Qed.
(* every entry of sbuilds is found at its name in the resulting tree *)
Theorem selected_items_are_there : ltac:(let t := type of P_CliSelectTree.selected_top in exact t).
Proof. exact P_CliSelectTree.selected_top. Qed.

(* p for MacOS members and under patterns: standard output gains, for every selected member in
   archive order, banner and bytes; the bytes of a selected MacOS member whose inner stream has
   the recorded length and CRC are firstn (h_length h) (mac_out h ibs): the content function of
   mac_extract_content (mac_print_content: one member, whatever the reads return) *)
Theorem mac_print_content : ltac:(let t := type of P_CliPrintMac.mac_print_content in exact t).
Proof. exact P_CliPrintMac.mac_print_content. Qed.
Theorem print_archive_output_mac : ltac:(let t := type of P_CliPrintMac.print_archive_output_mac in exact t).
Proof. exact P_CliPrintMac.print_archive_output_mac. Qed.

Print Assumptions glob_correct.
Print Assumptions wildcards_select_exactly.
Print Assumptions extraction_instance.
Print Assumptions extract_archive_reproduces_tree.
Print Assumptions extracted_items_are_there.
Print Assumptions overwrite_all.
Print Assumptions overwrite_skip.
Print Assumptions overwrite_answer_yes.
Print Assumptions overwrite_answer_all.
Print Assumptions overwrite_answer_no.
Print Assumptions overwrite_answer_skip.
Print Assumptions overwrite_answer_eof.
Print Assumptions options_force.
Print Assumptions options_default.
Print Assumptions extract_archive_below.
Print Assumptions extract_archive_wdir_created.
Print Assumptions extract_archive_flat.
Print Assumptions print_archive_output.
Print Assumptions filter_next_file_skips.
Print Assumptions mac_run_content.
Print Assumptions mac_extract_content.
Print Assumptions extract_archive_below_any.
Print Assumptions e2e_upcoming.
Print Assumptions e2e_cli_run.
Print Assumptions e2e_cli_run_stdin.
Print Assumptions e2e_cli_run_found.
Print Assumptions extract_archive_wdir_created_n.
Print Assumptions extract_archive_below_slash.
Print Assumptions extract_archive_selected_flat.
Print Assumptions extract_archive_selected_tree.
Print Assumptions sbuilds_exactly.
Print Assumptions sbuilds_nil.
Print Assumptions sbuilds_nofilter.
Print Assumptions selected_items_are_there.
Print Assumptions mac_print_content.
Print Assumptions print_archive_output_mac.

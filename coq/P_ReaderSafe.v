(* P_ReaderSafe.v -- C08 for the reader layer (lib/lha_reader.c, Reader.v): inside the
   API protocol no call of lha_reader_next_file / _read / _check / _extract /
   _set_dir_policy faults (sites 1401-1415, and through them 1301-1314 of
   macbinary.c, 501 of lha_decoder.c, every site of the decoders, of the header
   parser and of the input stream), for every byte string, stream kind, directory
   policy, filesystem state and explicit file name.

   "never faults" is [okp True P m] (P_HeaderSafe): m is [Ok a] with [P a] or
   [OutOfFuel] (the model's loop bounds; only for inputs of many megabytes), never
   [Fault _].  P re-establishes the reader invariant [RInv].

   The -lh1- decoder's invariant is the Section variable [lh1_inv]; its two theorems
   are Section hypotheses [Hlh1] and [lh1_init_inv] (see P_AnyDecoder.v). *)
From Lhasa Require Import Base ListN DecBase Loop Generated InputStream Header BasicReader
  Lh1 AnyDecoder Decoder MacBinary Fs FsRun Reader
  P_HeaderSafe P_Header P_AnyParam P_AnyDecoder P_MacBinarySafe.
From Lhasa Require ReaderMem P_ReaderMem P_ReaderCheck P_BitReader.
From Coq Require Import ZifyBool ZifyN ZifyNat.
Local Open Scope N_scope.

(* ------------------------------------------------------------------ *)
(* 1. What the header parser guarantees about names                     *)

(* a header that is not a directory entry has a file name (the C: strlen(filename),
   site 1307); a directory entry that is not a symbolic link has a path
   (mkdir(path), sites 1401 / 1405 / 1410) *)
Definition hdr_ok (h : header) : Prop :=
  (method_is h COMPRESS_TYPE_DIR = false -> h_filename h <> None) /\
  (method_is h COMPRESS_TYPE_DIR = true -> h_symlink_target h = None -> h_path h <> None).

Definition hdrK (h : header) : Prop :=
  (method_is h COMPRESS_TYPE_DIR = false /\ h_filename h <> None) \/
  (method_is h COMPRESS_TYPE_DIR = true /\ (h_symlink_target h <> None \/ h_path h <> None)).

Lemma hdrK_ok h : hdrK h -> hdr_ok h.
Proof.
  intros [[A B]|[A [B|B]]]; split; intros C; try congruence; intros D; try congruence; auto.
Qed.

(* the four fields hdrK looks at *)
Definition same4 (h h' : header) : Prop :=
  h_method h' = h_method h /\ h_symlink_target h' = h_symlink_target h /\
  (h_filename h <> None -> h_filename h' <> None) /\ (h_path h <> None -> h_path h' <> None).

Lemma same4_K h h' : same4 h h' -> hdrK h -> hdrK h'.
Proof.
  intros (A & B & C & D). unfold hdrK, method_is. rewrite A, B.
  intros [[E F]|[E [F|F]]]; [left|right|right]; split; auto.
Qed.

Lemma same4_refl h : same4 h h.
Proof. repeat split; auto. Qed.

Lemma option_map_some {A B} (f : A -> B) o : o <> None -> option_map f o <> None.
Proof. destruct o; cbn; congruence. Qed.

Lemma m_case_same4 h : same4 h (m_case h).
Proof.
  unfold m_case. match goal with |- same4 _ (if ?c then _ else _) => destruct c end; [|apply same4_refl].
  unfold fix_msdos_allcaps. match goal with |- same4 _ (if ?c then _ else _) => destruct c end; [|apply same4_refl].
  unfold same4. cbn [h_method h_symlink_target h_filename h_path set_filename set_path].
  repeat split; apply option_map_some.
Qed.

Lemma m_collapse_same4 h : same4 h (m_collapse h).
Proof.
  unfold m_collapse, same4. cbn [h_method h_symlink_target h_filename h_path set_path].
  repeat split; auto. apply option_map_some.
Qed.

Lemma m_os9_same4 h : same4 h (m_os9 h).
Proof.
  unfold m_os9.
  match goal with |- same4 _ (if have_extra ?x _ then _ else _) => assert (S1 : same4 h x) end.
  { match goal with |- same4 _ (if ?c then _ else _) => destruct c end; [|apply same4_refl].
    repeat split; auto. }
  match goal with |- same4 _ (if ?c then _ else _) => destruct c end; [|exact S1].
  destruct S1 as (A & B & C & D). unfold os9_to_unix_permissions. repeat split; auto.
Qed.

Lemma bytes_eqb_eq a : forall b, bytes_eqb a b = true -> a = b.
Proof.
  unfold bytes_eqb. induction a as [|x a IH]; intros [|y b] H; try reflexivity.
  - rewrite nlen_nil, nlen_cons in H. apply andb_true_iff in H. destruct H as [H _].
    apply N.eqb_eq in H. lia.
  - rewrite nlen_nil, nlen_cons in H. apply andb_true_iff in H. destruct H as [H _].
    apply N.eqb_eq in H. lia.
  - apply andb_true_iff in H. destruct H as [H1 H2]. cbn [combine forallb fst snd] in H2.
    apply andb_true_iff in H2. destruct H2 as [H2 H3]. apply N.eqb_eq in H1, H2. subst y.
    f_equal. apply IH. rewrite !nlen_cons in H1. apply andb_true_iff. split; [apply N.eqb_eq; lia|exact H3].
Qed.

(* the byte written by the LHark fix survives cstr *)
Lemma cstr_list_set m : forall i v x, v <> 0 ->
  nth_error (cstr (list_set m i v)) (N.to_nat i) = Some x -> x = v.
Proof.
  induction m as [|b r IH]; intros i v x Hv H.
  - cbn [list_set cstr] in H. destruct (N.to_nat i); discriminate.
  - cbn [list_set] in H. destruct (N.eqb_spec i 0) as [->|Hi].
    + cbn [cstr] in H. destruct (N.eqb_spec v 0) as [E|_]; [contradiction|].
      cbn in H. congruence.
    + cbn [cstr] in H. destruct (b =? 0).
      * destruct (N.to_nat i); discriminate.
      * replace (N.to_nat i) with (S (N.to_nat (N.pred i))) in H by lia. cbn [nth_error] in H.
        apply (IH _ _ _ Hv H).
Qed.

Lemma m_lhark_K h : hdrK h -> hdrK (m_lhark h).
Proof.
  intros HK. unfold m_lhark.
  match goal with |- hdrK (if ?c then _ else _) => destruct c eqn:Ec end; [|exact HK].
  apply andb_true_iff in Ec. destruct Ec as [_ Ec]. apply bytes_eqb_eq in Ec.
  (* before: not a directory *)
  assert (Hnd : method_is h COMPRESS_TYPE_DIR = false).
  { unfold method_is. destruct (bytes_eqb (cstr (h_method h)) COMPRESS_TYPE_DIR) eqn:E; [|reflexivity].
    apply bytes_eqb_eq in E. rewrite E in Ec. discriminate. }
  (* after: not a directory either *)
  assert (Hnd' : method_is (set_method h (list_set (h_method h) 2 107)) COMPRESS_TYPE_DIR = false).
  { unfold method_is. cbn [h_method set_method].
    destruct (bytes_eqb (cstr (list_set (h_method h) 2 107)) COMPRESS_TYPE_DIR) eqn:E; [|reflexivity].
    apply bytes_eqb_eq in E.
    assert (X : nth_error (cstr (list_set (h_method h) 2 107)) (N.to_nat 2) = Some 104) by (rewrite E; reflexivity).
    apply cstr_list_set in X; [discriminate|discriminate]. }
  destruct HK as [[A B]|[A _]]; [|congruence].
  left. split; [exact Hnd'|exact B].
Qed.

Lemma split_header_filename_same h :
  h_method (split_header_filename h) = h_method h /\
  h_symlink_target (split_header_filename h) = h_symlink_target h.
Proof.
  unfold split_header_filename. destruct (h_filename h) as [f|]; [|split; reflexivity].
  destruct (last_index f 47 0 None); split; reflexivity.
Qed.

Lemma m_kind_K h2 h3 : m_kind h2 = Some h3 -> hdrK h3.
Proof.
  unfold m_kind. destruct (method_is h2 COMPRESS_TYPE_DIR) eqn:Ed; cbn [negb].
  - match goal with |- (if ?c then _ else _) = _ -> _ => destruct c end.
    + unfold parse_symlink. destruct (first_index (full_path h2) 124 0) as [p|]; [|discriminate].
      intros E. injection E as <-. right.
      match goal with |- context [split_header_filename ?x] => destruct (split_header_filename_same x) as [A B] end.
      unfold method_is in *. rewrite A, B. cbn [h_method h_symlink_target set_filename set_path set_symlink_target].
      split; [exact Ed|]. left. discriminate.
    + destruct (h_path h2) eqn:Ep; [|discriminate]. intros E. injection E as <-.
      right. split; [exact Ed|]. right. congruence.
  - destruct (h_filename h2) eqn:Ef; [|discriminate]. intros E. injection E as <-.
    left. split; [exact Ed|congruence].
Qed.

Lemma post_hdr_ok h1 st2 h st' : post h1 st2 = Ok (Some h, st') -> hdr_ok h.
Proof.
  rewrite post_stages. destruct (m_kind (m_amiga h1)) as [h3|] eqn:Ek; [|discriminate].
  cbv zeta. match goal with |- (if ?c then _ else _) = _ -> _ => destruct c end; [discriminate|].
  intros E. injection E as <- _. apply hdrK_ok. apply m_lhark_K.
  eapply same4_K; [apply m_os9_same4|]. eapply same4_K; [apply m_collapse_same4|].
  eapply same4_K; [apply m_case_same4|]. eapply m_kind_K. exact Ek.
Qed.

Theorem header_read_hdr_ok mktime st h st' :
  lha_file_header_read mktime st = Ok (Some h, st') -> hdr_ok h.
Proof.
  rewrite lha_file_header_read_unfold. intros H.
  apply bind_ok in H. destruct H as ([r st1] & _ & H). cbv beta iota in H.
  destruct r as [raw|]; [|discriminate].
  apply bind_ok in H. destruct H as (lvl & _ & H).
  apply bind_ok in H. destruct H as ([[ok h1] st2] & _ & H). cbv beta iota in H.
  destruct ok; cbn [negb] in H; [|discriminate].
  eapply post_hdr_ok. exact H.
Qed.

Lemma basic_next_file_unfold mktime r :
  lha_basic_reader_next_file mktime r =
  (r1 <- match br_curr r with
          | Some _ =>
            '(ok, st') <- lha_input_stream_skip (br_stream r) (br_remaining r) ;;
            Ok {| br_stream := st'; br_curr := None; br_remaining := br_remaining r;
                  br_eof := if ok then br_eof r else true |}
          | None => Ok r
          end ;;
    if br_eof r1 then Ok (None, r1) else
    '(h, st2) <- lha_file_header_read mktime (br_stream r1) ;;
    match h with
    | None => Ok (None, {| br_stream := st2; br_curr := None; br_remaining := br_remaining r1; br_eof := true |})
    | Some hd => Ok (Some hd, {| br_stream := st2; br_curr := Some hd;
                                 br_remaining := h_compressed_length hd; br_eof := false |})
    end).
Proof. reflexivity. Qed.

(* the current header of the basic reader after lha_basic_reader_next_file *)
Lemma basic_next_file_curr mktime r oh r' :
  lha_basic_reader_next_file mktime r = Ok (oh, r') -> forall h, br_curr r' = Some h -> hdr_ok h.
Proof.
  rewrite basic_next_file_unfold. intros H.
  apply bind_ok in H. destruct H as (r1 & H1 & H).
  assert (Hc1 : br_curr r1 = None).
  { destruct (br_curr r) eqn:Ec.
    - apply bind_ok in H1. destruct H1 as ([ok st'] & _ & H1). injection H1 as <-. reflexivity.
    - injection H1 as <-. exact Ec. }
  destruct (br_eof r1).
  { injection H as _ <-. intros h Eh. congruence. }
  apply bind_ok in H. destruct H as ([hh st2] & Hh & H). cbv beta iota in H.
  destruct hh as [hd|]; injection H as _ <-; cbn [br_curr]; intros h Eh; [|discriminate].
  injection Eh as <-. eapply header_read_hdr_ok. exact Hh.
Qed.


(* a method name for which a decoder exists is not the directory method *)
Lemma decoder_not_dir m dt : lha_decoder_for_name (cstr m) = Some dt ->
  bytes_eqb (cstr m) COMPRESS_TYPE_DIR = false.
Proof.
  intros H. destruct (bytes_eqb (cstr m) COMPRESS_TYPE_DIR) eqn:E; [|reflexivity].
  apply bytes_eqb_eq in E. rewrite E in H. vm_compute in H. discriminate.
Qed.

(* ------------------------------------------------------------------ *)
(* 2. The reader invariant                                              *)

Definition has_path (h : header) : Prop := h_path h <> None.
Definition has_target (h : header) : Prop := h_symlink_target h <> None.

Ltac rsimp := cbn [rd_br rd_curr rd_type rd_decoder rd_inner rd_policy rd_dir_stack rd_deferred rd_linked
                   set_decoders close_decoder lha_reader_set_dir_policy lha_reader_new] in *.

(* the API calls with their arguments *)
Inductive rop : Type :=
| RNext
| RRead (n : N)
| RCheck (monitor : bool)
| RExtract (f : fs) (name : option (list N)) (monitor : bool)
| RPolicy (p : dir_policy).

(* the protocol of P_ReaderMem.proto: a check or an extract is the first decode
   operation of its entry (hence at most one extract per entry); reads are free;
   lha_reader_set_dir_policy may be called at any time *)
Fixpoint rproto (fresh : bool) (l : list rop) : bool :=
  match l with
  | [] => true
  | RNext :: r => rproto true r
  | RRead _ :: r => rproto false r
  | (RCheck _ | RExtract _ _ _) :: r => fresh && rproto false r
  | RPolicy _ :: r => rproto fresh r
  end.
Definition rprotocol (l : list rop) : bool := rproto true l.

Definition rop_kind (o : rop) : list ReaderMem.op :=
  match o with
  | RNext => [ReaderMem.ONext] | RRead _ => [ReaderMem.ORead] | RCheck _ => [ReaderMem.OCheck]
  | RExtract _ _ _ => [ReaderMem.OExtract] | RPolicy _ => []
  end.

Lemma rproto_is_proto l : forall f, rproto f l = P_ReaderMem.proto f (flat_map rop_kind l).
Proof.
  induction l as [|o r IH]; intros f; [reflexivity|].
  destruct o; cbn [rproto flat_map rop_kind app P_ReaderMem.proto]; rewrite ?IH; reflexivity.
Qed.

Section ReaderSafe.
  Variable lh1_inv : lh1_state -> Prop.
  Hypothesis Hlh1 : forall s c, lh1_inv s ->
    exists ch s' c', lh1_read decoder_callback s c = Ok (ch, s', c') /\ nlen ch <= lh1_max_read /\ lh1_inv s'.
  Hypothesis lh1_init_inv : exists s, lh1_init = Ok s /\ lh1_inv s.
  Variable mktime : N -> N -> N -> N -> Z -> N -> N.
  Variable junk : N.

  Notation any_inv := (any_inv lh1_inv).
  Notation idec_ok := (idec_ok lh1_inv).
  Notation mw_ok := (mw_ok lh1_inv).
  Notation odec_ok := (odec_ok lh1_inv).

  (* a decoder at rest: its callback data pointer is reloaded at every use *)
  Definition idec_ok0 (d : idec) : Prop :=
    any_inv (d_inner (id_dec d)) /\ any_max (d_inner (id_dec d)) <= id_max_read d.

  Lemma idec_load d br : idec_ok0 d -> wf_reader br -> idec_ok (br_curr br) (load_br d br).
  Proof.
    intros [A B] Hw. unfold P_MacBinarySafe.idec_ok, load_br. cbn [id_dec id_max_read set_cb d_inner d_cb].
    split; [exact A|]. split; [exact B|]. split; [exact Hw|reflexivity].
  Qed.

  Lemma idec_unload X d : idec_ok X d -> idec_ok0 d /\ wf_reader (idec_br d) /\ br_curr (idec_br d) = X.
  Proof. intros (A & B & C & D). repeat split; assumption. Qed.

  (* reader->decoder / reader->inner_decoder: both NULL, or the decoder of the current
     member (plain, or the MacBinary pass-through decoder around it) *)
  Definition dec_ok' (t : curr_type) (d : option dec_obj) (i : inner_ref) : Prop :=
    match d, i with
    | None, IR_null => True
    | Some (DO_plain d0), IR_same => t = CT_NORMAL /\ idec_ok0 d0
    | Some (DO_mac o), IR_same => t = CT_NORMAL /\ mb_ok (d_inner o) /\ idec_ok0 (mw_dec (d_cb o))
    | _, _ => False
    end.

  Definition typ_ok (t : curr_type) (cur : option header) (br : breader) : Prop :=
    match t with
    | CT_NORMAL => exists h, cur = Some h /\ br_curr br = Some h
    | CT_FAKE_DIR => exists h, cur = Some h /\ has_path h
    | CT_DEFERRED_SYMLINK => exists h, cur = Some h /\ has_target h
    | _ => True
    end.

  (* fresh: no decode operation yet on the current entry *)
  Record RInv (fresh : bool) (r : reader) : Prop := {
    ri_wf : wf_reader (rd_br r);
    ri_hdr : forall h, br_curr (rd_br r) = Some h -> hdr_ok h;
    ri_typ : typ_ok (rd_type r) (rd_curr r) (rd_br r);
    ri_stack : Forall has_path (rd_dir_stack r);
    ri_deferred : Forall has_target (rd_deferred r);
    ri_linked : rd_linked r = true -> rd_type r = CT_NORMAL /\ fresh = false;
    ri_dec : dec_ok' (rd_type r) (rd_decoder r) (rd_inner r);
    ri_fresh : fresh = true -> rd_decoder r = None /\ rd_inner r = IR_null
  }.

  Lemma RInv_weaken f r : RInv f r -> RInv false r.
  Proof.
    intros [A B C D E F G H]. constructor; try assumption.
    - intros L. destruct (F L) as [T _]. split; [exact T|reflexivity].
    - discriminate.
  Qed.

  (* lha_reader_new *)
  Theorem reader_new_inv st : wf st -> RInv true (lha_reader_new st).
  Proof.
    intros Hw. constructor; rsimp; try exact I; try (constructor; fail); try discriminate.
    - exact Hw.
    - intros _. split; reflexivity.
  Qed.

  (* lha_reader_set_dir_policy *)
  Theorem set_dir_policy_inv f r p : RInv f r -> RInv f (lha_reader_set_dir_policy r p).
  Proof. intros [A B C D E F G H]. constructor; rsimp; assumption. Qed.

  Lemma RInv_set_decoders f r br' d i :
    RInv f r -> wf_reader br' -> br_curr br' = br_curr (rd_br r) -> dec_ok' (rd_type r) d i ->
    RInv false (set_decoders r br' d i).
  Proof.
    intros [A B C D E F G H] Hw Hc Hd. constructor; rsimp; try assumption.
    - intros h Eh. apply B. congruence.
    - unfold typ_ok in *. destruct (rd_type r); try assumption. rewrite Hc. exact C.
    - intros L. destruct (F L) as [T _]. split; [exact T|reflexivity].
    - discriminate.
  Qed.

  (* ---------------------------------------------------------------- *)
  (* 3. lha_decoder_read(reader->decoder, ...)                          *)

  Definition has_dec (r : reader) : Prop := rd_decoder r <> None.

  Lemma decoder_read_okp f r n : RInv f r -> has_dec r ->
    okp True (fun '(o, ev, r') => RInv false r' /\ has_dec r') (decoder_read junk r n).
  Proof.
    intros Hi Hd. pose proof (ri_dec _ _ Hi) as G. pose proof (ri_wf _ _ Hi) as Hw.
    unfold decoder_read. unfold has_dec in Hd.
    destruct (rd_decoder r) as [[d|o]|] eqn:Ed; [| |contradiction Hd; reflexivity].
    - destruct (rd_inner r) eqn:Ei; cbn [dec_ok'] in G; try contradiction. destruct G as [Et G].
      eapply okpT_bind; [apply (inner_read_okp lh1_inv Hlh1 junk _ _ n (idec_load d (rd_br r) G Hw))|].
      intros [[o ev] d'] (Hd' & _). cbv beta iota.
      destruct (idec_unload _ _ Hd') as (A & B & C). cbn [okp]. split.
      + apply (RInv_set_decoders f r _ _ _ Hi B C). rewrite Et. cbn [dec_ok']. split; [reflexivity|exact A].
      + unfold has_dec. rsimp. discriminate.
    - destruct (rd_inner r) eqn:Ei; cbn [dec_ok'] in G; try contradiction. destruct G as (Et & Gm & G).
      cbv zeta.
      eapply okpT_bind.
      + apply (outer_read_okp lh1_inv Hlh1 junk (br_curr (rd_br r))). unfold P_MacBinarySafe.odec_ok, set_world.
        cbn [d_inner d_cb]. split; [exact Gm|]. unfold P_MacBinarySafe.mw_ok. cbn [mw_dec].
        apply idec_load; assumption.
      + intros [[out ev] o'] ((Hm & Hw') & _). cbv beta iota.
        destruct (idec_unload _ _ Hw') as (A & B & C). cbn [okp]. split.
        * apply (RInv_set_decoders f r _ _ _ Hi B C). rewrite Et. cbn [dec_ok'].
          split; [reflexivity|]. split; [exact Hm|exact A].
        * unfold has_dec. rsimp. discriminate.
  Qed.

  (* ---------------------------------------------------------------- *)
  (* 4. open_decoder (sites 1402, 1307)                                 *)

  Lemma monitor_ok X (d0 : idec) (monitor : bool) :
    idec_ok X d0 ->
    idec_ok X (fst (if monitor
                    then (let '(d', e) := lha_decoder_monitor (id_block_size d0) (id_dec d0) in (with_dec d0 d', e))
                    else (d0, []))).
  Proof.
    intros Hd. destruct monitor; [|exact Hd].
    unfold lha_decoder_monitor, check_progress. cbn [fst]. exact Hd.
  Qed.

  Lemma open_decoder_okp f r monitor : RInv f r -> rd_decoder r = None -> rd_inner r = IR_null ->
    okp True (fun '(ok, ev, r') => RInv false r' /\ (ok = true -> has_dec r')) (open_decoder junk r monitor).
  Proof.
    intros Hi Ed Ei. pose proof (ri_typ _ _ Hi) as T. pose proof (ri_wf _ _ Hi) as Hw.
    unfold open_decoder. destruct (rd_type r) eqn:Et;
      try (cbn [okp]; split; [apply (RInv_weaken f); exact Hi|discriminate]).
    cbn [typ_ok] in T. destruct T as (h & Hc & Hb).
    unfold lha_basic_reader_decode. rewrite Hb.
    destruct (lha_decoder_for_name (cstr (h_method h))) as [dt|] eqn:Edt.
    2:{ cbn [bind okp]. split; [|discriminate].
        apply (RInv_set_decoders f r _ _ _ Hi Hw eq_refl). rewrite Ed. exact I. }
    destruct (decoder_for_name_ok lh1_inv lh1_init_inv _ _ Edt) as (s0 & Es0 & Hs0 & Hm0).
    rewrite Es0. cbn [bind].
    set (d0 := {| id_max_read := dt_max_read dt; id_block_size := dt_block_size dt;
                  id_dec := lha_decoder_new s0 (rd_br r) (h_length h) |}).
    assert (Hd0 : idec_ok (br_curr (rd_br r)) d0).
    { unfold P_MacBinarySafe.idec_ok, d0, lha_decoder_new. cbn [id_dec id_max_read d_inner d_cb].
      split; [exact Hs0|]. split; [lia|]. split; [exact Hw|reflexivity]. }
    pose proof (monitor_ok _ d0 monitor Hd0) as Hd1.
    destruct (if monitor
              then (let '(d', e) := lha_decoder_monitor (id_block_size d0) (id_dec d0) in (with_dec d0 d', e))
              else (d0, [])) as [d1 ev]. cbn [fst] in Hd1.
    rewrite Hc.
    destruct (h_os_type h =? OS_TYPE_MACOS).
    - assert (Hfn : h_filename h <> None).
      { destruct (ri_hdr _ _ Hi h Hb) as [Hf _]. apply Hf. unfold method_is. eapply decoder_not_dir. exact Edt. }
      eapply okpT_bind.
      + apply (macbinary_init_okp lh1_inv Hlh1 junk (br_curr (rd_br r)) {| mw_dec := d1; mw_ev := [] |} h).
        * unfold P_MacBinarySafe.mw_ok. cbn [mw_dec]. exact Hd1.
        * exact Hfn.
      + intros [ms w] [Hw' Hms]. cbv beta iota.
        destruct (idec_unload _ _ Hw') as (A & B & C).
        destruct ms as [m|]; cbn [okp].
        * split; [|intros _; unfold has_dec; rsimp; discriminate].
          apply (RInv_set_decoders f r _ _ _ Hi B C). rewrite Et. cbn [dec_ok']. unfold lha_decoder_new.
          cbn [d_inner d_cb mw_dec]. split; [reflexivity|]. split; [exact Hms|exact A].
        * split; [|discriminate]. apply (RInv_set_decoders f r _ _ _ Hi B C). exact I.
    - cbn [okp]. split; [|intros _; unfold has_dec; rsimp; discriminate].
      destruct (idec_unload _ _ Hd1) as (A & _).
      apply (RInv_set_decoders f r _ _ _ Hi Hw eq_refl). rewrite Et. cbn [dec_ok']. split; [reflexivity|exact A].
  Qed.

  (* ---------------------------------------------------------------- *)
  (* 5. lha_reader_read (site 1412)                                     *)

  Theorem reader_read_okp f r n : RInv f r ->
    okp True (fun '(o, ev, r') => RInv false r' /\ (has_dec r -> has_dec r')) (lha_reader_read junk r n).
  Proof.
    intros Hi. unfold lha_reader_read. destruct (rd_decoder r) as [d|] eqn:Ed.
    - eapply okpT_imp; [apply (decoder_read_okp f r n Hi); unfold has_dec; rewrite Ed; discriminate|].
      intros [[o ev] r'] [A B]. split; [exact A|intros _; exact B].
    - assert (Ei : rd_inner r = IR_null).
      { pose proof (ri_dec _ _ Hi) as G. rewrite Ed in G. cbn [dec_ok'] in G.
        destruct (rd_inner r); [reflexivity|contradiction|contradiction]. }
      eapply okpT_bind; [apply (open_decoder_okp f r false Hi Ed Ei)|].
      intros [[ok ev] r1] [Hi1 Hd1]. cbv beta iota.
      destruct ok.
      + eapply okpT_bind; [apply (decoder_read_okp false r1 n Hi1 (Hd1 eq_refl))|].
        intros [[o ev2] r2] [A B]. cbn [okp]. split; [exact A|]. unfold has_dec. rewrite Ed. intros X. contradiction X. reflexivity.
      + cbn [okp]. split; [exact Hi1|]. unfold has_dec. rewrite Ed. intros X. contradiction X. reflexivity.
  Qed.

  (* ---------------------------------------------------------------- *)
  (* 6. do_decode (site 1403)                                           *)

  Lemma do_decode_okp f r fs0 out : RInv f r -> has_dec r ->
    okp True (fun '(res, evs, r', fs') => RInv false r') (do_decode junk r fs0 out).
  Proof.
    intros Hi Hd. unfold do_decode.
    eapply okpT_bind.
    - apply (loop_okpT (dd_step junk out)
               (fun s => RInv false (fst (fst s)) /\ has_dec (fst (fst s)))
               (fun s => RInv false (fst (fst s)) /\ has_dec (fst (fst s)))).
      + intros [[r0 f0] evs] [Hi0 Hd0]. cbn [fst] in Hi0, Hd0. unfold dd_step.
        eapply okpT_bind; [apply (reader_read_okp false r0 64 Hi0)|].
        intros [[o ev] r'] [A B]. cbv beta iota zeta.
        destruct o; cbn [okp fst]; (split; [exact A|exact (B Hd0)]).
      + cbn [fst]. split; [apply (RInv_weaken f); exact Hi|exact Hd].
    - intros [[r1 f1] evs] [Hi1 Hd1]. cbn [fst] in Hi1, Hd1. cbv beta iota.
      pose proof (ri_dec _ _ Hi1) as G. pose proof (ri_typ _ _ Hi1) as T.
      unfold has_dec in Hd1. unfold inner_len_crc.
      destruct (rd_decoder r1) as [[d|o]|] eqn:Ed; [| |contradiction Hd1; reflexivity].
      + destruct (rd_inner r1); cbn [dec_ok'] in G; try contradiction. destruct G as [Et _].
        rewrite Et in T. cbn [typ_ok] in T. destruct T as (h & Hc & _). rewrite Hc. cbn [okp]. exact Hi1.
      + destruct (rd_inner r1); cbn [dec_ok'] in G; try contradiction. destruct G as [Et _].
        rewrite Et in T. cbn [typ_ok] in T. destruct T as (h & Hc & _). rewrite Hc. cbn [okp]. exact Hi1.
  Qed.

  (* ---------------------------------------------------------------- *)
  (* 7. lha_reader_check (site 1413)                                    *)

  Theorem reader_check_okp r monitor : RInv true r ->
    okp True (fun '(res, ev, r') => RInv false r') (lha_reader_check junk r monitor).
  Proof.
    intros Hi. pose proof (RInv_weaken _ _ Hi) as Hw. pose proof (ri_typ _ _ Hi) as T.
    destruct (ri_fresh _ _ Hi eq_refl) as [Ed Ei].
    unfold lha_reader_check. destruct (rd_type r) eqn:Et; try (destruct (rd_curr r); exact Hw).
    cbn [typ_ok] in T. destruct T as (h & Hc & _). rewrite Hc.
    destruct (is_dir_method h); [exact Hw|].
    eapply okpT_bind; [apply (open_decoder_okp true r monitor Hi Ed Ei)|].
    intros [[ok ev] r1] [Hi1 Hd1]. cbv beta iota.
    destruct ok; [|exact Hi1].
    eapply okpT_bind; [apply (do_decode_okp false r1 _ None Hi1 (Hd1 eq_refl))|].
    intros [[[res ev2] r2] f2] Hi2. exact Hi2.
  Qed.

  (* ---------------------------------------------------------------- *)
  (* 8. lha_reader_next_file (site 1401)                                *)

  Lemma basic_next_okpT br : wf_reader br ->
    okp True (fun '(_, br') => wf_reader br' /\ forall h, br_curr br' = Some h -> hdr_ok h)
        (lha_basic_reader_next_file mktime br).
  Proof.
    intros Hw. pose proof (lha_basic_reader_next_file_okp mktime br Hw) as H.
    pose proof (basic_next_file_curr mktime br) as C.
    destruct (lha_basic_reader_next_file mktime br) as [[oh br']| |]; cbn [okp] in *.
    - split; [apply H|]. apply (C oh br' eq_refl).
    - exact H.
    - exact I.
  Qed.

  Lemma end_of_top_dir_okp r : Forall has_path (rd_dir_stack r) ->
    okp True (fun pop => pop = true -> rd_dir_stack r <> []) (end_of_top_dir r).
  Proof.
    intros Hs. unfold end_of_top_dir. destruct (rd_dir_stack r) as [|top rest]; [cbn [okp]; discriminate|].
    destruct (br_curr (rd_br r)) as [input|]; [|cbn [okp]; discriminate].
    destruct (rd_policy r); try (cbn [okp]; discriminate).
    destruct (h_path input); [|cbn [okp]; discriminate].
    inversion Hs as [|x l9 Hp Hr]; subst. unfold has_path in Hp.
    destruct (h_path top); [cbn [okp]; discriminate|contradiction Hp; reflexivity].
  Qed.

  Lemma next_tail_okp (cur : option header) (t : curr_type) pol stack deferred br1 linked :
    wf_reader br1 -> (forall h, br_curr br1 = Some h -> hdr_ok h) -> linked = false ->
    Forall has_path stack -> Forall has_target deferred ->
    okp True (fun '(_, r') => RInv true r')
      (let r1 := {| rd_br := br1; rd_curr := cur; rd_type := t; rd_decoder := None; rd_inner := IR_null;
                    rd_policy := pol; rd_dir_stack := stack; rd_deferred := deferred;
                    rd_linked := linked |} in
       pop <- end_of_top_dir r1 ;;
       let r2 :=
         if pop then
           match rd_dir_stack r1 with
           | top :: rest =>
             {| rd_br := br1; rd_curr := Some top; rd_type := CT_FAKE_DIR; rd_decoder := None; rd_inner := IR_null;
                rd_policy := rd_policy r1; rd_dir_stack := rest; rd_deferred := rd_deferred r1; rd_linked := linked |}
           | [] => r1
           end
         else
           {| rd_br := br1; rd_curr := br_curr br1; rd_type := CT_NORMAL; rd_decoder := None; rd_inner := IR_null;
              rd_policy := rd_policy r1; rd_dir_stack := rd_dir_stack r1; rd_deferred := rd_deferred r1;
              rd_linked := linked |} in
       match rd_curr r2 with
       | Some h => Ok (Some h, r2)
       | None =>
         match rd_deferred r2 with
         | l :: rest =>
           Ok (Some l, {| rd_br := br1; rd_curr := Some l; rd_type := CT_DEFERRED_SYMLINK; rd_decoder := None;
                          rd_inner := IR_null; rd_policy := rd_policy r2; rd_dir_stack := rd_dir_stack r2;
                          rd_deferred := rest; rd_linked := linked |})
         | [] =>
           Ok (None, {| rd_br := br1; rd_curr := None; rd_type := CT_EOF; rd_decoder := None; rd_inner := IR_null;
                        rd_policy := rd_policy r2; rd_dir_stack := rd_dir_stack r2; rd_deferred := [];
                        rd_linked := linked |})
         end
       end).
  Proof.
    intros Hw Hh -> Hs Hd. cbv zeta.
    eapply okpT_bind; [apply end_of_top_dir_okp; rsimp; exact Hs|].
    intros pop Hp. rsimp. destruct pop.
    - specialize (Hp eq_refl). destruct stack as [|top rest]; [contradiction Hp; reflexivity|].
      rsimp. cbn [okp]. inversion Hs as [|x l9 Hpt Hr]; subst.
      constructor; rsimp; try assumption; try discriminate; try exact I.
      + exists top. split; [reflexivity|exact Hpt].
      + intros _. split; reflexivity.
    - rsimp. destruct (br_curr br1) as [h|] eqn:Eb.
      + cbn [okp]. constructor; rsimp; try assumption; try discriminate; try exact I.
        * intros h0 E0. apply Hh. congruence.
        * exists h. split; [reflexivity|exact Eb].
        * intros _. split; reflexivity.
      + destruct deferred as [|l rest]; cbn [okp].
        * constructor; rsimp; try assumption; try discriminate; try exact I.
          -- intros h0 E0. apply Hh. congruence.
          -- intros _. split; reflexivity.
        * inversion Hd as [|x l0 Ht Hr]; subst.
          constructor; rsimp; try assumption; try discriminate; try exact I.
          -- intros h0 E0. apply Hh. congruence.
          -- exists l. split; [reflexivity|exact Ht].
          -- intros _. split; reflexivity.
  Qed.

  Theorem reader_next_file_okp f r0 : RInv f r0 ->
    okp True (fun '(_, r') => RInv true r') (lha_reader_next_file mktime r0).
  Proof.
    intros [A B C D E F G H].
    assert (Hl : rd_type r0 <> CT_NORMAL -> rd_linked r0 = false).
    { intros Hn. destruct (rd_linked r0); [|reflexivity]. destruct (F eq_refl) as [T _]. contradiction. }
    unfold lha_reader_next_file. cbv zeta. rsimp.
    destruct (rd_type r0) eqn:Et.
    - (* START *)
      eapply (okpT_bind (fun p : breader * bool => let '(br1, linked) := p in
        wf_reader br1 /\ (forall h, br_curr br1 = Some h -> hdr_ok h) /\ linked = false)).
      + eapply okpT_bind; [apply basic_next_okpT; exact A|].
        intros [oh br'] [W Hh]. cbn [okp]. auto.
      + intros [br1 linked] (W & Hh & L). apply next_tail_okp; assumption.
    - (* NORMAL *)
      eapply (okpT_bind (fun p : breader * bool => let '(br1, linked) := p in
        wf_reader br1 /\ (forall h, br_curr br1 = Some h -> hdr_ok h) /\ linked = false)).
      + eapply okpT_bind; [apply basic_next_okpT; exact A|].
        intros [oh br'] [W Hh]. cbn [okp]. auto.
      + intros [br1 linked] (W & Hh & L). apply next_tail_okp; assumption.
    - (* FAKE_DIR *)
      cbn [bind]. apply next_tail_okp; try assumption. apply Hl. discriminate.
    - (* DEFERRED_SYMLINK *)
      cbn [bind]. apply next_tail_okp; try assumption. apply Hl. discriminate.
    - (* EOF *)
      cbn [okp]. constructor; rsimp; try assumption; try exact I.
      + rewrite Et. exact I.
      + intros L. rewrite Hl in L; discriminate.
      + intros _. split; reflexivity.
  Qed.

  (* ---------------------------------------------------------------- *)
  (* 9. lha_reader_extract (sites 1404-1411, 1414, 1415)                *)

  Lemma link_curr_okp site r stack deferred : RInv true r -> rd_type r = CT_NORMAL ->
    Forall has_path stack -> Forall has_target deferred ->
    okp True (fun r' => RInv false r') (link_curr site r stack deferred).
  Proof.
    intros [A B C D E F G H] Et Hs Hd. unfold link_curr.
    destruct (rd_linked r) eqn:L.
    - destruct (F eq_refl) as [_ X]. discriminate.
    - cbn [okp]. constructor; rsimp; try assumption.
      + intros _. split; [exact Et|reflexivity].
      + discriminate.
  Qed.

  Lemma insert_deferred_target l h : Forall has_target l -> has_target h -> Forall has_target (insert_deferred l h).
  Proof.
    intros Hl Hh. induction Hl as [|x r Hx Hr IH]; cbn [insert_deferred].
    - constructor; [exact Hh|constructor].
    - destruct (file_header_path_len h <? file_header_path_len x).
      + constructor; assumption.
      + constructor; [exact Hh|]. constructor; assumption.
  Qed.

  Lemma extract_directory_okp r f path h : RInv true r -> rd_type r = CT_NORMAL -> rd_curr r = Some h ->
    has_path h ->
    okp True (fun '(ok, r', f') => RInv false r') (extract_directory r f path).
  Proof.
    intros Hi Et Hc Hp. pose proof (RInv_weaken _ _ Hi) as Hw.
    unfold extract_directory. rewrite Hc.
    assert (Hpo : (match path with Some p => Some p | None => h_path h end) <> None).
    { destruct path; [discriminate|exact Hp]. }
    destruct (match path with Some p => Some p | None => h_path h end) as [p|]; [|contradiction Hpo; reflexivity].
    destruct (arch_mkdir f p (if have_extra h FILE_UNIX_PERMS then 448 else 511)) as [ok f1].
    destruct ok; cbn [negb]; [|exact Hw].
    destruct (rd_policy r).
    - destruct (set_directory_metadata f1 h p) as [x f2]. exact Hw.
    - eapply okpT_bind.
      + apply (link_curr_okp 1411 r _ _ Hi Et); [constructor; [exact Hp|apply (ri_stack _ _ Hi)]|apply (ri_deferred _ _ Hi)].
      + intros r' Hr'. exact Hr'.
    - eapply okpT_bind.
      + apply (link_curr_okp 1411 r _ _ Hi Et); [constructor; [exact Hp|apply (ri_stack _ _ Hi)]|apply (ri_deferred _ _ Hi)].
      + intros r' Hr'. exact Hr'.
  Qed.

  Lemma extract_symlink_okp r f filename h : RInv true r -> rd_curr r = Some h -> has_target h ->
    okp True (fun '(ok, r', f') => RInv false r') (extract_symlink r f filename).
  Proof.
    intros Hi Hc Ht. pose proof (RInv_weaken _ _ Hi) as Hw.
    unfold extract_symlink. rewrite Hc.
    destruct ((match rd_type r with CT_NORMAL => true | _ => false end) && is_dangerous_symlink h) eqn:Ec.
    - apply andb_true_iff in Ec. destruct Ec as [Ec _].
      assert (Et : rd_type r = CT_NORMAL) by (destruct (rd_type r); try discriminate; reflexivity).
      unfold extract_placeholder_symlink.
      destruct (arch_fopen f (match filename with Some n => n | None => full_path h end) (Some 384)) as [[hd|] f1];
        [|exact Hw].
      rewrite Hc. eapply okpT_bind.
      + apply (link_curr_okp 1414 r _ _ Hi Et); [apply (ri_stack _ _ Hi)|].
        apply insert_deferred_target; [apply (ri_deferred _ _ Hi)|exact Ht].
      + intros r' Hr'. exact Hr'.
    - unfold has_target in Ht. destruct (h_symlink_target h) as [t|]; [|contradiction Ht; reflexivity].
      destruct (arch_symlink f (match filename with Some n => n | None => full_path h end) t) as [ok f1]. exact Hw.
  Qed.

  Lemma extract_file_okp r f filename monitor h : RInv true r -> rd_curr r = Some h ->
    okp True (fun '(ok, ev, r', f') => RInv false r') (extract_file junk r f filename monitor).
  Proof.
    intros Hi Hc. destruct (ri_fresh _ _ Hi eq_refl) as [Ed Ei].
    unfold extract_file. rewrite Hc. cbv zeta.
    eapply okpT_bind; [apply (open_decoder_okp true r monitor Hi Ed Ei)|].
    intros [[ok ev] r1] [Hi1 Hd1]. cbv beta iota.
    destruct ok; cbn [negb]; [|exact Hi1].
    destruct (arch_fopen f (match filename with Some n => n | None => full_path h end)
                (if have_extra h FILE_UNIX_PERMS then Some (h_unix_perms h) else None)) as [[hd|] f1]; [|exact Hi1].
    eapply okpT_bind; [apply (do_decode_okp false r1 f1 (Some hd) Hi1 (Hd1 eq_refl))|].
    intros [[[res ev2] r2] f2] Hi2. exact Hi2.
  Qed.

  Theorem reader_extract_okp r f filename monitor : RInv true r ->
    okp True (fun '(ok, ev, r', f') => RInv false r') (lha_reader_extract junk r f filename monitor).
  Proof.
    intros Hi. pose proof (RInv_weaken _ _ Hi) as Hw. pose proof (ri_typ _ _ Hi) as T.
    unfold lha_reader_extract. destruct (rd_type r) eqn:Et; cbn [typ_ok] in T.
    - destruct (rd_curr r); exact Hw.
    - (* NORMAL *)
      destruct T as (h & Hc & Hb). rewrite Hc.
      destruct (ri_hdr _ _ Hi h Hb) as [_ HB].
      destruct (is_dir_method h) eqn:Edir; cbn [negb].
      + destruct (h_symlink_target h) as [t|] eqn:Etg.
        * eapply okpT_bind; [apply (extract_symlink_okp r f filename h Hi Hc); unfold has_target; congruence|].
          intros [[ok r1] f1] Hr. exact Hr.
        * eapply okpT_bind; [apply (extract_directory_okp r f filename h Hi Et Hc); apply (HB Edir eq_refl)|].
          intros [[ok r1] f1] Hr. exact Hr.
      + apply (extract_file_okp r f filename monitor h Hi Hc).
    - (* FAKE_DIR *)
      destruct T as (h & Hc & Hp). rewrite Hc.
      assert (Hpo : (match filename with Some n => Some n | None => h_path h end) <> None).
      { destruct filename; [discriminate|exact Hp]. }
      destruct (match filename with Some n => Some n | None => h_path h end) as [p|]; [|contradiction Hpo; reflexivity].
      destruct (set_directory_metadata f h p) as [x f1]. exact Hw.
    - (* DEFERRED_SYMLINK *)
      destruct T as (h & Hc & Ht). rewrite Hc.
      eapply okpT_bind; [apply (extract_symlink_okp r f filename h Hi Hc Ht)|].
      intros [[ok r1] f1] Hr. exact Hr.
    - destruct (rd_curr r); exact Hw.
  Qed.

  (* ---------------------------------------------------------------- *)
  (* 10. Whole histories                                                *)

  Definition run_op (r : reader) (o : rop) : outcome reader :=
    match o with
    | RNext => '(_, r') <- lha_reader_next_file mktime r ;; Ok r'
    | RRead n => '(_, _, r') <- lha_reader_read junk r n ;; Ok r'
    | RCheck m => '(_, _, r') <- lha_reader_check junk r m ;; Ok r'
    | RExtract f name m => '(_, _, r', _) <- lha_reader_extract junk r f name m ;; Ok r'
    | RPolicy p => Ok (lha_reader_set_dir_policy r p)
    end.

  Fixpoint run_ops (r : reader) (l : list rop) : outcome reader :=
    match l with
    | [] => Ok r
    | o :: rest => r' <- run_op r o ;; run_ops r' rest
    end.

  Lemma run_ops_okp : forall l f r, RInv f r -> rproto f l = true ->
    okp True (fun r' => exists f', RInv f' r') (run_ops r l).
  Proof.
    induction l as [|o rest IH]; intros f r Hi Hp; cbn [run_ops].
    - cbn [okp]. exists f. exact Hi.
    - destruct o as [|n|m|fs0 name m|p]; cbn [rproto] in Hp; cbn [run_op].
      + eapply okpT_bind; [eapply okpT_bind; [apply (reader_next_file_okp f r Hi)|]|].
        * intros [oh r'] Hr. cbn [okp]. exact Hr.
        * intros r' Hr. apply (IH true r' Hr Hp).
      + eapply okpT_bind; [eapply okpT_bind; [apply (reader_read_okp f r n Hi)|]|].
        * intros [[o ev] r'] [Hr _]. cbn [okp]. exact Hr.
        * intros r' Hr. apply (IH false r' Hr Hp).
      + apply andb_true_iff in Hp. destruct Hp as [Hf Hp]. subst f.
        eapply okpT_bind; [eapply okpT_bind; [apply (reader_check_okp r m Hi)|]|].
        * intros [[res ev] r'] Hr. cbn [okp]. exact Hr.
        * intros r' Hr. apply (IH false r' Hr Hp).
      + apply andb_true_iff in Hp. destruct Hp as [Hf Hp]. subst f.
        eapply okpT_bind; [eapply okpT_bind; [apply (reader_extract_okp r fs0 name m Hi)|]|].
        * intros [[[res ev] r'] f'] Hr. cbn [okp]. exact Hr.
        * intros r' Hr. apply (IH false r' Hr Hp).
      + cbn [bind]. apply (IH f _ (set_dir_policy_inv f r p Hi) Hp).
  Qed.

  (* C08 for the reader layer: for every byte string, stream kind, directory policy and
     protocol-respecting sequence of API calls (any read sizes, any filesystem states and
     explicit names handed to extract), no call faults *)
  Theorem reader_history_never_faults : forall (data : list N) (k : skind) (pol : dir_policy) (l : list rop),
    rprotocol l = true ->
    forall site,
      run_ops (lha_reader_set_dir_policy (lha_reader_new (lha_input_stream_new (mk_source k data))) pol) l
      <> Fault site.
  Proof.
    intros data k pol l Hp. eapply okpT_not_fault. eapply run_ops_okp; [|exact Hp].
    apply set_dir_policy_inv. apply reader_new_inv. destruct (new_reader_wf k data) as [Hw _]. exact Hw.
  Qed.
End ReaderSafe.

(* ------------------------------------------------------------------ *)
(* 11. The -lh1- premises from the general form of the -lh1- theorem     *)

(* With the -lh1- read theorem stated for every callback that returns at most as many
   bytes as it is asked for (the form lzs/lh_new/pm1/pm2 have, e.g. lhnew_read_safe_len),
   the premise [Hlh1] of the theorems above is an instance. *)
Corollary reader_history_never_faults_len (lh1_inv : lh1_state -> Prop) :
  (forall cbs (cb : callback cbs), P_BitReader.cb_len_bounded cb -> forall s c, lh1_inv s ->
     exists ch s' c', lh1_read cb s c = Ok (ch, s', c') /\ nlen ch <= lh1_max_read /\ lh1_inv s') ->
  (exists s, lh1_init = Ok s /\ lh1_inv s) ->
  forall mktime junk (data : list N) (k : skind) (pol : dir_policy) (l : list rop),
    rprotocol l = true ->
    forall site,
      run_ops mktime junk
        (lha_reader_set_dir_policy (lha_reader_new (lha_input_stream_new (mk_source k data))) pol) l
      <> Fault site.
Proof.
  intros Hlen Hinit mktime junk. apply (reader_history_never_faults lh1_inv); [|exact Hinit].
  apply lh1_dc_of_len. exact Hlen.
Qed.

(* ------------------------------------------------------------------ *)
(* 12. Non-vacuity: an archive of three stored members; the first read in two pieces,
   the second checked, the third extracted (and read on), then the end of the
   archive is reached.  The sequence respects the protocol and every call returns. *)
Module SafeExample.
  Definition member : list N := P_ReaderCheck.Example.ex_header 238 198 ++ P_ReaderCheck.Example.ex_data.
  Definition archive : list N := member ++ member ++ member ++ [0].
  Definition ops : list rop :=
    [RNext; RRead 10; RRead 200; RNext; RCheck false; RPolicy DIR_PLAIN; RNext;
     RExtract (fs_init false) None true; RRead 5; RNext; RNext].

  Example history_runs :
    rprotocol ops = true /\
    exists r, run_ops mktime_utc 170
                (lha_reader_set_dir_policy (lha_reader_new (lha_input_stream_new (mk_source KPipe archive)))
                   DIR_END_OF_DIR) ops = Ok r /\ rd_type r = CT_EOF /\ rd_decoder r = None.
  Proof. split; [reflexivity|]. eexists. split; [vm_compute; reflexivity|]. split; reflexivity. Qed.

  (* the protocol matters for the invariant: a check after a read re-opens a decoder
     while one is live (the decoder-pointer shape of RInv is lost) -- cf. C20 *)
  Example protocol_violation_shape : rprotocol [RNext; RRead 10; RCheck false] = false.
  Proof. reflexivity. Qed.
End SafeExample.

Print Assumptions header_read_hdr_ok.
Print Assumptions reader_new_inv.
Print Assumptions set_dir_policy_inv.
Print Assumptions reader_next_file_okp.
Print Assumptions reader_read_okp.
Print Assumptions reader_check_okp.
Print Assumptions reader_extract_okp.
Print Assumptions run_ops_okp.
Print Assumptions reader_history_never_faults.
Print Assumptions reader_history_never_faults_len.
Print Assumptions SafeExample.history_runs.

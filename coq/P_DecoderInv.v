(* P_DecoderInv.v -- the theorems of P_Decoder for inner decoders that are total on a
   state invariant (lz5, lzs, lh1, ... return in every state that satisfies theirs). *)
From Lhasa Require Import Base ListN DecBase Loop Crc16 P_Crc16 Decoder P_Decoder.
From Coq Require Import ZifyBool ZifyN ZifyNat.
Local Open Scope N_scope.

(* ------------------------------------------------------------------ *)
(* Generic: P_Decoder's theorems ask for an inner decoder that returns   *)
(* in EVERY state (dread_total); lz5_read returns in every state that    *)
(* satisfies its invariant.  Two step functions that agree on an         *)
(* invariant run the same loop; so the wrapper over [dread] behaves as   *)
(* the wrapper over a totalised [dread].                                 *)

Section LoopExt.
  Context {S R : Type}.
  Variables step1 step2 : S -> outcome (S + R).
  Variable I : S -> Prop.
  Variable Q : R -> Prop.
  Hypothesis Hagree : forall s, I s -> step1 s = step2 s.
  Hypothesis Hkeep : forall s x, I s -> step1 s = Ok x ->
    match x with inl s' => I s' | inr r => Q r end.

  Lemma loop_n_ext k : forall s, I s ->
    loop_n step1 k s = loop_n step2 k s /\
    (forall x, loop_n step1 k s = Ok x -> match x with inl s' => I s' | inr r => Q r end).
  Proof.
    induction k as [|k IH]; intros s Hi; cbn [loop_n].
    - split; [apply Hagree; exact Hi|]. intros x. apply Hkeep. exact Hi.
    - destruct (IH s Hi) as [E1 K1]. rewrite <- E1.
      destruct (loop_n step1 k s) as [[s'|r]| |] eqn:El; cbn [bind].
      + specialize (K1 _ eq_refl). cbn in K1. apply IH. exact K1.
      + split; [reflexivity|]. intros x Ex. injection Ex as <-. exact (K1 _ eq_refl).
      + split; [reflexivity|discriminate].
      + split; [reflexivity|discriminate].
  Qed.

  Lemma loop_ext k s : I s ->
    loop step1 k s = loop step2 k s /\ (forall r, loop step1 k s = Ok r -> Q r).
  Proof.
    intros Hi. unfold loop. destruct (loop_n_ext k s Hi) as [E K]. rewrite <- E.
    split; [reflexivity|].
    destruct (loop_n step1 k s) as [[s'|r]| |]; cbn [bind]; try discriminate.
    intros r' Er. injection Er as <-. exact (K _ eq_refl).
  Qed.
End LoopExt.

Section InvDecoder.
  Context {cbs st : Type}.
  Variable dread : st -> cbs -> outcome (list N * st * cbs).
  Variable max_read block_size : N.
  Variable I : st -> Prop.
  Hypothesis Htot : forall s c, I s ->
    exists ch s' c', dread s c = Ok (ch, s', c') /\ nlen ch <= max_read /\ I s'.

  Definition dread_tot (s : st) (c : cbs) : outcome (list N * st * cbs) :=
    match dread s c with
    | Ok (ch, s', c') => if nlen ch <=? max_read then Ok (ch, s', c') else Ok ([], s, c)
    | _ => Ok ([], s, c)
    end.

  Lemma dread_tot_total : dread_total dread_tot max_read.
  Proof.
    intros s c. unfold dread_tot.
    destruct (dread s c) as [[[ch s'] c']| |].
    - destruct (N.leb_spec (nlen ch) max_read).
      + exists ch, s', c'. auto.
      + exists [], s, c. split; [reflexivity|]. unfold nlen; simpl; lia.
    - exists [], s, c. split; [reflexivity|]. unfold nlen; simpl; lia.
    - exists [], s, c. split; [reflexivity|]. unfold nlen; simpl; lia.
  Qed.

  Lemma dread_tot_eq s c : I s -> dread_tot s c = dread s c.
  Proof.
    intros Hi. destruct (Htot s c Hi) as (ch & s' & c' & E & Hl & _).
    unfold dread_tot. rewrite E. destruct (N.leb_spec (nlen ch) max_read); [reflexivity|lia].
  Qed.

  Lemma chunks_from_tot chs : forall s c, I s ->
    chunks_from dread max_read s c chs -> chunks_from dread_tot max_read s c chs.
  Proof.
    induction chs as [|ch rest IH]; intros s c Hi Hc; [constructor|].
    inversion Hc as [|? ? ? s' c' ? Edr Hne Hlen Hrest]; subst.
    destruct (Htot s c Hi) as (ch0 & s0 & c0 & E & _ & Hi').
    rewrite Edr in E. injection E as <- <- <-.
    econstructor; [rewrite dread_tot_eq by exact Hi; exact Edr|exact Hne|exact Hlen|].
    apply IH; assumption.
  Qed.

  Notation J := (fun s : @rl cbs st => I (d_inner (rl_d s))).

  Lemma read_step_agree B s : J s -> read_step dread max_read B s = read_step dread_tot max_read B s.
  Proof.
    intros Hi. unfold read_step. rewrite (dread_tot_eq _ _ Hi). reflexivity.
  Qed.

  Lemma read_step_keep B s x : J s -> read_step dread max_read B s = Ok x ->
    match x with inl s' => J s' | inr r => J r end.
  Proof.
    intros Hi. unfold read_step.
    destruct (rl_filled s <? B); [|intros E; injection E as <-; exact Hi].
    destruct (d_failed (rl_d s)); [intros E; injection E as <-; exact Hi|].
    destruct (skipn_N (B - rl_filled s) (d_outbuf (rl_d s))) as [|y ys].
    - destruct (Htot _ (d_cb (rl_d s)) Hi) as (ch & s' & c' & E & _ & Hi').
      rewrite E. cbn [bind]. destruct (max_read <? nlen ch); [discriminate|].
      destruct ch; intros E2; injection E2 as <-; exact Hi'.
    - intros E; injection E as <-; exact Hi.
  Qed.

  Lemma read_ext d n : I (d_inner d) ->
    lha_decoder_read dread max_read block_size d n = lha_decoder_read dread_tot max_read block_size d n /\
    forall o ev d1, lha_decoder_read dread max_read block_size d n = Ok (o, ev, d1) -> I (d_inner d1).
  Proof.
    intros Hi. unfold lha_decoder_read.
    set (B := if d_stream_length d <? d_stream_pos d + n then d_stream_length d - d_stream_pos d else n).
    set (s0 := {| rl_d := d; rl_out_rev := []; rl_filled := 0 |}).
    destruct (loop_ext (read_step dread max_read B) (read_step dread_tot max_read B) J J
                (read_step_agree B) (read_step_keep B) 64 s0 Hi) as [E K].
    rewrite <- E. split; [reflexivity|].
    destruct (loop (read_step dread max_read B) 64 s0) as [r| |]; cbn [bind]; try discriminate.
    specialize (K r eq_refl). cbv beta in K.
    intros o ev d1. cbn [d_monitor].
    destruct (d_monitor (rl_d r)).
    - unfold check_progress. cbn [d_inner]. intros E1. injection E1 as _ _ <-. exact K.
    - intros E1. injection E1 as _ _ <-. exact K.
  Qed.

  Lemma run_reads_ext ks : forall d, I (d_inner d) ->
    run_reads dread max_read block_size d ks = run_reads dread_tot max_read block_size d ks.
  Proof.
    induction ks as [|k r IH]; intros d Hi; cbn [run_reads]; [reflexivity|].
    destruct (read_ext d k Hi) as [E K]. rewrite <- E.
    destruct (lha_decoder_read dread max_read block_size d k) as [[[o ev] d1]| |]; cbn [bind];
      [|reflexivity|reflexivity].
    rewrite (IH d1 (K _ _ _ eq_refl)). reflexivity.
  Qed.

  (* decode_of_chunks_proof for an inner decoder that is total on an invariant *)
  Theorem decode_of_chunks_inv : forall chs s c L ks os d', I s ->
    chunks_from dread max_read s c chs -> L <= nlen (concat chs) -> L <= sum_N ks -> sum_N ks < 2 ^ 62 ->
    run_reads dread max_read block_size (lha_decoder_new s c L) ks = Ok (os, d') ->
    concat os = firstn_N L (concat chs).
  Proof.
    intros chs s c L ks os d' Hi Hc HL Hk Hs Hr.
    rewrite run_reads_ext in Hr by exact Hi.
    eapply (decode_of_chunks_proof dread_tot max_read block_size dread_tot_total);
      [apply chunks_from_tot; eassumption|exact HL|exact Hk|exact Hs|exact Hr].
  Qed.

  (* and the reads always succeed *)
  Theorem run_reads_inv_ok : forall ks s c L, I s -> sum_N ks < 2 ^ 62 ->
    exists os d', run_reads dread max_read block_size (lha_decoder_new s c L) ks = Ok (os, d').
  Proof.
    intros ks s c L Hi Hs. rewrite run_reads_ext by exact Hi.
    destruct (reads_compose_proof dread_tot max_read block_size dread_tot_total ks (lha_decoder_new s c L))
      as (os & d' & A & _); [unfold pos_ok; cbn; lia|reflexivity|exact Hs|]. eauto.
  Qed.

  (* ---- the C14 statements for an inner decoder with a state invariant ---- *)
  Notation fresh s c L := (lha_decoder_new s c L).

  Theorem reads_are_one_read_inv : forall ks s c L, I s -> sum_N ks < 2 ^ 62 ->
    exists os d', run_reads dread max_read block_size (fresh s c L) ks = Ok (os, d') /\
                  lha_decoder_read dread max_read block_size (fresh s c L) (sum_N ks) = Ok (concat os, [], d').
  Proof.
    intros ks s c L Hi Hs.
    destruct (reads_compose_proof dread_tot max_read block_size dread_tot_total ks (fresh s c L))
      as (os & d' & A & B & _); [unfold pos_ok; cbn; lia|reflexivity|exact Hs|].
    exists os, d'. rewrite run_reads_ext by exact Hi.
    destruct (read_ext (fresh s c L) (sum_N ks) Hi) as [E _]. rewrite E. auto.
  Qed.

  Theorem split_invariant_inv : forall ks1 ks2 s c L os1 d1 os2 d2, I s ->
    sum_N ks1 = sum_N ks2 -> sum_N ks1 < 2 ^ 62 ->
    run_reads dread max_read block_size (fresh s c L) ks1 = Ok (os1, d1) ->
    run_reads dread max_read block_size (fresh s c L) ks2 = Ok (os2, d2) ->
    concat os1 = concat os2 /\ d1 = d2.
  Proof.
    intros ks1 ks2 s c L os1 d1 os2 d2 Hi Es Hs R1 R2.
    destruct (reads_are_one_read_inv ks1 s c L Hi Hs) as (a1 & b1 & A1 & B1).
    destruct (reads_are_one_read_inv ks2 s c L Hi ltac:(congruence)) as (a2 & b2 & A2 & B2).
    rewrite R1 in A1. rewrite R2 in A2. inversion A1; inversion A2; subst.
    rewrite Es in B1. rewrite B1 in B2. inversion B2. auto.
  Qed.

  Theorem length_and_crc_faithful_inv : forall ks s c L os d', I s ->
    sum_N ks < 2 ^ 62 -> run_reads dread max_read block_size (fresh s c L) ks = Ok (os, d') ->
    nlen (concat os) <= L /\
    lha_decoder_get_length d' = nlen (concat os) /\
    lha_decoder_get_crc d' = lha_crc16_buf 0 (concat os) /\
    (Forall (fun b => b < 256) (concat os) -> lha_decoder_get_crc d' = crc_bitwise 0 (concat os)).
  Proof.
    intros ks s c L os d' Hi Hs R. rewrite run_reads_ext in R by exact Hi.
    destruct (reads_length_crc_proof dread_tot max_read block_size dread_tot_total ks (fresh s c L) os d')
      as (A & B & C & D); [unfold pos_ok; cbn; lia|reflexivity|exact Hs|exact R|].
    cbn in A, B, C, D. unfold lha_decoder_get_length, lha_decoder_get_crc.
    split; [lia|]. split; [lia|]. split; [exact B|].
    intros Hb. rewrite B. apply crc16_is_arc_proof; [lia|exact Hb].
  Qed.

  Theorem stops_at_declared_length_inv : forall (d : decoder) n, I (d_inner d) ->
    d_stream_pos d = d_stream_length d -> d_monitor d = false -> n < 2 ^ 62 ->
    lha_decoder_read dread max_read block_size d n = Ok ([], [], d).
  Proof.
    intros d n Hi He Hm Hn. destruct (read_ext d n Hi) as [E _]. rewrite E.
    apply (read_at_end_proof dread_tot max_read block_size dread_tot_total); assumption.
  Qed.

  Theorem read_at_most_asked_inv : forall (d : decoder) n o ev d', I (d_inner d) ->
    d_stream_pos d <= d_stream_length d -> n < 2 ^ 62 ->
    lha_decoder_read dread max_read block_size d n = Ok (o, ev, d') -> nlen o <= n /\ I (d_inner d').
  Proof.
    intros d n o ev d' Hi Hp Hn R. destruct (read_ext d n Hi) as [E K].
    split; [|exact (K _ _ _ R)]. rewrite E in R.
    exact (read_at_most_asked_proof dread_tot max_read block_size dread_tot_total d n o ev d' Hp Hn R).
  Qed.

  Theorem read_total_inv : forall (d : decoder) n, I (d_inner d) -> n < 2 ^ 62 ->
    exists o ev d', lha_decoder_read dread max_read block_size d n = Ok (o, ev, d') /\ I (d_inner d').
  Proof.
    intros d n Hi Hn. destruct (read_ext d n Hi) as [E K]. 
    destruct (read_spec dread_tot max_read block_size dread_tot_total d n Hn) as (k & o & d1 & ev & d2 & _ & R & _).
    rewrite <- E in R. exists o, ev, d2. split; [exact R|exact (K _ _ _ R)].
  Qed.
End InvDecoder.


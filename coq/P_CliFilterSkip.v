(* P_CliFilterSkip.v -- C06, wildcard arguments: lha_filter_next_file
   (CliFilter.v) passes over exactly the members whose stored path matches no
   pattern and returns the first one that matches one ('*' any run of bytes,
   '?' one byte, anything else itself), or the end of the archive.
   [extract_archive_selected_partial] is NOT proved: the tree theorem for the
   selected sub-sequence (see the report for what it needs). *)
From Lhasa Require Import Base Loop Header BasicReader Reader Glob ListOut P_ListOut CliFilter P_ReaderExtract.
Local Open Scope N_scope.

Section FilterSkip.
  Variable mktime : N -> N -> N -> N -> Z -> N -> N.
  Variable f : lha_filter.

  (* a member is selected iff no pattern was given or one of them matches path ++ name *)
  Lemma selected_iff h :
    matches_filter f h = true <->
    (f_filters f = [] \/ exists g, In g (f_filters f) /\ matches g (opt_str (h_path h) ++ opt_str (h_filename h))).
  Proof.
    unfold matches_filter. destruct (f_filters f) as [|g0 gs] eqn:E.
    - split; [intros _; left; reflexivity|reflexivity].
    - rewrite existsb_exists. split.
      + intros (g & Hin & Hm). right. exists g. split; [exact Hin|]. apply P_ListOut.glob_correct. exact Hm.
      + intros [H|(g & Hin & Hm)]; [discriminate|]. exists g. split; [exact Hin|]. apply P_ListOut.glob_correct. exact Hm.
  Qed.

  (* [skips r hs x]: the reader presents the headers hs, none selected, then x:
     a selected header, or the end *)
  Inductive skips : reader -> list header -> option header * reader -> Prop :=
  | sk_hit r h r' : lha_reader_next_file mktime r = Ok (Some h, r') -> matches_filter f h = true ->
      skips r [] (Some h, r')
  | sk_end r r' : lha_reader_next_file mktime r = Ok (None, r') -> skips r [] (None, r')
  | sk_skip r h r1 hs x : lha_reader_next_file mktime r = Ok (Some h, r1) -> matches_filter f h = false ->
      skips r1 hs x -> skips r (h :: hs) x.

  Lemma skips_loops r hs x : skips r hs x -> loops (filter_step mktime f) (length hs) r x.
  Proof.
    induction 1 as [r h r' E Hm|r r' E|r h r1 hs x E Hm _ IH].
    - constructor. unfold filter_step. rewrite E. cbn [bind]. rewrite Hm. reflexivity.
    - constructor. unfold filter_step. rewrite E. reflexivity.
    - cbn [length]. econstructor; [|exact IH]. unfold filter_step. rewrite E. cbn [bind]. rewrite Hm. reflexivity.
  Qed.

  Theorem filter_next_file_skips r hs x : skips r hs x -> N.of_nat (length hs) < 2 ^ 40 ->
    filter_next_file mktime f r = Ok x /\
    Forall (fun h => ~ (f_filters f = [] \/ exists g, In g (f_filters f) /\
                        matches g (opt_str (h_path h) ++ opt_str (h_filename h)))) hs /\
    match fst x with
    | Some h => f_filters f = [] \/ exists g, In g (f_filters f) /\ matches g (opt_str (h_path h) ++ opt_str (h_filename h))
    | None => True
    end.
  Proof.
    intros Hs Hk. split; [unfold filter_next_file; eapply loop_complete_N; [apply skips_loops; exact Hs|exact Hk]|].
    clear Hk. induction Hs as [r h r' E Hm|r r' E|r h r1 hs x E Hm _ IH].
    - split; [constructor|]. cbn [fst]. apply selected_iff. exact Hm.
    - split; [constructor|exact I].
    - destruct IH as [IH1 IH2]. split; [|exact IH2]. constructor; [|exact IH1].
      intros Hsel. apply selected_iff in Hsel. congruence.
  Qed.
End FilterSkip.

Print Assumptions filter_next_file_skips.

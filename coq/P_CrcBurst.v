(* P_CrcBurst.v -- CRC-16/ARC (lib/crc16.c) detects every error burst of at
   most 16 bits.

   Bit numbering.  CRC-16/ARC is a reflected CRC: it consumes every byte
   least-significant bit first.  Throughout this file "bit offset j of the
   data" means  byte j / 8, bit j mod 8 counted from the least significant
   bit  (see bits_lsb_nth).  A burst is a run of consecutive bit offsets in
   THIS numbering.  Under the other numbering (most significant bit first
   within each byte) the statement is false; see msb_burst11_undetected_*. *)
From Lhasa Require Import Base Generated Sweep Crc16 P_Crc16.
From Coq Require Import ZifyBool ZifyN ZifyNat.
Local Open Scope N_scope.

(* ------------------------------------------------------------------ *)
(* 0. Definitions                                                      *)

Fixpoint map2 {A B C : Type} (f : A -> B -> C) (xs : list A) (ys : list B) : list C :=
  match xs, ys with
  | x :: xs', y :: ys' => f x y :: map2 f xs' ys'
  | _, _ => []
  end.

(* the 8 bits of a byte in the order the CRC consumes them: bit 0 first *)
Definition byte_bits (b : N) : list bool :=
  [N.testbit b 0; N.testbit b 1; N.testbit b 2; N.testbit b 3;
   N.testbit b 4; N.testbit b 5; N.testbit b 6; N.testbit b 7].

(* the data as a bit string in CRC consumption order *)
Fixpoint bits_lsb (bytes : list N) : list bool :=
  match bytes with
  | [] => []
  | b :: rest => byte_bits b ++ bits_lsb rest
  end.

(* the other numbering, most significant bit of each byte first (only used
   for the documented non-theorem) *)
Definition byte_bits_msb (b : N) : list bool := rev (byte_bits b).
Fixpoint bits_msb (bytes : list N) : list bool :=
  match bytes with
  | [] => []
  | b :: rest => byte_bits_msb b ++ bits_msb rest
  end.

(* bit-serial CRC: the incoming bit is xored into bit 0 of the register,
   then one shift/conditional-xor step *)
Definition crc_bit (c : N) (b : bool) : N := bit_step (N.lxor c (N.b2n b)).
Definition crc_bits (c : N) (bits : list bool) : N := fold_left crc_bit bits c.

Definition zeros (n : nat) : list bool := repeat false n.

(* a burst of at most 16 bits: zeros, then a core of 1..16 bits whose first
   bit is set, then zeros *)
Definition is_burst16 (bits : list bool) : Prop :=
  exists (j : nat) (core : list bool) (k : nat),
    bits = zeros j ++ core ++ zeros k /\
    (1 <= length core <= 16)%nat /\
    hd false core = true.

(* ------------------------------------------------------------------ *)
(* small list facts                                                    *)

Lemma crc_bits_nil c : crc_bits c [] = c.
Proof. reflexivity. Qed.

Lemma crc_bits_cons c b bs : crc_bits c (b :: bs) = crc_bits (crc_bit c b) bs.
Proof. reflexivity. Qed.

Lemma crc_bits_app c xs ys : crc_bits c (xs ++ ys) = crc_bits (crc_bits c xs) ys.
Proof. unfold crc_bits. apply fold_left_app. Qed.

Lemma map2_length_eq {A B C} (f : A -> B -> C) : forall xs ys,
  length xs = length ys -> length (map2 f xs ys) = length xs.
Proof.
  induction xs as [|x xs IH]; intros [|y ys] H; try discriminate; [reflexivity|].
  cbn [map2 length]. f_equal. apply IH. cbn [length] in H. congruence.
Qed.

Lemma map2_app {A B C} (f : A -> B -> C) : forall xs1 ys1 xs2 ys2,
  length xs1 = length ys1 ->
  map2 f (xs1 ++ xs2) (ys1 ++ ys2) = map2 f xs1 ys1 ++ map2 f xs2 ys2.
Proof.
  induction xs1 as [|x xs1 IH]; intros [|y ys1] xs2 ys2 H; try discriminate; [reflexivity|].
  cbn [map2 app]. f_equal. apply IH. cbn [length] in H. congruence.
Qed.

Lemma byte_bits_length b : length (byte_bits b) = 8%nat.
Proof. reflexivity. Qed.

Lemma bits_lsb_length bytes : length (bits_lsb bytes) = (8 * length bytes)%nat.
Proof.
  induction bytes as [|b rest IH]; [reflexivity|].
  cbn [bits_lsb]. rewrite app_length, byte_bits_length, IH. cbn [length]. lia.
Qed.

Lemma bits_lsb_app xs ys : bits_lsb (xs ++ ys) = bits_lsb xs ++ bits_lsb ys.
Proof.
  induction xs as [|x xs IH]; [reflexivity|].
  cbn [bits_lsb app]. rewrite IH. apply app_assoc.
Qed.

(* The numbering made explicit: bit offset j of the bit string is bit
   (j mod 8), counted from the least significant bit, of byte (j / 8). *)
Theorem bits_lsb_nth : forall bytes (j : nat),
  nth j (bits_lsb bytes) false =
  N.testbit (nth (j / 8) bytes 0) (N.of_nat (j mod 8)).
Proof.
  induction bytes as [|b rest IH]; intros j.
  - cbn [bits_lsb]. destruct (j / 8)%nat; destruct j; reflexivity.
  - cbn [bits_lsb].
    destruct (Nat.lt_ge_cases j 8) as [Hlt|Hge].
    + rewrite app_nth1 by (rewrite byte_bits_length; exact Hlt).
      rewrite Nat.div_small, Nat.mod_small by exact Hlt. cbn [nth].
      do 8 (destruct j as [|j]; [reflexivity|]). lia.
    + rewrite app_nth2 by (rewrite byte_bits_length; exact Hge).
      rewrite byte_bits_length, IH.
      assert (Ej : j = (1 * 8 + (j - 8))%nat) by lia.
      rewrite Ej at 3 4.
      rewrite Nat.div_add_l by discriminate.
      replace (1 * 8 + (j - 8))%nat with ((j - 8) + 1 * 8)%nat by lia.
      rewrite Nat.mod_add by discriminate.
      reflexivity.
Qed.

(* ------------------------------------------------------------------ *)
(* 2. Linearity over GF(2)                                             *)

Lemma lxor_swap4 a b c d :
  N.lxor (N.lxor a b) (N.lxor c d) = N.lxor (N.lxor a c) (N.lxor b d).
Proof.
  apply N.bits_inj. intro n. rewrite !N.lxor_spec.
  destruct (N.testbit a n), (N.testbit b n), (N.testbit c n), (N.testbit d n); reflexivity.
Qed.

Lemma odd_lxor a b : N.odd (N.lxor a b) = xorb (N.odd a) (N.odd b).
Proof. rewrite <- !N.bit0_odd. apply N.lxor_spec. Qed.

(* holds for all N, in particular for registers < 2^16 *)
Theorem bit_step_lxor a b : bit_step (N.lxor a b) = N.lxor (bit_step a) (bit_step b).
Proof.
  unfold bit_step. rewrite odd_lxor, N.shiftr_lxor.
  set (sa := N.shiftr a 1). set (sb := N.shiftr b 1). set (P := 40961).
  destruct (N.odd a), (N.odd b); cbn [xorb];
    apply N.bits_inj; intro n; rewrite ?N.lxor_spec;
    destruct (N.testbit sa n), (N.testbit sb n), (N.testbit P n); reflexivity.
Qed.

Lemma b2n_xorb x y : N.b2n (xorb x y) = N.lxor (N.b2n x) (N.b2n y).
Proof. destruct x, y; reflexivity. Qed.

Lemma crc_bit_lxor c1 c2 x y :
  crc_bit (N.lxor c1 c2) (xorb x y) = N.lxor (crc_bit c1 x) (crc_bit c2 y).
Proof.
  unfold crc_bit. rewrite b2n_xorb, lxor_swap4. apply bit_step_lxor.
Qed.

Theorem crc_bits_lxor : forall xs ys c1 c2, length xs = length ys ->
  crc_bits (N.lxor c1 c2) (map2 xorb xs ys) = N.lxor (crc_bits c1 xs) (crc_bits c2 ys).
Proof.
  induction xs as [|x xs IH]; intros [|y ys] c1 c2 H; try discriminate; [reflexivity|].
  cbn [map2]. rewrite !crc_bits_cons, crc_bit_lxor. apply IH.
  cbn [length] in H. congruence.
Qed.

Lemma crc_bit_0_false : crc_bit 0 false = 0.
Proof. reflexivity. Qed.

Theorem crc_bits_zeros k : crc_bits 0 (zeros k) = 0.
Proof.
  induction k as [|k IH]; [reflexivity|].
  unfold zeros. cbn [repeat]. rewrite crc_bits_cons, crc_bit_0_false. exact IH.
Qed.

(* ------------------------------------------------------------------ *)
(* range                                                               *)

Definition bit_step_range_ok (x : N) : bool := bit_step x <? 65536.

Lemma bit_step_range_sweep : sweep 16 bit_step_range_ok 0 = true.
Proof. vm_compute. reflexivity. Qed.

Lemma bit_step_range x : x < 65536 -> bit_step x < 65536.
Proof.
  intros H.
  pose proof (sweep_below 16 bit_step_range_ok bit_step_range_sweep x H) as E.
  unfold bit_step_range_ok in E. apply N.ltb_lt in E. exact E.
Qed.

Lemma b2n_lt b : N.b2n b < 65536.
Proof. destruct b; reflexivity. Qed.

Lemma crc_bit_range c b : c < 65536 -> crc_bit c b < 65536.
Proof.
  intros H. unfold crc_bit. apply bit_step_range.
  change 65536 with (2 ^ 16). apply lxor_lt_pow2; change (2 ^ 16) with 65536;
    [exact H | apply b2n_lt].
Qed.

Lemma crc_bits_range bits : forall c, c < 65536 -> crc_bits c bits < 65536.
Proof.
  induction bits as [|b bits IH]; intros c H; [exact H|].
  rewrite crc_bits_cons. apply IH. apply crc_bit_range. exact H.
Qed.

(* ------------------------------------------------------------------ *)
(* 1. The byte-at-a-time specification is the bit-serial CRC           *)

Lemma crc_bits_zeros8 c : crc_bits c (zeros 8) = bit_step8 c.
Proof.
  unfold zeros, crc_bits, bit_step8, crc_bit. cbn [repeat fold_left N.b2n].
  rewrite !N.lxor_0_r. reflexivity.
Qed.

(* lifting an equality sweep; stated with abstract f, g so that the kernel
   only needs beta-conversion *)
Lemma sweep_eq n (f g : N -> N) :
  sweep n (fun x => f x =? g x) 0 = true ->
  forall x, x < 2 ^ N.of_nat n -> f x = g x.
Proof.
  intros H x Hx. apply N.eqb_eq.
  exact (sweep_below n (fun x => f x =? g x) H x Hx).
Qed.

Lemma byte_serial_sweep :
  sweep 8 (fun x => crc_bits 0 (byte_bits x) =? bit_step8 x) 0 = true.
Proof. vm_compute. reflexivity. Qed.

Lemma byte_serial b : b < 256 -> crc_bits 0 (byte_bits b) = bit_step8 b.
Proof.
  intros H.
  exact (sweep_eq 8 (fun x => crc_bits 0 (byte_bits x)) bit_step8 byte_serial_sweep b H).
Qed.

Lemma bit_step8_lxor a b : bit_step8 (N.lxor a b) = N.lxor (bit_step8 a) (bit_step8 b).
Proof. unfold bit_step8. rewrite !bit_step_lxor. reflexivity. Qed.

Lemma map2_xorb_false_l bs : map2 xorb (zeros (length bs)) bs = bs.
Proof.
  induction bs as [|b bs IH]; [reflexivity|].
  unfold zeros in *. cbn [length repeat map2]. rewrite IH. destruct b; reflexivity.
Qed.

Lemma byte_step_is_bit_serial c b : b < 256 -> byte_step c b = crc_bits c (byte_bits b).
Proof.
  intros Hb. unfold byte_step.
  rewrite bit_step8_lxor, <- crc_bits_zeros8, <- (byte_serial b Hb).
  rewrite <- crc_bits_lxor by reflexivity.
  rewrite N.lxor_0_r.
  change 8%nat with (length (byte_bits b)). rewrite map2_xorb_false_l. reflexivity.
Qed.

Theorem crc_bitwise_is_bit_serial : forall bytes c,
  c < 65536 -> Forall (fun b => b < 256) bytes ->
  crc_bitwise c bytes = crc_bits c (bits_lsb bytes).
Proof.
  unfold crc_bitwise.
  induction bytes as [|b rest IH]; intros c Hc Hbs; [reflexivity|].
  inversion Hbs as [|? ? Hb Hrest]; subst.
  cbn [fold_left bits_lsb]. rewrite crc_bits_app.
  rewrite (byte_step_is_bit_serial c b Hb).
  apply IH; [apply crc_bits_range; exact Hc | exact Hrest].
Qed.

(* ------------------------------------------------------------------ *)
(* 3. The zero-bit step is injective on [0, 2^16)                      *)

Definition bit_step_kernel_ok (x : N) : bool := negb (bit_step x =? 0) || (x =? 0).

Lemma bit_step_kernel_sweep : sweep 16 bit_step_kernel_ok 0 = true.
Proof. vm_compute. reflexivity. Qed.

Theorem bit_step_zero a : a < 65536 -> bit_step a = 0 -> a = 0.
Proof.
  intros Ha H0.
  pose proof (sweep_below 16 bit_step_kernel_ok bit_step_kernel_sweep a Ha) as H.
  unfold bit_step_kernel_ok in H. rewrite H0 in H. cbn in H.
  apply N.eqb_eq. exact H.
Qed.

Theorem bit_step_injective a b :
  a < 65536 -> b < 65536 -> bit_step a = bit_step b -> a = b.
Proof.
  intros Ha Hb H. apply N.lxor_eq. apply bit_step_zero.
  - change 65536 with (2 ^ 16). apply lxor_lt_pow2; change (2 ^ 16) with 65536; assumption.
  - rewrite bit_step_lxor, H. apply N.lxor_nilpotent.
Qed.

Lemma crc_bits_zeros_nonzero k : forall r, r < 65536 -> r <> 0 -> crc_bits r (zeros k) <> 0.
Proof.
  induction k as [|k IH]; intros r Hr Hnz; [exact Hnz|].
  unfold zeros. cbn [repeat]. rewrite crc_bits_cons. apply IH.
  - apply crc_bit_range. exact Hr.
  - unfold crc_bit. cbn [N.b2n]. rewrite N.lxor_0_r.
    intro H. apply Hnz. apply bit_step_zero; assumption.
Qed.

(* ------------------------------------------------------------------ *)
(* 4. A burst leaves a non-zero register                               *)

(* every bit string of length <= l fed into register c leaves it non-zero:
   a binary tree of depth l, 2^(l+1)-1 register values *)
Fixpoint all_nonzero (l : nat) (c : N) : bool :=
  negb (c =? 0) &&
  match l with
  | O => true
  | S k => all_nonzero k (crc_bit c false) && all_nonzero k (crc_bit c true)
  end.

Lemma all_nonzero_spec l : forall c, all_nonzero l c = true ->
  forall bits, (length bits <= l)%nat -> crc_bits c bits <> 0.
Proof.
  induction l as [|l IH]; intros c H bits Hlen.
  - destruct bits as [|b bits]; [|cbn [length] in Hlen; lia].
    cbn [all_nonzero] in H. rewrite andb_true_r in H.
    rewrite crc_bits_nil. intro E. rewrite E in H. discriminate.
  - cbn [all_nonzero] in H.
    apply andb_true_iff in H. destruct H as [Hc H].
    apply andb_true_iff in H. destruct H as [Hf Ht].
    destruct bits as [|b bits].
    + rewrite crc_bits_nil. intro E. rewrite E in Hc. discriminate.
    + rewrite crc_bits_cons. cbn [length] in Hlen.
      destruct b; [apply (IH _ Ht) | apply (IH _ Hf)]; lia.
Qed.

(* the finite part: after the leading 1 of the core the register is
   crc_bit 0 true = 0xA001; no 15 further bits can clear it *)
Lemma core_tree : all_nonzero 15 (crc_bit 0 true) = true.
Proof. vm_compute. reflexivity. Qed.

Theorem core_nonzero core :
  (1 <= length core <= 16)%nat -> hd false core = true -> crc_bits 0 core <> 0.
Proof.
  intros Hlen Hhd. destruct core as [|b rest]; [cbn [length] in Hlen; lia|].
  cbn [hd] in Hhd. subst b. rewrite crc_bits_cons.
  apply (all_nonzero_spec 15 _ core_tree). cbn [length] in Hlen. lia.
Qed.

Theorem burst16_nonzero bits : is_burst16 bits -> crc_bits 0 bits <> 0.
Proof.
  intros (j & core & k & -> & Hlen & Hhd).
  rewrite !crc_bits_app, crc_bits_zeros.
  apply crc_bits_zeros_nonzero.
  - apply crc_bits_range. reflexivity.
  - apply core_nonzero; assumption.
Qed.

(* ------------------------------------------------------------------ *)
(* 5. Main theorem                                                     *)

Lemma byte_bits_lxor a b : byte_bits (N.lxor a b) = map2 xorb (byte_bits a) (byte_bits b).
Proof. unfold byte_bits. cbn [map2]. rewrite !N.lxor_spec. reflexivity. Qed.

Lemma bits_lsb_lxor : forall D E, length D = length E ->
  bits_lsb (map2 N.lxor D E) = map2 xorb (bits_lsb D) (bits_lsb E).
Proof.
  induction D as [|d D IH]; intros [|e E] H; try discriminate; [reflexivity|].
  cbn [map2 bits_lsb]. rewrite map2_app by reflexivity.
  rewrite byte_bits_lxor, IH; [reflexivity|]. cbn [length] in H. congruence.
Qed.

Lemma Forall_byte_lxor : forall D E,
  Forall (fun b => b < 256) D -> Forall (fun b => b < 256) E ->
  Forall (fun b => b < 256) (map2 N.lxor D E).
Proof.
  induction D as [|d D IH]; intros [|e E] HD HE; cbn [map2]; try constructor.
  - inversion HD; inversion HE; subst.
    change 256 with (2 ^ 8). apply lxor_lt_pow2; change (2 ^ 8) with 256; assumption.
  - inversion HD; inversion HE; subst. apply IH; assumption.
Qed.

(* the CRC of corrupted data is the CRC of the data xor the CRC (from
   register 0) of the error pattern *)
Theorem crc16_error_superposition : forall (D E : list N) c,
  length D = length E ->
  Forall (fun b => b < 256) D -> Forall (fun b => b < 256) E -> c < 65536 ->
  lha_crc16_buf c (map2 N.lxor D E) =
  N.lxor (lha_crc16_buf c D) (crc_bits 0 (bits_lsb E)).
Proof.
  intros D E c Hlen HD HE Hc.
  rewrite !crc16_is_arc_proof by (try apply Forall_byte_lxor; assumption).
  rewrite !crc_bitwise_is_bit_serial by (try apply Forall_byte_lxor; assumption).
  rewrite bits_lsb_lxor by exact Hlen.
  rewrite <- crc_bits_lxor by (rewrite !bits_lsb_length; lia).
  rewrite N.lxor_0_r. reflexivity.
Qed.

Theorem burst16_detected : forall (D E : list N),
  length D = length E ->
  Forall (fun b => b < 256) D -> Forall (fun b => b < 256) E ->
  is_burst16 (bits_lsb E) ->
  forall c, c < 65536 ->
  lha_crc16_buf c (map2 N.lxor D E) <> lha_crc16_buf c D.
Proof.
  intros D E Hlen HD HE Hburst c Hc Heq.
  rewrite crc16_error_superposition in Heq by assumption.
  apply (burst16_nonzero _ Hburst).
  set (X := lha_crc16_buf c D) in *. set (Y := crc_bits 0 (bits_lsb E)) in *.
  assert (H : N.lxor X (N.lxor X Y) = N.lxor X X) by (rewrite Heq; reflexivity).
  rewrite <- N.lxor_assoc, N.lxor_nilpotent, N.lxor_0_l in H. exact H.
Qed.

(* the stored-member situation: the header records the CRC of the original
   bytes D (computed from register 0); the bytes read back are D xor E *)
Corollary stored_member_burst16_detected : forall (D E : list N) (recorded : N),
  length D = length E ->
  Forall (fun b => b < 256) D -> Forall (fun b => b < 256) E ->
  is_burst16 (bits_lsb E) ->
  recorded = lha_crc16_buf 0 D ->
  lha_crc16_buf 0 (map2 N.lxor D E) <> recorded.
Proof.
  intros D E recorded Hlen HD HE Hburst ->.
  apply burst16_detected; try assumption. reflexivity.
Qed.

(* ------------------------------------------------------------------ *)
(* 6. The documented NON-theorem: most-significant-bit-first numbering  *)

(* numbered most significant bit first within each byte, the xor pattern
   01 C1 C0 is a burst of 11 bits (offsets 7..17) ... *)
Example msb_burst11_shape :
  bits_msb [1; 193; 192] =
  zeros 7 ++ [true; true;true;false;false;false;false;false;true; true;true] ++ zeros 6.
Proof. vm_compute. reflexivity. Qed.

(* ... that the CRC does not see *)
Example msb_burst11_undetected_zero :
  lha_crc16_buf 0 (map2 N.lxor [0; 0; 0] [1; 193; 192]) = lha_crc16_buf 0 [0; 0; 0].
Proof. vm_compute. reflexivity. Qed.

Example msb_burst11_undetected_abc :
  lha_crc16_buf 0 (map2 N.lxor [65; 66; 67] [1; 193; 192]) = lha_crc16_buf 0 [65; 66; 67].
Proof. vm_compute. reflexivity. Qed.

(* in the numbering of this file the same pattern spans offsets 0..23 *)
Example msb_burst11_in_lsb_numbering :
  bits_lsb [1; 193; 192] =
  [true;false;false;false;false;false;false;false;
   true;false;false;false;false;false;true;true;
   false;false;false;false;false;false;true;true].
Proof. vm_compute. reflexivity. Qed.

(* ------------------------------------------------------------------ *)
(* 7. Non-vacuity                                                      *)

Definition demo_D : list N := [65; 66; 67; 68].
(* bit offsets 4..19: a 16-bit burst crossing two byte boundaries *)
Definition demo_E : list N := [144; 58; 13; 0].

Example demo_is_burst16 : is_burst16 (bits_lsb demo_E).
Proof.
  exists 4%nat,
    [true;false;false;true; false;true;false;true;true;true;false;false; true;false;true;true],
    12%nat.
  split; [vm_compute; reflexivity|]. split; [cbn [length]; lia | reflexivity].
Qed.

Example demo_crcs_differ_computed :
  lha_crc16_buf 0 (map2 N.lxor demo_D demo_E) =? lha_crc16_buf 0 demo_D = false.
Proof. vm_compute. reflexivity. Qed.

Example demo_crcs_differ_by_theorem :
  lha_crc16_buf 0 (map2 N.lxor demo_D demo_E) <> lha_crc16_buf 0 demo_D.
Proof.
  apply burst16_detected.
  - reflexivity.
  - unfold demo_D. repeat constructor.
  - unfold demo_E. repeat constructor.
  - exact demo_is_burst16.
  - reflexivity.
Qed.

(* a single flipped bit (w = 1) and a full 16-bit run of ones (w = 16) *)
Example demo_single_bit : is_burst16 (bits_lsb [0; 32; 0]).
Proof.
  exists 13%nat, [true], 10%nat.
  split; [vm_compute; reflexivity|]. split; [cbn [length]; lia | reflexivity].
Qed.

Example demo_all_ones : is_burst16 (bits_lsb [128; 255; 127]).
Proof.
  exists 7%nat, (repeat true 16), 1%nat.
  split; [vm_compute; reflexivity|]. split; [cbn [length repeat]; lia | reflexivity].
Qed.

Print Assumptions bits_lsb_nth.
Print Assumptions crc_bitwise_is_bit_serial.
Print Assumptions bit_step_lxor.
Print Assumptions crc_bits_lxor.
Print Assumptions bit_step_injective.
Print Assumptions burst16_nonzero.
Print Assumptions crc16_error_superposition.
Print Assumptions burst16_detected.
Print Assumptions stored_member_burst16_detected.
Print Assumptions demo_crcs_differ_by_theorem.

(* P_TreeCanon.v -- the breadth-first tree builder of lib/tree_decode.c (Tree.v)
   produces the tree of the CANONICAL prefix code (S_Pm.canon_code) whenever the
   code-length vector is complete (Kraft sum exactly 1, at least two symbols)
   and the tree has room for 2 * count_nz - 1 entries.

   Main result: build_tree_canonical (element type uint8_t, leaf = 128). *)
From Lhasa Require Import Base ListN DecBase BitReader Loop Sweep Tree S_Larc S_Pm P_BitReader P_Tree.
From Coq Require Import ZifyBool ZifyN ZifyNat.
Local Open Scope N_scope.

(* walking the finished tree exactly as Tree.tree_step does: [code] is the VALUE
   of the current entry *)
Fixpoint tree_path (t : arr) (code : N) (bits : list bool) (sym : N) : Prop :=
  match bits with
  | [] => is_leaf 128 code = true /\ N.land code 127 = sym
  | b :: r => is_leaf 128 code = false /\ code + N.b2n b < alen t /\
              tree_path t (aget t (code + N.b2n b)) r sym
  end.

(* ------------------------------------------------------------------ *)
(* 1. Sums over the length vector                                      *)

(* number of L-bit prefixes used up by the codes of length <= L *)
Fixpoint lo (L : N) (l : list N) : N :=
  match l with
  | [] => 0
  | x :: r => (if (0 <? x) && (x <=? L) then 2 ^ (L - x) else 0) + lo L r
  end.
(* Kraft weight (scaled by 2^m) of the codes longer than L *)
Fixpoint hi (m L : N) (l : list N) : N :=
  match l with
  | [] => 0
  | x :: r => (if L <? x then 2 ^ (m - x) else 0) + hi m L r
  end.
Fixpoint sumK (m : N) (l : list N) : N :=
  match l with
  | [] => 0
  | x :: r => (if x =? 0 then 0 else 2 ^ (m - x)) + sumK m r
  end.
Fixpoint cnt (C : N) (l : list N) : N :=
  match l with
  | [] => 0
  | x :: r => (if x =? C then 1 else 0) + cnt C r
  end.
Fixpoint cntle (L : N) (l : list N) : N :=
  match l with
  | [] => 0
  | x :: r => (if (0 <? x) && (x <=? L) then 1 else 0) + cntle L r
  end.
Fixpoint cntgt (L : N) (l : list N) : N :=
  match l with
  | [] => 0
  | x :: r => (if L <? x then 1 else 0) + cntgt L r
  end.
Fixpoint nz (l : list N) : N :=
  match l with
  | [] => 0
  | x :: r => (if x =? 0 then 0 else 1) + nz r
  end.
Fixpoint anygt (C : N) (l : list N) : bool :=
  match l with
  | [] => false
  | x :: r => (C <? x) || anygt C r
  end.

Lemma lo_cons L x r : lo L (x :: r) = (if (0 <? x) && (x <=? L) then 2 ^ (L - x) else 0) + lo L r.
Proof. reflexivity. Qed.
Lemma hi_cons m L x r : hi m L (x :: r) = (if L <? x then 2 ^ (m - x) else 0) + hi m L r.
Proof. reflexivity. Qed.
Lemma sumK_cons m x r : sumK m (x :: r) = (if x =? 0 then 0 else 2 ^ (m - x)) + sumK m r.
Proof. reflexivity. Qed.
Lemma cnt_cons C x r : cnt C (x :: r) = (if x =? C then 1 else 0) + cnt C r.
Proof. reflexivity. Qed.
Lemma cntle_cons L x r : cntle L (x :: r) = (if (0 <? x) && (x <=? L) then 1 else 0) + cntle L r.
Proof. reflexivity. Qed.
Lemma cntgt_cons L x r : cntgt L (x :: r) = (if L <? x then 1 else 0) + cntgt L r.
Proof. reflexivity. Qed.
Lemma nz_cons x r : nz (x :: r) = (if x =? 0 then 0 else 1) + nz r.
Proof. reflexivity. Qed.
Lemma anygt_cons C x r : anygt C (x :: r) = (C <? x) || anygt C r.
Proof. reflexivity. Qed.

Lemma lo_0 l : lo 0 l = 0.
Proof.
  induction l as [|x r IH]; [reflexivity|]. rewrite lo_cons, IH.
  destruct (N.ltb_spec 0 x); destruct (N.leb_spec x 0); cbn [andb]; lia.
Qed.

Lemma cntle_0 l : cntle 0 l = 0.
Proof.
  induction l as [|x r IH]; [reflexivity|]. rewrite cntle_cons, IH.
  destruct (N.ltb_spec 0 x); destruct (N.leb_spec x 0); cbn [andb]; lia.
Qed.

Lemma lo_succ L l : lo (L + 1) l = 2 * lo L l + cnt (L + 1) l.
Proof.
  induction l as [|x r IH]; [reflexivity|]. rewrite !lo_cons, cnt_cons, IH.
  destruct (N.ltb_spec 0 x); destruct (N.leb_spec x (L + 1)); destruct (N.leb_spec x L);
    destruct (N.eqb_spec x (L + 1)); cbn [andb]; try lia.
  - replace (L + 1 - x) with (N.succ (L - x)) by lia. rewrite N.pow_succ_r'. lia.
  - subst x. replace (L + 1 - (L + 1)) with 0 by lia. rewrite N.pow_0_r. lia.
Qed.

Lemma cntle_succ L l : cntle (L + 1) l = cntle L l + cnt (L + 1) l.
Proof.
  induction l as [|x r IH]; [reflexivity|]. rewrite !cntle_cons, cnt_cons, IH.
  destruct (N.ltb_spec 0 x); destruct (N.leb_spec x (L + 1)); destruct (N.leb_spec x L);
    destruct (N.eqb_spec x (L + 1)); cbn [andb]; lia.
Qed.

Lemma cntgt_succ L l : cntgt L l = cnt (L + 1) l + cntgt (L + 1) l.
Proof.
  induction l as [|x r IH]; [reflexivity|]. rewrite !cntgt_cons, cnt_cons, IH.
  destruct (N.ltb_spec L x); destruct (N.ltb_spec (L + 1) x);
    destruct (N.eqb_spec x (L + 1)); lia.
Qed.

Lemma nz_split L l : nz l = cntle L l + cntgt L l.
Proof.
  induction l as [|x r IH]; [reflexivity|]. rewrite nz_cons, cntle_cons, cntgt_cons, IH.
  destruct (N.eqb_spec x 0); destruct (N.ltb_spec 0 x); destruct (N.leb_spec x L);
    destruct (N.ltb_spec L x); cbn [andb]; lia.
Qed.

Lemma count_nz_nz l : count_nz l = nz l.
Proof.
  unfold count_nz. induction l as [|x r IH]; [reflexivity|].
  rewrite nz_cons. cbn [filter]. destruct (N.eqb_spec x 0); cbn [negb].
  - rewrite IH. lia.
  - rewrite nlen_cons, IH. lia.
Qed.

Lemma sum_map_sumK m l :
  sum_N (map (fun x => if x =? 0 then 0 else 2 ^ (m - x)) l) = sumK m l.
Proof.
  induction l as [|x r IH]; [reflexivity|].
  cbn [map]. rewrite sum_N_cons, sumK_cons, IH. reflexivity.
Qed.

Lemma fold_max_ge l : forall a,
  a <= fold_left N.max l a /\ Forall (fun x => x <= fold_left N.max l a) l.
Proof.
  induction l as [|x r IH]; intros a.
  - cbn [fold_left]. split; [lia|constructor].
  - cbn [fold_left]. destruct (IH (N.max a x)) as [H1 H2].
    split; [lia|]. constructor; [lia|exact H2].
Qed.

Lemma max_len_ge l : Forall (fun x => x <= max_len l) l.
Proof. unfold max_len. apply fold_max_ge. Qed.

Lemma anygt_cntgt C l : anygt C l = negb (cntgt C l =? 0).
Proof.
  induction l as [|x r IH]; [reflexivity|]. rewrite anygt_cons, cntgt_cons, IH.
  destruct (N.ltb_spec C x); destruct (N.eqb_spec (cntgt C r) 0);
    destruct (N.eqb_spec (1 + cntgt C r) 0); destruct (N.eqb_spec (0 + cntgt C r) 0);
    cbn [orb negb]; try reflexivity; lia.
Qed.

Lemma cntgt_bound B L l : Forall (fun x => x <= B) l -> 0 < cntgt L l -> L < B.
Proof.
  induction 1 as [|x r Hx Hr IH]; [cbn [cntgt]; lia|].
  rewrite cntgt_cons. destruct (N.ltb_spec L x) as [Hlt|Hge]; [lia|]. intros Hc. apply IH. lia.
Qed.

Lemma cntgt_0_nth L : forall l i, cntgt L l = 0 -> nth i l 0 <= L.
Proof.
  induction l as [|x r IH]; intros i H.
  - destruct i; cbn [nth]; lia.
  - rewrite cntgt_cons in H. destruct (N.ltb_spec L x); [lia|].
    destruct i as [|i]; cbn [nth]; [lia|]. apply IH. lia.
Qed.

Lemma cnt_firstn_lt C : forall l i, (i < length l)%nat -> nth i l 0 = C ->
  cnt C (firstn i l) < cnt C l.
Proof.
  induction l as [|x r IH]; intros i Hi Hn; [cbn [length] in Hi; lia|].
  destruct i as [|i].
  - cbn [nth] in Hn. cbn [firstn]. rewrite cnt_cons. cbn [cnt].
    destruct (N.eqb_spec x C); lia.
  - cbn [nth] in Hn. cbn [firstn length] in *. rewrite !cnt_cons.
    assert (cnt C (firstn i r) < cnt C r) by (apply IH; [lia|exact Hn]). lia.
Qed.

(* the canonical code value in closed form *)
Lemma canon_value_eq L sym : forall l j,
  canon_value l j sym (L + 1) = 2 * lo L l + cnt (L + 1) (firstn (N.to_nat (sym - j)) l).
Proof.
  induction l as [|x r IH]; intros j.
  - cbn [canon_value lo]. rewrite firstn_nil. reflexivity.
  - cbn [canon_value]. rewrite IH, lo_cons.
    destruct (N.ltb_spec j sym) as [Hj|Hj].
    + replace (N.to_nat (sym - j)) with (S (N.to_nat (sym - (j + 1)))) by lia.
      cbn [firstn]. rewrite cnt_cons.
      destruct (N.ltb_spec 0 x); destruct (N.ltb_spec x (L + 1)); destruct (N.leb_spec x L);
        destruct (N.eqb_spec x (L + 1)); cbn [andb]; try lia.
      replace (L + 1 - x) with (N.succ (L - x)) by lia. rewrite N.pow_succ_r'. lia.
    + replace (N.to_nat (sym - j)) with O by lia.
      replace (N.to_nat (sym - (j + 1))) with O by lia. cbn [firstn cnt].
      destruct (N.ltb_spec 0 x); destruct (N.ltb_spec x (L + 1)); destruct (N.leb_spec x L);
        destruct (N.eqb_spec x (L + 1)); cbn [andb]; try lia.
      replace (L + 1 - x) with (N.succ (L - x)) by lia. rewrite N.pow_succ_r'. lia.
Qed.

(* ------------------------------------------------------------------ *)
(* 2. Kraft facts                                                      *)

Section Kraft.
  Variables (lens : list N) (m : N).
  Hypothesis Hm : Forall (fun x => x <= m) lens.
  Hypothesis HK : sumK m lens = 2 ^ m.

  Lemma kraft_split L : L <= m -> forall l, Forall (fun x => x <= m) l ->
    lo L l * 2 ^ (m - L) + hi m L l = sumK m l.
  Proof.
    intros HL. induction 1 as [|x r Hx Hr IH]; [reflexivity|].
    rewrite lo_cons, hi_cons, sumK_cons, <- IH.
    destruct (N.ltb_spec 0 x); destruct (N.leb_spec x L); destruct (N.ltb_spec L x);
      destruct (N.eqb_spec x 0); cbn [andb]; try lia.
    rewrite N.mul_add_distr_r, <- N.pow_add_r.
    replace (L - x + (m - L)) with (m - x) by lia. lia.
  Qed.

  Lemma hi_le L : L < m -> forall l, Forall (fun x => x <= m) l ->
    hi m L l <= cntgt L l * 2 ^ (m - L - 1).
  Proof.
    intros HL. induction 1 as [|x r Hx Hr IH]; [cbn [hi cntgt]; lia|].
    rewrite hi_cons, cntgt_cons. destruct (N.ltb_spec L x); [|lia].
    assert (2 ^ (m - x) <= 2 ^ (m - L - 1)) by (apply N.pow_le_mono_r; lia). lia.
  Qed.

  Lemma lo_le L : L <= m -> lo L lens <= 2 ^ L.
  Proof.
    intros HL. pose proof (kraft_split L HL lens Hm) as E. rewrite HK in E.
    assert (P : 2 ^ m = 2 ^ L * 2 ^ (m - L)).
    { rewrite <- N.pow_add_r. f_equal. lia. }
    pose proof (pow2_pos (m - L)) as Hp.
    apply (N.mul_le_mono_pos_r _ _ (2 ^ (m - L)) Hp). lia.
  Qed.

  Lemma queue_le_gt L q : L < m -> lo L lens + q = 2 ^ L -> 2 * q <= cntgt L lens.
  Proof.
    intros HL Hq. pose proof (kraft_split L ltac:(lia) lens Hm) as E. rewrite HK in E.
    pose proof (hi_le L HL lens Hm) as Hh.
    assert (P : 2 ^ m = 2 ^ L * 2 ^ (m - L)).
    { rewrite <- N.pow_add_r. f_equal. lia. }
    assert (P2 : 2 ^ (m - L) = 2 * 2 ^ (m - L - 1)).
    { rewrite <- N.pow_succ_r'. f_equal. lia. }
    pose proof (pow2_pos (m - L - 1)) as Hp.
    set (X := 2 ^ (m - L - 1)) in *.
    rewrite P, <- Hq, P2 in E.
    apply (N.mul_le_mono_pos_r _ _ X Hp). nia.
  Qed.

  Lemma cnt_le_queue L q : L < m -> lo L lens + q = 2 ^ L -> cnt (L + 1) lens <= 2 * q.
  Proof.
    intros HL Hq. pose proof (lo_le (L + 1) ltac:(lia)) as H.
    rewrite lo_succ in H. replace (L + 1) with (N.succ L) in H at 2 by lia.
    rewrite N.pow_succ_r' in H. lia.
  Qed.
End Kraft.

(* ------------------------------------------------------------------ *)
(* 3. Bit facts for the uint8_t element type and bit strings           *)

Lemma nonleaf_small v : v < 128 -> is_leaf 128 v = false.
Proof.
  intros H.
  assert (S : sweep 7 (fun v => negb (is_leaf 128 v)) 0 = true) by (vm_compute; reflexivity).
  pose proof (sweep_below 7 _ S v H) as E. cbv beta in E.
  destruct (is_leaf 128 v); [discriminate|reflexivity].
Qed.

Lemma leaf_sym i : i < 128 -> N.land (N.lor (elem 128 i) 128) 127 = i.
Proof.
  intros H.
  assert (S : sweep 7 (fun i => N.land (N.lor (elem 128 i) 128) 127 =? i) 0 = true)
    by (vm_compute; reflexivity).
  pose proof (sweep_below 7 _ S i H) as E. cbv beta in E. apply N.eqb_eq in E. exact E.
Qed.

Lemma val_single_c b : val [b] = N.b2n b.
Proof. rewrite val_cons, val_nil. change (nlen (@nil bool)) with 0. rewrite N.pow_0_r. lia. Qed.

Lemma bits_of_snoc_c k cur b : cur < 2 ^ N.of_nat k ->
  bits_of (S k) (2 * cur + N.b2n b) = bits_of k cur ++ [b].
Proof.
  intros H.
  assert (E : val (bits_of k cur ++ [b]) = 2 * cur + N.b2n b).
  { rewrite val_app, val_single_c, val_bits_of_small by exact H.
    change (nlen [b]) with 1. rewrite N.pow_1_r. lia. }
  rewrite <- E. apply bits_of_val_n. rewrite app_length, length_bits_of. cbn [length]. lia.
Qed.

Lemma nbits_snoc L cur b : cur < 2 ^ L ->
  nbits (L + 1) (2 * cur + N.b2n b) = nbits L cur ++ [b].
Proof.
  intros H. unfold nbits. replace (N.to_nat (L + 1)) with (S (N.to_nat L)) by lia.
  apply bits_of_snoc_c. rewrite N2Nat.id. exact H.
Qed.

(* ------------------------------------------------------------------ *)
(* 4. Walking on SLOTS below a bound                                   *)

Fixpoint walk (t : arr) (bound : N) (bits : list bool) (slot target : N) : Prop :=
  match bits with
  | [] => slot = target
  | b :: r => slot < bound /\ is_leaf 128 (aget t slot) = false /\
              walk t bound r (aget t slot + N.b2n b) target
  end.

Lemma walk_ext t t' bound : (forall s, s < bound -> aget t' s = aget t s) ->
  forall bits s tgt, walk t bound bits s tgt -> walk t' bound bits s tgt.
Proof.
  intros He. induction bits as [|b r IH]; intros s tgt H; [exact H|].
  cbn [walk] in *. destruct H as (H1 & H2 & H3).
  rewrite (He s H1). split; [exact H1|]. split; [exact H2|]. apply IH. exact H3.
Qed.

Lemma walk_mono t bound bound' : bound <= bound' ->
  forall bits s tgt, walk t bound bits s tgt -> walk t bound' bits s tgt.
Proof.
  intros Hb. induction bits as [|b r IH]; intros s tgt H; [exact H|].
  cbn [walk] in *. destruct H as (H1 & H2 & H3).
  split; [lia|]. split; [exact H2|]. apply IH. exact H3.
Qed.

Lemma walk_snoc t bound b : forall p s s1,
  walk t bound p s s1 -> s1 < bound -> is_leaf 128 (aget t s1) = false ->
  walk t bound (p ++ [b]) s (aget t s1 + N.b2n b).
Proof.
  induction p as [|x r IH]; intros s s1 H Hs Hl.
  - cbn [walk] in H. subst s1. cbn [app walk]. split; [exact Hs|]. split; [exact Hl|reflexivity].
  - cbn [app walk] in *. destruct H as (H1 & H2 & H3).
    split; [exact H1|]. split; [exact H2|]. apply IH; assumption.
Qed.

Lemma walk_start_lt t bound bits s0 s : walk t bound bits s0 s -> s < bound -> s0 < bound.
Proof.
  destruct bits as [|b r]; cbn [walk]; intros H Hs.
  - subst s0. exact Hs.
  - destruct H as (H1 & _). exact H1.
Qed.

Lemma walk_tree_path t bound s sym : bound <= alen t -> s < bound ->
  is_leaf 128 (aget t s) = true -> N.land (aget t s) 127 = sym ->
  forall bits s0, walk t bound bits s0 s -> tree_path t (aget t s0) bits sym.
Proof.
  intros Hb Hs Hl Hv. induction bits as [|b r IH]; intros s0 H.
  - cbn [walk] in H. subst s0. cbn [tree_path]. split; [exact Hl|exact Hv].
  - cbn [walk] in H. destruct H as (H1 & H2 & H3). cbn [tree_path].
    split; [exact H2|]. pose proof (walk_start_lt _ _ _ _ _ H3 Hs) as Hn.
    split; [lia|]. apply IH. exact H3.
Qed.

(* ------------------------------------------------------------------ *)
(* 5. The two inner loops, functionally                                *)

Lemma expand_loop_spec : forall k t len a n e,
  e = n + N.of_nat k -> e <= alen t -> a + 2 * N.of_nat k <= 256 ->
  exists t', expand_loop 128 k {| b_tree := t; b_len := len; b_allocated := a; b_next := n |} e
     = Ok {| b_tree := t'; b_len := len; b_allocated := a + 2 * N.of_nat k; b_next := e |} /\
    alen t' = alen t /\
    (forall j, j < N.of_nat k -> aget t' (n + j) = a + 2 * j) /\
    (forall s, s < n \/ e <= s -> aget t' s = aget t s).
Proof.
  induction k as [|k IH]; intros t len a n e He Hal Ha.
  - exists t. split.
    { cbn [expand_loop]. f_equal. f_equal; lia. }
    split; [reflexivity|]. split; [intros j Hj; lia|]. intros s _. reflexivity.
  - rewrite expand_loop_S. cbn [b_tree b_len b_allocated b_next].
    destruct (N.ltb_spec n e) as [Hlt|Hge]; [|lia].
    rewrite wr_ok by lia. cbn [bind].
    rewrite (elem_small 128 7 eq_refl) by lia.
    destruct (IH (aset t n a) len (a + 2) (n + 1) e) as (t' & E & L & G1 & G2);
      [lia|rewrite alen_aset; lia|lia|].
    exists t'. split.
    { rewrite E. f_equal. f_equal. lia. }
    split; [rewrite L; apply alen_aset|]. split.
    + intros j Hj. destruct (N.eqb_spec j 0) as [Ej|Ej].
      * subst j. rewrite N.add_0_r, G2 by lia. rewrite aget_aset_eq. lia.
      * replace (n + j) with (n + 1 + (j - 1)) by lia. rewrite G1 by lia. lia.
    + intros s Hs. rewrite G2 by lia. apply aget_aset_ne. lia.
Qed.

Section AddCodes.
  Variables (cl : arr) (C A len : N).

  Lemma add_codes_spec : forall l i t n rem,
    (forall j, (j < length l)%nat -> aget cl (i + N.of_nat j) = nth j l 0) ->
    i + nlen l <= alen cl -> n + cnt C l <= A -> A <= alen t ->
    exists t', add_codes_loop 128 (length l)
                 {| b_tree := t; b_len := len; b_allocated := A; b_next := n |} cl i C rem
       = Ok ({| b_tree := t'; b_len := len; b_allocated := A; b_next := n + cnt C l |},
             rem || anygt C l) /\
      alen t' = alen t /\
      (forall s, s < n \/ n + cnt C l <= s -> aget t' s = aget t s) /\
      (forall j, (j < length l)%nat -> nth j l 0 = C ->
         aget t' (n + cnt C (firstn j l)) = N.lor (elem 128 (i + N.of_nat j)) 128).
  Proof.
    induction l as [|x r IH]; intros i t n rem Hcl Hi Hroom Hal.
    - exists t. split.
      { cbn [length add_codes_loop cnt anygt]. rewrite orb_false_r. f_equal. f_equal. f_equal. lia. }
      split; [reflexivity|]. split; [intros s _; reflexivity|].
      intros j Hj. cbn [length] in Hj. lia.
    - cbn [length]. rewrite add_codes_loop_S. rewrite nlen_cons in Hi.
      rewrite rd_ok by lia. cbn [bind].
      assert (Hx : aget cl i = x).
      { pose proof (Hcl O ltac:(cbn [length]; lia)) as H0. cbn [nth] in H0.
        rewrite N.add_0_r in H0. exact H0. }
      rewrite Hx.
      assert (Hcl' : forall j, (j < length r)%nat -> aget cl (i + 1 + N.of_nat j) = nth j r 0).
      { intros j Hj. pose proof (Hcl (S j) ltac:(cbn [length]; lia)) as H0. cbn [nth] in H0.
        rewrite <- H0. f_equal. lia. }
      rewrite cnt_cons in Hroom.
      destruct (N.eqb_spec x C) as [El|El].
      + unfold read_next_entry. cbn [b_tree b_len b_allocated b_next].
        destruct (N.leb_spec A n) as [Hq|Hq]; [lia|].
        cbv beta iota zeta. cbn [b_tree b_len b_allocated b_next].
        rewrite wr_ok by lia. cbn [bind].
        destruct (IH (i + 1) (aset t n (N.lor (elem 128 i) 128)) (n + 1) rem Hcl')
          as (t' & E & L & G1 & G2); [lia|lia|rewrite alen_aset; lia|].
        exists t'. split.
        { rewrite E. rewrite cnt_cons, anygt_cons.
          destruct (N.eqb_spec x C) as [_|Ne]; [|contradiction].
          destruct (N.ltb_spec C x) as [Hlt|_]; [lia|]. cbn [orb].
          f_equal. f_equal. f_equal. lia. }
        split; [rewrite L; apply alen_aset|]. rewrite cnt_cons.
        destruct (N.eqb_spec x C) as [_|Ne]; [|contradiction]. split.
        * intros s Hs. rewrite G1 by lia. apply aget_aset_ne. lia.
        * intros j Hj Hn. destruct j as [|j].
          -- cbn [firstn cnt]. rewrite N.add_0_r, N.add_0_r. rewrite G1 by lia. apply aget_aset_eq.
          -- cbn [firstn nth length] in *. rewrite cnt_cons.
             destruct (N.eqb_spec x C) as [_|Ne]; [|contradiction].
             replace (n + (1 + cnt C (firstn j r))) with (n + 1 + cnt C (firstn j r)) by lia.
             rewrite G2 by (try lia; exact Hn). f_equal. f_equal. lia.
      + destruct (IH (i + 1) t n (if C <? x then true else rem) Hcl')
          as (t' & E & L & G1 & G2); [lia|lia|exact Hal|].
        exists t'. split.
        { rewrite E. rewrite cnt_cons, anygt_cons.
          destruct (N.eqb_spec x C) as [Ee|_]; [contradiction|].
          rewrite N.add_0_l.
          replace ((if C <? x then true else rem) || anygt C r) with (rem || ((C <? x) || anygt C r))
            by (destruct (C <? x); destruct rem; destruct (anygt C r); reflexivity).
          reflexivity. }
        split; [exact L|]. rewrite cnt_cons.
        destruct (N.eqb_spec x C) as [Ee|_]; [contradiction|]. split.
        * intros s Hs. apply G1. lia.
        * intros j Hj Hn. destruct j as [|j].
          -- cbn [nth] in Hn. contradiction.
          -- cbn [firstn nth length] in *. rewrite cnt_cons.
             destruct (N.eqb_spec x C) as [Ee|_]; [contradiction|].
             rewrite N.add_0_l. rewrite G2 by (try lia; exact Hn). f_equal. f_equal. lia.
  Qed.
End AddCodes.

(* ------------------------------------------------------------------ *)
(* 6. The level invariant of build_loop                                *)

Section Build.
  Variables (t0 : arr) (tree_len : N) (cl : arr) (lens : list N) (m : N).
  Hypothesis Hlen_t : tree_len <= alen t0.
  Hypothesis Htl : tree_len <= 128.
  Hypothesis Hncl : nlen lens <= alen cl.
  Hypothesis Hn128 : nlen lens <= 128.
  Hypothesis Hcl : forall j, (j < length lens)%nat -> aget cl (N.of_nat j) = nth j lens 0.
  Hypothesis Hm : Forall (fun x => x <= m) lens.
  Hypothesis H255 : Forall (fun x => x <= 255) lens.
  Hypothesis HK : sumK m lens = 2 ^ m.
  Hypothesis Hroom : 2 * nz lens <= tree_len + 1.

  (* state at the top of the build_loop iteration with code_len = L *)
  Definition Inv (L : N) (b : bld) : Prop :=
    exists q,
      b_len b = tree_len /\ alen (b_tree b) = alen t0 /\ b_allocated b <= tree_len /\
      b_allocated b = b_next b + q /\ lo L lens + q = 2 ^ L /\
      b_allocated b + 1 = 2 * cntle L lens + 2 * q /\
      (forall j, j < q ->
         walk (b_tree b) (b_next b) (nbits L (lo L lens + j)) 0 (b_next b + j)) /\
      (forall i, (i < length lens)%nat -> 0 < nth i lens 0 -> nth i lens 0 <= L ->
         exists s, s < b_next b /\
           walk (b_tree b) (b_next b)
                (nbits (nth i lens 0) (canon_value lens 0 (N.of_nat i) (nth i lens 0))) 0 s /\
           aget (b_tree b) s = N.lor (elem 128 (N.of_nat i)) 128).

  Lemma split_bit k : exists j b, k = 2 * j + N.b2n b.
  Proof.
    exists (k / 2), (N.odd k).
    rewrite <- N.bit0_odd, N.bit0_mod. apply N.div_mod. lia.
  Qed.

  Lemma level_step L b : Inv L b -> 0 < cntgt L lens ->
    exists b1 b2, expand_queue 128 b = Ok b1 /\
      add_codes_with_length 128 b1 cl (nlen lens) (L + 1) = Ok (b2, anygt (L + 1) lens) /\
      Inv (L + 1) b2.
  Proof.
    intros HI Hgt. destruct b as [t len a n].
    destruct HI as (q & Hlen & Hal & Hat & Ha & Hq & Hacc & I2 & I3).
    cbn [b_tree b_len b_allocated b_next] in *. subst len a.
    pose proof (cntgt_bound m L lens Hm Hgt) as HLm.
    pose proof (queue_le_gt lens m Hm HK L q HLm Hq) as Hq2.
    pose proof (cnt_le_queue lens m Hm HK L q HLm Hq) as Hc2.
    pose proof (nz_split L lens) as Hnz.
    assert (Hfit : n + q + 2 * q <= tree_len) by lia.
    (* expand_queue *)
    unfold expand_queue. cbn [b_tree b_len b_allocated b_next].
    replace (n + q - n) with q by lia.
    destruct (N.ltb_spec tree_len (n + q + q * 2)) as [Hbad|_]; [lia|].
    destruct (expand_loop_spec (N.to_nat q) t tree_len (n + q) n (n + q))
      as (t1 & E1 & L1 & G1 & G1'); [lia|lia|lia|].
    rewrite N2Nat.id in E1, G1.
    (* the new queue: slot n + q + k has code 2 * lo L + k *)
    assert (NQ : forall k, k < 2 * q ->
              walk t1 (n + q) (nbits (L + 1) (2 * lo L lens + k)) 0 (n + q + k)).
    { intros k Hk. destruct (split_bit k) as (j & bit & Ek).
      assert (Hj : j < q) by (destruct bit; cbn [N.b2n] in Ek; lia).
      replace (2 * lo L lens + k) with (2 * (lo L lens + j) + N.b2n bit) by lia.
      rewrite nbits_snoc by lia.
      replace (n + q + k) with (aget t1 (n + j) + N.b2n bit) by (rewrite G1 by exact Hj; lia).
      apply walk_snoc.
      - apply (walk_mono t1 n (n + q)); [lia|].
        apply (walk_ext t t1 n); [intros s Hs; apply G1'; lia|]. apply I2. exact Hj.
      - lia.
      - rewrite G1 by exact Hj. apply nonleaf_small. lia. }
    (* old leaves survive *)
    assert (I3a : forall i, (i < length lens)%nat -> 0 < nth i lens 0 -> nth i lens 0 <= L ->
         exists s, s < n + q /\
           walk t1 (n + q)
                (nbits (nth i lens 0) (canon_value lens 0 (N.of_nat i) (nth i lens 0))) 0 s /\
           aget t1 s = N.lor (elem 128 (N.of_nat i)) 128).
    { intros i Hi H0 HiL. destruct (I3 i Hi H0 HiL) as (s & Hs & Hw & Hv).
      exists s. split; [lia|]. split.
      - apply (walk_mono t1 n (n + q)); [lia|].
        apply (walk_ext t t1 n); [intros s' Hs'; apply G1'; lia|]. exact Hw.
      - rewrite G1' by lia. exact Hv. }
    (* add_codes_with_length *)
    destruct (add_codes_spec cl (L + 1) (n + q + 2 * q) tree_len lens 0 t1 (n + q) false)
      as (t2 & E2 & L2 & G2 & G2').
    { intros j Hj. rewrite N.add_0_l. apply Hcl. exact Hj. }
    { lia. }
    { lia. }
    { lia. }
    eexists. eexists. split; [exact E1|]. split.
    { unfold add_codes_with_length.
      replace (N.to_nat (nlen lens)) with (length lens) by (unfold nlen; lia). exact E2. }
    (* the invariant at level L + 1 *)
    set (c := cnt (L + 1) lens) in *.
    exists (2 * q - c). cbn [b_tree b_len b_allocated b_next].
    split; [reflexivity|]. split; [congruence|]. split; [lia|]. split; [lia|]. split.
    { rewrite lo_succ. fold c. rewrite pow2_succ. lia. }
    split.
    { rewrite cntle_succ. fold c. lia. }
    split.
    - intros j Hj. rewrite lo_succ. fold c.
      apply (walk_mono t2 (n + q) (n + q + c)); [lia|].
      apply (walk_ext t1 t2 (n + q)); [intros s Hs; apply G2; lia|].
      replace (2 * lo L lens + c + j) with (2 * lo L lens + (c + j)) by lia.
      replace (n + q + c + j) with (n + q + (c + j)) by lia.
      apply NQ. lia.
    - intros i Hi H0 HiL.
      destruct (N.leb_spec (nth i lens 0) L) as [Hle|Hgt1].
      + destruct (I3a i Hi H0 Hle) as (s & Hs & Hw & Hv).
        exists s. split; [lia|]. split.
        * apply (walk_mono t2 (n + q) (n + q + c)); [lia|].
          apply (walk_ext t1 t2 (n + q)); [intros s' Hs'; apply G2; lia|]. exact Hw.
        * rewrite G2 by lia. exact Hv.
      + assert (Ei : nth i lens 0 = L + 1) by lia.
        rewrite Ei.
        pose proof (cnt_firstn_lt (L + 1) lens i Hi Ei) as Hrk. fold c in Hrk.
        set (rk := cnt (L + 1) (firstn i lens)) in *.
        exists (n + q + rk). split; [lia|]. split.
        * rewrite canon_value_eq. rewrite N.sub_0_r, Nat2N.id. fold rk.
          apply (walk_mono t2 (n + q) (n + q + c)); [lia|].
          apply (walk_ext t1 t2 (n + q)); [intros s' Hs'; apply G2; lia|].
          apply NQ. lia.
        * unfold rk. rewrite (G2' i Hi Ei). rewrite N.add_0_l. reflexivity.
  Qed.

  Lemma build_loop_spec : forall fuel L b,
    Inv L b -> 0 < cntgt L lens -> 256 <= L + N.of_nat fuel ->
    exists b' L', build_loop 128 fuel b cl (nlen lens) L = Ok b' /\ Inv L' b' /\ cntgt L' lens = 0.
  Proof.
    induction fuel as [|f IH]; intros L b HI Hgt Hf.
    - pose proof (cntgt_bound 255 L lens H255 Hgt). lia.
    - rewrite build_loop_S.
      destruct (level_step L b HI Hgt) as (b1 & b2 & E1 & E2 & HI2).
      rewrite E1. cbn [bind]. rewrite E2. cbn [bind].
      rewrite anygt_cntgt.
      destruct (N.eqb_spec (cntgt (L + 1) lens) 0) as [Ez|Ez]; cbn [negb].
      + exists b2, (L + 1). split; [reflexivity|]. split; [exact HI2|exact Ez].
      + apply IH; [exact HI2|lia|lia].
  Qed.

  Lemma inv_init : 2 <= nz lens ->
    Inv 0 {| b_tree := t0; b_len := tree_len; b_allocated := 1; b_next := 0 |}.
  Proof.
    intros H2. exists 1. cbn [b_tree b_len b_allocated b_next].
    rewrite lo_0, cntle_0.
    split; [reflexivity|]. split; [reflexivity|]. split; [lia|]. split; [reflexivity|].
    split; [reflexivity|]. split; [reflexivity|]. split.
    - intros j Hj. unfold nbits. change (N.to_nat 0) with O. cbn [bits_of walk]. lia.
    - intros i Hi H0 HiL. lia.
  Qed.

  Lemma build_tree_canonical_sec : 2 <= nz lens ->
    exists t', build_tree 128 t0 tree_len cl (nlen lens) = Ok t' /\ alen t' = alen t0 /\ 0 < alen t' /\
      forall sym code, canon_code lens sym = Some code -> tree_path t' (aget t' 0) code sym.
  Proof.
    intros H2. unfold build_tree.
    assert (Hgt : 0 < cntgt 0 lens).
    { pose proof (nz_split 0 lens) as E. rewrite cntle_0 in E. lia. }
    destruct (build_loop_spec 300 0 _ (inv_init H2) Hgt) as (b' & L' & E & HI & Hz).
    { change (N.of_nat 300) with 300. lia. }
    rewrite E. cbn [bind]. exists (b_tree b').
    destruct HI as (q & Hlen & Hal & Hat & Ha & Hq & Hacc & I2 & I3).
    split; [reflexivity|]. split; [exact Hal|]. split; [rewrite Hal; lia|].
    intros sym code Hc. unfold canon_code, nth_N in Hc.
    destruct (nth_error lens (N.to_nat sym)) as [l|] eqn:En; [|discriminate].
    destruct (N.eqb_spec l 0) as [E0|E0]; [discriminate|].
    injection Hc as <-.
    assert (Hi : (N.to_nat sym < length lens)%nat).
    { apply nth_error_Some. rewrite En. discriminate. }
    pose proof (nth_error_nth lens (N.to_nat sym) 0 En) as Enth.
    pose proof (cntgt_0_nth L' lens (N.to_nat sym) Hz) as HL.
    rewrite Enth in HL.
    destruct (I3 (N.to_nat sym) Hi) as (s & Hs & Hw & Hv); [lia|lia|].
    rewrite Enth, N2Nat.id in Hw. rewrite N2Nat.id in Hv.
    pose proof (nz_split L' lens) as Hnz. unfold nlen in Hn128.
    apply (walk_tree_path (b_tree b') (b_next b') s sym); try assumption.
    - rewrite Hal. lia.
    - rewrite Hv. apply (is_leaf_lor 128 7 eq_refl).
    - rewrite Hv. apply leaf_sym. lia.
  Qed.
End Build.

Theorem build_tree_canonical : forall t tree_len cl lens,
  tree_len <= alen t -> tree_len <= 128 ->
  nlen lens <= alen cl -> nlen lens <= 128 ->
  (forall i, i < nlen lens -> aget cl i = nth (N.to_nat i) lens 0) ->
  Forall (fun l => l < 256) lens ->
  complete_code lens = true ->
  2 * count_nz lens <= tree_len + 1 ->
  exists t', build_tree 128 t tree_len cl (nlen lens) = Ok t' /\ alen t' = alen t /\ 0 < alen t' /\
    forall sym code, canon_code lens sym = Some code -> tree_path t' (aget t' 0) code sym.
Proof.
  intros t tree_len cl lens H1 H2 H3 H4 Hcl H256 Hcc Hroom.
  unfold complete_code in Hcc. apply andb_true_iff in Hcc. destruct Hcc as [Hc2 HK].
  apply N.leb_le in Hc2. apply N.eqb_eq in HK.
  rewrite sum_map_sumK in HK. rewrite count_nz_nz in Hc2, Hroom.
  apply (build_tree_canonical_sec t tree_len cl lens (max_len lens)); try assumption.
  - intros j Hj. rewrite Hcl by (unfold nlen; lia). rewrite Nat2N.id. reflexivity.
  - apply max_len_ge.
  - eapply Forall_impl; [|exact H256]. intros a Ha. cbv beta in Ha. lia.
Qed.

(* Non-vacuity: the hypotheses hold for a concrete complete code in a tree with
   exactly 2 * count_nz - 1 entries and arbitrary (here: all 77) initial contents. *)
Example build_tree_canonical_ex :
  exists t', build_tree 128 (mk_arr 7 77) 7 (arr_of_list 0 [1; 0; 2; 3; 3]) 5 = Ok t' /\
    forall sym code, canon_code [1; 0; 2; 3; 3] sym = Some code -> tree_path t' (aget t' 0) code sym.
Proof.
  destruct (build_tree_canonical (mk_arr 7 77) 7 (arr_of_list 0 [1; 0; 2; 3; 3]) [1; 0; 2; 3; 3])
    as (t' & E & _ & _ & P).
  - vm_compute. discriminate.
  - lia.
  - vm_compute. discriminate.
  - vm_compute. discriminate.
  - intros i Hi. change (nlen [1; 0; 2; 3; 3]) with 5 in Hi.
    assert (D : i = 0 \/ i = 1 \/ i = 2 \/ i = 3 \/ i = 4) by lia.
    destruct D as [D|[D|[D|[D|D]]]]; subst i; vm_compute; reflexivity.
  - repeat constructor.
  - vm_compute. reflexivity.
  - vm_compute. discriminate.
  - exists t'. split; [exact E|exact P].
Qed.

Print Assumptions build_tree_canonical.

(* Lzs.v -- model of lib/lzs_decoder.c *)
From Lhasa Require Import Base DecBase BitReader Generated.
Local Open Scope N_scope.

Record lzs_state := { lzs_bsr : bsr; lzs_ring : arr; lzs_pos : N }.

Section Lzs.
  Context {cbs : Type}.
  Variable cb : callback cbs.

  Definition lzs_init : outcome lzs_state :=
    (* memset(ringbuf, ' ', RING_BUFFER_SIZE) on an array of lzs_ringbuf_extent bytes *)
    if lzs_RING_BUFFER_SIZE <=? lzs_ringbuf_extent then
      Ok {| lzs_bsr := bsr_init;
            lzs_ring := mk_arr lzs_ringbuf_extent 32;
            lzs_pos := lzs_RING_BUFFER_SIZE - lzs_START_OFFSET |}
    else Fault 301.

  Definition lzs_output_byte (s : lzs_state) (o : obuf) (b : N) : outcome (lzs_state * obuf) :=
    o' <- ob_push 302 lzs_max_read o b ;;
    ring' <- wr 303 (lzs_ring s) (lzs_pos s) b ;;
    Ok ({| lzs_bsr := lzs_bsr s; lzs_ring := ring';
           lzs_pos := (lzs_pos s + 1) mod lzs_RING_BUFFER_SIZE |}, o').

  Fixpoint lzs_output_block (n : nat) (s : lzs_state) (o : obuf) (start i : N) : outcome (lzs_state * obuf) :=
    match n with
    | O => Ok (s, o)
    | S k =>
      b <- rd 304 (lzs_ring s) ((start + i) mod lzs_RING_BUFFER_SIZE) ;;
      '(s', o') <- lzs_output_byte s o b ;;
      lzs_output_block k s' o' start (i + 1)
    end.

  Definition set_bsr (s : lzs_state) (r : bsr) : lzs_state :=
    {| lzs_bsr := r; lzs_ring := lzs_ring s; lzs_pos := lzs_pos s |}.

  Definition lzs_read (s : lzs_state) (c : cbs) : outcome (list N * lzs_state * cbs) :=
    '(bit, r1, c1) <- read_bit cb (lzs_bsr s) c ;;
    let s1 := set_bsr s r1 in
    match bit with
    | None => Ok ([], s1, c1)
    | Some bitv =>
      if negb (bitv =? 0) then
        '(b, r2, c2) <- read_bits cb r1 c1 8 ;;
        let s2 := set_bsr s1 r2 in
        match b with
        | None => Ok ([], s2, c2)
        | Some bv =>
          '(s3, o) <- lzs_output_byte s2 ob_empty (u8 bv) ;;
          Ok (ob_bytes o, s3, c2)
        end
      else
        '(pos, r2, c2) <- read_bits cb r1 c1 11 ;;
        '(len, r3, c3) <- read_bits cb r2 c2 4 ;;
        let s3 := set_bsr s1 r3 in
        match pos, len with
        | Some p, Some l =>
          '(s4, o) <- lzs_output_block (N.to_nat (l + lzs_THRESHOLD)) s3 ob_empty p 0 ;;
          Ok (ob_bytes o, s4, c3)
        | _, _ => Ok ([], s3, c3)
        end
    end.
End Lzs.

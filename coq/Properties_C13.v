(* Properties_C13.v -- C13: every call returns; work and heap are bounded.
   Statements only.  Returning: P_HeaderSafe (stream, parser, basic reader) and
   P_Decoder (the decoder API stops at the declared length).  The linear work
   bound and the heap accounting are added from P_Bounds.v when completed; until
   then they are decided by the driver's request and allocation accounting. *)
From Lhasa Require Import Base ListN Generated DecBase InputStream Header BasicReader Decoder
  P_Decoder P_DecoderInv P_HeaderSafe P_Intact.
Local Open Scope N_scope.

(* Every call of the header iteration returns (streams below 12 MiB: the model's
   fuel for the level-1 extended-header walk), for all four stream kinds. *)
Theorem next_file_returns : forall mktime r, wf_reader r -> ravail r < EXT_LIMIT ->
  exists h r', lha_basic_reader_next_file mktime r = Ok (h, r') /\ wf_reader r' /\ ravail r' <= ravail r.
Proof. exact lha_basic_reader_next_file_total. Qed.

(* Skipping returns, whatever the amount declared in the header and however little
   data is left (the fallback loops stop at the first empty read). *)
Theorem skip_returns : forall st bytes, wf st ->
  bytes < 1099511627776 \/ nlen (so_data (is_src st)) < 1099511627776 ->
  exists ok st', lha_input_stream_skip st bytes = Ok (ok, st') /\ wf st' /\ avail st' <= avail st.
Proof. exact lha_input_stream_skip_total. Qed.

(* After the end of the archive every further request reports end, without touching the stream. *)
Theorem end_is_final : forall mktime r r',
  lha_basic_reader_next_file mktime r = Ok (None, r') -> forall n, next_file_n mktime n r' = Ok (None, r').
Proof. exact P_Intact.iteration_stops. Qed.

(* Decoding returns and never delivers more than the declared length -- for any
   inner decoder that returns in the states satisfying its invariant, i.e. also
   for truncated, self-referential or endless (-pm1-) inputs -- and once the
   declared length is reached the inner decoder is not called again. *)
Theorem decode_read_returns : forall (cbs st : Type) (dread : st -> cbs -> outcome (list N * st * cbs))
  (max_read block_size : N) (I : st -> Prop),
  (forall s c, I s -> exists ch s' c', dread s c = Ok (ch, s', c') /\ nlen ch <= max_read /\ I s') ->
  forall (d : decoder) n, I (d_inner d) -> n < 2 ^ 62 ->
  exists o ev d', lha_decoder_read dread max_read block_size d n = Ok (o, ev, d') /\ I (d_inner d').
Proof. intros cbs st dread mr bs I H. exact (read_total_inv dread mr bs I H). Qed.

Theorem decode_stops_at_declared : forall (cbs st : Type) (dread : st -> cbs -> outcome (list N * st * cbs))
  (max_read block_size : N) (I : st -> Prop),
  (forall s c, I s -> exists ch s' c', dread s c = Ok (ch, s', c') /\ nlen ch <= max_read /\ I s') ->
  forall (d : decoder) n, I (d_inner d) ->
  d_stream_pos d = d_stream_length d -> d_monitor d = false -> n < 2 ^ 62 ->
  lha_decoder_read dread max_read block_size d n = Ok ([], [], d).
Proof. intros cbs st dread mr bs I H. exact (stops_at_declared_length_inv dread mr bs I H). Qed.

Print Assumptions next_file_returns.
Print Assumptions skip_returns.
Print Assumptions end_is_final.
Print Assumptions decode_read_returns.
Print Assumptions decode_stops_at_declared.

(* Properties_C13.v -- C13: every call returns; work and heap are bounded.
   Statements only.  Returning: P_HeaderSafe (stream, parser, basic reader) and
   P_Decoder (the decoder API stops at the declared length).  The linear work
   bound, "a truncated member ends the archive", the bound on inner-decoder
   invocations and the heap accounting are proved in P_Bounds.v (source requests
   = read + skip callbacks counted by the model's source; heap = the sizes of the
   objects the C allocates, sizeof values regenerated from the C). *)
From Lhasa Require Import Base ListN Generated DecBase InputStream Header BasicReader Decoder
  P_Decoder P_DecoderInv P_HeaderSafe P_Intact P_Bounds.
From Lhasa Require Import Fs FsRun ListOut CliExtract CliMain P_ListOut P_CliNoFault P_CliRetBytes P_CliReturns.
Local Open Scope N_scope.

(* Every call of the header iteration returns (streams below 12 MiB: the model's
   fuel for the level-1 extended-header walk), for all four stream kinds. *)
Theorem next_file_returns : forall mktime r, wf_reader r -> ravail r < EXT_LIMIT ->
  exists h r', lha_basic_reader_next_file mktime r = Ok (h, r') /\ wf_reader r' /\ ravail r' <= ravail r.
Proof. exact lha_basic_reader_next_file_total. Qed.

(* Skipping returns, whatever the amount declared in the header and however little
   data is left (the fallback loops stop at the first empty read). *)
Theorem skip_returns : forall st bytes, wf st ->
  bytes < 1099511627776 \/ nlen (so_data (is_src st)) < 1099511627776 ->
  exists ok st', lha_input_stream_skip st bytes = Ok (ok, st') /\ wf st' /\ avail st' <= avail st.
Proof. exact lha_input_stream_skip_total. Qed.

(* After the end of the archive every further request reports end, without touching the stream. *)
Theorem end_is_final : forall mktime r r',
  lha_basic_reader_next_file mktime r = Ok (None, r') -> forall n, next_file_n mktime n r' = Ok (None, r').
Proof. exact P_Intact.iteration_stops. Qed.

(* Decoding returns and never delivers more than the declared length -- for any
   inner decoder that returns in the states satisfying its invariant, i.e. also
   for truncated, self-referential or endless (-pm1-) inputs -- and once the
   declared length is reached the inner decoder is not called again. *)
Theorem decode_read_returns : forall (cbs st : Type) (dread : st -> cbs -> outcome (list N * st * cbs))
  (max_read block_size : N) (I : st -> Prop),
  (forall s c, I s -> exists ch s' c', dread s c = Ok (ch, s', c') /\ nlen ch <= max_read /\ I s') ->
  forall (d : decoder) n, I (d_inner d) -> n < 2 ^ 62 ->
  exists o ev d', lha_decoder_read dread max_read block_size d n = Ok (o, ev, d') /\ I (d_inner d').
Proof. intros cbs st dread mr bs I H. exact (read_total_inv dread mr bs I H). Qed.

Theorem decode_stops_at_declared : forall (cbs st : Type) (dread : st -> cbs -> outcome (list N * st * cbs))
  (max_read block_size : N) (I : st -> Prop),
  (forall s c, I s -> exists ch s' c', dread s c = Ok (ch, s', c') /\ nlen ch <= max_read /\ I s') ->
  forall (d : decoder) n, I (d_inner d) ->
  d_stream_pos d = d_stream_length d -> d_monitor d = false -> n < 2 ^ 62 ->
  lha_decoder_read dread max_read block_size d n = Ok ([], [], d).
Proof. intros cbs st dread mr bs I H. exact (stops_at_declared_length_inv dread mr bs I H). Qed.

(* --- work: listing does work proportional to the bytes actually present --- *)

(* one next_file call: 3 * requests + bytes left never grows by more than 15 *)
Theorem next_file_work : forall mktime r h r', reader_inv r ->
  lha_basic_reader_next_file mktime r = Ok (h, r') ->
  reader_inv r' /\ ravail r' <= ravail r /\
  3 * rrequests r' + ravail r' <= 3 * rrequests r + ravail r + 15.
Proof. exact P_Bounds.next_file_work. Qed.

(* n calls on ANY data through any of the four stream kinds: at most len/3 + 5n
   source requests (reads + skips), whatever the headers declare *)
Theorem listing_work_linear : forall mktime k data n r',
  iterate_next_file mktime n (lha_basic_reader_new (lha_input_stream_new (mk_source k data))) = Ok r' ->
  3 * rrequests r' + ravail r' <= nlen data + 15 * N.of_nat n /\
  rrequests r' <= nlen data / 3 + 5 * N.of_nat n.
Proof. exact P_Bounds.listing_work_linear. Qed.

Theorem listing_returns_within_budget : forall mktime k data n, nlen data < EXT_LIMIT ->
  exists r', iterate_next_file mktime n (lha_basic_reader_new (lha_input_stream_new (mk_source k data))) = Ok r'
             /\ rrequests r' <= nlen data / 3 + 5 * N.of_nat n.
Proof. exact P_Bounds.listing_returns_within_budget. Qed.

(* --- skipping a member whose data is truncated ends the archive (all four kinds;
       also after the member has been partly read) --- *)
Theorem truncated_member_ends_archive : forall mktime r x r', truncated_member r ->
  lha_basic_reader_next_file mktime r = Ok (x, r') ->
  x = None /\ forall n, next_file_n mktime n r' = Ok (None, r').
Proof. exact P_Bounds.truncated_member_ends_archive. Qed.

Theorem skip_truncated_after_header : forall mktime r0 hd r x r',
  wf_reader r0 -> reader_inv r0 ->
  lha_basic_reader_next_file mktime r0 = Ok (Some hd, r) ->
  data_left (br_stream r) < h_compressed_length hd ->
  lha_basic_reader_next_file mktime r = Ok (x, r') ->
  x = None /\ forall n, next_file_n mktime n r' = Ok (None, r').
Proof. exact P_Bounds.skip_truncated_after_header. Qed.

(* --- heap: fixed objects (stream, readers, the largest decoder state, the
       pass-through decoder) + the header being read, with realloc's transient
       copy, stay below 8 MiB + 2 * bytes consumed; retained headers are paid by
       input bytes --- *)
Theorem heap_bound : forall mktime st h st' consumed,
  (forall old nbytes strs, old <= consumed -> nbytes <= MiB -> strs <= 2 * (MiB + 1) + 4 ->
     sizeof_LHAInputStream + sizeof_LHABasicReader + sizeof_LHAReader + max_decoder_bytes + macbinary_bytes
     + (extend_peak old nbytes + strs) <= 8 * MiB + 2 * consumed) /\
  (lha_file_header_read mktime st = Ok (Some h, st') -> avail st - avail st' <= consumed ->
     sizeof_LHAInputStream + sizeof_LHABasicReader + sizeof_LHAReader + max_decoder_bytes + macbinary_bytes
     + header_bytes h <= 8 * MiB + 2 * consumed).
Proof. exact P_Bounds.heap_bound. Qed.

(* a request to grow a header beyond 1 MiB in one step is refused before anything is allocated *)
Theorem header_growth_capped : forall h st n, MiB < n -> extend_raw_data h st n = Ok (None, st).
Proof. exact P_Bounds.extend_raw_data_refuses. Qed.

Theorem largest_decoder_state : max_decoder_bytes = 2099544 /\ fixed_bytes = 2104016.
Proof. split; [exact max_decoder_bytes_value|exact fixed_bytes_value]. Qed.

Theorem retained_headers_bound : forall mktime n r hs r',
  collect_headers mktime n r = Ok (hs, r') ->
  sum_N (map header_bytes hs) + 5 * ravail r' <=
    5 * ravail r + nlen hs * (sizeof_LHAFileHeader + 14) /\ ravail r' <= ravail r.
Proof. exact P_Bounds.retained_headers_bound. Qed.

(* --- the tool returns (P_CliReturns.v): for every argv, standard input and filesystem,
       when the archive that the command opens consists of bytes and is shorter than
       EXT_LIMIT = 12 MiB (the model's fuel for the extended-header walk of a level-1
       header; every other loop of the model has fuel for 2^27 bytes or more), the run
       of lha is [Ok _].  argv_mode / archive_ok: P_CliReturns.v (the command letter; the
       bytes of the named file in the filesystem model, or of standard input for "-").
       bytes_ok: every entry of the list is below 256 (the model's type of a byte is N). --- *)

(* l, v: needs the C library's localtime to return a month in 0..11, as for C08 *)
Theorem list_commands_return : forall mktime junk localtime now stdin_kind strerror argv stdin s,
  argv_mode argv = Some MODE_LIST \/ argv_mode argv = Some MODE_LIST_VERBOSE ->
  lt_ok localtime -> archive_ok argv stdin s ->
  exists r, lha_main mktime junk localtime now stdin_kind strerror argv stdin s = Ok r.
Proof. exact P_CliReturns.list_commands_return. Qed.

(* t, p: every member is decoded, by whatever decoder its header names *)
Theorem test_and_print_return : forall mktime junk localtime now stdin_kind strerror argv stdin s,
  argv_mode argv = Some MODE_CRC_CHECK \/ argv_mode argv = Some MODE_PRINT ->
  archive_ok argv stdin s ->
  exists r, lha_main mktime junk localtime now stdin_kind strerror argv stdin s = Ok r.
Proof. exact P_CliReturns.test_and_print_return. Qed.

(* x, e: the overwrite prompt reads standard input (below 2^40 bytes: the fuel of the prompt
   loop); at the end of input the tool exits; the deferred directories and links get their
   second pass *)
Theorem extract_returns : forall mktime junk localtime now stdin_kind strerror argv stdin s,
  argv_mode argv = Some MODE_EXTRACT ->
  archive_ok argv stdin s -> nlen stdin < 1099511627776 ->
  exists r, lha_main mktime junk localtime now stdin_kind strerror argv stdin s = Ok r.
Proof. exact P_CliReturns.extract_returns. Qed.

(* any argv (also the help page and an archive that cannot be opened) *)
Theorem lha_main_returns : forall mktime junk localtime now stdin_kind strerror argv stdin s,
  lt_ok localtime -> archive_ok argv stdin s -> nlen stdin < 1099511627776 ->
  exists r, lha_main mktime junk localtime now stdin_kind strerror argv stdin s = Ok r.
Proof. exact P_CliReturns.lha_main_returns. Qed.

(* the test case of the differential test; "plain": no set-up operations, the archive named *)
Theorem cli_run_returns : forall mktime strerror uid0 now mtime argv archive stdin setup,
  archive_ok argv stdin (cli_fs_init uid0 archive mtime setup) -> nlen stdin < 1099511627776 ->
  exists r, cli_run mktime gmtime_utc strerror uid0 now mtime argv archive stdin setup = Ok r.
Proof. exact P_CliReturns.cli_run_returns. Qed.

Theorem cli_run_returns_plain : forall mktime strerror uid0 now mtime progname cmd filters archive stdin,
  bytes_ok archive -> nlen archive < EXT_LIMIT -> nlen stdin < 1099511627776 ->
  exists r, cli_run mktime gmtime_utc strerror uid0 now mtime (progname :: cmd :: arc_path :: filters) archive stdin [] = Ok r.
Proof. exact P_CliReturns.cli_run_returns_plain. Qed.

(* what the theorems rest on: a header parsed from bytes declares less than 2^32 and took
   at least 22 bytes of the stream *)
Theorem header_takes_22_bytes : ltac:(let t := type of P_CliRetBytes.header_read_SW in exact t).
Proof. exact P_CliRetBytes.header_read_SW. Qed.

Print Assumptions next_file_returns.
Print Assumptions skip_returns.
Print Assumptions end_is_final.
Print Assumptions decode_read_returns.
Print Assumptions decode_stops_at_declared.
Print Assumptions next_file_work.
Print Assumptions listing_work_linear.
Print Assumptions listing_returns_within_budget.
Print Assumptions truncated_member_ends_archive.
Print Assumptions skip_truncated_after_header.
Print Assumptions heap_bound.
Print Assumptions header_growth_capped.
Print Assumptions largest_decoder_state.
Print Assumptions retained_headers_bound.
Print Assumptions list_commands_return.
Print Assumptions test_and_print_return.
Print Assumptions extract_returns.
Print Assumptions lha_main_returns.
Print Assumptions cli_run_returns.
Print Assumptions cli_run_returns_plain.
Print Assumptions header_takes_22_bytes.
(* ---- the number of members (P_MembersAll.v): at least two bytes of the stream per member
   for any stream contents; 22 bytes per member when the stream consists of bytes, so an
   archive of n bytes has at most n / 22 members ---- *)
From Lhasa Require P_MembersAll.
Theorem stream_headers_count : ltac:(let t := type of P_MembersAll.stream_headers_count in exact t).
Proof. exact P_MembersAll.stream_headers_count. Qed.
Theorem stream_headers_count_bytes : ltac:(let t := type of P_MembersAll.stream_headers_count_bytes in exact t).
Proof. exact P_MembersAll.stream_headers_count_bytes. Qed.
Theorem stream_headers_count_src : ltac:(let t := type of P_MembersAll.stream_headers_count_src in exact t).
Proof. exact P_MembersAll.stream_headers_count_src. Qed.
Print Assumptions stream_headers_count.
Print Assumptions stream_headers_count_bytes.
Print Assumptions stream_headers_count_src.

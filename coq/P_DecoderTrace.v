(* P_DecoderTrace.v -- lha_decoder_read, relationally and without any totality
   assumption: what a read that returned delivered, in terms of the chunks the
   inner decoder produced.  [T s c ob s' c'] is any relation that holds of the
   inner decoder's runs (reflexive, transitive, holds of one call); then across
   a read   buffer ++ ob = delivered ++ buffer'   for some ob with T. *)
From Lhasa Require Import Base ListN DecBase Loop Generated Crc16 Decoder P_Decoder P_ReaderCheck.
From Coq Require Import ZifyBool ZifyN ZifyNat.
Local Open Scope N_scope.

Set Default Timeout 60.

Lemma firstn_skipn_N {A} w (l : list A) : firstn_N w l ++ skipn_N w l = l.
Proof. rewrite firstn_N_eq, skipn_N_eq. apply firstn_skipn. Qed.

Section Trace.
  Context {cbs st : Type}.
  Variable dread : st -> cbs -> outcome (list N * st * cbs).
  Variable max_read block_size : N.
  Variable T : st -> cbs -> list N -> st -> cbs -> Prop.
  Hypothesis T_refl : forall s c, T s c [] s c.
  Hypothesis T_trans : forall s c x s1 c1 y s2 c2, T s c x s1 c1 -> T s1 c1 y s2 c2 -> T s c (x ++ y) s2 c2.
  Hypothesis T_dread : forall s c ch s' c', dread s c = Ok (ch, s', c') -> T s c ch s' c'.

  Notation dec := (@decoder cbs st).

  (* how the decoder d' came to be at its end: it was already (d), or a call just returned nothing *)
  Definition ended (d d' : dec) : Prop :=
    d_failed d' = true ->
    (d_failed d = true /\ d_inner d' = d_inner d) \/ exists s1 c1, dread s1 c1 = Ok ([], d_inner d', d_cb d').

  Lemma pull_trace k : forall w (d : dec) o d',
    pull dread max_read k w d = Some (o, d') ->
    exists ob, T (d_inner d) (d_cb d) ob (d_inner d') (d_cb d') /\ d_outbuf d ++ ob = o ++ d_outbuf d' /\
      ended d d'.
  Proof.
    induction k as [|k IH]; intros w d o d' H.
    - simpl in H. destruct (w =? 0); inversion H; subst. exists []. split; [apply T_refl|]. rewrite app_nil_r.
      split; [reflexivity|]. intros E. left. auto.
    - rewrite pull_S in H. cbv zeta in H.
      destruct (w =? 0). { inversion H; subst. exists []. split; [apply T_refl|]. rewrite app_nil_r.
                           split; [reflexivity|]. intros E. left. auto. }
      destruct (d_failed d) eqn:Ef.
      { inversion H; subst. exists []. cbn [set_buf d_inner d_cb d_outbuf]. split; [apply T_refl|].
        rewrite app_nil_r, firstn_skipn_N. split; [reflexivity|]. intros _. left. cbn [set_buf d_inner]. auto. }
      pose proof (firstn_skipn_N w (d_outbuf d)) as Hsplit.
      destruct (skipn_N w (d_outbuf d)) as [|y ys] eqn:Er.
      + destruct (dread (d_inner d) (d_cb d)) as [[[chunk inner'] c']| |] eqn:Ed; try discriminate.
        destruct (max_read <? nlen chunk); [discriminate|].
        destruct chunk as [|z zs].
        * inversion H; subst. exists []. cbn [set_buf d_inner d_cb d_outbuf]. split; [apply (T_dread _ _ _ _ _ Ed)|].
          rewrite !app_nil_r in *. split; [symmetry; exact Hsplit|]. intros _. right. cbn [set_buf d_inner d_cb]. eauto.
        * destruct (pull dread max_read k _ _) as [[o1 d1]|] eqn:Ep; [|discriminate]. inversion H; subst.
          apply IH in Ep. destruct Ep as (ob1 & HT & Hb & He). cbn [set_buf d_inner d_cb d_outbuf] in HT, Hb.
          exists ((z :: zs) ++ ob1). split; [eapply T_trans; [apply (T_dread _ _ _ _ _ Ed)|exact HT]|].
          rewrite app_nil_r in Hsplit. split.
          -- rewrite Hsplit, <- app_assoc. f_equal. exact Hb.
          -- intros E. destruct (He E) as [[A _]|B]; [cbn [set_buf d_failed] in A; discriminate|right; exact B].
      + destruct (pull dread max_read k _ _) as [[o1 d1]|] eqn:Ep; [|discriminate]. inversion H; subst.
        apply IH in Ep. destruct Ep as (ob1 & HT & Hb & He). cbn [set_buf d_inner d_cb d_outbuf] in HT, Hb.
        exists ob1. split; [exact HT|]. split.
        * rewrite <- Hsplit at 1. rewrite <- !app_assoc. f_equal. exact Hb.
        * intros E. destruct (He E) as [[A _]|B]; [cbn [set_buf d_failed] in A; discriminate|right; exact B].
  Qed.

  (* the buffer and the failure flag after a read are those the fill loop left *)
  Lemma read_fin_buf s o ev (d' : dec) : read_fin block_size s = Ok (o, ev, d') ->
    d_outbuf d' = d_outbuf (rl_d s) /\ d_failed d' = d_failed (rl_d s).
  Proof.
    unfold read_fin. cbv zeta. cbn [d_monitor]. intros H.
    destruct (d_monitor (rl_d s)).
    - unfold check_progress in H. inversion H; subst; clear H. split; reflexivity.
    - inversion H; subst; clear H. split; reflexivity.
  Qed.

  Lemma dec_read_ok_pull_buf (d : dec) n o ev d' :
    lha_decoder_read dread max_read block_size d n = Ok (o, ev, d') ->
    exists k d1, pull dread max_read k (clamp d n) d = Some (o, d1) /\
      d_stream_pos d' = d_stream_pos d + nlen o /\ d_stream_length d' = d_stream_length d /\
      d_cb d' = d_cb d1 /\ d_inner d' = d_inner d1 /\ d_outbuf d' = d_outbuf d1 /\ d_failed d' = d_failed d1.
  Proof.
    intros H0. pose proof (dec_read_ok_len_crc dread max_read block_size d n o ev d' H0) as (Hp & _ & Hl).
    rewrite dec_read_unfold in H0.
    destruct (loop (read_step dread max_read (clamp d n)) 64 {| rl_d := d; rl_out_rev := []; rl_filled := 0 |})
      as [s| |] eqn:El; cbn [bind] in H0; try discriminate.
    apply loop_sound in El. destruct El as (k & Hlp & _).
    apply loops_pull in Hlp; [|cbn [rl_filled]; lia].
    destruct Hlp as (o1 & P & Eo & Ef). cbn [rl_d rl_out_rev rl_filled] in P, Eo, Ef.
    rewrite N.sub_0_r in P. rewrite app_nil_r in Eo.
    pose proof (read_fin_buf _ _ _ _ H0) as [Hb Hf].
    apply read_fin_ok in H0. destruct H0 as (Ho & _ & _ & _ & Hcb & Hi).
    rewrite Eo, rev_involutive in Ho. subst o1.
    exists (S k), (rl_d s). auto 10.
  Qed.

  (* one read *)
  Theorem dec_read_trace (d : dec) n o ev d' :
    lha_decoder_read dread max_read block_size d n = Ok (o, ev, d') ->
    exists ob, T (d_inner d) (d_cb d) ob (d_inner d') (d_cb d') /\ d_outbuf d ++ ob = o ++ d_outbuf d' /\
      ended d d' /\
      d_stream_pos d' = d_stream_pos d + nlen o /\ d_stream_length d' = d_stream_length d /\
      nlen o <= clamp d n /\ (nlen o < clamp d n -> d_failed d' = true /\ d_outbuf d' = []).
  Proof.
    intros H. destruct (dec_read_ok_pull_buf d n o ev d' H) as (k & d1 & P & Hp & Hl & Hcb & Hi & Hb & Hf).
    destruct (pull_trace k _ d o d1 P) as (ob & HT & Hbuf & He).
    pose proof (pull_length dread max_read block_size k _ d o d1 P) as [L1 L2].
    exists ob. rewrite Hcb, Hi, Hb, Hf. split; [exact HT|]. split; [exact Hbuf|].
    split. { unfold ended in *. rewrite Hf, Hi, Hcb. exact He. }
    split; [exact Hp|]. split; [exact Hl|]. split; [exact L1|exact L2].
  Qed.
End Trace.

Print Assumptions dec_read_trace.

(* P_ReaderMembers.v -- property C15: the two-history theorem and the bytes of
   the next member, put together.

   Two callers walk the same archive with the same skeleton of OpNext and
   directory / symlink extractions and do what they like with the members in
   between (reads of any sizes, checks).  Then the next entry either caller
   obtains is the same, and if they both read it -- with any common schedule of
   read sizes -- or check it, they get the same bytes and the same verdict.

   Lemmas and theorems only. *)
From Lhasa Require Import Base DecBase ListN Loop Generated InputStream Header BasicReader AnyDecoder Decoder
  MacBinary Fs FsRun Reader P_Intact P_StreamEquiv P_BasicReaderIndep P_ReaderIndep P_ReaderIndepFull
  P_ReaderTwoHist P_ReaderBytes.
Local Open Scope N_scope.

Section Members.
  Variable mktime : N -> N -> N -> N -> Z -> N -> N.
  Variable junk : N.

  (* lha_reader_next_file leaves no decoder open *)
  Lemma next_file_closed r h r' : lha_reader_next_file mktime r = Ok (h, r') ->
    rd_decoder r' = None /\ rd_inner r' = IR_null.
  Proof.
    intros H. destruct (curr_type_eq_dec (rd_type r) CT_EOF) as [Te|Te].
    - rewrite next_file_unfold, Te in H. inversion H; subst. split; reflexivity.
    - destruct (next_file_presented mktime r h r' Te H) as (br1 & _ & _ & _ & _ & D & I). auto.
  Qed.

  Theorem two_histories_next_member l1 l2 r f xs1 r1' f1' xs2 r2' f2' h1 ra h2 rb :
    br_wf (rd_br r) -> (rd_type r <> CT_NORMAL -> rd_decoder r = None) ->
    skel l1 = skel l2 -> no_fs_writes l1 -> no_fs_writes l2 ->
    run_hops mktime junk (r, f) l1 = Ok (xs1, (r1', f1')) ->
    run_hops mktime junk (r, f) l2 = Ok (xs2, (r2', f2')) ->
    lha_reader_next_file mktime r1' = Ok (h1, ra) ->
    lha_reader_next_file mktime r2' = Ok (h2, rb) ->
    headers xs1 = headers xs2 /\ h1 = h2 /\ reader_equiv ra rb /\
    (forall sizes, orel (fun x y => fst x = fst y /\ rrel (snd x) (snd y)) (reads junk ra sizes) (reads junk rb sizes)) /\
    (forall mon, orel rres_rel (lha_reader_check junk ra mon) (lha_reader_check junk rb mon)).
  Proof.
    intros W Nn Sk K1 K2 H1 H2 Ea Eb.
    destruct (two_histories mktime junk l1 l2 r f _ _ _ _ _ _ W Nn Sk K1 K2 H1 H2) as (A & _ & _ & O).
    rewrite Ea, Eb in O. cbn [orel] in O. destruct O as (Eh & _ & _ & Re). cbn [fst snd] in Eh, Re.
    destruct (next_file_closed _ _ _ Ea) as [Da Ia].
    split; [exact A|]. split; [exact Eh|]. split; [exact Re|].
    split; [intros sizes; apply member_bytes_independent; assumption|].
    intros mon. apply member_check_independent; assumption.
  Qed.
End Members.

Example ex_two_histories_next_member :
  forall k xs1 r1 f1 xs2 r2 f2 h1 ra h2 rb,
  run_hops mktime_utc 0 (ex_reader k ex_arch2, ex_fs) [HNext; HDecode (DRead 2); HNext; HDecode (DCheck false)] = Ok (xs1, (r1, f1)) ->
  run_hops mktime_utc 0 (ex_reader k ex_arch2, ex_fs) [HNext; HNext] = Ok (xs2, (r2, f2)) ->
  lha_reader_next_file mktime_utc r1 = Ok (h1, ra) ->
  lha_reader_next_file mktime_utc r2 = Ok (h2, rb) ->
  h1 = h2 /\
  orel (fun x y => fst x = fst y /\ rrel (snd x) (snd y)) (reads 0 ra [3; 9]) (reads 0 rb [3; 9]).
Proof.
  intros k xs1 r1 f1 xs2 r2 f2 h1 ra h2 rb E1 E2 Ea Eb.
  destruct (new_reader_ok k ex_arch2 DIR_END_OF_DIR) as [W Nn]; [vm_compute; reflexivity|].
  destruct (two_histories_next_member mktime_utc 0
              [HNext; HDecode (DRead 2); HNext; HDecode (DCheck false)] [HNext; HNext]
              _ _ _ _ _ _ _ _ _ _ _ _ W Nn eq_refl eq_refl eq_refl E1 E2 Ea Eb) as (_ & Eh & _ & Rd & _).
  split; [exact Eh|apply Rd].
Qed.

(* ... and the hypotheses are met: the third member's bytes, for the four kinds of source *)
Example ex_two_histories_next_member_run :
  forall k,
  match run_hops mktime_utc 0 (ex_reader k ex_arch2, ex_fs) [HNext; HDecode (DRead 2); HNext; HDecode (DCheck false); HNext; HDecode (DRead 3); HDecode (DRead 9)],
        run_hops mktime_utc 0 (ex_reader k ex_arch2, ex_fs) [HNext; HNext; HNext; HDecode (DRead 3); HDecode (DRead 9)] with
  | Ok (xs1, _), Ok (xs2, _) =>
    skipn 5 xs1 = [ObsBytes [20; 21; 22]; ObsBytes [23; 24]] /\ skipn 3 xs2 = skipn 5 xs1
  | _, _ => False
  end.
Proof. intros k. destruct k; vm_compute; split; reflexivity. Qed.

Print Assumptions two_histories_next_member.
Print Assumptions ex_two_histories_next_member.
Print Assumptions ex_two_histories_next_member_run.

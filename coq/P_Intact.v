(* P_Intact.v -- property C12: a header whose own integrity data contradicts it
   is never handed to the caller, and iteration ends at the first such header.
   Lemmas and theorems only; the models are Header.v / BasicReader.v. *)
From Lhasa Require Import Base Sweep ListN Loop Generated Crc16 InputStream Header BasicReader.
From Coq Require Import ZifyBool ZifyN ZifyNat.
Local Open Scope N_scope.

(* ------------------------------------------------------------------ *)
(* The integrity predicate, stated on the returned header only.        *)

(* Two details differ from the first sketch of this predicate, both because
   the model's bytes are unbounded naturals and its header can be arbitrarily long:
   - level 1: the path-length and checksum rules are stated for headers of at
     most 2^32 - 1 bytes.  decode_extended_headers keeps its offset in an
     unsigned int; with 4 GiB of level-1 extended headers the offset wraps and
     the walk re-enters the base header, where a common-CRC header would zero two
     bytes of raw_data that the checksum covers (the checksum itself was tested
     on the bytes as read).  Below 4 GiB that cannot happen (proved here).
   - level 3: "raw[0] = 4, raw[1] = 0" is stated as: the little-endian 16-bit
     word at offset 0 is 4; [le16_is_4] turns this into the two byte values when
     the two entries are bytes. *)
Definition byte_sum (l : list N) : N := fold_left N.add l 0.
Definition is_dir (h : header) : bool := method_is h COMPRESS_TYPE_DIR.

Definition intact (h : header) : Prop :=
  let raw := h_raw h in
  h_level h <= 3 /\
  (* levels 0/1: length rules and checksum over the base header *)
  (h_level h <= 1 -> exists hl csum,
      nth_N raw 0 = Some hl /\ nth_N raw 1 = Some csum /\
      hl + 2 <= nlen raw /\
      (h_level h = 0 -> nlen raw = hl + 2) /\
      ((h_level h = 1 -> nlen raw <= 4294967295) -> exists nl,
         nth_N raw 21 = Some nl /\
         (if h_level h =? 0 then 22 else 25) + nl <= hl /\
         (byte_sum (firstn_N hl (skipn_N 2 raw))) mod 256 = csum)) /\
  (h_level h = 2 -> 26 <= nlen raw) /\
  (h_level h = 3 -> 32 <= nlen raw /\ nlen raw <= 1048576 /\
      exists b0 b1, nth_N raw 0 = Some b0 /\ nth_N raw 1 = Some b1 /\
                    u16 (N.lor b0 (N.shiftl b1 8)) = 4) /\
  (* common CRC: if one was seen, it equals the CRC-16 of the raw header with those fields zeroed *)
  (have_extra h FILE_COMMON_CRC = true -> lha_crc16_buf 0 raw = h_common_crc h) /\
  (* a file has a name; a directory (that is not a symlink) has a path *)
  (is_dir h = false -> h_filename h <> None) /\
  (is_dir h = true -> h_symlink_target h = None -> h_path h <> None).

(* ------------------------------------------------------------------ *)
(* Tactics                                                             *)

Ltac hs :=
  cbn [h_raw h_level h_method h_compressed_length h_length h_timestamp h_os_type h_crc
       h_filename h_path h_symlink_target h_extra_flags h_unix_perms h_unix_uid h_unix_gid
       h_os9_perms h_unix_username h_unix_group h_common_crc h_win_creation_time
       h_win_modification_time h_win_access_time
       set_raw set_level set_method set_clen set_length set_timestamp set_os_type set_crc
       set_filename set_path set_symlink_target set_extra_flags set_unix_perms set_unix_uid
       set_unix_gid set_os9_perms set_unix_username set_unix_group set_common_crc set_win_times
       add_flag header0] in *.

Tactic Notation "bind_inv" hyp(H) "as" simple_intropattern(p) ident(E) :=
  apply bind_ok in H; destruct H as [p [E H]]; cbv beta iota in H.

(* ------------------------------------------------------------------ *)
(* Lists                                                               *)

Lemma nth_N_app_l {A} (a b : list A) i : i < nlen a -> nth_N (a ++ b) i = nth_N a i.
Proof. intros H. unfold nth_N. apply nth_error_app1. unfold nlen in H. lia. Qed.

Lemma nth_error_firstn_lt {A} (l : list A) : forall k i, (i < k)%nat -> nth_error (firstn k l) i = nth_error l i.
Proof.
  induction l as [|x r IH]; intros k i H.
  - now rewrite firstn_nil.
  - destruct k as [|k]; [lia|]. destruct i as [|i]; [reflexivity|]. simpl. apply IH. lia.
Qed.

Lemma nth_N_firstn_N {A} (l : list A) k i : i < k -> nth_N (firstn_N k l) i = nth_N l i.
Proof. intros H. unfold nth_N. rewrite firstn_N_eq. apply nth_error_firstn_lt. lia. Qed.

Lemma nth_N_of_prefix {A} (l l' : list A) k i :
  firstn_N k l' = firstn_N k l -> i < k -> nth_N l' i = nth_N l i.
Proof. intros E H. rewrite <- (nth_N_firstn_N l' k i H), E. apply nth_N_firstn_N. exact H. Qed.

Lemma firstn_N_prefix_le {A} (l l' : list A) k j :
  firstn_N k l' = firstn_N k l -> j <= k -> firstn_N j l' = firstn_N j l.
Proof.
  intros E H. replace j with (N.min j k) by lia. rewrite <- !firstn_N_firstn_N. now rewrite E.
Qed.

Lemma firstn_N_app_self {A} (a b : list A) : firstn_N (nlen a) (a ++ b) = a.
Proof. rewrite firstn_N_app_l by lia. apply firstn_N_all. lia. Qed.

Lemma nlen_list_set l : forall i v, nlen (list_set l i v) = nlen l.
Proof.
  induction l as [|b r IH]; intros i v; cbn [list_set]; [reflexivity|].
  destruct (i =? 0); rewrite !nlen_cons; [reflexivity|]. now rewrite IH.
Qed.

Lemma firstn_N_list_set l : forall i v k, k <= i -> firstn_N k (list_set l i v) = firstn_N k l.
Proof.
  induction l as [|b r IH]; intros i v k H; cbn [list_set]; [reflexivity|].
  destruct (N.eqb_spec i 0) as [->|Hi].
  - assert (k = 0) by lia. subst. reflexivity.
  - cbn [firstn_N]. destruct (k =? 0) eqn:Ek; [reflexivity|]. f_equal. apply IH. lia.
Qed.

(* firstn_N hl (skipn_N 2 raw) only depends on the first hl+2 elements *)
Lemma firstn_skipn_of_prefix_nat {A} a : forall n (l l' : list A),
  firstn (a + n) l' = firstn (a + n) l -> firstn n (skipn a l') = firstn n (skipn a l).
Proof.
  induction a as [|a IH]; intros n l l' E; [exact E|].
  destruct l' as [|x' l']; destruct l as [|x l]; cbn [plus firstn skipn] in *; try discriminate; [reflexivity|].
  injection E as _ E. apply IH. exact E.
Qed.

Lemma firstn_skipn_of_prefix {A} (l l' : list A) a n :
  firstn_N (a + n) l' = firstn_N (a + n) l -> firstn_N n (skipn_N a l') = firstn_N n (skipn_N a l).
Proof.
  rewrite !firstn_N_eq, !skipn_N_eq. replace (N.to_nat (a + n)) with (N.to_nat a + N.to_nat n)%nat by lia.
  apply firstn_skipn_of_prefix_nat.
Qed.

(* ------------------------------------------------------------------ *)
(* Loops: an invariant carried along a terminating run                 *)

Lemma loops_inv {S R} (step : S -> outcome (S + R)) (I : S -> Prop) (Q : R -> Prop) :
  (forall s s', I s -> step s = Ok (inl s') -> I s') ->
  (forall s r, I s -> step s = Ok (inr r) -> Q r) ->
  forall n s r, loops step n s r -> I s -> Q r.
Proof.
  intros Hc He n. induction n as [|n IH]; intros s r Hl Hi; inversion Hl; subst.
  - eapply He; eauto.
  - eapply IH; eauto.
Qed.

Lemma loop_inv {S R} (step : S -> outcome (S + R)) (I : S -> Prop) (Q : R -> Prop) k s r :
  (forall s s', I s -> step s = Ok (inl s') -> I s') ->
  (forall s r, I s -> step s = Ok (inr r) -> Q r) ->
  loop step k s = Ok r -> I s -> Q r.
Proof.
  intros Hc He Hl Hi. apply loop_sound in Hl. destruct Hl as (n & Hl & _).
  eapply loops_inv; eauto.
Qed.

(* ------------------------------------------------------------------ *)
(* Reads                                                               *)

Lemma raw_at_inv site raw i b : raw_at site raw i = Ok b -> nth_N raw i = Some b.
Proof. unfold raw_at. destruct (nth_N raw i); intros E; inversion E. reflexivity. Qed.

Lemma dec_u16_inv site raw i v : dec_u16 site raw i = Ok v ->
  exists b0 b1, nth_N raw i = Some b0 /\ nth_N raw (i + 1) = Some b1 /\ v = u16 (N.lor b0 (N.shiftl b1 8)).
Proof.
  unfold dec_u16. intros H. bind_inv H as b0 E0. bind_inv H as b1 E1.
  apply raw_at_inv in E0, E1. inversion H. eauto.
Qed.

Lemma read_ready_len st n bytes st' : read_ready st n = (Some bytes, st') -> nlen bytes = n.
Proof.
  unfold read_ready. destruct (is_state st); try discriminate.
  - destruct (N.ltb_spec (nlen (firstn_N n (is_leadin st))) n) as [L|L].
    + destruct (raw_read (is_src st) (n - nlen (firstn_N n (is_leadin st)))) as [got src'].
      destruct (N.eqb_spec (nlen (firstn_N n (is_leadin st)) + nlen got) n) as [E|E]; intros H; inversion H.
      rewrite nlen_app. exact E.
    + intros H; inversion H; subst. rewrite nlen_firstn_N in *. lia.
  - destruct (N.ltb_spec (nlen (firstn_N n (is_leadin st))) n) as [L|L].
    + destruct (raw_read (is_src st) (n - nlen (firstn_N n (is_leadin st)))) as [got src'].
      destruct (N.eqb_spec (nlen (firstn_N n (is_leadin st)) + nlen got) n) as [E|E]; intros H; inversion H.
      rewrite nlen_app. exact E.
    + intros H; inversion H; subst. rewrite nlen_firstn_N in *. lia.
Qed.

Lemma stream_read_len st n bytes st' :
  lha_input_stream_read st n = Ok (Some bytes, st') -> nlen bytes = n.
Proof.
  unfold lha_input_stream_read. intros H. bind_inv H as st1 E. inversion H as [H1].
  eapply read_ready_len; eauto.
Qed.

Lemma extend_raw_data_inv h st n h' st' :
  extend_raw_data h st n = Ok (Some h', st') ->
  exists bytes, h' = set_raw h (h_raw h ++ bytes) /\ nlen bytes = n /\ n <= hdr_LEVEL_3_MAX_HEADER_LEN.
Proof.
  unfold extend_raw_data. destruct (N.ltb_spec hdr_LEVEL_3_MAX_HEADER_LEN n) as [L|L]; [discriminate|].
  intros H. bind_inv H as [r st1] E. destruct r as [bytes|]; inversion H; subst.
  exists bytes. split; [reflexivity|]. split; [|exact L]. eapply stream_read_len; eauto.
Qed.

(* ------------------------------------------------------------------ *)
(* Frames: what a step may change of raw_data and header_level          *)

(* nothing *)
Definition same_rl (h h' : header) : Prop := h_raw h' = h_raw h /\ h_level h' = h_level h.
(* bytes appended *)
Definition app_frame (h h' : header) : Prop :=
  h_level h' = h_level h /\ exists b, h_raw h' = h_raw h ++ b.
(* bytes at offsets >= start rewritten in place *)
Definition ext_frame (start : N) (h h' : header) : Prop :=
  h_level h' = h_level h /\ nlen (h_raw h') = nlen (h_raw h) /\
  forall k, k <= start -> firstn_N k (h_raw h') = firstn_N k (h_raw h).

Lemma same_rl_refl h : same_rl h h. Proof. split; reflexivity. Qed.
Lemma same_rl_trans h1 h2 h3 : same_rl h1 h2 -> same_rl h2 h3 -> same_rl h1 h3.
Proof. intros [A B] [C D]. split; congruence. Qed.

Lemma app_frame_refl h : app_frame h h.
Proof. split; [reflexivity|]. exists []. now rewrite app_nil_r. Qed.
Lemma app_frame_trans h1 h2 h3 : app_frame h1 h2 -> app_frame h2 h3 -> app_frame h1 h3.
Proof.
  intros [A (b & B)] [C (c & D)]. split; [congruence|]. exists (b ++ c). rewrite D, B. now rewrite app_assoc.
Qed.

Lemma ext_frame_refl a h : ext_frame a h h.
Proof. repeat split; reflexivity. Qed.
Lemma ext_frame_trans a b c h1 h2 h3 :
  ext_frame a h1 h2 -> ext_frame b h2 h3 -> c <= a -> c <= b -> ext_frame c h1 h3.
Proof.
  intros (A1 & A2 & A3) (B1 & B2 & B3) Ha Hb. split; [congruence|]. split; [congruence|].
  intros k Hk. rewrite B3 by lia. apply A3. lia.
Qed.
Lemma same_rl_ext_frame a h h' : same_rl h h' -> ext_frame a h h'.
Proof. intros [A B]. unfold ext_frame. rewrite A, B. repeat split; reflexivity. Qed.

(* ---- ext_header.c ---- *)
Lemma find_ext_in nums : forall mins ids num m i,
  find_ext nums mins ids num = Some (m, i) -> In i ids.
Proof.
  induction nums as [|n nr IH]; intros mins ids num m i H; cbn [find_ext] in H; [discriminate|].
  destruct mins as [|m' mr]; [discriminate|]. destruct ids as [|i' ir]; [discriminate|].
  destruct (n =? num).
  - inversion H; subst. left. reflexivity.
  - right. eapply IH; eauto.
Qed.

Ltac ext_simple H :=
  repeat (apply bind_ok in H; destruct H as (? & _ & H); cbv beta in H);
  injection H as <-; unfold ext_frame; hs; repeat split; reflexivity.

Lemma ext_decode_frame h id start dl h' :
  In id ext_header_decoder_ids -> ext_decode h id start dl = Ok h' -> ext_frame start h h'.
Proof.
  unfold ext_header_decoder_ids. cbn [In]. intros Hin H.
  destruct Hin as [<-|[<-|[<-|[<-|[<-|[<-|[<-|[<-|[<-|[<-|[]]]]]]]]]]];
    unfold ext_decode in H; cbv beta iota zeta in H; try solve [ext_simple H].
  apply bind_ok in H. destruct H as (v & _ & H).
  destruct (N.ltb_spec (start + 1) (nlen (h_raw h))) as [L|L]; [|discriminate].
  injection H as <-. unfold ext_frame; hs. split; [reflexivity|]. split.
  - now rewrite !nlen_list_set.
  - intros k Hk. rewrite !firstn_N_list_set by lia. reflexivity.
Qed.

Lemma lha_ext_header_decode_frame h num start dl h' :
  lha_ext_header_decode h num start dl = Ok h' -> ext_frame start h h'.
Proof.
  unfold lha_ext_header_decode.
  destruct (find_ext ext_header_nums ext_header_min_lens ext_header_decoder_ids num) as [[m i]|] eqn:F.
  - apply find_ext_in in F. destruct (dl <? m).
    + intros H; inversion H. apply ext_frame_refl.
    + intros H. eapply ext_decode_frame; eauto.
  - intros H; inversion H. apply ext_frame_refl.
Qed.

(* ---- decode_extended_headers ---- *)
Lemma u32_small x : x < 4294967296 -> u32 x = x.
Proof.
  intros H. unfold u32. change 4294967295 with (N.ones 32). rewrite N.land_ones.
  apply N.mod_small. exact H.
Qed.

Lemma usub64_le a b : b <= a -> usub64 a b = a - b.
Proof. intros H. unfold usub64. destruct (N.leb_spec b a); [reflexivity|lia]. Qed.

Lemma ext_step_continue fs h off av h' off' av' :
  ext_step fs (h, off, av) = Ok (inl (h', off', av')) ->
  ext_frame (off + fs + 1) h h' /\
  exists len, fs + 1 <= len /\ len <= av /\ off' = u32 (off + len) /\ av' = av - len.
Proof.
  unfold ext_step. destruct (off <=? usub64 (nlen (h_raw h)) fs); [|discriminate].
  intros H. bind_inv H as len E.
  destruct (len =? 0); [discriminate|].
  destruct (N.ltb_spec len (fs + 1)) as [L1|L1]; cbn [orb] in H; [discriminate|].
  destruct (N.ltb_spec av len) as [L2|L2]; [discriminate|].
  bind_inv H as num En. bind_inv H as h1 Eh. inversion H; subst.
  split; [eapply lha_ext_header_decode_frame; eauto|].
  exists len. repeat split; auto. apply usub64_le. exact L2.
Qed.

Lemma ext_step_exit fs h off av ok h' :
  ext_step fs (h, off, av) = Ok (inr (ok, h')) -> h' = h.
Proof.
  unfold ext_step. destruct (off <=? usub64 (nlen (h_raw h)) fs); [|intros H; inversion H; reflexivity].
  intros H. bind_inv H as len E.
  destruct (len =? 0); [inversion H; reflexivity|].
  destruct ((len <? fs + 1) || (av <? len)); [inversion H; reflexivity|].
  bind_inv H as num En. bind_inv H as h1 Eh. discriminate.
Qed.

(* unconditional: level and length are kept, and so are the first 3 bytes *)
Lemma decode_extended_headers_frame3 h off ok h' :
  decode_extended_headers h off = Ok (ok, h') -> ext_frame 3 h h'.
Proof.
  unfold decode_extended_headers. set (fs := if h_level h =? 3 then 4 else 2).
  assert (Hfs : 2 <= fs) by (unfold fs; destruct (h_level h =? 3); lia).
  intros H.
  apply (loop_inv (ext_step fs) (fun s => ext_frame 3 h (fst (fst s))) (fun r => ext_frame 3 h (snd r))) in H; auto.
  - intros [[h1 o1] a1] [[h2 o2] a2] I E. cbn [fst] in *.
    apply ext_step_continue in E. destruct E as [F _].
    eapply ext_frame_trans; eauto; lia.
  - intros [[h1 o1] a1] [ok1 h2] I E. cbn [fst snd] in *.
    apply ext_step_exit in E. now subst.
  - apply ext_frame_refl.
Qed.

(* when the header is shorter than 4 GiB the offset never wraps, so everything
   up to and including the first extended header's type byte is kept *)
Lemma decode_extended_headers_frame_strong h off ok h' :
  h_level h <> 3 ->
  off + 2 <= nlen (h_raw h) ->
  nlen (h_raw h) <= 4294967295 ->
  decode_extended_headers h off = Ok (ok, h') ->
  ext_frame (off + 3) h h'.
Proof.
  intros Hlvl Hin Hlen. unfold decode_extended_headers.
  destruct (N.eqb_spec (h_level h) 3) as [|_]; [contradiction|].
  set (L := nlen (h_raw h)) in *.
  intros H.
  apply (loop_inv (ext_step 2)
      (fun s => let '(h1, o1, a1) := s in ext_frame (off + 3) h h1 /\ off <= o1 /\ o1 + a1 + 2 <= L)
      (fun r => ext_frame (off + 3) h (snd r))) in H; auto.
  - intros [[h1 o1] a1] [[h2 o2] a2] (I1 & I2 & I3) E.
    apply ext_step_continue in E. destruct E as (F & len & G1 & G2 & G3 & G4).
    rewrite u32_small in G3 by lia. subst o2 a2.
    split; [eapply ext_frame_trans; eauto; lia|]. lia.
  - intros [[h1 o1] a1] [ok1 h2] (I1 & I2 & I3) E. cbn [snd].
    apply ext_step_exit in E. now subst.
  - split; [apply ext_frame_refl|]. split; [lia|].
    rewrite (usub64_le L off) by lia. rewrite usub64_le by lia. lia.
Qed.

(* ---- read_l1_extended_headers: only appends ---- *)
Lemma extend_app_frame h st n h' st' : extend_raw_data h st n = Ok (Some h', st') -> app_frame h h'.
Proof.
  intros H. apply extend_raw_data_inv in H. destruct H as (b & -> & _).
  split; hs; [reflexivity|]. eauto.
Qed.

Lemma l1_step_frame h st x :
  l1_step (h, st) = Ok x ->
  app_frame h (match x with inl (h', _) => h' | inr (_, h', _) => h' end).
Proof.
  unfold l1_step. intros H. bind_inv H as len E.
  destruct (len =? 0); [inversion H; apply app_frame_refl|].
  bind_inv H as [r st'] Ex. destruct r as [h1|]; [|inversion H; apply app_frame_refl].
  apply extend_app_frame in Ex.
  assert (F : app_frame h (set_clen h1 (h_compressed_length h1 - len))).
  { destruct Ex as [A (b & B)]. split; hs; eauto. }
  destruct (h_compressed_length h1 <? len); [inversion H; exact Ex|].
  destruct (len <? 3); inversion H; exact F.
Qed.

Lemma read_l1_extended_headers_frame h st ok h' st' :
  read_l1_extended_headers h st = Ok (ok, h', st') -> app_frame h h'.
Proof.
  unfold read_l1_extended_headers. intros H.
  apply (loop_inv l1_step (fun s => app_frame h (fst s)) (fun r => app_frame h (snd (fst r)))) in H; auto.
  - intros [h1 s1] [h2 s2] I E. apply l1_step_frame in E. cbn [fst] in *. eapply app_frame_trans; eauto.
  - intros [h1 s1] [[ok1 h2] s2] I E. apply l1_step_frame in E. cbn [fst snd] in *. eapply app_frame_trans; eauto.
  - apply app_frame_refl.
Qed.

(* ---- level 0 helpers keep raw_data and level ---- *)
Lemma split_header_filename_same h : same_rl h (split_header_filename h).
Proof.
  unfold split_header_filename. destruct (h_filename h); [|apply same_rl_refl].
  destruct (last_index l 47 0 None); [|apply same_rl_refl]. split; reflexivity.
Qed.

Lemma process_level0_path_same h d : same_rl h (process_level0_path h d).
Proof.
  unfold process_level0_path. destruct d; [apply same_rl_refl|].
  eapply same_rl_trans; [|apply split_header_filename_same]. split; reflexivity.
Qed.

Lemma process_level0_extended_area_same h s l h' :
  process_level0_extended_area h s l = Ok h' -> same_rl h h'.
Proof.
  unfold process_level0_extended_area.
  destruct (bytes_eqb _ _); [intros H; inversion H; apply same_rl_refl|].
  intros H. bind_inv H as d0 E0.
  destruct ((d0 =? OS_TYPE_UNIX) || (d0 =? OS_TYPE_OS9_68K)).
  - unfold process_level0_unix_area in H.
    destruct (l <? hdr_LEVEL_0_UNIX_EXTENDED_LEN); [inversion H; apply same_rl_refl|].
    bind_inv H as d1 E1. destruct (negb (d1 =? 0)); [inversion H; apply same_rl_refl|].
    repeat (apply bind_ok in H; destruct H as (? & _ & H); cbv beta in H).
    inversion H. split; reflexivity.
  - destruct (d0 =? OS_TYPE_OS9); [|inversion H; apply same_rl_refl].
    unfold process_level0_os9_area in H.
    destruct (l <? hdr_LEVEL_0_OS9_EXTENDED_LEN); [inversion H; apply same_rl_refl|].
    do 5 (apply bind_ok in H; destruct H as (? & _ & H); cbv beta in H).
    match type of H with (if ?c then _ else _) = _ => destruct c end; [inversion H; apply same_rl_refl|].
    apply bind_ok in H; destruct H as (? & _ & H). inversion H. split; reflexivity.
Qed.

(* ---- decode_level0_header ---- *)
Lemma checksum_mod bytes csum :
  check_l0_checksum bytes csum = true -> byte_sum bytes mod 256 = csum.
Proof.
  unfold check_l0_checksum, byte_sum, u32. intros H. apply N.eqb_eq in H.
  change 255 with (N.ones 8) in H. change 4294967295 with (N.ones 32) in H.
  rewrite !N.land_ones in H. rewrite <- H.
  set (x := fold_left N.add bytes 0).
  change (2 ^ 32) with (2 ^ 8 * 16777216).
  rewrite (N.mod_mul_r x (2 ^ 8) 16777216) by (vm_compute; discriminate).
  rewrite (N.mul_comm (2 ^ 8)). rewrite N.mod_add by (vm_compute; discriminate).
  change (2 ^ 8) with 256. symmetry. apply N.mod_mod. discriminate.
Qed.

Definition l01_facts (lvl : N) (raw : list N) (hl csum nl : N) : Prop :=
  nth_N raw 0 = Some hl /\ nth_N raw 1 = Some csum /\ nth_N raw 21 = Some nl /\
  (if lvl =? 0 then 22 else 25) + nl <= hl /\
  byte_sum (firstn_N hl (skipn_N 2 raw)) mod 256 = csum.

Lemma decode_level0_ok mktime h st h1 st1 :
  nlen (h_raw h) = 22 ->
  decode_level0_header mktime h st = Ok (true, h1, st1) ->
  h_level h1 = h_level h /\ h_level h <= 1 /\
  exists hl csum nl, l01_facts (h_level h) (h_raw h1) hl csum nl /\ nlen (h_raw h1) = hl + 2.
Proof.
  intros L22 H. unfold decode_level0_header in H.
  bind_inv H as hl E0. bind_inv H as csum E1.
  apply raw_at_inv in E0, E1.
  set (min_len := if h_level h =? 0 then hdr_LEVEL_0_MIN_HEADER_LEN else hdr_LEVEL_1_MIN_HEADER_LEN) in *.
  destruct (negb ((h_level h =? 0) || (h_level h =? 1))) eqn:Elv; [discriminate|].
  assert (Hlv : h_level h <= 1) by lia.
  destruct (N.ltb_spec hl min_len) as [Lm|Lm]; [discriminate|].
  assert (Hmin : min_len = if h_level h =? 0 then 22 else 25) by reflexivity.
  assert (H22 : 22 <= min_len) by (rewrite Hmin; destruct (h_level h =? 0); lia).
  bind_inv H as [r st2] Ex. destruct r as [h2|]; [|discriminate].
  apply extend_raw_data_inv in Ex. destruct Ex as (bytes & -> & Lb & _).
  rewrite usub64_le in Lb by lia. hs.
  set (raw := h_raw h ++ bytes) in *.
  assert (Lraw : nlen raw = hl + 2) by (unfold raw; rewrite nlen_app; lia).
  bind_inv H as body Eb. unfold raw_slice in Eb.
  destruct (2 + usub64 (nlen raw) 2 <=? nlen raw); [|discriminate]. inversion Eb as [Eb']; clear Eb.
  rewrite usub64_le in Eb' by lia. replace (nlen raw - 2) with hl in Eb' by lia.
  destruct (check_l0_checksum body csum) eqn:Ec; cbn [negb] in H; [|discriminate].
  apply checksum_mod in Ec. rewrite <- Eb' in Ec.
  bind_inv H as m Em. bind_inv H as clen Ecl. bind_inv H as len El. bind_inv H as ft Eft.
  cbv zeta in H. bind_inv H as nl Enl. apply raw_at_inv in Enl.
  destruct (N.ltb_spec hl (min_len + nl)) as [Lp|Lp]; [discriminate|].
  bind_inv H as os Eos. cbv zeta in H. bind_inv H as pdata Ep. bind_inv H as crc Ecrc.
  assert (Facts : l01_facts (h_level h) raw hl csum nl).
  { unfold l01_facts. split; [|split; [|split; [|split]]].
    - unfold raw. rewrite nth_N_app_l by lia. exact E0.
    - unfold raw. rewrite nth_N_app_l by lia. exact E1.
    - exact Enl.
    - rewrite <- Hmin. exact Lp.
    - exact Ec. }
  match type of H with context [process_level0_path ?a ?b] =>
    pose proof (process_level0_path_same a b) as [P1 P2]; hs;
    set (h4 := process_level0_path a b) in * end.
  match type of H with (if ?c then _ else _) = _ => destruct c end.
  - bind_inv H as h6 E6. apply process_level0_extended_area_same in E6. destruct E6 as [Q1 Q2]. hs.
    inversion H; subst h6 st2. rewrite Q1, Q2, P1, P2.
    split; [reflexivity|]. split; [exact Hlv|]. exists hl, csum, nl. split; assumption.
  - inversion H; subst h1 st2. hs. rewrite P1, P2.
    split; [reflexivity|]. split; [exact Hlv|]. exists hl, csum, nl. split; assumption.
Qed.

(* ---- decode_level1_header ---- *)
Lemma decode_level1_ok mktime h st h3 st3 :
  nlen (h_raw h) = 22 -> h_level h = 1 ->
  decode_level1_header mktime h st = Ok (true, h3, st3) ->
  h_level h3 = 1 /\
  exists hl csum, nth_N (h_raw h3) 0 = Some hl /\ nth_N (h_raw h3) 1 = Some csum /\
    hl + 2 <= nlen (h_raw h3) /\
    (nlen (h_raw h3) <= 4294967295 -> exists nl, l01_facts 1 (h_raw h3) hl csum nl).
Proof.
  intros L22 Hl1 H. unfold decode_level1_header in H.
  bind_inv H as [[ok h1] st1] E0. destruct (negb ok) eqn:Eok; [discriminate|].
  apply negb_false_iff in Eok. subst ok.
  apply decode_level0_ok in E0; [|exact L22].
  destruct E0 as (Lv1 & _ & hl & csum & nl & (F0 & F1 & F21 & Fmin & Fsum) & Lraw1).
  rewrite Hl1 in *. change (1 =? 0) with false in Fmin. cbv iota in Fmin.
  bind_inv H as [[ok2 h2] st2] E1. destruct (negb ok2) eqn:Eok2; [discriminate|].
  apply negb_false_iff in Eok2. subst ok2.
  apply read_l1_extended_headers_frame in E1. destruct E1 as [Lv2 (b & Raw2)].
  bind_inv H as [ok3 h3'] E2. inversion H; subst ok3 h3' st3. clear H.
  pose proof (decode_extended_headers_frame3 _ _ _ _ E2) as (Lv3 & Len3 & Pre3).
  assert (Len2 : nlen (h_raw h2) = hl + 2 + nlen b) by (rewrite Raw2, nlen_app; lia).
  split; [congruence|]. exists hl, csum.
  assert (N0 : nth_N (h_raw h3) 0 = Some hl).
  { rewrite (nth_N_of_prefix (h_raw h2) (h_raw h3) 3 0) by (first [lia | apply Pre3; lia]).
    rewrite Raw2, nth_N_app_l by lia. exact F0. }
  assert (N1 : nth_N (h_raw h3) 1 = Some csum).
  { rewrite (nth_N_of_prefix (h_raw h2) (h_raw h3) 3 1) by (first [lia | apply Pre3; lia]).
    rewrite Raw2, nth_N_app_l by lia. exact F1. }
  split; [exact N0|]. split; [exact N1|]. split; [lia|].
  intros Hsmall. exists nl.
  assert (Es : u32 (usub64 (nlen (h_raw h1)) 2) = hl).
  { rewrite usub64_le by lia. rewrite u32_small by lia. lia. }
  rewrite Es in E2.
  apply decode_extended_headers_frame_strong in E2; [|rewrite Lv2, Lv1; discriminate|lia|lia].
  destruct E2 as (_ & _ & Pre).
  assert (P : firstn_N (2 + hl) (h_raw h3) = firstn_N (2 + hl) (h_raw h1)).
  { rewrite Pre by lia. rewrite Raw2. replace (2 + hl) with (nlen (h_raw h1)) by lia.
    rewrite firstn_N_app_self. symmetry. apply firstn_N_all. lia. }
  unfold l01_facts. split; [exact N0|]. split; [exact N1|]. split; [|split].
  - rewrite (nth_N_of_prefix (h_raw h1) (h_raw h3) (2 + hl) 21) by (first [lia | exact P]). exact F21.
  - exact Fmin.
  - rewrite (firstn_skipn_of_prefix (h_raw h1) (h_raw h3) 2 hl P). exact Fsum.
Qed.

(* ---- levels 2 and 3 ---- *)
Lemma decode_l23_fields_same h h' : decode_l23_fields h = Ok h' -> same_rl h h'.
Proof.
  unfold decode_l23_fields. intros H. cbv zeta in H.
  repeat (apply bind_ok in H; destruct H as (? & _ & H); cbv beta in H).
  inversion H. split; reflexivity.
Qed.

Lemma decode_level2_ok h st h4 st3 :
  nlen (h_raw h) = 22 ->
  decode_level2_header h st = Ok (true, h4, st3) ->
  h_level h4 = h_level h /\ 26 <= nlen (h_raw h4).
Proof.
  intros L22 H. unfold decode_level2_header in H.
  bind_inv H as hl E0.
  destruct (N.ltb_spec hl hdr_LEVEL_2_HEADER_LEN) as [Lm|Lm]; [discriminate|].
  change hdr_LEVEL_2_HEADER_LEN with 26 in Lm.
  bind_inv H as [r st1] Ex. destruct r as [h1|]; [|discriminate].
  apply extend_raw_data_inv in Ex. destruct Ex as (bytes & -> & Lb & _).
  rewrite usub64_le in Lb by lia.
  bind_inv H as h2 E2. apply decode_l23_fields_same in E2. destruct E2 as [R2 V2]. hs.
  bind_inv H as [r3 st3'] E3. destruct r3 as [h3|]; [|discriminate].
  bind_inv H as [ok h4'] E4. inversion H; subst ok h4' st3'. clear H.
  apply decode_extended_headers_frame3 in E4. destruct E4 as (V4 & N4 & _).
  assert (A : app_frame h2 h3).
  { destruct (h_os_type h2 =? OS_TYPE_OS9_68K).
    - eapply extend_app_frame; eauto.
    - inversion E3. apply app_frame_refl. }
  destruct A as [V3 (b & R3)].
  split; [congruence|]. rewrite N4, R3, R2, !nlen_app. lia.
Qed.

Lemma decode_level3_ok h st h4 st3 :
  nlen (h_raw h) = 22 ->
  decode_level3_header h st = Ok (true, h4, st3) ->
  h_level h4 = h_level h /\ 32 <= nlen (h_raw h4) /\ nlen (h_raw h4) <= 1048576 /\
  exists b0 b1, nth_N (h_raw h4) 0 = Some b0 /\ nth_N (h_raw h4) 1 = Some b1 /\
                u16 (N.lor b0 (N.shiftl b1 8)) = 4.
Proof.
  intros L22 H. unfold decode_level3_header in H.
  bind_inv H as ws E0. apply dec_u16_inv in E0. destruct E0 as (b0 & b1 & B0 & B1 & Ews).
  destruct (negb (ws =? 4)) eqn:W; [discriminate|]. apply negb_false_iff, N.eqb_eq in W.
  bind_inv H as [r st1] Ex. destruct r as [h1|]; [|discriminate].
  apply extend_raw_data_inv in Ex. destruct Ex as (bytes & -> & Lb & _).
  change hdr_LEVEL_3_HEADER_LEN with 32 in Lb. rewrite usub64_le in Lb by lia. hs.
  bind_inv H as hlen E1.
  match type of H with (if ?c then _ else _) = _ => destruct c eqn:M end; [discriminate|].
  apply orb_false_iff in M. destruct M as [M1 M2]. apply N.ltb_ge in M1, M2.
  change hdr_LEVEL_3_MAX_HEADER_LEN with 1048576 in M1. rewrite nlen_app in M2.
  bind_inv H as [r2 st2] Ex2. destruct r2 as [h2|]; [|discriminate].
  apply extend_raw_data_inv in Ex2. destruct Ex2 as (bytes2 & -> & Lb2 & _). hs.
  rewrite nlen_app in Lb2.
  bind_inv H as h3 E3. apply decode_l23_fields_same in E3. destruct E3 as [R3 V3]. hs.
  bind_inv H as [ok h4'] E4. inversion H; subst ok h4' st3. clear H.
  apply decode_extended_headers_frame3 in E4. destruct E4 as (V4 & N4 & P4).
  assert (Len : nlen (h_raw h4) = hlen) by (rewrite N4, R3, !nlen_app; lia).
  split; [congruence|]. split; [lia|]. split; [lia|].
  exists b0, b1.
  split; [|split; [|congruence]].
  - rewrite (nth_N_of_prefix (h_raw h3) (h_raw h4) 3 0) by (first [lia | apply P4; lia]).
    rewrite R3, <- app_assoc, nth_N_app_l by lia. exact B0.
  - rewrite (nth_N_of_prefix (h_raw h3) (h_raw h4) 3 1) by (first [lia | apply P4; lia]).
    rewrite R3, <- app_assoc, nth_N_app_l by lia. exact B1.
Qed.

(* ------------------------------------------------------------------ *)
(* The fix-ups after the level decoders                                *)

Lemma bytes_eqb_eq a : forall b, bytes_eqb a b = true -> a = b.
Proof.
  unfold bytes_eqb. induction a as [|x a IH]; intros [|y b] H; try reflexivity.
  - apply andb_true_iff in H. destruct H as [H _]. apply N.eqb_eq in H. rewrite nlen_cons, nlen_nil in H. lia.
  - apply andb_true_iff in H. destruct H as [H _]. apply N.eqb_eq in H. rewrite nlen_cons, nlen_nil in H. lia.
  - apply andb_true_iff in H. destruct H as [H1 H2]. cbn [combine forallb fst snd] in H2.
    apply andb_true_iff in H2. destruct H2 as [H2 H3]. apply N.eqb_eq in H1, H2.
    rewrite !nlen_cons in H1. subst y. f_equal. apply IH.
    apply andb_true_iff. split; [apply N.eqb_eq; lia|exact H3].
Qed.

Lemma cstr_cons_inv m a t : cstr m = a :: t -> exists m', m = a :: m' /\ cstr m' = t.
Proof.
  destruct m as [|b r]; cbn [cstr]; [discriminate|]. destruct (b =? 0); [discriminate|].
  intros H; inversion H; subst. eauto.
Qed.

Lemma lh7_not_dir m :
  bytes_eqb (firstn 5 (cstr m)) [45; 108; 104; 55; 45] = true ->
  bytes_eqb (cstr m) COMPRESS_TYPE_DIR = false /\
  bytes_eqb (cstr (list_set m 2 107)) COMPRESS_TYPE_DIR = false.
Proof.
  intros H. apply bytes_eqb_eq in H.
  destruct (cstr m) as [|a [|b [|c [|d [|e r]]]]] eqn:E; cbn [firstn] in H; try discriminate.
  inversion H; subst. clear H.
  apply cstr_cons_inv in E. destruct E as (m1 & -> & E).
  apply cstr_cons_inv in E. destruct E as (m2 & -> & E).
  apply cstr_cons_inv in E. destruct E as (m3 & -> & E).
  split.
  - destruct (bytes_eqb _ _) eqn:B; [|reflexivity]. apply bytes_eqb_eq in B.
    discriminate.
  - change (list_set (45 :: 108 :: 104 :: m3) 2 107) with (45 :: 108 :: 107 :: m3).
    destruct (bytes_eqb _ _) eqn:B; [|reflexivity]. apply bytes_eqb_eq in B.
    change (cstr (45 :: 108 :: 107 :: m3)) with (45 :: 108 :: 107 :: cstr m3) in B. discriminate.
Qed.

(* what the fix-ups between the level decoder and the CRC test keep *)
Definition keep (h h' : header) : Prop :=
  h_raw h' = h_raw h /\ h_level h' = h_level h /\ h_method h' = h_method h /\
  h_symlink_target h' = h_symlink_target h /\
  (h_filename h <> None -> h_filename h' <> None) /\
  (h_path h <> None -> h_path h' <> None).

Lemma keep_refl h : keep h h.
Proof. unfold keep. repeat split; auto. Qed.
Lemma keep_trans h1 h2 h3 : keep h1 h2 -> keep h2 h3 -> keep h1 h3.
Proof.
  intros (A1 & A2 & A3 & A4 & A5 & A6) (B1 & B2 & B3 & B4 & B5 & B6).
  unfold keep. repeat split; try congruence; auto.
Qed.

Lemma option_map_not_none {A B} (f : A -> B) o : o <> None -> option_map f o <> None.
Proof. destruct o; simpl; congruence. Qed.

Lemma fix_msdos_allcaps_keep h : keep h (fix_msdos_allcaps h).
Proof.
  unfold fix_msdos_allcaps. cbv zeta.
  match goal with |- keep _ (if ?c then _ else _) => destruct c end; [|apply keep_refl].
  unfold keep; hs. repeat split; auto using option_map_not_none.
Qed.

Lemma collapse_keep h : keep h (set_path h (option_map collapse_path (h_path h))).
Proof. unfold keep; hs. repeat split; auto using option_map_not_none. Qed.

Lemma os9_to_unix_permissions_keep h : keep h (os9_to_unix_permissions h).
Proof. unfold os9_to_unix_permissions. cbv zeta. unfold keep; hs. repeat split; auto. Qed.

Lemma split_header_filename_frame h :
  let h' := split_header_filename h in
  h_raw h' = h_raw h /\ h_level h' = h_level h /\ h_method h' = h_method h /\
  h_symlink_target h' = h_symlink_target h.
Proof.
  cbv zeta. unfold split_header_filename. destruct (h_filename h); [|repeat split].
  destruct (last_index l 47 0 None); repeat split.
Qed.

Lemma parse_symlink_frame h h' :
  parse_symlink h = Some h' ->
  h_raw h' = h_raw h /\ h_level h' = h_level h /\ h_method h' = h_method h /\
  h_symlink_target h' <> None.
Proof.
  unfold parse_symlink. cbv zeta. destruct (first_index (full_path h) 124 0) as [p|]; [|discriminate].
  intros H. inversion H as [H']. clear H H'.
  match goal with |- context [split_header_filename ?x] =>
    destruct (split_header_filename_frame x) as (A & B & C & D) end.
  rewrite A, B, C, D. hs. repeat split; discriminate.
Qed.

Lemma have_extra_set_method h m f : have_extra (set_method h m) f = have_extra h f.
Proof. reflexivity. Qed.

(* peel one [let] off the left-hand side of H, naming the bound value *)
Ltac name_let H x Ex :=
  lazymatch type of H with
  | (let y := ?v in @?b y) = ?rhs =>
    pose (x := v); change (b x = rhs) in H; cbv beta in H;
    assert (Ex : x = v) by reflexivity; clearbody x
  end.

(* the part of [intact] that only mentions raw_data and header_level *)
Definition base_ok (h : header) : Prop :=
  let raw := h_raw h in
  h_level h <= 3 /\
  (h_level h <= 1 -> exists hl csum,
      nth_N raw 0 = Some hl /\ nth_N raw 1 = Some csum /\
      hl + 2 <= nlen raw /\
      (h_level h = 0 -> nlen raw = hl + 2) /\
      ((h_level h = 1 -> nlen raw <= 4294967295) -> exists nl,
         nth_N raw 21 = Some nl /\
         (if h_level h =? 0 then 22 else 25) + nl <= hl /\
         (byte_sum (firstn_N hl (skipn_N 2 raw))) mod 256 = csum)) /\
  (h_level h = 2 -> 26 <= nlen raw) /\
  (h_level h = 3 -> 32 <= nlen raw /\ nlen raw <= 1048576 /\
      exists b0 b1, nth_N raw 0 = Some b0 /\ nth_N raw 1 = Some b1 /\
                    u16 (N.lor b0 (N.shiftl b1 8)) = 4).

Lemma base_ok_same h h' : h_raw h' = h_raw h -> h_level h' = h_level h -> base_ok h -> base_ok h'.
Proof. unfold base_ok. intros -> ->. auto. Qed.

Lemma level_dispatch_base_ok mktime raw lvl st1 h1 st2 :
  nlen raw = 22 ->
  (let h := set_level (header0 raw) lvl in
   if lvl =? 0 then decode_level0_header mktime h st1
   else if lvl =? 1 then decode_level1_header mktime h st1
   else if lvl =? 2 then decode_level2_header h st1
   else if lvl =? 3 then decode_level3_header h st1
   else Ok (false, h, st1)) = Ok (true, h1, st2) ->
  base_ok h1.
Proof.
  intros L22 H. cbv zeta in H.
  assert (R0 : nlen (h_raw (set_level (header0 raw) lvl)) = 22) by exact L22.
  assert (V0 : h_level (set_level (header0 raw) lvl) = lvl) by reflexivity.
  set (h0 := set_level (header0 raw) lvl) in *. clearbody h0.
  destruct (N.eqb_spec lvl 0) as [Z0|Z0].
  { apply decode_level0_ok in H; [|exact R0].
    destruct H as (Lv & _ & hl & csum & nl & (F0 & F1 & F21 & Fmin & Fsum) & Lraw).
    rewrite V0, Z0 in *. unfold base_ok. cbv zeta. rewrite Lv.
    split; [lia|]. split; [|split; intros; lia].
    intros _. exists hl, csum. split; [exact F0|]. split; [exact F1|]. split; [lia|].
    split; [intros _; exact Lraw|]. intros _. exists nl. auto. }
  destruct (N.eqb_spec lvl 1) as [Z1|Z1].
  { apply decode_level1_ok in H; [|exact R0|congruence].
    destruct H as (Lv & hl & csum & F0 & F1 & Fl & G).
    unfold base_ok. cbv zeta. rewrite Lv.
    split; [lia|]. split; [|split; intros; lia].
    intros _. exists hl, csum. split; [exact F0|]. split; [exact F1|]. split; [exact Fl|].
    split; [intros; lia|]. intros Hs. destruct (G (Hs eq_refl)) as (nl & _ & _ & F21 & Fmin & Fsum).
    exists nl. auto. }
  destruct (N.eqb_spec lvl 2) as [Z2|Z2].
  { apply decode_level2_ok in H; [|exact R0]. destruct H as [Lv Ln].
    unfold base_ok. cbv zeta. rewrite Lv, V0, Z2.
    split; [lia|]. split; [intros; lia|]. split; [intros _; exact Ln|intros; lia]. }
  destruct (N.eqb_spec lvl 3) as [Z3|Z3].
  { apply decode_level3_ok in H; [|exact R0]. destruct H as (Lv & Ln1 & Ln2 & G).
    unfold base_ok. cbv zeta. rewrite Lv, V0, Z3.
    split; [lia|]. split; [intros; lia|]. split; [intros; lia|]. intros _. auto. }
  discriminate.
Qed.

(* ------------------------------------------------------------------ *)
(* C12, part 1: whatever lha_file_header_read returns is intact        *)

Theorem returned_header_is_intact mktime st h st' :
  lha_file_header_read mktime st = Ok (Some h, st') -> intact h.
Proof.
  intros H. cbv delta [lha_file_header_read] in H. cbv beta in H.
  bind_inv H as [r st1] Er. destruct r as [raw|]; [|discriminate].
  pose proof (stream_read_len _ _ _ _ Er) as L22. change hdr_COMMON_HEADER_LEN with 22 in L22.
  bind_inv H as lvl El.
  name_let H h0 Eh0.
  bind_inv H as [[ok h1] st2] Ed.
  destruct (negb ok) eqn:Eok; [discriminate|]. apply negb_false_iff in Eok. subst ok.
  assert (B1 : base_ok h1).
  { subst h0. eapply level_dispatch_base_ok; [exact L22|]. cbv zeta. exact Ed. }
  clear Ed Eh0 h0 El Er.
  name_let H h2 Eh2. name_let H isd Eisd. name_let H r3 Er3.
  destruct r3 as [h3|]; [|discriminate].
  name_let H os Eos. name_let H h4 Eh4. name_let H h5 Eh5. name_let H h6 Eh6. name_let H h7 Eh7.
  match type of H with (if ?c then _ else _) = _ => destruct c eqn:Ecrc end; [discriminate|].
  name_let H h8 Eh8. inversion H; subst h st'. clear H.
  (* h1 -> h2 *)
  assert (K12 : h_raw h2 = h_raw h1 /\ h_level h2 = h_level h1).
  { rewrite Eh2. match goal with |- context [if ?c then _ else _] => destruct c end; split; reflexivity. }
  (* h2 -> h3, and the name / path rules *)
  assert (K23 : h_raw h3 = h_raw h2 /\ h_level h3 = h_level h2 /\ h_method h3 = h_method h2 /\
                (is_dir h2 = false -> h_filename h3 <> None) /\
                (is_dir h2 = true -> h_symlink_target h3 = None -> h_path h3 <> None)).
  { symmetry in Er3. rewrite Eisd in Er3. fold (is_dir h2) in Er3.
    destruct (is_dir h2) eqn:D; cbn [negb] in Er3.
    - match type of Er3 with (if ?c then _ else _) = _ => destruct c end.
      + apply parse_symlink_frame in Er3. destruct Er3 as (A & B & C & E).
        repeat split; auto; discriminate.
      + destruct (h_path h2) eqn:P; [|discriminate]. inversion Er3; subst h3.
        repeat split; try discriminate. intros _ _. rewrite P. discriminate.
    - destruct (h_filename h2) eqn:F; [|discriminate]. inversion Er3; subst h3.
      repeat split; try discriminate. intros _. rewrite F. discriminate. }
  (* h3 -> h7 *)
  assert (K34 : keep h3 h4).
  { rewrite Eh4. match goal with |- context [if ?c then _ else _] => destruct c end;
      [apply fix_msdos_allcaps_keep|apply keep_refl]. }
  assert (K45 : keep h4 h5) by (rewrite Eh5; apply collapse_keep).
  assert (K56 : keep h5 h6).
  { rewrite Eh6. match goal with |- context [if ?c then _ else _] => destruct c end;
      [|apply keep_refl]. unfold keep; hs. repeat split; auto. }
  assert (K67 : keep h6 h7).
  { rewrite Eh7. match goal with |- context [if ?c then _ else _] => destruct c end;
      [apply os9_to_unix_permissions_keep|apply keep_refl]. }
  pose proof (keep_trans _ _ _ (keep_trans _ _ _ (keep_trans _ _ _ K34 K45) K56) K67)
    as (R37 & V37 & M37 & S37 & F37 & P37).
  (* h7 -> h8 *)
  assert (K78 : h_raw h8 = h_raw h7 /\ h_level h8 = h_level h7 /\
                h_extra_flags h8 = h_extra_flags h7 /\ h_common_crc h8 = h_common_crc h7 /\
                h_symlink_target h8 = h_symlink_target h7 /\ h_filename h8 = h_filename h7 /\
                h_path h8 = h_path h7 /\ is_dir h8 = is_dir h7).
  { rewrite Eh8.
    destruct ((h_level h7 =? 1) && (h_os_type h7 =? OS_TYPE_LHARK)) ; cbn [andb];
      [|repeat split].
    destruct (bytes_eqb (firstn 5 (cstr (h_method h7))) [45; 108; 104; 55; 45]) eqn:B; [|repeat split].
    apply lh7_not_dir in B. destruct B as [B1' B2'].
    repeat split. unfold is_dir, method_is; hs. rewrite B1', B2'. reflexivity. }
  destruct K78 as (R78 & V78 & X78 & C78 & S78 & F78 & P78 & D78).
  destruct K12 as (R12 & V12). destruct K23 as (R23 & V23 & M23 & N23 & Q23).
  assert (D72 : is_dir h7 = is_dir h2).
  { unfold is_dir, method_is. rewrite M37, M23. reflexivity. }
  assert (B8 : base_ok h8).
  { apply (base_ok_same h1); [congruence|congruence|exact B1]. }
  destruct B8 as (I1 & I2 & I3 & I4).
  unfold intact. cbv zeta.
  split; [exact I1|]. split; [exact I2|]. split; [exact I3|]. split; [exact I4|].
  split; [|split].
  - intros HE. unfold have_extra in *. rewrite X78 in HE. rewrite HE in Ecrc. cbn [andb] in Ecrc.
    apply negb_false_iff, N.eqb_eq in Ecrc. rewrite R78, C78. exact Ecrc.
  - intros D. rewrite D78, D72 in D. rewrite F78. apply F37. apply N23. exact D.
  - intros D S. rewrite D78, D72 in D. rewrite S78, S37 in S. rewrite P78. apply P37. apply Q23; assumption.
Qed.

(* the level-0/1 clause in its plain form, for headers shorter than 4 GiB *)
Corollary returned_checksum_ok mktime st h st' :
  lha_file_header_read mktime st = Ok (Some h, st') ->
  h_level h <= 1 -> nlen (h_raw h) <= 4294967295 ->
  exists hl csum nl,
    nth_N (h_raw h) 0 = Some hl /\ nth_N (h_raw h) 1 = Some csum /\ nth_N (h_raw h) 21 = Some nl /\
    (if h_level h =? 0 then 22 else 25) + nl <= hl /\ hl + 2 <= nlen (h_raw h) /\
    (byte_sum (firstn_N hl (skipn_N 2 (h_raw h)))) mod 256 = csum /\
    (h_level h = 0 -> nlen (h_raw h) = hl + 2).
Proof.
  intros H L S. apply returned_header_is_intact in H. destruct H as (_ & H & _).
  destruct (H L) as (hl & csum & A & B & C & D & E).
  destruct (E (fun _ => S)) as (nl & E1 & E2 & E3).
  exists hl, csum, nl. auto 10.
Qed.

(* with genuine bytes the level-3 word-size clause reads: raw[0] = 4, raw[1] = 0 *)
Lemma le16_is_4 b0 b1 :
  b0 < 256 -> b1 < 256 -> u16 (N.lor b0 (N.shiftl b1 8)) = 4 -> b0 = 4 /\ b1 = 0.
Proof.
  intros H0 H1 H.
  assert (B : b0 + b1 * 256 < 65536) by lia.
  assert (S : Sweep.sweep 16 (fun x =>
            implb (u16 (N.lor (x mod 256) (N.shiftl (x / 256) 8)) =? 4)
                  ((x mod 256 =? 4) && (x / 256 =? 0))) 0 = true) by (vm_compute; reflexivity).
  pose proof (Sweep.sweep_below 16 _ S (b0 + b1 * 256)) as Q. cbv beta in Q.
  rewrite N.mod_add in Q by discriminate. rewrite N.div_add in Q by discriminate.
  rewrite N.mod_small, N.div_small in Q by exact H0. rewrite N.add_0_l in Q.
  rewrite H in Q. change (4 =? 4) with true in Q. cbn [implb] in Q.
  specialize (Q B). apply andb_true_iff in Q. destruct Q as [Q0 Q1].
  apply N.eqb_eq in Q0, Q1. auto.
Qed.

(* ------------------------------------------------------------------ *)
(* C12, part 2: a header level above 3 is rejected                     *)

Corollary returned_level_le_3 mktime st h st' :
  lha_file_header_read mktime st = Ok (Some h, st') -> h_level h <= 3.
Proof. intros H. apply returned_header_is_intact in H. exact (proj1 H). Qed.

Theorem level_above_3_rejected mktime st raw st1 lvl :
  lha_input_stream_read st hdr_COMMON_HEADER_LEN = Ok (Some raw, st1) ->
  nth_N raw 20 = Some lvl -> 3 < lvl ->
  lha_file_header_read mktime st = Ok (None, st1).
Proof.
  intros Hr Hl Hlt. unfold lha_file_header_read. rewrite Hr. cbn [bind].
  unfold raw_at. rewrite Hl. cbn [bind].
  destruct (N.eqb_spec lvl 0); [lia|]. destruct (N.eqb_spec lvl 1); [lia|].
  destruct (N.eqb_spec lvl 2); [lia|]. destruct (N.eqb_spec lvl 3); [lia|].
  reflexivity.
Qed.

(* ------------------------------------------------------------------ *)
(* C12, part 3: iteration ends at the first header that is not returned *)

Lemma next_file_none_state mktime r r' :
  lha_basic_reader_next_file mktime r = Ok (None, r') -> br_curr r' = None /\ br_eof r' = true.
Proof.
  unfold lha_basic_reader_next_file. intros H. bind_inv H as r1 E1.
  assert (C1 : br_curr r1 = None).
  { destruct (br_curr r) eqn:C.
    - bind_inv E1 as [ok st'] Es. inversion E1. reflexivity.
    - inversion E1; subst. exact C. }
  destruct (br_eof r1) eqn:Eeof.
  - inversion H; subst. auto.
  - bind_inv H as [h st2] Eh. destruct h; inversion H; subst. auto.
Qed.

Lemma next_file_at_end mktime r :
  br_curr r = None -> br_eof r = true -> lha_basic_reader_next_file mktime r = Ok (None, r).
Proof.
  intros C E. unfold lha_basic_reader_next_file. rewrite C. cbn [bind]. rewrite E. reflexivity.
Qed.

(* n + 1 successive calls; the result of the last one *)
Fixpoint next_file_n (mktime : N -> N -> N -> N -> Z -> N -> N) (n : nat) (r : breader)
  : outcome (option header * breader) :=
  match n with
  | O => lha_basic_reader_next_file mktime r
  | S k => '(_, r1) <- lha_basic_reader_next_file mktime r ;; next_file_n mktime k r1
  end.

(* Once a call has returned no header, every later call returns no header
   and leaves the reader -- in particular its input stream -- untouched. *)
Theorem iteration_stops mktime r r' :
  lha_basic_reader_next_file mktime r = Ok (None, r') ->
  forall n, next_file_n mktime n r' = Ok (None, r').
Proof.
  intros H. apply next_file_none_state in H. destruct H as [C E].
  pose proof (next_file_at_end mktime r' C E) as F.
  induction n as [|n IH]; cbn [next_file_n]; [exact F|].
  rewrite F. cbn [bind]. exact IH.
Qed.

(* ... and that happens exactly when the stream ended or the header reader
   refused the next header; a header that is returned is intact. *)
Theorem next_file_returns_intact mktime r h r' :
  lha_basic_reader_next_file mktime r = Ok (Some h, r') -> intact h.
Proof.
  unfold lha_basic_reader_next_file. intros H. bind_inv H as r1 E1.
  destruct (br_eof r1); [discriminate|].
  bind_inv H as [h' st2] Eh. destruct h' as [hd|]; [|discriminate].
  inversion H; subst. eapply returned_header_is_intact; eauto.
Qed.

Theorem next_file_stops_at_rejected_header mktime r st2 :
  br_curr r = None -> br_eof r = false ->
  lha_file_header_read mktime (br_stream r) = Ok (None, st2) ->
  exists r', lha_basic_reader_next_file mktime r = Ok (None, r') /\
             forall n, next_file_n mktime n r' = Ok (None, r').
Proof.
  intros C E H.
  assert (F : lha_basic_reader_next_file mktime r =
              Ok (None, {| br_stream := st2; br_curr := None; br_remaining := br_remaining r; br_eof := true |})).
  { unfold lha_basic_reader_next_file. rewrite C. cbn [bind]. rewrite E, H. reflexivity. }
  eexists. split; [exact F|]. eapply iteration_stops; exact F.
Qed.

(* ------------------------------------------------------------------ *)
(* Non-vacuity: a level-0 header for the file "a", method -lh0-         *)

Definition ex_bytes : list N :=
  [23; 224;                     (* header length, checksum *)
   45; 108; 104; 48; 45;        (* -lh0- *)
   0; 0; 0; 0;  0; 0; 0; 0;     (* compressed length, length *)
   0; 0; 0; 0;  32;  0;         (* timestamp, attribute, level 0 *)
   1; 97;                       (* name length, "a" *)
   0; 0].                       (* CRC-16 of the (empty) file *)

(* the same with the name byte changed: the checksum no longer matches *)
Definition ex_bytes_bad : list N :=
  [23; 224; 45; 108; 104; 48; 45; 0; 0; 0; 0; 0; 0; 0; 0; 0; 0; 0; 0; 32; 0; 1; 98; 0; 0].

(* level byte 4 (checksum adjusted): rejected for its level *)
Definition ex_bytes_level4 : list N :=
  [23; 228; 45; 108; 104; 48; 45; 0; 0; 0; 0; 0; 0; 0; 0; 0; 0; 0; 0; 32; 4; 1; 97; 0; 0].

Definition ex_stream (bs : list N) : istream :=
  {| is_src := mk_source KFile bs; is_state := IS_READING; is_leadin := [] |}.

Example ex_accepted :
  exists h st', lha_file_header_read mktime_utc (ex_stream ex_bytes) = Ok (Some h, st') /\
                h_filename h = Some [97] /\ h_level h = 0 /\ h_raw h = ex_bytes /\ intact h.
Proof.
  destruct (lha_file_header_read mktime_utc (ex_stream ex_bytes)) as [[[h|] st']| |] eqn:E;
    try (vm_compute in E; discriminate).
  exists h, st'. split; [reflexivity|].
  pose proof (returned_header_is_intact _ _ _ _ E) as I.
  vm_compute in E. inversion E; subst.
  split; [reflexivity|]. split; [reflexivity|]. split; [reflexivity|]. exact I.
Qed.

Example ex_rejected :
  exists st', lha_file_header_read mktime_utc (ex_stream ex_bytes_bad) = Ok (None, st').
Proof. eexists. vm_compute. reflexivity. Qed.

Example ex_level4_rejected :
  exists st', lha_file_header_read mktime_utc (ex_stream ex_bytes_level4) = Ok (None, st').
Proof. eexists. vm_compute. reflexivity. Qed.

(* the reader over the bad archive: first call None, and None forever *)
Example ex_reader_stops :
  let r0 := lha_basic_reader_new (ex_stream ex_bytes_bad) in
  exists r', lha_basic_reader_next_file mktime_utc r0 = Ok (None, r') /\
             forall n, next_file_n mktime_utc n r' = Ok (None, r').
Proof.
  cbv zeta.
  destruct (lha_basic_reader_next_file mktime_utc (lha_basic_reader_new (ex_stream ex_bytes_bad)))
    as [[[h|] r']| |] eqn:E; try (vm_compute in E; discriminate).
  exists r'. split; [reflexivity|]. eapply iteration_stops; exact E.
Qed.

(* a level-1 header for "a" with one extended header: the common CRC *)
Definition ex1_bytes : list N :=
  [26; 64; 45; 108; 104; 48; 45;  5; 0; 0; 0;  0; 0; 0; 0;  0; 0; 0; 0;  32; 1;
   1; 97;  0; 0;  85;  5; 0;      (* name, file CRC, OS type 'U', next header: 5 bytes *)
   0; 149; 74;  0; 0].            (* type 0, CRC-16 0x4A95, no next header *)

Definition ex1_bytes_bad : list N :=
  [26; 64; 45; 108; 104; 48; 45;  5; 0; 0; 0;  0; 0; 0; 0;  0; 0; 0; 0;  32; 1;
   1; 97;  0; 0;  85;  5; 0;  0; 150; 74;  0; 0].

Example ex1_accepted :
  exists h st', lha_file_header_read mktime_utc (ex_stream ex1_bytes) = Ok (Some h, st') /\
                h_level h = 1 /\ have_extra h FILE_COMMON_CRC = true /\ h_common_crc h = 19093 /\
                h_raw h = list_set (list_set ex1_bytes 29 0) 30 0 /\ intact h.
Proof.
  destruct (lha_file_header_read mktime_utc (ex_stream ex1_bytes)) as [[[h|] st']| |] eqn:E;
    try (vm_compute in E; discriminate).
  exists h, st'. split; [reflexivity|].
  pose proof (returned_header_is_intact _ _ _ _ E) as I.
  vm_compute in E. inversion E; subst.
  split; [reflexivity|]. split; [reflexivity|]. split; [reflexivity|]. split; [reflexivity|]. exact I.
Qed.

Example ex1_rejected :
  exists st', lha_file_header_read mktime_utc (ex_stream ex1_bytes_bad) = Ok (None, st').
Proof. eexists. vm_compute. reflexivity. Qed.

Print Assumptions returned_header_is_intact.
Print Assumptions returned_level_le_3.
Print Assumptions level_above_3_rejected.
Print Assumptions iteration_stops.
Print Assumptions next_file_returns_intact.
Print Assumptions next_file_stops_at_rejected_header.
Print Assumptions le16_is_4.
Print Assumptions ex_accepted.
Print Assumptions ex_rejected.
Print Assumptions ex_level4_rejected.
Print Assumptions ex_reader_stops.
Print Assumptions ex1_accepted.
Print Assumptions ex1_rejected.
Print Assumptions returned_checksum_ok.

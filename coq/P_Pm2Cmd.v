(* P_Pm2Cmd.v -- reading the bits of one -pm2- command (C04).

   count_ok / offset_ok : history_get_count and history_get_offset decode the
       length and distance fields that S_Pm.pm2_plan lays out (pm2_len_tbl,
       pm2_dist_split, the offset table's code)
   cmd_read : pm2_read_body, run on the bits of a well-formed command (literal
       or copy), consumes exactly them and then emits the bytes the command
       denotes (cmd_bytes) through output_byte (P_Pm2Copy.emit) *)
From Lhasa Require Import Base ListN DecBase BitReader Loop Sweep Tree PmaCommon Generated Pm2
  S_Larc S_Pm P_BitReader P_Tree P_PmaCommon P_Pm2 P_Pm2Rt P_TreeCanonPm P_Pm2Lens P_Pm2Off P_Pm2Copy.
From Coq Require Import ZifyBool ZifyN ZifyNat.
Local Open Scope N_scope.
Ltac Zify.zify_post_hook ::= Z.div_mod_to_equations.

(* everything but the bit reader is the same *)
Definition bsr_frame (s s' : pm2_state) : Prop :=
  data_frame s s' /\
  pm2_code_tree s' = pm2_code_tree s /\
  pm2_need_offset_tree s' = pm2_need_offset_tree s /\ pm2_offset_tree s' = pm2_offset_tree s /\
  pm2_tree_state s' = pm2_tree_state s /\ rem_of s' = rem_of s.

Lemma bsr_frame_refl s : bsr_frame s s.
Proof. repeat split. Qed.

Lemma bsr_frame_set s r : bsr_frame s (pm2_set_bsr s r).
Proof. repeat split. Qed.

Lemma bsr_frame_trans a b c : bsr_frame a b -> bsr_frame b c -> bsr_frame a c.
Proof.
  intros (A0 & A1 & A2 & A3 & A4 & A5) (B0 & B1 & B2 & B3 & B4 & B5).
  split; [apply (data_frame_trans _ b); assumption|]. repeat split; congruence.
Qed.

(* ------------------------------------------------------------------ *)
(* the two tables                                                      *)

Lemma copy_decode_alen :
  alen (vl_bits pm2_copy_decode) = 6 /\ alen (vl_offset pm2_copy_decode) = 6.
Proof. split; vm_compute; reflexivity. Qed.

Lemma dvl_copy r (c : src) cls base w v rest : bsr_wf r -> src_ok c -> cls < 6 ->
  aget (vl_offset pm2_copy_decode) cls = base -> aget (vl_bits pm2_copy_decode) cls = w ->
  w <= 7 -> v < 2 ^ w -> pending r c = nbits w v ++ rest ->
  exists r' c', decode_variable_length src_cb pm2_copy_decode r c cls = Ok (Some (base + v), r', c') /\
    bsr_wf r' /\ src_ok c' /\ pending r' c' = rest.
Proof.
  intros Hr Hc Hcls Eb Ew Hw Hv Hp. destruct copy_decode_alen as [A1 A2].
  unfold decode_variable_length. rewrite rd_ok by lia. cbn [bind]. rewrite Ew.
  rewrite nbits_eq in Hp.
  destruct (read_bits_src_prefix r c (N.to_nat w) v rest Hr Hc) as (r' & c' & E & W & S & P);
    [lia|rewrite N2Nat.id; exact Hv|exact Hp|].
  rewrite N2Nat.id in E. rewrite E. cbn [bind]. cbv beta iota.
  rewrite rd_ok by lia. cbn [bind]. rewrite Eb.
  exists r', c'. split; [reflexivity|]. split; [exact W|]. split; [exact S|exact P].
Qed.

Definition len_tbl_check (len : N) : bool :=
  match vl_find pm2_len_tbl 0 len with
  | Some (cls, base, w) =>
    (cls <? 5) && (aget (vl_offset pm2_copy_decode) cls =? base) &&
    (aget (vl_bits pm2_copy_decode) cls =? w) && (base <=? len) && (len <? base + 2 ^ w) && (w <=? 7)
  | None => true
  end.

Lemma len_tbl_sweep : sweep 9 len_tbl_check 0 = true.
Proof. vm_compute. reflexivity. Qed.

Lemma len_tbl_facts len cls base w : len < 512 -> vl_find pm2_len_tbl 0 len = Some (cls, base, w) ->
  cls < 5 /\ aget (vl_offset pm2_copy_decode) cls = base /\
  aget (vl_bits pm2_copy_decode) cls = w /\ base <= len /\ len < base + 2 ^ w /\ w <= 7.
Proof.
  intros Hp E. pose proof (sweep_below 9 _ len_tbl_sweep len Hp) as X. unfold len_tbl_check in X.
  rewrite E in X.
  apply andb_true_iff in X. destruct X as [X X6].
  apply andb_true_iff in X. destruct X as [X X5].
  apply andb_true_iff in X. destruct X as [X X4].
  apply andb_true_iff in X. destruct X as [X X3].
  apply andb_true_iff in X. destruct X as [X1 X2].
  apply N.eqb_eq in X2. apply N.eqb_eq in X3. repeat split; try assumption; lia.
Qed.

Lemma copy_decode_28 :
  aget (vl_offset pm2_copy_decode) 5 = 256 /\ aget (vl_bits pm2_copy_decode) 5 = 0.
Proof. split; vm_compute; reflexivity. Qed.

(* ------------------------------------------------------------------ *)
(* what pm2_plan gives for a copy                                      *)

Lemma dist_split_facts dist cls dbits : pm2_dist_split dist = Some (cls, dbits) ->
  dist < 8192 /\ cls < 8 /\
  ((cls = 0 /\ dist < 64 /\ dbits = nbits 6 dist) \/
   (1 <= cls /\ 2 ^ (cls + 5) <= dist /\ dist < 2 ^ (cls + 5) + 2 ^ (cls + 5) /\
    dbits = nbits (cls + 5) (dist - 2 ^ (cls + 5)))).
Proof.
  unfold pm2_dist_split. destruct (N.ltb_spec dist 64) as [H1|H1].
  - intros H. injection H as <- <-. split; [lia|]. split; [lia|]. left. auto.
  - destruct (N.ltb_spec dist 8192) as [H2|H2]; [|discriminate].
    intros H. injection H as <- <-.
    assert (Hpos : 0 < dist) by lia.
    pose proof (N.log2_spec dist Hpos) as [L1 L2].
    assert (L3 : 6 <= N.log2 dist) by (apply (N.log2_le_pow2 dist 6 Hpos); exact H1).
    assert (L4 : N.log2 dist < 13) by (apply (N.log2_lt_pow2 dist 13 Hpos); exact H2).
    replace (N.log2 dist - 5 + 5) with (N.log2 dist) by lia.
    rewrite <- N.add_1_r, pow2_succ in L2.
    split; [exact H2|]. split; [lia|]. right. split; [lia|]. split; [exact L1|]. split; [lia|reflexivity].
Qed.

Lemma plan_copy_cases mtf has28 dist len sym cbits oc obs :
  pm2_plan mtf has28 (PCopy dist len) = Some (sym, cbits, oc, obs) -> 2 <= len -> len <= 256 ->
  (sym = 28 /\ cbits = [] /\ oc = None /\ obs = [] /\ len = 256 /\ dist = 0) \/
  (sym = 8 /\ cbits = [] /\ oc = None /\ obs = nbits 6 dist /\ len = 2 /\ dist < 64) \/
  (exists cls, pm2_dist_split dist = Some (cls, obs) /\ oc = Some cls /\ 3 <= len /\
     ((len <= 16 /\ sym = 8 + (len - 2) /\ cbits = []) \/
      (exists lc base w, vl_find pm2_len_tbl 0 len = Some (lc, base, w) /\ sym = 23 + lc /\
                         cbits = nbits w (len - base) /\ 17 <= len))).
Proof.
  intros H L2 L256. cbn [pm2_plan] in H.
  destruct ((len =? 256) && (dist =? 0) && has28) eqn:E28.
  - injection H as <- <- <- <-. left.
    apply andb_true_iff in E28. destruct E28 as [E28 _]. apply andb_true_iff in E28. destruct E28 as [Ea Eb].
    apply N.eqb_eq in Ea, Eb. repeat split; assumption.
  - destruct (N.eqb_spec len 2) as [El2|El2].
    + destruct (N.ltb_spec dist 64) as [Hd|Hd]; [|discriminate].
      injection H as <- <- <- <-. right. left. repeat split; assumption.
    + destruct (pm2_dist_split dist) as [[cls dbits]|] eqn:Es; [|discriminate].
      right. right.
      destruct ((3 <=? len) && (len <=? 16)) eqn:E316.
      * injection H as <- <- <- <-. exists cls. split; [reflexivity|]. split; [reflexivity|].
        apply andb_true_iff in E316. destruct E316 as [Ea Eb]. split; [lia|]. left. split; [lia|auto].
      * destruct (vl_find pm2_len_tbl 0 len) as [[[lc base] w]|] eqn:Ev; [|discriminate].
        injection H as <- <- <- <-. exists cls. split; [reflexivity|]. split; [reflexivity|].
        split; [lia|]. right. exists lc, base, w. split; [reflexivity|]. split; [reflexivity|].
        split; [reflexivity|]. apply andb_false_iff in E316. lia.
Qed.

(* ------------------------------------------------------------------ *)
(* history_get_count                                                   *)

Lemma count_ok mtf has28 dist len sym cbits oc obs s (c : src) rest :
  pm2_plan mtf has28 (PCopy dist len) = Some (sym, cbits, oc, obs) -> 2 <= len -> len <= 256 ->
  bsr_wf (pm2_bsr s) -> src_ok c -> pending (pm2_bsr s) c = cbits ++ rest ->
  8 <= sym /\
  exists s' c', history_get_count src_cb s c (sym - 8) = Ok (Some len, s', c') /\ bsr_frame s s' /\
    bsr_wf (pm2_bsr s') /\ src_ok c' /\ pending (pm2_bsr s') c' = rest.
Proof.
  intros Hplan L2 L256 Hr Hc Hp.
  assert (Hdvl : forall cls base w, cls < 6 -> sym = 23 + cls ->
            aget (vl_offset pm2_copy_decode) cls = base -> aget (vl_bits pm2_copy_decode) cls = w ->
            w <= 7 -> base <= len -> len - base < 2 ^ w -> cbits = nbits w (len - base) ->
            exists s' c', history_get_count src_cb s c (sym - 8) = Ok (Some len, s', c') /\ bsr_frame s s' /\
              bsr_wf (pm2_bsr s') /\ src_ok c' /\ pending (pm2_bsr s') c' = rest).
  { intros cls base w Hcls -> Eb Ew Hw Hbl Hv Ecb. rewrite Ecb in Hp.
    unfold history_get_count, pm2_copy_decode_offset_len.
    destruct (N.ltb_spec (23 + cls - 8) 15) as [X|_]; [lia|].
    destruct (N.leb_spec 6 (23 + cls - 8 - 15)) as [X|_]; [lia|].
    replace (23 + cls - 8 - 15) with cls by lia.
    destruct (dvl_copy (pm2_bsr s) c cls base w (len - base) rest Hr Hc Hcls Eb Ew Hw Hv Hp)
      as (r' & c' & E & W & S & P).
    rewrite E. cbn [bind]. cbv beta iota. replace (base + (len - base)) with len by lia.
    eexists _, c'. split; [reflexivity|]. split; [apply bsr_frame_set|].
    cbn [pm2_set_bsr pm2_bsr]. split; [exact W|]. split; [exact S|exact P]. }
  destruct (plan_copy_cases _ _ _ _ _ _ _ _ Hplan L2 L256) as
    [(-> & Ecb & _ & _ & El & _)|[(-> & Ecb & _ & _ & El & _)|(cls & _ & _ & L3 & [(L16 & -> & Ecb)|(lc & base & w & Ev & Es & Ecb & L17)])]].
  - split; [lia|]. destruct copy_decode_28 as [Eb Ew].
    apply (Hdvl 5 256 0); try assumption; try lia.
  - split; [lia|]. subst cbits len. cbn [app] in Hp.
    unfold history_get_count. change (8 - 8 <? 15) with true. cbv iota.
    exists s, c. split; [reflexivity|]. split; [apply bsr_frame_refl|]. split; [exact Hr|]. split; [exact Hc|exact Hp].
  - split; [lia|]. subst cbits. cbn [app] in Hp.
    unfold history_get_count. destruct (N.ltb_spec (8 + (len - 2) - 8) 15) as [_|X]; [|lia].
    replace (8 + (len - 2) - 8 + 2) with len by lia.
    exists s, c. split; [reflexivity|]. split; [apply bsr_frame_refl|]. split; [exact Hr|]. split; [exact Hc|exact Hp].
  - destruct (len_tbl_facts len lc base w) as (F1 & F2 & F3 & F4 & F5 & F6); [lia|exact Ev|].
    split; [lia|]. apply (Hdvl lc base w); try assumption; lia.
Qed.

(* ------------------------------------------------------------------ *)
(* history_get_offset                                                  *)

Lemma offset_value_ok s (c : src) nb result v rest : bsr_wf (pm2_bsr s) -> src_ok c -> nb <= 25 ->
  v < 2 ^ nb -> pending (pm2_bsr s) c = nbits nb v ++ rest ->
  exists s' c', history_get_offset_value src_cb s c nb result = Ok (Some (result + v), s', c') /\
    bsr_frame s s' /\ bsr_wf (pm2_bsr s') /\ src_ok c' /\ pending (pm2_bsr s') c' = rest.
Proof.
  intros Hr Hc Hnb Hv Hp. unfold history_get_offset_value. rewrite nbits_eq in Hp.
  destruct (read_bits_src_prefix (pm2_bsr s) c (N.to_nat nb) v rest Hr Hc) as (r' & c' & E & W & S & P);
    [lia|rewrite N2Nat.id; exact Hv|exact Hp|].
  rewrite N2Nat.id in E. rewrite E. cbn [bind]. cbv beta iota zeta.
  eexists _, c'. split; [reflexivity|]. split; [apply bsr_frame_set|].
  cbn [pm2_set_bsr pm2_bsr]. split; [exact W|]. split; [exact S|exact P].
Qed.

Lemma offset_ok mtf has28 dist len sym cbits oc obs ot ocode s (c : src) rest :
  pm2_plan mtf has28 (PCopy dist len) = Some (sym, cbits, oc, obs) -> 2 <= len -> len <= 256 ->
  match oc with Some cls => off_code ot cls = Some ocode | None => ocode = [] end ->
  off_decodes (pm2_offset_tree s) ot ->
  bsr_wf (pm2_bsr s) -> src_ok c -> pending (pm2_bsr s) c = ocode ++ obs ++ rest ->
  dist < 8192 /\
  exists s' c', history_get_offset src_cb s c (sym - 8) = Ok (Some dist, s', c') /\ bsr_frame s s' /\
    bsr_wf (pm2_bsr s') /\ src_ok c' /\ pending (pm2_bsr s') c' = rest.
Proof.
  intros Hplan L2 L256 Hoc Hdec Hr Hc Hp.
  destruct (plan_copy_cases _ _ _ _ _ _ _ _ Hplan L2 L256) as
    [(-> & _ & -> & -> & _ & ->)|[(-> & _ & -> & -> & _ & Hd)|(cls & Es & -> & L3 & Hsym)]].
  - split; [lia|]. subst ocode. cbn [app] in Hp. unfold history_get_offset.
    change (28 - 8 =? 0) with false. change (28 - 8 <? 20) with false. cbv iota.
    exists s, c. split; [reflexivity|]. split; [apply bsr_frame_refl|]. split; [exact Hr|]. split; [exact Hc|exact Hp].
  - split; [lia|]. subst ocode. cbn [app] in Hp. unfold history_get_offset.
    change (8 - 8 =? 0) with true. cbv iota.
    destruct (offset_value_ok s c 6 0 dist rest Hr Hc) as (s' & c' & E & Fr & W & S & P);
      [lia|change (2 ^ 6) with 64; exact Hd|exact Hp|].
    rewrite N.add_0_l in E. exists s', c'. auto.
  - destruct (dist_split_facts dist cls obs Es) as (Hd8 & Hcls & Hsh). split; [exact Hd8|].
    assert (Hcode : 1 <= sym - 8 /\ sym - 8 < 20).
    { destruct Hsym as [(L16 & -> & _)|(lc & base & w & Ev & -> & _ & L17)]; [lia|].
      destruct (len_tbl_facts len lc base w) as (F1 & _); [lia|exact Ev|]. lia. }
    unfold history_get_offset.
    destruct (N.eqb_spec (sym - 8) 0) as [X|_]; [lia|].
    destruct (N.ltb_spec (sym - 8) 20) as [_|X]; [|lia].
    unfold pm2_TREE_NODE_LEAF.
    destruct (Hdec cls ocode (pm2_bsr s) c (obs ++ rest) Hoc Hr Hc Hp) as (r1 & c1 & E1 & W1 & S1 & P1).
    rewrite E1. cbn [bind]. cbv beta iota zeta.
    destruct Hsh as [(-> & Hd & ->)|(Hc1 & Hlo & Hhi & ->)].
    + change (0 =? 0) with true. cbv iota.
      destruct (offset_value_ok (pm2_set_bsr s r1) c1 6 0 dist rest W1 S1) as (s' & c' & E & Fr & W & S & P);
        [lia|change (2 ^ 6) with 64; exact Hd|exact P1|].
      rewrite N.add_0_l in E. exists s', c'. split; [exact E|].
      split; [apply (bsr_frame_trans _ (pm2_set_bsr s r1)); [apply bsr_frame_set|exact Fr]|]. auto.
    + destruct (N.eqb_spec cls 0) as [X|_]; [lia|].
      destruct (N.leb_spec 31 (cls + 5)) as [X|_]; [lia|].
      rewrite N.shiftl_1_l.
      destruct (offset_value_ok (pm2_set_bsr s r1) c1 (cls + 5) (2 ^ (cls + 5)) (dist - 2 ^ (cls + 5)) rest W1 S1)
        as (s' & c' & E & Fr & W & S & P); [lia|lia|exact P1|].
      replace (2 ^ (cls + 5) + (dist - 2 ^ (cls + 5))) with dist in E by lia.
      exists s', c'. split; [exact E|].
      split; [apply (bsr_frame_trans _ (pm2_set_bsr s r1)); [apply bsr_frame_set|exact Fr]|]. auto.
Qed.

(* ------------------------------------------------------------------ *)
(* the bytes of a command                                              *)

Definition cmd_bytes (st : pst) (cmd : pcmd) : list N :=
  match cmd with
  | PByte v => [v]
  | PCopy dist len => copy_bytes (N.to_nat len) st dist
  end.

Lemma pst_cmd_emit st cmd : pst_cmd pm2_window st cmd = fold_left pst_out (cmd_bytes st cmd) st.
Proof.
  destruct cmd as [v|dist len]; [reflexivity|].
  cbn [pst_cmd cmd_bytes]. change (pm_fill pm2_window) with 32. apply pst_copy_emit.
Qed.

Lemma data_ok_bsr_frame s s' st : bsr_frame s s' -> data_ok s st -> data_ok s' st.
Proof. intros (F & _). apply data_ok_frame. exact F. Qed.

Lemma copy_code_inv ct ot mtf dist len :
  is_some (pm2_cmd_code (Some ct) ot mtf (PCopy dist len)) = true ->
  exists sym cbits oc obs code ocode,
    pm2_plan mtf (is_some (ct_code ct 28)) (PCopy dist len) = Some (sym, cbits, oc, obs) /\
    ct_code ct sym = Some code /\
    match oc with Some cls => off_code ot cls = Some ocode | None => ocode = [] end /\
    obits (pm2_cmd_code (Some ct) ot mtf (PCopy dist len)) = code ++ cbits ++ ocode ++ obs.
Proof.
  unfold pm2_cmd_code. change (match ct_code ct 28 with Some _ => true | None => false end) with (is_some (ct_code ct 28)).
  destruct (pm2_plan mtf (is_some (ct_code ct 28)) (PCopy dist len)) as [[[[sym cbits] oc] obs]|]; [|discriminate].
  destruct (ct_code ct sym) as [code|] eqn:Ec; [|discriminate].
  destruct oc as [cls|].
  - destruct (off_code ot cls) as [ocode|] eqn:Eo; [|discriminate]. intros _.
    exists sym, cbits, (Some cls), obs, code, ocode. repeat split; assumption.
  - intros _. exists sym, cbits, None, obs, code, []. repeat split; assumption.
Qed.

(* ------------------------------------------------------------------ *)
(* reading one command's bits                                          *)

Theorem cmd_read ct ot st s (c : src) cmd rest :
  data_ok s st -> 1 <= rem_of s -> bsr_wf (pm2_bsr s) -> src_ok c ->
  tree_decodes (pm2_code_tree s) ct -> off_decodes (pm2_offset_tree s) ot ->
  wf_pm2_cmd (Some ct) ot st cmd = true ->
  pending (pm2_bsr s) c = obits (pm2_cmd_code (Some ct) ot (ps_mtf st) cmd) ++ rest ->
  exists sr cr, bsr_frame s sr /\ bsr_wf (pm2_bsr sr) /\ src_ok cr /\ pending (pm2_bsr sr) cr = rest /\
    1 <= nlen (cmd_bytes st cmd) /\ nlen (cmd_bytes st cmd) <= 256 /\
    Forall (fun b => b < 256) (cmd_bytes st cmd) /\
    pm2_read_body src_cb s c =
    ('(s3, c3, o) <- emit (cmd_bytes st cmd) sr cr ob_empty ;; Ok (ob_bytes o, s3, c3)).
Proof.
  intros Hd Hrem Hr Hc Ht Hot Hwf Hp.
  unfold wf_pm2_cmd in Hwf. apply andb_true_iff in Hwf. destruct Hwf as [Hshape Hsome].
  destruct cmd as [b|dist len].
  - (* literal *)
    assert (Hb : b < 256) by lia.
    destruct (lit_code_inv ct ot _ b Hsome) as (p & cls & base & w & code & Emtf & Etbl & Ecode & E4).
    rewrite E4, <- app_assoc in Hp.
    pose proof Hd as (_ & _ & _ & _ & Hh & Hm).
    rewrite <- Hm in Emtf. destruct (find_mtf_index _ _ _ Hh Emtf) as [Hp256 Efind].
    destruct (lit_tbl_facts p cls base w Hp256 Etbl) as (F1 & F2 & F3 & F4 & F5 & F6).
    unfold pm2_read_body, pm2_TREE_NODE_LEAF.
    destruct (Ht cls code _ c _ Ecode Hr Hc Hp) as (r2 & c2 & E2 & W2 & S2 & P2).
    rewrite E2. cbn [bind]. cbv beta iota zeta.
    destruct (N.ltb_spec cls 8) as [_|X]; [|lia].
    unfold read_single_byte. change (pm2_bsr (pm2_set_bsr s r2)) with r2.
    destruct (dvl_lit r2 c2 cls base w (p - base) rest W2 S2 F1 F2 F3 F6) as (r3 & c3 & E3 & W3 & S3 & P3);
      [lia|exact P2|].
    rewrite E3. cbn [bind]. cbv beta iota zeta.
    replace (base + (p - base)) with p by lia.
    change (pm2_history_list (pm2_set_bsr (pm2_set_bsr s r2) r3)) with (pm2_history_list s).
    rewrite (u8_small p Hp256), Efind. cbn [bind].
    exists (pm2_set_bsr (pm2_set_bsr s r2) r3), c3.
    split; [repeat split|]. split; [exact W3|]. split; [exact S3|]. split; [exact P3|].
    cbn [cmd_bytes]. change (nlen [b]) with 1. split; [lia|]. split; [lia|].
    split; [constructor; [exact Hb|constructor]|].
    cbn [emit].
    destruct (output_byte src_cb (pm2_set_bsr (pm2_set_bsr s r2) r3) c3 ob_empty b) as [[[s' c'] o']| |];
      reflexivity.
  - (* copy *)
    assert (L2 : 2 <= len) by lia. assert (L256 : len <= 256) by lia. assert (Hdist : dist < 8192) by lia.
    destruct (copy_code_inv ct ot _ dist len Hsome) as (sym & cbits & oc & obs & code & ocode & Hplan & Ecode & Hoc & E4).
    rewrite E4, <- !app_assoc in Hp.
    unfold pm2_read_body, pm2_TREE_NODE_LEAF.
    destruct (Ht sym code _ c _ Ecode Hr Hc Hp) as (r2 & c2 & E2 & W2 & S2 & P2).
    rewrite E2. cbn [bind]. cbv beta iota zeta.
    destruct (count_ok _ _ _ _ _ _ _ _ (pm2_set_bsr s r2) c2 (ocode ++ obs ++ rest) Hplan L2 L256 W2 S2 P2)
      as (Hsym & s3 & c3 & E3 & Fr3 & W3 & S3 & P3).
    destruct (N.ltb_spec sym 8) as [X|_]; [lia|].
    assert (Fr3' : bsr_frame s s3) by (apply (bsr_frame_trans _ (pm2_set_bsr s r2)); [apply bsr_frame_set|exact Fr3]).
    assert (Hot3 : off_decodes (pm2_offset_tree s3) ot).
    { destruct Fr3' as (_ & _ & _ & Eo & _). rewrite Eo. exact Hot. }
    destruct (offset_ok _ _ _ _ _ _ _ _ ot ocode s3 c3 rest Hplan L2 L256 Hoc Hot3 W3 S3 P3)
      as (_ & s4 & c4 & E4' & Fr4 & W4 & S4 & P4).
    assert (Fr4' : bsr_frame s s4) by (apply (bsr_frame_trans _ s3); assumption).
    unfold copy_from_history. rewrite E3. cbn [bind]. cbv beta iota. rewrite E4'. cbn [bind]. cbv beta iota zeta.
    unfold pm2_OUTPUT_BUFFER_SIZE, pm2_RING_BUFFER_SIZE.
    destruct (N.ltb_spec 256 len) as [X|_]; [lia|].
    pose proof (data_ok_bsr_frame s s4 st Fr4' Hd) as Hd4.
    pose proof Hd4 as (_ & Hpos4 & _).
    assert (Hrem4 : 1 <= rem_of s4) by (destruct Fr4' as (_ & _ & _ & _ & _ & Er); rewrite Er; exact Hrem).
    exists s4, c4. split; [exact Fr4'|]. split; [exact W4|]. split; [exact S4|]. split; [exact P4|].
    cbn [cmd_bytes].
    assert (Hlen : nlen (copy_bytes (N.to_nat len) st dist) = len).
    { unfold nlen. rewrite copy_bytes_length. lia. }
    rewrite Hlen. split; [lia|]. split; [lia|].
    split; [apply (copy_bytes_lt _ s4 st dist Hd4 Hdist)|].
    assert (Hstart : u32 (pm2_ringbuf_pos s4 + 8192 + 4294967296 - 1 - dist) = pm2_ringbuf_pos s4 + 8191 - dist).
    { rewrite u32_mod. change (2 ^ 32) with 4294967296.
      assert (pm2_ringbuf_pos s4 < 8192) by (rewrite Hpos4; apply N.mod_lt; lia). lia. }
    rewrite Hstart.
    rewrite (copy_loop_emit (N.to_nat len) 0 _ st s4 c4 ob_empty dist Hd4 Hdist Hrem4 obw_empty).
    + destruct (emit (copy_bytes (N.to_nat len) st dist) s4 c4 ob_empty) as [[[s' c'] o']| |]; reflexivity.
    + change (ob_len ob_empty) with 0. lia.
    + assert (pm2_ringbuf_pos s4 < 8192) by (rewrite Hpos4; apply N.mod_lt; lia).
      change (2 ^ 32) with 4294967296. lia.
    + rewrite Hpos4. lia.
Qed.

Print Assumptions count_ok.
Print Assumptions offset_ok.
Print Assumptions cmd_read.

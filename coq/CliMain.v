(* CliMain.v -- model of src/main.c: help_page, do_command, main, composed
   with the option parser and the list commands of ListOut.v, the extraction
   commands of CliExtract.v, the reader and the filesystem model: one
   executable function [lha_main] from (argv, standard input, filesystem) to
   (stdout, stderr, exit status, filesystem with its operation trace).

   The archive is a file of the filesystem model: fopen(filename, "rb") is
   [fs_fopen_rb] (path resolution of Fs.v, read permission); "-" is standard
   input, which the overwrite prompt then shares with the reader (see
   CliExtract.v: stdin_data).

   Section variables (things the C gets from the C library / the OS):
     mktime       lha_file_header_read's conversion of MS-DOS times (harness: mktime_utc, TZ=UTC)
     junk         uninitialised callback-buffer byte of the -lz5- decoder (Reader.v)
     localtime    for the list commands (harness: gmtime_utc)
     now          get_now_time() of src/list.c (harness: TEST_NOW_TIME)
     stdin_kind   whether fseek works on standard input (KFile) or not (KPipe)
     strerror     text for errno after a failed fopen: ENOENT (true) / anything else (false)
   Not modelled: the modification time of "-" and of a directory given as
   archive (the list footer prints it; the model uses [now] when the file's
   time is unknown), failure of malloc.
   Definitions only. *)
From Lhasa Require Import Base Loop Generated InputStream Header BasicReader Fs FsRun Reader Glob ListOut CliFilter CliExtract.
Local Open Scope N_scope.

(* ---- string constants of src/main.c ---- *)
(* " v" *)
Definition s_v : list N :=
  [32; 118].

(* " command line LHA tool  - Copyright (C) 2011-2023 Simon Howard\nusage: " *)
Definition s_help_1 : list N :=
  [32; 99; 111; 109; 109; 97; 110; 100; 32; 108; 105; 110; 101; 32; 76; 72; 65; 32; 116; 111; 111; 108;
   32; 32; 45; 32; 67; 111; 112; 121; 114; 105; 103; 104; 116; 32; 40; 67; 41; 32; 50; 48; 49; 49; 45;
   50; 48; 50; 51; 32; 83; 105; 109; 111; 110; 32; 72; 111; 119; 97; 114; 100; 10; 117; 115; 97; 103;
   101; 58; 32].

(* " [-]{lvtxep[q{num}][finv]}[w=<dir>] archive_file [file...]\ncommands:                          options:\n l,v List / Verbose List            f  Force overwrite (no prompt)\n t   Test file CRC in archive       i  Ignore directory path\n x,e Extract from archive           n  Perform dry run\n p   Print to stdout from archive   q{num}  Quiet mode\n                                    v  Verbose\n                                    w=<dir> Specify extract directory\n" *)
Definition s_help_2 : list N :=
  [32; 91; 45; 93; 123; 108; 118; 116; 120; 101; 112; 91; 113; 123; 110; 117; 109; 125; 93; 91; 102;
   105; 110; 118; 93; 125; 91; 119; 61; 60; 100; 105; 114; 62; 93; 32; 97; 114; 99; 104; 105; 118; 101;
   95; 102; 105; 108; 101; 32; 91; 102; 105; 108; 101; 46; 46; 46; 93; 10; 99; 111; 109; 109; 97; 110;
   100; 115; 58; 32; 32; 32; 32; 32; 32; 32; 32; 32; 32; 32; 32; 32; 32; 32; 32; 32; 32; 32; 32; 32;
   32; 32; 32; 32; 32; 111; 112; 116; 105; 111; 110; 115; 58; 10; 32; 108; 44; 118; 32; 76; 105; 115;
   116; 32; 47; 32; 86; 101; 114; 98; 111; 115; 101; 32; 76; 105; 115; 116; 32; 32; 32; 32; 32; 32; 32;
   32; 32; 32; 32; 32; 102; 32; 32; 70; 111; 114; 99; 101; 32; 111; 118; 101; 114; 119; 114; 105; 116;
   101; 32; 40; 110; 111; 32; 112; 114; 111; 109; 112; 116; 41; 10; 32; 116; 32; 32; 32; 84; 101; 115;
   116; 32; 102; 105; 108; 101; 32; 67; 82; 67; 32; 105; 110; 32; 97; 114; 99; 104; 105; 118; 101; 32;
   32; 32; 32; 32; 32; 32; 105; 32; 32; 73; 103; 110; 111; 114; 101; 32; 100; 105; 114; 101; 99; 116;
   111; 114; 121; 32; 112; 97; 116; 104; 10; 32; 120; 44; 101; 32; 69; 120; 116; 114; 97; 99; 116; 32;
   102; 114; 111; 109; 32; 97; 114; 99; 104; 105; 118; 101; 32; 32; 32; 32; 32; 32; 32; 32; 32; 32; 32;
   110; 32; 32; 80; 101; 114; 102; 111; 114; 109; 32; 100; 114; 121; 32; 114; 117; 110; 10; 32; 112;
   32; 32; 32; 80; 114; 105; 110; 116; 32; 116; 111; 32; 115; 116; 100; 111; 117; 116; 32; 102; 114;
   111; 109; 32; 97; 114; 99; 104; 105; 118; 101; 32; 32; 32; 113; 123; 110; 117; 109; 125; 32; 32; 81;
   117; 105; 101; 116; 32; 109; 111; 100; 101; 10; 32; 32; 32; 32; 32; 32; 32; 32; 32; 32; 32; 32; 32;
   32; 32; 32; 32; 32; 32; 32; 32; 32; 32; 32; 32; 32; 32; 32; 32; 32; 32; 32; 32; 32; 32; 32; 118; 32;
   32; 86; 101; 114; 98; 111; 115; 101; 10; 32; 32; 32; 32; 32; 32; 32; 32; 32; 32; 32; 32; 32; 32; 32;
   32; 32; 32; 32; 32; 32; 32; 32; 32; 32; 32; 32; 32; 32; 32; 32; 32; 32; 32; 32; 32; 119; 61; 60;
   100; 105; 114; 62; 32; 83; 112; 101; 99; 105; 102; 121; 32; 101; 120; 116; 114; 97; 99; 116; 32;
   100; 105; 114; 101; 99; 116; 111; 114; 121; 10].

(* "LHa: Error: " *)
Definition s_lha_error : list N :=
  [76; 72; 97; 58; 32; 69; 114; 114; 111; 114; 58; 32].


(* ---- fopen(filename, "rb") over the filesystem model ---- *)
Inductive open_res : Type :=
| OpenFile (data : list N) (mtime : N)
| OpenDir                                  (* open() succeeds on a directory; every read fails (EISDIR) *)
| OpenFail (enoent : bool).

Definition can_read (uid0 : bool) (own : bool) (perm : N) : bool :=
  uid0 || has_bit perm (if own then 256 else 4).

Definition fs_fopen_rb (s : fs) (p : list N) : open_res :=
  match resolve s p true with
  | WOk _ _ (Some (File own perm mt data)) =>
    if can_read (fs_uid0 s) own perm then OpenFile data mt else OpenFail false
  | WOk _ _ (Some (Dir own perm _ _)) =>
    if can_read (fs_uid0 s) own perm then OpenDir else OpenFail false
  | WOk _ _ (Some (Link _)) => OpenFail false          (* cannot happen: the last link is followed *)
  | WOk _ _ None => OpenFail true
  | WRoot => OpenDir
  | WDir loc =>
    match node_at (fs_root s) loc with
    | Some (Dir own perm _ _) => if can_read (fs_uid0 s) own perm then OpenDir else OpenFail false
    | _ => OpenFail false
    end
  | WFail e => OpenFail e
  end.

Record cli_result := {
  cr_stdout : list N;
  cr_stderr : list N;
  cr_exit : N;
  cr_fs : fs
}.

Section Main.
  Variable mktime : N -> N -> N -> N -> Z -> N -> N.
  Variable junk : N.
  Variable localtime : N -> tm.
  Variable now : N.
  Variable stdin_kind : skind.
  Variable strerror : bool -> list N.

  (* help_page: printf of the usage text to stdout; exit(-1) *)
  Definition help_page (progname : list N) (st : cli_state) : outcome (res bool * cli_state) :=
    Ok (RExit exit_minus_1,
        put_out st (PACKAGE_NAME ++ s_v ++ PACKAGE_VERSION ++ s_help_1 ++ progname ++ s_help_2)).

  (* the headers lha_filter_next_file will see while listing: nothing is
     extracted, so the reader delivers each header of the archive once *)
  Definition all_headers_step (s : reader * list header) : outcome ((reader * list header) + (reader * list header)) :=
    let '(r, acc) := s in
    '(h, r') <- lha_reader_next_file mktime r ;;
    match h with
    | None => Ok (inr (r', rev acc))
    | Some hd => Ok (inl (r', hd :: acc))
    end.
  Definition all_headers (r : reader) : outcome (reader * list header) := loop all_headers_step 40 (r, []).

  (* the process before the archive is opened *)
  Definition start_state (s : fs) (stdin : list N) (o : lha_options) : cli_state :=
    {| cs_fs := s; cs_reader := lha_reader_new (lha_input_stream_new (mk_source KFile []));
       cs_opts := o; cs_stdin := stdin; cs_stdin_shared := false; cs_out := []; cs_err := [] |}.

  Definition is_dash (filename : list N) : bool := match filename with [45] => true | _ => false end.

  (* do_command.  mtime: st_mtime of the open archive (read_file_timestamp) *)
  Definition do_command (mode : program_mode) (filename : list N) (filters : list (list N)) (st0 : cli_state)
    : outcome (res bool * cli_state) :=
    LET opened, st <== (if is_dash filename then
                          Ok (RVal (mk_source stdin_kind (cs_stdin st0), now, true), st0)
                        else
                          match fs_fopen_rb (cs_fs st0) filename with
                          | OpenFail e =>
                            Ok (RExit exit_minus_1,
                                put_err st0 (s_lha_error ++ filename ++ [32] ++ strerror e ++ [10]))
                          | OpenDir => Ok (RVal (mk_source KFile [], now, false), st0)
                          | OpenFile data mt => Ok (RVal (mk_source KFile data, if mt =? 0 then now else mt, false), st0)
                          end) ;;
    let '(src, mtime, shared) := opened in
    let reader := lha_reader_new (lha_input_stream_new src) in
    let st1 := {| cs_fs := cs_fs st; cs_reader := reader; cs_opts := cs_opts st;
                  cs_stdin := if shared then [] else cs_stdin st; cs_stdin_shared := shared;
                  cs_out := cs_out st; cs_err := cs_err st |} in
    let filter := lha_filter_init filters in
    match mode with
    | MODE_LIST =>
      '(r', hs) <- all_headers reader ;;
      txt <- list_file_basic localtime filter (cs_opts st1) now mtime hs ;;
      Ok (RVal true, put_out (set_reader st1 r') txt)
    | MODE_LIST_VERBOSE =>
      '(r', hs) <- all_headers reader ;;
      txt <- list_file_verbose localtime filter (cs_opts st1) now mtime hs ;;
      Ok (RVal true, put_out (set_reader st1 r') txt)
    | MODE_CRC_CHECK => test_file_crc mktime junk filter st1
    | MODE_EXTRACT => extract_archive mktime junk filter st1
    | MODE_PRINT => print_archive mktime junk filter st1
    | MODE_UNKNOWN => Ok (RVal true, st1)
    end.

  (* main: argv[0..argc) *)
  Definition lha_main (argv : list (list N)) (stdin : list N) (s : fs) : outcome cli_result :=
    let progname := match argv with p :: _ => p | [] => [] end in
    r <- (match parse_main (tl argv) with
          | Some (mode, o, file, filters) => do_command mode file filters (start_state s stdin o)
          | None => help_page progname (start_state s stdin init_options)
          end) ;;
    let '(v, st) := r in
    Ok {| cr_stdout := stdout_bytes st; cr_stderr := stderr_bytes st;
          cr_exit := match v with
                     | RVal true => 0            (* return !do_command(...) *)
                     | RVal false => 1
                     | RExit c => c
                     end;
          cr_fs := cs_fs st |}.
End Main.

(* ---- the initial filesystem of the differential test (harness/c/drv_cli.c):
   FsRun.fs_init plus /arc (0755, not ours) holding the archive a.lzh (0644,
   not ours, modification time [mtime]), then the set-up operations of the
   case, run by the same process; the trace starts empty after that. ---- *)
Definition bytes_arc : name := [97; 114; 99].                              (* "arc" *)
Definition bytes_a_lzh : name := [97; 46; 108; 122; 104].                  (* "a.lzh" *)

Definition cli_fs_init (uid0 : bool) (archive : list N) (mtime : N) (setup : list op) : fs :=
  let s0 := fs_init uid0 in
  let root' := update_at (fs_root s0) [bytes_arc]
                 (fun _ => Some (Dir false 493 0 [(bytes_a_lzh, File false 420 mtime archive)])) in
  let s1 := {| fs_root := root'; fs_cwd := fs_cwd s0; fs_uid0 := uid0; fs_umask := fs_umask s0; fs_trace := [] |} in
  let '(_, s2) := run_ops setup s1 in
  {| fs_root := fs_root s2; fs_cwd := fs_cwd s2; fs_uid0 := fs_uid0 s2; fs_umask := fs_umask s2; fs_trace := [] |}.

(* the whole test case *)
Definition cli_run (mktime : N -> N -> N -> N -> Z -> N -> N) (localtime : N -> tm) (strerror : bool -> list N)
           (uid0 : bool) (now mtime : N) (argv : list (list N)) (archive stdin : list N) (setup : list op)
  : outcome cli_result :=
  lha_main mktime 0 localtime now KPipe strerror argv stdin (cli_fs_init uid0 archive mtime setup).

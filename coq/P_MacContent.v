(* P_MacContent.v -- C06, members from MacLHA (h_os_type = MACOS): what the
   pass-through decoder (lib/macbinary.c) hands to the caller, in terms of the
   inner stream ibs (the bytes the real decoder produced for the member):

     mac_out h ibs =  ibs                                   if the stored length is < 128
                      first L bytes after the 128-byte envelope,
                        L = data fork length, or resource fork length if the data fork is empty,
                                                            if the first 128 bytes are a MacBinary header for h
                      ibs                                   otherwise

   Relational (no totality assumption): about every run that returns. *)
From Lhasa Require Import Base ListN DecBase Loop Generated Crc16 P_Crc16 InputStream Header BasicReader
  AnyDecoder Decoder MacBinary Fs FsRun Reader P_Decoder P_ReaderCheck P_DecoderTrace.
From Coq Require Import ZifyBool ZifyN ZifyNat.
Local Open Scope N_scope.

Set Default Timeout 60.

Lemma clamp_le_n {cbs st} (d : @decoder cbs st) n : clamp d n <= n.
Proof. unfold clamp. destruct (N.ltb_spec (d_stream_length d) (d_stream_pos d + n)); lia. Qed.

Section MacContent.
  Variable junk : N.
  Notation ireads := (ireads junk).

  Lemma inner_read_le d n o ev d' : inner_read junk d n = Ok (o, ev, d') -> nlen o <= n.
  Proof.
    unfold inner_read. intros H.
    destruct (lha_decoder_read _ _ _ (id_dec d) n) as [[[o1 ev1] d1]| |] eqn:E; cbn [bind] in H; try discriminate.
    inversion H; subst; clear H.
    destruct (dec_read_trace _ _ _ (fun _ _ _ _ _ => True) (fun _ _ => I) (fun _ _ _ _ _ _ _ _ _ _ => I) (fun _ _ _ _ _ _ => I) _ _ _ _ _ E)
      as (_ & _ & _ & _ & _ & _ & Hle & _).
    eapply N.le_trans; [exact Hle|apply clamp_le_n].
  Qed.

  Lemma ireads_load_end a x b c : ireads a x b -> ireads a x (load_br b c).
  Proof.
    intros H. rewrite <- (app_nil_r x). eapply ireads_app; [exact H|]. apply (ir_load junk b c). constructor.
  Qed.

  (* the header bytes still to be handed out *)
  Definition pend (s : mb_state) : list N :=
    if 0 <? mb_header_bytes s then firstn_N (mb_header_bytes s) (mb_header s) else [].

  (* runs of macbinary_decoder_read: ob = what was handed out, ib = the inner bytes
     passed on, dr = the inner bytes decode_to_end discarded after the fork *)
  Definition mspec (s : mb_state) (w : mb_world) (ob : list N) (s' : mb_state) (w' : mb_world) : Prop :=
    exists ib dr, ireads (mw_dec w) (ib ++ dr) (mw_dec w') /\
      pend s ++ ib = ob ++ pend s' /\ nlen ib + mb_remaining s' = mb_remaining s /\
      (dr <> [] -> mb_remaining s' = 0) /\ mb_header s' = mb_header s /\
      (mb_header_bytes s = 0 -> mb_header_bytes s' = 0) /\ (ob = [] \/ mb_header_bytes s' = 0).

  Lemma mspec_refl s w : mspec s w [] s w.
  Proof. exists [], []. split; [constructor|]. rewrite app_nil_r. repeat split; auto. intros H; contradiction H; reflexivity. Qed.

  Lemma mspec_trans s w x s1 w1 y s2 w2 : mspec s w x s1 w1 -> mspec s1 w1 y s2 w2 -> mspec s w (x ++ y) s2 w2.
  Proof.
    intros (ib1 & dr1 & I1 & P1 & R1 & D1 & H1 & B1 & C1) (ib2 & dr2 & I2 & P2 & R2 & D2 & H2 & B2 & C2).
    assert (C : x ++ y = [] \/ mb_header_bytes s2 = 0).
    { destruct C2 as [->|C2]; [|right; exact C2]. destruct C1 as [->|C1]; [left; reflexivity|right; auto]. }
    destruct dr1 as [|b dr1].
    - exists (ib1 ++ ib2), dr2. rewrite app_nil_r in I1.
      split; [rewrite <- app_assoc; eapply ireads_app; eauto|].
      split; [rewrite app_assoc, P1, <- !app_assoc, P2; reflexivity|].
      split; [rewrite nlen_app; lia|]. split; [exact D2|]. split; [congruence|]. split; [auto|exact C].
    - assert (E1 : mb_remaining s1 = 0) by (apply D1; discriminate).
      assert (E2 : ib2 = []) by (apply nlen_zero_nil; lia). subst ib2.
      exists ib1, ((b :: dr1) ++ dr2).
      split; [rewrite app_assoc; eapply ireads_app; eauto|].
      rewrite app_nil_r in P2.
      split; [rewrite P1, <- app_assoc, P2; reflexivity|].
      split; [unfold nlen in *; cbn [length] in *; lia|]. split; [intros _; lia|]. split; [congruence|]. split; [auto|exact C].
  Qed.

  Lemma mspec_load s w ob s' w' w'' b : mspec s w ob s' w' -> mw_dec w'' = load_br (mw_dec w') b -> mspec s w ob s' w''.
  Proof.
    intros (ib & dr & I & P) E. exists ib, dr. split; [rewrite E; apply ireads_load_end; exact I|exact P].
  Qed.

  Lemma mspec_dread s w ch s' w' : macbinary_read junk s w = Ok (ch, s', w') -> mspec s w ch s' w'.
  Proof.
    unfold macbinary_read. fold (pend s). cbv zeta. intros H.
    destruct (mb_OUTPUT_BUFFER_SIZE <? nlen (pend s)); [discriminate|].
    set (tr := if mb_remaining s <? mb_OUTPUT_BUFFER_SIZE - nlen (pend s) then mb_remaining s
               else mb_OUTPUT_BUFFER_SIZE - nlen (pend s)) in *.
    assert (Htr : tr <= mb_remaining s) by (unfold tr; destruct (N.ltb_spec (mb_remaining s) (mb_OUTPUT_BUFFER_SIZE - nlen (pend s))); lia).
    destruct (inner_read junk (mw_dec w) tr) as [[[o ev] d1]| |] eqn:E; cbn [bind] in H; try discriminate.
    pose proof (inner_read_le _ _ _ _ _ E) as Hle. apply ireads_one in E.
    destruct (mb_remaining s - nlen o =? 0) eqn:Ez.
    - destruct (loop (dte_step junk) 64 _) as [w2| |] eqn:El; cbn [bind] in H; try discriminate.
      inversion H; subst; clear H.
      apply loop_sound in El. destruct El as (n & Hl & _). apply dte_loops in Hl. destruct Hl as [bs Hbs]. cbn [mw_dec] in Hbs.
      exists o, bs. split; [eapply ireads_app; eauto|]. unfold pend at 2. cbn [mb_header_bytes mb_remaining mb_header].
      rewrite app_nil_r. apply N.eqb_eq in Ez. repeat split; auto; lia.
    - inversion H; subst; clear H. exists o, []. rewrite app_nil_r. split; [exact E|].
      unfold pend at 2. cbn [mb_header_bytes mb_remaining mb_header mw_dec]. rewrite app_nil_r.
      repeat split; auto; try lia. intros C; contradiction C; reflexivity.
  Qed.

  Lemma macbinary_read_bytes0 s w ch s' w' : macbinary_read junk s w = Ok (ch, s', w') -> mb_header_bytes s' = 0.
  Proof.
    unfold macbinary_read. cbv zeta. intros H.
    destruct (mb_OUTPUT_BUFFER_SIZE <? _); [discriminate|].
    destruct (inner_read junk (mw_dec w) _) as [[[o ev] d1]| |]; cbn [bind] in H; try discriminate.
    destruct (_ =? 0).
    - destruct (loop (dte_step junk) 64 _); cbn [bind] in H; try discriminate. inversion H; subst. reflexivity.
    - inversion H; subst. reflexivity.
  Qed.

  (* ---- the reader with the pass-through decoder open ---- *)
  Notation oread := (lha_decoder_read (macbinary_read junk) macbinary_max_read macbinary_block_size).

  (* OUT: what the caller has received since the decoder was opened in state (m0, w0) *)
  Definition mac_inv (m0 : mb_state) (w0 : mb_world) (L : N) (r : reader) (OUT : list N) : Prop :=
    exists o, rd_decoder r = Some (DO_mac o) /\
      exists ob, mspec m0 w0 ob (d_inner o) (d_cb o) /\ ob = OUT ++ d_outbuf o /\
        d_stream_pos o = nlen OUT /\ d_stream_length o = L /\ nlen OUT <= L /\
        (d_failed o = true -> mb_header_bytes (d_inner o) = 0).

  Lemma mac_read_step m0 w0 L r OUT out ev r' :
    mac_inv m0 w0 L r OUT -> lha_reader_read junk r 64 = Ok (out, ev, r') ->
    mac_inv m0 w0 L r' (OUT ++ out) /\
    (out = [] -> exists o', rd_decoder r' = Some (DO_mac o') /\
                  ((d_outbuf o' = [] /\ d_failed o' = true) \/ nlen OUT = L)).
  Proof.
    intros (o & Hdec & ob & Hm & Hob & Hpos & Hlen & Hle & Hend) H.
    rewrite (reader_read_open junk r 64 _ Hdec), decoder_read_eq, Hdec in H. cbv zeta in H.
    set (w := {| mw_dec := load_br (mw_dec (d_cb o)) (rd_br r); mw_ev := [] |}) in *.
    destruct (oread (set_world o w) 64) as [[[o1 ev1] od1]| |] eqn:E; cbn [bind] in H; try discriminate.
    inversion H; subst out ev r'; clear H.
    destruct (dec_read_trace _ _ _ mspec mspec_refl mspec_trans mspec_dread _ _ _ _ _ E)
      as (ob1 & HT & Hbuf & Hended & Hp1 & Hl1 & Hc1 & Hc2).
    cbn [set_world d_inner d_cb d_outbuf d_stream_pos d_stream_length d_failed] in HT, Hbuf, Hended, Hp1, Hl1.
    assert (Hm' : mspec m0 w0 ob (d_inner o) w) by (eapply mspec_load; [exact Hm|reflexivity]).
    assert (Hcl : clamp (set_world o w) 64 <= L - nlen OUT).
    { unfold clamp. cbn [set_world d_stream_length d_stream_pos]. rewrite Hlen, Hpos.
      destruct (N.ltb_spec L (nlen OUT + 64)); lia. }
    split.
    - exists od1. cbn [set_decoders rd_decoder]. split; [reflexivity|].
      exists (ob ++ ob1). split; [eapply mspec_trans; eauto|].
      split; [rewrite Hob, <- !app_assoc, Hbuf; reflexivity|].
      split; [rewrite Hp1, Hpos, nlen_app; reflexivity|]. split; [congruence|].
      split; [rewrite nlen_app; lia|].
      intros Hf. destruct (Hended Hf) as [[A B]|(s1 & c1 & Hd)].
      + cbn [set_world d_failed d_inner] in A, B. rewrite B. apply Hend. exact A.
      + eapply macbinary_read_bytes0. exact Hd.
    - intros ->. exists od1. cbn [set_decoders rd_decoder]. split; [reflexivity|].
      change (nlen (@nil N)) with 0 in Hc2.
      destruct (N.eq_dec (clamp (set_world o w) 64) 0) as [Ez|Enz].
      + right. unfold clamp in Ez. cbn [set_world d_stream_length d_stream_pos] in Ez. rewrite Hlen, Hpos in Ez.
        destruct (N.ltb_spec L (nlen OUT + 64)); lia.
      + left. destruct (Hc2 ltac:(lia)) as [A B]. auto.
  Qed.

  (* the whole run of do_decode *)
  Lemma mac_dd_run out r f chunks r' f' : dd_run junk out r f chunks r' f' ->
    forall m0 w0 L OUT, mac_inv m0 w0 L r OUT ->
    exists o', rd_decoder r' = Some (DO_mac o') /\
      exists ob, mspec m0 w0 ob (d_inner o') (d_cb o') /\ ob = (OUT ++ concat chunks) ++ d_outbuf o' /\
        nlen (OUT ++ concat chunks) <= L /\
        (d_failed o' = true -> mb_header_bytes (d_inner o') = 0) /\
        ((d_outbuf o' = [] /\ d_failed o' = true) \/ nlen (OUT ++ concat chunks) = L).
  Proof.
    induction 1 as [r f ev r' E|r f o ev ra chunks r' f' Hne E _ IH]; intros m0 w0 L OUT Hinv.
    - destruct (mac_read_step _ _ _ _ _ _ _ _ Hinv E) as [Hinv' Hfin].
      destruct (Hfin eq_refl) as (o' & Hd' & Hcase).
      destruct Hinv' as (o'' & Hd'' & ob & Hm & Hob & _ & _ & Hle & Hend). rewrite Hd' in Hd''. inversion Hd''; subst o''.
      exists o'. split; [exact Hd'|]. exists ob. cbn [concat]. rewrite !app_nil_r in *.
      split; [exact Hm|]. split; [exact Hob|]. split; [exact Hle|]. split; [exact Hend|exact Hcase].
    - destruct (mac_read_step _ _ _ _ _ _ _ _ Hinv E) as [Hinv' _].
      destruct (IH m0 w0 L (OUT ++ o) Hinv') as (o' & Hd' & ob & Hm & Hob & Hle & Hend & Hcase).
      exists o'. split; [exact Hd'|]. exists ob. cbn [concat]. rewrite app_assoc. auto 10.
  Qed.

  (* ---- macbinary_decoder_init ---- *)
  Lemma rmh_loops_ok n : forall s w1 got, loops (rmh_step junk) n s (true, w1, got) -> mb_MBHDR_SIZE <= nlen got.
  Proof.
    induction n as [|n IH]; intros s w1 got Hl; inversion Hl; subst.
    - match goal with E : rmh_step junk s = Ok (inr _) |- _ => rename E into Es end.
      destruct s as [w g]. unfold rmh_step in Es. destruct (N.ltb_spec (nlen g) mb_MBHDR_SIZE).
      + destruct (inner_read junk (mw_dec w) _) as [[[o ev] d1]| |]; cbn [bind] in Es; try discriminate.
        destruct o; inversion Es.
      + inversion Es; subst. assumption.
    - eapply IH; eauto.
  Qed.

  Definition fork_len (got : list N) : N :=
    match be32 1312 got mb_MBHDR_OFF_DATA_FORK_LEN, be32 1313 got mb_MBHDR_OFF_RES_FORK_LEN with
    | Ok dfl, Ok rfl => if 0 <? dfl then dfl else rfl
    | _, _ => 0
    end.

  (* what the caller of the pass-through decoder is handed, given the whole inner stream *)
  Definition mac_out (h : header) (ibs : list N) : list N :=
    if h_length h <? mb_MBHDR_SIZE then ibs else
    match is_macbinary_header (firstn_N mb_MBHDR_SIZE ibs) h with
    | Ok true => firstn_N (fork_len (firstn_N mb_MBHDR_SIZE ibs)) (skipn_N mb_MBHDR_SIZE ibs)
    | _ => ibs
    end.

  Inductive init_case (h : header) (got : list N) (m : mb_state) : Prop :=
  | ic_short : h_length h < mb_MBHDR_SIZE -> got = [] ->
      m = {| mb_header := []; mb_header_bytes := 0; mb_remaining := h_length h |} -> init_case h got m
  | ic_plain : mb_MBHDR_SIZE <= h_length h -> nlen got = mb_MBHDR_SIZE -> is_macbinary_header got h = Ok false ->
      m = {| mb_header := got; mb_header_bytes := nlen got; mb_remaining := h_length h |} -> init_case h got m
  | ic_env : mb_MBHDR_SIZE <= h_length h -> nlen got = mb_MBHDR_SIZE -> is_macbinary_header got h = Ok true ->
      m = {| mb_header := got; mb_header_bytes := 0; mb_remaining := fork_len got |} -> init_case h got m.

  Lemma macbinary_init_case w h m w' : macbinary_init junk w h = Ok (Some m, w') ->
    exists got, ireads (mw_dec w) got (mw_dec w') /\ init_case h got m.
  Proof.
    unfold macbinary_init. cbv zeta. intros H.
    destruct (N.ltb_spec (h_length h) mb_MBHDR_SIZE) as [Hs|Hs].
    { inversion H; subst. exists []. split; [constructor|]. apply ic_short; auto. }
    destruct (loop (rmh_step junk) 10 (w, [])) as [[[ok w1] got]| |] eqn:El; cbn [bind] in H; try discriminate.
    destruct ok; cbn [negb] in H; [|discriminate].
    destruct (N.ltb_spec mb_header_extent (nlen got)) as [Hx|Hx]; [discriminate|].
    apply loop_sound in El. destruct El as (n & Hl & _).
    pose proof (rmh_loops_ok _ _ _ _ Hl) as Hge.
    apply rmh_loops in Hl. destruct Hl as (bs & Hi & Hg). cbn [fst snd app] in Hi, Hg. subst bs.
    assert (Hn : nlen got = mb_MBHDR_SIZE) by (unfold mb_header_extent, mb_MBHDR_SIZE in *; lia).
    destruct (is_macbinary_header got h) as [b| |] eqn:Emb; cbn [bind] in H; try discriminate.
    destruct b; cbn [negb] in H.
    - destruct (be32 1312 got mb_MBHDR_OFF_DATA_FORK_LEN) as [dfl| |] eqn:Ed; cbn [bind] in H; try discriminate.
      destruct (be32 1313 got mb_MBHDR_OFF_RES_FORK_LEN) as [rfl| |] eqn:Er; cbn [bind] in H; try discriminate.
      inversion H; subst. exists got. split; [exact Hi|]. apply ic_env; auto.
      unfold fork_len. rewrite Ed, Er. reflexivity.
    - inversion H; subst. exists got. split; [exact Hi|]. apply ic_plain; auto.
  Qed.

  Lemma firstn_N_app_exact {A} (a b : list A) n : nlen a = n -> firstn_N n (a ++ b) = a.
  Proof. intros <-. rewrite firstn_N_app_l by lia. apply firstn_N_all. lia. Qed.

  Lemma skipn_N_app_exact {A} (a b : list A) n : nlen a = n -> skipn_N n (a ++ b) = b.
  Proof.
    intros <-. rewrite skipn_N_eq. unfold nlen. rewrite Nat2N.id.
    rewrite skipn_app, skipn_all, Nat.sub_diag. reflexivity.
  Qed.

  Lemma firstn_N_drop {A} (ib dr : list A) n : nlen ib <= n -> (dr <> [] -> nlen ib = n) ->
    firstn_N n (ib ++ dr) = ib.
  Proof.
    intros Hle Hd. destruct dr as [|x dr]; [rewrite app_nil_r; apply firstn_N_all; exact Hle|].
    apply firstn_N_app_exact. apply Hd. discriminate.
  Qed.

  (* A. what the run of do_decode hands out for a MacOS member whose inner stream matches the header *)
  Theorem mac_run_content r mon ev1 r1 h out f chunks r' f' dfin :
    open_decoder junk r mon = Ok (true, ev1, r1) -> rd_curr r = Some h ->
    (h_os_type h =? OS_TYPE_MACOS) = true ->
    dd_run junk out r1 f chunks r' f' ->
    inner_of r' = Some dfin -> ipos dfin = h_length h -> icrc dfin = h_crc h ->
    exists ibs, nlen ibs = h_length h /\ lha_crc16_buf 0 ibs = h_crc h /\
      concat chunks = firstn_N (h_length h) (mac_out h ibs).
  Proof.
    intros Hop Hcur Hos Hrun Hof Vl Vc.
    (* open_decoder, unfolded *)
    pose proof Hop as Hop0. unfold open_decoder in Hop.
    destruct (rd_type r) eqn:Et; try discriminate.
    destruct (lha_basic_reader_decode (rd_br r)) as [[dd|]| |] eqn:Ed; cbn [bind] in Hop; try discriminate.
    set (d0' := if mon then with_dec dd (fst (lha_decoder_monitor (id_block_size dd) (id_dec dd))) else dd).
    assert (Hd0 : exists e0, (if mon
                  then (let '(d', e) := lha_decoder_monitor (id_block_size dd) (id_dec dd) in (with_dec dd d', e))
                  else (dd, [])) = (d0', e0)).
    { subst d0'. destruct mon; [|eexists; reflexivity].
      destruct (lha_decoder_monitor (id_block_size dd) (id_dec dd)) as [dm em]. eexists; reflexivity. }
    destruct Hd0 as [e0 Hd0]. rewrite Hd0 in Hop. rewrite Hcur, Hos in Hop.
    assert (Hfresh : fresh_inner r mon d0') by (exists dd; split; [exact Ed|reflexivity]).
    clearbody d0'. rename d0' into d0.
    destruct (macbinary_init junk {| mw_dec := d0; mw_ev := [] |} h) as [[ms w]| |] eqn:Ei; cbn [bind] in Hop; try discriminate.
    destruct ms as [m|]; [|discriminate]. inversion Hop; subst ev1 r1; clear Hop.
    destruct (macbinary_init_case _ _ _ _ Ei) as (got & Higot & Hcase). cbn [mw_dec] in Higot.
    set (w1 := {| mw_dec := mw_dec w; mw_ev := [] |}) in *.
    set (L := h_length h) in *.
    assert (Hinv : mac_inv m w1 L (set_decoders r (idec_br (mw_dec w)) (Some (DO_mac (lha_decoder_new m w1 L))) IR_same) []).
    { eexists. cbn [set_decoders rd_decoder]. split; [reflexivity|]. exists [].
      cbn [lha_decoder_new d_inner d_cb d_outbuf d_stream_pos d_stream_length d_failed].
      split; [apply mspec_refl|]. repeat split; auto; try discriminate. unfold nlen; cbn; lia. }
    destruct (mac_dd_run _ _ _ _ _ _ Hrun m w1 L [] Hinv) as (o' & Hd' & ob & Hm & Hob & Hle & Hend & Hfin).
    cbn [app] in Hob, Hle, Hfin.
    destruct Hm as (ib & dr & Hi & Hp & Hr & Hdr & Hh & Hb0 & Hc).
    (* the inner decoder at the end *)
    destruct (open_decoder_ok junk r mon _ _ h Hop0 Hcur) as (_ & Hcur1 & Hin1 & d00 & x & d1 & ibs0 & _ & Hdec1 & Hof1 & _).
    destruct (dd_run_inner junk _ _ _ _ _ _ Hrun x d1 Hdec1 Hin1 Hof1) as (Hin2 & _ & _ & _).
    assert (Hdfin : dfin = mw_dec (d_cb o')).
    { unfold inner_of in Hof. rewrite Hin2, Hd' in Hof. inversion Hof. reflexivity. }
    set (ibs := got ++ ib ++ dr).
    assert (Hibs : ireads d0 ibs dfin).
    { subst ibs. rewrite Hdfin. eapply ireads_app; [exact Higot|]. exact Hi. }
    exists ibs.
    destruct (fresh_inner_zero r mon d0 Hfresh) as [Hp0 Hc0].
    pose proof (ireads_len_crc junk _ _ _ Hibs) as [Lp Lc].
    rewrite Hp0, N.add_0_l in Lp. rewrite Hc0 in Lc.
    assert (Hlen : nlen ibs = L) by (rewrite <- Lp; exact Vl).
    split; [exact Hlen|]. split; [rewrite <- Lc; exact Vc|].
    (* OUT = firstn L ob *)
    assert (Hout : concat chunks = firstn_N L ob).
    { rewrite Hob. destruct Hfin as [[Hbuf _]|Hfull].
      - rewrite Hbuf, app_nil_r. symmetry. apply firstn_N_all. exact Hle.
      - symmetry. apply firstn_N_app_exact. exact Hfull. }
    rewrite Hout. unfold mac_out. fold L.
    destruct Hcase as [Hs Hg Hm0|Hs Hg Hmb Hm0|Hs Hg Hmb Hm0].
    - (* shorter than a header: passed through *)
      destruct (N.ltb_spec L mb_MBHDR_SIZE) as [_|C]; [|unfold L in C; lia].
      subst got m. cbn [mb_header_bytes mb_remaining] in *. specialize (Hb0 eq_refl).
      unfold pend in Hp. cbn [mb_header_bytes] in Hp. rewrite Hb0 in Hp. cbn in Hp. rewrite app_nil_r in Hp. subst ob.
      unfold ibs. cbn [app].
      destruct dr as [|b dr]; [rewrite app_nil_r; reflexivity|].
      assert (E : mb_remaining (d_inner o') = 0) by (apply Hdr; discriminate).
      rewrite (firstn_N_app_exact ib (b :: dr) L) by lia. apply firstn_N_all. lia.
    - (* no envelope: the 128 bytes read are handed out first *)
      destruct (N.ltb_spec L mb_MBHDR_SIZE) as [C|_]; [unfold L in C; lia|].
      assert (Hfg : firstn_N mb_MBHDR_SIZE ibs = got) by (unfold ibs; apply firstn_N_app_exact; exact Hg).
      rewrite Hfg, Hmb. subst m. cbn [mb_header_bytes mb_remaining mb_header] in *.
      assert (Hb' : mb_header_bytes (d_inner o') = 0).
      { destruct Hc as [Hc|Hc]; [|exact Hc]. subst ob.
        destruct Hfin as [[_ Hfl]|Hfull]; [apply Hend; exact Hfl|].
        symmetry in Hob. apply app_eq_nil in Hob. destruct Hob as [Hob _]. rewrite Hob in Hfull.
        unfold nlen in Hfull. cbn in Hfull. unfold L, mb_MBHDR_SIZE in *. lia. }
      assert (Hpg : pend {| mb_header := got; mb_header_bytes := nlen got; mb_remaining := L |} = got).
      { unfold pend. cbn [mb_header_bytes mb_header]. rewrite Hg. cbn. apply firstn_N_all. rewrite Hg. reflexivity. }
      fold L in Hp, Hr. rewrite Hpg in Hp. unfold pend in Hp at 1. rewrite Hb' in Hp. cbn in Hp. rewrite app_nil_r in Hp. subst ob.
      unfold ibs. destruct dr as [|b dr]; [rewrite app_nil_r; reflexivity|].
      assert (E : mb_remaining (d_inner o') = 0) by (apply Hdr; discriminate).
      rewrite (app_assoc got ib). rewrite (firstn_N_app_l L (got ++ ib)) by (rewrite nlen_app; lia). reflexivity.
    - (* an envelope: the fork *)
      destruct (N.ltb_spec L mb_MBHDR_SIZE) as [C|_]; [unfold L in C; lia|].
      assert (Hfg : firstn_N mb_MBHDR_SIZE ibs = got) by (unfold ibs; apply firstn_N_app_exact; exact Hg).
      assert (Hsk : skipn_N mb_MBHDR_SIZE ibs = ib ++ dr) by (unfold ibs; apply skipn_N_app_exact; exact Hg).
      rewrite Hfg, Hmb, Hsk. subst m. cbn [mb_header_bytes mb_remaining mb_header] in *. specialize (Hb0 eq_refl).
      unfold pend in Hp. cbn [mb_header_bytes] in Hp. rewrite Hb0 in Hp. cbn in Hp. rewrite app_nil_r in Hp. subst ob.
      f_equal. symmetry. apply firstn_N_drop; [lia|]. intros Hd. specialize (Hdr Hd). lia.
  Qed.

  Theorem mac_extract_content r f name mon ev r' f' h :
    extract_file junk r f name mon = Ok (true, ev, r', f') -> rd_curr r = Some h ->
    (h_os_type h =? OS_TYPE_MACOS) = true ->
    exists hd f1 chunks ibs,
      arch_fopen f (ex_fname h name) (ex_perms h) = (Some hd, f1) /\
      f' = snd (set_timestamps_from_header (write_chunks hd chunks f1) (ex_fname h name) h) /\
      nlen ibs = h_length h /\ lha_crc16_buf 0 ibs = h_crc h /\
      concat chunks = firstn_N (h_length h) (mac_out h ibs).
  Proof.
    intros H Hcur Hos.
    destruct (extract_file_verdict junk _ _ _ _ _ _ _ _ _ H Hcur) as (ok & ev1 & r1 & Hop & Hfalse & Htrue).
    destruct ok; [|destruct (Hfalse eq_refl); discriminate]. specialize (Htrue eq_refl).
    destruct (arch_fopen f (ex_fname h name) (ex_perms h)) as [[hd|] f1]; [|destruct Htrue; discriminate].
    destruct Htrue as (d0 & ibsx & dfin & chunks & Hfresh & Hix & Hof & Hrun & Hne & _ & Hres & Hf).
    destruct (fresh_inner_zero r mon d0 Hfresh) as [Hp0 Hc0].
    pose proof (ireads_len_crc junk _ _ _ Hix) as [Lpx Lcx].
    symmetry in Hres. apply verdict_true in Hres. destruct Hres as [Vl Vc].
    rewrite Hp0, N.add_0_l in Lpx. rewrite Hc0 in Lcx.
    destruct (mac_run_content r mon ev1 r1 h _ _ _ _ _ dfin Hop Hcur Hos Hrun Hof ltac:(congruence) ltac:(congruence))
      as (ibs & A & B & C).
    exists hd, f1, chunks, ibs. auto.
  Qed.
End MacContent.

Print Assumptions mac_run_content.
Print Assumptions mac_extract_content.

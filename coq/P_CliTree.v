(* P_CliTree.v -- C06: extract_archive on a well-formed archive reproduces the
   described tree.

   The archive is described by a forest of items (file with its bytes, safe
   symbolic link, directory with its items); its serialisation [ser] puts every
   directory entry first, followed contiguously by its contents.  The reader is
   abstracted by [positioned]: the basic reader delivers these headers in this
   order and every regular member decodes to the described bytes, which match
   the header's length and CRC ([member_ok]).

   Key lemma [forest_run] (the END_OF_DIR bookkeeping): the loop of
   extract_archive, started where the next entries are the serialisation of
   the items of the directory dl followed by [rest] whose first entry lies
   outside dl, presents for every directory item: its entry, its contents, and
   then -- triggered by the first entry outside it, or by the end -- the fake
   entry that applies time, owner and mode; at the end the directory dl holds
   exactly the built nodes, appended in order. *)
From Lhasa Require Import Base ListN DecBase Loop Generated Crc16 InputStream Header BasicReader
  AnyDecoder Decoder MacBinary Fs FsRun Reader Glob ListOut CliFilter CliExtract
  P_ReaderCheck P_FsExtract P_ReaderExtract P_CliExtract.
From Coq Require Import ZifyBool ZifyN ZifyNat.
Local Open Scope N_scope.

Set Default Timeout 120.

(* ---- is_prefix ---- *)
Lemma is_prefix_app a : forall b, is_prefix a (a ++ b) = true.
Proof. induction a as [|x a IH]; intros b; [reflexivity|]. cbn [app is_prefix]. rewrite N.eqb_refl. apply IH. Qed.

Lemma is_prefix_cancel a : forall x y, is_prefix (a ++ x) (a ++ y) = is_prefix x y.
Proof. induction a as [|k a IH]; intros x y; [reflexivity|]. cbn [app is_prefix]. rewrite N.eqb_refl. apply IH. Qed.

Lemma is_prefix_weaken a x : forall p, is_prefix (a ++ x) p = true -> is_prefix a p = true.
Proof.
  induction a as [|k a IH]; intros p H; [reflexivity|].
  destruct p as [|q p]; cbn [app is_prefix] in *; [discriminate|].
  apply andb_prop in H. destruct H as [H1 H2]. rewrite H1. apply IH. exact H2.
Qed.

Lemma is_prefix_nil_r x : x <> [] -> is_prefix x [] = false.
Proof. destruct x; [intros H; contradiction H; reflexivity|reflexivity]. Qed.

Lemma is_prefix_names c : forall c', slashfree c -> slashfree c' -> is_prefix (c ++ [47]) (c' ++ [47]) = true -> c = c'.
Proof.
  induction c as [|x c IH]; intros [|y c'] Hc Hc' H.
  - reflexivity.
  - cbn [app is_prefix] in H. inversion Hc' as [|y0 c0 Hy Hr]; subst.
    apply andb_prop in H. destruct H as [H _]. apply N.eqb_eq in H. congruence.
  - cbn [app is_prefix] in H. inversion Hc as [|x0 c0 Hx Hr]; subst.
    apply andb_prop in H. destruct H as [H _]. apply N.eqb_eq in H. congruence.
  - cbn [app is_prefix] in H. inversion Hc as [|x0 c0 Hx Hr]; subst. inversion Hc' as [|y0 c1 Hy Hr']; subst.
    apply andb_prop in H. destruct H as [E1 E2]. apply N.eqb_eq in E1. subst y. f_equal. apply IH; assumption.
Qed.

(* ------------------------------------------------------------------ *)
(* the archive as the basic reader delivers it *)

Inductive member := MFile (h : header) (bs : list N) | MOther (h : header).
Definition hdr (m : member) : header := match m with MFile h _ => h | MOther h => h end.
Definition pstr (m : member) : list N := opt_str (h_path (hdr m)).

(* the description *)
Inductive item :=
| IFile (c : name) (h : header) (bs : list N)
| ILink (c : name) (h : header) (tgt : list N)
| IDir (c : name) (h : header) (sub : list item).

Definition iname (it : item) : name := match it with IFile c _ _ => c | ILink c _ _ => c | IDir c _ _ => c end.
Definition ihdr (it : item) : header := match it with IFile _ h _ => h | ILink _ h _ => h | IDir _ h _ => h end.

(* directory first, then its contents *)
Fixpoint ser (it : item) : list member :=
  match it with
  | IFile _ h bs => [MFile h bs]
  | ILink _ h _ => [MOther h]
  | IDir _ h sub => MOther h :: flat_map ser sub
  end.

(* iterations of the loop: a directory is presented twice *)
Fixpoint size (it : item) : nat :=
  match it with
  | IDir _ _ sub => S (S (fold_right (fun x a => size x + a)%nat O sub))
  | _ => 1%nat
  end.
Definition sizes (its : list item) : nat := fold_right (fun x a => size x + a)%nat O its.

Definition fmode (u : N) (h : header) : N :=
  match ex_perms h with Some x => N.land x 4095 | None => N.land 384 (N.lxor 4095 u) end.

(* the node an item becomes: contents, recorded mode (or the default), recorded time, target *)
Fixpoint build (u : N) (it : item) : node :=
  match it with
  | IFile _ h bs => File true (fmode u h) (h_timestamp h) bs
  | ILink _ _ tgt => Link tgt
  | IDir _ h sub => Dir true (dir_final_mode u h) (h_timestamp h) (map (fun x => (iname x, build u x)) sub)
  end.
Definition builds (u : N) (its : list item) : list (name * node) := map (fun x => (iname x, build u x)) its.

(* well-formed: names, path lengths, headers that say where the item is, distinct names in a directory;
   files carry no set-ID bits unless the tool runs as root (the kernel drops them on write) *)
Fixpoint wf_item (u : N) (uid0 : bool) (dl : list name) (it : item) : Prop :=
  match it with
  | IFile c h bs => good_name c /\ nlen (dirstr dl ++ c) <= 4095 /\ file_hdr dl c h /\
                    (uid0 = true \/ drop_setid (fmode u h) = fmode u h)
  | ILink c h tgt => good_name c /\ nlen (dirstr dl ++ c) <= 4095 /\ link_hdr dl c h tgt
  | IDir c h sub => good_name c /\ nlen (dirstr (dl ++ [c])) <= 4095 /\ dir_hdr dl c h /\
                    NoDup (map iname sub) /\
                    (fix all (l : list item) : Prop :=
                       match l with [] => True | x :: r => wf_item u uid0 (dl ++ [c]) x /\ all r end) sub
  end.

Lemma wf_all u uid0 dl : forall l,
  (fix all (l : list item) : Prop := match l with [] => True | x :: r => wf_item u uid0 dl x /\ all r end) l <->
  Forall (wf_item u uid0 dl) l.
Proof.
  induction l as [|x r IH].
  - split; intros H; [constructor|exact I].
  - split; intros H.
    + destruct H as [H1 H2]. constructor; [exact H1|apply IH; exact H2].
    + inversion H; subst. split; [assumption|]. apply IH. assumption.
Qed.

Lemma ser_head it : exists tl, ser it = (match it with IFile _ h bs => MFile h bs | _ => MOther (ihdr it) end) :: tl.
Proof. destruct it; eexists; reflexivity. Qed.

(* the path string of the first member of an item of dl *)
Lemma ser_head_pstr u uid0 dl it : wf_item u uid0 dl it ->
  exists m tl, ser it = m :: tl /\ hdr m = ihdr it /\
    (pstr m = dirstr dl \/ pstr m = dirstr (dl ++ [iname it])).
Proof.
  destruct it as [c h bs|c h tgt|c h sub]; cbn [wf_item ser].
  - intros (_ & _ & (Hp & _) & _). eexists _, _. split; [reflexivity|]. split; [reflexivity|]. left. exact Hp.
  - intros (_ & _ & (Hp & _)). eexists _, _. split; [reflexivity|]. split; [reflexivity|]. left. exact Hp.
  - intros (_ & _ & (Hp & _) & _). eexists _, _. split; [reflexivity|]. split; [reflexivity|]. right.
    unfold pstr. cbn [hdr iname]. rewrite Hp. reflexivity.
Qed.

Section Tree.
  Variable mktime : N -> N -> N -> N -> Z -> N -> N.
  Variable junk : N.
  Variable f : lha_filter.
  Hypothesis Hnofilter : f_filters f = [].

  (* [positioned br ms]: the basic reader br has just delivered the header of the
     first member of ms (none at the end of the archive); a regular member
     decodes -- whatever the reader's bookkeeping -- to its bytes, and the next
     header is read after that *)
  Inductive positioned : breader -> list member -> Prop :=
  | pos_end br : br_curr br = None -> positioned br []
  | pos_file br h bs ms : br_curr br = Some h ->
      (forall r, rd_br r = br -> rd_type r = CT_NORMAL -> rd_curr r = Some h ->
         exists r2, member_ok junk r h bs r2 /\
           exists x br', lha_basic_reader_next_file mktime (rd_br r2) = Ok (x, br') /\ positioned br' ms) ->
      positioned br (MFile h bs :: ms)
  | pos_other br h ms x br' : br_curr br = Some h ->
      lha_basic_reader_next_file mktime br = Ok (x, br') -> positioned br' ms ->
      positioned br (MOther h :: ms).

  Definition upcoming (r : reader) (ms : list member) : Prop :=
    exists br1, fetch mktime r = Ok (br1, false) /\ positioned br1 ms.

  Definition rinv (r : reader) (stk : list header) : Prop :=
    rd_policy r = DIR_END_OF_DIR /\ rd_deferred r = [] /\ rd_dir_stack r = stk /\ rd_type r <> CT_EOF.

  Definition stack_ok (stk : list header) (dl : list name) : Prop :=
    stk = [] \/ (dl <> [] /\ exists top rest, stk = top :: rest /\ h_path top = Some (dirstr dl)).

  Definition outside (dl : list name) (rest : list member) : Prop :=
    match rest with [] => True | m :: _ => is_prefix (dirstr dl) (pstr m) = false end.

  (* ---- one iteration ---- *)
  Lemma next_header_eq st x r' :
    lha_reader_next_file mktime (cs_reader st) = Ok (x, r') ->
    next_header mktime f st = Ok (x, set_reader st r').
  Proof.
    intros H. unfold next_header, filter_next_file.
    rewrite (loop_complete_N (filter_step mktime f) 40 O (cs_reader st) (x, r')); [reflexivity| |cbn; lia].
    constructor. unfold filter_step. rewrite H. cbn [bind].
    destruct x as [hd|]; [|reflexivity]. unfold matches_filter. rewrite Hnofilter. reflexivity.
  Qed.

  Lemma step_entry b st h r' st2 :
    lha_reader_next_file mktime (cs_reader st) = Ok (Some h, r') ->
    extract_archived_file junk h (set_reader st r') = Ok (RVal true, st2) ->
    extract_archive_step mktime junk f (b, st) = Ok (inl (b, st2)).
  Proof.
    intros Hn He. unfold extract_archive_step. rewrite (next_header_eq st _ _ Hn). cbn [bind]. rewrite He. reflexivity.
  Qed.

  Lemma step_end b st r' :
    lha_reader_next_file mktime (cs_reader st) = Ok (None, r') ->
    extract_archive_step mktime junk f (b, st) = Ok (inr (RVal b, set_reader st r')).
  Proof. intros Hn. unfold extract_archive_step. rewrite (next_header_eq st _ _ Hn). reflexivity. Qed.

  (* ---- presenting a real entry of the directory dl ---- *)
  Lemma nopop_in_dir stk dl h ip : stack_ok stk dl -> h_path h = Some ip \/ dl = [] -> opt_str (h_path h) = ip ->
    is_prefix (dirstr dl) ip = true ->
    stk = [] \/ exists top rest tp ip', stk = top :: rest /\ h_path top = Some tp /\ h_path h = Some ip' /\ is_prefix tp ip' = true.
  Proof.
    intros [->|(Hne & top & rest & -> & Htop)] Hp Hs Hpre; [left; reflexivity|right].
    destruct Hp as [Hp|Hp]; [|contradiction].
    exists top, rest, (dirstr dl), ip. repeat split; auto.
  Qed.

  Lemma present_entry r stk dl ms m ip :
    rinv r stk -> stack_ok stk dl -> upcoming r (m :: ms) ->
    (h_path (hdr m) = Some ip \/ dl = []) -> pstr m = ip -> is_prefix (dirstr dl) ip = true ->
    exists br1, positioned br1 (m :: ms) /\
      lha_reader_next_file mktime r = Ok (Some (hdr m), mk_reader br1 (Some (hdr m)) CT_NORMAL stk false).
  Proof.
    intros (Hpol & Hdef & Hstk & Hty) Hso (br1 & Hf & Hpos) Hp Hs Hpre.
    exists br1. split; [exact Hpos|].
    rewrite (next_file_eq mktime r Hty), Hf. cbn [bind].
    assert (Hcur : br_curr br1 = Some (hdr m)) by (inversion Hpos; subst; assumption).
    rewrite (present_real r br1 false (hdr m) stk Hpol Hstk Hcur (nopop_in_dir stk dl (hdr m) ip Hso Hp Hs Hpre)).
    rewrite Hdef. reflexivity.
  Qed.

  Lemma dirstr_nonnil dl : dl <> [] -> dirstr dl <> [].
  Proof. destruct dl as [|d ds]; [intros H; contradiction H; reflexivity|]. intros _. rewrite dirstr_cons. destruct d; discriminate. Qed.

  Lemma hpath_some h dl : opt_str (h_path h) = dirstr dl -> h_path h = Some (dirstr dl) \/ dl = [].
  Proof.
    intros H. destruct (h_path h) as [p|]; cbn [opt_str] in H; [left; rewrite H; reflexivity|].
    right. destruct dl as [|d ds]; [reflexivity|]. symmetry in H. apply dirstr_nonnil in H; [contradiction|discriminate].
  Qed.

  (* ---- the fake entry of the directory on top of the stack ---- *)
  Lemma present_fake r h stk dl c ms :
    rinv r (h :: stk) -> h_path h = Some (dirstr (dl ++ [c])) -> upcoming r ms -> outside (dl ++ [c]) ms ->
    exists br1, positioned br1 ms /\
      lha_reader_next_file mktime r = Ok (Some h, mk_reader br1 (Some h) CT_FAKE_DIR stk false).
  Proof.
    intros (Hpol & Hdef & Hstk & Hty) Hp (br1 & Hf & Hpos) Hout.
    exists br1. split; [exact Hpos|].
    rewrite (next_file_eq mktime r Hty), Hf. cbn [bind].
    rewrite (present_pop r br1 false h stk (dirstr (dl ++ [c])) Hpol Hstk Hp).
    - rewrite Hdef. reflexivity.
    - destruct ms as [|m ms']; [left; inversion Hpos; subst; assumption|right].
      exists (hdr m). split; [inversion Hpos; subst; assumption|exact Hout].
  Qed.

  Lemma upcoming_mk br1 c stk ms : positioned br1 ms -> upcoming (mk_reader br1 c CT_FAKE_DIR stk false) ms.
  Proof. intros H. exists br1. split; [reflexivity|exact H]. Qed.
End Tree.

Section Forest.
  Variable mktime : N -> N -> N -> N -> Z -> N -> N.
  Variable junk : N.
  Variable f : lha_filter.
  Hypothesis Hnofilter : f_filters f = [].
  Variables (u : N) (uid0 : bool).
  Hypothesis Humask : umask_ok u.

  Notation step := (extract_archive_step mktime junk f).
  Notation upcoming := (upcoming mktime junk).
  Notation positioned := (positioned mktime junk).

  Lemma iters_one b st st' : step (b, st) = Ok (inl (b, st')) -> iters step 1 (b, st) (b, st').
  Proof. intros H. econstructor; [exact H|constructor]. Qed.

  Lemma is_prefix_refl a : is_prefix a a = true.
  Proof. rewrite <- (app_nil_r a) at 2. apply is_prefix_app. Qed.

  Lemma file_mode_fmode s h : file_mode s h = fmode (fs_umask s) h.
  Proof. reflexivity. Qed.

  (* the first entry after the contents of the directory c of dl is outside it *)
  Lemma outside_child dl c more rest :
    good_name c -> Forall (wf_item u uid0 dl) more -> ~ In c (map iname more) -> outside dl rest ->
    outside (dl ++ [c]) (flat_map ser more ++ rest).
  Proof.
    intros Hc Hwf Hnin Hout. destruct more as [|x more'].
    - cbn [flat_map app]. destruct rest as [|m rest']; [exact I|]. cbn [outside] in *.
      destruct (is_prefix (dirstr (dl ++ [c])) (pstr m)) eqn:E; [|reflexivity].
      rewrite dirstr_app in E. apply is_prefix_weaken in E. congruence.
    - inversion Hwf as [|x0 m0 Hx Hm]; subst x0 m0.
      destruct (ser_head_pstr u uid0 dl x Hx) as (m & tl & Es & _ & Hps).
      cbn [flat_map]. rewrite Es. cbn [app outside].
      rewrite dirstr_snoc. destruct Hps as [Hps|Hps]; rewrite Hps.
      + rewrite <- (app_nil_r (dirstr dl)) at 2. rewrite is_prefix_cancel. apply is_prefix_nil_r.
        destruct c; discriminate.
      + rewrite dirstr_snoc, is_prefix_cancel.
        destruct (is_prefix (c ++ [47]) (iname x ++ [47])) eqn:E; [|reflexivity].
        exfalso. apply Hnin. left. symmetry. apply is_prefix_names; [apply Hc| |exact E].
        destruct x as [c' h' bs'|c' h' t'|c' h' sub']; cbn [wf_item iname] in *; apply Hx.
  Qed.

  Lemma lookup_builds_none ents its c : lookup ents c = None -> ~ In c (map iname its) -> lookup (ents ++ builds u its) c = None.
  Proof.
    intros Hl Hnin. rewrite lookup_app_none by exact Hl. induction its as [|x r IH]; [reflexivity|].
    cbn [builds map lookup]. rewrite name_eqb_neq.
    - apply IH. intros Hin. apply Hnin. right. exact Hin.
    - intros E. apply Hnin. left. exact E.
  Qed.

  Lemma forest_run : forall n its, (sizes its <= n)%nat -> forall dl rest st b o pm t ents stk,
    Forall (wf_item u uid0 dl) its -> NoDup (map iname its) -> (forall c, In c (map iname its) -> lookup ents c = None) ->
    plain_opts (cs_opts st) -> fs_umask (cs_fs st) = u -> fs_uid0 (cs_fs st) = uid0 ->
    dir_ready (cs_fs st) dl o pm t ents -> N.land pm 1024 = 0 ->
    rinv (cs_reader st) stk -> stack_ok stk dl ->
    upcoming (cs_reader st) (flat_map ser its ++ rest) -> outside dl rest ->
    exists st', iters step (sizes its) (b, st) (b, st') /\
      cs_opts st' = cs_opts st /\ same_env (cs_fs st) (cs_fs st') /\
      rinv (cs_reader st') stk /\ upcoming (cs_reader st') rest /\
      match its with
      | [] => st' = st
      | _ => fs_root (cs_fs st') = update_at (fs_root (cs_fs st)) (fs_cwd (cs_fs st) ++ dl)
                                     (const_some (Dir o pm now (ents ++ builds u its)))
      end.
  Proof.
    induction n as [|n IHn]; intros its Hsz dl rest st b o pm t ents stk Hwf Hnd Hfresh Hopts Hum Huid Hready Hsg Hrinv Hso Hup Hout.
    - destruct its as [|it more].
      + exists st. split; [constructor|]. split; [reflexivity|]. split; [apply same_env_refl|]. auto.
      + exfalso. cbn [sizes fold_right] in Hsz. destruct it; cbn [size] in Hsz; lia.
    - destruct its as [|it more].
      + exists st. split; [constructor|]. split; [reflexivity|]. split; [apply same_env_refl|]. auto.
      + inversion Hwf as [|it0 more0 Hit Hmore]; subst it0 more0. cbn [map] in Hnd. inversion Hnd as [|c0 l0 Hnin Hnd']; subst c0 l0.
        assert (Hsz1 : (1 <= size it)%nat) by (destruct it; cbn [size]; lia).
        assert (Hszs : sizes (it :: more) = (size it + sizes more)%nat) by reflexivity.
        (* after the head item, the tail *)
        assert (Htail : forall st1, iters step (size it) (b, st) (b, st1) ->
                  cs_opts st1 = cs_opts st -> same_env (cs_fs st) (cs_fs st1) -> rinv (cs_reader st1) stk ->
                  upcoming (cs_reader st1) (flat_map ser more ++ rest) ->
                  fs_root (cs_fs st1) = update_at (fs_root (cs_fs st)) (fs_cwd (cs_fs st) ++ dl)
                                          (const_some (Dir o pm now (ents ++ [(iname it, build u it)]))) ->
                  exists st', iters step (sizes (it :: more)) (b, st) (b, st') /\
                    cs_opts st' = cs_opts st /\ same_env (cs_fs st) (cs_fs st') /\
                    rinv (cs_reader st') stk /\ upcoming (cs_reader st') rest /\
                    fs_root (cs_fs st') = update_at (fs_root (cs_fs st)) (fs_cwd (cs_fs st) ++ dl)
                                            (const_some (Dir o pm now (ents ++ builds u (it :: more))))).
        { intros st1 Hit1 Hopts1 Henv1 Hrinv1 Hup1 Hroot1.
          assert (Hready1 : dir_ready (cs_fs st1) dl o pm now (ents ++ [(iname it, build u it)])).
          { eapply dir_ready_update; eauto. }
          destruct (IHn more ltac:(lia) dl rest st1 b o pm now (ents ++ [(iname it, build u it)]) stk) as
              (st' & Hit' & Hopts' & Henv' & Hrinv' & Hup' & Hroot'); auto.
          { intros c Hin. rewrite lookup_app_none by (apply Hfresh; right; exact Hin). cbn [lookup].
            rewrite name_eqb_neq; [reflexivity|]. intros E. subst c. contradiction. }
          { rewrite Hopts1. exact Hopts. }
          { destruct Henv1 as (_ & _ & E). congruence. }
          { destruct Henv1 as (_ & E & _). congruence. }
          exists st'. split; [rewrite Hszs; eapply iters_app; eauto|].
          split; [congruence|]. split; [exact (same_env_trans _ _ _ Henv1 Henv')|].
          split; [exact Hrinv'|]. split; [exact Hup'|].
          destruct more as [|x more'].
          - subst st'. rewrite Hroot1. reflexivity.
          - rewrite Hroot', Hroot1. destruct Henv1 as (Ec & _ & _). rewrite Ec, update_const_twice.
            cbn [builds map]. rewrite <- app_assoc. reflexivity. }
        pose proof Hrinv as (Hpol & Hdef & Hstk & Htyne).
        destruct it as [c h bs|c h tgt|c h sub]; cbn [wf_item] in Hit; cbn [iname build] in Htail; cbn [iname] in Hnin;
          cbn [flat_map ser app] in Hup.
        * (* a regular file *)
          destruct Hit as (Hc & Hlen & Hfh & Hmode). pose proof Hfh as (Hp & _).
          destruct (present_entry mktime junk (cs_reader st) stk dl _ (MFile h bs) (dirstr dl) Hrinv Hso Hup)
            as (br1 & Hpos & Hnext); [apply hpath_some; exact Hp|exact Hp|apply is_prefix_refl|].
          cbn [hdr] in Hnext. set (r1 := mk_reader br1 (Some h) CT_NORMAL stk false) in *.
          inversion Hpos as [|br0 h0 bs0 ms0 Hcur Hdec|]; subst br0 h0 bs0 ms0.
          destruct (Hdec r1 eq_refl eq_refl eq_refl) as (r2 & Hmem & x & br' & Hbn & Hpos').
          assert (Hl0 : lookup ents c = None) by (apply Hfresh; left; reflexivity).
          assert (Hmode' : fs_uid0 (cs_fs st) = true \/ drop_setid (file_mode (cs_fs st) h) = file_mode (cs_fs st) h).
          { rewrite file_mode_fmode, Hum. destruct Hmode as [Hm|Hm]; [left; congruence|right; exact Hm]. }
          destruct (cli_extract_file junk h (set_reader st r1) dl c o pm t ents bs r2) as (st2 & Hex & Hrd2 & Hopts2 & Henv2 & Hroot2); auto.
          cbn [cs_fs set_reader cs_opts] in *.
          pose proof (member_ok_book junk r1 h bs r2 Hmem) as Hbook. unfold book in Hbook. cbn [r1 mk_reader rd_curr rd_type rd_policy rd_dir_stack rd_deferred rd_linked] in Hbook.
          injection Hbook as B1 B2 B3 B4 B5 B6.
          apply (Htail st2).
          { apply iters_one. eapply step_entry; eauto. }
          { exact Hopts2. } { exact Henv2. }
          { rewrite Hrd2. split; [exact B3|]. split; [exact B5|]. split; [exact B4|]. rewrite B2. discriminate. }
          { rewrite Hrd2. exists br'. split; [|exact Hpos']. unfold fetch. rewrite B2, Hbn. reflexivity. }
          { rewrite Hroot2, file_mode_fmode, Hum. reflexivity. }
        * (* a safe symbolic link *)
          destruct Hit as (Hc & Hlen & Hlh). pose proof Hlh as (Hp & _).
          destruct (present_entry mktime junk (cs_reader st) stk dl _ (MOther h) (dirstr dl) Hrinv Hso Hup)
            as (br1 & Hpos & Hnext); [apply hpath_some; exact Hp|exact Hp|apply is_prefix_refl|].
          cbn [hdr] in Hnext. set (r1 := mk_reader br1 (Some h) CT_NORMAL stk false) in *.
          inversion Hpos as [| |br0 h0 ms0 x br' Hcur Hbn Hpos']; subst br0 h0 ms0.
          assert (Hl0 : lookup ents c = None) by (apply Hfresh; left; reflexivity).
          destruct (cli_extract_link junk h (set_reader st r1) dl c o pm t ents tgt) as (st2 & Hex & Hopts2 & Hrd2 & Henv2 & Hroot2); auto.
          cbn [cs_fs set_reader cs_opts cs_reader] in *.
          apply (Htail st2).
          { apply iters_one. eapply step_entry; eauto. }
          { exact Hopts2. } { exact Henv2. }
          { rewrite Hrd2. repeat split; discriminate. }
          { rewrite Hrd2. exists br'. split; [|exact Hpos']. unfold fetch. cbn [r1 mk_reader rd_type rd_br]. rewrite Hbn. reflexivity. }
          { exact Hroot2. }
        * (* a directory, its contents, its fake entry *)
          destruct Hit as (Hc & Hlen & Hdh & Hndsub & Hwfsub). apply wf_all in Hwfsub. pose proof Hdh as (Hp & _).
          assert (Hps : opt_str (h_path h) = dirstr (dl ++ [c])) by (rewrite Hp; reflexivity).
          destruct (present_entry mktime junk (cs_reader st) stk dl _ (MOther h) (dirstr (dl ++ [c])) Hrinv Hso Hup)
            as (br1 & Hpos & Hnext); [left; exact Hp|exact Hps|rewrite dirstr_app; apply is_prefix_app|].
          cbn [hdr] in Hnext. set (r1 := mk_reader br1 (Some h) CT_NORMAL stk false) in *.
          inversion Hpos as [| |br0 h0 ms0 x br' Hcur Hbn Hpos']; subst br0 h0 ms0.
          assert (Hl0 : lookup ents c = None) by (apply Hfresh; left; reflexivity).
          destruct (cli_extract_dir junk h (set_reader st r1) dl c o pm t ents) as (st2 & Hex & Hopts2 & Henv2 & Hrd2 & Hroot2); auto.
          cbn [cs_fs set_reader cs_opts cs_reader r1 mk_reader rd_br rd_curr rd_type rd_decoder rd_inner rd_policy rd_dir_stack rd_deferred] in *.
          rewrite Hum in Hroot2. set (m := dir_first_mode u h) in *.
          assert (Hready2 : dir_ready (cs_fs st2) dl o pm now (ents ++ [(c, Dir true m now [])])).
          { eapply (dir_ready_update (cs_fs st) (cs_fs st2)); [exact Hready|exact Henv2|exact Hroot2]. }
          destruct (dir_req_bits h) as [R6 R7].
          destruct (mkdir_mode_owner u (dir_req h) (fs_uid0 (cs_fs st2)) now [] Humask R6 R7) as [Hsrch Hwrt].
          assert (Hready2' : dir_ready (cs_fs st2) (dl ++ [c]) true m now []).
          { eapply dir_ready_enter; eauto. }
          rewrite <- app_assoc in Hpos'.
          destruct (IHn sub ltac:(cbn [sizes fold_right size] in Hsz; unfold sizes; lia) (dl ++ [c]) (flat_map ser more ++ rest) st2 b
                        true m now [] (h :: stk)) as (st3 & Hit3 & Hopts3 & Henv3 & Hrinv3 & Hup3 & Hroot3); auto.
          { rewrite Hopts2. exact Hopts. }
          { destruct Henv2 as (_ & _ & E). congruence. }
          { destruct Henv2 as (_ & E & _). congruence. }
          { apply mkdir_mode_nosgid. }
          { rewrite Hrd2. repeat split; discriminate. }
          { right. split; [destruct dl; discriminate|]. exists h, stk. split; [reflexivity|exact Hp]. }
          { rewrite Hrd2. exists br'. split; [|exact Hpos']. unfold fetch. cbn [rd_type rd_br]. rewrite Hbn. reflexivity. }
          { apply outside_child; auto. }
          (* the state after the contents, in terms of the state before the directory entry *)
          assert (Hcwd2 : fs_cwd (cs_fs st2) = fs_cwd (cs_fs st)) by apply Henv2.
          assert (Hroot3' : fs_root (cs_fs st3) = update_at (fs_root (cs_fs st)) (fs_cwd (cs_fs st) ++ dl)
                              (const_some (Dir o pm now (ents ++ [(c, Dir true m now (builds u sub))])))).
          { destruct sub as [|y sub'].
            - subst st3. exact Hroot2.
            - rewrite Hroot3, Hcwd2, app_assoc.
              destruct Hready2 as (_ & _ & Hn2 & _). rewrite Hcwd2 in Hn2.
              rewrite (update_loc_to_parent _ _ o pm now _ c _ Hn2), (set_ent_last _ _ _ _ Hl0), Hroot2.
              apply update_const_twice. }
          assert (Henv23 : same_env (cs_fs st) (cs_fs st3)) by exact (same_env_trans _ _ _ Henv2 Henv3).
          assert (Hready3 : dir_ready (cs_fs st3) dl o pm now (ents ++ [(c, Dir true m now (builds u sub))])).
          { eapply (dir_ready_update (cs_fs st) (cs_fs st3)); [exact Hready|exact Henv23|exact Hroot3']. }
          (* the fake entry *)
          destruct (present_fake mktime junk (cs_reader st3) h stk dl c (flat_map ser more ++ rest) Hrinv3 Hp Hup3)
            as (br3 & Hpos3 & Hnext3); [apply outside_child; auto|].
          set (r4 := mk_reader br3 (Some h) CT_FAKE_DIR stk false) in *.
          destruct (cli_extract_fake junk h (set_reader st3 r4) dl c o pm now (ents ++ [(c, Dir true m now (builds u sub))]) m (builds u sub))
            as (st5 & Hex5 & Hopts5 & Hrd5 & Hmeta); auto.
          { cbn [cs_opts set_reader]. rewrite Hopts3, Hopts2. exact Hopts. }
          { apply lookup_last. exact Hl0. }
          cbn [cs_fs set_reader cs_opts cs_reader] in *.
          destruct Hmeta as (Henv5 & _ & ents5 & Hn5 & Hl5 & Hcase).
          apply (Htail st5).
          { replace (size (IDir c h sub)) with (1 + (sizes sub + 1))%nat by (cbn [size]; unfold sizes; lia).
            eapply iters_app; [apply iters_one; eapply step_entry; eauto|].
            eapply iters_app; [exact Hit3|]. apply iters_one. eapply step_entry; eauto. }
          { congruence. }
          { exact (same_env_trans _ _ _ Henv23 Henv5). }
          { rewrite Hrd5. repeat split; discriminate. }
          { rewrite Hrd5. apply upcoming_mk. exact Hpos3. }
          { assert (Hcwd3 : fs_cwd (cs_fs st3) = fs_cwd (cs_fs st)) by apply Henv23.
            unfold dir_final_mode. fold m.
            destruct Hcase as [[Hr5 He5]|[Hr5 He5]].
            - subst ents5. rewrite (lookup_last _ _ _ Hl0) in Hl5. injection Hl5 as E1 E2.
              rewrite Hr5, Hroot3'. unfold builds. congruence.
            - rewrite Hr5, Hcwd3, Hroot3', update_const_twice, (set_ent_last _ _ _ _ Hl0). reflexivity. }
  Qed.
End Forest.

(* ------------------------------------------------------------------ *)
(* the whole command *)
Section Whole.
  Variable mktime : N -> N -> N -> N -> Z -> N -> N.
  Variable junk : N.
  Variable f : lha_filter.
  Hypothesis Hnofilter : f_filters f = [].
  Variables (u : N) (uid0 : bool).
  Hypothesis Humask : umask_ok u.

  Lemma lookup_builds its : NoDup (map iname its) -> forall it, In it its ->
    lookup (builds u its) (iname it) = Some (build u it).
  Proof.
    induction its as [|x r IH]; intros Hnd it Hin; [destruct Hin|].
    cbn [map] in Hnd. inversion Hnd as [|c0 l0 Hnin Hnd']; subst c0 l0.
    cbn [builds map lookup]. destruct Hin as [->|Hin].
    - rewrite name_eqb_refl. reflexivity.
    - rewrite name_eqb_neq; [apply IH; assumption|].
      intros E. apply Hnin. rewrite E. apply in_map. exact Hin.
  Qed.

  (* C/D. "lha x" on a well-formed archive, into a directory that has none of its top-level names *)
  Theorem extract_archive_reproduces_tree its st o pm t ents :
    let s := cs_fs st in
    Forall (wf_item u uid0 []) its -> NoDup (map iname its) ->
    (forall c, In c (map iname its) -> lookup ents c = None) ->
    plain_opts (cs_opts st) -> fs_umask s = u -> fs_uid0 s = uid0 ->
    dir_ready s [] o pm t ents -> N.land pm 1024 = 0 ->
    rinv (cs_reader st) [] -> upcoming mktime junk (cs_reader st) (flat_map ser its) ->
    N.of_nat (sizes its) < 2 ^ 40 ->
    exists st', extract_archive mktime junk f st = Ok (RVal true, st') /\
      same_env s (cs_fs st') /\
      match its with
      | [] => cs_fs st' = s
      | _ => fs_root (cs_fs st') = update_at (fs_root s) (fs_cwd s) (const_some (Dir o pm now (ents ++ builds u its)))
      end.
  Proof.
    intros s Hwf Hnd Hfresh Hopts Hum Huid Hready Hsg Hrinv Hup Hsz.
    rewrite <- (app_nil_r (flat_map ser its)) in Hup.
    destruct (forest_run mktime junk f Hnofilter u uid0 Humask (sizes its) its (le_n _) [] [] st true o pm t ents []
                Hwf Hnd Hfresh Hopts Hum Huid Hready Hsg Hrinv (or_introl eq_refl) Hup I)
      as (st1 & Hit & Hopts1 & Henv1 & Hrinv1 & Hup1 & Hroot1).
    destruct Hrinv1 as (Hpol1 & Hdef1 & Hstk1 & Hty1). destruct Hup1 as (br1 & Hf1 & Hpos1).
    assert (Hcur1 : br_curr br1 = None) by (inversion Hpos1; assumption).
    assert (Hnext : exists r', lha_reader_next_file mktime (cs_reader st1) = Ok (None, r')).
    { rewrite (next_file_eq mktime _ Hty1), Hf1. cbn [bind]. rewrite (present_end _ br1 false Hstk1 Hdef1 Hcur1). eauto. }
    destruct Hnext as [r' Hnext].
    pose proof (step_end mktime junk f Hnofilter true st1 r' Hnext) as Hend.
    assert (Hloops : loops (extract_archive_step mktime junk f) (sizes its + 0) (true, st) (RVal true, set_reader st1 r')).
    { eapply loops_after_iters; [exact Hit|]. constructor. exact Hend. }
    exists (set_reader st1 r'). split.
    - unfold extract_archive. destruct Hopts as (_ & _ & Hd). rewrite Hd.
      eapply loop_complete_N; [exact Hloops|]. rewrite Nat.add_0_r. exact Hsz.
    - cbn [cs_fs set_reader]. split; [exact Henv1|].
      destruct its as [|it more]; [subst st1; reflexivity|].
      rewrite Hroot1, app_nil_r. reflexivity.
  Qed.

  (* reading the result: every top-level item is at its name; inside a built directory every item is at its name *)
  Corollary extracted_top its root cwd o pm ents m0 : node_at root cwd = Some m0 ->
    NoDup (map iname its) -> (forall c, In c (map iname its) -> lookup ents c = None) ->
    forall it, In it its ->
    node_at (update_at root cwd (const_some (Dir o pm now (ents ++ builds u its)))) (cwd ++ [iname it]) = Some (build u it).
  Proof.
    intros H0 Hnd Hfresh it Hin. rewrite (node_at_child _ _ _ _ _ _ _ _ _ H0).
    rewrite lookup_app_none by (apply Hfresh; apply in_map; exact Hin).
    rewrite (lookup_builds its Hnd it Hin). reflexivity.
  Qed.

  Corollary extracted_sub c h sub : NoDup (map iname sub) -> forall it, In it sub ->
    node_at (build u (IDir c h sub)) [iname it] = Some (build u it).
  Proof.
    intros Hnd it Hin. cbn [build]. rewrite node_at_cons. fold (builds u sub). rewrite (lookup_builds sub Hnd it Hin). reflexivity.
  Qed.
End Whole.

Print Assumptions forest_run.
Print Assumptions extract_archive_reproduces_tree.

(* P_ReaderDirCount.v -- property C15, E (ii), the global count.

   An instrumented run carries two ghost lists next to the reader:
     pushed : the directories lha_reader_extract has put on the directory stack,
     popped : the directories lha_reader_next_file has presented as fake entries,
   both read off the reader before and after the operation (a stack one longer
   after an extract; an entry of type CT_FAKE_DIR after a next).

   Invariant, for every sequence of OpNext / OpRead / OpCheck / OpExtract from a
   new reader, whatever the policy set at the start:
       Permutation pushed (popped ++ rd_dir_stack r)
   and the stack is empty once the end has been reported.  Hence, over a history
   that reaches the end, the directories re-presented are exactly the directories
   extracted, each once ([dirs_presented_exactly_once]); [drain] (P_ReaderIndep)
   says in which order the ones still on the stack come out.

   Where: under DIR_END_OF_DIR, with the directory [top] on top of the stack and
   the basic reader having moved on to [input], next_file presents [top] (fake)
   exactly when the archive is exhausted or [input] lies outside [top], and
   presents [input] itself exactly when it lies inside ([end_of_dir_position]);
   while fake entries are being presented the basic reader does not move, so
   [input] is the first later entry outside the directory.

   Lemmas and theorems only. *)
From Lhasa Require Import Base DecBase ListN Loop Generated InputStream Header BasicReader AnyDecoder Decoder
  MacBinary Fs FsRun Reader P_Intact P_StreamEquiv P_BasicReaderIndep P_ReaderIndep.
From Coq Require Import ZifyBool ZifyN ZifyNat Permutation.
Local Open Scope N_scope.

Section Count.
  Variable mktime : N -> N -> N -> N -> Z -> N -> N.
  Variable junk : N.

  Record ghost := { g_pushed : list header; g_popped : list header }.

  (* the ghost update, read off the reader before and after the operation *)
  Definition ghost_step (o : op) (r r' : reader) (g : ghost) : ghost :=
    match o with
    | OpExtract _ _ =>
      match rd_dir_stack r' with
      | h :: rest => if (length (rd_dir_stack r) <? length (rd_dir_stack r'))%nat
                     then {| g_pushed := h :: g_pushed g; g_popped := g_popped g |} else g
      | [] => g
      end
    | OpNext =>
      match rd_type r', rd_curr r' with
      | CT_FAKE_DIR, Some top => {| g_pushed := g_pushed g; g_popped := top :: g_popped g |}
      | _, _ => g
      end
    | _ => g
    end.

  Fixpoint run_ops_g (s : reader * fs) (g : ghost) (l : list op) : outcome (list obs * (reader * fs) * ghost) :=
    match l with
    | [] => Ok ([], s, g)
    | o :: rest =>
      '(x, s1) <- run_op mktime junk s o ;;
      '(xs, s2, g2) <- run_ops_g s1 (ghost_step o (fst s) (fst s1) g) rest ;;
      Ok (x :: xs, s2, g2)
    end.

  (* the instrumentation does not change the run *)
  Lemma run_ops_g_erase l : forall s g,
    match run_ops_g s g l, run_ops mktime junk s l with
    | Ok (xs, s', _), Ok (ys, t') => xs = ys /\ s' = t'
    | Fault a, Fault b => a = b
    | OutOfFuel, OutOfFuel => True
    | _, _ => False
    end.
  Proof.
    induction l as [|o l IH]; intros s g; cbn [run_ops_g run_ops]; [auto|].
    destruct (run_op mktime junk s o) as [[x s1]| |]; cbn [bind]; auto.
    specialize (IH s1 (ghost_step o (fst s) (fst s1) g)).
    destruct (run_ops_g s1 _ l) as [[[xs s2] g2]| |]; destruct (run_ops mktime junk s1 l) as [[ys t2]| |];
      cbn [bind]; try contradiction; auto.
    destruct IH as [-> ->]. auto.
  Qed.

  Definition count_inv (r : reader) (g : ghost) : Prop :=
    Permutation (g_pushed g) (g_popped g ++ rd_dir_stack r) /\
    (rd_type r = CT_EOF -> rd_dir_stack r = []).

  Lemma count_inv_op r f o x r' f' g : count_inv r g ->
    run_op mktime junk (r, f) o = Ok (x, (r', f')) -> count_inv r' (ghost_step o r r' g).
  Proof.
    intros [P Ee] H. unfold run_op in H. destruct o as [|n|mon|fn mon]; cbn [ghost_step].
    - bind_inv H as [h r1] E. inversion H; subst.
      destruct (curr_type_eq_dec (rd_type r) CT_EOF) as [Te|Te].
      + rewrite next_file_unfold, Te in E. inversion E; subst. cbn [rd_type rd_curr close_decoder]. rewrite Te.
        split; [exact P|exact Ee].
      + destruct (next_file_presented mktime r h r' Te E) as (br1 & _ & Pr & _).
        clear E.
        destruct Pr as [top rest r2 A1 A2 A3 A4 A5 A6|hd r2 B1 B2 B3 B4 B5 B6|l rest r2 C1 C2 C3 C4 C5 C6 C7|r2 D1 D2 D3 D4 D5 D6 D7].
        * unfold count_inv. rewrite A3, A2. rewrite A1 in P. rewrite A4.
          split; [|intros; congruence]. cbn [g_pushed g_popped].
          eapply perm_trans; [exact P|]. symmetry. apply Permutation_middle.
        * unfold count_inv. rewrite B3, B4. split; [exact P|intros; congruence].
        * unfold count_inv. rewrite C5, C6. rewrite C2 in P. split; [exact P|reflexivity].
        * unfold count_inv. rewrite D5, D6. rewrite D2 in P. split; [exact P|reflexivity].
    - bind_inv H as [[bs ev] r1] E. inversion H; subst. apply lha_reader_read_frame in E.
      destruct E as (_ & T & _ & S & _). unfold count_inv. rewrite S, T. auto.
    - bind_inv H as [[b ev] r1] E. inversion H; subst. apply lha_reader_check_frame in E.
      destruct E as (_ & T & _ & S & _). unfold count_inv. rewrite S, T. auto.
    - bind_inv H as [[[b ev] r1] f1] E. inversion H; subst. apply lha_reader_extract_frame in E.
      destruct E as (_ & T & _ & [[Es _]|[(h & _ & Tn & _ & _ & _ & Es & _)|(h & _ & _ & _ & Es & _)]]).
      + rewrite Es. unfold count_inv. rewrite Es, T.
        destruct (rd_dir_stack r); [auto|]. rewrite Nat.ltb_irrefl. auto.
      + rewrite Es. cbn [length].
        destruct (Nat.ltb_spec (length (rd_dir_stack r)) (Datatypes.S (length (rd_dir_stack r)))) as [_|Bad]; [|lia].
        unfold count_inv. cbn [g_pushed g_popped]. rewrite Es, T. split; [|intros; congruence].
        eapply perm_trans; [apply perm_skip; exact P|]. apply Permutation_middle.
      + rewrite Es. unfold count_inv. rewrite Es, T.
        destruct (rd_dir_stack r); [auto|]. rewrite Nat.ltb_irrefl. auto.
  Qed.

  Lemma run_ops_g_inv l : forall r f g xs r' f' g',
    count_inv r g -> run_ops_g (r, f) g l = Ok (xs, (r', f'), g') -> count_inv r' g'.
  Proof.
    induction l as [|o l IH]; intros r f g xs r' f' g' I H; cbn [run_ops_g] in H.
    - inversion H; subst. exact I.
    - bind_inv H as [x [r1 f1]] E1. bind_inv H as [[xs1 [r2 f2]] g2] E2. inversion H; subst.
      cbn [fst] in E2. eapply IH; [|exact E2]. eapply count_inv_op; eauto.
  Qed.

  Definition g0 : ghost := {| g_pushed := []; g_popped := [] |}.

  (* E (ii), the count: along every history from a new reader (any policy) *)
  Theorem pushed_popped_stack st pol f l xs r' f' g' :
    run_ops_g (lha_reader_set_dir_policy (lha_reader_new st) pol, f) g0 l = Ok (xs, (r', f'), g') ->
    Permutation (g_pushed g') (g_popped g' ++ rd_dir_stack r').
  Proof.
    intros H. eapply (run_ops_g_inv l) in H; [exact (proj1 H)|].
    split; [apply perm_nil|intros; reflexivity].
  Qed.

  (* ... and over a history that reaches the end: the directories presented
     again are exactly the directories extracted, each once *)
  Theorem dirs_presented_exactly_once st pol f l xs r' f' g' :
    run_ops_g (lha_reader_set_dir_policy (lha_reader_new st) pol, f) g0 l = Ok (xs, (r', f'), g') ->
    rd_type r' = CT_EOF ->
    Permutation (g_pushed g') (g_popped g').
  Proof.
    intros H T. eapply (run_ops_g_inv l) in H; [|split; [apply perm_nil|intros; reflexivity]].
    destruct H as [P E]. rewrite (E T), app_nil_r in P. exact P.
  Qed.

  (* the end is reached exactly when an OpNext answers "no entry" *)
  Lemma next_none_type r0 r : lha_reader_next_file mktime r0 = Ok (None, r) -> rd_type r = CT_EOF.
  Proof. intros H. apply next_file_none_eof in H. apply H. Qed.

  (* ---------------------------------------------------------------- *)
  (* Where: the END_OF_DIR policy                                      *)

  (* [input] lies outside the directory [top]: it has no path, or its path does not start with top's *)
  Definition outside (top input : header) : Prop :=
    match h_path input with
    | None => True
    | Some ip => match h_path top with Some tp => is_prefix tp ip = false | None => False end
    end.
  Definition inside (top input : header) : Prop :=
    exists tp ip, h_path top = Some tp /\ h_path input = Some ip /\ is_prefix tp ip = true.

  Lemma nf_choose_end_of_dir r br1 lk h r' top rest :
    nf_choose r br1 lk = Ok (h, r') -> rd_policy r = DIR_END_OF_DIR -> rd_dir_stack r = top :: rest ->
    (h = Some top /\ rd_type r' = CT_FAKE_DIR /\ rd_dir_stack r' = rest /\
     (br_curr br1 = None \/ exists input, br_curr br1 = Some input /\ outside top input)) \/
    (exists input, br_curr br1 = Some input /\ h = Some input /\ rd_type r' = CT_NORMAL /\
                   rd_dir_stack r' = top :: rest /\ inside top input).
  Proof.
    intros H Pol St. unfold nf_choose in H. cbv zeta in H. bind_inv H as pop Ep.
    unfold end_of_top_dir in Ep. rdsimp. rewrite St, Pol in Ep. rewrite St in H.
    destruct (br_curr br1) as [input|] eqn:Cb.
    - destruct (h_path input) as [ip|] eqn:Hi.
      + destruct (h_path top) as [tp|] eqn:Ht; [|discriminate].
        inversion Ep; subst pop. destruct (is_prefix tp ip) eqn:Pre; cbn [negb] in H; rdsimp.
        * rewrite ?Cb in H. inversion H; subst. rdsimp. right. exists input. repeat split; auto.
          exists tp, ip. auto.
        * inversion H; subst. rdsimp. left. repeat split; auto. right. exists input. split; [reflexivity|].
          unfold outside. rewrite Hi, Ht. exact Pre.
      + inversion Ep; subst pop. rdsimp. inversion H; subst. rdsimp. left. repeat split; auto.
        right. exists input. split; [reflexivity|]. unfold outside. rewrite Hi. exact I.
    - inversion Ep; subst pop. rdsimp. inversion H; subst. rdsimp. left. repeat split; auto.
  Qed.

  (* One call of lha_reader_next_file under DIR_END_OF_DIR with [top] on top of
     the stack: the basic reader moves on only if the entry just presented was a
     member of the archive (otherwise the member it stands on is still pending);
     then either [top] is presented, because the archive is exhausted or the
     pending member lies outside [top], or the pending member is, and lies inside. *)
  Theorem end_of_dir_position r0 h r' top rest :
    lha_reader_next_file mktime r0 = Ok (h, r') ->
    rd_policy r0 = DIR_END_OF_DIR -> rd_dir_stack r0 = top :: rest -> rd_type r0 <> CT_EOF ->
    (match rd_type r0 with
     | CT_START | CT_NORMAL => exists hh, lha_basic_reader_next_file mktime (rd_br r0) = Ok (hh, rd_br r')
     | _ => rd_br r' = rd_br r0
     end) /\
    ((h = Some top /\ rd_type r' = CT_FAKE_DIR /\ rd_dir_stack r' = rest /\
      (br_curr (rd_br r') = None \/ exists input, br_curr (rd_br r') = Some input /\ outside top input)) \/
     (exists input, br_curr (rd_br r') = Some input /\ h = Some input /\ rd_type r' = CT_NORMAL /\
                    rd_dir_stack r' = top :: rest /\ inside top input)).
  Proof.
    intros H Pol St NE. rewrite next_file_unfold in H.
    destruct (rd_type r0) eqn:T; [| | | |contradiction].
    - bind_inv H as [hh br'] Eb. pose proof (nf_choose_cases _ _ _ _ _ H) as (_ & Br & _). subst br'.
      split; [exists hh; exact Eb|]. eapply nf_choose_end_of_dir; eauto.
    - bind_inv H as [hh br'] Eb. pose proof (nf_choose_cases _ _ _ _ _ H) as (_ & Br & _). subst br'.
      split; [exists hh; exact Eb|]. eapply nf_choose_end_of_dir; eauto.
    - pose proof (nf_choose_cases _ _ _ _ _ H) as (_ & Br & _). split; [exact Br|].
      rewrite Br. eapply nf_choose_end_of_dir; eauto.
    - pose proof (nf_choose_cases _ _ _ _ _ H) as (_ & Br & _). split; [exact Br|].
      rewrite Br. eapply nf_choose_end_of_dir; eauto.
  Qed.
End Count.

(* ------------------------------------------------------------------ *)
(* Non-vacuity: directory d/, file d/a inside it, file a outside it     *)

(* level-0 header of the file "d\a" (path d/, name a), -lh0-, empty *)
Definition ex_inside_header : list N :=
  [25; 162; 45; 108; 104; 48; 45;  0; 0; 0; 0;  0; 0; 0; 0;  0; 0; 0; 0;  32; 0;  3; 100; 92; 97;  0; 0].

Definition names (l : list header) : list (list N) := map full_path l.

Example ex_count :
  let arch := ex_dir_header ++ ex_inside_header ++ ex_bytes in
  let ops := [OpNext; OpExtract None false; OpNext; OpNext; OpNext; OpNext] in
  match run_ops_g mktime_utc 0 (lha_reader_set_dir_policy (ex_reader KFile arch) DIR_END_OF_DIR, ex_fs) g0 ops with
  | Ok (xs, (r, _), g) =>
    entries xs = [(Some [100; 47], false); (Some [100; 47; 97], false); (Some [100; 47], true);
                  (Some [97], false); (None, false)] /\
    names (g_pushed g) = [[100; 47]] /\ names (g_popped g) = [[100; 47]] /\ rd_type r = CT_EOF
  | _ => False
  end.
Proof. vm_compute. repeat split; reflexivity. Qed.

Example ex_count_theorem :
  let arch := ex_dir_header ++ ex_inside_header ++ ex_bytes in
  let ops := [OpNext; OpExtract None false; OpNext; OpNext; OpNext; OpNext] in
  forall xs r f g,
    run_ops_g mktime_utc 0 (lha_reader_set_dir_policy (ex_reader KFile arch) DIR_END_OF_DIR, ex_fs) g0 ops
      = Ok (xs, (r, f), g) ->
    Permutation (g_pushed g) (g_popped g).
Proof.
  cbv zeta. intros xs r f g H. eapply dirs_presented_exactly_once; [exact H|].
  vm_compute in H. inversion H; subst. reflexivity.
Qed.

Print Assumptions pushed_popped_stack.
Print Assumptions dirs_presented_exactly_once.
Print Assumptions end_of_dir_position.
Print Assumptions run_ops_g_erase.
Print Assumptions ex_count.
Print Assumptions ex_count_theorem.

(* P_KindIndepSfx.v -- property C16, the two halves together: the members an
   archive yields behind a self-extractor prefix, read through any kind of
   source, are the members the bare archive yields through any other kind.

   C16 (properties.jsonl): "The members an archive yields - headers, data and
   verdicts - are the same whether it is read from a seekable file, a
   non-seekable pipe (including '-' for standard input), or caller-supplied
   callbacks with or without skip support.  They are also unchanged when the
   first header is preceded by up to 255 KiB of bytes that contain neither an
   archive-method signature nor a self-extractor marker, as in self-extracting
   executables, and when such a stub embeds one decoy header after an 'LHA-SFX'
   or 'LhASFX V1.2,' marker."

   P_Sfx.v proves what the scan leaves behind (sfx_prefix_skipped,
   sfx_one_decoy: the stream is positioned exactly at the archive A).  Here that
   is carried through the whole reader API: the generic reader-level section of
   P_KindIndepReader.v is instantiated with [sfx_br_rel] = "equivalent basic
   readers in the sense of P_BasicReaderIndep.v (same remaining bytes, split
   between lead-in buffer and source forgotten), or two fresh readers whose
   scans succeed and leave the same remaining bytes".

     members_same_after_scan        : X scans to A  ==>  every operation sequence
                                      observes the same on (k1, X) and (k2, A)
     members_same_after_sfx_prefix  : X = P ++ A, P quiet        (sfx_prefix_skipped)
     members_same_after_sfx_decoy   : X = P ++ A, one marker + one decoy in P

   Lemmas and theorems only. *)
From Lhasa Require Import Base DecBase ListN Loop Generated Crc16 InputStream P_Sfx Header BasicReader AnyDecoder Decoder
  MacBinary Fs FsRun Reader P_HeaderSafe P_Intact P_StreamEquiv P_BasicReaderIndep P_ReaderIndep
  P_KindIndep P_KindIndepReader.
From Coq Require Import ZifyBool ZifyN ZifyNat.
Local Open Scope N_scope.

(* ------------------------------------------------------------------ *)
(* breader_equiv (P_BasicReaderIndep.v) is compatible with the reader layer *)

Lemma read_compressed_bequiv a b n : breader_equiv a b ->
  fst (lha_basic_reader_read_compressed a n) = fst (lha_basic_reader_read_compressed b n) /\
  breader_equiv (snd (lha_basic_reader_read_compressed a n)) (snd (lha_basic_reader_read_compressed b n)).
Proof.
  intros H. pose proof H as (C & E & R). unfold lha_basic_reader_read_compressed. rewrite <- E.
  destruct (br_eof a) eqn:Ea; [cbn [orb fst snd]; auto|]. cbn [orb].
  destruct (R eq_refl) as [S Rm]. rewrite <- Rm.
  destruct (br_remaining a =? 0); [cbn [fst snd]; auto|].
  pose proof S as (_ & St & _). rewrite <- St.
  pose proof (read_ready_equiv (br_stream a) (br_stream b)
                (if br_remaining a <? n then br_remaining a else n) S) as [F Sr].
  destruct (read_ready (br_stream a) _) as [res1 st1], (read_ready (br_stream b) _) as [res2 st2].
  cbn [fst snd] in F, Sr. subst res2.
  destruct (is_state (br_stream a)); [cbn [fst snd]; auto| |].
  - destruct res1; cbn [fst snd]; (split; [reflexivity|]); unfold breader_equiv;
      cbn [br_stream br_curr br_remaining br_eof]; (split; [exact C|]); (split; [reflexivity|]).
    + intros _. split; [exact Sr|reflexivity].
    + intros; discriminate.
  - destruct res1; cbn [fst snd]; (split; [reflexivity|]); unfold breader_equiv;
      cbn [br_stream br_curr br_remaining br_eof]; (split; [exact C|]); (split; [reflexivity|]).
    + intros _. split; [exact Sr|reflexivity].
    + intros; discriminate.
Qed.

Lemma breader_equiv_compat : br_compat breader_equiv.
Proof.
  split; [|split].
  - intros a b (C & _). exact C.
  - intros a b n H. apply read_compressed_bequiv. exact H.
  - intros mktime a b H Wa Wb. apply next_file_equiv; assumption.
Qed.

(* ------------------------------------------------------------------ *)
(* Fresh readers whose scans leave the same bytes                      *)

Definition after_scan (st' : istream) : istream :=
  {| is_src := is_src st'; is_state := IS_READING; is_leadin := is_leadin st' |}.

Lemma stream_read_after_scan st st' n : is_state st = IS_INIT -> skip_sfx st = Ok (true, st') ->
  lha_input_stream_read st n = lha_input_stream_read (after_scan st') n.
Proof.
  intros Hi E. unfold lha_input_stream_read. rewrite Hi, E. cbn [bind after_scan is_state]. reflexivity.
Qed.

Lemma header_read_after_scan mktime st st' : is_state st = IS_INIT -> skip_sfx st = Ok (true, st') ->
  lha_file_header_read mktime st = lha_file_header_read mktime (after_scan st').
Proof.
  intros Hi E. unfold lha_file_header_read. rewrite (stream_read_after_scan st st' _ Hi E). reflexivity.
Qed.

Definition sfx_fresh (a b : breader) : Prop :=
  br_curr a = None /\ br_curr b = None /\ br_eof a = false /\ br_eof b = false /\
  br_remaining a = 0 /\ br_remaining b = 0 /\
  is_state (br_stream a) = IS_INIT /\ is_state (br_stream b) = IS_INIT /\
  exists a' b', skip_sfx (br_stream a) = Ok (true, a') /\ skip_sfx (br_stream b) = Ok (true, b') /\
                so_kind (is_src a') = so_kind (is_src b') /\ remaining a' = remaining b'.

Definition sfx_br_rel (a b : breader) : Prop := breader_equiv a b \/ sfx_fresh a b.

Lemma nf_tail_after_scan mktime a a' : br_eof a = false ->
  is_state (br_stream a) = IS_INIT -> skip_sfx (br_stream a) = Ok (true, a') ->
  nf_tail mktime a =
  nf_tail mktime {| br_stream := after_scan a'; br_curr := None; br_remaining := br_remaining a; br_eof := false |}.
Proof.
  intros Ee Hi E. unfold nf_tail. cbn [br_eof br_stream br_remaining]. rewrite Ee.
  rewrite (header_read_after_scan mktime _ _ Hi E). reflexivity.
Qed.

Lemma sfx_br_rel_compat : br_compat sfx_br_rel.
Proof.
  split; [|split].
  - intros a b [(C & _)|(Ca & Cb & _)]; congruence.
  - intros a b n [H|H].
    + destruct (read_compressed_bequiv a b n H) as [F B]. split; [exact F|left; exact B].
    + pose proof H as (Ca & Cb & Ea & Eb & Ra & Rb & _).
      unfold lha_basic_reader_read_compressed. rewrite Ra, Rb. rewrite !orb_true_r. cbn [fst snd].
      split; [reflexivity|right; exact H].
  - intros mktime a b [H|H] Wa Wb.
    + eapply orel_weaken; [apply next_file_equiv; assumption|].
      intros x y [E B]. split; [exact E|left; exact B].
    + destruct H as (Ca & Cb & Ea & Eb & Ra & Rb & Ia & Ib & a' & b' & Sa & Sb & K & Rm).
      rewrite (next_file_none mktime a Ca), (next_file_none mktime b Cb).
      rewrite (nf_tail_after_scan mktime a a' Ea Ia Sa), (nf_tail_after_scan mktime b b' Eb Ib Sb).
      eapply orel_weaken.
      * apply next_file_tail_equiv; cbn [br_curr br_eof br_stream]; try reflexivity.
        intros _. unfold stream_equiv, after_scan, remaining in *. cbn [is_src is_state is_leadin].
        repeat split; auto. intros; discriminate.
      * intros x y [E B]. split; [exact E|left; exact B].
Qed.

(* ------------------------------------------------------------------ *)
(* The scan keeps the kind of the source                               *)

Lemma skip_sfx_keeps_kind k data ok st' :
  skip_sfx (lha_input_stream_new (mk_source k data)) = Ok (ok, st') -> so_kind (is_src st') = k.
Proof.
  intros E. pose proof (P_Sfx.skip_sfx_source_kind k k data) as H. rewrite E in H. cbn [omap fst snd] in H.
  inversion H as [H1]. rewrite H1. reflexivity.
Qed.

(* X scans to A: the self-extractor scan over X succeeds and leaves the stream at A *)
Definition scans_to (X A : list N) : Prop :=
  forall k, exists st', skip_sfx (lha_input_stream_new (mk_source k X)) = Ok (true, st') /\
                        is_leadin st' ++ so_data (is_src st') = A.

Lemma sfx_fresh_new k X A : scans_to X A -> scans_to A A ->
  sfx_fresh (lha_basic_reader_new (lha_input_stream_new (mk_source k X)))
            (lha_basic_reader_new (lha_input_stream_new (mk_source k A))).
Proof.
  intros HX HA. destruct (HX k) as (x' & Ex & Rx). destruct (HA k) as (a' & Ea & Ra).
  unfold sfx_fresh. cbn [lha_basic_reader_new br_curr br_eof br_remaining br_stream lha_input_stream_new is_state].
  repeat (split; [reflexivity|]). exists x', a'. split; [exact Ex|]. split; [exact Ea|].
  split; [rewrite (skip_sfx_keeps_kind _ _ _ _ Ex), (skip_sfx_keeps_kind _ _ _ _ Ea); reflexivity|].
  unfold remaining. congruence.
Qed.

(* an archive that starts with a method signature scans to itself *)
Lemma scans_to_self A : 13 <= nlen A -> match_at A 0 = true -> scans_to A A.
Proof.
  intros HA Hm k.
  destruct (P_Sfx.sfx_prefix_skipped k [] A) as (st' & E & R & _).
  - vm_compute. reflexivity.
  - exact HA.
  - exact Hm.
  - intros q Hq. rewrite nlen_nil in Hq. lia.
  - exists st'. cbn [app] in E. auto.
Qed.

(* ------------------------------------------------------------------ *)
(* The theorems                                                        *)

(* Whatever makes the scan over X stop exactly at A: every sequence of API calls
   observes on X, through any kind of source, what it observes on A through any
   other kind. *)
Theorem members_same_after_scan mktime junk X A p f l k1 k2 :
  scans_to X A -> scans_to A A -> nlen X < 1099511627776 -> nlen A < 1099511627776 ->
  observed (run_ops mktime junk (reader_on k1 X p, f) l) =
  observed (run_ops mktime junk (reader_on k2 A p, f) l).
Proof.
  intros HX HA BX BA.
  transitivity (observed (run_ops mktime junk (reader_on k1 A p, f) l)).
  - apply (observed_same sfx_br_rel sfx_br_rel_compat).
    + apply rd_rel_init. right. apply sfx_fresh_new; assumption.
    + apply br_wf_new. exact BX.
    + apply br_wf_new. exact BA.
  - apply members_same_for_all_kinds. exact BA.
Qed.

(* C16, second sentence, at the level of the whole API: a prefix P shorter than
   262152 bytes (> 255 KiB) with no signature match and no marker at any position
   before |P| in P ++ A. *)
Theorem members_same_after_sfx_prefix mktime junk P A p f l k1 k2 :
  nlen P < sfx_scan_limit -> 13 <= nlen A -> match_at A 0 = true ->
  (forall q, q < nlen P -> match_at (P ++ A) q = false /\ marker_at (P ++ A) q = false) ->
  nlen A < 1099511627776 - sfx_scan_limit ->
  observed (run_ops mktime junk (reader_on k1 (P ++ A) p, f) l) =
  observed (run_ops mktime junk (reader_on k2 A p, f) l).
Proof.
  intros HP HA Hm Hq Hb. unfold sfx_scan_limit in *.
  apply members_same_after_scan.
  - intros k. destruct (P_Sfx.sfx_prefix_skipped k P A HP HA Hm Hq) as (st' & E & R & _). exists st'. auto.
  - apply scans_to_self; assumption.
  - rewrite nlen_app. lia.
  - lia.
Qed.

(* ... and a stub with exactly one marker followed by exactly one decoy header *)
Theorem members_same_after_sfx_decoy mktime junk P A m d p f l k1 k2 :
  nlen P < sfx_scan_limit -> 13 <= nlen A -> match_at A 0 = true ->
  m <= d -> d < nlen P ->
  (forall q, q < nlen P -> (marker_at (P ++ A) q = true <-> q = m)) ->
  (forall q, q < nlen P -> (match_at (P ++ A) q = true <-> q = d)) ->
  nlen A < 1099511627776 - sfx_scan_limit ->
  observed (run_ops mktime junk (reader_on k1 (P ++ A) p, f) l) =
  observed (run_ops mktime junk (reader_on k2 A p, f) l).
Proof.
  intros HP HA Hm Hmd Hd Hmark Hmatch Hb. unfold sfx_scan_limit in *.
  apply members_same_after_scan.
  - intros k. destruct (P_Sfx.sfx_one_decoy k P A m d HP HA Hm Hmd Hd Hmark Hmatch) as (st' & E & R & _).
    exists st'. auto.
  - apply scans_to_self; assumption.
  - rewrite nlen_app. lia.
  - lia.
Qed.

Print Assumptions breader_equiv_compat.
Print Assumptions sfx_br_rel_compat.
Print Assumptions members_same_after_scan.
Print Assumptions members_same_after_sfx_prefix.
Print Assumptions members_same_after_sfx_decoy.

(* P_CliWdir.v -- C06, option w=DIR when DIR (one path component) does not
   exist yet: the first make_parent_directories call creates it (mode 0755 &
   ~umask), and from then on the run is the run with DIR present; the tree is
   built under DIR. *)
From Lhasa Require Import Base ListN DecBase Loop Generated Crc16 InputStream Header BasicReader
  AnyDecoder Decoder MacBinary Fs FsRun Reader Glob ListOut CliFilter CliExtract
  P_ReaderCheck P_FsExtract P_ReaderExtract P_CliExtract P_CliTree P_FsReplace P_CliOverwrite P_CliExtractGen P_CliTreeGen.
From Coq Require Import ZifyBool ZifyN ZifyNat.
Local Open Scope N_scope.

Set Default Timeout 120.

(* a loop whose first step agrees runs the same *)
Lemma loop_n_first {S R} (step : S -> outcome (S + R)) s s' : step s = step s' ->
  forall k, loop_n step k s = loop_n step k s'.
Proof. intros H. induction k as [|k IH]; cbn [loop_n]; [exact H|]. rewrite IH. reflexivity. Qed.

Lemma loop_first {S R} (step : S -> outcome (S + R)) s s' k : step s = step s' -> loop step k s = loop step k s'.
Proof. intros H. unfold loop. rewrite (loop_n_first step s s' H k). reflexivity. Qed.

Section Wdir.
  Variable junk : N.

  Lemma dirstr1 (D : name) : dirstr [D] = D ++ [47].
  Proof. unfold dirstr. cbn [map concat]. apply app_nil_r. Qed.

  (* stat of DIR/c while DIR is missing: ENOENT *)
  Lemma exists_missing_parent s (D c : name) o pm t ents :
    dir_ready s [] o pm t ents -> lookup ents D = None -> good_name D -> good_name c ->
    nlen (dirstr [D] ++ c) <= 4095 -> arch_exists s (dirstr [D] ++ c) = FT_NONE.
  Proof.
    intros (Hg & Hch & Hn & Hw) Hl HD Hc Hlen.
    assert (HgD : Forall good_name [D]) by (constructor; [exact HD|constructor]).
    destruct (rel_path_file [D] c HgD Hc Hlen) as (Hne & Habs & Hpm & Hsp).
    unfold arch_exists, fs_exists, resolve, resolve_gen.
    destruct (dirstr [D] ++ c) as [|b0 r0] eqn:Ep; [contradiction Hne; reflexivity|].
    rewrite Hpm, Habs, Hsp. cbn [app]. rewrite walk_cons. cbv zeta.
    destruct (chain_head _ _ _ _ Hch) as (o1 & p1 & t1 & e1 & Hn1 & Hs1).
    rewrite app_nil_r in Hn. rewrite Hn in Hn1. inversion Hn1; subst o1 p1 t1 e1.
    rewrite Hn, Hs1. cbn [negb]. destruct HD as (_ & _ & (Hd & Hdd & Hl255)). rewrite Hl255, Hd, Hdd, Hl.
    destruct (trailing_slash (b0 :: r0)); reflexivity.
  Qed.

  (* the state once DIR has been made *)
  Definition with_dir (st : cli_state) (s_mk : fs) : cli_state := set_fs st s_mk.

  (* make_parent_directories on DIR/c or DIR/c/ with DIR missing: DIR is made, nothing else *)
  Lemma mpd_creates st (D c : name) tail o pm t ents s_mk :
    dir_ready (cs_fs st) [] o pm t ents -> lookup ents D = None -> good_name D -> good_name c ->
    nlen D <= 4095 -> (tail = [] \/ tail = [47]) ->
    arch_mkdir (cs_fs st) D 493 = (true, s_mk) ->
    make_parent_directories (dirstr [D] ++ c ++ tail) st = (true, with_dir st s_mk).
  Proof.
    intros Hready Hl HD Hc HlenD Htail Hmk. pose proof Hready as (Hg & Hch & Hn & Hw).
    assert (Hstrip : strip_trailing_slashes (dirstr [D] ++ c ++ tail) = dirstr [D] ++ c).
    { unfold strip_trailing_slashes. destruct (good_last c Hc) as (b & r & E & Hb).
      destruct Htail as [->| ->].
      - rewrite app_nil_r, rev_app_distr.
        rewrite (skip_slashes_id (rev c ++ rev (dirstr [D])) b (r ++ rev (dirstr [D]))) by (try rewrite E; auto).
        rewrite <- rev_app_distr. apply rev_involutive.
      - rewrite app_assoc, rev_app_distr. cbn [rev app skip_slashes]. rewrite N.eqb_refl, rev_app_distr.
        rewrite (skip_slashes_id (rev c ++ rev (dirstr [D])) b (r ++ rev (dirstr [D]))) by (try rewrite E; auto).
        rewrite <- rev_app_distr. apply rev_involutive. }
    unfold make_parent_directories. rewrite Hstrip.
    assert (HgD : Forall good_name [D]) by (constructor; [exact HD|constructor]).
    destruct (path_head [D] c HgD Hc) as (b' & r' & E' & Hb'). rewrite (leading_slashes_none _ b' r' E' Hb').
    rewrite dirstr1, <- app_assoc. cbn [rev]. rewrite (mpd_name D [] _ st (proj1 (proj2 HD))). cbn [app mpd_loop].
    rewrite N.eqb_refl. unfold check_parent_directory. rewrite app_nil_r, rev_involutive.
    assert (Hat : at_path (cs_fs st) D [] D).
    { change D with (dirstr [] ++ D) at 1. eapply at_path_in_dir; eauto. }
    assert (Hnone : node_at (fs_root (cs_fs st)) ((fs_cwd (cs_fs st) ++ []) ++ [D]) = None).
    { rewrite (child_lookup _ _ _ _ _ _ D Hn). exact Hl. }
    rewrite (exists_none (cs_fs st) D [] D Hat Hnone), Hmk. cbn [negb].
    apply mpd_tail. apply Hc.
  Qed.

  (* extract_archived_file does the same from both states *)
  Lemma eaf_same_after_mkparent h X X' fn :
    file_full_path h (cs_opts X) = fn -> cs_opts X' = cs_opts X ->
    eaf_decide h X = Ok (RVal false, X) -> eaf_decide h X' = Ok (RVal false, X') ->
    make_parent_directories fn X = (true, X') -> make_parent_directories fn X' = (true, X') ->
    (o_use_path (cs_opts X) = true \/ is_dir_type h && negb (match h_symlink_target h with Some _ => true | None => false end) = false) ->
    extract_archived_file junk h X = extract_archived_file junk h X'.
  Proof.
    intros Hfn Ho Hd Hd' Hm Hm' Hu. rewrite !eaf_eq, Hd, Hd', Ho, Hfn. cbn [cbind].
    unfold eaf_tail. rewrite Ho, Hm, Hm'.
    destruct (negb (o_use_path (cs_opts X)) && _) eqn:E; [|reflexivity].
    exfalso. destruct Hu as [Hu|Hu]; [rewrite Hu in E; discriminate|rewrite Hu, andb_false_r in E; discriminate].
  Qed.
End Wdir.

Section WdirMain.
  Variable mktime : N -> N -> N -> N -> Z -> N -> N.
  Variable junk : N.
  Variable f : lha_filter.
  Hypothesis Hnofilter : f_filters f = [].
  Variables (u : N) (uid0 : bool).
  Hypothesis Humask : umask_ok u.
  Variable D : name.
  Hypothesis HD : good_name D.
  Hypothesis HlenD : nlen D <= 4095.

  Definition wdir_mode : N := mkdir_mode u 493.

  (* DIR is made in the extraction directory *)
  Lemma wdir_ready s o pm t ents :
    dir_ready s [] o pm t ents -> lookup ents D = None -> N.land pm 1024 = 0 -> fs_umask s = u ->
    exists s_mk, arch_mkdir s D 493 = (true, s_mk) /\ same_env s s_mk /\
      fs_root s_mk = update_at (fs_root s) (fs_cwd s) (const_some (Dir o pm now (ents ++ [(D, Dir true wdir_mode now [])]))) /\
      dir_ready s_mk [D] true wdir_mode now [].
  Proof.
    intros Hready Hl Hsg Hum. pose proof Hready as (Hg & Hch & Hn & Hw).
    assert (Hat : at_path s D [] D).
    { change D with (dirstr [] ++ D) at 1. eapply at_path_in_dir; eauto. }
    assert (Hnone : node_at (fs_root s) ((fs_cwd s ++ []) ++ [D]) = None).
    { rewrite (child_lookup _ _ _ _ _ _ D Hn). exact Hl. }
    destruct (mkdir_fresh s D [] D Hat 493 o pm t ents Hnone Hn Hw) as (s_mk & Hmk & Henv & Hroot).
    rewrite (mkdir_mode_eq s _ pm Hsg), (set_ent_fresh _ _ _ Hl), Hum in Hroot. fold wdir_mode in Hroot.
    exists s_mk. split; [exact Hmk|]. split; [exact Henv|]. split; [rewrite Hroot, app_nil_r; reflexivity|].
    assert (Hready1 : dir_ready s_mk [] o pm now (ents ++ [(D, Dir true wdir_mode now [])])) by (eapply dir_ready_update; eauto).
    destruct (mkdir_mode_owner u 493 (fs_uid0 s_mk) now [] Humask eq_refl eq_refl) as [Hs Hwr].
    change [D] with ([] ++ [D]). eapply dir_ready_enter; eauto.
  Qed.

  (* the first entry does the same whether DIR is there or not *)
  Lemma first_entry_same it st s_mk r1 o pm t ents :
    wf_item u uid0 [] it -> fits [D] [] it -> pfx_opts [D] (cs_opts st) ->
    dir_ready (cs_fs st) [] o pm t ents -> lookup ents D = None ->
    arch_mkdir (cs_fs st) D 493 = (true, s_mk) -> dir_ready s_mk [D] true wdir_mode now [] ->
    extract_archived_file junk (ihdr it) (set_reader st r1) =
    extract_archived_file junk (ihdr it) (set_reader (with_dir st s_mk) r1).
  Proof.
    intros Hwf Hfit (Hu & Hdry & Hfull) Hready Hl Hmk Hready_mk.
    assert (HgD : Forall good_name [D]) by (constructor; [exact HD|constructor]).
    assert (Hpar : forall a d b, [D] = a ++ d :: b -> arch_exists s_mk (dirstr a ++ d) = FT_DIRECTORY).
    { eapply parents_exist; [exact Hready_mk|]. rewrite dirstr1, nlen_app.
      destruct HD as (_ & _ & (_ & _ & Hl255)). apply N.ltb_ge in Hl255. unfold name_max in Hl255.
      change (nlen [47]) with 1. eapply N.le_trans; [apply N.add_le_mono_r; exact Hl255|]. vm_compute. discriminate. }
    destruct it as [c h bs|c h tgt|c h sub]; cbn [wf_item] in Hwf; cbn [fits] in Hfit; cbn [ihdr].
    - destruct Hwf as (Hc & _ & (Hp & Hf & Hdm & Hsl & Hos) & _). cbn [app] in Hfit.
      assert (Hfn : file_full_path h (cs_opts st) = dirstr [D] ++ c).
      { rewrite (Hfull h [] (Forall_nil _) Hp), Hf, (skip_slashes_name c Hc). reflexivity. }
      eapply (eaf_same_after_mkparent junk h _ _ (dirstr [D] ++ c)); cbn [cs_opts set_reader with_dir set_fs]; auto.
      + rewrite (decide_regular h _ (conj Hdm Hsl)). cbn [cs_opts set_reader]. rewrite Hfn.
        rewrite file_exists_none; [reflexivity|]. cbn [cs_fs set_reader]. eapply exists_missing_parent; eauto.
      + rewrite (decide_regular h _ (conj Hdm Hsl)). cbn [cs_opts set_reader with_dir set_fs]. rewrite Hfn.
        rewrite file_exists_none; [reflexivity|]. cbn [cs_fs set_reader with_dir set_fs].
        assert (Hat : at_path s_mk (dirstr [D] ++ c) [D] c) by (eapply at_path_in_dir; eauto).
        eapply (exists_none s_mk _ [D] c Hat). destruct Hready_mk as (_ & _ & Hn & _).
        rewrite (child_lookup _ _ _ _ _ _ c Hn). reflexivity.
      + rewrite <- (app_nil_r c) at 1. eapply (mpd_creates (set_reader st r1) D c []); cbn [cs_fs set_reader]; eauto.
      + apply mpd_file; auto.
    - destruct Hwf as (Hc & _ & (Hp & Hf & Hdm & Hsl & _)). cbn [app] in Hfit.
      assert (Hfn : file_full_path h (cs_opts st) = dirstr [D] ++ c).
      { rewrite (Hfull h [] (Forall_nil _) Hp), Hf, (skip_slashes_name c Hc). reflexivity. }
      eapply (eaf_same_after_mkparent junk h _ _ (dirstr [D] ++ c)); cbn [cs_opts set_reader with_dir set_fs]; auto.
      + unfold eaf_decide. rewrite Hsl. cbn [negb andb]. rewrite andb_false_r. reflexivity.
      + unfold eaf_decide. rewrite Hsl. cbn [negb andb]. rewrite andb_false_r. reflexivity.
      + rewrite <- (app_nil_r c) at 1. eapply (mpd_creates (set_reader st r1) D c []); cbn [cs_fs set_reader]; eauto.
      + apply mpd_file; auto.
    - destruct Hwf as (Hc & _ & (Hp & Hf & Hdm & Hsl) & _). destruct Hfit as (Hlen & _). cbn [app] in Hlen.
      assert (Hgc : Forall good_name [c]) by (constructor; [exact Hc|constructor]).
      assert (Hps : opt_str (h_path h) = dirstr [c]) by (rewrite Hp; reflexivity).
      assert (Hfn : file_full_path h (cs_opts st) = dirstr [D] ++ c ++ [47]).
      { rewrite (Hfull h [c] Hgc Hps), Hf, app_nil_r. change ([D] ++ [c]) with ([D] ++ [c]). rewrite dirstr_snoc. reflexivity. }
      eapply (eaf_same_after_mkparent junk h _ _ (dirstr [D] ++ c ++ [47])); cbn [cs_opts set_reader with_dir set_fs]; auto.
      + unfold eaf_decide. rewrite Hsl. change (is_dir_type h) with (is_dir_method h). rewrite Hdm. reflexivity.
      + unfold eaf_decide. rewrite Hsl. change (is_dir_type h) with (is_dir_method h). rewrite Hdm. reflexivity.
      + eapply (mpd_creates (set_reader st r1) D c [47]); cbn [cs_fs set_reader]; eauto.
      + rewrite <- dirstr_snoc. apply mpd_dir; auto.
  Qed.

  (* "lha xw=DIR" with DIR missing: DIR is created (0755 & ~umask) and holds the tree *)
  Theorem extract_archive_wdir_created it more st o pm t ents :
    let s := cs_fs st in
    let its := it :: more in
    Forall (wf_item u uid0 []) its -> Forall (fits [D] []) its -> NoDup (map iname its) ->
    pfx_opts [D] (cs_opts st) -> fs_umask s = u -> fs_uid0 s = uid0 ->
    dir_ready s [] o pm t ents -> lookup ents D = None -> N.land pm 1024 = 0 ->
    rinv (cs_reader st) [] -> upcoming mktime junk (cs_reader st) (flat_map ser its) ->
    N.of_nat (sizes its) < 2 ^ 40 ->
    exists st', extract_archive mktime junk f st = Ok (RVal true, st') /\
      same_env s (cs_fs st') /\
      fs_root (cs_fs st') = update_at (fs_root s) (fs_cwd s)
        (const_some (Dir o pm now (ents ++ [(D, Dir true wdir_mode now (builds u its))]))).
  Proof.
    intros s its Hwf Hfit Hnd Hopts Hum Huid Hready Hl Hsg Hrinv Hup Hsz.
    destruct (wdir_ready s o pm t ents Hready Hl Hsg Hum) as (s_mk & Hmk & Henv & Hroot & Hready_mk).
    set (st_mk := with_dir st s_mk).
    destruct (extract_archive_below mktime junk f Hnofilter u uid0 Humask [D] its st_mk true wdir_mode now [])
      as (st' & Hex & Henv' & _ & Hroot'); auto.
    { cbn [cs_fs st_mk with_dir set_fs]. destruct Henv as (_ & _ & E). congruence. }
    { cbn [cs_fs st_mk with_dir set_fs]. destruct Henv as (_ & E & _). congruence. }
    { apply mkdir_mode_nosgid. }
    cbn [cs_fs st_mk with_dir set_fs its] in Hroot', Henv'.
    exists st'. split; [|split; [exact (same_env_trans _ _ _ Henv Henv')|]].
    - rewrite <- Hex. unfold extract_archive. cbn [cs_opts st_mk with_dir set_fs].
      destruct Hopts as (Hu & Hdry & Hfull). rewrite Hdry. apply loop_first.
      (* the first step *)
      pose proof Hup as Hup0. unfold its in Hup0. cbn [flat_map] in Hup0.
      destruct (ser_head_pstr u uid0 [] it ltac:(inversion Hwf; assumption)) as (m & tl & Es & Hm & _).
      rewrite Es in Hup0. cbn [app] in Hup0.
      destruct (present_entry mktime junk (cs_reader st) [] [] _ m (pstr m) Hrinv (or_introl eq_refl) Hup0)
        as (br1 & _ & Hnext); [right; reflexivity|reflexivity|reflexivity|].
      unfold extract_archive_step.
      rewrite (next_header_eq mktime f Hnofilter st _ _ Hnext).
      rewrite (next_header_eq mktime f Hnofilter st_mk _ _ Hnext). cbn [bind]. rewrite Hm.
      rewrite (first_entry_same it st s_mk _ o pm t ents); auto.
      + inversion Hwf; assumption.
      + inversion Hfit; assumption.
      + split; [exact Hu|]. split; [exact Hdry|exact Hfull].
    - rewrite Hroot'. assert (Hcwd : fs_cwd s_mk = fs_cwd s) by apply Henv. rewrite Hcwd.
      assert (Hn_mk : node_at (fs_root s_mk) (fs_cwd s) = Some (Dir o pm now (ents ++ [(D, Dir true wdir_mode now [])]))).
      { rewrite Hroot. destruct Hready as (_ & _ & Hn & _). rewrite app_nil_r in Hn. eapply node_at_update_const_same. exact Hn. }
      rewrite (update_loc_to_parent _ _ o pm now _ D _ Hn_mk), (set_ent_last _ _ _ _ Hl), Hroot.
      apply update_const_twice.
  Qed.
End WdirMain.

Print Assumptions extract_archive_wdir_created.

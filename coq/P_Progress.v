(* P_Progress.v -- C14, progress clause: the progress monitor of lib/lha_decoder.c
   (lha_decoder_monitor, check_progress_callback, the call at the end of
   lha_decoder_read) as modelled in Decoder.v.

   What the C computes (lha_decoder.c:138-169).  With bs = dtype->block_size,
     block(pos)   = (unsigned int) ((pos + bs - 1) / bs)          (size_t arithmetic, then truncated)
     total_blocks = (unsigned int) ((stream_length + bs - 1) / bs)  set by lha_decoder_monitor
   and check_progress_callback runs  while (last_block != block) callback(++last_block, total_blocks).
   last_block is UINT_MAX in a new decoder.  The model computes in N and truncates
   with u32, i.e. it is the C as long as pos + bs - 1 < 2^64 (size_t); all theorems
   below assume stream_length-blocks < 2^32, far inside that.
   For bs > 0 the quotient is the ceiling of pos / bs (blk_ceil_spec, blk_ceil_cases);
   it is 0 for pos = 0.  Every block_size of the decoder table is positive
   (table_block_sizes_positive); the smallest is 2048.

   Main results (Section Progress for inner decoders that return in every state,
   Section ProgressInv for inner decoders total on a state invariant):
     events_split_invariant_proof   a schedule of reads = one read of the sum, events included
     events_split_invariant         two schedules with the same sum
     events_session_proof           monitor attached after any unmonitored reads: all events
                                    together are (0,T) (1,T) ... (block(final position),T)
     events_count_up                attached at the very beginning, stream complete: (0,T) ... (T,T)
     events_monotone                one call, arbitrary last_block
   Corners are recorded as Examples at the end of the file. *)
From Lhasa Require Import Base ListN DecBase Loop Crc16 P_Crc16 Generated Null Decoder P_Decoder P_DecoderInv P_Null.
From Coq Require Import ZifyBool ZifyN ZifyNat.
Local Open Scope N_scope.

(* ------------------------------------------------------------------ *)
(* u32                                                                  *)

Lemma u32_mod32 x : u32 x = x mod 4294967296.
Proof. unfold u32. change 4294967295 with (N.ones 32). rewrite N.land_ones. reflexivity. Qed.

Lemma u32_id x : x < 4294967296 -> u32 x = x.
Proof. intros H. rewrite u32_mod32. apply N.mod_small. exact H. Qed.

Lemma u32_below x : u32 x < 4294967296.
Proof. rewrite u32_mod32. apply N.mod_lt. lia. Qed.

Lemma u32_wrap_sub b l : l <= b -> b < 4294967296 -> u32 (b + 4294967296 - l) = b - l.
Proof.
  intros H1 H2. rewrite u32_mod32.
  replace (b + 4294967296 - l) with ((b - l) + 1 * 4294967296) by lia.
  rewrite N.mod_add by lia. apply N.mod_small. lia.
Qed.

(* ------------------------------------------------------------------ *)
(* Counting lists: cnt a n T = [(a,T); (a+1,T); ...; (a+n-1,T)]         *)

Definition cnt (a : N) (n : nat) (T : N) : list (N * N) :=
  map (fun i => (a + N.of_nat i, T)) (seq 0 n).

(* [(0,T); (1,T); ...; (b,T)] : b + 1 calls *)
Definition upto (b T : N) : list (N * N) := cnt 0 (S (N.to_nat b)) T.

Lemma nth_error_seq0 n i : (i < n)%nat -> nth_error (seq 0 n) i = Some i.
Proof.
  intros H. rewrite (nth_error_nth' (seq 0 n) 0%nat) by (rewrite seq_length; exact H).
  rewrite seq_nth by exact H. reflexivity.
Qed.

Lemma cnt_0 a T : cnt a 0 T = [].
Proof. reflexivity. Qed.

Lemma cnt_S a n T : cnt a (S n) T = (a, T) :: cnt (a + 1) n T.
Proof.
  unfold cnt. cbn [seq map]. rewrite <- seq_shift, map_map. f_equal.
  - f_equal. lia.
  - apply map_ext. intros i. f_equal. lia.
Qed.

Lemma cnt_app : forall n a m T, cnt a n T ++ cnt (a + N.of_nat n) m T = cnt a (n + m) T.
Proof.
  induction n as [|n IH]; intros a m T.
  - rewrite cnt_0. cbn [app plus]. f_equal. lia.
  - cbn [plus]. rewrite !cnt_S. cbn [app]. f_equal. rewrite <- IH. f_equal. f_equal. lia.
Qed.

Lemma cnt_length a n T : length (cnt a n T) = n.
Proof. unfold cnt. rewrite map_length, seq_length. reflexivity. Qed.

Lemma cnt_nth a n T i : (i < n)%nat -> nth_error (cnt a n T) i = Some (a + N.of_nat i, T).
Proof.
  intros H. unfold cnt.
  rewrite (map_nth_error (fun i => (a + N.of_nat i, T)) i (seq 0 n) (d := i)); [reflexivity|].
  apply nth_error_seq0. exact H.
Qed.

Lemma cnt_snd a n T : Forall (fun e => snd e = T) (cnt a n T).
Proof. unfold cnt. apply Forall_forall. intros e He. apply in_map_iff in He. destruct He as (i & <- & _). reflexivity. Qed.

Lemma cnt_fst_bounds a n T : Forall (fun e => a <= fst e < a + N.of_nat n) (cnt a n T).
Proof.
  unfold cnt. apply Forall_forall. intros e He. apply in_map_iff in He.
  destruct He as (i & <- & Hi). apply in_seq in Hi. cbn [fst]. lia.
Qed.

(* upto as the property words it: the k-th call carries block k, for k = 0 .. b *)
Lemma upto_nth b T k : k <= b -> nth_error (upto b T) (N.to_nat k) = Some (k, T).
Proof.
  intros H. unfold upto. rewrite cnt_nth by lia. f_equal. f_equal. lia.
Qed.

Lemma upto_length b T : N.of_nat (length (upto b T)) = b + 1.
Proof. unfold upto. rewrite cnt_length. lia. Qed.

(* ------------------------------------------------------------------ *)
(* progress_events (the while loop of check_progress_callback)          *)

(* shape, without any assumption: u32 (block - last) calls, the i-th with
   block number last + 1 + i (mod 2^32), all with the same total *)
Lemma progress_events_length l b T :
  N.of_nat (length (progress_events l b T)) = u32 (b + 4294967296 - l).
Proof. unfold progress_events. rewrite map_length, seq_length. lia. Qed.

Lemma progress_events_nth l b T i : (i < length (progress_events l b T))%nat ->
  nth_error (progress_events l b T) i = Some (u32 (l + 1 + N.of_nat i), T).
Proof.
  unfold progress_events. rewrite map_length, seq_length. intros H.
  set (n := N.to_nat (u32 (b + 4294967296 - l))) in *.
  rewrite (map_nth_error (fun i => (u32 (l + 1 + N.of_nat i), T)) i (seq 0 n) (d := i)); [reflexivity|].
  apply nth_error_seq0. exact H.
Qed.

(* no wrap-around: last <= block *)
Lemma pe_cnt l b T : l <= b -> b < 4294967296 ->
  progress_events l b T = cnt (l + 1) (N.to_nat (b - l)) T.
Proof.
  intros H1 H2. unfold progress_events, cnt. rewrite u32_wrap_sub by assumption.
  apply map_ext_in. intros i Hi. apply in_seq in Hi. f_equal. apply u32_id. lia.
Qed.

Lemma pe_same b T : b < 4294967296 -> progress_events b b T = [].
Proof. intros H. rewrite pe_cnt by lia. rewrite N.sub_diag. reflexivity. Qed.

(* from the initial last_block = UINT_MAX *)
Lemma pe_init b T : b < 4294967295 -> progress_events 4294967295 b T = upto b T.
Proof.
  intros H. unfold progress_events, upto, cnt.
  replace (b + 4294967296 - 4294967295) with (b + 1) by lia.
  rewrite u32_id by lia. replace (N.to_nat (b + 1)) with (S (N.to_nat b)) by lia.
  apply map_ext_in. intros i Hi. apply in_seq in Hi. f_equal.
  rewrite u32_mod32. replace (4294967295 + 1 + N.of_nat i) with (N.of_nat i + 1 * 4294967296) by lia.
  rewrite N.mod_add by lia. rewrite N.mod_small; lia.
Qed.

Lemma upto_pe l b T : l <= b -> b < 4294967296 -> upto l T ++ progress_events l b T = upto b T.
Proof.
  intros H1 H2. rewrite pe_cnt by assumption. unfold upto.
  replace (l + 1) with (0 + N.of_nat (S (N.to_nat l))) by lia.
  rewrite cnt_app. f_equal. lia.
Qed.

(* ------------------------------------------------------------------ *)
(* The block number of a position                                       *)

Lemma div_by_0 a : a / 0 = 0.
Proof. destruct a; reflexivity. Qed.

Section Blk.
  Variable block_size : N.

  Definition blk (p : N) : N := (p + block_size - 1) / block_size.

  Lemma blk_mono p q : p <= q -> blk p <= blk q.
  Proof.
    intros H. unfold blk. destruct (N.eq_dec block_size 0) as [E|E].
    - rewrite E. rewrite !div_by_0. lia.
    - apply N.div_le_mono; [exact E|lia].
  Qed.

  Lemma blk_0 : blk 0 = 0.
  Proof.
    unfold blk. destruct (N.eq_dec block_size 0) as [E|E].
    - rewrite E. reflexivity.
    - apply N.div_small. lia.
  Qed.

  (* for a positive block size, blk is the ceiling of p / block_size *)
  Lemma blk_ceil_spec p : 0 < block_size -> p <= blk p * block_size < p + block_size.
  Proof.
    intros Hb. unfold blk.
    pose proof (N.div_mod (p + block_size - 1) block_size ltac:(lia)) as E.
    pose proof (N.mod_lt (p + block_size - 1) block_size ltac:(lia)) as L.
    set (q := (p + block_size - 1) / block_size) in *.
    set (r := (p + block_size - 1) mod block_size) in *. lia.
  Qed.

  Lemma blk_ceil_cases p : 0 < block_size ->
    blk p = if p mod block_size =? 0 then p / block_size else p / block_size + 1.
  Proof.
    intros Hb. unfold blk.
    pose proof (N.div_mod p block_size ltac:(lia)) as E.
    pose proof (N.mod_lt p block_size ltac:(lia)) as L.
    set (q := p / block_size) in *. set (r := p mod block_size) in *.
    destruct (N.eqb_spec r 0) as [Z|Z].
    - symmetry. apply (N.div_unique _ _ q (block_size - 1)); lia.
    - symmetry. apply (N.div_unique _ _ (q + 1) (r - 1)); lia.
  Qed.
End Blk.

Lemma table_block_sizes_positive :
  Forall (fun b => 2048 <= b)
    [decoder_block_size_0; decoder_block_size_1; decoder_block_size_2; decoder_block_size_3;
     decoder_block_size_4; decoder_block_size_5; decoder_block_size_6; decoder_block_size_7;
     decoder_block_size_8; decoder_block_size_9; decoder_block_size_10; decoder_block_size_11;
     decoder_block_size_12; decoder_block_size_13] /\ decoders_count = 14.
Proof. split; [|reflexivity]. repeat constructor; vm_compute; discriminate. Qed.

(* ------------------------------------------------------------------ *)
(* Reads with the monitor attached                                      *)

Section Progress.
  Context {cbs st : Type}.
  Variable dread : st -> cbs -> outcome (list N * st * cbs).
  Variable max_read block_size : N.

  Notation dec := (@decoder cbs st).
  Notation dec_read := (lha_decoder_read dread max_read block_size).
  Notation reads := (run_reads dread max_read block_size).
  Notation monitor := (lha_decoder_monitor block_size).
  Notation pul := (pull dread max_read).
  Notation blk := (blk block_size).
  Notation fresh inner c L := (lha_decoder_new inner c L : dec).

  (* a schedule of reads, keeping the events of every call *)
  Fixpoint run_reads_ev (d : dec) (ks : list N) : outcome (list (list N) * list (list (N * N)) * dec) :=
    match ks with
    | [] => Ok ([], [], d)
    | k :: r =>
      '(o, ev, d1) <- dec_read d k ;;
      '(os, evs, d2) <- run_reads_ev d1 r ;;
      Ok (o :: os, ev :: evs, d2)
    end.

  (* run_reads is run_reads_ev without the events *)
  Lemma run_reads_ev_forget ks : forall d,
    reads d ks = match run_reads_ev d ks with
                 | Ok (os, _, d') => Ok (os, d') | Fault s => Fault s | OutOfFuel => OutOfFuel end.
  Proof.
    induction ks as [|k r IH]; intros d; cbn [run_reads run_reads_ev]; [reflexivity|].
    destruct (dec_read d k) as [[[o ev] d1]| |]; cbn [bind]; try reflexivity.
    rewrite IH. destruct (run_reads_ev d1 r) as [[[os evs] d2]| |]; reflexivity.
  Qed.

  (* the monitor fields replaced *)
  Definition remon (d : dec) (m : bool) (l : N) : dec :=
    {| d_inner := d_inner d; d_cb := d_cb d; d_outbuf := d_outbuf d;
       d_stream_pos := d_stream_pos d; d_stream_length := d_stream_length d; d_failed := d_failed d;
       d_crc := d_crc d; d_monitor := m; d_last_block := l; d_total_blocks := d_total_blocks d |}.

  Ltac prj := cbn [d_inner d_cb d_outbuf d_stream_pos d_stream_length d_failed d_crc
                   d_monitor d_last_block d_total_blocks].

  Lemma remon_remon d m l m' l' : remon (remon d m l) m' l' = remon d m' l'.
  Proof. reflexivity. Qed.

  Lemma remon_self (d : dec) : remon d (d_monitor d) (d_last_block d) = d.
  Proof. destruct d; reflexivity. Qed.

  Lemma check_progress_eq (d : dec) :
    check_progress block_size d =
    (remon d (d_monitor d) (u32 (blk (d_stream_pos d))),
     progress_events (d_last_block d) (u32 (blk (d_stream_pos d))) (d_total_blocks d)).
  Proof. reflexivity. Qed.

  (* the fill loop does not look at the monitor fields *)
  Lemma pull_remon k : forall w d m l,
    pul k w (remon d m l) =
    match pul k w d with Some (o, d') => Some (o, remon d' m l) | None => None end.
  Proof.
    induction k as [|k IH]; intros w d m l.
    - cbn [pull]. destruct (w =? 0); reflexivity.
    - rewrite !pull_S. cbv zeta. destruct (w =? 0); [reflexivity|].
      cbn [remon d_failed d_outbuf d_inner d_cb].
      destruct (d_failed d); [reflexivity|].
      destruct (skipn_N w (d_outbuf d)) as [|y ys].
      + destruct (dread (d_inner d) (d_cb d)) as [[[chunk inner'] c']| |]; try reflexivity.
        destruct (max_read <? nlen chunk); [reflexivity|].
        destruct chunk as [|z zs]; [reflexivity|].
        change (set_buf (remon d m l) inner' c' (z :: zs) false) with (remon (set_buf d inner' c' (z :: zs) false) m l).
        rewrite IH. destruct (pul k _ _) as [[o d']|]; reflexivity.
      + change (set_buf (remon d m l) (d_inner d) (d_cb d) (y :: ys) false)
          with (remon (set_buf d (d_inner d) (d_cb d) (y :: ys) false) m l).
        rewrite IH. destruct (pul k _ _) as [[o d']|]; reflexivity.
  Qed.

  (* the decoder as the monitor leaves it: attached, and last_block is the block
     of the current position *)
  Definition mon_ok (d : dec) : Prop :=
    d_monitor d = true /\ d_last_block d = u32 (blk (d_stream_pos d)).

  (* the block count of the stream fits unsigned int *)
  Definition blocks_fit (d : dec) : Prop := blk (d_stream_length d) < 4294967296.

  Lemma monitor_eq (d : dec) :
    monitor d =
    (remon {| d_inner := d_inner d; d_cb := d_cb d; d_outbuf := d_outbuf d; d_stream_pos := d_stream_pos d;
              d_stream_length := d_stream_length d; d_failed := d_failed d; d_crc := d_crc d;
              d_monitor := d_monitor d; d_last_block := d_last_block d;
              d_total_blocks := u32 (blk (d_stream_length d)) |} true (u32 (blk (d_stream_pos d))),
     progress_events (d_last_block d) (u32 (blk (d_stream_pos d))) (u32 (blk (d_stream_length d)))).
  Proof. reflexivity. Qed.

  (* lha_decoder_monitor, at any point, yields such a decoder and changes nothing else *)
  Lemma monitor_ok (d : dec) :
    let d1 := fst (monitor d) in
    mon_ok d1 /\ d_total_blocks d1 = u32 (blk (d_stream_length d)) /\
    d_inner d1 = d_inner d /\ d_cb d1 = d_cb d /\ d_outbuf d1 = d_outbuf d /\
    d_stream_pos d1 = d_stream_pos d /\ d_stream_length d1 = d_stream_length d /\
    d_failed d1 = d_failed d /\ d_crc d1 = d_crc d.
  Proof. rewrite monitor_eq. cbn [fst]. unfold mon_ok, remon. prj. repeat split. Qed.

  Hypothesis Hd : dread_total dread max_read.

  (* One monitored read is the unmonitored read plus check_progress. *)
  Lemma read_on_off (d : dec) n : n < 2 ^ 62 -> d_monitor d = true -> pos_ok d ->
    exists o d', dec_read (remon d false 0) n = Ok (o, [], d') /\
      dec_read d n = Ok (o, progress_events (d_last_block d) (u32 (blk (d_stream_pos d'))) (d_total_blocks d),
                         remon d' true (u32 (blk (d_stream_pos d')))) /\
      remon d' false 0 = d' /\
      d_stream_pos d' = d_stream_pos d + nlen o /\ pos_ok d' /\
      d_stream_length d' = d_stream_length d /\ d_total_blocks d' = d_total_blocks d.
  Proof.
    intros Hn Hm Hp.
    destruct (read_spec dread max_read block_size Hd d n Hn) as (k & o & d1 & ev & d2 & P & R & _ & Hon).
    specialize (Hon Hm).
    destruct (read_spec_off dread max_read block_size Hd (remon d false 0) n Hn eq_refl) as (k' & o' & d1' & P' & R').
    change (clamp (remon d false 0) n) with (clamp d n) in P'.
    rewrite pull_remon in P'.
    destruct (pul k' (clamp d n) d) as [[ox dx]|] eqn:E; [|discriminate].
    injection P' as <- <-.
    pose proof (pull_det _ _ _ _ _ _ _ _ P E) as Eq. injection Eq as <- <-.
    pose proof (pull_passengers _ _ _ _ _ _ _ P) as (Pp & Pl & Pc & Pm & Pb & Pt).
    pose proof (pull_length dread max_read block_size _ _ _ _ _ P) as [Len _].
    destruct (clamp_le d n Hp) as [C1 C2].
    exists o, (finish (remon d1 false 0) o).
    split; [exact R'|]. split.
    - rewrite R. f_equal. rewrite check_progress_eq in Hon. injection Hon as -> ->.
      unfold finish, remon. prj. rewrite Pm, Hm, Pb, Pt. reflexivity.
    - split; [reflexivity|]. unfold pos_ok, finish, remon. prj.
      split; [lia|]. split; [lia|]. split; [exact Pl|exact Pt].
  Qed.

  (* A monitored schedule is the unmonitored schedule plus the events between
     the blocks of the positions reached. *)
  Lemma run_ev_off : forall ks (d : dec), pos_ok d -> mon_ok d -> blocks_fit d -> sum_N ks < 2 ^ 62 ->
    exists os evs d', reads (remon d false 0) ks = Ok (os, d') /\
      run_reads_ev d ks = Ok (os, evs, remon d' true (blk (d_stream_pos d'))) /\
      concat evs = cnt (blk (d_stream_pos d) + 1)
                       (N.to_nat (blk (d_stream_pos d') - blk (d_stream_pos d))) (d_total_blocks d) /\
      remon d' false 0 = d' /\ d_stream_pos d <= d_stream_pos d' /\ pos_ok d' /\
      d_stream_length d' = d_stream_length d /\ d_total_blocks d' = d_total_blocks d.
  Proof.
    induction ks as [|k r IH]; intros d Hp [Hm Hl] Hf Hs.
    - assert (Hb : blk (d_stream_pos d) < 4294967296).
      { pose proof (blk_mono block_size _ _ Hp). unfold blocks_fit in Hf. lia. }
      exists [], [], (remon d false 0). cbn [run_reads run_reads_ev concat].
      split; [reflexivity|]. split.
      { f_equal. f_equal. rewrite remon_remon.
        change (d_stream_pos (remon d false 0)) with (d_stream_pos d).
        rewrite <- (u32_id _ Hb), <- Hl, <- Hm. symmetry. apply remon_self. }
      change (d_stream_pos (remon d false 0)) with (d_stream_pos d). rewrite N.sub_diag.
      split; [reflexivity|]. split; [reflexivity|]. split; [lia|]. split; [exact Hp|]. split; reflexivity.
    - rewrite sum_N_cons in Hs.
      destruct (read_on_off d k ltac:(lia) Hm Hp) as (o & d1' & Roff & Ron & Hstrip & Epos & Hp1 & El & Et).
      assert (Hb1 : blk (d_stream_pos d1') < 4294967296).
      { pose proof (blk_mono block_size _ _ Hp1). unfold blocks_fit in Hf. rewrite El in *. lia. }
      assert (Hb0 : blk (d_stream_pos d) <= blk (d_stream_pos d1')).
      { apply blk_mono. lia. }
      rewrite (u32_id _ Hb1) in Ron.
      rewrite Hl, u32_id in Ron by lia.
      set (d1 := remon d1' true (blk (d_stream_pos d1'))) in *.
      destruct (IH d1) as (os & evs & d' & Rr & Re & Ec & Hstrip' & Hpos' & Hp' & El' & Et').
      { exact Hp1. }
      { split; [reflexivity|]. unfold d1, remon. prj. symmetry. apply u32_id. exact Hb1. }
      { unfold blocks_fit, d1, remon. prj. rewrite El. exact Hf. }
      { lia. }
      change (remon d1 false 0) with (remon d1' false 0) in Rr. rewrite Hstrip in Rr.
      change (d_stream_pos d1) with (d_stream_pos d1') in *.
      change (d_stream_length d1) with (d_stream_length d1') in *.
      change (d_total_blocks d1) with (d_total_blocks d1') in *.
      exists (o :: os), (progress_events (blk (d_stream_pos d)) (blk (d_stream_pos d1')) (d_total_blocks d) :: evs), d'.
      cbn [run_reads run_reads_ev]. rewrite Roff, Ron. cbn [bind]. rewrite Rr, Re. cbn [bind].
      split; [reflexivity|]. split; [reflexivity|].
      assert (Hbf : blk (d_stream_pos d1') <= blk (d_stream_pos d')) by (apply blk_mono; lia).
      split.
      { cbn [concat]. rewrite Ec, Et, pe_cnt by lia.
        replace (blk (d_stream_pos d1') + 1)
          with (blk (d_stream_pos d) + 1 + N.of_nat (N.to_nat (blk (d_stream_pos d1') - blk (d_stream_pos d)))) by lia.
        rewrite cnt_app. f_equal. lia. }
      split; [exact Hstrip'|]. split; [lia|]. split; [exact Hp'|]. split; congruence.
  Qed.

  (* 1. Split invariance with the event component.  Full statement:
        for a decoder with the monitor attached, the concatenation of the event
        lists of any schedule of reads ks is the event list of one read of sum ks,
        the bytes concatenate as well, and the final decoders are equal.       *)
  Theorem events_split_invariant_proof : forall ks (d : dec),
    pos_ok d -> mon_ok d -> blocks_fit d -> sum_N ks < 2 ^ 62 ->
    exists os evs d', run_reads_ev d ks = Ok (os, evs, d') /\
                      dec_read d (sum_N ks) = Ok (concat os, concat evs, d') /\
                      pos_ok d' /\ mon_ok d' /\ blocks_fit d' /\
                      d_stream_length d' = d_stream_length d /\ d_total_blocks d' = d_total_blocks d /\
                      d_stream_pos d' = d_stream_pos d + nlen (concat os) /\
                      concat evs = cnt (blk (d_stream_pos d) + 1)
                                       (N.to_nat (blk (d_stream_pos d') - blk (d_stream_pos d))) (d_total_blocks d).
  Proof.
    intros ks d Hp Hmon Hf Hs.
    destruct (run_ev_off ks d Hp Hmon Hf Hs) as (os & evs & d' & Rr & Re & Ec & Hstrip & Hpos & Hp' & El & Et).
    destruct Hmon as [Hm Hl].
    destruct (reads_compose_proof dread max_read block_size Hd ks (remon d false 0) Hp eq_refl Hs)
      as (os0 & d0 & R0 & Rs & _).
    rewrite Rr in R0. injection R0 as <- <-.
    destruct (read_on_off d (sum_N ks) Hs Hm Hp) as (o & d2 & Roff & Ron & _ & Epos & _).
    rewrite Rs in Roff. injection Roff as <- <-.
    assert (Hb' : blk (d_stream_pos d') < 4294967296).
    { pose proof (blk_mono block_size _ _ Hp'). unfold blocks_fit in Hf. rewrite El in *. lia. }
    assert (Hb0 : blk (d_stream_pos d) <= blk (d_stream_pos d')) by (apply blk_mono; lia).
    rewrite (u32_id _ Hb') in Ron. rewrite Hl, u32_id in Ron by lia.
    rewrite pe_cnt in Ron by lia.
    exists os, evs, (remon d' true (blk (d_stream_pos d'))).
    split; [exact Re|]. split; [rewrite Ec; exact Ron|].
    split; [exact Hp'|]. split.
    { split; [reflexivity|]. unfold remon. prj. symmetry. apply u32_id. exact Hb'. }
    split; [unfold blocks_fit, remon; prj; rewrite El; exact Hf|].
    unfold remon. prj. repeat split; assumption.
  Qed.

  (* the same as a statement about two schedules *)
  Theorem events_split_invariant : forall ks1 ks2 (d : dec) os1 evs1 d1 os2 evs2 d2,
    pos_ok d -> mon_ok d -> blocks_fit d -> sum_N ks1 = sum_N ks2 -> sum_N ks1 < 2 ^ 62 ->
    run_reads_ev d ks1 = Ok (os1, evs1, d1) -> run_reads_ev d ks2 = Ok (os2, evs2, d2) ->
    concat os1 = concat os2 /\ concat evs1 = concat evs2 /\ d1 = d2.
  Proof.
    intros ks1 ks2 d os1 evs1 d1 os2 evs2 d2 Hp Hm Hf Es Hs R1 R2.
    destruct (events_split_invariant_proof ks1 d Hp Hm Hf Hs) as (a1 & b1 & c1 & A1 & B1 & _).
    destruct (events_split_invariant_proof ks2 d Hp Hm Hf ltac:(congruence)) as (a2 & b2 & c2 & A2 & B2 & _).
    rewrite R1 in A1. rewrite R2 in A2. injection A1 as <- <- <-. injection A2 as <- <- <-.
    rewrite Es in B1. rewrite B1 in B2. injection B2 as -> -> ->. auto.
  Qed.

  (* ---------------------------------------------------------------- *)
  (* Unmonitored reads leave the monitor fields alone                  *)

  Lemma reads_off_fields : forall ks (d : dec) os d',
    pos_ok d -> d_monitor d = false -> sum_N ks < 2 ^ 62 -> reads d ks = Ok (os, d') ->
    pos_ok d' /\ d_monitor d' = false /\ d_last_block d' = d_last_block d /\
    d_total_blocks d' = d_total_blocks d /\ d_stream_length d' = d_stream_length d /\
    d_stream_pos d' = d_stream_pos d + nlen (concat os) /\
    dec_read d (sum_N ks) = Ok (concat os, [], d').
  Proof.
    intros ks d os d' Hp Hm Hs Hr.
    destruct (reads_compose_proof dread max_read block_size Hd ks d Hp Hm Hs) as (os0 & d0 & R0 & Rs & Hp' & Hm').
    rewrite Hr in R0. injection R0 as <- <-.
    destruct (reads_length_crc_proof dread max_read block_size Hd ks d os d' Hp Hm Hs Hr) as (A & _ & C & _).
    destruct (read_spec_off dread max_read block_size Hd d (sum_N ks) Hs Hm) as (k & o & d1 & P & R).
    rewrite Rs in R. injection R as _ ->.
    pose proof (pull_passengers _ _ _ _ _ _ _ P) as (_ & _ & _ & _ & Pb & Pt).
    split; [exact Hp'|]. split; [exact Hm'|].
    split; [exact Pb|]. split; [exact Pt|]. split; [exact C|]. split; [exact A|exact Rs].
  Qed.

  (* 3 (whole session).  A decoder to which no monitor was ever attached
     (last_block still UINT_MAX) is read with any schedule ks0, then the monitor
     is attached, then it is read with any schedule ks.  With T the block count
     of the declared length:
       - lha_decoder_monitor itself reports (0,T) ... (b0,T), b0 the block of the
         position at which it is attached (so (0,T) alone at the very beginning);
       - all events together are (0,T) (1,T) ... (b,T), b the block of the final
         position: consecutive from 0, every total equal to T = d_total_blocks,
         never beyond the block of the current position, hence never beyond T.
     This holds whether or not the stream decodes completely.            *)
  Theorem events_session_proof : forall ks0 ks (d : dec),
    pos_ok d -> d_monitor d = false -> d_last_block d = 4294967295 ->
    blk (d_stream_length d) < 4294967295 -> sum_N ks0 < 2 ^ 62 -> sum_N ks < 2 ^ 62 ->
    exists os0 d0 d1 ev0 os evs d2,
      reads d ks0 = Ok (os0, d0) /\ monitor d0 = (d1, ev0) /\ run_reads_ev d1 ks = Ok (os, evs, d2) /\
      let T := blk (d_stream_length d) in
      d_total_blocks d1 = T /\ d_total_blocks d2 = T /\
      ev0 = upto (blk (d_stream_pos d0)) T /\
      ev0 ++ concat evs = upto (blk (d_stream_pos d2)) T /\
      d_stream_pos d0 = d_stream_pos d + nlen (concat os0) /\
      d_stream_pos d2 = d_stream_pos d0 + nlen (concat os) /\
      d_stream_pos d2 <= d_stream_length d /\ blk (d_stream_pos d2) <= T /\
      d_last_block d2 = blk (d_stream_pos d2).
  Proof.
    intros ks0 ks d Hp Hm Hl Hf Hs0 Hs.
    destruct (reads_compose_proof dread max_read block_size Hd ks0 d Hp Hm Hs0) as (os0 & d0 & R0 & _).
    destruct (reads_off_fields ks0 d os0 d0 Hp Hm Hs0 R0) as (Hp0 & Hm0 & Hl0 & Ht0 & El0 & Epos0 & _).
    destruct (monitor d0) as [d1 ev0] eqn:Emon.
    pose proof (monitor_ok d0) as Hok. rewrite Emon in Hok. cbn [fst] in Hok.
    destruct Hok as (Hmon1 & Et1 & _ & _ & _ & Epos1 & El1 & _).
    assert (Eev0 : ev0 = progress_events (d_last_block d0) (u32 (blk (d_stream_pos d0))) (u32 (blk (d_stream_length d0)))).
    { rewrite monitor_eq in Emon. injection Emon as _ <-. reflexivity. }
    assert (Hb0 : blk (d_stream_pos d0) <= blk (d_stream_length d)).
    { rewrite <- El0. apply blk_mono. exact Hp0. }
    rewrite El0 in *. rewrite !u32_id in Eev0 by lia. rewrite u32_id in Et1 by lia.
    rewrite Hl0, Hl, pe_init in Eev0 by lia.
    assert (Hp1 : pos_ok d1) by (unfold pos_ok in *; lia).
    assert (Hf1 : blocks_fit d1) by (unfold blocks_fit; rewrite El1; lia).
    destruct (events_split_invariant_proof ks d1 Hp1 Hmon1 Hf1 Hs)
      as (os & evs & d2 & Re & Rs & Hp2 & Hmon2 & _ & El2 & Et2 & Epos2 & Ec).
    assert (Hb2 : blk (d_stream_pos d2) <= blk (d_stream_length d)).
    { rewrite <- El1, <- El2. apply blk_mono. exact Hp2. }
    assert (Hb12 : blk (d_stream_pos d0) <= blk (d_stream_pos d2)).
    { apply blk_mono. lia. }
    exists os0, d0, d1, ev0, os, evs, d2.
    split; [exact R0|]. split; [exact Emon|]. split; [exact Re|]. cbv zeta.
    split; [exact Et1|]. split; [congruence|]. split; [exact Eev0|]. split.
    { rewrite Eev0, Ec, Epos1, Et1. rewrite <- pe_cnt by lia. apply upto_pe; lia. }
    split; [exact Epos0|]. split; [lia|]. split; [unfold pos_ok in Hp2; lia|]. split; [exact Hb2|].
    destruct Hmon2 as [_ E]. rewrite E. apply u32_id. lia.
  Qed.

  (* 2.  The monitor is attached to a new decoder before the first read, and the
     reads bring the position to the declared length L (the stream decodes
     completely).  Then the calls are exactly (0,T) (1,T) ... (T,T), T + 1 of
     them, where T = total_blocks = (L + block_size - 1) / block_size; the first,
     (0,T), is made by lha_decoder_monitor itself, the others by the reads.  For
     L = 0 this is the single call (0,0).  Needs T < UINT_MAX (see the corner
     Examples at the end).                                                *)
  Theorem events_count_up : forall ks inner c L,
    blk L < 4294967295 -> sum_N ks < 2 ^ 62 ->
    exists d1 os evs d2,
      monitor (fresh inner c L) = (d1, [(0, blk L)]) /\ d_total_blocks d1 = blk L /\
      run_reads_ev d1 ks = Ok (os, evs, d2) /\
      [(0, blk L)] ++ concat evs = upto (blk (nlen (concat os))) (blk L) /\
      (d_stream_pos d2 = L -> [(0, blk L)] ++ concat evs = upto (blk L) (blk L)) /\
      d_stream_pos d2 = nlen (concat os) /\ nlen (concat os) <= L.
  Proof.
    intros ks inner c L Hf Hs.
    destruct (events_session_proof [] ks (fresh inner c L)) as
      (os0 & d0 & d1 & ev0 & os & evs & d2 & R0 & Emon & Re & Et1 & Et2 & Eev0 & Eall & Ep0 & Ep2 & Hle & _);
      [unfold pos_ok; cbn; lia|reflexivity|reflexivity|exact Hf|cbn; lia|exact Hs|].
    cbn [run_reads] in R0. injection R0 as <- <-.
    cbn [lha_decoder_new d_stream_pos d_stream_length concat] in *.
    rewrite blk_0 in Eev0. change (upto 0 (blk L)) with [(0, blk L)] in Eev0. subst ev0.
    change (nlen (@nil N)) with 0 in *. rewrite N.add_0_l in Ep2. rewrite Ep2 in Eall, Hle.
    exists d1, os, evs, d2.
    split; [exact Emon|]. split; [exact Et1|]. split; [exact Re|]. split; [exact Eall|].
    split; [intros E; rewrite Eall, <- Ep2, E; reflexivity|]. split; [exact Ep2|exact Hle].
  Qed.

  (* 3 (one call, any last_block).  Whatever last_block is -- no assumption on how
     the decoder was obtained -- a monitored read reports u32 (B - last_block)
     events, B the block of the new position; the i-th has block number
     last_block + 1 + i (mod 2^32); every total is d_total_blocks; last_block
     becomes B.  Without wrap-around (last_block <= B) these are the numbers
     last_block + 1 .. B, none beyond the block of the current position.  *)
  Theorem events_monotone : forall (d : dec) n o ev d',
    d_monitor d = true -> pos_ok d -> n < 2 ^ 62 -> dec_read d n = Ok (o, ev, d') ->
    let B := u32 (blk (d_stream_pos d')) in
    ev = progress_events (d_last_block d) B (d_total_blocks d) /\
    N.of_nat (length ev) = u32 (B + 4294967296 - d_last_block d) /\
    (forall i, (i < length ev)%nat ->
       nth_error ev i = Some (u32 (d_last_block d + 1 + N.of_nat i), d_total_blocks d)) /\
    Forall (fun e => snd e = d_total_blocks d) ev /\
    d_monitor d' = true /\ d_last_block d' = B /\ d_total_blocks d' = d_total_blocks d /\
    (d_last_block d <= B ->
       ev = cnt (d_last_block d + 1) (N.to_nat (B - d_last_block d)) (d_total_blocks d) /\
       Forall (fun e => d_last_block d < fst e <= B) ev).
  Proof.
    intros d n o ev d' Hm Hp Hn R.
    destruct (read_on_off d n Hn Hm Hp) as (o1 & d1 & _ & Ron & _ & _ & _ & _ & Et).
    rewrite R in Ron. injection Ron as -> -> ->. cbv zeta.
    change (d_stream_pos (remon d1 true (u32 (blk (d_stream_pos d1))))) with (d_stream_pos d1).
    set (B := u32 (blk (d_stream_pos d1))).
    split; [reflexivity|]. split; [apply progress_events_length|].
    split; [intros i Hi; apply progress_events_nth; exact Hi|].
    split.
    { unfold progress_events. apply Forall_forall. intros e He. apply in_map_iff in He.
      destruct He as (i & <- & _). reflexivity. }
    split; [reflexivity|]. split; [reflexivity|]. split; [exact Et|].
    intros Hle. pose proof (u32_below (blk (d_stream_pos d1))) as HB. fold B in HB.
    rewrite pe_cnt by lia. split; [reflexivity|].
    eapply Forall_impl; [|apply cnt_fst_bounds]. intros e He. cbv beta in He. lia.
  Qed.

  (* the same for the call made by lha_decoder_monitor *)
  Theorem monitor_events_monotone : forall (d d1 : dec) ev, monitor d = (d1, ev) ->
    let B := u32 (blk (d_stream_pos d)) in
    let T := u32 (blk (d_stream_length d)) in
    ev = progress_events (d_last_block d) B T /\
    N.of_nat (length ev) = u32 (B + 4294967296 - d_last_block d) /\
    (forall i, (i < length ev)%nat -> nth_error ev i = Some (u32 (d_last_block d + 1 + N.of_nat i), T)) /\
    mon_ok d1 /\ d_last_block d1 = B /\ d_total_blocks d1 = T.
  Proof.
    intros d d1 ev E. rewrite monitor_eq in E. injection E as <- <-. cbv zeta.
    split; [reflexivity|]. split; [apply progress_events_length|].
    split; [intros i Hi; apply progress_events_nth; exact Hi|].
    split; [split; reflexivity|]. split; reflexivity.
  Qed.
End Progress.

(* ------------------------------------------------------------------ *)
(* The same for inner decoders that return normally in the states that  *)
(* satisfy an invariant they preserve (every real decoder).             *)

Section ProgressInv.
  Context {cbs st : Type}.
  Variable dread : st -> cbs -> outcome (list N * st * cbs).
  Variable max_read block_size : N.
  Variable I : st -> Prop.
  Hypothesis Htot : forall s c, I s ->
    exists ch s' c', dread s c = Ok (ch, s', c') /\ nlen ch <= max_read /\ I s'.

  Notation dec := (@decoder cbs st).
  Notation dtot := (dread_tot dread max_read).
  Notation Htt := (dread_tot_total dread max_read I Htot).
  Notation dec_read := (lha_decoder_read dread max_read block_size).
  Notation reads := (run_reads dread max_read block_size).
  Notation reads_ev := (run_reads_ev dread max_read block_size).
  Notation monitor := (lha_decoder_monitor block_size).
  Notation blk := (blk block_size).
  Notation fresh inner c L := (lha_decoder_new inner c L : dec).

  Lemma run_reads_ev_ext ks : forall (d : dec), I (d_inner d) ->
    reads_ev d ks = run_reads_ev dtot max_read block_size d ks /\
    forall os evs d', reads_ev d ks = Ok (os, evs, d') -> I (d_inner d').
  Proof.
    induction ks as [|k r IH]; intros d Hi; cbn [run_reads_ev].
    - split; [reflexivity|]. intros os evs d' E. injection E as _ _ <-. exact Hi.
    - destruct (read_ext dread max_read block_size I Htot d k Hi) as [E K]. rewrite <- E.
      destruct (dec_read d k) as [[[o ev] d1]| |]; cbn [bind];
        [|split; [reflexivity|discriminate]|split; [reflexivity|discriminate]].
      destruct (IH d1 (K _ _ _ eq_refl)) as [E1 K1]. rewrite <- E1.
      split; [reflexivity|].
      destruct (reads_ev d1 r) as [[[os evs] d2]| |]; cbn [bind]; try discriminate.
      intros os' evs' d' E2. injection E2 as _ _ <-. exact (K1 _ _ _ eq_refl).
  Qed.

  Lemma run_reads_keep ks (d : dec) os d' : I (d_inner d) -> reads d ks = Ok (os, d') -> I (d_inner d').
  Proof.
    intros Hi R. rewrite run_reads_ev_forget in R.
    destruct (run_reads_ev_ext ks d Hi) as [_ K].
    destruct (reads_ev d ks) as [[[os1 evs1] d1]| |]; try discriminate.
    injection R as _ <-. exact (K _ _ _ eq_refl).
  Qed.

  Theorem events_split_invariant_proof_I : forall ks (d : dec), I (d_inner d) ->
    pos_ok d -> mon_ok block_size d -> blocks_fit block_size d -> sum_N ks < 2 ^ 62 ->
    exists os evs d', reads_ev d ks = Ok (os, evs, d') /\
                      dec_read d (sum_N ks) = Ok (concat os, concat evs, d') /\ I (d_inner d') /\
                      pos_ok d' /\ mon_ok block_size d' /\ blocks_fit block_size d' /\
                      d_stream_length d' = d_stream_length d /\ d_total_blocks d' = d_total_blocks d /\
                      d_stream_pos d' = d_stream_pos d + nlen (concat os) /\
                      concat evs = cnt (blk (d_stream_pos d) + 1)
                                       (N.to_nat (blk (d_stream_pos d') - blk (d_stream_pos d))) (d_total_blocks d).
  Proof.
    intros ks d Hi Hp Hm Hf Hs.
    destruct (events_split_invariant_proof dtot max_read block_size Htt ks d Hp Hm Hf Hs)
      as (os & evs & d' & A & B & Rest).
    destruct (run_reads_ev_ext ks d Hi) as [E K].
    destruct (read_ext dread max_read block_size I Htot d (sum_N ks) Hi) as [E2 _].
    exists os, evs, d'. rewrite E, E2. split; [exact A|]. split; [exact B|].
    split; [apply (K os evs d'); rewrite E; exact A|exact Rest].
  Qed.

  Theorem events_split_invariant_I : forall ks1 ks2 (d : dec) os1 evs1 d1 os2 evs2 d2, I (d_inner d) ->
    pos_ok d -> mon_ok block_size d -> blocks_fit block_size d -> sum_N ks1 = sum_N ks2 -> sum_N ks1 < 2 ^ 62 ->
    reads_ev d ks1 = Ok (os1, evs1, d1) -> reads_ev d ks2 = Ok (os2, evs2, d2) ->
    concat os1 = concat os2 /\ concat evs1 = concat evs2 /\ d1 = d2.
  Proof.
    intros ks1 ks2 d os1 evs1 d1 os2 evs2 d2 Hi Hp Hm Hf Es Hs R1 R2.
    destruct (run_reads_ev_ext ks1 d Hi) as [E1 _]. destruct (run_reads_ev_ext ks2 d Hi) as [E2 _].
    rewrite E1 in R1. rewrite E2 in R2.
    exact (events_split_invariant dtot max_read block_size Htt ks1 ks2 d _ _ _ _ _ _ Hp Hm Hf Es Hs R1 R2).
  Qed.

  Theorem events_session_proof_I : forall ks0 ks (d : dec), I (d_inner d) ->
    pos_ok d -> d_monitor d = false -> d_last_block d = 4294967295 ->
    blk (d_stream_length d) < 4294967295 -> sum_N ks0 < 2 ^ 62 -> sum_N ks < 2 ^ 62 ->
    exists os0 d0 d1 ev0 os evs d2,
      reads d ks0 = Ok (os0, d0) /\ monitor d0 = (d1, ev0) /\ reads_ev d1 ks = Ok (os, evs, d2) /\
      let T := blk (d_stream_length d) in
      d_total_blocks d1 = T /\ d_total_blocks d2 = T /\
      ev0 = upto (blk (d_stream_pos d0)) T /\
      ev0 ++ concat evs = upto (blk (d_stream_pos d2)) T /\
      d_stream_pos d0 = d_stream_pos d + nlen (concat os0) /\
      d_stream_pos d2 = d_stream_pos d0 + nlen (concat os) /\
      d_stream_pos d2 <= d_stream_length d /\ blk (d_stream_pos d2) <= T /\
      d_last_block d2 = blk (d_stream_pos d2).
  Proof.
    intros ks0 ks d Hi Hp Hm Hl Hf Hs0 Hs.
    destruct (events_session_proof dtot max_read block_size Htt ks0 ks d Hp Hm Hl Hf Hs0 Hs)
      as (os0 & d0 & d1 & ev0 & os & evs & d2 & R0 & Emon & Re & Rest).
    rewrite <- (run_reads_ext dread max_read block_size I Htot ks0 d Hi) in R0.
    pose proof (run_reads_keep ks0 d os0 d0 Hi R0) as Hi0.
    assert (Hi1 : I (d_inner d1)).
    { pose proof (monitor_ok block_size d0) as Hok. rewrite Emon in Hok. cbn [fst] in Hok.
      destruct Hok as (_ & _ & Ein & _). rewrite Ein. exact Hi0. }
    destruct (run_reads_ev_ext ks d1 Hi1) as [E _]. rewrite <- E in Re.
    exists os0, d0, d1, ev0, os, evs, d2. split; [exact R0|]. split; [exact Emon|]. split; [exact Re|exact Rest].
  Qed.

  Theorem events_count_up_I : forall ks inner c L, I inner ->
    blk L < 4294967295 -> sum_N ks < 2 ^ 62 ->
    exists d1 os evs d2,
      monitor (fresh inner c L) = (d1, [(0, blk L)]) /\ d_total_blocks d1 = blk L /\
      reads_ev d1 ks = Ok (os, evs, d2) /\
      [(0, blk L)] ++ concat evs = upto (blk (nlen (concat os))) (blk L) /\
      (d_stream_pos d2 = L -> [(0, blk L)] ++ concat evs = upto (blk L) (blk L)) /\
      d_stream_pos d2 = nlen (concat os) /\ nlen (concat os) <= L.
  Proof.
    intros ks inner c L Hi Hf Hs.
    destruct (events_count_up dtot max_read block_size Htt ks inner c L Hf Hs)
      as (d1 & os & evs & d2 & Emon & Et & Re & Rest).
    assert (Hi1 : I (d_inner d1)).
    { pose proof (monitor_ok block_size (fresh inner c L)) as Hok. rewrite Emon in Hok. cbn [fst] in Hok.
      destruct Hok as (_ & _ & Ein & _). rewrite Ein. exact Hi. }
    destruct (run_reads_ev_ext ks d1 Hi1) as [E _]. rewrite <- E in Re.
    exists d1, os, evs, d2. split; [exact Emon|]. split; [exact Et|]. split; [exact Re|exact Rest].
  Qed.

  Theorem events_monotone_I : forall (d : dec) n o ev d', I (d_inner d) ->
    d_monitor d = true -> pos_ok d -> n < 2 ^ 62 -> dec_read d n = Ok (o, ev, d') ->
    let B := u32 (blk (d_stream_pos d')) in
    ev = progress_events (d_last_block d) B (d_total_blocks d) /\
    N.of_nat (length ev) = u32 (B + 4294967296 - d_last_block d) /\
    (forall i, (i < length ev)%nat ->
       nth_error ev i = Some (u32 (d_last_block d + 1 + N.of_nat i), d_total_blocks d)) /\
    Forall (fun e => snd e = d_total_blocks d) ev /\
    d_monitor d' = true /\ d_last_block d' = B /\ d_total_blocks d' = d_total_blocks d /\
    (d_last_block d <= B ->
       ev = cnt (d_last_block d + 1) (N.to_nat (B - d_last_block d)) (d_total_blocks d) /\
       Forall (fun e => d_last_block d < fst e <= B) ev).
  Proof.
    intros d n o ev d' Hi Hm Hp Hn R.
    destruct (read_ext dread max_read block_size I Htot d n Hi) as [E _]. rewrite E in R.
    exact (events_monotone dtot max_read block_size Htt d n o ev d' Hm Hp Hn R).
  Qed.
End ProgressInv.

Print Assumptions events_split_invariant_proof.
Print Assumptions events_split_invariant.
Print Assumptions events_session_proof.
Print Assumptions events_count_up.
Print Assumptions events_monotone.
Print Assumptions monitor_events_monotone.
Print Assumptions events_split_invariant_proof_I.
Print Assumptions events_split_invariant_I.
Print Assumptions events_session_proof_I.
Print Assumptions events_count_up_I.
Print Assumptions events_monotone_I.
Print Assumptions blk_ceil_spec.
Print Assumptions blk_ceil_cases.
Print Assumptions table_block_sizes_positive.

(* ------------------------------------------------------------------ *)
(* Non-vacuity: the stored-method decoder (null_decoder.c, block_size    *)
(* 2048, max_read 1024) over a list source, evaluated by vm_compute.     *)

Definition ex_src (n : nat) : src :=
  {| src_data := map (fun i => N.of_nat i mod 251) (seq 0 n); src_chunks := [] |}.
Definition ex_new (n : nat) (L : N) : @decoder src null_state := lha_decoder_new tt (ex_src n) L.
Notation ex_reads_ev := (run_reads_ev (null_read src_cb) null_max_read null_block_size).
Notation ex_reads := (run_reads (null_read src_cb) null_max_read null_block_size).
Notation ex_monitor := (lha_decoder_monitor null_block_size).

(* what one observes of a monitored session *)
Definition ex_observe (r : outcome (list (list N) * list (list (N * N)) * @decoder src null_state)) :=
  match r with
  | Ok (os, evs, d2) => Some (evs, map nlen os, d_stream_pos d2, d_total_blocks d2, d_last_block d2)
  | _ => None
  end.

(* A stream of 5000 bytes = 3 blocks of 2048; monitor attached first; schedule
   [0; 5; 0; 100000] (zero-length reads, a read far larger than the output).
   lha_decoder_monitor reports (0,3); the reads report (1,3), then (2,3) (3,3). *)
Example ex_three_blocks :
  snd (ex_monitor (ex_new 5000 5000)) = [(0, 3)] /\
  ex_observe (ex_reads_ev (fst (ex_monitor (ex_new 5000 5000))) [0; 5; 0; 100000]) =
    Some ([[]; [(1, 3)]; []; [(2, 3); (3, 3)]], [0; 5; 0; 4995], 5000, 3, 3).
Proof. vm_compute. split; reflexivity. Qed.

(* the same session against a single maximal read: bytes, events, length, CRC and
   the whole final decoder agree *)
Example ex_three_blocks_vs_one_read :
  match ex_reads_ev (fst (ex_monitor (ex_new 5000 5000))) [0; 5; 0; 100000],
        ex_reads_ev (fst (ex_monitor (ex_new 5000 5000))) [100005] with
  | Ok (os1, evs1, d1), Ok (os2, evs2, d2) =>
      concat os1 = concat os2 /\ concat evs1 = concat evs2 /\ d1 = d2 /\
      concat evs1 = [(1, 3); (2, 3); (3, 3)] /\
      lha_decoder_get_length d1 = 5000 /\ lha_decoder_get_crc d1 = lha_crc16_buf 0 (concat os1)
  | _, _ => False
  end.
Proof. vm_compute. repeat split; reflexivity. Qed.

(* the theorems apply to this decoder: their hypotheses are satisfiable *)
Example ex_count_up_applies :
  exists d1 os evs d2,
    ex_monitor (ex_new 5000 5000) = (d1, [(0, 3)]) /\ d_total_blocks d1 = 3 /\
    ex_reads_ev d1 [0; 5; 0; 100000] = Ok (os, evs, d2) /\
    [(0, 3)] ++ concat evs = upto (blk null_block_size (nlen (concat os))) 3.
Proof.
  destruct (events_count_up (null_read src_cb) null_max_read null_block_size null_src_total
              [0; 5; 0; 100000] tt (ex_src 5000) 5000) as (d1 & os & evs & d2 & A & B & C & D & _).
  - vm_compute. reflexivity.
  - vm_compute. reflexivity.
  - change (blk null_block_size 5000) with 3 in *. exists d1, os, evs, d2. auto.
Qed.

(* Corner: declared length 0.  T = 0 and there is exactly one call, (0,0), made
   by lha_decoder_monitor; the reads make none. *)
Example ex_empty_stream :
  snd (ex_monitor (ex_new 10 0)) = [(0, 0)] /\
  ex_observe (ex_reads_ev (fst (ex_monitor (ex_new 10 0))) [0; 5; 100]) =
    Some ([[]; []; []], [0; 0; 0], 0, 0, 0).
Proof. vm_compute. split; reflexivity. Qed.

(* Monitor attached late (after 3000 unmonitored bytes): lha_decoder_monitor
   itself reports the blocks passed so far, (0,3) (1,3) (2,3), in one go. *)
Example ex_late_attach :
  match ex_reads (ex_new 5000 5000) [1000; 0; 2000] with
  | Ok (_, d0) =>
      snd (ex_monitor d0) = [(0, 3); (1, 3); (2, 3)] /\
      ex_observe (ex_reads_ev (fst (ex_monitor d0)) [0; 100000; 7]) =
        Some ([[]; [(3, 3)]; []], [0; 2000; 0], 5000, 3, 3)
  | _ => False
  end.
Proof. vm_compute. split; reflexivity. Qed.

(* Truncated input (3000 of the declared 5000 bytes): the stream does not decode
   completely, the count stops at the block of the position reached, (2,3);
   (3,3) is never reported. *)
Example ex_truncated :
  snd (ex_monitor (ex_new 3000 5000)) = [(0, 3)] /\
  ex_observe (ex_reads_ev (fst (ex_monitor (ex_new 3000 5000))) [0; 5; 0; 100000; 9]) =
    Some ([[]; [(1, 3)]; []; [(2, 3)]; []], [0; 5; 0; 2995; 0], 3000, 3, 2).
Proof. vm_compute. split; reflexivity. Qed.

(* Corners of the unsigned int arithmetic, outside the hypotheses
   blk L < 4294967295 of the theorems above (declared lengths of 8 TiB and more
   at block_size 2048; nothing of the kind for realistic archives).
   (a) T = UINT_MAX and the monitor attached when the position is already in the
       last block: block = UINT_MAX = the initial last_block, so NO call is made
       at all, where the counting rule would give 2^32 calls 0 .. UINT_MAX.
   (b) stream_length of 2^32 blocks: total_blocks is truncated to 0, and the
       first call is (0,0) although the stream is not empty.                  *)
Definition ex_at (pos len : N) : @decoder src null_state :=
  {| d_inner := tt; d_cb := ex_src 0; d_outbuf := []; d_stream_pos := pos; d_stream_length := len;
     d_failed := false; d_crc := 0; d_monitor := false; d_last_block := 4294967295; d_total_blocks := 0 |}.

Example corner_uint_max_blocks_late_attach :
  ex_monitor (ex_at (4294967295 * 2048) (4294967295 * 2048)) =
    ({| d_inner := tt; d_cb := ex_src 0; d_outbuf := []; d_stream_pos := 4294967295 * 2048;
        d_stream_length := 4294967295 * 2048; d_failed := false; d_crc := 0; d_monitor := true;
        d_last_block := 4294967295; d_total_blocks := 4294967295 |}, []).
Proof. vm_compute. reflexivity. Qed.

Example corner_total_truncated :
  snd (ex_monitor (ex_at 0 (4294967296 * 2048))) = [(0, 0)] /\
  d_total_blocks (fst (ex_monitor (ex_at 0 (4294967296 * 2048)))) = 0.
Proof. vm_compute. split; reflexivity. Qed.

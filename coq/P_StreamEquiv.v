(* P_StreamEquiv.v -- property C15, stream level.

   [stream_equiv]: two input-stream states are equivalent when they have the
   same kind of source, the same state and the same bytes still to deliver;
   the request counters of the source (so_reads / so_skips) and the split of
   the remaining bytes between the lead-in buffer and the source are
   forgotten.

   1. reading k bytes and then skipping n leaves a stream equivalent to the
      one left by skipping k + n, for the four kinds of source, whether or
      not the data is there; the success flags are characterised, and when
      fewer than k + n bytes remain the next header read reports end of
      archive in both histories;
   2. lha_file_header_read depends only on the remaining bytes: it respects
      stream_equiv (same outcome, equivalent streams);
   3. a header that is returned has emptied the lead-in buffer.  This is what
      makes 1. applicable to the basic reader: lha_input_stream_skip does not
      look at the lead-in buffer at all (see [skip_ignores_leadin]).

   The model's raw_read has no chunk schedule: a request is answered with
   min(n, remaining) bytes, so there are no short reads before the end of the
   data; nothing had to be restricted for that.

   Lemmas and theorems only. *)
From Lhasa Require Import Base ListN Loop Generated Crc16 InputStream Header BasicReader P_HeaderSafe P_Intact.
From Coq Require Import ZifyBool ZifyN ZifyNat.
Local Open Scope N_scope.

(* ------------------------------------------------------------------ *)
(* Lists                                                               *)

Lemma skipn_N_app_l {A} w (l1 l2 : list A) : w <= nlen l1 -> skipn_N w (l1 ++ l2) = skipn_N w l1 ++ l2.
Proof.
  intros H. rewrite !skipn_N_eq. rewrite skipn_app.
  replace (N.to_nat w - length l1)%nat with O by (unfold nlen in H; lia).
  reflexivity.
Qed.

Lemma skipn_N_app_r {A} w (l1 l2 : list A) : nlen l1 <= w -> skipn_N w (l1 ++ l2) = skipn_N (w - nlen l1) l2.
Proof.
  intros H. rewrite !skipn_N_eq. rewrite skipn_app.
  rewrite skipn_all2 by (unfold nlen in H; lia).
  cbn [app]. f_equal. unfold nlen. lia.
Qed.

Lemma skipn_N_all {A} w (l : list A) : nlen l <= w -> skipn_N w l = [].
Proof. intros H. apply skipn_N_nil_iff. exact H. Qed.

(* ------------------------------------------------------------------ *)
(* Outcomes related by a relation on their values                      *)

Definition orel {A B} (R : A -> B -> Prop) (x : outcome A) (y : outcome B) : Prop :=
  match x, y with
  | Ok a, Ok b => R a b
  | Fault s, Fault t => s = t
  | OutOfFuel, OutOfFuel => True
  | _, _ => False
  end.

Lemma orel_bind {A B A' B'} (R : A -> B -> Prop) (Q : A' -> B' -> Prop) m1 m2 k1 k2 :
  orel R m1 m2 -> (forall a b, R a b -> orel Q (k1 a) (k2 b)) -> orel Q (bind m1 k1) (bind m2 k2).
Proof. destruct m1, m2; cbn; intros H K; try contradiction; auto. Qed.

Lemma orel_bind_same {A A' B'} (Q : A' -> B' -> Prop) (m : outcome A) k1 k2 :
  (forall a, orel Q (k1 a) (k2 a)) -> orel Q (bind m k1) (bind m k2).
Proof. destruct m; cbn; auto. Qed.

Lemma orel_of_eqs {A B} (R : A -> B -> Prop) x x' y y' :
  x = x' -> y = y' -> orel R x' y' -> orel R x y.
Proof. intros -> ->. auto. Qed.

Lemma orel_weaken {A B} (R R' : A -> B -> Prop) x y :
  orel R x y -> (forall a b, R a b -> R' a b) -> orel R' x y.
Proof. destruct x, y; cbn; auto. Qed.

Lemma orel_ok_l {A B} (R : A -> B -> Prop) x y a :
  orel R x y -> x = Ok a -> exists b, y = Ok b /\ R a b.
Proof. intros H ->. destruct y; cbn in H; try contradiction. eauto. Qed.

Definition sum_rel {S1 S2 R1 R2} (RS : S1 -> S2 -> Prop) (RR : R1 -> R2 -> Prop)
  (x : S1 + R1) (y : S2 + R2) : Prop :=
  match x, y with
  | inl a, inl b => RS a b
  | inr a, inr b => RR a b
  | _, _ => False
  end.

(* two loops whose steps are related run in lock step *)
Lemma orel_loop_n {S1 S2 R1 R2} (step1 : S1 -> outcome (S1 + R1)) (step2 : S2 -> outcome (S2 + R2))
  (RS : S1 -> S2 -> Prop) (RR : R1 -> R2 -> Prop) :
  (forall s1 s2, RS s1 s2 -> orel (sum_rel RS RR) (step1 s1) (step2 s2)) ->
  forall k s1 s2, RS s1 s2 -> orel (sum_rel RS RR) (loop_n step1 k s1) (loop_n step2 k s2).
Proof.
  intros Hs. induction k as [|k IH]; intros s1 s2 H; cbn [loop_n].
  - apply Hs. exact H.
  - eapply orel_bind; [apply IH; exact H|].
    intros [a|a] [b|b] Hab; cbn [sum_rel] in Hab; try contradiction.
    + apply IH. exact Hab.
    + cbn [orel sum_rel]. exact Hab.
Qed.

Lemma orel_loop {S1 S2 R1 R2} (step1 : S1 -> outcome (S1 + R1)) (step2 : S2 -> outcome (S2 + R2))
  (RS : S1 -> S2 -> Prop) (RR : R1 -> R2 -> Prop) :
  (forall s1 s2, RS s1 s2 -> orel (sum_rel RS RR) (step1 s1) (step2 s2)) ->
  forall k s1 s2, RS s1 s2 -> orel RR (loop step1 k s1) (loop step2 k s2).
Proof.
  intros Hs k s1 s2 H. unfold loop.
  eapply orel_bind; [apply (orel_loop_n step1 step2 RS RR Hs); exact H|].
  intros [a|a] [b|b] Hab; cbn [sum_rel] in Hab; try contradiction; cbn [orel]; auto.
Qed.

(* ------------------------------------------------------------------ *)
(* The equivalence                                                     *)

(* the bytes the stream has still to deliver, in order *)
Definition remaining (st : istream) : list N := is_leadin st ++ so_data (is_src st).

(* Before the first read (state INIT) the lead-in buffer is compared as it
   is: the self-extractor scan starts from it.  Every stream made by
   lha_input_stream_new has it empty. *)
Definition stream_equiv (a b : istream) : Prop :=
  so_kind (is_src a) = so_kind (is_src b) /\
  is_state a = is_state b /\
  remaining a = remaining b /\
  (is_state a = IS_INIT -> is_leadin a = is_leadin b).

Lemma stream_equiv_refl a : stream_equiv a a.
Proof. repeat split; auto. Qed.

Lemma stream_equiv_sym a b : stream_equiv a b -> stream_equiv b a.
Proof. intros (K & S & R & I). repeat split; auto. intros E. symmetry. apply I. congruence. Qed.

Lemma stream_equiv_trans a b c : stream_equiv a b -> stream_equiv b c -> stream_equiv a c.
Proof.
  intros (K & S & R & I) (K' & S' & R' & I'). repeat split; try congruence.
  intros E. rewrite I by exact E. apply I'. congruence.
Qed.

(* sources that differ in their request counters only *)
Definition src_equiv (s t : source) : Prop := so_kind s = so_kind t /\ so_data s = so_data t.

Lemma stream_equiv_init a b : stream_equiv a b -> is_state a = IS_INIT ->
  is_leadin a = is_leadin b /\ src_equiv (is_src a) (is_src b).
Proof.
  intros (K & S & R & I) E. specialize (I E). split; [exact I|]. split; [exact K|].
  unfold remaining in R. rewrite I in R. eapply app_inv_head; eauto.
Qed.

(* results of stream operations: same value, equivalent streams *)
Definition rel_st {A} (x y : A * istream) : Prop := fst x = fst y /\ stream_equiv (snd x) (snd y).

(* ------------------------------------------------------------------ *)
(* read_ready in terms of the remaining bytes                          *)

Lemma read_ready_spec_rem st n : is_state st <> IS_FAIL ->
  fst (read_ready st n) = (if n <=? nlen (remaining st) then Some (firstn_N n (remaining st)) else None) /\
  remaining (snd (read_ready st n)) = skipn_N n (remaining st) /\
  so_kind (is_src (snd (read_ready st n))) = so_kind (is_src st) /\
  is_state (snd (read_ready st n)) = is_state st /\
  is_leadin (snd (read_ready st n)) = skipn_N n (is_leadin st).
Proof.
  intros NF. unfold read_ready, remaining.
  set (L := is_leadin st). set (D := so_data (is_src st)).
  assert (G :
    let r := (if nlen (firstn_N n L) <? n
       then
        let '(got, src') := raw_read (is_src st) (n - nlen (firstn_N n L)) in
        let st2 := {| is_src := src'; is_state := is_state st; is_leadin := skipn_N n L |} in
        if nlen (firstn_N n L) + nlen got =? n then (Some (firstn_N n L ++ got), st2) else (None, st2)
       else (Some (firstn_N n L), {| is_src := is_src st; is_state := is_state st; is_leadin := skipn_N n L |})) in
    fst r = (if n <=? nlen (L ++ D) then Some (firstn_N n (L ++ D)) else None) /\
    is_leadin (snd r) ++ so_data (is_src (snd r)) = skipn_N n (L ++ D) /\
    so_kind (is_src (snd r)) = so_kind (is_src st) /\
    is_state (snd r) = is_state st /\ is_leadin (snd r) = skipn_N n L).
  { cbv zeta. rewrite nlen_app. pose proof (nlen_firstn_N n L) as F.
    destruct (N.ltb_spec (nlen (firstn_N n L)) n) as [Lt|Ge].
    - assert (LL : nlen L < n) by lia.
      unfold raw_read. cbv beta iota. fold D.
      rewrite (firstn_N_all n L) by lia. rewrite (skipn_N_all n L) by lia.
      pose proof (nlen_firstn_N (n - nlen L) D) as F2.
      rewrite (firstn_N_app_r n L D) by lia. rewrite (skipn_N_app_r n L D) by lia.
      destruct (N.eqb_spec (nlen L + nlen (firstn_N (n - nlen L) D)) n) as [E|E];
        destruct (N.leb_spec n (nlen L + nlen D)) as [Le|Gt]; try lia;
        cbn [fst snd is_leadin is_src so_data so_kind is_state app]; repeat split; reflexivity.
    - assert (LL : n <= nlen L) by lia.
      rewrite (firstn_N_app_l n L D) by lia. rewrite (skipn_N_app_l n L D) by lia.
      destruct (N.leb_spec n (nlen L + nlen D)) as [Le|Gt]; try lia.
      cbn [fst snd is_leadin is_src so_data so_kind is_state]. repeat split; reflexivity. }
  cbv zeta in G. destruct (is_state st) eqn:Es; try exact G. contradiction.
Qed.

Lemma read_ready_fail st n : is_state st = IS_FAIL -> read_ready st n = (None, st).
Proof. intros E. unfold read_ready. rewrite E. reflexivity. Qed.

Lemma read_ready_equiv a b n : stream_equiv a b ->
  rel_st (read_ready a n) (read_ready b n).
Proof.
  intros (K & S & R & I). unfold rel_st.
  destruct (is_state a) eqn:Ea.
  - (* INIT is read like READING *)
    assert (NA : is_state a <> IS_FAIL) by congruence.
    assert (NB : is_state b <> IS_FAIL) by congruence.
    destruct (read_ready_spec_rem a n NA) as (F1 & R1 & K1 & S1 & L1).
    destruct (read_ready_spec_rem b n NB) as (F2 & R2 & K2 & S2 & L2).
    split; [rewrite F1, F2, R; reflexivity|].
    repeat split; try congruence. intros _. rewrite L1, L2, I; auto.
  - assert (NA : is_state a <> IS_FAIL) by congruence.
    assert (NB : is_state b <> IS_FAIL) by congruence.
    destruct (read_ready_spec_rem a n NA) as (F1 & R1 & K1 & S1 & L1).
    destruct (read_ready_spec_rem b n NB) as (F2 & R2 & K2 & S2 & L2).
    split; [rewrite F1, F2, R; reflexivity|].
    repeat split; try congruence.
  - rewrite (read_ready_fail a n Ea), (read_ready_fail b n) by congruence.
    cbn [fst snd]. split; [reflexivity|]. repeat split; auto; try congruence.
Qed.

(* ------------------------------------------------------------------ *)
(* lha_input_stream_read respects the equivalence                      *)

Definition sfx_rel (s t : sfx_st) : Prop :=
  src_equiv (sx_src s) (sx_src t) /\ sx_leadin s = sx_leadin t /\
  sx_filepos s = sx_filepos t /\ sx_skip s = sx_skip t.
Definition sfx_res_rel (x y : bool * source * list N) : Prop :=
  fst (fst x) = fst (fst y) /\ src_equiv (snd (fst x)) (snd (fst y)) /\ snd x = snd y.

Lemma sfx_step_equiv s t : sfx_rel s t -> orel (sum_rel sfx_rel sfx_res_rel) (sfx_step s) (sfx_step t).
Proof.
  destruct s as [ss sl sp sk], t as [ts tl tp tk]. unfold sfx_rel. cbn [sx_src sx_leadin sx_filepos sx_skip].
  intros ((K & D) & -> & -> & ->). unfold sfx_step. cbn [sx_src sx_leadin sx_filepos sx_skip].
  destruct (tp <? MAX_SFX_HEADER_LEN).
  2:{ cbn [orel sum_rel]. unfold sfx_res_rel, src_equiv. cbn [fst snd]. auto. }
  unfold raw_read. cbv beta iota. rewrite D.
  destruct (firstn_N (LEADIN_BUFFER_LEN - nlen tl) (so_data ts)) as [|g gs].
  { cbn [orel sum_rel]. unfold sfx_res_rel, src_equiv. cbn [fst snd so_kind so_data]. auto. }
  destruct (leadin_extent <? nlen (tl ++ g :: gs)); [cbn [orel]; reflexivity|].
  apply orel_bind_same. intros [[found i] skip']. cbv beta iota.
  destruct found as [i0|]; cbn [orel sum_rel]; unfold sfx_res_rel, sfx_rel, src_equiv;
    cbn [fst snd so_kind so_data sx_src sx_leadin sx_filepos sx_skip]; auto.
Qed.

Lemma skip_sfx_equiv a b : is_leadin a = is_leadin b -> src_equiv (is_src a) (is_src b) ->
  is_state a = is_state b ->
  orel (fun x y => fst x = fst y /\ is_leadin (snd x) = is_leadin (snd y) /\
                   src_equiv (is_src (snd x)) (is_src (snd y)) /\ is_state (snd x) = is_state (snd y))
       (skip_sfx a) (skip_sfx b).
Proof.
  intros L S E. unfold skip_sfx.
  eapply orel_bind.
  - apply (orel_loop sfx_step sfx_step sfx_rel sfx_res_rel sfx_step_equiv).
    unfold sfx_rel. cbn [sx_src sx_leadin sx_filepos sx_skip]. auto.
  - intros [[ok s1] l1] [[ok' s2] l2] (H1 & H2 & H3). cbn [fst snd] in *. subst.
    cbn [orel fst snd is_leadin is_src is_state]. auto.
Qed.

Theorem lha_input_stream_read_equiv a b n : stream_equiv a b ->
  orel rel_st (lha_input_stream_read a n) (lha_input_stream_read b n).
Proof.
  intros H. unfold lha_input_stream_read.
  eapply orel_bind with (R := stream_equiv).
  - destruct H as (K & S & R & I). destruct (is_state a) eqn:Ea; rewrite <- S.
    + destruct (stream_equiv_init a b) as [L Sr]; [repeat split; auto; congruence|exact Ea|].
      eapply orel_bind; [apply skip_sfx_equiv; auto; congruence|].
      intros [ok a'] [ok' b'] (H1 & H2 & (H3 & H4) & H5). cbn [fst snd] in *. subst ok'.
      cbn [orel]. unfold stream_equiv, remaining. cbn [is_src is_state is_leadin].
      rewrite H2, H4. repeat split; auto.
    + cbn [orel]. repeat split; auto; congruence.
    + cbn [orel]. repeat split; auto; congruence.
  - intros a1 b1 H1. cbn [orel]. apply read_ready_equiv. exact H1.
Qed.

(* the unchanged-stream results of a read in a state that is not INIT *)
Lemma stream_read_not_init st n : is_state st <> IS_INIT ->
  lha_input_stream_read st n = Ok (read_ready st n).
Proof. intros H. unfold lha_input_stream_read. destruct (is_state st); [contradiction| |]; reflexivity. Qed.

(* ------------------------------------------------------------------ *)
(* lha_input_stream_skip in terms of the source's bytes                *)

Definition skip_succeeds (k : skind) (m avail_bytes : N) : bool :=
  match k with KFile => true | _ => m <=? avail_bytes end.

Section SkipLoops.
  Variable k0 : skind.
  Variable d0 : list N.
  Variable m0 : N.

  Definition skl_inv (s : source * N) : Prop :=
    so_kind (fst s) = k0 /\ snd s <= m0 /\ m0 - snd s <= nlen d0 /\
    so_data (fst s) = skipn_N (m0 - snd s) d0.
  Definition skl_post (r : bool * source) : Prop :=
    fst r = (m0 <=? nlen d0) /\ so_kind (snd r) = k0 /\ so_data (snd r) = skipn_N m0 d0.

  Lemma skl_data_len s : skl_inv s -> nlen (so_data (fst s)) = nlen d0 - (m0 - snd s).
  Proof. intros (_ & _ & _ & D). rewrite D. apply nlen_skipn_N. Qed.

  Lemma fallback_step_spec s : skl_inv s ->
    exists x, fallback_step s = Ok x /\
      match x with inl s' => skl_inv s' /\ skip_meas s' < skip_meas s | inr r => skl_post r end.
  Proof.
    intros Hi. pose proof (skl_data_len s Hi) as HL. destruct Hi as (K & B & C & D).
    destruct s as [s bytes]. cbn [fst snd] in *. unfold fallback_step.
    destruct (N.ltb_spec 0 bytes) as [Hpos|Hz].
    2:{ eexists. split; [reflexivity|]. unfold skl_post. cbn [fst snd].
        assert (bytes = 0) by lia. subst bytes. rewrite N.sub_0_r in *.
        split; [symmetry; apply N.leb_le; lia|]. auto. }
    unfold raw_read. cbv beta iota.
    set (len := if 32 <? bytes then 32 else bytes).
    assert (Hlen : 1 <= len /\ len <= bytes) by (unfold len; destruct (N.ltb_spec 32 bytes); lia).
    pose proof (nlen_firstn_N len (so_data s)) as H1.
    destruct (N.eqb_spec (nlen (firstn_N len (so_data s))) len) as [He|Hne].
    - eexists. split; [reflexivity|]. cbn beta iota. split.
      + unfold skl_inv. cbn [fst snd so_kind so_data].
        split; [exact K|]. split; [lia|]. split; [lia|].
        rewrite D. rewrite <- skipn_N_add. f_equal. lia.
      + unfold skip_meas. cbn [fst snd so_data]. rewrite nlen_skipn_N. lia.
    - eexists. split; [reflexivity|]. unfold skl_post. cbn [fst snd so_kind so_data].
      split; [symmetry; apply N.leb_gt; lia|]. split; [exact K|].
      rewrite (skipn_N_all len) by lia. symmetry. apply skipn_N_all. lia.
  Qed.

  Lemma noskip_step_spec s : skl_inv s ->
    exists x, noskip_step s = Ok x /\
      match x with inl s' => skl_inv s' /\ skip_meas s' < skip_meas s | inr r => skl_post r end.
  Proof.
    intros Hi. pose proof (skl_data_len s Hi) as HL. destruct Hi as (K & B & C & D).
    destruct s as [s bytes]. cbn [fst snd] in *. unfold noskip_step.
    destruct (N.ltb_spec 0 bytes) as [Hpos|Hz].
    2:{ eexists. split; [reflexivity|]. unfold skl_post. cbn [fst snd].
        assert (bytes = 0) by lia. subst bytes. rewrite N.sub_0_r in *.
        split; [symmetry; apply N.leb_le; lia|]. auto. }
    unfold raw_read. cbv beta iota.
    set (len := if 32 <? bytes then 32 else bytes).
    assert (Hlen : 1 <= len /\ len <= bytes) by (unfold len; destruct (N.ltb_spec 32 bytes); lia).
    pose proof (nlen_firstn_N len (so_data s)) as H1.
    destruct (firstn_N len (so_data s)) as [|g gs] eqn:Eg.
    - rewrite nlen_nil in H1.
      assert (Z : nlen (so_data s) = 0) by lia.
      eexists. split; [reflexivity|]. unfold skl_post. cbn [fst snd so_kind so_data].
      split; [symmetry; apply N.leb_gt; lia|]. split; [exact K|].
      rewrite (skipn_N_all len) by lia. symmetry. apply skipn_N_all. lia.
    - eexists. split; [reflexivity|]. cbn beta iota.
      set (got := g :: gs) in *. assert (G1 : 1 <= nlen got) by (unfold got; rewrite nlen_cons; lia).
      split.
      + unfold skl_inv. cbn [fst snd so_kind so_data].
        split; [exact K|]. split; [lia|]. split; [lia|].
        destruct (N.le_gt_cases len (nlen (so_data s))) as [Full|Short].
        * assert (nlen got = len) by lia.
          rewrite D. rewrite <- skipn_N_add. f_equal. lia.
        * rewrite (skipn_N_all len) by lia. symmetry. apply skipn_N_all. lia.
      + unfold skip_meas. cbn [fst snd so_data]. rewrite nlen_skipn_N. lia.
  Qed.
End SkipLoops.

(* What a skip does, for every kind of source: the source loses its first m
   bytes (all of them when fewer remain); the lead-in buffer and the state
   are left alone; the call succeeds when the bytes were there -- and, on a
   seekable file, also when they were not (fseek beyond the end).
   The bound is the model's fuel for the two read-based loops. *)
Theorem lha_input_stream_skip_spec st m :
  m < 1099511627776 \/ nlen (so_data (is_src st)) < 1099511627776 ->
  exists src',
    lha_input_stream_skip st m =
      Ok (skip_succeeds (so_kind (is_src st)) m (nlen (so_data (is_src st))),
          {| is_src := src'; is_state := is_state st; is_leadin := is_leadin st |}) /\
    so_kind src' = so_kind (is_src st) /\
    so_data src' = skipn_N m (so_data (is_src st)).
Proof.
  intros Hb. unfold lha_input_stream_skip.
  set (s := is_src st). set (D := so_data s).
  assert (Hloop : forall (step : source * N -> outcome ((source * N) + (bool * source))) s1,
    so_kind s1 = so_kind s -> so_data s1 = D ->
    (forall x, skl_inv (so_kind s) D m x -> exists y, step x = Ok y /\
       match y with inl s' => skl_inv (so_kind s) D m s' /\ skip_meas s' < skip_meas x
                  | inr r => skl_post (so_kind s) D m r end) ->
    exists r, loop step 40 (s1, m) = Ok r /\ skl_post (so_kind s) D m r).
  { intros step s1 K1 D1 Hstep.
    apply (loop_total_ok step (skl_inv (so_kind s) D m) (skl_post (so_kind s) D m) skip_meas 40 Hstep).
    - unfold skl_inv. cbn [fst snd]. rewrite N.sub_diag. rewrite skipn_N_0. repeat split; auto; lia.
    - unfold skip_meas. cbn [fst snd]. rewrite D1. change (so_data (is_src st)) with D in Hb.
      change (2 ^ N.of_nat 40) with 1099511627776. lia. }
  destruct (so_kind s) eqn:Ek.
  - (* seekable file *)
    unfold raw_skip. fold s. rewrite Ek. cbn [bind]. cbv beta iota. cbn [so_data so_kind so_reads so_skips].
    eexists. split; [reflexivity|]. cbn [so_kind so_data]. auto.
  - (* pipe *)
    unfold raw_skip. fold s. rewrite Ek.
    edestruct (Hloop fallback_step) as ([ok src'] & E & P1 & P2 & P3);
      [| |intros x Hx; apply fallback_step_spec; exact Hx|].
    3:{ rewrite E. cbn [bind]. cbv beta iota. cbn [fst snd] in *.
        exists src'. split; [|split; assumption]. rewrite P1. reflexivity. }
    + reflexivity.
    + reflexivity.
  - (* callbacks with a skip function *)
    unfold raw_skip. fold s. rewrite Ek. cbn [so_data so_kind so_reads so_skips]. fold D.
    cbn [skip_succeeds].
    destruct (N.leb_spec m (nlen D)) as [Le|Gt]; cbn [bind]; cbv beta iota.
    + eexists. split; [reflexivity|]. cbn [so_kind so_data]. auto.
    + eexists. split; [reflexivity|]. cbn [so_kind so_data]. split; [reflexivity|].
      symmetry. apply skipn_N_all. lia.
  - (* callbacks without one: the read-based loop of lha_input_stream_skip *)
    edestruct (Hloop noskip_step s) as ([ok src'] & E & P1 & P2 & P3);
      [exact Ek|reflexivity|intros x Hx; apply noskip_step_spec; exact Hx|].
    rewrite E. cbn [bind]. cbv beta iota. cbn [fst snd] in *.
    exists src'. split; [|split; assumption]. rewrite P1. reflexivity.
Qed.

(* lha_input_stream_skip respects the equivalence when the lead-in buffers are
   empty (it skips in the source whatever the buffer holds) *)
Theorem lha_input_stream_skip_equiv a b m : stream_equiv a b ->
  is_leadin a = [] -> is_leadin b = [] ->
  m < 1099511627776 \/ nlen (remaining a) < 1099511627776 ->
  orel rel_st (lha_input_stream_skip a m) (lha_input_stream_skip b m).
Proof.
  intros (K & S & R & I) La Lb Hb. unfold remaining in *. rewrite La, Lb in R. cbn [app] in R.
  rewrite La in Hb. cbn [app] in Hb.
  destruct (lha_input_stream_skip_spec a m Hb) as (sa & Ea & Ka & Da).
  destruct (lha_input_stream_skip_spec b m) as (sb & Eb & Kb & Db); [rewrite <- R; exact Hb|].
  rewrite Ea, Eb. cbn [orel]. unfold rel_st. cbn [fst snd].
  split; [rewrite K, R; reflexivity|].
  unfold stream_equiv, remaining. cbn [is_src is_state is_leadin].
  rewrite La, Lb, Ka, Kb, Da, Db, R. repeat split; auto.
Qed.

(* ------------------------------------------------------------------ *)
(* A header read at the end of the data reports "no header"            *)

Lemma header_read_short mktime st : is_state st <> IS_INIT -> nlen (remaining st) < 22 ->
  exists st', lha_file_header_read mktime st = Ok (None, st').
Proof.
  intros NI Short. unfold lha_file_header_read. rewrite stream_read_not_init by exact NI.
  cbn [bind]. change hdr_COMMON_HEADER_LEN with 22.
  destruct (is_state st) eqn:Es; [contradiction| |].
  - assert (NF : is_state st <> IS_FAIL) by congruence.
    destruct (read_ready_spec_rem st 22 NF) as (F & _).
    destruct (read_ready st 22) as [r st']. cbn [fst] in F.
    destruct (N.leb_spec 22 (nlen (remaining st))); [lia|]. subst r. eexists. reflexivity.
  - rewrite read_ready_fail by exact Es. eexists. reflexivity.
Qed.

(* ------------------------------------------------------------------ *)
(* Reading k bytes then skipping n  =  skipping k + n                   *)

(* Every case at once: the flags say which calls succeed; the streams left
   by the two histories are equivalent whether or not the data was there. *)
Theorem read_then_skip_equiv st k n :
  is_state st = IS_READING -> is_leadin st = [] ->
  k + n < 1099511627776 \/ nlen (so_data (is_src st)) < 1099511627776 ->
  let D := so_data (is_src st) in
  let kind := so_kind (is_src st) in
  exists st1 sa sb,
    lha_input_stream_read st k = Ok (if k <=? nlen D then Some (firstn_N k D) else None, st1) /\
    lha_input_stream_skip st1 n = Ok (skip_succeeds kind n (nlen D - k), sa) /\
    lha_input_stream_skip st (k + n) = Ok (skip_succeeds kind (k + n) (nlen D), sb) /\
    stream_equiv sa sb /\
    remaining sa = skipn_N (k + n) D /\ is_leadin sa = [] /\ is_state sa = IS_READING /\
    is_leadin sb = [] /\ is_state sb = IS_READING.
Proof.
  intros Es El Hb D kind.
  assert (NI : is_state st <> IS_INIT) by congruence.
  assert (NF : is_state st <> IS_FAIL) by congruence.
  assert (Rm : remaining st = D) by (unfold remaining; rewrite El; reflexivity).
  destruct (read_ready_spec_rem st k NF) as (F1 & R1 & K1 & S1 & L1).
  rewrite Rm in F1, R1. rewrite El, skipn_N_nil in L1.
  destruct (read_ready st k) as [r st1] eqn:Er. cbn [fst snd] in *.
  assert (D1 : so_data (is_src st1) = skipn_N k D).
  { unfold remaining in R1. rewrite L1 in R1. exact R1. }
  destruct (lha_input_stream_skip_spec st1 n) as (s1 & E1 & Ks1 & Ds1).
  { rewrite D1, nlen_skipn_N. fold D in Hb. lia. }
  destruct (lha_input_stream_skip_spec st (k + n) Hb) as (s2 & E2 & Ks2 & Ds2).
  fold D in Ds2. fold kind in E2, Ks2.
  eexists st1, _, _.
  split; [rewrite stream_read_not_init by exact NI; rewrite Er, F1; reflexivity|].
  split; [rewrite E1, K1, D1, nlen_skipn_N; reflexivity|].
  split; [exact E2|].
  unfold stream_equiv, remaining. cbn [is_src is_state is_leadin].
  rewrite L1, El, S1, Es, Ks1, Ks2, K1, Ds1, Ds2, D1. cbn [app].
  rewrite <- skipn_N_add. repeat split; auto.
Qed.

(* the data is there: all three calls succeed *)
Corollary read_then_skip_equiv_present st k n :
  is_state st = IS_READING -> is_leadin st = [] ->
  k + n <= nlen (so_data (is_src st)) -> nlen (so_data (is_src st)) < 1099511627776 ->
  exists st1 sa sb,
    lha_input_stream_read st k = Ok (Some (firstn_N k (so_data (is_src st))), st1) /\
    lha_input_stream_skip st1 n = Ok (true, sa) /\
    lha_input_stream_skip st (k + n) = Ok (true, sb) /\
    stream_equiv sa sb /\ remaining sa = skipn_N (k + n) (so_data (is_src st)).
Proof.
  intros Es El Le Hb.
  destruct (read_then_skip_equiv st k n Es El (or_intror Hb)) as (st1 & sa & sb & E1 & E2 & E3 & Eq & Rm & _).
  cbv zeta in *.
  assert (T1 : (k <=? nlen (so_data (is_src st))) = true) by (apply N.leb_le; lia).
  assert (T2 : skip_succeeds (so_kind (is_src st)) n (nlen (so_data (is_src st)) - k) = true).
  { unfold skip_succeeds. destruct (so_kind (is_src st)); auto; apply N.leb_le; lia. }
  assert (T3 : skip_succeeds (so_kind (is_src st)) (k + n) (nlen (so_data (is_src st))) = true).
  { unfold skip_succeeds. destruct (so_kind (is_src st)); auto; apply N.leb_le; lia. }
  rewrite T1 in E1. rewrite T2 in E2. rewrite T3 in E3.
  exists st1, sa, sb. auto.
Qed.

(* The truncated case: fewer than k + n bytes remain.  The skip of k + n
   succeeds on a seekable file (fseek beyond the end) and fails for the three
   read-based kinds; the read of k succeeds when k bytes were there, and the
   skip of n that follows it then behaves like the skip of k + n.  Whatever
   the flags, no byte is left in either history and the next header read
   reports "no header". *)
Theorem read_then_skip_truncated mktime st k n :
  is_state st = IS_READING -> is_leadin st = [] ->
  nlen (so_data (is_src st)) < k + n -> nlen (so_data (is_src st)) < 1099511627776 ->
  let D := so_data (is_src st) in
  let is_file := match so_kind (is_src st) with KFile => true | _ => false end in
  exists r1 st1 ok1 sa sb,
    lha_input_stream_read st k = Ok (r1, st1) /\
    (r1 = if k <=? nlen D then Some (firstn_N k D) else None) /\
    lha_input_stream_skip st1 n = Ok (ok1, sa) /\
    (k <= nlen D -> ok1 = is_file) /\
    lha_input_stream_skip st (k + n) = Ok (is_file, sb) /\
    stream_equiv sa sb /\ remaining sa = [] /\ remaining sb = [] /\
    (exists sa', lha_file_header_read mktime sa = Ok (None, sa')) /\
    (exists sb', lha_file_header_read mktime sb = Ok (None, sb')).
Proof.
  intros Es El Short Hb D is_file.
  destruct (read_then_skip_equiv st k n Es El (or_intror Hb))
    as (st1 & sa & sb & E1 & E2 & E3 & Eq & Rm & La & Sa & Lb & Sb).
  cbv zeta in *. fold D in E1, E2, E3, Rm.
  assert (Ra : remaining sa = []) by (rewrite Rm; apply skipn_N_all; unfold D; lia).
  assert (Rb : remaining sb = []) by (destruct Eq as (_ & _ & R & _); rewrite <- R; exact Ra).
  eexists _, st1, _, sa, sb.
  split; [exact E1|]. split; [reflexivity|]. split; [exact E2|].
  split.
  { intros Le. unfold skip_succeeds, is_file. destruct (so_kind (is_src st)); auto; apply N.leb_gt; unfold D in *; lia. }
  split.
  { rewrite E3. f_equal. f_equal. unfold skip_succeeds, is_file.
    destruct (so_kind (is_src st)); auto; apply N.leb_gt; unfold D in *; lia. }
  split; [exact Eq|]. split; [exact Ra|]. split; [exact Rb|].
  split; apply header_read_short; try congruence; rewrite ?Ra, ?Rb, nlen_nil; lia.
Qed.

(* With bytes in the lead-in buffer the statement is false: the skip passes
   over them.  Lead-in [7], source [1;2;3]: read 1 then skip 1 leaves [2;3];
   skip 2 leaves [7;3].  (No header is ever returned with the buffer in this
   state: [header_read_some_lead] below.) *)
Example skip_ignores_leadin :
  let st := {| is_src := mk_source KFile [1; 2; 3]; is_state := IS_READING; is_leadin := [7] |} in
  (exists st1 sa, lha_input_stream_read st 1 = Ok (Some [7], st1) /\
                  lha_input_stream_skip st1 1 = Ok (true, sa) /\ remaining sa = [2; 3]) /\
  (exists sb, lha_input_stream_skip st 2 = Ok (true, sb) /\ remaining sb = [7; 3]).
Proof.
  cbv zeta. split.
  - eexists _, _. split; [vm_compute; reflexivity|]. split; [vm_compute; reflexivity|]. vm_compute. reflexivity.
  - eexists. split; [vm_compute; reflexivity|]. vm_compute. reflexivity.
Qed.

(* ------------------------------------------------------------------ *)
(* The header parser respects the equivalence                          *)

(* walk two runs of the same code over equivalent streams: pure steps are
   shared, the value-dependent branches are taken together *)
Ltac ow_leaf := cbn [orel]; unfold rel_st; cbn [fst snd]; split; [reflexivity|assumption].
Ltac ow := repeat first
  [ progress cbv beta iota
  | match goal with
    | |- orel _ (bind ?m _) (bind ?m _) => apply orel_bind_same; intro
    | |- orel _ (if ?c then _ else _) (if ?c then _ else _) => destruct c
    | |- orel _ (match ?x with _ => _ end) (match ?x with _ => _ end) => destruct x
    | |- orel _ (Ok _) (Ok _) => ow_leaf
    | |- orel _ (Fault _) (Fault _) => cbn [orel]; reflexivity
    end ].

Lemma extend_raw_data_equiv h a b n : stream_equiv a b ->
  orel rel_st (extend_raw_data h a n) (extend_raw_data h b n).
Proof.
  intros H. unfold extend_raw_data.
  destruct (hdr_LEVEL_3_MAX_HEADER_LEN <? n); [ow_leaf|].
  eapply orel_bind; [apply lha_input_stream_read_equiv; exact H|].
  intros [r a'] [r' b'] [E S]. cbn [fst snd] in E, S. subst r'. ow.
Qed.

Definition l1_rel (s t : header * istream) : Prop := fst s = fst t /\ stream_equiv (snd s) (snd t).

Lemma l1_step_equiv s t : l1_rel s t -> orel (sum_rel l1_rel rel_st) (l1_step s) (l1_step t).
Proof.
  destruct s as [h a], t as [h' b]. intros [E S]. cbn [fst snd] in E, S. subst h'. unfold l1_step.
  apply orel_bind_same. intros len.
  destruct (len =? 0).
  { cbn [orel sum_rel]. unfold rel_st. cbn [fst snd]. auto. }
  eapply orel_bind; [apply extend_raw_data_equiv; exact S|].
  intros [r a'] [r' b'] [E S']. cbn [fst snd] in E, S'. subst r'. cbv beta iota.
  destruct r as [h1|].
  2:{ cbn [orel sum_rel]. unfold rel_st. cbn [fst snd]. auto. }
  destruct (h_compressed_length h1 <? len).
  { cbn [orel sum_rel]. unfold rel_st. cbn [fst snd]. auto. }
  cbv zeta. destruct (len <? 3); cbn [orel sum_rel]; unfold rel_st, l1_rel; cbn [fst snd]; auto.
Qed.

Lemma read_l1_extended_headers_equiv h a b : stream_equiv a b ->
  orel rel_st (read_l1_extended_headers h a) (read_l1_extended_headers h b).
Proof.
  intros S. unfold read_l1_extended_headers.
  apply (orel_loop l1_step l1_step l1_rel rel_st l1_step_equiv). split; [reflexivity|exact S].
Qed.

Lemma decode_level0_header_equiv mktime h a b : stream_equiv a b ->
  orel rel_st (decode_level0_header mktime h a) (decode_level0_header mktime h b).
Proof.
  intros S. unfold decode_level0_header.
  apply orel_bind_same. intros header_len. apply orel_bind_same. intros header_csum. cbv zeta.
  destruct (negb ((h_level h =? 0) || (h_level h =? 1))); [ow_leaf|].
  match goal with |- orel _ (if ?c then _ else _) _ => destruct c end; [ow_leaf|].
  eapply orel_bind; [apply extend_raw_data_equiv; exact S|].
  intros [r a'] [r' b'] [E S']. cbn [fst snd] in E, S'. subst r'. cbv beta iota.
  destruct r as [h1|]; [|ow_leaf].
  ow.
Qed.

Lemma decode_level1_header_equiv mktime h a b : stream_equiv a b ->
  orel rel_st (decode_level1_header mktime h a) (decode_level1_header mktime h b).
Proof.
  intros S. unfold decode_level1_header.
  eapply orel_bind; [apply decode_level0_header_equiv; exact S|].
  intros [[ok h1] a1] [[ok' h1'] b1] [E S1]. cbn [fst snd] in E, S1. inversion E; subst ok' h1'. clear E.
  cbv beta iota. destruct (negb ok); [ow_leaf|]. cbv zeta.
  eapply orel_bind; [apply read_l1_extended_headers_equiv; exact S1|].
  intros [[ok2 h2] a2] [[ok2' h2'] b2] [E S2]. cbn [fst snd] in E, S2. inversion E; subst ok2' h2'. clear E.
  cbv beta iota. destruct (negb ok2); [ow_leaf|].
  ow.
Qed.

Lemma decode_level2_header_equiv h a b : stream_equiv a b ->
  orel rel_st (decode_level2_header h a) (decode_level2_header h b).
Proof.
  intros S. unfold decode_level2_header.
  apply orel_bind_same. intros header_len.
  destruct (header_len <? hdr_LEVEL_2_HEADER_LEN); [ow_leaf|].
  eapply orel_bind; [apply extend_raw_data_equiv; exact S|].
  intros [r a'] [r' b'] [E S']. cbn [fst snd] in E, S'. subst r'. cbv beta iota.
  destruct r as [h1|]; [|ow_leaf].
  apply orel_bind_same. intros h2.
  eapply orel_bind with (R := rel_st).
  { destruct (h_os_type h2 =? OS_TYPE_OS9_68K); [apply extend_raw_data_equiv; exact S'|ow_leaf]. }
  intros [r3 a3] [r3' b3] [E S3]. cbn [fst snd] in E, S3. subst r3'. cbv beta iota.
  destruct r3 as [h3|]; [|ow_leaf].
  ow.
Qed.

Lemma decode_level3_header_equiv h a b : stream_equiv a b ->
  orel rel_st (decode_level3_header h a) (decode_level3_header h b).
Proof.
  intros S. unfold decode_level3_header.
  apply orel_bind_same. intros ws.
  destruct (negb (ws =? 4)); [ow_leaf|].
  eapply orel_bind; [apply extend_raw_data_equiv; exact S|].
  intros [r a'] [r' b'] [E S']. cbn [fst snd] in E, S'. subst r'. cbv beta iota.
  destruct r as [h1|]; [|ow_leaf].
  apply orel_bind_same. intros header_len.
  match goal with |- orel _ (if ?c then _ else _) _ => destruct c end; [ow_leaf|].
  eapply orel_bind; [apply extend_raw_data_equiv; exact S'|].
  intros [r2 a2] [r2' b2] [E S2]. cbn [fst snd] in E, S2. subst r2'. cbv beta iota.
  destruct r2 as [h2|]; [|ow_leaf].
  ow.
Qed.

(* everything after the level decoders is pure: its result does not depend on the stream *)
Lemma header_post_processing_indep (ok : bool) (h1 : header) :
  exists r, forall st2 : istream,
    (if negb ok then Ok (None, st2) else
      let h2 := if (h_os_type h1 =? OS_TYPE_AMIGA) && method_is h1 [45; 108; 104; 48; 45]
                   && (h_length h1 =? 0) && (match h_filename h1 with None => true | _ => false end)
                then set_method h1 COMPRESS_TYPE_DIR else h1 in
      let is_dir := method_is h2 COMPRESS_TYPE_DIR in
      let r3 :=
        if negb is_dir then
          match h_filename h2 with None => None | Some _ => Some h2 end
        else if have_extra h2 FILE_UNIX_PERMS
                && (match h_path h2, h_filename h2 with None, None => false | _, _ => true end)
                && (N.land (h_unix_perms h2) 61440 =? 40960) then parse_symlink h2
        else match h_path h2 with None => None | Some _ => Some h2 end in
      match r3 with
      | None => Ok (None, st2)
      | Some h3 =>
        let os := h_os_type h3 in
        let h4 := if (os =? OS_TYPE_UNKNOWN) || (os =? OS_TYPE_MSDOS) || (os =? OS_TYPE_ATARI)
                     || (os =? OS_TYPE_LHARK) || (os =? OS_TYPE_OS2) then fix_msdos_allcaps h3 else h3 in
        let h5 := set_path h4 (option_map collapse_path (h_path h4)) in
        let h6 := if (h_os_type h5 =? OS_TYPE_OS9_68K) && have_extra h5 FILE_UNIX_PERMS
                  then add_flag (set_os9_perms h5 (h_unix_perms h5)) FILE_OS9_PERMS else h5 in
        let h7 := if have_extra h6 FILE_OS9_PERMS then os9_to_unix_permissions h6 else h6 in
        if have_extra h7 FILE_COMMON_CRC && negb (lha_crc16_buf 0 (h_raw h7) =? h_common_crc h7) then Ok (None, st2) else
        let h8 := if (h_level h7 =? 1) && (h_os_type h7 =? OS_TYPE_LHARK)
                     && bytes_eqb (firstn 5 (cstr (h_method h7))) [45; 108; 104; 55; 45]
                  then set_method h7 (list_set (h_method h7) 2 107) else h7 in
        Ok (Some h8, st2)
      end) = Ok (r, st2).
Proof.
  destruct (negb ok); [exists None; reflexivity|].
  cbv zeta.
  match goal with |- exists r, forall st2, match ?r3 with Some _ => _ | None => _ end = _ => destruct r3 as [h3|] end;
    [|exists None; reflexivity].
  match goal with |- exists r, forall st2, (if ?c then _ else _) = _ => destruct c end; eexists; reflexivity.
Qed.

(* lha_file_header_read depends on the stream only through its kind, its
   state and the bytes it has still to deliver: same outcome (header, "no
   header", or the same Fault / OutOfFuel), and the streams left behind are
   equivalent again. *)
Theorem lha_file_header_read_equiv mktime a b : stream_equiv a b ->
  orel rel_st (lha_file_header_read mktime a) (lha_file_header_read mktime b).
Proof.
  intros S. unfold lha_file_header_read.
  eapply orel_bind; [apply lha_input_stream_read_equiv; exact S|].
  intros [r a1] [r' b1] [E S1]. cbn [fst snd] in E, S1. subst r'. cbv beta iota.
  destruct r as [raw|]; [|ow_leaf].
  apply orel_bind_same. intros lvl. cbv zeta.
  eapply orel_bind with (R := rel_st).
  { destruct (lvl =? 0); [apply decode_level0_header_equiv; exact S1|].
    destruct (lvl =? 1); [apply decode_level1_header_equiv; exact S1|].
    destruct (lvl =? 2); [apply decode_level2_header_equiv; exact S1|].
    destruct (lvl =? 3); [apply decode_level3_header_equiv; exact S1|].
    ow_leaf. }
  intros [[ok h1] a2] [[ok' h1'] b2] [E S2]. cbn [fst snd] in E, S2. inversion E; subst ok' h1'. clear E.
  cbv beta iota.
  destruct (header_post_processing_indep ok h1) as [r Hr].
  eapply orel_of_eqs; [exact (Hr a2)|exact (Hr b2)|]. ow_leaf.
Qed.

(* ------------------------------------------------------------------ *)
(* A returned header has emptied the lead-in buffer                    *)

(* b is a after requests for at least c bytes: the state is the same and at
   least c bytes have left the lead-in buffer *)
Definition adv (c : N) (a b : istream) : Prop :=
  is_state b = is_state a /\ exists m, c <= m /\ is_leadin b = skipn_N m (is_leadin a).

Lemma adv_refl a : adv 0 a a.
Proof. split; [reflexivity|]. exists 0. split; [lia|]. symmetry. apply skipn_N_0. Qed.

Lemma adv_trans c1 c2 a b c : adv c1 a b -> adv c2 b c -> adv (c1 + c2) a c.
Proof.
  intros (S1 & m1 & L1 & E1) (S2 & m2 & L2 & E2). split; [congruence|].
  exists (m1 + m2). split; [lia|]. rewrite E2, E1. symmetry. apply skipn_N_add.
Qed.

Lemma adv_weaken c c' a b : c' <= c -> adv c a b -> adv c' a b.
Proof. intros H (S & m & L & E). split; [exact S|]. exists m. split; [lia|exact E]. Qed.

Definition got_n {A} (r : option A) (n : N) : N := match r with Some _ => n | None => 0 end.

Lemma read_ready_adv st n r st' : read_ready st n = (r, st') -> adv (got_n r n) st st'.
Proof.
  intros H. destruct (is_state st) eqn:Es.
  - assert (NF : is_state st <> IS_FAIL) by congruence.
    destruct (read_ready_spec_rem st n NF) as (_ & _ & _ & S1 & L1). rewrite H in S1, L1. cbn [snd] in *.
    apply adv_weaken with (c := n); [destruct r; cbn [got_n]; lia|].
    split; [exact S1|]. exists n. split; [lia|exact L1].
  - assert (NF : is_state st <> IS_FAIL) by congruence.
    destruct (read_ready_spec_rem st n NF) as (_ & _ & _ & S1 & L1). rewrite H in S1, L1. cbn [snd] in *.
    apply adv_weaken with (c := n); [destruct r; cbn [got_n]; lia|].
    split; [exact S1|]. exists n. split; [lia|exact L1].
  - rewrite read_ready_fail in H by exact Es. inversion H; subst. cbn [got_n]. apply adv_refl.
Qed.

Lemma read_ready_some_reading st n bs st' : read_ready st n = (Some bs, st') -> is_state st <> IS_FAIL.
Proof. intros H E. rewrite read_ready_fail in H by exact E. discriminate. Qed.

Lemma stream_read_adv st n r st' : is_state st <> IS_INIT ->
  lha_input_stream_read st n = Ok (r, st') -> adv (got_n r n) st st'.
Proof. intros NI H. rewrite stream_read_not_init in H by exact NI. inversion H as [H1]. apply read_ready_adv. exact H1. Qed.

Lemma extend_adv h st n r st' : is_state st <> IS_INIT ->
  extend_raw_data h st n = Ok (r, st') -> adv (got_n r n) st st'.
Proof.
  intros NI H. unfold extend_raw_data in H.
  destruct (hdr_LEVEL_3_MAX_HEADER_LEN <? n); [inversion H; subst; apply adv_refl|].
  bind_inv H as [r1 st1] E. apply stream_read_adv in E; [|exact NI].
  destruct r1; inversion H; subst; exact E.
Qed.

Lemma adv_not_init c a b : adv c a b -> is_state a <> IS_INIT -> is_state b <> IS_INIT.
Proof. intros [S _] H. congruence. Qed.

(* after the stream-dependent part of a function: follow the pure rest to its results *)
Ltac fin H := repeat match type of H with
  | bind _ _ = Ok _ => let x := fresh "x" in let E := fresh "E" in
                       apply bind_ok in H; destruct H as [x [E H]]; cbv beta iota zeta in H
  | (if ?c then _ else _) = Ok _ => destruct c
  | (match ?x with _ => _ end) = Ok _ => destruct x
  end; inversion H; subst.

Lemma decode_level0_header_adv mktime h st ok h1 st1 :
  nlen (h_raw h) = 22 -> is_state st <> IS_INIT ->
  decode_level0_header mktime h st = Ok (ok, h1, st1) -> adv (if ok then 2 else 0) st st1.
Proof.
  intros L22 NI H. unfold decode_level0_header in H.
  bind_inv H as hl E0. bind_inv H as csum E1. cbv zeta in H.
  destruct (negb ((h_level h =? 0) || (h_level h =? 1))); [inversion H; subst; apply adv_refl|].
  match type of H with (if ?a <? ?b then _ else _) = _ => destruct (N.ltb_spec a b) as [Lm|Lm] end;
    [inversion H; subst; apply adv_refl|].
  assert (H22 : 22 <= hl).
  { revert Lm. change hdr_LEVEL_0_MIN_HEADER_LEN with 22. change hdr_LEVEL_1_MIN_HEADER_LEN with 25.
    destruct (h_level h =? 0); lia. }
  bind_inv H as [r st2] Ex. apply extend_adv in Ex; [|exact NI].
  rewrite L22 in Ex. rewrite usub64_le in Ex by lia.
  destruct r as [h2|]; [|inversion H; subst; exact Ex]. cbn [got_n] in Ex.
  assert (A2 : adv 2 st st2) by (eapply adv_weaken; [|exact Ex]; lia).
  assert (A0 : adv 0 st st2) by (eapply adv_weaken; [|exact Ex]; lia).
  fin H; try assumption; match goal with |- adv (if ?b then _ else _) _ _ => destruct b; assumption end.
Qed.

Lemma l1_step_adv_inl st h1 s1 h2 s2 : is_state st <> IS_INIT -> adv 0 st s1 ->
  l1_step (h1, s1) = Ok (inl (h2, s2)) -> adv 0 st s2.
Proof.
  intros NI I E. unfold l1_step in E.
  bind_inv E as len El. destruct (len =? 0); [discriminate|].
  bind_inv E as [r s3] Ex. apply extend_adv in Ex; [|eapply adv_not_init; eauto].
  apply (adv_weaken _ 0) in Ex; [|lia].
  pose proof (adv_trans _ _ _ _ _ I Ex) as T. fin E; exact T.
Qed.

Lemma l1_step_adv_inr st h1 s1 ok h2 s2 : is_state st <> IS_INIT -> adv 0 st s1 ->
  l1_step (h1, s1) = Ok (inr (ok, h2, s2)) -> adv 0 st s2.
Proof.
  intros NI I E. unfold l1_step in E.
  bind_inv E as len El. destruct (len =? 0); [inversion E; subst; exact I|].
  bind_inv E as [r s3] Ex. apply extend_adv in Ex; [|eapply adv_not_init; eauto].
  apply (adv_weaken _ 0) in Ex; [|lia].
  pose proof (adv_trans _ _ _ _ _ I Ex) as T. fin E; exact T.
Qed.

Lemma read_l1_extended_headers_adv h st ok h' st' : is_state st <> IS_INIT ->
  read_l1_extended_headers h st = Ok (ok, h', st') -> adv 0 st st'.
Proof.
  intros NI. unfold read_l1_extended_headers. intros H.
  apply (loop_inv l1_step (fun s => adv 0 st (snd s)) (fun r => adv 0 st (snd r))) in H; auto.
  - intros [h1 s1] [h2 s2] I E. eapply l1_step_adv_inl; eauto.
  - intros [h1 s1] [[ok1 h2] s2] I E. eapply l1_step_adv_inr; eauto.
  - apply adv_refl.
Qed.

Lemma decode_level1_header_adv mktime h st ok h1 st1 :
  nlen (h_raw h) = 22 -> is_state st <> IS_INIT ->
  decode_level1_header mktime h st = Ok (ok, h1, st1) -> adv (if ok then 2 else 0) st st1.
Proof.
  intros L22 NI H. unfold decode_level1_header in H.
  bind_inv H as [[ok0 h0] st0] E0. apply decode_level0_header_adv in E0; [|exact L22|exact NI].
  destruct (negb ok0) eqn:Eok.
  { inversion H; subst. destruct ok0; [discriminate|exact E0]. }
  destruct ok0; [|discriminate]. clear Eok.
  bind_inv H as [[ok2 h2] st2] E2. apply read_l1_extended_headers_adv in E2; [|eapply adv_not_init; eauto].
  pose proof (adv_trans _ _ _ _ _ E0 E2) as T. rewrite N.add_0_r in T.
  assert (T0 : adv 0 st st2) by (eapply adv_weaken; [|exact T]; lia).
  destruct (negb ok2); [inversion H; subst; exact T0|].
  bind_inv H as [ok3 h3] E3. inversion H; subst. destruct ok; assumption.
Qed.

Lemma decode_level2_header_adv h st ok h1 st1 :
  nlen (h_raw h) = 22 -> is_state st <> IS_INIT ->
  decode_level2_header h st = Ok (ok, h1, st1) -> adv (if ok then 2 else 0) st st1.
Proof.
  intros L22 NI H. unfold decode_level2_header in H.
  bind_inv H as hl E0.
  destruct (N.ltb_spec hl hdr_LEVEL_2_HEADER_LEN) as [Lm|Lm]; [inversion H; subst; apply adv_refl|].
  change hdr_LEVEL_2_HEADER_LEN with 26 in Lm.
  bind_inv H as [r st2] Ex. apply extend_adv in Ex; [|exact NI].
  rewrite L22 in Ex. rewrite usub64_le in Ex by lia.
  destruct r as [h2|]; [|inversion H; subst; exact Ex]. cbn [got_n] in Ex.
  assert (A2 : adv 2 st st2) by (eapply adv_weaken; [|exact Ex]; lia).
  bind_inv H as h3 E3.
  bind_inv H as [r3 st3] Ex3.
  assert (A3 : adv 2 st st3).
  { destruct (h_os_type h3 =? OS_TYPE_OS9_68K).
    - apply extend_adv in Ex3; [|eapply adv_not_init; eauto].
      apply (adv_weaken _ 0) in Ex3; [|lia]. pose proof (adv_trans _ _ _ _ _ A2 Ex3) as T.
      rewrite N.add_0_r in T. exact T.
    - inversion Ex3; subst. exact A2. }
  assert (A0 : adv 0 st st3) by (eapply adv_weaken; [|exact A3]; lia).
  fin H; try assumption; match goal with |- adv (if ?b then _ else _) _ _ => destruct b; assumption end.
Qed.

Lemma decode_level3_header_adv h st ok h1 st1 :
  nlen (h_raw h) = 22 -> is_state st <> IS_INIT ->
  decode_level3_header h st = Ok (ok, h1, st1) -> adv (if ok then 2 else 0) st st1.
Proof.
  intros L22 NI H. unfold decode_level3_header in H.
  bind_inv H as ws E0.
  destruct (negb (ws =? 4)); [inversion H; subst; apply adv_refl|].
  bind_inv H as [r st2] Ex. apply extend_adv in Ex; [|exact NI].
  rewrite L22 in Ex. change hdr_LEVEL_3_HEADER_LEN with 32 in Ex. rewrite usub64_le in Ex by lia.
  destruct r as [h2|]; [|inversion H; subst; exact Ex]. cbn [got_n] in Ex.
  assert (A2 : adv 2 st st2) by (eapply adv_weaken; [|exact Ex]; lia).
  assert (A0 : adv 0 st st2) by (eapply adv_weaken; [|exact Ex]; lia).
  bind_inv H as hlen E3.
  match type of H with (if ?c then _ else _) = _ => destruct c end; [inversion H; subst; exact A0|].
  bind_inv H as [r3 st3] Ex3.
  apply extend_adv in Ex3; [|eapply adv_not_init; eauto].
  apply (adv_weaken _ 0) in Ex3; [|lia]. pose proof (adv_trans _ _ _ _ _ A2 Ex3) as T.
  rewrite N.add_0_r in T.
  assert (T0 : adv 0 st st3) by (eapply adv_weaken; [|exact T]; lia).
  fin H; try assumption; match goal with |- adv (if ?b then _ else _) _ _ => destruct b; assumption end.
Qed.

(* the first read of a stream, whatever its state: afterwards the stream is
   past INIT, and the read was a read_ready of a well-formed stream *)
Lemma stream_read_norm st n r st' : wf st ->
  lha_input_stream_read st n = Ok (r, st') ->
  exists st1, wf st1 /\ is_state st1 <> IS_INIT /\ read_ready st1 n = (r, st') /\
              (is_state st <> IS_INIT -> st1 = st).
Proof.
  intros Hwf H. unfold lha_input_stream_read in H. bind_inv H as st1 E. inversion H as [H1].
  exists st1. destruct (is_state st) eqn:Es.
  - bind_inv E as [ok st0] Ex. inversion E; subst st1. clear E.
    destruct (skip_sfx_total st Hwf) as (ok' & st0' & Ex' & Hwf' & _). rewrite Ex in Ex'. inversion Ex'; subst.
    split; [exact Hwf'|]. split; [cbn [is_state]; destruct ok'; discriminate|].
    split; [reflexivity|]. intros C; contradiction.
  - inversion E; subst. split; [exact Hwf|]. split; [congruence|]. split; [reflexivity|]. reflexivity.
  - inversion E; subst. split; [exact Hwf|]. split; [congruence|]. split; [reflexivity|]. reflexivity.
Qed.

(* A header that is returned has taken at least 24 bytes (22 common bytes
   and at least 2 more at every level), the size of the lead-in buffer. *)
Theorem header_read_some_lead mktime st h st' : wf st ->
  lha_file_header_read mktime st = Ok (Some h, st') ->
  is_leadin st' = [] /\ is_state st' = IS_READING.
Proof.
  intros Hwf H. unfold lha_file_header_read in H.
  bind_inv H as [r st1] Er. destruct r as [raw|]; [|discriminate].
  pose proof (stream_read_len _ _ _ _ Er) as L22. change hdr_COMMON_HEADER_LEN with 22 in *.
  destruct (stream_read_norm _ _ _ _ Hwf Er) as (s0 & Hwf0 & NI0 & Rr & _).
  pose proof (read_ready_some_reading _ _ _ _ Rr) as NF0.
  apply read_ready_adv in Rr. cbn [got_n] in Rr.
  assert (NI1 : is_state st1 <> IS_INIT) by (eapply adv_not_init; eauto).
  bind_inv H as lvl El. cbv zeta in H.
  bind_inv H as [[ok h1] st2] Ed.
  assert (R0 : nlen (h_raw (set_level (header0 raw) lvl)) = 22) by exact L22.
  assert (A : adv (if ok then 2 else 0) st1 st2).
  { destruct (lvl =? 0); [eapply decode_level0_header_adv; eauto|].
    destruct (lvl =? 1); [eapply decode_level1_header_adv; eauto|].
    destruct (lvl =? 2); [eapply decode_level2_header_adv; eauto|].
    destruct (lvl =? 3); [eapply decode_level3_header_adv; eauto|].
    inversion Ed; subst. apply adv_refl. }
  destruct ok; cbn [negb] in H; cbv iota in H; [|discriminate].
  assert (st' = st2).
  { destruct (header_post_processing_indep true h1) as [r Hr]. cbn [negb] in Hr.
    rewrite (Hr st2) in H. inversion H. reflexivity. }
  subst st'.
  destruct (adv_trans _ _ _ _ _ Rr A) as (S & m & Lm & E).
  split.
  - rewrite E. apply skipn_N_all. unfold wf in Hwf0. lia.
  - rewrite S. destruct (is_state s0); [contradiction|reflexivity|contradiction].
Qed.

(* ------------------------------------------------------------------ *)
(* Non-vacuity                                                         *)

Definition ex_src (k : skind) : istream :=
  {| is_src := mk_source k [1; 2; 3; 4; 5; 6; 7; 8]; is_state := IS_READING; is_leadin := [] |}.

(* data present, each kind of source: read 2 + skip 3 against skip 5 *)
Example ex_read_then_skip_present :
  forall k, exists st1 sa sb,
    lha_input_stream_read (ex_src k) 2 = Ok (Some [1; 2], st1) /\
    lha_input_stream_skip st1 3 = Ok (true, sa) /\
    lha_input_stream_skip (ex_src k) 5 = Ok (true, sb) /\
    stream_equiv sa sb /\ remaining sa = [6; 7; 8].
Proof.
  intros k.
  destruct (read_then_skip_equiv_present (ex_src k) 2 3) as (st1 & sa & sb & H).
  - reflexivity.
  - reflexivity.
  - change (2 + 3 <= 8). lia.
  - change (8 < 1099511627776). lia.
  - exists st1, sa, sb. exact H.
Qed.

(* truncated, each kind: read 2 + skip 9 against skip 11 on 8 bytes *)
Example ex_read_then_skip_truncated :
  forall k, exists r1 st1 ok1 sa sb,
    lha_input_stream_read (ex_src k) 2 = Ok (r1, st1) /\ r1 = Some [1; 2] /\
    lha_input_stream_skip st1 9 = Ok (ok1, sa) /\
    lha_input_stream_skip (ex_src k) 11 = Ok (match k with KFile => true | _ => false end, sb) /\
    stream_equiv sa sb /\
    (exists sa', lha_file_header_read mktime_utc sa = Ok (None, sa')) /\
    (exists sb', lha_file_header_read mktime_utc sb = Ok (None, sb')).
Proof.
  intros k.
  destruct (read_then_skip_truncated mktime_utc (ex_src k) 2 9)
    as (r1 & st1 & ok1 & sa & sb & E1 & Er & E2 & _ & E3 & Eq & _ & _ & Ha & Hb).
  - reflexivity.
  - reflexivity.
  - change (8 < 2 + 9). lia.
  - change (8 < 1099511627776). lia.
  - exists r1, st1, ok1, sa, sb. cbv zeta in *.
    split; [exact E1|]. split; [exact Er|]. split; [exact E2|].
    split; [destruct k; exact E3|]. auto.
Qed.

(* two equivalent streams that are not equal: the same header comes out *)
Example ex_header_read_equiv :
  let a := {| is_src := mk_source KFile (skipn 5 ex_bytes); is_state := IS_READING; is_leadin := firstn 5 ex_bytes |} in
  let b := {| is_src := {| so_kind := KFile; so_data := ex_bytes; so_reads := 7; so_skips := 3 |};
              is_state := IS_READING; is_leadin := [] |} in
  stream_equiv a b /\ a <> b /\
  exists h a' b', lha_file_header_read mktime_utc a = Ok (Some h, a') /\
                  lha_file_header_read mktime_utc b = Ok (Some h, b') /\ stream_equiv a' b'.
Proof.
  cbv zeta. split; [repeat split; discriminate|]. split; [discriminate|].
  match goal with |- exists h a' b', lha_file_header_read _ ?a = _ /\ lha_file_header_read _ ?b = _ /\ _ =>
    assert (S : orel rel_st (lha_file_header_read mktime_utc a) (lha_file_header_read mktime_utc b))
      by (apply lha_file_header_read_equiv; repeat split; discriminate);
    remember (lha_file_header_read mktime_utc a) as x eqn:Ea;
    remember (lha_file_header_read mktime_utc b) as y eqn:Eb end.
  vm_compute in Ea.
  destruct y as [[hb b']| |]; rewrite Ea in S; cbn [orel] in S; try contradiction.
  destruct S as [E1 E2]. cbn [fst snd] in E1, E2. subst hb x.
  eexists _, _, b'. split; [reflexivity|]. split; [reflexivity|exact E2].
Qed.

Example ex_header_read_some_lead :
  exists h st', lha_file_header_read mktime_utc
                  {| is_src := mk_source KFile (skipn 5 ex_bytes); is_state := IS_READING; is_leadin := firstn 5 ex_bytes |}
                = Ok (Some h, st') /\ is_leadin st' = [] /\ is_state st' = IS_READING.
Proof.
  match goal with |- exists h st', ?x = _ /\ _ =>
    destruct x as [[[h|] st']| |] eqn:E; try (vm_compute in E; discriminate) end.
  exists h, st'. split; [reflexivity|]. eapply header_read_some_lead; [|exact E].
  unfold wf. vm_compute. discriminate.
Qed.

Print Assumptions lha_input_stream_read_equiv.
Print Assumptions lha_input_stream_skip_spec.
Print Assumptions lha_input_stream_skip_equiv.
Print Assumptions read_then_skip_equiv.
Print Assumptions read_then_skip_equiv_present.
Print Assumptions read_then_skip_truncated.
Print Assumptions skip_ignores_leadin.
Print Assumptions lha_file_header_read_equiv.
Print Assumptions header_read_some_lead.
Print Assumptions ex_read_then_skip_present.
Print Assumptions ex_read_then_skip_truncated.
Print Assumptions ex_header_read_equiv.
Print Assumptions ex_header_read_some_lead.

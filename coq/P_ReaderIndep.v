(* P_ReaderIndep.v -- property C15, reader level (lib/lha_reader.c).

   D.  The end is absorbing: after lha_reader_next_file has returned "no
       entry" every later call of next_file / read / check / extract reports
       end / 0 / false and leaves the reader (and the filesystem) as it is.
   E.  Entries the reader presents on its own:
       (i)   under DIR_PLAIN the directory stack stays empty along every
             sequence of operations, so no fake directory entry ever appears;
       (ii)  a directory is pushed by exactly one path (a successful mkdir
             under a non-plain policy), popped by exactly one path
             (end_of_top_dir), and once the archive is exhausted the stack is
             presented top first, before the deferred symlinks and before
             "no entry" [drain];
       (iii) insert_deferred keeps the list sorted by decreasing path length
             and is a permutation insert; deferred symlinks are presented only
             once the archive is exhausted, in list order, each once.
   F.  Two readers: operations on one commute with operations on another.
   C.  Decode operations (read, check) on the current member do not change
       what lha_reader_next_file returns next -- relative to one fact about
       the decoders ([decoders_use_callback_only]), see the section header.

   Lemmas and theorems only. *)
From Lhasa Require Import Base DecBase ListN Loop Generated Crc16 InputStream Header BasicReader AnyDecoder Decoder
  MacBinary Fs FsRun Reader P_HeaderSafe P_Intact P_StreamEquiv P_BasicReaderIndep.
From Coq Require Import ZifyBool ZifyN ZifyNat Permutation Sorted.
Local Open Scope N_scope.

Ltac rdsimp := cbn [rd_br rd_curr rd_type rd_decoder rd_inner rd_policy rd_dir_stack rd_deferred rd_linked
                    set_decoders close_decoder] in *.

(* ------------------------------------------------------------------ *)
(* What decode operations may change: the basic reader and the two     *)
(* decoder pointers, nothing else                                      *)

Definition dframe (r r' : reader) : Prop :=
  rd_curr r' = rd_curr r /\ rd_type r' = rd_type r /\ rd_policy r' = rd_policy r /\
  rd_dir_stack r' = rd_dir_stack r /\ rd_deferred r' = rd_deferred r /\ rd_linked r' = rd_linked r.

Lemma dframe_refl r : dframe r r.
Proof. repeat split. Qed.

Lemma dframe_trans a b c : dframe a b -> dframe b c -> dframe a c.
Proof. intros (A1 & A2 & A3 & A4 & A5 & A6) (B1 & B2 & B3 & B4 & B5 & B6). repeat split; congruence. Qed.

Lemma dframe_set_decoders r br d i : dframe r (set_decoders r br d i).
Proof. repeat split. Qed.

Section Frames.
  Variable mktime : N -> N -> N -> N -> Z -> N -> N.
  Variable junk : N.

  Lemma open_decoder_frame r mon ok ev r' : open_decoder junk r mon = Ok (ok, ev, r') -> dframe r r'.
  Proof.
    intros H. unfold open_decoder in H.
    destruct (rd_type r); try (inversion H; subst; apply dframe_refl).
    bind_inv H as inner Ei. destruct inner as [d0|]; [|inversion H; subst; apply dframe_set_decoders].
    fin H; apply dframe_set_decoders.
  Qed.

  Lemma decoder_read_frame r n o ev r' : decoder_read junk r n = Ok (o, ev, r') -> dframe r r'.
  Proof.
    intros H. unfold decoder_read in H.
    destruct (rd_decoder r) as [[d|o0]|]; [| |discriminate].
    - bind_inv H as [[o1 ev1] d'] E. inversion H; subst. apply dframe_set_decoders.
    - cbv zeta in H. bind_inv H as [[o1 ev1] d'] E. inversion H; subst. apply dframe_set_decoders.
  Qed.

  Lemma lha_reader_read_frame r n o ev r' : lha_reader_read junk r n = Ok (o, ev, r') -> dframe r r'.
  Proof.
    intros H. unfold lha_reader_read in H.
    destruct (rd_decoder r) eqn:Ed.
    - eapply decoder_read_frame; eauto.
    - bind_inv H as [[ok ev1] r1] E1. apply open_decoder_frame in E1.
      destruct ok; [|inversion H; subst; exact E1].
      bind_inv H as [[o2 ev2] r2] E2. apply decoder_read_frame in E2. inversion H; subst.
      eapply dframe_trans; eauto.
  Qed.

  Lemma dd_step_frame out r f evs x : dd_step junk out (r, f, evs) = Ok x ->
    dframe r (match x with inl s => fst (fst s) | inr s => fst (fst s) end).
  Proof.
    intros H. unfold dd_step in H. bind_inv H as [[o ev] r'] E. apply lha_reader_read_frame in E.
    destruct o; inversion H; subst; cbn [fst]; exact E.
  Qed.

  Lemma do_decode_frame r f out ok evs r' f' : do_decode junk r f out = Ok (ok, evs, r', f') -> dframe r r'.
  Proof.
    (* the fuel literal is generalised first: with it in place Qed does not return *)
    unfold do_decode. generalize 64%nat. intros k H. bind_inv H as [[r1 f1] ev1] El.
    assert (F : dframe r r1).
    { apply (loop_inv (dd_step junk out) (fun s => dframe r (fst (fst s))) (fun s => dframe r (fst (fst s)))) in El;
        [exact El| | |apply dframe_refl].
      - intros [[ra fa] ea] [[rb fb] eb] I E. apply dd_step_frame in E. cbn [fst] in *. eapply dframe_trans; eauto.
      - intros [[ra fa] ea] [[rb fb] eb] I E. apply dd_step_frame in E. cbn [fst] in *. eapply dframe_trans; eauto. }
    fin H; exact F.
  Qed.

  Lemma lha_reader_check_frame r mon ok ev r' : lha_reader_check junk r mon = Ok (ok, ev, r') -> dframe r r'.
  Proof.
    intros H. unfold lha_reader_check in H.
    destruct (rd_type r);
      [inversion H; subst; apply dframe_refl| |inversion H; subst; apply dframe_refl
      |inversion H; subst; apply dframe_refl|inversion H; subst; apply dframe_refl].
    destruct (rd_curr r) as [h|]; [|discriminate].
    destruct (is_dir_method h); [inversion H; subst; apply dframe_refl|].
    bind_inv H as [[ok1 ev1] r1] E1. apply open_decoder_frame in E1.
    destruct ok1; [|inversion H; subst; exact E1].
    bind_inv H as [[[res ev2] r2] f2] E2. apply do_decode_frame in E2. inversion H; subst.
    eapply dframe_trans; eauto.
  Qed.

  Lemma extract_file_frame r f fn mon ok ev r' f' :
    extract_file junk r f fn mon = Ok (ok, ev, r', f') -> dframe r r'.
  Proof.
    intros H. unfold extract_file in H. destruct (rd_curr r) as [h|]; [|discriminate]. cbv zeta in H.
    bind_inv H as [[ok1 ev1] r1] E1. apply open_decoder_frame in E1.
    destruct (negb ok1); [inversion H; subst; exact E1|].
    destruct (arch_fopen f _ _) as [[hd|] f1]; [|inversion H; subst; exact E1].
    bind_inv H as [[[res ev2] r2] f2] E2. apply do_decode_frame in E2. inversion H; subst.
    eapply dframe_trans; eauto.
  Qed.

  (* ---------------------------------------------------------------- *)
  (* What lha_reader_extract may change                                *)

  (* the only push: a directory that mkdir created, under a non-plain policy *)
  Definition pushes (r r' : reader) : Prop :=
    exists h, rd_curr r = Some h /\ rd_type r = CT_NORMAL /\ rd_policy r <> DIR_PLAIN /\
              is_dir_method h = true /\ h_symlink_target h = None /\
              rd_dir_stack r' = h :: rd_dir_stack r /\ rd_deferred r' = rd_deferred r.
  (* the only insertion: a dangerous symlink of the archive proper *)
  Definition defers (r r' : reader) : Prop :=
    exists h, rd_curr r = Some h /\ rd_type r = CT_NORMAL /\ is_dir_method h = true /\
              rd_dir_stack r' = rd_dir_stack r /\ rd_deferred r' = insert_deferred (rd_deferred r) h.

  Definition xframe (r r' : reader) : Prop :=
    rd_curr r' = rd_curr r /\ rd_type r' = rd_type r /\ rd_policy r' = rd_policy r /\
    ((rd_dir_stack r' = rd_dir_stack r /\ rd_deferred r' = rd_deferred r) \/ pushes r r' \/ defers r r').

  Lemma dframe_xframe r r' : dframe r r' -> xframe r r'.
  Proof. intros (A1 & A2 & A3 & A4 & A5 & A6). repeat split; auto. Qed.

  Lemma link_curr_eq site r s d r' : link_curr site r s d = Ok r' ->
    rd_curr r' = rd_curr r /\ rd_type r' = rd_type r /\ rd_policy r' = rd_policy r /\
    rd_dir_stack r' = s /\ rd_deferred r' = d /\ rd_br r' = rd_br r.
  Proof. unfold link_curr. destruct (rd_linked r); intros H; inversion H; subst. repeat split. Qed.

  Lemma extract_symlink_frame r f fn ok r' f' h :
    rd_curr r = Some h -> (rd_type r = CT_NORMAL -> is_dir_method h = true) ->
    extract_symlink r f fn = Ok (ok, r', f') ->
    rd_curr r' = rd_curr r /\ rd_type r' = rd_type r /\ rd_policy r' = rd_policy r /\
    ((rd_dir_stack r' = rd_dir_stack r /\ rd_deferred r' = rd_deferred r) \/ defers r r').
  Proof.
    intros C Hd H. unfold extract_symlink in H. rewrite C in H. cbv zeta in H.
    destruct ((match rd_type r with CT_NORMAL => true | _ => false end) && is_dangerous_symlink h) eqn:Dg.
    - unfold extract_placeholder_symlink in H.
      destruct (arch_fopen f _ _) as [[hd|] f1]; [|inversion H; subst; repeat split; auto].
      rewrite C in H. bind_inv H as r1 E. inversion H; subst.
      apply link_curr_eq in E. destruct E as (E1 & E2 & E3 & E4 & E5 & _).
      repeat split; auto. right. exists h.
      apply andb_true_iff in Dg. destruct Dg as [Dt _].
      assert (T : rd_type r = CT_NORMAL) by (destruct (rd_type r); try discriminate; reflexivity).
      repeat split; auto.
    - destruct (h_symlink_target h); [|discriminate].
      destruct (arch_symlink f _ l) as [ok1 f1]. inversion H; subst. repeat split; auto.
  Qed.

  Lemma extract_directory_frame r f fn ok r' f' h :
    rd_curr r = Some h -> rd_type r = CT_NORMAL -> is_dir_method h = true -> h_symlink_target h = None ->
    extract_directory r f fn = Ok (ok, r', f') ->
    rd_curr r' = rd_curr r /\ rd_type r' = rd_type r /\ rd_policy r' = rd_policy r /\
    ((rd_dir_stack r' = rd_dir_stack r /\ rd_deferred r' = rd_deferred r) \/ pushes r r').
  Proof.
    intros C T Hd Hs H. unfold extract_directory in H. rewrite C in H.
    destruct (match fn with Some p => Some p | None => h_path h end) as [p|]; [|discriminate].
    cbv zeta in H. destruct (arch_mkdir f p _) as [ok1 f1].
    destruct (negb ok1); [inversion H; subst; repeat split; auto|].
    destruct (rd_policy r) eqn:P.
    - destruct (set_directory_metadata f1 h p) as [b f2]. inversion H; subst. repeat split; auto.
    - bind_inv H as r1 E. inversion H; subst. apply link_curr_eq in E. destruct E as (E1 & E2 & E3 & E4 & E5 & _).
      split; [exact E1|]. split; [exact E2|]. split; [congruence|]. right. exists h.
      repeat split; auto; congruence.
    - bind_inv H as r1 E. inversion H; subst. apply link_curr_eq in E. destruct E as (E1 & E2 & E3 & E4 & E5 & _).
      split; [exact E1|]. split; [exact E2|]. split; [congruence|]. right. exists h.
      repeat split; auto; congruence.
  Qed.

  Lemma lha_reader_extract_frame r f fn mon ok ev r' f' :
    lha_reader_extract junk r f fn mon = Ok (ok, ev, r', f') -> xframe r r'.
  Proof.
    intros H. unfold lha_reader_extract in H.
    destruct (rd_type r) eqn:T; try (inversion H; subst; apply dframe_xframe, dframe_refl).
    - (* NORMAL *)
      destruct (rd_curr r) as [h|] eqn:C; [|discriminate].
      destruct (is_dir_method h) eqn:Hd; cbn [negb] in H.
      + destruct (h_symlink_target h) eqn:Hs.
        * bind_inv H as [[ok1 r1] f1] E. inversion H; subst.
          eapply extract_symlink_frame in E; eauto.
          destruct E as (E1 & E2 & E3 & [E4|E4]); unfold xframe; rewrite ?T; repeat split; auto; congruence.
        * bind_inv H as [[ok1 r1] f1] E. inversion H; subst.
          eapply extract_directory_frame in E; eauto.
          destruct E as (E1 & E2 & E3 & [E4|E4]); unfold xframe; rewrite ?T; repeat split; auto; congruence.
      + apply extract_file_frame in H. apply dframe_xframe. exact H.
    - (* FAKE_DIR *)
      destruct (rd_curr r) as [h|] eqn:C; [|inversion H; subst; apply dframe_xframe, dframe_refl].
      destruct (match fn with Some n => Some n | None => h_path h end); [|discriminate].
      destruct (set_directory_metadata f h l) as [b f1]. inversion H; subst. apply dframe_xframe, dframe_refl.
    - (* DEFERRED_SYMLINK *)
      destruct (rd_curr r) as [h|] eqn:C; [|inversion H; subst; apply dframe_xframe, dframe_refl].
      bind_inv H as [[ok1 r1] f1] E. inversion H; subst.
      eapply extract_symlink_frame in E; eauto; [|rewrite T; discriminate].
      destruct E as (E1 & E2 & E3 & [E4|E4]); unfold xframe; repeat split; auto; try congruence;
        try (destruct E4 as (h' & _ & T' & _); congruence).
  Qed.

  (* ---------------------------------------------------------------- *)
  (* D. The end is absorbing                                           *)

  Definition at_eof (r : reader) : Prop :=
    rd_type r = CT_EOF /\ rd_decoder r = None /\ rd_inner r = IR_null.

  Lemma next_file_none_eof r0 r : lha_reader_next_file mktime r0 = Ok (None, r) -> at_eof r.
  Proof.
    intros H. unfold lha_reader_next_file in H. cbv zeta in H.
    change (rd_type (close_decoder r0)) with (rd_type r0) in H.
    destruct (rd_type r0) eqn:T.
    5:{ inversion H; subst. unfold at_eof. rdsimp. auto. }
    all: bind_inv H as [br1 linked] E1; bind_inv H as pop Ep;
      match type of H with match rd_curr ?r2 with _ => _ end = _ => destruct (rd_curr r2); [discriminate|];
        destruct (rd_deferred r2); inversion H; subst; unfold at_eof; rdsimp; auto end.
  Qed.

  Lemma at_eof_close r : at_eof r -> close_decoder r = r.
  Proof. destruct r. unfold at_eof. rdsimp. intros (_ & -> & ->). reflexivity. Qed.

  (* After "no entry": every further request reports the end and nothing changes. *)
  Theorem end_is_absorbing r0 r : lha_reader_next_file mktime r0 = Ok (None, r) ->
    lha_reader_next_file mktime r = Ok (None, r) /\
    (forall n, lha_reader_read junk r n = Ok ([], [], r)) /\
    (forall mon, lha_reader_check junk r mon = Ok (false, [], r)) /\
    (forall f fn mon, lha_reader_extract junk r f fn mon = Ok (false, [], r, f)) /\
    lha_reader_current_is_fake r = false.
  Proof.
    intros H. apply next_file_none_eof in H. pose proof (at_eof_close r H) as Cl.
    destruct H as (T & Dn & In).
    split; [unfold lha_reader_next_file; cbv zeta; rewrite Cl, T; reflexivity|].
    split; [intros n; unfold lha_reader_read, open_decoder; rewrite Dn, T; reflexivity|].
    split; [intros mon; unfold lha_reader_check; rewrite T; reflexivity|].
    split; [intros f fn mon; unfold lha_reader_extract; rewrite T; reflexivity|].
    unfold lha_reader_current_is_fake. rewrite T. reflexivity.
  Qed.

  (* ---------------------------------------------------------------- *)
  (* Operation sequences                                               *)

  Inductive op : Type :=
  | OpNext
  | OpRead (n : N)
  | OpCheck (mon : bool)
  | OpExtract (fn : option (list N)) (mon : bool).

  Inductive obs : Type :=
  | ObsEntry (h : option header) (fake : bool)
  | ObsBytes (l : list N)
  | ObsBool (b : bool).

  Definition run_op (s : reader * fs) (o : op) : outcome (obs * (reader * fs)) :=
    let '(r, f) := s in
    match o with
    | OpNext => '(h, r') <- lha_reader_next_file mktime r ;; Ok (ObsEntry h (lha_reader_current_is_fake r'), (r', f))
    | OpRead n => '(bs, _, r') <- lha_reader_read junk r n ;; Ok (ObsBytes bs, (r', f))
    | OpCheck mon => '(b, _, r') <- lha_reader_check junk r mon ;; Ok (ObsBool b, (r', f))
    | OpExtract fn mon => '(b, _, r', f') <- lha_reader_extract junk r f fn mon ;; Ok (ObsBool b, (r', f'))
    end.

  Fixpoint run_ops (s : reader * fs) (l : list op) : outcome (list obs * (reader * fs)) :=
    match l with
    | [] => Ok ([], s)
    | o :: rest =>
      '(x, s1) <- run_op s o ;;
      '(xs, s2) <- run_ops s1 rest ;;
      Ok (x :: xs, s2)
    end.

  (* an invariant kept by every operation is kept by every sequence *)
  Lemma run_ops_inv (I : reader -> Prop) :
    (forall r f o x r' f', I r -> run_op (r, f) o = Ok (x, (r', f')) -> I r') ->
    forall l r f xs r' f', I r -> run_ops (r, f) l = Ok (xs, (r', f')) -> I r'.
  Proof.
    intros Hop. induction l as [|o l IH]; intros r f xs r' f' Hi H; cbn [run_ops] in H.
    - inversion H; subst. exact Hi.
    - bind_inv H as [x [r1 f1]] E1. bind_inv H as [xs1 [r2 f2]] E2. inversion H; subst.
      eapply IH; [|exact E2]. eapply Hop; eauto.
  Qed.

  (* ---------------------------------------------------------------- *)
  (* lha_reader_next_file, case by case                                *)

  (* the part of lha_reader_next_file after the basic reader has moved on: which entry is presented *)
  Definition nf_choose (r : reader) (br1 : breader) (linked : bool) : outcome (option header * reader) :=
    let r1 := {| rd_br := br1; rd_curr := rd_curr r; rd_type := rd_type r; rd_decoder := None; rd_inner := IR_null;
                 rd_policy := rd_policy r; rd_dir_stack := rd_dir_stack r; rd_deferred := rd_deferred r;
                 rd_linked := linked |} in
    pop <- end_of_top_dir r1 ;;
    let r2 :=
      if pop then
        match rd_dir_stack r1 with
        | top :: rest =>
          {| rd_br := br1; rd_curr := Some top; rd_type := CT_FAKE_DIR; rd_decoder := None; rd_inner := IR_null;
             rd_policy := rd_policy r1; rd_dir_stack := rest; rd_deferred := rd_deferred r1; rd_linked := linked |}
        | [] => r1
        end
      else
        {| rd_br := br1; rd_curr := br_curr br1; rd_type := CT_NORMAL; rd_decoder := None; rd_inner := IR_null;
           rd_policy := rd_policy r1; rd_dir_stack := rd_dir_stack r1; rd_deferred := rd_deferred r1;
           rd_linked := linked |} in
    match rd_curr r2 with
    | Some h => Ok (Some h, r2)
    | None =>
      match rd_deferred r2 with
      | l :: rest =>
        Ok (Some l, {| rd_br := br1; rd_curr := Some l; rd_type := CT_DEFERRED_SYMLINK; rd_decoder := None;
                       rd_inner := IR_null; rd_policy := rd_policy r2; rd_dir_stack := rd_dir_stack r2;
                       rd_deferred := rest; rd_linked := linked |})
      | [] =>
        Ok (None, {| rd_br := br1; rd_curr := None; rd_type := CT_EOF; rd_decoder := None; rd_inner := IR_null;
                     rd_policy := rd_policy r2; rd_dir_stack := rd_dir_stack r2; rd_deferred := [];
                     rd_linked := linked |})
      end
    end.

  Lemma next_file_unfold r0 :
    lha_reader_next_file mktime r0 =
    match rd_type r0 with
    | CT_EOF => Ok (None, close_decoder r0)
    | CT_START | CT_NORMAL =>
      '(_, br') <- lha_basic_reader_next_file mktime (rd_br r0) ;; nf_choose (close_decoder r0) br' false
    | _ => nf_choose (close_decoder r0) (rd_br r0) (rd_linked r0)
    end.
  Proof.
    destruct r0 as [br c t d i p s df lk]. unfold lha_reader_next_file. cbv zeta. rdsimp.
    destruct t; try reflexivity.
    - destruct (lha_basic_reader_next_file mktime br) as [[hh br']| |]; reflexivity.
    - destruct (lha_basic_reader_next_file mktime br) as [[hh br']| |]; reflexivity.
  Qed.

  Inductive presented (stk dfr : list header) (pol : dir_policy) (br1 : breader) : option header -> reader -> Prop :=
  | pr_fake top rest r' :          (* a directory leaves the stack *)
      stk = top :: rest -> rd_curr r' = Some top -> rd_type r' = CT_FAKE_DIR ->
      rd_dir_stack r' = rest -> rd_deferred r' = dfr ->
      (br_curr br1 = None \/ pol <> DIR_END_OF_FILE) ->
      presented stk dfr pol br1 (Some top) r'
  | pr_member hd r' :              (* the next member of the archive *)
      br_curr br1 = Some hd -> rd_curr r' = Some hd -> rd_type r' = CT_NORMAL ->
      rd_dir_stack r' = stk -> rd_deferred r' = dfr ->
      (stk = [] \/ pol <> DIR_PLAIN) ->
      presented stk dfr pol br1 (Some hd) r'
  | pr_deferred l rest r' :        (* archive exhausted, stack empty: a deferred symlink *)
      br_curr br1 = None -> stk = [] -> dfr = l :: rest ->
      rd_curr r' = Some l -> rd_type r' = CT_DEFERRED_SYMLINK -> rd_dir_stack r' = [] -> rd_deferred r' = rest ->
      presented stk dfr pol br1 (Some l) r'
  | pr_end r' :                    (* nothing is left *)
      br_curr br1 = None -> stk = [] -> dfr = [] ->
      rd_curr r' = None -> rd_type r' = CT_EOF -> rd_dir_stack r' = [] -> rd_deferred r' = [] ->
      presented stk dfr pol br1 None r'.

  Lemma nf_choose_cases r br1 linked h r' : nf_choose r br1 linked = Ok (h, r') ->
    presented (rd_dir_stack r) (rd_deferred r) (rd_policy r) br1 h r' /\ rd_br r' = br1 /\ rd_policy r' = rd_policy r /\
    rd_decoder r' = None /\ rd_inner r' = IR_null.
  Proof.
    intros H. unfold nf_choose in H. cbv zeta in H. bind_inv H as pop Ep.
    unfold end_of_top_dir in Ep. rdsimp.
    destruct (rd_dir_stack r) as [|top rest] eqn:St.
    - inversion Ep; subst pop. rdsimp.
      destruct (br_curr br1) as [hd|] eqn:Cb.
      + inversion H; subst. rdsimp. split; [|auto]. eapply pr_member; rdsimp; eauto.
      + destruct (rd_deferred r) as [|l dr] eqn:Df; inversion H; subst; rdsimp; (split; [|auto]).
        * eapply pr_end; rdsimp; eauto.
        * eapply pr_deferred; rdsimp; eauto.
    - destruct pop; rdsimp.
      + inversion H; subst. rdsimp. split; [|auto]. eapply pr_fake; rdsimp; eauto.
        destruct (br_curr br1); [|left; reflexivity]. right.
        destruct (rd_policy r); [discriminate|discriminate|discriminate Ep].
      + destruct (br_curr br1) as [input|] eqn:Cb; [|discriminate].
        inversion H; subst. rdsimp. split; [|auto]. eapply pr_member; rdsimp; eauto.
        right. destruct (rd_policy r); [discriminate Ep|discriminate|discriminate].
  Qed.

  (* lha_reader_next_file before the end: the basic reader moves on (or not), then one of the four *)
  Lemma next_file_presented r0 h r' : rd_type r0 <> CT_EOF ->
    lha_reader_next_file mktime r0 = Ok (h, r') ->
    exists br1,
      match rd_type r0 with
      | CT_START | CT_NORMAL => exists hh, lha_basic_reader_next_file mktime (rd_br r0) = Ok (hh, br1)
      | _ => br1 = rd_br r0
      end /\
      presented (rd_dir_stack r0) (rd_deferred r0) (rd_policy r0) br1 h r' /\ rd_br r' = br1 /\
      rd_policy r' = rd_policy r0 /\ rd_decoder r' = None /\ rd_inner r' = IR_null.
  Proof.
    intros NE H. rewrite next_file_unfold in H.
    destruct (rd_type r0) eqn:T; [| | | |contradiction].
    - bind_inv H as [hh br'] Eb. exists br'. split; [exists hh; exact Eb|]. apply nf_choose_cases in H. exact H.
    - bind_inv H as [hh br'] Eb. exists br'. split; [exists hh; exact Eb|]. apply nf_choose_cases in H. exact H.
    - exists (rd_br r0). split; [reflexivity|]. apply nf_choose_cases in H. exact H.
    - exists (rd_br r0). split; [reflexivity|]. apply nf_choose_cases in H. exact H.
  Qed.
End Frames.

(* E (iii): the deferred list *)
  Definition desc_len (l : list header) : Prop :=
    StronglySorted (fun a b => file_header_path_len b <= file_header_path_len a) l.

  Lemma insert_deferred_perm l h : Permutation (h :: l) (insert_deferred l h).
  Proof.
    induction l as [|x r IH]; cbn [insert_deferred]; [apply Permutation_refl|].
    destruct (file_header_path_len h <? file_header_path_len x); [|apply Permutation_refl].
    eapply perm_trans; [apply perm_swap|]. apply perm_skip. exact IH.
  Qed.

  Lemma insert_deferred_sorted l h : desc_len l -> desc_len (insert_deferred l h).
  Proof.
    unfold desc_len. induction l as [|x r IH]; intros S; cbn [insert_deferred].
    - constructor; constructor.
    - inversion S as [|x' r' Sr Fr]; subst.
      destruct (N.ltb_spec (file_header_path_len h) (file_header_path_len x)) as [Lt|Ge].
      + constructor; [apply IH; exact Sr|].
        eapply Permutation_Forall; [apply insert_deferred_perm|]. constructor; [lia|exact Fr].
      + constructor; [exact S|]. constructor; [exact Ge|].
        eapply Forall_impl; [|exact Fr]. cbv beta. intros a Ha. lia.
  Qed.

Lemma curr_type_eq_dec (a b : curr_type) : {a = b} + {a <> b}.
Proof. decide equality. Qed.

Section Present.
  Variable mktime : N -> N -> N -> N -> Z -> N -> N.
  Variable junk : N.

  (* ---------------------------------------------------------------- *)
  (* E (i): the plain policy                                           *)

  Definition plain_inv (r : reader) : Prop :=
    rd_policy r = DIR_PLAIN /\ rd_dir_stack r = [] /\ rd_type r <> CT_FAKE_DIR.

  Lemma plain_inv_dframe r r' : dframe r r' -> plain_inv r -> plain_inv r'.
  Proof. intros (A1 & A2 & A3 & A4 & A5 & A6) (P1 & P2 & P3). repeat split; congruence. Qed.

  Lemma plain_inv_op r f o x r' f' : plain_inv r ->
    run_op mktime junk (r, f) o = Ok (x, (r', f')) -> plain_inv r'.
  Proof.
    intros (P1 & P2 & P3) H. unfold run_op in H. destruct o as [|n|mon|fn mon].
    - bind_inv H as [h r1] E. inversion H; subst.
      destruct (curr_type_eq_dec (rd_type r) CT_EOF) as [Te|Te].
      + rewrite next_file_unfold, Te in E. inversion E; subst. repeat split; auto.
      + destruct (next_file_presented mktime r h r' Te E) as (br1 & _ & Pr & _ & Pol & _).
        rewrite P2 in Pr. split; [congruence|].
        inversion Pr; subst; try discriminate; split; try congruence.
    - bind_inv H as [[bs ev] r1] E. inversion H; subst. apply lha_reader_read_frame in E.
      eapply plain_inv_dframe; eauto. repeat split; auto.
    - bind_inv H as [[b ev] r1] E. inversion H; subst. apply lha_reader_check_frame in E.
      eapply plain_inv_dframe; eauto. repeat split; auto.
    - bind_inv H as [[[b ev] r1] f1] E. inversion H; subst. apply lha_reader_extract_frame in E.
      destruct E as (E1 & E2 & E3 & [[E4 E5]|[(h & _ & _ & Np & _)|(h & _ & _ & _ & E4 & _)]]).
      + repeat split; congruence.
      + contradiction.
      + repeat split; congruence.
  Qed.

  (* Under the plain policy the directory stack is empty after every
     sequence of operations and no fake directory is ever current. *)
  Theorem plain_policy_no_fake_dirs st f l xs r' f' :
    run_ops mktime junk (lha_reader_set_dir_policy (lha_reader_new st) DIR_PLAIN, f) l = Ok (xs, (r', f')) ->
    rd_dir_stack r' = [] /\ rd_type r' <> CT_FAKE_DIR /\ rd_policy r' = DIR_PLAIN.
  Proof.
    intros H.
    assert (I : plain_inv r').
    { eapply (run_ops_inv mktime junk plain_inv); [| |exact H].
      - intros r0 f0 o x r1 f1 Hi Ho. eapply plain_inv_op; eauto.
      - repeat split. discriminate. }
    destruct I as (P1 & P2 & P3). auto.
  Qed.

  (* ---------------------------------------------------------------- *)
  (* E (ii), (iii): presentation once the archive is exhausted          *)

  Definition br_at_end (b : breader) : Prop := br_curr b = None /\ br_eof b = true.

  Lemma nf_choose_at_end r br1 linked : br_curr br1 = None ->
    exists h r', nf_choose r br1 linked = Ok (h, r') /\ rd_br r' = br1 /\
      match rd_dir_stack r, rd_deferred r with
      | top :: rest, _ => h = Some top /\ rd_type r' = CT_FAKE_DIR /\ rd_dir_stack r' = rest /\ rd_deferred r' = rd_deferred r
      | [], l :: rest => h = Some l /\ rd_type r' = CT_DEFERRED_SYMLINK /\ rd_dir_stack r' = [] /\ rd_deferred r' = rest
      | [], [] => h = None /\ rd_type r' = CT_EOF /\ rd_dir_stack r' = [] /\ rd_deferred r' = []
      end.
  Proof.
    intros Cb. unfold nf_choose, end_of_top_dir. rdsimp. rewrite Cb.
    destruct (rd_dir_stack r) as [|top rest] eqn:St; cbn [bind]; rdsimp.
    - rewrite ?Cb. destruct (rd_deferred r) as [|l dr] eqn:Df; eexists _, _; (split; [reflexivity|]); rdsimp; auto.
    - eexists _, _. split; [reflexivity|]. rdsimp. auto.
  Qed.

  Lemma next_file_at_end_step r : br_at_end (rd_br r) -> rd_type r <> CT_EOF ->
    exists h r', lha_reader_next_file mktime r = Ok (h, r') /\ rd_br r' = rd_br r /\
      match rd_dir_stack r, rd_deferred r with
      | top :: rest, _ => h = Some top /\ rd_type r' = CT_FAKE_DIR /\ rd_dir_stack r' = rest /\ rd_deferred r' = rd_deferred r
      | [], l :: rest => h = Some l /\ rd_type r' = CT_DEFERRED_SYMLINK /\ rd_dir_stack r' = [] /\ rd_deferred r' = rest
      | [], [] => h = None /\ rd_type r' = CT_EOF /\ rd_dir_stack r' = [] /\ rd_deferred r' = []
      end.
  Proof.
    intros [Cb Eb] NE. rewrite next_file_unfold.
    destruct (rd_type r) eqn:T; [| | | |contradiction].
    - rewrite (next_file_at_end mktime (rd_br r) Cb Eb). cbn [bind].
      apply (nf_choose_at_end (close_decoder r) (rd_br r) false Cb).
    - rewrite (next_file_at_end mktime (rd_br r) Cb Eb). cbn [bind].
      apply (nf_choose_at_end (close_decoder r) (rd_br r) false Cb).
    - apply (nf_choose_at_end (close_decoder r) (rd_br r) (rd_linked r) Cb).
    - apply (nf_choose_at_end (close_decoder r) (rd_br r) (rd_linked r) Cb).
  Qed.

  (* n calls of lha_reader_next_file: what each returned and what kind of entry it is *)
  Fixpoint nexts (n : nat) (r : reader) : outcome (list (option header * curr_type) * reader) :=
    match n with
    | O => Ok ([], r)
    | S k => '(h, r1) <- lha_reader_next_file mktime r ;;
             '(l, r2) <- nexts k r1 ;;
             Ok ((h, rd_type r1) :: l, r2)
    end.

  Lemma drain_deferred dfr : forall r, br_at_end (rd_br r) -> rd_type r <> CT_EOF ->
    rd_dir_stack r = [] -> rd_deferred r = dfr ->
    exists r', nexts (length dfr + 1) r =
      Ok (map (fun h => (Some h, CT_DEFERRED_SYMLINK)) dfr ++ [(None, CT_EOF)], r').
  Proof.
    induction dfr as [|l dr IH]; intros r Ae NE St Df;
      destruct (next_file_at_end_step r Ae NE) as (h & r1 & E & Br & M); rewrite St, Df in M.
    - destruct M as (-> & T1 & _). cbn [length Nat.add nexts]. rewrite E. cbn [bind]. rewrite T1.
      eexists. reflexivity.
    - destruct M as (-> & T1 & S1 & D1). cbn [length Nat.add nexts]. rewrite E. cbn [bind].
      destruct (IH r1) as (r' & E'); [rewrite Br; exact Ae|rewrite T1; discriminate|exact S1|exact D1|].
      rewrite E'. cbn [bind]. rewrite T1. eexists. reflexivity.
  Qed.

  (* Once the basic reader has reached the end of the archive: the directory
     stack is presented top first, then the deferred symlinks in list order,
     then "no entry" -- each entry exactly once. *)
  Theorem drain stk : forall r, br_at_end (rd_br r) -> rd_type r <> CT_EOF ->
    rd_dir_stack r = stk ->
    exists r', nexts (length stk + (length (rd_deferred r) + 1)) r =
      Ok (map (fun h => (Some h, CT_FAKE_DIR)) stk ++
          map (fun h => (Some h, CT_DEFERRED_SYMLINK)) (rd_deferred r) ++ [(None, CT_EOF)], r').
  Proof.
    induction stk as [|top rest IH]; intros r Ae NE St.
    - cbn [length Nat.add map app]. apply drain_deferred; auto.
    - destruct (next_file_at_end_step r Ae NE) as (h & r1 & E & Br & M). rewrite St in M.
      destruct M as (-> & T1 & S1 & D1). cbn [length Nat.add nexts]. rewrite E. cbn [bind].
      destruct (IH r1) as (r' & E'); [rewrite Br; exact Ae|rewrite T1; discriminate|exact S1|].
      rewrite D1 in E'. rewrite E'. cbn [bind]. rewrite T1. eexists. reflexivity.
  Qed.

  Lemma basic_next_curr r hh r' : lha_basic_reader_next_file mktime r = Ok (hh, r') ->
    br_curr r' = hh /\ (hh = None -> br_eof r' = true).
  Proof.
    intros H. destruct hh as [hd|].
    - split; [|discriminate]. unfold lha_basic_reader_next_file in H. bind_inv H as r1 E1.
      destruct (br_eof r1); [discriminate|]. bind_inv H as [h st2] Eh.
      destruct h; inversion H; subst. reflexivity.
    - apply next_file_none_state in H. destruct H. auto.
  Qed.

  (* A deferred symlink is presented only when the archive is exhausted and
     the directory stack is empty; it is the head of the deferred list. *)
  Theorem deferred_only_after_everything r0 h r' :
    lha_reader_next_file mktime r0 = Ok (h, r') -> rd_type r' = CT_DEFERRED_SYMLINK ->
    br_curr (rd_br r') = None /\ rd_dir_stack r0 = [] /\ rd_dir_stack r' = [] /\
    exists l, h = Some l /\ rd_deferred r0 = l :: rd_deferred r'.
  Proof.
    intros H T.
    destruct (curr_type_eq_dec (rd_type r0) CT_EOF) as [Te|Te].
    { rewrite next_file_unfold, Te in H. inversion H; subst. rdsimp. congruence. }
    destruct (next_file_presented mktime r0 h r' Te H) as (br1 & _ & Pr & Br & _).
    inversion Pr; subst; try congruence.
    repeat split; eauto.
  Qed.

  (* A fake directory is presented exactly when end_of_top_dir says so:
     the archive is exhausted, or the policy is not END_OF_FILE (and, as the
     model's end_of_top_dir shows, under END_OF_DIR the next member's path does
     not start with the directory's path); it is the top of the stack. *)
  Theorem fake_dir_is_top_of_stack r0 h r' :
    lha_reader_next_file mktime r0 = Ok (h, r') -> rd_type r' = CT_FAKE_DIR ->
    exists top, h = Some top /\ rd_dir_stack r0 = top :: rd_dir_stack r' /\ rd_deferred r' = rd_deferred r0 /\
                (br_curr (rd_br r') = None \/ rd_policy r0 <> DIR_END_OF_FILE).
  Proof.
    intros H T.
    destruct (curr_type_eq_dec (rd_type r0) CT_EOF) as [Te|Te].
    { rewrite next_file_unfold, Te in H. inversion H; subst. rdsimp. congruence. }
    destruct (next_file_presented mktime r0 h r' Te H) as (br1 & _ & Pr & Br & _).
    inversion Pr; subst; try congruence.
    exists top. repeat split; auto.
  Qed.

  (* ---------------------------------------------------------------- *)
  (* E (iii): the deferred list                                        *)

  (* longest path first, along every sequence of operations *)
  Lemma desc_len_op r f o x r' f' : desc_len (rd_deferred r) ->
    run_op mktime junk (r, f) o = Ok (x, (r', f')) -> desc_len (rd_deferred r').
  Proof.
    intros S H. unfold run_op in H. destruct o as [|n|mon|fn mon].
    - bind_inv H as [h r1] E. inversion H; subst.
      destruct (curr_type_eq_dec (rd_type r) CT_EOF) as [Te|Te].
      + rewrite next_file_unfold, Te in E. inversion E; subst. exact S.
      + destruct (next_file_presented mktime r h r' Te E) as (br1 & _ & Pr & _).
        inversion Pr; subst; try congruence.
        match goal with D : rd_deferred r = _ :: _ |- _ => rewrite D in S end.
        inversion S; subst; try assumption; congruence.
    - bind_inv H as [[bs ev] r1] E. inversion H; subst. apply lha_reader_read_frame in E.
      destruct E as (_ & _ & _ & _ & -> & _). exact S.
    - bind_inv H as [[b ev] r1] E. inversion H; subst. apply lha_reader_check_frame in E.
      destruct E as (_ & _ & _ & _ & -> & _). exact S.
    - bind_inv H as [[[b ev] r1] f1] E. inversion H; subst. apply lha_reader_extract_frame in E.
      destruct E as (_ & _ & _ & [[_ ->]|[(h & _ & _ & _ & _ & _ & _ & ->)|(h & _ & _ & _ & _ & ->)]]); auto.
      apply insert_deferred_sorted. exact S.
  Qed.

  Theorem deferred_list_sorted st f l xs r' f' :
    run_ops mktime junk (lha_reader_new st, f) l = Ok (xs, (r', f')) -> desc_len (rd_deferred r').
  Proof.
    intros H.
    refine (run_ops_inv mktime junk (fun r => desc_len (rd_deferred r)) _ l (lha_reader_new st) f xs r' f' _ H).
    - intros r0 f0 o x r1 f1 Hi Ho. eapply desc_len_op; eauto.
    - apply SSorted_nil.
  Qed.

  (* ---------------------------------------------------------------- *)
  (* F: two readers                                                    *)

  (* What this rests on in the C: no mutable file-scope state (the tables in
     lha_decoder.c, crc16.c, ext_header.c are read-only), which the harness
     checks separately.  In the model every operation is a function of the
     reader (and the filesystem) it is applied to, so operations on one
     reader cannot touch another; each reader has its own stream state and,
     here, its own filesystem. *)
  Inductive who : Type := RA | RB.
  Definition is_a (w : who) : bool := match w with RA => true | RB => false end.

  Fixpoint run_two (sa sb : reader * fs) (l : list (who * op))
    : outcome (list (who * obs) * ((reader * fs) * (reader * fs))) :=
    match l with
    | [] => Ok ([], (sa, sb))
    | (RA, o) :: rest => '(x, sa1) <- run_op mktime junk sa o ;;
                         '(xs, ss) <- run_two sa1 sb rest ;; Ok ((RA, x) :: xs, ss)
    | (RB, o) :: rest => '(x, sb1) <- run_op mktime junk sb o ;;
                         '(xs, ss) <- run_two sa sb1 rest ;; Ok ((RB, x) :: xs, ss)
    end.

  Definition proj {A} (a : bool) (l : list (who * A)) : list A :=
    map snd (filter (fun p => Bool.eqb (is_a (fst p)) a) l).

  (* any interleaving: each reader sees exactly its own sequence *)
  Theorem two_readers_independent l : forall sa sb xs sa' sb',
    run_two sa sb l = Ok (xs, (sa', sb')) ->
    run_ops mktime junk sa (proj true l) = Ok (proj true xs, sa') /\
    run_ops mktime junk sb (proj false l) = Ok (proj false xs, sb').
  Proof.
    induction l as [|[w o] rest IH]; intros sa sb xs sa' sb' H; cbn [run_two] in H.
    - inversion H; subst. split; reflexivity.
    - destruct w.
      + bind_inv H as [x sa1] E1. bind_inv H as [xs1 [sa2 sb2]] E2. inversion H; subst.
        destruct (IH _ _ _ _ _ E2) as [Ha Hb]. unfold proj in *. cbn [filter fst is_a Bool.eqb map snd run_ops].
        rewrite E1. cbn [bind]. rewrite Ha. cbn [bind]. split; [reflexivity|exact Hb].
      + bind_inv H as [x sb1] E1. bind_inv H as [xs1 [sa2 sb2]] E2. inversion H; subst.
        destruct (IH _ _ _ _ _ E2) as [Ha Hb]. unfold proj in *. cbn [filter fst is_a Bool.eqb map snd run_ops].
        rewrite E1. cbn [bind]. rewrite Hb. cbn [bind]. split; [exact Ha|reflexivity].
  Qed.

  (* two operations on two readers commute *)
  Theorem two_readers_commute sa sb oa ob xa sa' xb sb' :
    run_two sa sb [(RA, oa); (RB, ob)] = Ok ([(RA, xa); (RB, xb)], (sa', sb')) <->
    run_two sa sb [(RB, ob); (RA, oa)] = Ok ([(RB, xb); (RA, xa)], (sa', sb')).
  Proof.
    cbn [run_two].
    destruct (run_op mktime junk sa oa) as [[x1 s1]| |]; destruct (run_op mktime junk sb ob) as [[x2 s2]| |];
      cbn [bind]; split; intros H; try discriminate; inversion H; subst; reflexivity.
  Qed.
End Present.

(* ------------------------------------------------------------------ *)
(* C. Decode operations do not change what comes next                  *)

(* the basic reader b' is b after some calls of lha_basic_reader_read_compressed *)
Definition reach (b b' : breader) : Prop := exists sizes, b' = read_many b sizes.

Lemma reach_refl b : reach b b.
Proof. exists []. reflexivity. Qed.

Lemma reach_trans a b c : reach a b -> reach b c -> reach a c.
Proof. intros [l1 ->] [l2 ->]. exists (l1 ++ l2). symmetry. apply read_many_app. Qed.

Definition reader_equiv (a b : reader) : Prop :=
  breader_equiv (rd_br a) (rd_br b) /\ rd_curr a = rd_curr b /\ rd_type a = rd_type b /\
  rd_decoder a = rd_decoder b /\ rd_inner a = rd_inner b /\ rd_policy a = rd_policy b /\
  rd_dir_stack a = rd_dir_stack b /\ rd_deferred a = rd_deferred b /\ rd_linked a = rd_linked b.

Definition rnf_rel (x y : option header * reader) : Prop :=
  fst x = fst y /\ reader_equiv (snd x) (snd y).

(* the generic wrapper lha_decoder_read passes on whatever the inner read does to the callback state *)
Section DecoderReach.
  Context {cbs st : Type}.
  Variable Rc : cbs -> cbs -> Prop.
  Hypothesis Rc_refl : forall c, Rc c c.
  Hypothesis Rc_trans : forall a b c, Rc a b -> Rc b c -> Rc a c.
  Variable dread : st -> cbs -> outcome (list N * st * cbs).
  Hypothesis dread_reach : forall s c o s' c', dread s c = Ok (o, s', c') -> Rc c c'.

  Lemma read_step_reach mr n s x : read_step dread mr n s = Ok x ->
    Rc (d_cb (rl_d s)) (d_cb (rl_d (match x with inl a => a | inr a => a end))).
  Proof.
    unfold read_step. intros H.
    destruct (rl_filled s <? n); [|inversion H; subst; apply Rc_refl].
    cbv zeta in H. destruct (d_failed (rl_d s)); [inversion H; subst; apply Rc_refl|].
    destruct (skipn_N (n - rl_filled s) (d_outbuf (rl_d s))); [|inversion H; subst; apply Rc_refl].
    bind_inv H as [[chunk inner'] c'] E. apply dread_reach in E.
    destruct (mr <? nlen chunk); [discriminate|].
    destruct chunk; inversion H; subst; exact E.
  Qed.

  Lemma lha_decoder_read_reach mr bs d n out ev d' :
    lha_decoder_read dread mr bs d n = Ok (out, ev, d') -> Rc (d_cb d) (d_cb d').
  Proof.
    unfold lha_decoder_read. generalize 64%nat. intros k H. cbv zeta in H.
    bind_inv H as s El.
    assert (F : Rc (d_cb d) (d_cb (rl_d s))).
    { apply (loop_inv _ (fun s => Rc (d_cb d) (d_cb (rl_d s))) (fun s => Rc (d_cb d) (d_cb (rl_d s)))) in El;
        [exact El| | |apply Rc_refl].
      - intros a b I E. apply read_step_reach in E. eapply Rc_trans; eauto.
      - intros a b I E. apply read_step_reach in E. eapply Rc_trans; eauto. }
    destruct (d_monitor _); inversion H; subst; exact F.
  Qed.
End DecoderReach.

Section Decode.
  Variable mktime : N -> N -> N -> N -> Z -> N -> N.
  Variable junk : N.

  (* The one fact about the decoders this section rests on: a decoder's read
     function changes its callback state only by calling the callback.  The
     decoder models are polymorphic in the callback state ([Context {cbs}]), so
     this is their parametricity; it is not proved here (it needs one walk
     through each of Null, Lzs, Lz5, Lh1, LhNew, Pm1, Pm2 and BitReader).  It is
     a hypothesis of the theorems below, not an assumption of the development. *)
  Definition decoders_use_callback_only : Prop :=
    forall (s : dstate) (c : breader) o s' c',
      any_read decoder_callback junk s c = Ok (o, s', c') -> reach c c'.

  Hypothesis Hdec : decoders_use_callback_only.

  Lemma inner_read_reach d n o ev d' : inner_read junk d n = Ok (o, ev, d') -> reach (idec_br d) (idec_br d').
  Proof.
    unfold inner_read. intros H. bind_inv H as [[o1 ev1] d1] E. inversion H; subst.
    apply (lha_decoder_read_reach reach reach_refl reach_trans _ Hdec) in E. exact E.
  Qed.

  Definition wreach (w w' : mb_world) : Prop := reach (idec_br (mw_dec w)) (idec_br (mw_dec w')).

  Lemma rmh_step_reach wa ga x : rmh_step junk (wa, ga) = Ok x ->
    wreach wa (match x with inl s => fst s | inr s => snd (fst s) end).
  Proof.
    unfold rmh_step. intros E.
    destruct (nlen ga <? mb_MBHDR_SIZE); [|inversion E; subst; apply reach_refl].
    bind_inv E as [[o ev] d'] Er. apply inner_read_reach in Er.
    destruct o; inversion E; subst; exact Er.
  Qed.

  Lemma macbinary_init_reach w h ms w' : macbinary_init junk w h = Ok (ms, w') -> wreach w w'.
  Proof.
    unfold macbinary_init. generalize 10%nat. intros k H. cbv zeta in H.
    destruct (h_length h <? mb_MBHDR_SIZE); [inversion H; subst; apply reach_refl|].
    bind_inv H as [[ok w1] got] El.
    assert (F : wreach w w1).
    { apply (loop_inv _ (fun s => wreach w (fst s)) (fun s => wreach w (snd (fst s)))) in El;
        [exact El| | |apply reach_refl].
      - intros [wa ga] [wb gb] I E. apply rmh_step_reach in E. cbn [fst snd] in *. eapply reach_trans; eauto.
      - intros [wa ga] [[okb wb] gb] I E. apply rmh_step_reach in E. cbn [fst snd] in *. eapply reach_trans; eauto. }
    fin H; exact F.
  Qed.

  Lemma dte_step_reach wa x : dte_step junk wa = Ok x ->
    wreach wa (match x with inl w => w | inr w => w end).
  Proof.
    unfold dte_step. intros E. bind_inv E as [[o2 ev2] d2] Er2. apply inner_read_reach in Er2.
    destruct o2; inversion E; subst; exact Er2.
  Qed.

  Lemma macbinary_read_reach s w o s' w' : macbinary_read junk s w = Ok (o, s', w') -> wreach w w'.
  Proof.
    unfold macbinary_read. generalize 64%nat. intros k H. cbv zeta in H.
    match type of H with (if ?c then _ else _) = _ => destruct c end; [discriminate|].
    bind_inv H as [[o1 ev] d1] Er. apply inner_read_reach in Er.
    match type of H with (if ?c then _ else _) = _ => destruct c end; [|inversion H; subst; exact Er].
    bind_inv H as w2 El. inversion H; subst.
    apply (loop_inv _ (fun s => wreach w s) (fun s => wreach w s)) in El; [exact El| | |exact Er].
    - intros wa wb I E. apply dte_step_reach in E. eapply reach_trans; eauto.
    - intros wa wb I E. apply dte_step_reach in E. eapply reach_trans; eauto.
  Qed.

  Lemma decoder_read_reach r n o ev r' : decoder_read junk r n = Ok (o, ev, r') -> reach (rd_br r) (rd_br r').
  Proof.
    unfold decoder_read. intros H.
    destruct (rd_decoder r) as [[d|o0]|]; [| |discriminate].
    - bind_inv H as [[o1 ev1] d'] E. inversion H; subst. apply inner_read_reach in E. exact E.
    - cbv zeta in H. bind_inv H as [[o1 ev1] d'] E. inversion H; subst.
      apply (lha_decoder_read_reach wreach (fun c => reach_refl _) (fun a b c => reach_trans _ _ _) _
               (macbinary_read_reach)) in E. exact E.
  Qed.

  Lemma open_decoder_reach r mon ok ev r' : open_decoder junk r mon = Ok (ok, ev, r') -> reach (rd_br r) (rd_br r').
  Proof.
    unfold open_decoder. intros H.
    destruct (rd_type r); try (inversion H; subst; apply reach_refl).
    bind_inv H as inner Ei. destruct inner as [d0|]; [|inversion H; subst; apply reach_refl].
    assert (B0 : idec_br d0 = rd_br r).
    { unfold lha_basic_reader_decode in Ei. destruct (br_curr (rd_br r)); [|discriminate].
      destruct (lha_decoder_for_name _); [|discriminate]. bind_inv Ei as s0 Es. inversion Ei; subst. reflexivity. }
    match type of H with (let '(d1, ev) := ?p in _) = _ => destruct p as [d1 ev1] eqn:Ep end.
    assert (B1 : idec_br d1 = rd_br r).
    { destruct mon; [|inversion Ep; subst; exact B0].
      destruct (lha_decoder_monitor (id_block_size d0) (id_dec d0)) as [d' e] eqn:Em. inversion Ep; subst.
      unfold lha_decoder_monitor, check_progress in Em. inversion Em; subst. exact B0. }
    destruct (rd_curr r) as [ch|]; [|discriminate].
    destruct (h_os_type ch =? OS_TYPE_MACOS); [|inversion H; subst; apply reach_refl].
    bind_inv H as [ms w] Em. apply macbinary_init_reach in Em. unfold wreach in Em. cbn [mw_dec] in Em.
    rewrite B1 in Em. destruct ms; inversion H; subst; exact Em.
  Qed.

  Lemma lha_reader_read_reach r n o ev r' : lha_reader_read junk r n = Ok (o, ev, r') -> reach (rd_br r) (rd_br r').
  Proof.
    unfold lha_reader_read. intros H.
    destruct (rd_decoder r) eqn:Ed.
    - eapply decoder_read_reach; eauto.
    - bind_inv H as [[ok ev1] r1] E1. apply open_decoder_reach in E1.
      destruct ok; [|inversion H; subst; exact E1].
      bind_inv H as [[o2 ev2] r2] E2. apply decoder_read_reach in E2. inversion H; subst.
      eapply reach_trans; eauto.
  Qed.

  Lemma dd_step_reach out r f evs x : dd_step junk out (r, f, evs) = Ok x ->
    reach (rd_br r) (rd_br (match x with inl s => fst (fst s) | inr s => fst (fst s) end)).
  Proof.
    unfold dd_step. intros E. bind_inv E as [[o ev] r2] Er. apply lha_reader_read_reach in Er.
    destruct o; inversion E; subst; exact Er.
  Qed.

  Lemma do_decode_reach r f out ok evs r' f' : do_decode junk r f out = Ok (ok, evs, r', f') -> reach (rd_br r) (rd_br r').
  Proof.
    unfold do_decode. generalize 64%nat. intros k H. bind_inv H as [[r1 f1] ev1] El.
    assert (F : reach (rd_br r) (rd_br r1)).
    { apply (loop_inv _ (fun s => reach (rd_br r) (rd_br (fst (fst s)))) (fun s => reach (rd_br r) (rd_br (fst (fst s))))) in El;
        [exact El| | |apply reach_refl].
      - intros [[ra fa] ea] [[rb fb] eb] I E. apply dd_step_reach in E. cbn [fst] in *. eapply reach_trans; eauto.
      - intros [[ra fa] ea] [[rb fb] eb] I E. apply dd_step_reach in E. cbn [fst] in *. eapply reach_trans; eauto. }
    fin H; exact F.
  Qed.

  Lemma lha_reader_check_reach r mon ok ev r' : lha_reader_check junk r mon = Ok (ok, ev, r') -> reach (rd_br r) (rd_br r').
  Proof.
    unfold lha_reader_check. intros H.
    destruct (rd_type r);
      [inversion H; subst; apply reach_refl| |inversion H; subst; apply reach_refl
      |inversion H; subst; apply reach_refl|inversion H; subst; apply reach_refl].
    destruct (rd_curr r) as [h|]; [|discriminate].
    destruct (is_dir_method h); [inversion H; subst; apply reach_refl|].
    bind_inv H as [[ok1 ev1] r1] E1. apply open_decoder_reach in E1.
    destruct ok1; [|inversion H; subst; exact E1].
    bind_inv H as [[[res ev2] r2] f2] E2. apply do_decode_reach in E2. inversion H; subst.
    eapply reach_trans; eauto.
  Qed.

  (* a sequence of decode operations: reads of any sizes, checks *)
  Definition is_decode_op (o : op) : bool :=
    match o with OpRead _ | OpCheck _ => true | _ => false end.

  Lemma decode_ops_reach l : forallb is_decode_op l = true ->
    forall r f xs r' f', run_ops mktime junk (r, f) l = Ok (xs, (r', f')) ->
    dframe r r' /\ reach (rd_br r) (rd_br r') /\ f' = f.
  Proof.
    induction l as [|o l IH]; intros Hd r f xs r' f' H; cbn [run_ops] in H.
    - inversion H; subst. split; [apply dframe_refl|]. split; [apply reach_refl|reflexivity].
    - cbn [forallb] in Hd. apply andb_true_iff in Hd. destruct Hd as [Ho Hl].
      bind_inv H as [x [r1 f1]] E1. bind_inv H as [xs1 [r2 f2]] E2. inversion H; subst.
      destruct (IH Hl _ _ _ _ _ E2) as (F2 & R2 & ->).
      unfold run_op in E1. destruct o as [|n|mon|fn mon]; try discriminate.
      + bind_inv E1 as [[bs ev] r3] E. inversion E1; subst.
        split; [eapply dframe_trans; [eapply lha_reader_read_frame; eauto|exact F2]|].
        split; [eapply reach_trans; [eapply lha_reader_read_reach; eauto|exact R2]|reflexivity].
      + bind_inv E1 as [[b ev] r3] E. inversion E1; subst.
        split; [eapply dframe_trans; [eapply lha_reader_check_frame; eauto|exact F2]|].
        split; [eapply reach_trans; [eapply lha_reader_check_reach; eauto|exact R2]|reflexivity].
  Qed.
End Decode.

Lemma dframe_sym a b : dframe a b -> dframe b a.
Proof. intros (A1 & A2 & A3 & A4 & A5 & A6). repeat split; congruence. Qed.

Lemma dframe_close a b : dframe a b -> dframe (close_decoder a) (close_decoder b).
Proof. intros H. exact H. Qed.

Section NextAfterDecode.
  Variable mktime : N -> N -> N -> N -> Z -> N -> N.
  Variable junk : N.

  Ltac rleaf := cbn [orel]; unfold rnf_rel, reader_equiv; cbn [fst snd]; rdsimp;
    (split; [reflexivity|]); (split; [assumption|]); repeat split; reflexivity.

  (* the choice of the entry depends on the basic reader only through its current header *)
  Lemma nf_choose_equiv r1 r2 b1 b2 lk : dframe r1 r2 -> breader_equiv b1 b2 ->
    orel rnf_rel (nf_choose r1 b1 lk) (nf_choose r2 b2 lk).
  Proof.
    destruct r1 as [br1 c1 t1 d1 i1 p1 s1 df1 l1], r2 as [br2 c2 t2 d2 i2 p2 s2 df2 l2].
    unfold dframe. rdsimp. intros (-> & -> & -> & -> & -> & ->) Hb. pose proof Hb as (C & E & R).
    unfold nf_choose, end_of_top_dir. cbv zeta. rdsimp. rewrite C.
    apply orel_bind_same. intros pop. destruct pop.
    - destruct s1 as [|top rest]; rdsimp.
      + destruct c1; [rleaf|]. destruct df1; rleaf.
      + rleaf.
    - rdsimp. rewrite ?C. destruct (br_curr b2); [rleaf|]. destruct df1; rleaf.
  Qed.

  (* lha_reader_next_file respects the equivalence of readers *)
  Theorem lha_reader_next_file_equiv r1 r2 : reader_equiv r1 r2 ->
    br_wf (rd_br r1) -> br_wf (rd_br r2) ->
    orel rnf_rel (lha_reader_next_file mktime r1) (lha_reader_next_file mktime r2).
  Proof.
    intros (B & C & T & D & I & P & S & Df & L) W1 W2.
    assert (F : dframe (close_decoder r1) (close_decoder r2)) by (repeat split; rdsimp; congruence).
    rewrite !next_file_unfold. rewrite <- T.
    destruct (rd_type r1) eqn:T1.
    - eapply orel_bind; [apply next_file_equiv; eauto|].
      intros [h1 b1] [h2 b2] [Eh Eb]. cbn [fst snd] in Eh, Eb. cbv beta iota.
      apply nf_choose_equiv; assumption.
    - eapply orel_bind; [apply next_file_equiv; eauto|].
      intros [h1 b1] [h2 b2] [Eh Eb]. cbn [fst snd] in Eh, Eb. cbv beta iota.
      apply nf_choose_equiv; assumption.
    - rewrite <- L. apply nf_choose_equiv; assumption.
    - rewrite <- L. apply nf_choose_equiv; assumption.
    - cbn [orel]. unfold rnf_rel, reader_equiv. cbn [fst snd]. rdsimp.
      split; [reflexivity|]. split; [exact B|]. repeat split; auto; congruence.
  Qed.

  (* C, one member.  The current entry is a member of the archive; the caller
     reads from it (any number of reads of any sizes) and/or checks it; the next
     lha_reader_next_file returns the same header and an equivalent reader as if
     the caller had done nothing.  Hypothesis: decoders_use_callback_only. *)
  Theorem next_file_after_decode_ops_partial r f l xs r' f' :
    decoders_use_callback_only junk ->
    rd_type r = CT_NORMAL -> br_wf (rd_br r) ->
    forallb is_decode_op l = true ->
    run_ops mktime junk (r, f) l = Ok (xs, (r', f')) ->
    f' = f /\ orel rnf_rel (lha_reader_next_file mktime r') (lha_reader_next_file mktime r).
  Proof.
    intros Hdec T W Hl H.
    destruct (decode_ops_reach mktime junk Hdec l Hl _ _ _ _ _ H) as (F & [sizes Rb] & Ef).
    split; [exact Ef|].
    rewrite !next_file_unfold. destruct F as (F1 & F2 & F3 & F4 & F5 & F6). rewrite F2, T, Rb.
    eapply orel_bind; [apply next_file_after_reads; exact W|].
    intros [h1 b1] [h2 b2] [Eh Eb]. cbn [fst snd] in Eh, Eb. cbv beta iota.
    apply nf_choose_equiv; [|exact Eb]. repeat split; rdsimp; congruence.
  Qed.
End NextAfterDecode.

(* What is not proved of C:
   1. [decoders_use_callback_only] itself (see above).
   2. The lifting to whole operation sequences: two sequences with the same
      next / extract-directory / extract-symlink operations that differ in the
      decode operations (at most one per member) return the same list of headers.
      The ingredients are here -- [next_file_after_decode_ops_partial] absorbs the
      decode operations of one member, [lha_reader_next_file_equiv] carries the
      equivalence over the following next, extract_directory / extract_symlink do
      not look at the basic reader ([extract_directory_frame],
      [extract_symlink_frame]) -- but the induction over the two sequences is not
      done, nor the congruence of lha_reader_extract with respect to
      [reader_equiv] that it needs.
   3. "the bytes obtainable from each member do not depend ...": that the decoded
      bytes of equivalent basic readers are equal needs the relational
      (two-run) form of 1. for every decoder. *)

(* ------------------------------------------------------------------ *)
(* Non-vacuity                                                         *)

Definition ex_fs : fs := {| fs_root := Dir true 493 0 []; fs_cwd := []; fs_uid0 := false; fs_umask := 0; fs_trace := [] |}.

(* a level-0 header of the directory "d/" (method -lhd-) *)
Definition ex_dir_header : list N :=
  [24; 116; 45; 108; 104; 100; 45;  0; 0; 0; 0;  0; 0; 0; 0;  0; 0; 0; 0;  32; 0;  2; 100; 92;  0; 0].

Definition ex_reader (k : skind) (data : list N) : reader := lha_reader_new (lha_input_stream_new (mk_source k data)).

Definition entries (xs : list obs) : list (option (list N) * bool) :=
  concat (map (fun x => match x with ObsEntry h fake => [(option_map full_path h, fake)] | _ => [] end) xs).

Definition ex_dir_header2 : list N :=
  [24; 117; 45; 108; 104; 100; 45;  0; 0; 0; 0;  0; 0; 0; 0;  0; 0; 0; 0;  32; 0;  2; 101; 92;  0; 0].

Definition final_reader (x : outcome (list obs * (reader * fs))) (dflt : reader) : reader :=
  match x with Ok (_, (r, _)) => r | _ => dflt end.

(* D: the archive with one member; the second next reports the end, and then nothing moves *)
Definition ex_D_r1 : reader :=
  Eval vm_compute in final_reader (run_ops mktime_utc 0 (ex_reader KPipe ex_bytes, ex_fs) [OpNext]) (ex_reader KPipe []).
Definition ex_D_r2 : reader :=
  Eval vm_compute in final_reader (run_ops mktime_utc 0 (ex_reader KPipe ex_bytes, ex_fs) [OpNext; OpNext]) (ex_reader KPipe []).

Example ex_end_is_absorbing :
  match run_ops mktime_utc 0 (ex_reader KPipe ex_bytes, ex_fs) [OpNext; OpNext] with
  | Ok (xs, (r, f)) => entries xs = [(Some [97], false); (None, false)] /\ r = ex_D_r2
  | _ => False
  end /\
  lha_reader_next_file mktime_utc ex_D_r1 = Ok (None, ex_D_r2) /\
  lha_reader_next_file mktime_utc ex_D_r2 = Ok (None, ex_D_r2) /\
  lha_reader_read 0 ex_D_r2 10 = Ok ([], [], ex_D_r2) /\
  lha_reader_check 0 ex_D_r2 false = Ok (false, [], ex_D_r2) /\
  lha_reader_extract 0 ex_D_r2 ex_fs None false = Ok (false, [], ex_D_r2, ex_fs).
Proof.
  assert (N : lha_reader_next_file mktime_utc ex_D_r1 = Ok (None, ex_D_r2)) by (vm_compute; reflexivity).
  destruct (end_is_absorbing mktime_utc 0 _ _ N) as (A1 & A2 & A3 & A4 & _).
  split; [vm_compute; split; reflexivity|]. auto.
Qed.

(* E (i)/(ii): a directory then a file outside it.  Default policy: the
   extracted directory comes back as a fake entry before the file; plain policy:
   it does not, and the stack stays empty. *)
Example ex_dir_policies :
  let ops := [OpNext; OpExtract None false; OpNext; OpNext; OpNext] in
  let arch := ex_dir_header ++ ex_bytes in
  match run_ops mktime_utc 0 (ex_reader KFile arch, ex_fs) ops with
  | Ok (xs, _) => entries xs = [(Some [100; 47], false); (Some [100; 47], true); (Some [97], false); (None, false)]
  | _ => False
  end /\
  match run_ops mktime_utc 0 (lha_reader_set_dir_policy (ex_reader KFile arch) DIR_PLAIN, ex_fs) ops with
  | Ok (xs, (r, _)) =>
    entries xs = [(Some [100; 47], false); (Some [97], false); (None, false); (None, false)] /\
    rd_dir_stack r = [] /\ rd_type r = CT_EOF
  | _ => False
  end.
Proof. vm_compute. repeat split; reflexivity. Qed.

(* E (ii): two directories extracted under DIR_END_OF_FILE wait for the end of
   the archive; the next call finds the end and presents the second one; the
   hypotheses of [drain] hold there, and the first one and "no entry" follow. *)
Definition ex_drain_r : reader :=
  Eval vm_compute in
    final_reader (run_ops mktime_utc 0
                    (lha_reader_set_dir_policy (ex_reader KFile (ex_dir_header ++ ex_dir_header2)) DIR_END_OF_FILE, ex_fs)
                    [OpNext; OpExtract None false; OpNext; OpExtract None false; OpNext]) (ex_reader KFile []).

Example ex_drain :
  match run_ops mktime_utc 0
          (lha_reader_set_dir_policy (ex_reader KFile (ex_dir_header ++ ex_dir_header2)) DIR_END_OF_FILE, ex_fs)
          [OpNext; OpExtract None false; OpNext; OpExtract None false; OpNext] with
  | Ok (xs, (r, _)) =>
    entries xs = [(Some [100; 47], false); (Some [101; 47], false); (Some [101; 47], true)] /\ r = ex_drain_r
  | _ => False
  end /\
  br_at_end (rd_br ex_drain_r) /\ rd_type ex_drain_r = CT_FAKE_DIR /\
  length (rd_dir_stack ex_drain_r) = 1%nat /\ rd_deferred ex_drain_r = [] /\
  exists r', nexts mktime_utc 2 ex_drain_r =
             Ok (map (fun h => (Some h, CT_FAKE_DIR)) (rd_dir_stack ex_drain_r) ++ [(None, CT_EOF)], r').
Proof.
  split; [vm_compute; split; reflexivity|].
  assert (A : br_at_end (rd_br ex_drain_r)) by (split; reflexivity).
  split; [exact A|]. split; [reflexivity|]. split; [reflexivity|]. split; [reflexivity|].
  destruct (drain mktime_utc (rd_dir_stack ex_drain_r) ex_drain_r A) as [r' E]; [discriminate|reflexivity|].
  exists r'. exact E.
Qed.

(* E (iii): insertion keeps the longest path first *)
Example ex_insert_deferred :
  let hn (n : nat) := set_filename (header0 []) (Some (repeat 97 n)) in
  insert_deferred (insert_deferred (insert_deferred [] (hn 1%nat)) (hn 3%nat)) (hn 2%nat)
    = [hn 3%nat; hn 2%nat; hn 1%nat] /\
  desc_len (insert_deferred (insert_deferred (insert_deferred [] (hn 1%nat)) (hn 3%nat)) (hn 2%nat)).
Proof.
  cbv zeta. split; [vm_compute; reflexivity|].
  apply insert_deferred_sorted. apply insert_deferred_sorted. apply insert_deferred_sorted. apply SSorted_nil.
Qed.

(* F: two readers on two archives, interleaved *)
Example ex_two_readers :
  let sa := (ex_reader KFile ex_bytes, ex_fs) in
  let sb := (ex_reader KPipe (ex_dir_header ++ ex_bytes), ex_fs) in
  let l := [(RA, OpNext); (RB, OpNext); (RB, OpExtract None false); (RA, OpRead 4); (RB, OpNext); (RA, OpNext)] in
  match run_two mktime_utc 0 sa sb l with
  | Ok (xs, (sa', sb')) =>
    run_ops mktime_utc 0 sa [OpNext; OpRead 4; OpNext] = Ok (proj true xs, sa') /\
    run_ops mktime_utc 0 sb [OpNext; OpExtract None false; OpNext] = Ok (proj false xs, sb') /\
    entries (proj false xs) = [(Some [100; 47], false); (Some [100; 47], true)]
  | _ => False
  end.
Proof.
  cbv zeta.
  match goal with |- match ?x with _ => _ end => destruct x as [[xs [sa' sb']]| |] eqn:E; try (vm_compute in E; discriminate) end.
  destruct (two_readers_independent mktime_utc 0 _ _ _ _ _ _ E) as [Ha Hb].
  split; [exact Ha|]. split; [exact Hb|]. vm_compute in E. inversion E; subst. vm_compute. reflexivity.
Qed.

(* C: the instance "read 2 bytes of the first member, then next" against "next"
   computed directly for the four kinds of source (the theorem's hypothesis
   about the decoders is not available here) *)
Example ex_next_after_read :
  forall k,
  match run_ops mktime_utc 0 (ex_reader k ex_archive, ex_fs) [OpNext; OpRead 2; OpNext],
        run_ops mktime_utc 0 (ex_reader k ex_archive, ex_fs) [OpNext; OpNext] with
  | Ok (xs1, (r1, _)), Ok (xs2, (r2, _)) =>
    entries xs1 = entries xs2 /\ entries xs2 = [(Some [97], false); (Some [97], false)] /\
    rd_curr r1 = rd_curr r2 /\ remaining (br_stream (rd_br r1)) = remaining (br_stream (rd_br r2))
  | _, _ => False
  end.
Proof. intros k. destruct k; vm_compute; repeat split; reflexivity. Qed.

Print Assumptions end_is_absorbing.
Print Assumptions plain_policy_no_fake_dirs.
Print Assumptions drain.
Print Assumptions deferred_only_after_everything.
Print Assumptions fake_dir_is_top_of_stack.
Print Assumptions insert_deferred_perm.
Print Assumptions insert_deferred_sorted.
Print Assumptions deferred_list_sorted.
Print Assumptions two_readers_independent.
Print Assumptions two_readers_commute.
Print Assumptions lha_reader_next_file_equiv.
Print Assumptions next_file_after_decode_ops_partial.
Print Assumptions lha_reader_extract_frame.
Print Assumptions ex_end_is_absorbing.
Print Assumptions ex_dir_policies.
Print Assumptions ex_drain.
Print Assumptions ex_insert_deferred.
Print Assumptions ex_two_readers.
Print Assumptions ex_next_after_read.

(* P_ReaderBytes.v -- property C15: the bytes obtainable from a member do not
   depend on what was done with other members.

   Two histories that reach a member with [reader_equiv] readers (P_ReaderTwoHist:
   that is what lha_reader_next_file returns in both) get from lha_reader_read,
   for every schedule of read sizes, the same bytes (and the same progress
   events), and from lha_reader_check the same verdict; the readers stay related,
   so the same holds for whatever is read next.

   The step from the basic reader to the decoders is the binary parametricity of
   the decoder models in the callback state (P_AnyParam2.any_read_rel):
   lha_basic_reader_read_compressed answers equivalent basic readers with the same
   bytes and equivalent basic readers, hence so does every decoder.

   Lemmas and theorems only. *)
From Lhasa Require Import Base DecBase ListN Loop Generated Crc16 InputStream Header BasicReader AnyDecoder Decoder
  MacBinary Fs FsRun Reader P_Intact P_StreamEquiv P_BasicReaderIndep P_ReaderIndep P_AnyParam2.
From Coq Require Import ZifyBool ZifyN ZifyNat.
Local Open Scope N_scope.

Ltac rsolve := repeat first [assumption | reflexivity | split].
Ltac rfin tac := rsolve; try (tac; rsolve).

(* ------------------------------------------------------------------ *)
(* The callback                                                        *)

Lemma read_compressed_equiv b1 b2 n : breader_equiv b1 b2 ->
  fst (lha_basic_reader_read_compressed b1 n) = fst (lha_basic_reader_read_compressed b2 n) /\
  breader_equiv (snd (lha_basic_reader_read_compressed b1 n)) (snd (lha_basic_reader_read_compressed b2 n)).
Proof.
  intros B. pose proof B as (C & E & R). unfold lha_basic_reader_read_compressed. rewrite <- E.
  destruct (br_eof b1) eqn:Ee; cbn [orb]; [split; [reflexivity|exact B]|].
  destruct (R eq_refl) as [S Rr]. rewrite <- Rr.
  destruct (br_remaining b1 =? 0); [split; [reflexivity|exact B]|].
  set (bytes := if br_remaining b1 <? n then br_remaining b1 else n).
  pose proof S as (_ & St & _). rewrite <- St.
  pose proof (read_ready_equiv _ _ bytes S) as [F1 F2].
  assert (G : forall res1 st1 res2 st2, read_ready (br_stream b1) bytes = (res1, st1) ->
            read_ready (br_stream b2) bytes = (res2, st2) ->
            fst (match res1 with
                 | None => ([], {| br_stream := st1; br_curr := br_curr b1; br_remaining := br_remaining b1; br_eof := true |})
                 | Some bs => (bs, {| br_stream := st1; br_curr := br_curr b1; br_remaining := br_remaining b1 - bytes;
                                      br_eof := false |}) end) =
            fst (match res2 with
                 | None => ([], {| br_stream := st2; br_curr := br_curr b2; br_remaining := br_remaining b1; br_eof := true |})
                 | Some bs => (bs, {| br_stream := st2; br_curr := br_curr b2; br_remaining := br_remaining b1 - bytes;
                                      br_eof := false |}) end) /\
            breader_equiv
              (snd (match res1 with
                 | None => ([], {| br_stream := st1; br_curr := br_curr b1; br_remaining := br_remaining b1; br_eof := true |})
                 | Some bs => (bs, {| br_stream := st1; br_curr := br_curr b1; br_remaining := br_remaining b1 - bytes;
                                      br_eof := false |}) end))
              (snd (match res2 with
                 | None => ([], {| br_stream := st2; br_curr := br_curr b2; br_remaining := br_remaining b1; br_eof := true |})
                 | Some bs => (bs, {| br_stream := st2; br_curr := br_curr b2; br_remaining := br_remaining b1 - bytes;
                                      br_eof := false |}) end))).
  { intros res1 st1 res2 st2 E1 E2. rewrite E1, E2 in F1, F2. cbn [fst snd] in F1, F2. subst res2.
    destruct res1; cbn [fst snd]; (split; [reflexivity|]); unfold breader_equiv; cbn [br_curr br_eof br_stream br_remaining];
      (split; [exact C|]); (split; [reflexivity|]); intros H; try discriminate. split; [exact F2|reflexivity]. }
  destruct (is_state (br_stream b1)).
  - split; [reflexivity|exact B].
  - destruct (read_ready (br_stream b1) bytes) as [res1 st1] eqn:E1, (read_ready (br_stream b2) bytes) as [res2 st2] eqn:E2.
    apply (G _ _ _ _ eq_refl eq_refl).
  - destruct (read_ready (br_stream b1) bytes) as [res1 st1] eqn:E1, (read_ready (br_stream b2) bytes) as [res2 st2] eqn:E2.
    apply (G _ _ _ _ eq_refl eq_refl).
Qed.

(* ------------------------------------------------------------------ *)
(* lha_decoder_read over related callback states                       *)

Section DecoderRel.
  Context {cbs st : Type}.
  Variable Rc : cbs -> cbs -> Prop.
  Variable dread : st -> cbs -> outcome (list N * st * cbs).
  Definition dread_res_rel (x y : list N * st * cbs) : Prop :=
    fst (fst x) = fst (fst y) /\ snd (fst x) = snd (fst y) /\ Rc (snd x) (snd y).
  Hypothesis dread_rel : forall s c1 c2, Rc c1 c2 -> orel dread_res_rel (dread s c1) (dread s c2).

  (* the same decoder but for the callback state *)
  Definition drel (d1 d2 : @decoder cbs st) : Prop :=
    d_inner d1 = d_inner d2 /\ Rc (d_cb d1) (d_cb d2) /\ d_outbuf d1 = d_outbuf d2 /\
    d_stream_pos d1 = d_stream_pos d2 /\ d_stream_length d1 = d_stream_length d2 /\
    d_failed d1 = d_failed d2 /\ d_crc d1 = d_crc d2 /\ d_monitor d1 = d_monitor d2 /\
    d_last_block d1 = d_last_block d2 /\ d_total_blocks d1 = d_total_blocks d2.

  Definition rl_rel (s t : @rl cbs st) : Prop :=
    drel (rl_d s) (rl_d t) /\ rl_out_rev s = rl_out_rev t /\ rl_filled s = rl_filled t.

  Lemma read_step_rel mr n s t : rl_rel s t ->
    orel (sum_rel rl_rel rl_rel) (read_step dread mr n s) (read_step dread mr n t).
  Proof.
    intros (D & O & F). pose proof D as (Di & Dc & Do & Dp & Dl & Df & Dr & Dm & Db & Dt).
    unfold read_step. rewrite <- F. destruct (rl_filled s <? n).
    2:{ cbn [orel sum_rel]. split; [exact D|]. split; assumption. }
    cbv zeta. rewrite <- Df, <- Do, <- O, <- Di.
    destruct (d_failed (rl_d s)).
    { cbn [orel sum_rel]. unfold rl_rel, drel, set_buf. cbn [rl_d rl_out_rev rl_filled d_inner d_cb d_outbuf
        d_stream_pos d_stream_length d_failed d_crc d_monitor d_last_block d_total_blocks]. rsolve. }
    destruct (skipn_N (n - rl_filled s) (d_outbuf (rl_d s))) as [|y ys].
    2:{ cbn [orel sum_rel]. unfold rl_rel, drel, set_buf. cbn [rl_d rl_out_rev rl_filled d_inner d_cb d_outbuf
          d_stream_pos d_stream_length d_failed d_crc d_monitor d_last_block d_total_blocks]. rsolve. }
    eapply orel_bind; [apply dread_rel; exact Dc|].
    intros [[c1 i1] cb1] [[c2 i2] cb2] (E1 & E2 & E3). cbn [fst snd] in E1, E2, E3. subst c2 i2.
    destruct (mr <? nlen c1); [cbn [orel]; reflexivity|].
    destruct c1; cbn [orel sum_rel]; unfold rl_rel, drel, set_buf; cbn [rl_d rl_out_rev rl_filled d_inner d_cb d_outbuf
        d_stream_pos d_stream_length d_failed d_crc d_monitor d_last_block d_total_blocks]; rsolve.
  Qed.

  Definition dec_res_rel (x y : list N * list (N * N) * @decoder cbs st) : Prop :=
    fst (fst x) = fst (fst y) /\ snd (fst x) = snd (fst y) /\ drel (snd x) (snd y).

  Lemma lha_decoder_read_rel mr bs d1 d2 n : drel d1 d2 ->
    orel dec_res_rel (lha_decoder_read dread mr bs d1 n) (lha_decoder_read dread mr bs d2 n).
  Proof.
    intros D. pose proof D as (Di & Dc & Do & Dp & Dl & Df & Dr & Dm & Db & Dt).
    unfold lha_decoder_read. rewrite <- Dl, <- Dp. cbv zeta.
    eapply orel_bind.
    - apply (orel_loop _ _ rl_rel rl_rel (read_step_rel mr _)). split; [exact D|]. split; reflexivity.
    - intros s t (D' & O & F). pose proof D' as (Ei & Ec & Eo & Ep & El & Ef & Er & Em & Eb & Et).
      cbn [d_monitor]. rewrite <- Em, <- O, <- F, <- Er, <- Ep, <- Eb, <- Et.
      destruct (d_monitor (rl_d s)); cbn [orel]; unfold dec_res_rel, check_progress, drel;
        cbn [fst snd d_inner d_cb d_outbuf d_stream_pos d_stream_length d_failed d_crc d_monitor d_last_block d_total_blocks];
        rsolve.
  Qed.
End DecoderRel.

Section ReaderRel.
  Variable junk : N.

  (* ---------------------------------------------------------------- *)
  (* Inner decoders                                                    *)

  Definition irel (a b : idec) : Prop :=
    id_max_read a = id_max_read b /\ id_block_size a = id_block_size b /\
    drel breader_equiv (id_dec a) (id_dec b).

  Lemma any_read_dread_rel s c1 c2 : breader_equiv c1 c2 ->
    orel (dread_res_rel breader_equiv) (any_read decoder_callback junk s c1) (any_read decoder_callback junk s c2).
  Proof.
    intros B.
    pose proof (any_read_rel breader breader decoder_callback decoder_callback breader_equiv
                  (fun a b n H => read_compressed_equiv a b n H) junk s c1 c2 B) as H.
    destruct (any_read decoder_callback junk s c1) as [[[o1 s1] d1]| |];
      destruct (any_read decoder_callback junk s c2) as [[[o2 s2] d2]| |]; cbn [orel]; try contradiction; auto.
  Qed.

  Definition ires_rel (x y : list N * list (N * N) * idec) : Prop :=
    fst (fst x) = fst (fst y) /\ snd (fst x) = snd (fst y) /\ irel (snd x) (snd y).

  Lemma inner_read_rel a b n : irel a b -> orel ires_rel (inner_read junk a n) (inner_read junk b n).
  Proof.
    intros (M & Bs & D). unfold inner_read. rewrite <- M, <- Bs.
    eapply orel_bind; [apply (lha_decoder_read_rel breader_equiv _ any_read_dread_rel); exact D|].
    intros [[o1 e1] d1] [[o2 e2] d2] (E1 & E2 & E3). cbn [fst snd] in *. subst.
    cbn [orel]. unfold ires_rel, irel, with_dec. cbn [fst snd id_max_read id_block_size id_dec]. rsolve.
  Qed.

  Lemma load_br_irel a b x y : irel a b -> breader_equiv x y -> irel (load_br a x) (load_br b y).
  Proof.
    intros (M & Bs & D) B. destruct D as (Di & Dc & Rest).
    unfold irel, load_br, set_cb, drel. cbn [id_max_read id_block_size id_dec d_inner d_cb d_outbuf
      d_stream_pos d_stream_length d_failed d_crc d_monitor d_last_block d_total_blocks]. rsolve; apply Rest.
  Qed.

  Lemma irel_br a b : irel a b -> breader_equiv (idec_br a) (idec_br b).
  Proof. intros (_ & _ & (_ & C & _)). exact C. Qed.

  (* ---------------------------------------------------------------- *)
  (* The MacBinary pass-through                                        *)

  Definition wrel (w1 w2 : mb_world) : Prop := irel (mw_dec w1) (mw_dec w2) /\ mw_ev w1 = mw_ev w2.

  Lemma rmh_step_rel s t : wrel (fst s) (fst t) -> snd s = snd t ->
    orel (sum_rel (fun a b => wrel (fst a) (fst b) /\ snd a = snd b)
                  (fun a b => fst (fst a) = fst (fst b) /\ wrel (snd (fst a)) (snd (fst b)) /\ snd a = snd b))
         (rmh_step junk s) (rmh_step junk t).
  Proof.
    destruct s as [w1 g1], t as [w2 g2]. cbn [fst snd]. intros (I & Ev) <-. unfold rmh_step.
    destruct (nlen g1 <? mb_MBHDR_SIZE); [|cbn [orel sum_rel fst snd]; unfold wrel; rsolve].
    eapply orel_bind; [apply inner_read_rel; exact I|].
    intros [[o1 e1] d1] [[o2 e2] d2] (E1 & E2 & E3). cbn [fst snd] in *. subst. rewrite <- Ev.
    destruct o2; cbn [orel sum_rel fst snd]; unfold wrel; cbn [mw_dec mw_ev]; rsolve.
  Qed.

  Lemma macbinary_init_rel w1 w2 h : wrel w1 w2 ->
    orel (fun x y => fst x = fst y /\ wrel (snd x) (snd y)) (macbinary_init junk w1 h) (macbinary_init junk w2 h).
  Proof.
    intros W. unfold macbinary_init. cbv zeta.
    destruct (h_length h <? mb_MBHDR_SIZE); [cbn [orel fst snd]; split; [reflexivity|exact W]|].
    eapply orel_bind.
    - apply (orel_loop (rmh_step junk) (rmh_step junk)
               (fun a b => wrel (fst a) (fst b) /\ snd a = snd b)
               (fun a b => fst (fst a) = fst (fst b) /\ wrel (snd (fst a)) (snd (fst b)) /\ snd a = snd b)).
      + intros s t [A B]. apply rmh_step_rel; assumption.
      + cbn [fst snd]. split; [exact W|reflexivity].
    - intros [[ok1 wa] ga] [[ok2 wb] gb] (E1 & E2 & E3). cbn [fst snd] in *. subst.
      destruct (negb ok2); [cbn [orel fst snd]; split; [reflexivity|exact E2]|].
      destruct (mb_header_extent <? nlen gb); [cbn [orel]; reflexivity|].
      apply orel_bind_same. intros is_mb.
      destruct (negb is_mb); [cbn [orel fst snd]; split; [reflexivity|exact E2]|].
      apply orel_bind_same. intros dfl. apply orel_bind_same. intros rfl.
      cbn [orel fst snd]. split; [reflexivity|exact E2].
  Qed.

  Lemma dte_step_rel w1 w2 : wrel w1 w2 -> orel (sum_rel wrel wrel) (dte_step junk w1) (dte_step junk w2).
  Proof.
    intros (I & Ev). unfold dte_step.
    eapply orel_bind; [apply inner_read_rel; exact I|].
    intros [[o1 e1] d1] [[o2 e2] d2] (E1 & E2 & E3). cbn [fst snd] in *. subst. rewrite <- Ev.
    destruct o2; cbn [orel sum_rel]; unfold wrel; cbn [mw_dec mw_ev]; rsolve.
  Qed.

  Lemma macbinary_read_rel s w1 w2 : wrel w1 w2 ->
    orel (dread_res_rel wrel) (macbinary_read junk s w1) (macbinary_read junk s w2).
  Proof.
    intros (I & Ev). unfold macbinary_read. cbv zeta.
    match goal with |- orel _ (if ?c then _ else _) _ => destruct c end; [cbn [orel]; reflexivity|].
    eapply orel_bind; [apply inner_read_rel; exact I|].
    intros [[o1 e1] d1] [[o2 e2] d2] (E1 & E2 & E3). cbn [fst snd] in *. subst. rewrite <- Ev.
    match goal with |- orel _ (if ?c then _ else _) _ => destruct c end.
    - eapply orel_bind.
      + apply (orel_loop (dte_step junk) (dte_step junk) wrel wrel dte_step_rel). split; [exact E3|reflexivity].
      + intros wa wb Wab. cbn [orel]. unfold dread_res_rel. cbn [fst snd]. rsolve.
    - cbn [orel]. unfold dread_res_rel, wrel. cbn [fst snd mw_dec mw_ev]. rsolve.
  Qed.

  (* ---------------------------------------------------------------- *)
  (* Readers                                                           *)

  Definition dec_rel (a b : option dec_obj) : Prop :=
    match a, b with
    | None, None => True
    | Some (DO_plain d1), Some (DO_plain d2) => irel d1 d2
    | Some (DO_mac o1), Some (DO_mac o2) => drel wrel o1 o2
    | _, _ => False
    end.
  Definition inner_rel (a b : inner_ref) : Prop :=
    match a, b with
    | IR_null, IR_null => True
    | IR_same, IR_same => True
    | IR_own d1, IR_own d2 => irel d1 d2
    | _, _ => False
    end.

  (* the same reader but for what legitimately differs in the basic reader *)
  Definition rrel (r1 r2 : reader) : Prop :=
    dframe r1 r2 /\ breader_equiv (rd_br r1) (rd_br r2) /\
    dec_rel (rd_decoder r1) (rd_decoder r2) /\ inner_rel (rd_inner r1) (rd_inner r2).

  Lemma irel_refl d : irel d d.
  Proof. unfold irel, drel. rsolve. Qed.

  Lemma reader_equiv_rrel r1 r2 : reader_equiv r1 r2 -> rd_decoder r1 = None -> rd_inner r1 = IR_null -> rrel r1 r2.
  Proof.
    intros (B & C & T & D & I & P & S & Df & L) Dn In. unfold rrel, dframe. rewrite <- D, <- I, Dn, In.
    cbn [dec_rel inner_rel]. rsolve; congruence.
  Qed.

  Definition rres_rel {A} (x y : A * list (N * N) * reader) : Prop :=
    fst (fst x) = fst (fst y) /\ snd (fst x) = snd (fst y) /\ rrel (snd x) (snd y).

  Lemma basic_decode_rel b1 b2 : breader_equiv b1 b2 ->
    orel (fun x y => match x, y with Some a, Some b => irel a b | None, None => True | _, _ => False end)
         (lha_basic_reader_decode b1) (lha_basic_reader_decode b2).
  Proof.
    intros B. pose proof B as (C & _). unfold lha_basic_reader_decode. rewrite <- C.
    destruct (br_curr b1) as [h|]; [|cbn [orel]; exact I].
    destruct (lha_decoder_for_name (cstr (h_method h))) as [dt|]; [|cbn [orel]; exact I].
    apply orel_bind_same. intros s0. cbn [orel]. unfold irel, drel, lha_decoder_new.
    cbn [id_max_read id_block_size id_dec d_inner d_cb d_outbuf
      d_stream_pos d_stream_length d_failed d_crc d_monitor d_last_block d_total_blocks]. rsolve.
  Qed.

  Lemma rrel_set r1 r2 b1 b2 d1 d2 i1 i2 : rrel r1 r2 -> breader_equiv b1 b2 -> dec_rel d1 d2 -> inner_rel i1 i2 ->
    rrel (set_decoders r1 b1 d1 i1) (set_decoders r2 b2 d2 i2).
  Proof. intros (F & _) B D I. unfold rrel. rdsimp. split; [exact F|]. rsolve. Qed.

  Lemma open_decoder_rel r1 r2 mon : rrel r1 r2 ->
    orel rres_rel (open_decoder junk r1 mon) (open_decoder junk r2 mon).
  Proof.
    intros R. pose proof R as (F & B & D & I). pose proof F as (Fc & Ft & Fp & Fs & Fd & Fl).
    unfold open_decoder. rewrite Ft.
    destruct (rd_type r1); try (cbn [orel]; unfold rres_rel; cbn [fst snd]; rsolve).
    eapply orel_bind; [apply basic_decode_rel; exact B|].
    intros [a|] [b|] Hab; try contradiction.
    2:{ cbn [orel]. unfold rres_rel. cbn [fst snd]. rsolve; try (apply rrel_set; rsolve). }
    assert (Hm : exists a1 b1 ev, (if mon then (let '(d', e) := lha_decoder_monitor (id_block_size a) (id_dec a) in (with_dec a d', e)) else (a, []))
                      = (a1, ev) /\
                   (if mon then (let '(d', e) := lha_decoder_monitor (id_block_size b) (id_dec b) in (with_dec b d', e)) else (b, []))
                      = (b1, ev) /\ irel a1 b1).
    { destruct Hab as (M & Bs & Dd). pose proof Dd as (Di & Dc & Do & Dp & Dl & Df & Dr & Dm & Db & Dt).
      destruct mon; [|exists a, b, []; rsolve].
      unfold lha_decoder_monitor, check_progress. cbn [d_stream_pos d_stream_length d_last_block d_total_blocks].
      rewrite <- Bs, <- Dp, <- Dl, <- Db.
      eexists _, _, _. split; [reflexivity|]. split; [reflexivity|].
      unfold irel, with_dec, drel. cbn [id_max_read id_block_size id_dec d_inner d_cb d_outbuf
        d_stream_pos d_stream_length d_failed d_crc d_monitor d_last_block d_total_blocks]. rsolve. }
    destruct Hm as (a1 & b1 & ev & Ea & Eb & Iab). rewrite Ea, Eb. rewrite Fc.
    destruct (rd_curr r1) as [ch|]; [|cbn [orel]; reflexivity].
    destruct (h_os_type ch =? OS_TYPE_MACOS).
    2:{ cbn [orel]. unfold rres_rel. cbn [fst snd]. rsolve; try (apply rrel_set; rsolve). }
    eapply orel_bind.
    { apply (macbinary_init_rel {| mw_dec := a1; mw_ev := [] |} {| mw_dec := b1; mw_ev := [] |} ch).
      split; [exact Iab|reflexivity]. }
    intros [ms1 w1] [ms2 w2] (E1 & W). cbn [fst snd] in E1, W. subst ms2. pose proof W as (Iw & Evw). rewrite <- Evw.
    pose proof (irel_br _ _ Iw) as Bw.
    destruct ms1 as [m|]; cbn [orel]; unfold rres_rel; cbn [fst snd]; rsolve; try (apply rrel_set; rsolve);
      cbn [dec_rel]; unfold drel, lha_decoder_new, wrel; cbn [d_inner d_cb d_outbuf
      d_stream_pos d_stream_length d_failed d_crc d_monitor d_last_block d_total_blocks mw_dec mw_ev]; rsolve.
  Qed.

  Lemma decoder_read_rel r1 r2 n : rrel r1 r2 ->
    orel rres_rel (decoder_read junk r1 n) (decoder_read junk r2 n).
  Proof.
    intros R. pose proof R as (F & B & D & I). unfold decoder_read.
    destruct (rd_decoder r1) as [[d1|o1]|], (rd_decoder r2) as [[d2|o2]|]; cbn [dec_rel] in D; try contradiction.
    - eapply orel_bind; [apply inner_read_rel; apply load_br_irel; eauto|].
      intros [[oa ea] da] [[ob eb] db] (E1 & E2 & E3). cbn [fst snd] in *. subst.
      pose proof (irel_br _ _ E3) as Bw.
      cbn [orel]. unfold rres_rel. cbn [fst snd]. rsolve; try (apply rrel_set; rsolve).
    - cbv zeta. pose proof D as (Di & Dc & Rest). destruct Dc as [Iw _].
      eapply orel_bind.
      { apply (lha_decoder_read_rel wrel _ macbinary_read_rel).
        unfold drel, set_world. cbn [d_inner d_cb d_outbuf d_stream_pos d_stream_length d_failed d_crc d_monitor
          d_last_block d_total_blocks]. split; [exact Di|]. split; [|exact Rest].
        split; [|reflexivity]. cbn [mw_dec]. apply load_br_irel; assumption. }
      intros [[oa ea] da] [[ob eb] db] (E1 & E2 & E3). cbn [fst snd] in *. subst.
      pose proof E3 as (_ & (Iw' & Ev') & _). rewrite <- Ev'.
      pose proof (irel_br _ _ Iw') as Bw.
      cbn [orel]. unfold rres_rel. cbn [fst snd]. rsolve; try (apply rrel_set; rsolve).
    - cbn [orel]. reflexivity.
  Qed.

  Theorem lha_reader_read_rel r1 r2 n : rrel r1 r2 ->
    orel rres_rel (lha_reader_read junk r1 n) (lha_reader_read junk r2 n).
  Proof.
    intros R. pose proof R as (F & B & D & I). unfold lha_reader_read.
    destruct (rd_decoder r1) as [x|] eqn:D1, (rd_decoder r2) as [y|] eqn:D2; cbn [dec_rel] in D;
      try (destruct x; contradiction); try contradiction.
    - pose proof (decoder_read_rel r1 r2 n R) as O. exact O.
    - eapply orel_bind; [apply open_decoder_rel; exact R|].
      intros [[ok1 e1] ra] [[ok2 e2] rb] (E1 & E2 & E3). cbn [fst snd] in *. subst.
      destruct ok2.
      + eapply orel_bind; [apply decoder_read_rel; exact E3|].
        intros [[oa ea] rc] [[ob eb] rd] (G1 & G2 & G3). cbn [fst snd] in *. subst.
        cbn [orel]. unfold rres_rel. cbn [fst snd]. rsolve.
      + cbn [orel]. unfold rres_rel. cbn [fst snd]. rsolve.
  Qed.

  (* ---------------------------------------------------------------- *)
  (* Any schedule of reads                                             *)

  Fixpoint reads (r : reader) (sizes : list N) : outcome (list (list N) * reader) :=
    match sizes with
    | [] => Ok ([], r)
    | n :: rest => '(bs, _, r1) <- lha_reader_read junk r n ;;
                   '(l, r2) <- reads r1 rest ;; Ok (bs :: l, r2)
    end.

  Theorem reads_rel sizes : forall r1 r2, rrel r1 r2 ->
    orel (fun x y => fst x = fst y /\ rrel (snd x) (snd y)) (reads r1 sizes) (reads r2 sizes).
  Proof.
    induction sizes as [|n l IH]; intros r1 r2 R; cbn [reads].
    - cbn [orel fst snd]. split; [reflexivity|exact R].
    - eapply orel_bind; [apply lha_reader_read_rel; exact R|].
      intros [[b1 e1] ra] [[b2 e2] rb] (E1 & E2 & E3). cbn [fst snd] in *. subst.
      eapply orel_bind; [apply IH; exact E3|].
      intros [la rc] [lb rd] (G1 & G2). cbn [fst snd] in *. subst.
      cbn [orel fst snd]. split; [reflexivity|exact G2].
  Qed.

  (* ---------------------------------------------------------------- *)
  (* lha_reader_check                                                  *)

  Definition dd_rel (s t : reader * fs * list (N * N)) : Prop :=
    rrel (fst (fst s)) (fst (fst t)) /\ snd (fst s) = snd (fst t) /\ snd s = snd t.

  Lemma dd_step_rel out s t : dd_rel s t -> orel (sum_rel dd_rel dd_rel) (dd_step junk out s) (dd_step junk out t).
  Proof.
    destruct s as [[r1 f1] e1], t as [[r2 f2] e2]. unfold dd_rel. cbn [fst snd]. intros (R & <- & <-).
    unfold dd_step.
    eapply orel_bind; [apply lha_reader_read_rel; exact R|].
    intros [[oa ea] ra] [[ob eb] rb] (E1 & E2 & E3). cbn [fst snd] in *. subst.
    destruct ob; cbn [orel sum_rel]; unfold dd_rel; cbn [fst snd]; rsolve.
  Qed.

  Lemma inner_len_crc_rel r1 r2 : rrel r1 r2 -> inner_len_crc r1 = inner_len_crc r2.
  Proof.
    intros (F & B & D & I). unfold inner_len_crc.
    destruct (rd_inner r1) as [| |i1], (rd_inner r2) as [| |i2]; cbn [inner_rel] in I; try contradiction; try reflexivity.
    - destruct (rd_decoder r1) as [[d1|o1]|], (rd_decoder r2) as [[d2|o2]|]; cbn [dec_rel] in D; try contradiction;
        try reflexivity.
      + destruct D as (_ & _ & (_ & _ & _ & P & _ & _ & C & _)).
        unfold lha_decoder_get_length, lha_decoder_get_crc. rewrite P, C. reflexivity.
      + destruct D as (_ & ((_ & _ & (_ & _ & _ & P & _ & _ & C & _)) & _) & _).
        unfold lha_decoder_get_length, lha_decoder_get_crc. rewrite P, C. reflexivity.
    - destruct I as (_ & _ & (_ & _ & _ & P & _ & _ & C & _)).
      unfold lha_decoder_get_length, lha_decoder_get_crc. rewrite P, C. reflexivity.
  Qed.

  Definition ddres_rel (x y : bool * list (N * N) * reader * fs) : Prop :=
    fst (fst (fst x)) = fst (fst (fst y)) /\ snd (fst (fst x)) = snd (fst (fst y)) /\
    rrel (snd (fst x)) (snd (fst y)) /\ snd x = snd y.

  Lemma do_decode_rel r1 r2 f out : rrel r1 r2 ->
    orel ddres_rel (do_decode junk r1 f out) (do_decode junk r2 f out).
  Proof.
    intros R. unfold do_decode.
    eapply orel_bind.
    - apply (orel_loop (dd_step junk out) (dd_step junk out) dd_rel dd_rel (dd_step_rel out)).
      unfold dd_rel. cbn [fst snd]. rsolve.
    - intros [[ra fa] ea] [[rb fb] eb] (R' & Ef & Ee). cbn [fst snd] in *. subst.
      rewrite (inner_len_crc_rel _ _ R'). pose proof R' as ((Fc & _) & _). rewrite Fc.
      destruct (inner_len_crc rb) as [[len crc]|]; [|cbn [orel]; reflexivity].
      destruct (rd_curr ra); [|cbn [orel]; reflexivity].
      cbn [orel]. unfold ddres_rel. cbn [fst snd]. rsolve.
  Qed.

  Theorem lha_reader_check_rel r1 r2 mon : rrel r1 r2 ->
    orel rres_rel (lha_reader_check junk r1 mon) (lha_reader_check junk r2 mon).
  Proof.
    intros R. pose proof R as (F & B & D & I). pose proof F as (Fc & Ft & _).
    unfold lha_reader_check. rewrite Ft, Fc.
    destruct (rd_type r1); try (cbn [orel]; unfold rres_rel; cbn [fst snd]; rsolve).
    destruct (rd_curr r1) as [h|]; [|cbn [orel]; reflexivity].
    destruct (is_dir_method h); [cbn [orel]; unfold rres_rel; cbn [fst snd]; rsolve|].
    eapply orel_bind; [apply open_decoder_rel; exact R|].
    intros [[ok1 e1] ra] [[ok2 e2] rb] (E1 & E2 & E3). cbn [fst snd] in *. subst.
    destruct ok2; [|cbn [orel]; unfold rres_rel; cbn [fst snd]; rsolve].
    eapply orel_bind; [apply do_decode_rel; exact E3|].
    intros [[[v1 g1] rc] fc] [[[v2 g2] rd] fd] (G1 & G2 & G3 & G4). cbn [fst snd] in *. subst.
    cbn [orel]. unfold rres_rel. cbn [fst snd]. rsolve.
  Qed.

  (* ---------------------------------------------------------------- *)
  (* The statement in terms of reader_equiv                            *)

  (* Two histories have reached a member with equivalent readers (no decoder
     open: that is how lha_reader_next_file leaves them).  Whatever schedule of
     read sizes both callers use, they get the same bytes; and a check gives both
     the same verdict. *)
  Theorem member_bytes_independent r1 r2 sizes :
    reader_equiv r1 r2 -> rd_decoder r1 = None -> rd_inner r1 = IR_null ->
    orel (fun x y => fst x = fst y /\ rrel (snd x) (snd y)) (reads r1 sizes) (reads r2 sizes).
  Proof. intros E D I. apply reads_rel. apply reader_equiv_rrel; assumption. Qed.

  Theorem member_check_independent r1 r2 mon :
    reader_equiv r1 r2 -> rd_decoder r1 = None -> rd_inner r1 = IR_null ->
    orel rres_rel (lha_reader_check junk r1 mon) (lha_reader_check junk r2 mon).
  Proof. intros E D I. apply lha_reader_check_rel. apply reader_equiv_rrel; assumption. Qed.
End ReaderRel.

(* ------------------------------------------------------------------ *)
(* Non-vacuity: the third member reached by two different histories   *)

Definition ex_arch_b : list N := ex_archive ++ ex_member1 ++ [20; 21; 22; 23; 24].

Definition ex_rA : reader :=
  Eval vm_compute in
    final_reader (run_ops mktime_utc 0 (ex_reader KFile ex_arch_b, ex_fs) [OpNext; OpRead 2; OpNext; OpCheck false; OpNext])
                 (ex_reader KPipe []).
Definition ex_rB : reader :=
  Eval vm_compute in
    final_reader (run_ops mktime_utc 0 (ex_reader KFile ex_arch_b, ex_fs) [OpNext; OpNext; OpNext]) (ex_reader KPipe []).

Example ex_member_bytes :
  reader_equiv ex_rA ex_rB /\ ex_rA <> ex_rB /\ rd_decoder ex_rA = None /\ rd_inner ex_rA = IR_null /\
  match reads 0 ex_rA [2; 10; 1], reads 0 ex_rB [2; 10; 1] with
  | Ok (l1, _), Ok (l2, _) => l1 = [[20; 21]; [22; 23; 24]; []] /\ l2 = l1
  | _, _ => False
  end /\
  match lha_reader_check 0 ex_rA false, lha_reader_check 0 ex_rB false with
  | Ok (v1, _, _), Ok (v2, _, _) => v1 = v2
  | _, _ => False
  end.
Proof.
  split.
  { unfold reader_equiv, breader_equiv, stream_equiv, remaining. vm_compute.
    repeat split; intros; try reflexivity; try discriminate. }
  split.
  { intros H. apply (f_equal (fun r => so_reads (is_src (br_stream (rd_br r))))) in H. vm_compute in H. discriminate. }
  split; [reflexivity|]. split; [reflexivity|].
  split; vm_compute; repeat split; reflexivity.
Qed.

(* the theorems on this instance *)
Example ex_member_bytes_theorem : forall sizes,
  orel (fun x y => fst x = fst y /\ rrel (snd x) (snd y)) (reads 0 ex_rA sizes) (reads 0 ex_rB sizes) /\
  orel rres_rel (lha_reader_check 0 ex_rA true) (lha_reader_check 0 ex_rB true).
Proof.
  intros sizes.
  assert (E : reader_equiv ex_rA ex_rB).
  { unfold reader_equiv, breader_equiv, stream_equiv, remaining. vm_compute.
    repeat split; intros; try reflexivity; try discriminate. }
  split; [apply member_bytes_independent|apply member_check_independent]; auto.
Qed.

Print Assumptions read_compressed_equiv.
Print Assumptions lha_reader_read_rel.
Print Assumptions reads_rel.
Print Assumptions lha_reader_check_rel.
Print Assumptions member_bytes_independent.
Print Assumptions member_check_independent.
Print Assumptions ex_member_bytes.
Print Assumptions ex_member_bytes_theorem.

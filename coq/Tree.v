(* Tree.v -- model of lib/tree_decode.c.  The element type (uint16_t for the
   lh_new family, uint8_t for -pm2-) is the parameter [leaf] = TREE_NODE_LEAF;
   an element holds values below 2*leaf. *)
From Lhasa Require Import Base DecBase BitReader Loop.
Local Open Scope N_scope.

Section Tree.
  Variable leaf : N.                        (* TREE_NODE_LEAF: 32768 or 128 *)
  Definition elem (v : N) : N := N.land v (2 * leaf - 1).     (* (TreeElement) v *)
  Definition is_leaf (v : N) : bool := negb (N.land v leaf =? 0).

  (* init_tree(tree, tree_len): tree_len entries of the array are written *)
  Fixpoint init_tree_loop (n : nat) (t : arr) (i : N) : outcome arr :=
    match n with
    | O => Ok t
    | S k => t' <- wr 601 t i leaf ;; init_tree_loop k t' (i + 1)
    end.
  Definition init_tree (t : arr) (tree_len : N) : outcome arr :=
    init_tree_loop (N.to_nat tree_len) t 0.

  Definition set_tree_single (t : arr) (code : N) : outcome arr :=
    wr 602 t 0 (N.lor (elem code) leaf).

  Record bld := { b_tree : arr; b_len : N; b_allocated : N; b_next : N }.

  (* while (next_entry < end_offset) { tree[next_entry] = tree_allocated; tree_allocated += 2; ++next_entry; } *)
  Fixpoint expand_loop (n : nat) (b : bld) (end_offset : N) : outcome bld :=
    match n with
    | O => Ok b
    | S k =>
      if b_next b <? end_offset then
        t' <- wr 603 (b_tree b) (b_next b) (elem (b_allocated b)) ;;
        expand_loop k {| b_tree := t'; b_len := b_len b; b_allocated := b_allocated b + 2;
                         b_next := b_next b + 1 |} end_offset
      else Ok b
    end.

  Definition expand_queue (b : bld) : outcome bld :=
    let new_nodes := (b_allocated b - b_next b) * 2 in
    if b_len b <? b_allocated b + new_nodes then Ok b
    else expand_loop (N.to_nat (b_allocated b - b_next b)) b (b_allocated b).

  Definition read_next_entry (b : bld) : N * bld :=
    if b_allocated b <=? b_next b then (0, b)
    else (b_next b, {| b_tree := b_tree b; b_len := b_len b; b_allocated := b_allocated b;
                       b_next := b_next b + 1 |}).

  (* for (i = 0; i < num_code_lengths; ++i): [n] iterations left, i the index.
     code_lengths is an array of uint8_t of its own extent. *)
  Fixpoint add_codes_loop (n : nat) (b : bld) (code_lengths : arr) (i code_len : N) (remaining : bool)
    : outcome (bld * bool) :=
    match n with
    | O => Ok (b, remaining)
    | S k =>
      l <- rd 604 code_lengths i ;;
      if l =? code_len then
        let '(node, b1) := read_next_entry b in
        t' <- wr 605 (b_tree b1) node (N.lor (elem i) leaf) ;;
        add_codes_loop k {| b_tree := t'; b_len := b_len b1; b_allocated := b_allocated b1;
                            b_next := b_next b1 |} code_lengths (i + 1) code_len remaining
      else
        add_codes_loop k b code_lengths (i + 1) code_len (if code_len <? l then true else remaining)
    end.

  Definition add_codes_with_length (b : bld) (code_lengths : arr) (num code_len : N) : outcome (bld * bool) :=
    add_codes_loop (N.to_nat num) b code_lengths 0 code_len false.

  (* do { expand_queue; ++code_len; } while (add_codes_with_length(...));
     code lengths are uint8_t, so the loop body runs at most 256 times. *)
  Fixpoint build_loop (fuel : nat) (b : bld) (code_lengths : arr) (num code_len : N) : outcome bld :=
    match fuel with
    | O => OutOfFuel
    | S f =>
      b1 <- expand_queue b ;;
      let code_len := code_len + 1 in
      '(b2, more) <- add_codes_with_length b1 code_lengths num code_len ;;
      if more then build_loop f b2 code_lengths num code_len else Ok b2
    end.

  Definition build_tree (t : arr) (tree_len : N) (code_lengths : arr) (num : N) : outcome arr :=
    b <- build_loop 300 {| b_tree := t; b_len := tree_len; b_allocated := 1; b_next := 0 |}
                    code_lengths num 0 ;;
    Ok (b_tree b).

  Section Read.
    Context {cbs : Type}.
    Variable cb : callback cbs.

    (* while ((code & TREE_NODE_LEAF) == 0) { bit = read_bit; if (bit < 0) return -1; code = tree[code + bit]; } *)
    Definition tree_step (t : arr) (s : N * bsr * cbs) : outcome ((N * bsr * cbs) + (option N * bsr * cbs)) :=
      let '(code, r, c) := s in
      if is_leaf code then Ok (inr (Some (N.land code (leaf - 1)), r, c))
      else
        '(bit, r', c') <- read_bit cb r c ;;
        match bit with
        | None => Ok (inr (None, r', c'))
        | Some bv =>
          code' <- rd 607 t (code + bv) ;;
          Ok (inl (code', r', c'))
        end.

    Definition read_from_tree (t : arr) (r : bsr) (c : cbs) : outcome (option N * bsr * cbs) :=
      code <- rd 606 t 0 ;;
      loop (tree_step t) 20 (code, r, c).
  End Read.
End Tree.

(* Reader.v -- model of lib/lha_reader.c over the filesystem model.

   Pointers.  reader->reader (the LHABasicReader) is one object shared by the
   LHAReader and, as callback data, by every decoder created for the current
   file.  [rd_br] is that object.  A decoder value carries a copy ([d_cb]) that
   is only meaningful during a call: every use of a decoder stores [rd_br]
   into it first ([load_br]) and writes the copy back afterwards.

   reader->decoder and reader->inner_decoder are two pointers that usually
   name the same object (plain file), or the pass-through decoder and the
   decoder inside it (MacOS file); calling the API in unintended orders
   (check after read, extract twice, ...) re-opens decoders without closing
   the old ones and the two pointers then name unrelated objects.  [rd_decoder]
   is the object reader->decoder points to; [rd_inner] says what
   reader->inner_decoder points to relative to it. *)
From Lhasa Require Import Base DecBase Loop Generated InputStream Header BasicReader AnyDecoder Decoder
  MacBinary Fs FsRun.
Local Open Scope N_scope.

Inductive curr_type : Type := CT_START | CT_NORMAL | CT_FAKE_DIR | CT_DEFERRED_SYMLINK | CT_EOF.
Inductive dir_policy : Type := DIR_PLAIN | DIR_END_OF_DIR | DIR_END_OF_FILE.

Definition odec := @decoder mb_world mb_state.     (* the MacBinary pass-through decoder *)

(* the object reader->decoder points to *)
Inductive dec_obj : Type :=
| DO_plain (d : idec)
| DO_mac (o : odec).

(* reader->inner_decoder *)
Inductive inner_ref : Type :=
| IR_null
| IR_same                 (* == reader->decoder (plain), or the decoder inside the pass-through reader->decoder *)
| IR_own (d : idec).      (* a decoder that reader->decoder does not reach *)

Record reader := {
  rd_br : breader;                 (* *reader->reader *)
  rd_curr : option header;
  rd_type : curr_type;
  rd_decoder : option dec_obj;
  rd_inner : inner_ref;
  rd_policy : dir_policy;
  rd_dir_stack : list header;
  rd_deferred : list header;
  rd_linked : bool                 (* curr_file is a member of dir_stack / deferred_symlinks: its _next is in use *)
}.

(* the basic reader as the API user sees it *)
Definition reader_br (r : reader) : breader := rd_br r.

Definition lha_reader_new (st : istream) : reader :=
  {| rd_br := lha_basic_reader_new st; rd_curr := None; rd_type := CT_START; rd_decoder := None; rd_inner := IR_null;
     rd_policy := DIR_END_OF_DIR; rd_dir_stack := []; rd_deferred := []; rd_linked := false |}.

Definition lha_reader_set_dir_policy (r : reader) (p : dir_policy) : reader :=
  {| rd_br := rd_br r; rd_curr := rd_curr r; rd_type := rd_type r; rd_decoder := rd_decoder r; rd_inner := rd_inner r;
     rd_policy := p; rd_dir_stack := rd_dir_stack r; rd_deferred := rd_deferred r; rd_linked := rd_linked r |}.

Definition close_decoder (r : reader) : reader :=
  {| rd_br := rd_br r; rd_curr := rd_curr r; rd_type := rd_type r; rd_decoder := None; rd_inner := IR_null;
     rd_policy := rd_policy r; rd_dir_stack := rd_dir_stack r; rd_deferred := rd_deferred r; rd_linked := rd_linked r |}.

(* new values of reader->reader's contents, reader->decoder, reader->inner_decoder *)
Definition set_decoders (r : reader) (br : breader) (d : option dec_obj) (i : inner_ref) : reader :=
  {| rd_br := br; rd_curr := rd_curr r; rd_type := rd_type r; rd_decoder := d; rd_inner := i;
     rd_policy := rd_policy r; rd_dir_stack := rd_dir_stack r; rd_deferred := rd_deferred r; rd_linked := rd_linked r |}.

(* strncmp(a, b, strlen(b)) == 0 for C strings: b is a prefix of a *)
Fixpoint is_prefix (b a : list N) : bool :=
  match b, a with
  | [], _ => true
  | x :: r, y :: s => (x =? y) && is_prefix r s
  | _ :: _, [] => false
  end.

Definition is_dir_method (h : header) : bool := method_is h COMPRESS_TYPE_DIR.

(* the callback data pointer of a decoder: store the basic reader / read it back *)
Definition set_cb {st : Type} (d : @decoder breader st) (b : breader) : @decoder breader st :=
  {| d_inner := d_inner d; d_cb := b; d_outbuf := d_outbuf d; d_stream_pos := d_stream_pos d;
     d_stream_length := d_stream_length d; d_failed := d_failed d; d_crc := d_crc d;
     d_monitor := d_monitor d; d_last_block := d_last_block d; d_total_blocks := d_total_blocks d |}.
Definition load_br (d : idec) (b : breader) : idec :=
  {| id_max_read := id_max_read d; id_block_size := id_block_size d; id_dec := set_cb (id_dec d) b |}.
Definition idec_br (d : idec) : breader := d_cb (id_dec d).

Definition set_world (o : odec) (w : mb_world) : odec :=
  {| d_inner := d_inner o; d_cb := w; d_outbuf := d_outbuf o; d_stream_pos := d_stream_pos o;
     d_stream_length := d_stream_length o; d_failed := d_failed o; d_crc := d_crc o;
     d_monitor := d_monitor o; d_last_block := d_last_block o; d_total_blocks := d_total_blocks o |}.

Section Reader.
  Variable mktime : N -> N -> N -> N -> Z -> N -> N.
  Variable junk : N.

  (* end_of_top_dir *)
  Definition end_of_top_dir (r : reader) : outcome bool :=
    match rd_dir_stack r with
    | [] => Ok false
    | top :: _ =>
      match br_curr (rd_br r) with
      | None => Ok true
      | Some input =>
        match rd_policy r with
        | DIR_PLAIN => Ok true
        | DIR_END_OF_FILE => Ok false
        | DIR_END_OF_DIR =>
          match h_path input with
          | None => Ok true
          | Some ip =>
            match h_path top with
            | None => Fault 1401                  (* strlen(NULL) *)
            | Some tp => Ok (negb (is_prefix tp ip))
            end
          end
        end
      end
    end.

  (* lha_reader_next_file *)
  Definition lha_reader_next_file (r0 : reader) : outcome (option header * reader) :=
    let r := close_decoder r0 in
    match rd_type r with
    | CT_EOF => Ok (None, r)
    | _ =>
      (* a new current file of the basic reader is not a member of any list *)
      '(br1, linked) <- (match rd_type r with
                         | CT_START | CT_NORMAL =>
                           '(_, br') <- lha_basic_reader_next_file mktime (rd_br r) ;; Ok (br', false)
                         | _ => Ok (rd_br r, rd_linked r)
                         end) ;;
      let r1 := {| rd_br := br1; rd_curr := rd_curr r; rd_type := rd_type r; rd_decoder := None; rd_inner := IR_null;
                   rd_policy := rd_policy r; rd_dir_stack := rd_dir_stack r; rd_deferred := rd_deferred r;
                   rd_linked := linked |} in
      pop <- end_of_top_dir r1 ;;
      let r2 :=
        if pop then
          match rd_dir_stack r1 with
          | top :: rest =>
            {| rd_br := br1; rd_curr := Some top; rd_type := CT_FAKE_DIR; rd_decoder := None; rd_inner := IR_null;
               rd_policy := rd_policy r1; rd_dir_stack := rest; rd_deferred := rd_deferred r1; rd_linked := linked |}
          | [] => r1
          end
        else
          {| rd_br := br1; rd_curr := br_curr br1; rd_type := CT_NORMAL; rd_decoder := None; rd_inner := IR_null;
             rd_policy := rd_policy r1; rd_dir_stack := rd_dir_stack r1; rd_deferred := rd_deferred r1;
             rd_linked := linked |} in
      match rd_curr r2 with
      | Some h => Ok (Some h, r2)
      | None =>
        match rd_deferred r2 with
        | l :: rest =>
          Ok (Some l, {| rd_br := br1; rd_curr := Some l; rd_type := CT_DEFERRED_SYMLINK; rd_decoder := None;
                         rd_inner := IR_null; rd_policy := rd_policy r2; rd_dir_stack := rd_dir_stack r2;
                         rd_deferred := rest; rd_linked := linked |})
        | [] =>
          Ok (None, {| rd_br := br1; rd_curr := None; rd_type := CT_EOF; rd_decoder := None; rd_inner := IR_null;
                       rd_policy := rd_policy r2; rd_dir_stack := rd_dir_stack r2; rd_deferred := [];
                       rd_linked := linked |})
        end
      end
    end.

  (* lha_basic_reader_decode: NULL without a current file or for an unknown method *)
  Definition lha_basic_reader_decode (br : breader) : outcome (option idec) :=
    match br_curr br with
    | None => Ok None
    | Some h =>
      match lha_decoder_for_name (cstr (h_method h)) with
      | None => Ok None
      | Some dt =>
        s0 <- dt_init dt ;;
        Ok (Some {| id_max_read := dt_max_read dt; id_block_size := dt_block_size dt;
                    id_dec := lha_decoder_new s0 br (h_length h) |})
      end
    end.

  (* open_decoder.  monitor: a progress callback was given.
     Whatever reader->decoder / reader->inner_decoder pointed to before is
     overwritten without being freed. *)
  Definition open_decoder (r : reader) (monitor : bool) : outcome (bool * list (N * N) * reader) :=
    match rd_type r with
    | CT_NORMAL =>
      inner <- lha_basic_reader_decode (rd_br r) ;;
      match inner with
      | None => Ok (false, [], set_decoders r (rd_br r) (rd_decoder r) IR_null)
      | Some d0 =>
        let '(d1, ev) := if monitor
                         then (let '(d', e) := lha_decoder_monitor (id_block_size d0) (id_dec d0) in (with_dec d0 d', e))
                         else (d0, []) in
        match rd_curr r with
        | None => Fault 1402
        | Some ch =>
          if h_os_type ch =? OS_TYPE_MACOS then
            (* lha_macbinary_passthrough(reader->inner_decoder, reader->curr_file) *)
            '(ms, w) <- macbinary_init junk {| mw_dec := d1; mw_ev := [] |} ch ;;
            let d2 := mw_dec w in
            match ms with
            | None =>                            (* reader->decoder = NULL; the inner decoder is freed *)
              Ok (false, ev ++ mw_ev w, set_decoders r (idec_br d2) None IR_null)
            | Some m =>
              let o : odec := lha_decoder_new m {| mw_dec := d2; mw_ev := [] |} (h_length ch) in
              Ok (true, ev ++ mw_ev w, set_decoders r (idec_br d2) (Some (DO_mac o)) IR_same)
            end
          else Ok (true, ev, set_decoders r (rd_br r) (Some (DO_plain d1)) IR_same)
        end
      end
    | _ => Ok (false, [], r)
    end.

  (* lha_decoder_read(reader->decoder, ...) *)
  Definition decoder_read (r : reader) (n : N) : outcome (list N * list (N * N) * reader) :=
    match rd_decoder r with
    | Some (DO_plain d) =>
      '(o, ev, d') <- inner_read junk (load_br d (rd_br r)) n ;;
      Ok (o, ev, set_decoders r (idec_br d') (Some (DO_plain d')) (rd_inner r))
    | Some (DO_mac o) =>
      let w := {| mw_dec := load_br (mw_dec (d_cb o)) (rd_br r); mw_ev := [] |} in
      '(out, _, o') <- lha_decoder_read (macbinary_read junk) macbinary_max_read macbinary_block_size (set_world o w) n ;;
      Ok (out, mw_ev (d_cb o'), set_decoders r (idec_br (mw_dec (d_cb o'))) (Some (DO_mac o')) (rd_inner r))
    | None => Fault 1412                         (* lha_decoder_read(NULL, ...) *)
    end.

  (* lha_reader_read *)
  Definition lha_reader_read (r : reader) (n : N) : outcome (list N * list (N * N) * reader) :=
    match rd_decoder r with
    | Some _ => decoder_read r n
    | None =>
      '(ok, ev, r1) <- open_decoder r false ;;
      if ok then '(o, ev2, r2) <- decoder_read r1 n ;; Ok (o, ev ++ ev2, r2)
      else Ok ([], ev, r1)
    end.

  (* lha_decoder_get_length / lha_decoder_get_crc of reader->inner_decoder *)
  Definition inner_len_crc (r : reader) : option (N * N) :=
    match rd_inner r with
    | IR_null => None
    | IR_own d => Some (lha_decoder_get_length (id_dec d), lha_decoder_get_crc (id_dec d))
    | IR_same =>
      match rd_decoder r with
      | Some (DO_plain d) => Some (lha_decoder_get_length (id_dec d), lha_decoder_get_crc (id_dec d))
      | Some (DO_mac o) =>
        let d := mw_dec (d_cb o) in Some (lha_decoder_get_length (id_dec d), lha_decoder_get_crc (id_dec d))
      | None => None
      end
    end.

  (* do_decode: the output file, if any, is an open handle of the filesystem *)
  Definition dd_step (out : option phys) (s : reader * fs * list (N * N))
    : outcome ((reader * fs * list (N * N)) + (reader * fs * list (N * N))) :=
    let '(r, f, evs) := s in
    '(o, ev, r') <- lha_reader_read r 64 ;;
    let f' := match out with Some h => (match o with [] => f | _ => fs_write f h o end) | None => f end in
    match o with
    | [] => Ok (inr (r', f', evs ++ ev))
    | _ => Ok (inl (r', f', evs ++ ev))
    end.

  Definition do_decode (r : reader) (f : fs) (out : option phys) : outcome (bool * list (N * N) * reader * fs) :=
    '(r1, f1, evs) <- loop (dd_step out) 64 (r, f, []) ;;
    match inner_len_crc r1, rd_curr r1 with
    | Some (len, crc), Some h => Ok ((len =? h_length h) && (crc =? h_crc h), evs, r1, f1)
    | _, _ => Fault 1403                       (* inner_decoder == NULL dereferenced *)
    end.

  (* lha_reader_check *)
  Definition lha_reader_check (r : reader) (monitor : bool) : outcome (bool * list (N * N) * reader) :=
    match rd_type r, rd_curr r with
    | CT_NORMAL, Some h =>
      if is_dir_method h then Ok (true, [], r) else
      '(ok, ev, r1) <- open_decoder r monitor ;;
      if ok then
        '(res, ev2, r2, _) <- do_decode r1 {| fs_root := Dir true 0 0 []; fs_cwd := []; fs_uid0 := false;
                                              fs_umask := 0; fs_trace := [] |} None ;;
        Ok (res, ev ++ ev2, r2)
      else Ok (false, ev, r1)
    | CT_NORMAL, None => Fault 1413             (* reader->curr_file->compress_method with curr_file == NULL *)
    | _, _ => Ok (false, [], r)
    end.

  (* ---- extraction ---- *)
  Definition set_timestamps_from_header (f : fs) (path : list N) (h : header) : bool * fs :=
    if negb (h_timestamp h =? 0) then fs_utime f path (h_timestamp h) else (true, f).

  Definition set_directory_metadata (f : fs) (h : header) (path : list N) : bool * fs :=
    let '(_, f1) := set_timestamps_from_header f path h in
    let f2 := if have_extra h FILE_UNIX_UID_GID then snd (fs_chown f1 path) else f1 in
    if have_extra h FILE_UNIX_PERMS then fs_chmod f2 path (h_unix_perms h) else (true, f2).

  (* header->_next = <list>: the field must not be in use already (the list would become cyclic) *)
  Definition link_curr (site : N) (r : reader) (stack deferred : list header) : outcome reader :=
    if rd_linked r then Fault site else
    Ok {| rd_br := rd_br r; rd_curr := rd_curr r; rd_type := rd_type r; rd_decoder := rd_decoder r;
          rd_inner := rd_inner r; rd_policy := rd_policy r; rd_dir_stack := stack; rd_deferred := deferred;
          rd_linked := true |}.

  Definition extract_directory (r : reader) (f : fs) (path : option (list N)) : outcome (bool * reader * fs) :=
    match rd_curr r with
    | None => Fault 1404
    | Some h =>
      match (match path with Some p => Some p | None => h_path h end) with
      | None => Fault 1405                     (* mkdir(NULL) *)
      | Some p =>
        let mode := if have_extra h FILE_UNIX_PERMS then 448 (* 0700 *) else 511 (* 0777 *) in
        let '(ok, f1) := arch_mkdir f p mode in
        if negb ok then
          Ok (match arch_exists f1 p with FT_DIRECTORY => true | _ => false end, r, f1)
        else
          match rd_policy r with
          | DIR_PLAIN => let '(_, f2) := set_directory_metadata f1 h p in Ok (true, r, f2)
          | _ => r' <- link_curr 1411 r (h :: rd_dir_stack r) (rd_deferred r) ;; Ok (true, r', f1)
          end
      end
    end.

  Definition extract_file (r : reader) (f : fs) (filename : option (list N)) (monitor : bool)
    : outcome (bool * list (N * N) * reader * fs) :=
    match rd_curr r with
    | None => Fault 1406
    | Some h =>
      let fname := match filename with Some n => n | None => full_path h end in
      '(ok, ev, r1) <- open_decoder r monitor ;;
      if negb ok then Ok (false, ev, r1, f) else
      let perms := if have_extra h FILE_UNIX_PERMS then Some (h_unix_perms h) else None in
      match arch_fopen f fname perms with
      | (None, f1) => Ok (false, ev, r1, f1)
      | (Some hd, f1) =>
        '(res, ev2, r2, f2) <- do_decode r1 f1 (Some hd) ;;
        let f3 := if res then snd (set_timestamps_from_header f2 fname h) else f2 in
        Ok (res, ev ++ ev2, r2, f3)
      end
    end.

  (* is_dangerous_symlink: starts with '/' or has a ".." component *)
  Fixpoint has_dotdot (l : list N) (cur : list N) : bool :=
    match l with
    | [] => match cur with [46; 46] => true | _ => false end
    | c :: r => if c =? 47 then (match cur with [46; 46] => true | _ => has_dotdot r [] end)
                else has_dotdot r (cur ++ [c])
    end.
  Definition is_dangerous_symlink (h : header) : bool :=
    match h_symlink_target h with
    | None => false
    | Some t => match t with 47 :: _ => true | _ => has_dotdot t [] end
    end.

  Definition file_header_path_len (h : header) : N := nlen (opt_str (h_path h)) + nlen (opt_str (h_filename h)).

  (* insertion keeping decreasing path length: skip while len(rover) > len(curr) *)
  Fixpoint insert_deferred (l : list header) (h : header) : list header :=
    match l with
    | [] => [h]
    | x :: r => if file_header_path_len h <? file_header_path_len x then x :: insert_deferred r h else h :: l
    end.

  Definition extract_placeholder_symlink (r : reader) (f : fs) (filename : list N) : outcome (bool * reader * fs) :=
    match arch_fopen f filename (Some 384) with
    | (None, f1) => Ok (false, r, f1)
    | (Some _, f1) =>
      match rd_curr r with
      | None => Fault 1407
      | Some h =>
        r' <- link_curr 1414 r (rd_dir_stack r) (insert_deferred (rd_deferred r) h) ;;
        Ok (true, r', f1)
      end
    end.

  Definition extract_symlink (r : reader) (f : fs) (filename : option (list N)) : outcome (bool * reader * fs) :=
    match rd_curr r with
    | None => Fault 1408
    | Some h =>
      let fname := match filename with Some n => n | None => full_path h end in
      if (match rd_type r with CT_NORMAL => true | _ => false end) && is_dangerous_symlink h then
        extract_placeholder_symlink r f fname
      else
        match h_symlink_target h with
        | None => Fault 1409                      (* symlink(NULL, ...) *)
        | Some t => let '(ok, f1) := arch_symlink f fname t in Ok (ok, r, f1)
        end
    end.

  (* lha_reader_extract *)
  Definition lha_reader_extract (r : reader) (f : fs) (filename : option (list N)) (monitor : bool)
    : outcome (bool * list (N * N) * reader * fs) :=
    match rd_type r, rd_curr r with
    | CT_NORMAL, Some h =>
      if negb (is_dir_method h) then extract_file r f filename monitor
      else
        match h_symlink_target h with
        | Some _ => '(ok, r1, f1) <- extract_symlink r f filename ;; Ok (ok, [], r1, f1)
        | None => '(ok, r1, f1) <- extract_directory r f filename ;; Ok (ok, [], r1, f1)
        end
    | CT_NORMAL, None => Fault 1415             (* reader->curr_file->compress_method with curr_file == NULL *)
    | CT_FAKE_DIR, Some h =>
      match (match filename with Some n => Some n | None => h_path h end) with
      | None => Fault 1410
      | Some p => let '(_, f1) := set_directory_metadata f h p in Ok (true, [], r, f1)
      end
    | CT_DEFERRED_SYMLINK, Some _ => '(ok, r1, f1) <- extract_symlink r f filename ;; Ok (ok, [], r1, f1)
    | _, _ => Ok (false, [], r, f)
    end.

  Definition lha_reader_current_is_fake (r : reader) : bool :=
    match rd_type r with CT_FAKE_DIR | CT_DEFERRED_SYMLINK => true | _ => false end.
End Reader.

(* ---- memory: decoders lost by open_decoder ----
   open_decoder assigns reader->inner_decoder and reader->decoder without
   looking at what they point to; close_decoder (lha_reader_next_file,
   lha_reader_free) frees only what they point to then.  A decoder that one of
   them still points to when open_decoder allocates a new one is never freed.
   These predicates say whether the next API call does that; the differential
   test compares them with LeakSanitizer's verdict on the C. *)
Definition has_live_decoder (r : reader) : bool :=
  match rd_decoder r, rd_inner r with None, IR_null => false | _, _ => true end.

(* open_decoder, called now, gets a decoder from lha_basic_reader_decode *)
Definition open_allocates (r : reader) : bool :=
  match rd_type r with
  | CT_NORMAL =>
    match br_curr (rd_br r) with
    | Some h => match lha_decoder_for_name (cstr (h_method h)) with Some _ => true | None => false end
    | None => false
    end
  | _ => false
  end.

Definition read_loses_decoder (r : reader) : bool :=
  match rd_decoder r with
  | None => open_allocates r && has_live_decoder r
  | Some _ => false
  end.

(* lha_reader_check, and lha_reader_extract of a regular file *)
Definition check_loses_decoder (r : reader) : bool :=
  match rd_type r, rd_curr r with
  | CT_NORMAL, Some h => negb (is_dir_method h) && open_allocates r && has_live_decoder r
  | _, _ => false
  end.

(* Reader.v -- model of lib/lha_reader.c over the filesystem model.
   While a decoder is open the basic reader's state lives inside it (the
   decoder's callback data is the LHABasicReader), so the authoritative
   breader is [reader_br]. *)
From Lhasa Require Import Base DecBase Loop Generated InputStream Header BasicReader AnyDecoder Decoder
  MacBinary Fs FsRun.
Local Open Scope N_scope.

Inductive curr_type : Type := CT_START | CT_NORMAL | CT_FAKE_DIR | CT_DEFERRED_SYMLINK | CT_EOF.
Inductive dir_policy : Type := DIR_PLAIN | DIR_END_OF_DIR | DIR_END_OF_FILE.

Definition odec := @decoder idec mb_state.     (* the MacBinary pass-through; its callback data is the inner decoder *)

(* reader->decoder / reader->inner_decoder *)
Inductive dec_slot : Type :=
| D_none
| D_plain (mr bs : N) (d : idec)               (* decoder == inner_decoder *)
| D_mac (mr bs : N) (o : odec)                 (* decoder = pass-through around inner_decoder *)
| D_inner_only (mr bs : N) (d : idec).         (* decoder == NULL, inner_decoder != NULL (pass-through failed) *)

Record reader := {
  rd_br : breader;                 (* valid when rd_dec = D_none *)
  rd_curr : option header;
  rd_type : curr_type;
  rd_dec : dec_slot;
  rd_policy : dir_policy;
  rd_dir_stack : list header;
  rd_deferred : list header
}.

Definition reader_br (r : reader) : breader :=
  match rd_dec r with
  | D_none => rd_br r
  | D_plain _ _ d => d_cb d
  | D_mac _ _ o => d_cb (d_cb o)
  | D_inner_only _ _ d => d_cb d
  end.

Definition lha_reader_new (st : istream) : reader :=
  {| rd_br := lha_basic_reader_new st; rd_curr := None; rd_type := CT_START; rd_dec := D_none;
     rd_policy := DIR_END_OF_DIR; rd_dir_stack := []; rd_deferred := [] |}.

Definition lha_reader_set_dir_policy (r : reader) (p : dir_policy) : reader :=
  {| rd_br := rd_br r; rd_curr := rd_curr r; rd_type := rd_type r; rd_dec := rd_dec r;
     rd_policy := p; rd_dir_stack := rd_dir_stack r; rd_deferred := rd_deferred r |}.

Definition close_decoder (r : reader) : reader :=
  {| rd_br := reader_br r; rd_curr := rd_curr r; rd_type := rd_type r; rd_dec := D_none;
     rd_policy := rd_policy r; rd_dir_stack := rd_dir_stack r; rd_deferred := rd_deferred r |}.

Definition with_dec (r : reader) (d : dec_slot) : reader :=
  {| rd_br := rd_br r; rd_curr := rd_curr r; rd_type := rd_type r; rd_dec := d;
     rd_policy := rd_policy r; rd_dir_stack := rd_dir_stack r; rd_deferred := rd_deferred r |}.

(* strncmp(a, b, strlen(b)) == 0 for C strings: b is a prefix of a *)
Fixpoint is_prefix (b a : list N) : bool :=
  match b, a with
  | [], _ => true
  | x :: r, y :: s => (x =? y) && is_prefix r s
  | _ :: _, [] => false
  end.

Definition is_dir_method (h : header) : bool := method_is h COMPRESS_TYPE_DIR.

Section Reader.
  Variable mktime : N -> N -> N -> N -> Z -> N -> N.
  Variable junk : N.

  (* end_of_top_dir *)
  Definition end_of_top_dir (r : reader) : outcome bool :=
    match rd_dir_stack r with
    | [] => Ok false
    | top :: _ =>
      match br_curr (reader_br r) with
      | None => Ok true
      | Some input =>
        match rd_policy r with
        | DIR_PLAIN => Ok true
        | DIR_END_OF_FILE => Ok false
        | DIR_END_OF_DIR =>
          match h_path input with
          | None => Ok true
          | Some ip =>
            match h_path top with
            | None => Fault 1401                  (* strlen(NULL) *)
            | Some tp => Ok (negb (is_prefix tp ip))
            end
          end
        end
      end
    end.

  (* lha_reader_next_file *)
  Definition lha_reader_next_file (r0 : reader) : outcome (option header * reader) :=
    let r := close_decoder r0 in
    match rd_type r with
    | CT_EOF => Ok (None, r)
    | _ =>
      br1 <- (match rd_type r with
              | CT_START | CT_NORMAL =>
                '(_, br') <- lha_basic_reader_next_file mktime (rd_br r) ;; Ok br'
              | _ => Ok (rd_br r)
              end) ;;
      let r1 := {| rd_br := br1; rd_curr := rd_curr r; rd_type := rd_type r; rd_dec := D_none;
                   rd_policy := rd_policy r; rd_dir_stack := rd_dir_stack r; rd_deferred := rd_deferred r |} in
      pop <- end_of_top_dir r1 ;;
      let r2 :=
        if pop then
          match rd_dir_stack r1 with
          | top :: rest =>
            {| rd_br := br1; rd_curr := Some top; rd_type := CT_FAKE_DIR; rd_dec := D_none;
               rd_policy := rd_policy r1; rd_dir_stack := rest; rd_deferred := rd_deferred r1 |}
          | [] => r1
          end
        else
          {| rd_br := br1; rd_curr := br_curr br1; rd_type := CT_NORMAL; rd_dec := D_none;
             rd_policy := rd_policy r1; rd_dir_stack := rd_dir_stack r1; rd_deferred := rd_deferred r1 |} in
      match rd_curr r2 with
      | Some h => Ok (Some h, r2)
      | None =>
        match rd_deferred r2 with
        | l :: rest =>
          Ok (Some l, {| rd_br := br1; rd_curr := Some l; rd_type := CT_DEFERRED_SYMLINK; rd_dec := D_none;
                         rd_policy := rd_policy r2; rd_dir_stack := rd_dir_stack r2; rd_deferred := rest |})
        | [] =>
          Ok (None, {| rd_br := br1; rd_curr := None; rd_type := CT_EOF; rd_dec := D_none;
                       rd_policy := rd_policy r2; rd_dir_stack := rd_dir_stack r2; rd_deferred := [] |})
        end
      end
    end.

  (* lha_basic_reader_decode + open_decoder.  monitor: a progress callback was given. *)
  Definition open_decoder (r : reader) (monitor : bool) : outcome (bool * list (N * N) * reader) :=
    match rd_type r with
    | CT_NORMAL =>
      let br := reader_br r in
      match br_curr br with
      | None => Ok (false, [], r)
      | Some h =>
        match lha_decoder_for_name (cstr (h_method h)) with
        | None => Ok (false, [], with_dec (close_decoder r) D_none)
        | Some dt =>
          s0 <- dt_init dt ;;
          let d0 : idec := lha_decoder_new s0 br (h_length h) in
          let '(d1, ev) := if monitor then lha_decoder_monitor (dt_block_size dt) d0 else (d0, []) in
          match rd_curr r with
          | None => Fault 1402
          | Some ch =>
            if h_os_type ch =? OS_TYPE_MACOS then
              '(ms, d2) <- macbinary_init junk (dt_max_read dt) (dt_block_size dt) d1 ch ;;
              match ms with
              | None => Ok (false, ev, with_dec r (D_inner_only (dt_max_read dt) (dt_block_size dt) d2))
              | Some m =>
                let o : odec := lha_decoder_new m d2 (h_length ch) in
                Ok (true, ev, with_dec r (D_mac (dt_max_read dt) (dt_block_size dt) o))
              end
            else Ok (true, ev, with_dec r (D_plain (dt_max_read dt) (dt_block_size dt) d1))
          end
        end
      end
    | _ => Ok (false, [], r)
    end.

  (* lha_decoder_read(reader->decoder, ...) *)
  Definition slot_read (r : reader) (n : N) : outcome (list N * list (N * N) * reader) :=
    match rd_dec r with
    | D_plain mr bs d =>
      '(o, ev, d') <- inner_read junk mr bs d n ;; Ok (o, ev, with_dec r (D_plain mr bs d'))
    | D_mac mr bs o =>
      '(out, _, o') <- lha_decoder_read (macbinary_read junk mr bs) macbinary_max_read macbinary_block_size o n ;;
      Ok (out, [], with_dec r (D_mac mr bs o'))
    | _ => Ok ([], [], r)
    end.

  Definition has_decoder (r : reader) : bool :=
    match rd_dec r with D_plain _ _ _ | D_mac _ _ _ => true | _ => false end.

  (* lha_reader_read *)
  Definition lha_reader_read (r : reader) (n : N) : outcome (list N * list (N * N) * reader) :=
    if has_decoder r then slot_read r n
    else
      '(ok, ev, r1) <- open_decoder r false ;;
      if ok then '(o, ev2, r2) <- slot_read r1 n ;; Ok (o, ev ++ ev2, r2)
      else Ok ([], ev, r1).

  (* the inner decoder's length and CRC *)
  Definition inner_len_crc (r : reader) : option (N * N) :=
    match rd_dec r with
    | D_plain _ _ d => Some (lha_decoder_get_length d, lha_decoder_get_crc d)
    | D_mac _ _ o => Some (lha_decoder_get_length (d_cb o), lha_decoder_get_crc (d_cb o))
    | D_inner_only _ _ d => Some (lha_decoder_get_length d, lha_decoder_get_crc d)
    | D_none => None
    end.

  (* do_decode: the output file, if any, is an open handle of the filesystem *)
  Definition dd_step (out : option phys) (s : reader * fs * list (N * N))
    : outcome ((reader * fs * list (N * N)) + (reader * fs * list (N * N))) :=
    let '(r, f, evs) := s in
    '(o, ev, r') <- lha_reader_read r 64 ;;
    let f' := match out with Some h => (match o with [] => f | _ => fs_write f h o end) | None => f end in
    match o with
    | [] => Ok (inr (r', f', evs ++ ev))
    | _ => Ok (inl (r', f', evs ++ ev))
    end.

  Definition do_decode (r : reader) (f : fs) (out : option phys) : outcome (bool * list (N * N) * reader * fs) :=
    '(r1, f1, evs) <- loop (dd_step out) 64 (r, f, []) ;;
    match inner_len_crc r1, rd_curr r1 with
    | Some (len, crc), Some h => Ok ((len =? h_length h) && (crc =? h_crc h), evs, r1, f1)
    | _, _ => Fault 1403                       (* inner_decoder == NULL dereferenced *)
    end.

  (* lha_reader_check *)
  Definition lha_reader_check (r : reader) (monitor : bool) : outcome (bool * list (N * N) * reader) :=
    match rd_type r, rd_curr r with
    | CT_NORMAL, Some h =>
      if is_dir_method h then Ok (true, [], r) else
      '(ok, ev, r1) <- open_decoder r monitor ;;
      if ok then
        '(res, ev2, r2, _) <- do_decode r1 {| fs_root := Dir true 0 0 []; fs_cwd := []; fs_uid0 := false;
                                              fs_umask := 0; fs_trace := [] |} None ;;
        Ok (res, ev ++ ev2, r2)
      else Ok (false, ev, r1)
    | _, _ => Ok (false, [], r)
    end.

  (* ---- extraction ---- *)
  Definition set_timestamps_from_header (f : fs) (path : list N) (h : header) : bool * fs :=
    if negb (h_timestamp h =? 0) then fs_utime f path (h_timestamp h) else (true, f).

  Definition set_directory_metadata (f : fs) (h : header) (path : list N) : bool * fs :=
    let '(_, f1) := set_timestamps_from_header f path h in
    let f2 := if have_extra h FILE_UNIX_UID_GID then snd (fs_chown f1 path) else f1 in
    if have_extra h FILE_UNIX_PERMS then fs_chmod f2 path (h_unix_perms h) else (true, f2).

  Definition extract_directory (r : reader) (f : fs) (path : option (list N)) : outcome (bool * reader * fs) :=
    match rd_curr r with
    | None => Fault 1404
    | Some h =>
      match (match path with Some p => Some p | None => h_path h end) with
      | None => Fault 1405                     (* mkdir(NULL) *)
      | Some p =>
        let mode := if have_extra h FILE_UNIX_PERMS then 448 (* 0700 *) else 511 (* 0777 *) in
        let '(ok, f1) := arch_mkdir f p mode in
        if negb ok then
          Ok (match arch_exists f1 p with FT_DIRECTORY => true | _ => false end, r, f1)
        else
          match rd_policy r with
          | DIR_PLAIN => let '(_, f2) := set_directory_metadata f1 h p in Ok (true, r, f2)
          | _ =>
            Ok (true, {| rd_br := rd_br r; rd_curr := rd_curr r; rd_type := rd_type r; rd_dec := rd_dec r;
                         rd_policy := rd_policy r; rd_dir_stack := h :: rd_dir_stack r;
                         rd_deferred := rd_deferred r |}, f1)
          end
      end
    end.

  Definition extract_file (r : reader) (f : fs) (filename : option (list N)) (monitor : bool)
    : outcome (bool * list (N * N) * reader * fs) :=
    match rd_curr r with
    | None => Fault 1406
    | Some h =>
      let fname := match filename with Some n => n | None => full_path h end in
      '(ok, ev, r1) <- open_decoder r monitor ;;
      if negb ok then Ok (false, ev, r1, f) else
      let perms := if have_extra h FILE_UNIX_PERMS then Some (h_unix_perms h) else None in
      match arch_fopen f fname perms with
      | (None, f1) => Ok (false, ev, r1, f1)
      | (Some hd, f1) =>
        '(res, ev2, r2, f2) <- do_decode r1 f1 (Some hd) ;;
        let f3 := if res then snd (set_timestamps_from_header f2 fname h) else f2 in
        Ok (res, ev ++ ev2, r2, f3)
      end
    end.

  (* is_dangerous_symlink: starts with '/' or has a ".." component *)
  Fixpoint has_dotdot (l : list N) (cur : list N) : bool :=
    match l with
    | [] => match cur with [46; 46] => true | _ => false end
    | c :: r => if c =? 47 then (match cur with [46; 46] => true | _ => has_dotdot r [] end)
                else has_dotdot r (cur ++ [c])
    end.
  Definition is_dangerous_symlink (h : header) : bool :=
    match h_symlink_target h with
    | None => false
    | Some t => match t with 47 :: _ => true | _ => has_dotdot t [] end
    end.

  Definition file_header_path_len (h : header) : N := nlen (opt_str (h_path h)) + nlen (opt_str (h_filename h)).

  (* insertion keeping decreasing path length: skip while len(rover) > len(curr) *)
  Fixpoint insert_deferred (l : list header) (h : header) : list header :=
    match l with
    | [] => [h]
    | x :: r => if file_header_path_len h <? file_header_path_len x then x :: insert_deferred r h else h :: l
    end.

  Definition extract_placeholder_symlink (r : reader) (f : fs) (filename : list N) : outcome (bool * reader * fs) :=
    match arch_fopen f filename (Some 384) with
    | (None, f1) => Ok (false, r, f1)
    | (Some _, f1) =>
      match rd_curr r with
      | None => Fault 1407
      | Some h =>
        Ok (true, {| rd_br := rd_br r; rd_curr := rd_curr r; rd_type := rd_type r; rd_dec := rd_dec r;
                     rd_policy := rd_policy r; rd_dir_stack := rd_dir_stack r;
                     rd_deferred := insert_deferred (rd_deferred r) h |}, f1)
      end
    end.

  Definition extract_symlink (r : reader) (f : fs) (filename : option (list N)) : outcome (bool * reader * fs) :=
    match rd_curr r with
    | None => Fault 1408
    | Some h =>
      let fname := match filename with Some n => n | None => full_path h end in
      if (match rd_type r with CT_NORMAL => true | _ => false end) && is_dangerous_symlink h then
        extract_placeholder_symlink r f fname
      else
        match h_symlink_target h with
        | None => Fault 1409                      (* symlink(NULL, ...) *)
        | Some t => let '(ok, f1) := arch_symlink f fname t in Ok (ok, r, f1)
        end
    end.

  (* lha_reader_extract *)
  Definition lha_reader_extract (r : reader) (f : fs) (filename : option (list N)) (monitor : bool)
    : outcome (bool * list (N * N) * reader * fs) :=
    match rd_type r, rd_curr r with
    | CT_NORMAL, Some h =>
      if negb (is_dir_method h) then extract_file r f filename monitor
      else
        match h_symlink_target h with
        | Some _ => '(ok, r1, f1) <- extract_symlink r f filename ;; Ok (ok, [], r1, f1)
        | None => '(ok, r1, f1) <- extract_directory r f filename ;; Ok (ok, [], r1, f1)
        end
    | CT_FAKE_DIR, Some h =>
      match (match filename with Some n => Some n | None => h_path h end) with
      | None => Fault 1410
      | Some p => let '(_, f1) := set_directory_metadata f h p in Ok (true, [], r, f1)
      end
    | CT_DEFERRED_SYMLINK, Some _ => '(ok, r1, f1) <- extract_symlink r f filename ;; Ok (ok, [], r1, f1)
    | _, _ => Ok (false, [], r, f)
    end.

  Definition lha_reader_current_is_fake (r : reader) : bool :=
    match rd_type r with CT_FAKE_DIR | CT_DEFERRED_SYMLINK => true | _ => false end.
End Reader.

(* P_CliTreeSlashEx.v -- non-vacuity of extract_archive_below_slash: "lha xw=out/" (trailing slash) on the archive
   of P_CliTreeEx.v, "out" present. *)
From Lhasa Require Import Base ListN DecBase Loop Generated Crc16 InputStream Header BasicReader
  AnyDecoder Decoder MacBinary Fs FsRun Reader Glob ListOut CliFilter CliExtract CliMain
  P_ReaderCheck P_FsExtract P_ReaderExtract P_CliExtract P_CliTree P_CliTreeEx
  P_FsReplace P_CliOverwrite P_CliExtractGen P_CliTreeGen P_CliWdir P_CliOptsEx P_CliWdirN P_CliExtractFn P_CliTreeSlash.
Local Open Scope N_scope.

Definition sl_fs : fs := cli_fs_init false exa 1200000000 [OMkdir n_out 493].
Definition o_ws : lha_options := set_extract_path init_options (Some (n_out ++ [47])).
Definition sl_st : cli_state :=
  {| cs_fs := sl_fs; cs_reader := cs_reader ex_st; cs_opts := o_ws; cs_stdin := []; cs_stdin_shared := false;
     cs_out := []; cs_err := [] |}.

Example ex_wdir_slash :
  exists st', extract_archive mktime_utc 0 (lha_filter_init []) sl_st = Ok (RVal true, st') /\
    fs_root (cs_fs st') = update_at (fs_root sl_fs) (fs_cwd sl_fs ++ [] ++ [n_out])
      (const_some (Dir true 493 now ([] ++ builds 18 ex_items))).
Proof.
  assert (Hg : good_name n_out).
  { split; [discriminate|split; [repeat constructor; discriminate|repeat split; vm_compute; reflexivity]]. }
  assert (Hgbl : Forall good_name ([] ++ [n_out])) by (constructor; [exact Hg|constructor]).
  destruct (extract_archive_below_slash mktime_utc 0 (lha_filter_init []) eq_refl 18 false (conj eq_refl eq_refl)
              [] n_out Hgbl ex_items sl_st true 493 0 []) as (st' & Hex & _ & _ & Hroot).
  - exact ex_wf.
  - constructor; [|constructor]. cbn [fitsS].
    split; [vm_compute; discriminate|]. split; [vm_compute; discriminate|]. split; [vm_compute; discriminate|exact I].
  - repeat constructor. intros [].
  - intros c _. reflexivity.
  - eapply (sl_opts_wdir [] n_out o_ws (n_out ++ [47])); reflexivity.
  - reflexivity.
  - reflexivity.
  - split; [exact Hgbl|]. split.
    + change ([] ++ [n_out]) with ([] ++ [n_out]). apply chain_snoc.
      * apply chain_nil. eexists _, _, _, _. split; vm_compute; reflexivity.
      * eexists _, _, _, _. split; vm_compute; reflexivity.
    + split; vm_compute; reflexivity.
  - reflexivity.
  - exact ex_rinv.
  - exact ex_upcoming.
  - vm_compute. reflexivity.
  - exists st'. split; [exact Hex|exact Hroot].
Qed.

Print Assumptions ex_wdir_slash.

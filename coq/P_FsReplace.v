(* P_FsReplace.v -- C06, filesystem level: lha_arch_fopen at a place where a
   regular file (or a symbolic link) already exists.  unlink removes the entry,
   open(O_CREAT|O_EXCL) then creates a new one: the old contents, mode, time and
   owner are gone, the new file is the last entry of the directory.  Needs: the
   directory holds at most one entry per name, and the process may delete the
   old entry (write+search on the directory; in a sticky directory it must own
   the directory or the entry). *)
From Lhasa Require Import Base ListN Fs FsRun P_ReaderCheck P_FsExtract.
From Coq Require Import ZifyBool ZifyN ZifyNat.
Local Open Scope N_scope.

Set Default Timeout 60.

Definition nodup_names (ents : list (name * node)) : Prop := NoDup (map fst ents).

Lemma lookup_none_notin ents c : ~ In c (map fst ents) -> lookup ents c = None.
Proof.
  induction ents as [|[k v] r IH]; intros H; [reflexivity|]. cbn [lookup].
  rewrite name_eqb_neq; [apply IH; intros Hin; apply H; right; exact Hin|].
  intros E. apply H. left. exact E.
Qed.

Lemma lookup_remove_same ents c : nodup_names ents -> lookup (remove_ent ents c) c = None.
Proof.
  unfold nodup_names. induction ents as [|[k v] r IH]; intros H; [reflexivity|].
  cbn [map fst] in H. inversion H as [|k0 l0 Hnin Hnd]; subst k0 l0. cbn [remove_ent].
  destruct (name_eqb k c) eqn:E.
  - apply name_eqb_eq in E. subst k. apply lookup_none_notin. exact Hnin.
  - cbn [lookup]. rewrite E. apply IH. exact Hnd.
Qed.

Lemma lookup_remove_other ents c c' : c <> c' -> lookup (remove_ent ents c) c' = lookup ents c'.
Proof.
  intros Hne. induction ents as [|[k v] r IH]; [reflexivity|]. cbn [remove_ent lookup].
  destruct (name_eqb k c) eqn:E.
  - apply name_eqb_eq in E. subst k. rewrite (name_eqb_neq c c') by exact Hne. reflexivity.
  - cbn [lookup]. rewrite IH. reflexivity.
Qed.

Lemma remove_in ents c x : In x (map fst (remove_ent ents c)) -> In x (map fst ents).
Proof.
  induction ents as [|[k v] r IH]; intros H; [exact H|]. cbn [remove_ent] in H.
  destruct (name_eqb k c); [right; exact H|]. cbn [map fst] in *. destruct H as [H|H]; [left; exact H|right; apply IH; exact H].
Qed.

Lemma nodup_remove ents c : nodup_names ents -> nodup_names (remove_ent ents c).
Proof.
  unfold nodup_names. induction ents as [|[k v] r IH]; intros H; [exact H|].
  cbn [map fst] in H. inversion H as [|k0 l0 Hnin Hnd]; subst k0 l0. cbn [remove_ent].
  destruct (name_eqb k c); [exact Hnd|]. cbn [map fst]. constructor; [|apply IH; exact Hnd].
  intros Hin. apply Hnin. eapply remove_in. exact Hin.
Qed.

Section Replace.
  Variables (s : fs) (p : list N) (pre : list name) (last : name).
  Hypothesis Hat : at_path s p pre last.
  Let parent := fs_cwd s ++ pre.
  Let loc := parent ++ [last].

  (* unlink of a regular file or a symbolic link *)
  Lemma unlink_existing victim po pp pt pe :
    trailing_slash p = false ->
    node_at (fs_root s) loc = Some victim -> (forall o m t e, victim <> Dir o m t e) ->
    node_at (fs_root s) parent = Some (Dir po pp pt pe) ->
    can_delete (fs_uid0 s) (Dir po pp pt pe) victim = true ->
    exists s1, fs_unlink s p = (true, s1) /\ same_env s s1 /\
      fs_root s1 = update_at (fs_root s) parent (const_some (Dir po pp now (remove_ent pe last))).
  Proof.
    intros Hts Hn Hnd Hpar Hdel. unfold fs_unlink. rewrite Hts. unfold resolve. rewrite Hts.
    rewrite (resolve_at s p pre last Hat). unfold walk_end. fold parent loc. rewrite Hn.
    destruct victim as [o1 m1 t1 e1|o1 m1 t1 d1|tg]; [exfalso; eapply Hnd; reflexivity| |];
      cbn [negb orb]; rewrite Hpar, Hdel;
      (eexists; split; [reflexivity|]; split; [apply same_env_log|]; cbn [fs_root log];
       eapply set_entry_none; exact Hpar).
  Qed.

  (* A'. lha_arch_fopen over an existing file or link, the chunks, utime *)
  Theorem fs_file_replaced victim perms chunks ts po pp pt pe :
    trailing_slash p = false ->
    node_at (fs_root s) loc = Some victim -> (forall o m t e, victim <> Dir o m t e) ->
    node_at (fs_root s) parent = Some (Dir po pp pt pe) ->
    can_delete (fs_uid0 s) (Dir po pp pt pe) victim = true -> nodup_names pe ->
    let m := match perms with Some x => N.land x 4095 | None => apply_umask s 384 end in
    (fs_uid0 s = true \/ drop_setid m = m) ->
    exists s1 s3,
      arch_fopen s p perms = (Some loc, s1) /\
      fs_utime (write_chunks loc chunks s1) p ts = (true, s3) /\
      same_env s s3 /\
      fs_root s3 = update_at (fs_root s) parent
                     (const_some (Dir po pp now (remove_ent pe last ++ [(last, File true m ts (concat chunks))]))) /\
      same_env s (write_chunks loc chunks s1) /\
      fs_root (write_chunks loc chunks s1) =
        update_at (fs_root s) parent
          (const_some (Dir po pp now (remove_ent pe last ++ [(last, File true m now (concat chunks))]))).
  Proof.
    intros Hts Hn Hnd Hpar Hdel Hnodup m Hm.
    destruct (unlink_existing victim po pp pt pe Hts Hn Hnd Hpar Hdel) as (s0 & Hun & Henv0 & Hr0).
    assert (Hcwd0 : fs_cwd s0 = fs_cwd s) by apply Henv0.
    assert (Hat0 : at_path s0 p pre last) by (eapply at_path_update; eauto).
    assert (Hpar0 : node_at (fs_root s0) (fs_cwd s0 ++ pre) = Some (Dir po pp now (remove_ent pe last))).
    { rewrite Hcwd0, Hr0. eapply node_at_update_const_same. exact Hpar. }
    assert (Hnone0 : node_at (fs_root s0) ((fs_cwd s0 ++ pre) ++ [last]) = None).
    { rewrite (child_lookup _ _ _ _ _ _ last Hpar0). apply lookup_remove_same. exact Hnodup. }
    assert (Hw : can_write_dir (fs_uid0 s0) (Dir po pp now (remove_ent pe last)) = true).
    { destruct Henv0 as (_ & E & _). rewrite E. unfold can_delete in Hdel. apply andb_prop in Hdel. exact (proj1 Hdel). }
    destruct (fs_file_extracted s0 p pre last perms chunks ts po pp now (remove_ent pe last) Hat0 Hts Hnone0 Hpar0 Hw)
      as (s1 & s3 & Hop & Hut & Henv3 & Hr3 & Henv2 & Hr2).
    { destruct Henv0 as (_ & E & E'). rewrite E. unfold apply_umask. rewrite E'. exact Hm. }
    exists s1, s3.
    assert (Hop' : arch_fopen s p perms = (Some loc, s1)).
    { unfold arch_fopen in *. rewrite Hun. rewrite (unlink_none s0 p pre last Hat0 Hnone0) in Hop.
      rewrite Hcwd0 in Hop. exact Hop. }
    assert (Hm0 : match perms with Some x => N.land x 4095 | None => apply_umask s0 384 end = m).
    { unfold m, apply_umask. destruct Henv0 as (_ & _ & E'). rewrite E'. reflexivity. }
    rewrite Hcwd0, Hm0 in *. fold parent loc in Hut, Hr3, Henv2, Hr2.
    split; [exact Hop'|]. split; [exact Hut|]. split; [exact (same_env_trans _ _ _ Henv0 Henv3)|].
    split; [rewrite Hr3, Hr0; apply update_const_twice|].
    split; [exact (same_env_trans _ _ _ Henv0 Henv2)|]. rewrite Hr2, Hr0. apply update_const_twice.
  Qed.
End Replace.

Print Assumptions fs_file_replaced.
